(** C13 — executable model of
      lib/merkle/{hash,simple_tree,simple_proof}.go   (leaf/inner hash, split point, root, proofs, Verify)
      types/part_set.go                              (NewPartSetFromData, NewPartSetFromHeader, AddPart,
                                                      IsComplete, GetReader)
      types/block.go, types/commit.go                (Header.ToProto/Marshal/Hash, Commit.Hash,
                                                      EvidenceList.Hash, Block.ValidateBasic)
    transcribed branch by branch from the code as it is today (AddPart includes the Index/Total
    comparison of commit 69cc916).  No proofs in this file.

    Bytes are [list N] (values 0..255).  The Merkle hash (SHA-256 in lib/merkle/khash.go [Sum]) is the
    section variable [H]; the block/evidence hash (Keccak-256, types/block.go [hash]) is [K]; the
    transaction root (DeriveSha with a trie hasher, C07) is [TxRoot].  Go's nil and empty slices are
    identified (every comparison in the modelled code is [bytes.Equal] / [len]). *)
From Coq Require Import List ZArith NArith Bool Lia.
From Kardia Require Import Base.Int64 Base.ListX Generated.C13Facts.
Import ListNotations.
Local Open Scope N_scope.

Definition bytes := list N.

Fixpoint bytes_eqb (a b : bytes) : bool :=
  match a, b with
  | [], [] => true
  | x :: a', y :: b' => N.eqb x y && bytes_eqb a' b'
  | _, _ => false
  end.

(** [getSplitPoint]: the largest power of two strictly below [n] (callers pass n >= 2; for n = 1
    the Go code yields 0, for n < 1 it panics — never reached by the callers modelled here). *)
Definition split_point (n : N) : N :=
  let k := N.pow 2 (N.log2 n) in      (* 1 << (bits.Len(n) - 1) *)
  if N.eqb k n then N.div k 2 else k.

(** uint32 arithmetic of NewPartSetFromData *)
Definition two32 : N := 4294967296.

(** [int(x)] for a uint64 [x] (amd64/arm64: int is 64 bit) *)
Definition to_int (n : N) : Z := wrap64 (Z.of_N n).

Record proof := { p_total : N; p_index : N; p_leaf : bytes; p_aunts : list bytes }.

Inductive verr := VOk | VLeafHash | VRootHash.

Section Merkle.
  Variable H : bytes -> bytes.

  Definition leaf_hash (x : bytes) : bytes := H (0 :: x).
  Definition inner_hash (l r : bytes) : bytes := H (1 :: l ++ r).

  (** [SimpleHashFromByteSlices]; the recursion on [items[:k]] / [items[k:]] is not structural, the
      fuel is the number of items (Proofs: it never runs out). *)
  Fixpoint root_fuel (f : nat) (items : list bytes) : bytes :=
    match f with
    | O => []
    | S f' =>
      match items with
      | [] => []                                   (* nil *)
      | [x] => leaf_hash x
      | _ =>
        let k := N.to_nat (split_point (N.of_nat (length items))) in
        inner_hash (root_fuel f' (firstn k items)) (root_fuel f' (skipn k items))
      end
    end.
  Definition root (items : list bytes) : bytes := root_fuel (length items) items.

  (** [trailsFromByteSlices] + [FlattenAunts]: per leaf (leaf hash, aunts from the leaf's sibling up
      to the root's child), and the root hash.  The pointer structure (Parent/Left/Right) of the Go
      code becomes: going up one level appends the sibling subtree's root to every trail below. *)
  Fixpoint trails_fuel (f : nat) (items : list bytes) : list (bytes * list bytes) * bytes :=
    match f with
    | O => ([], [])
    | S f' =>
      match items with
      | [] => ([], [])
      | [x] => ([(leaf_hash x, [])], leaf_hash x)
      | _ =>
        let k := N.to_nat (split_point (N.of_nat (length items))) in
        let l := trails_fuel f' (firstn k items) in
        let r := trails_fuel f' (skipn k items) in
        (map (fun t => (fst t, snd t ++ [snd r])) (fst l) ++
         map (fun t => (fst t, snd t ++ [snd l])) (fst r),
         inner_hash (snd l) (snd r))
      end
    end.
  Definition trails (items : list bytes) := trails_fuel (length items) items.

  Fixpoint number_proofs (total : N) (i : N) (ts : list (bytes * list bytes)) : list proof :=
    match ts with
    | [] => []
    | t :: ts' => {| p_total := total; p_index := i; p_leaf := fst t; p_aunts := snd t |}
                  :: number_proofs total (i + 1) ts'
    end.

  (** [SimpleProofsFromByteSlices]; [None] = the nil-pointer panic of [rootSPN.Hash] on zero items *)
  Definition proofs_from (items : list bytes) : option (bytes * list proof) :=
    match items with
    | [] => None
    | _ => let t := trails items in
           Some (snd t, number_proofs (N.of_nat (length items)) 0 (fst t))
    end.

  (** [computeHashFromAunts]: consumes the aunts from the *end* of the slice; [ra] is the reversed
      aunt list, so the recursion is structural.  [None] is Go's nil result. *)
  Fixpoint compute_rev (index total : Z) (lh : bytes) (ra : list bytes) : option bytes :=
    if (Z.geb index total || Z.ltb index 0 || Z.leb total 0)%bool then None
    else if Z.eqb total 1 then
      match ra with [] => Some lh | _ => None end
    else
      match ra with
      | [] => None
      | a :: ra' =>
        let numLeft := Z.of_N (split_point (Z.to_N total)) in
        if Z.ltb index numLeft then
          match compute_rev index numLeft lh ra' with
          | None => None
          | Some l => Some (inner_hash l a)
          end
        else
          match compute_rev (index - numLeft)%Z (total - numLeft)%Z lh ra' with
          | None => None
          | Some r => Some (inner_hash a r)
          end
      end.
  Definition compute_from_aunts (index total : Z) (lh : bytes) (aunts : list bytes) : option bytes :=
    compute_rev index total lh (rev aunts).

  (** [SimpleProof.Verify] ([sp.Total < 0], [sp.Index < 0] are dead code on uint64).  A nil computed
      hash compares equal to an empty/nil [rootHash] ([bytes.Equal]). *)
  Definition verify (root_hash leaf : bytes) (p : proof) : verr :=
    if negb (bytes_eqb (p_leaf p) (leaf_hash leaf)) then VLeafHash
    else
      let c := match compute_from_aunts (to_int (p_index p)) (to_int (p_total p)) (p_leaf p) (p_aunts p) with
               | Some h => h | None => [] end in
      if bytes_eqb c root_hash then VOk else VRootHash.

  (* ------------------------------------------------------------------ part set *)

  Record part := { pt_index : N; pt_bytes : bytes; pt_proof : proof }.

  Record partset := { ps_total : N; ps_hash : bytes; ps_parts : list (option part); ps_count : N }.

  (** [common.BytesToHash]: crop from the left to 32 bytes, left-pad with zeros *)
  Definition bytes_to_hash (b : bytes) : bytes :=
    let b' := skipn (length b - 32) b in
    repeat 0 (32 - length b') ++ b'.

  (** data[lo:hi] *)
  Definition slice (lo hi : nat) (d : bytes) : bytes := firstn (hi - lo) (skipn lo d).

  (** the byte ranges data[i*partSize : min(len, (i+1)*partSize)], i = 0 .. total-1 *)
  Definition chunks_of (data : bytes) (part_size : N) : list bytes :=
    let len := N.of_nat (length data) in
    let total := (len + part_size - 1) / part_size in
    map (fun i => slice (N.to_nat (N.of_nat i * part_size))
                        (N.to_nat (N.min len ((N.of_nat i + 1) * part_size))) data)
        (seq 0 (N.to_nat total)).

  (** parts[i] = &Part{Index: i, Bytes: chunk i}; parts[i].Proof = *proofs[i] *)
  Fixpoint mk_parts (i : N) (cs : list bytes) (prs : list proof) : list (option part) :=
    match cs, prs with
    | c :: cs', pr :: prs' => Some {| pt_index := i; pt_bytes := c; pt_proof := pr |} :: mk_parts (i + 1) cs' prs'
    | _, _ => []
    end.

  (** [NewPartSetFromData(data, partSize)].  [None] where the Go code panics (partSize = 0: integer
      division by zero; empty data: nil pointer in SimpleProofsFromByteSlices) and where its uint32
      arithmetic would wrap (len(data) + partSize - 1 >= 2^32; outside the modelled domain). *)
  Definition from_data (data : bytes) (part_size : N) : option partset :=
    let len := N.of_nat (length data) in
    if N.eqb part_size 0 then None
    else if two32 <=? len + part_size - 1 then None
    else
      let total := (len + part_size - 1) / part_size in
      let chunks := chunks_of data part_size in
      match proofs_from chunks with
      | None => None
      | Some (r, prs) =>
        Some {| ps_total := total; ps_hash := bytes_to_hash r; ps_parts := mk_parts 0 chunks prs; ps_count := total |}
      end.

  (** [NewPartSetFromHeader] *)
  Definition from_header (total : N) (hash : bytes) : partset :=
    {| ps_total := total; ps_hash := hash; ps_parts := repeat None (N.to_nat total); ps_count := 0 |}.

  Inductive add_err := ENone | EUnexpectedIndex | EInvalidProof | ECrash.

  (** [PartSet.AddPart] *)
  Definition add_part (ps : partset) (p : part) : partset * (bool * add_err) :=
    if ps_total ps <=? pt_index p then (ps, (false, EUnexpectedIndex))
    else
      match nth_error (ps_parts ps) (N.to_nat (pt_index p)) with
      | None => (ps, (false, ECrash))                 (* index out of range on ps.parts: not reachable *)
      | Some (Some _) => (ps, (false, ENone))
      | Some None =>
        if (negb (N.eqb (p_index (pt_proof p)) (pt_index p)) || negb (N.eqb (p_total (pt_proof p)) (ps_total ps)))%bool
        then (ps, (false, EInvalidProof))
        else
          match verify (ps_hash ps) (pt_bytes p) (pt_proof p) with
          | VOk =>
            ({| ps_total := ps_total ps; ps_hash := ps_hash ps;
                ps_parts := set_nth (N.to_nat (pt_index p)) (Some p) (ps_parts ps);
                ps_count := ps_count ps + 1 |}, (true, ENone))
          | _ => (ps, (false, EInvalidProof))
          end
      end.

  Definition is_complete (ps : partset) : bool := N.eqb (ps_count ps) (ps_total ps).

  (** [GetReader] + read to EOF.  [None]: PanicSanity on an incomplete set, index panic of
      [parts[0]] when total = 0, nil part dereference. *)
  Fixpoint concat_parts (l : list (option part)) : option bytes :=
    match l with
    | [] => Some []
    | None :: _ => None
    | Some p :: l' => match concat_parts l' with None => None | Some r => Some (pt_bytes p ++ r) end
    end.
  Definition read_all (ps : partset) : option bytes :=
    if negb (is_complete ps) then None
    else match ps_parts ps with [] => None | _ => concat_parts (ps_parts ps) end.

  Definition bit_array (ps : partset) : list bool :=
    map (fun o => match o with Some _ => true | None => false end) (ps_parts ps).

  Definition add_all (ps : partset) (l : list part) : partset :=
    fold_left (fun s p => fst (add_part s p)) l ps.

End Merkle.

(* ====================================================================== parts on the wire *)

(** What [PartFromProto] (wire messages, WAL, block store) checks after unmarshalling:
    [ProofFromProto] -> [SimpleProof.ValidateBasic] (leaf hash and every aunt are [merkle.Size] = 32
    bytes), then [Part.ValidateBasic] (at most BlockPartSizeBytes bytes; the constant is regenerated
    from the source). *)
Inductive wire_err := WOk | WProof | WTooBig.

Definition proof_validate_basic (p : proof) : bool :=
  (Nat.eqb (length (p_leaf p)) 32 && forallb (fun a => Nat.eqb (length a) 32) (p_aunts p))%bool.

Definition part_validate_basic (max : N) (bz : bytes) : bool := N.of_nat (length bz) <=? max.

Definition part_from_proto (max : N) (index : N) (bz : bytes) (pr : proof) : wire_err :=
  if negb (proof_validate_basic pr) then WProof
  else if negb (part_validate_basic max bz) then WTooBig
  else WOk.

Definition part_from_proto_real := part_from_proto block_part_size_bytes.

(* ====================================================================== protobuf subset *)

(** [encodeVarintTypes]: base-128 little endian; a uint64 needs at most 10 bytes *)
Fixpoint varint_fuel (f : nat) (n : N) : bytes :=
  match f with
  | O => []
  | S f' => if n <? 128 then [n] else (n mod 128 + 128) :: varint_fuel f' (n / 128)
  end.
Definition varint (n : N) : bytes := varint_fuel 10 n.

Definition two64N : N := 18446744073709551616.
(** uint64(x) of a signed value *)
Definition u64_of_z (z : Z) : N := Z.to_N (z mod 18446744073709551616)%Z.

(** `if m.X != 0 { tag, varint }` *)
Definition varint_field (tag : bytes) (v : N) : bytes := if N.eqb v 0 then [] else tag ++ varint v.
(** `if len(m.X) > 0 { tag, len, bytes }` *)
Definition bytes_field (tag : N) (b : bytes) : bytes :=
  match b with [] => [] | _ => tag :: varint (N.of_nat (length b)) ++ b end.
(** non-nullable embedded message: always emitted *)
Definition msg_field (tag : N) (body : bytes) : bytes := tag :: varint (N.of_nat (length body)) ++ body.

Record timestamp := { t_secs : Z; t_nanos : Z }.

Definition min_valid_seconds : Z := (-62135596800)%Z.
Definition max_valid_seconds : Z := 253402300800%Z.

(** gogo [StdTimeMarshalTo] = [validateTimestamp] + [Timestamp.Marshal]; [None] = marshal error
    (Header.Hash / Commit.Hash then panic) *)
Definition encode_time (t : timestamp) : option bytes :=
  if (Z.ltb (t_secs t) min_valid_seconds || Z.leb max_valid_seconds (t_secs t)
      || Z.ltb (t_nanos t) 0 || Z.leb 1000000000 (t_nanos t))%bool then None
  else Some (varint_field [8] (u64_of_z (t_secs t)) ++ varint_field [16] (u64_of_z (t_nanos t))).

Record psheader := { psh_total : N; psh_hash : bytes }.
Record blockid := { bid_hash : bytes; bid_parts : psheader }.

Definition encode_psheader (p : psheader) : bytes :=
  varint_field [8] (psh_total p) ++ bytes_field 18 (psh_hash p).
Definition encode_blockid (b : blockid) : bytes :=
  bytes_field 10 (bid_hash b) ++ msg_field 18 (encode_psheader (bid_parts b)).

(** types.Header (13 fields; ChainID of the proto message is never set by Header.ToProto) *)
Record header := {
  h_height : N; h_time : timestamp; h_numtxs : N; h_gaslimit : N; h_last : blockid;
  h_proposer : bytes; h_lastcommit : bytes; h_txhash : bytes; h_valhash : bytes; h_nextval : bytes;
  h_cons : bytes; h_app : bytes; h_evidence : bytes }.

(** kproto.Header.MarshalToSizedBuffer (fields in ascending tag order) *)
Definition encode_header (h : header) : option bytes :=
  match encode_time (h_time h) with
  | None => None
  | Some tb =>
    Some (varint_field [24] (h_height h) ++ msg_field 34 tb ++ msg_field 42 (encode_blockid (h_last h)) ++
          bytes_field 50 (h_lastcommit h) ++ bytes_field 58 (h_txhash h) ++ bytes_field 66 (h_valhash h) ++
          bytes_field 74 (h_nextval h) ++ bytes_field 82 (h_cons h) ++ bytes_field 90 (h_app h) ++
          bytes_field 106 (h_evidence h) ++ bytes_field 114 (h_proposer h) ++
          varint_field [120] (h_gaslimit h) ++ varint_field [128; 1] (h_numtxs h))
  end.

Record commit_sig := { cs_flag : N; cs_addr : bytes; cs_time : timestamp; cs_sig : bytes }.

(** kproto.CommitSig.MarshalToSizedBuffer *)
Definition encode_commit_sig (c : commit_sig) : option bytes :=
  match encode_time (cs_time c) with
  | None => None
  | Some tb => Some (varint_field [8] (cs_flag c) ++ bytes_field 18 (cs_addr c) ++ msg_field 26 tb ++
                     bytes_field 34 (cs_sig c))
  end.

Fixpoint all_some {A} (l : list (option A)) : option (list A) :=
  match l with
  | [] => Some []
  | None :: _ => None
  | Some x :: l' => match all_some l' with None => None | Some r => Some (x :: r) end
  end.

Record commit := { c_height : N; c_round : N; c_bid : blockid; c_sigs : list commit_sig }.

Definition zero_hash : bytes := repeat 0 32.
Definition is_zero_hash (b : bytes) : bool := bytes_eqb b zero_hash.

Inductive vb_class :=
  | VbOk | VbNilLastCommit | VbCommitNilBlock | VbCommitNoSigs | VbCommitSig | VbLastCommitHash
  | VbDataHash | VbEvidenceInvalid | VbEvidenceHash | VbPanic.

Section Block.
  Variable H : bytes -> bytes.          (* SHA-256: merkle *)
  Variable K : bytes -> bytes.          (* Keccak-256: header and evidence hash *)
  Variable TxRoot : list bytes -> bytes. (* DeriveSha(Transactions, trie hasher) on the RLP encodings *)

  (** [Header.Hash]; [None] = panic(err) on a time outside years 1..9999 *)
  Definition header_hash (h : header) : option bytes :=
    match encode_header h with None => None | Some bz => Some (K bz) end.

  (** [Commit.Hash]: merkle root of the marshalled commit signatures — height, round and block id
      of the commit are NOT covered (they are bound by VerifyCommit against the state, C02) *)
  Definition commit_hash (c : commit) : option bytes :=
    match all_some (map encode_commit_sig (c_sigs c)) with
    | None => None
    | Some bs => Some (bytes_to_hash (root H bs))
    end.

  (** [EvidenceList.Hash] on the marshalled evidence items *)
  Definition evidence_hash (evs : list bytes) : bytes :=
    match evs with
    | [] => zero_hash
    | _ => bytes_to_hash (root H (map K evs))
    end.

  (** [CommitSig.ValidateBasic] *)
  Definition commit_sig_ok (c : commit_sig) : bool :=
    if (N.eqb (cs_flag c) 1) then
      (bytes_eqb (cs_addr c) (repeat 0 20) &&
       (Z.eqb (t_secs (cs_time c)) min_valid_seconds && Z.eqb (t_nanos (cs_time c)) 0) &&
       match cs_sig c with [] => true | _ => false end)%bool
    else if (N.eqb (cs_flag c) 2 || N.eqb (cs_flag c) 3)%bool then
      match cs_sig c with [] => false | _ => true end
    else false.

  Definition blockid_is_zero (b : blockid) : bool :=
    (is_zero_hash (bid_hash b) && N.eqb (psh_total (bid_parts b)) 0 && is_zero_hash (psh_hash (bid_parts b)))%bool.

  (** [Commit.ValidateBasic] *)
  Definition commit_validate (c : commit) : vb_class :=
    if 1 <=? c_height c then
      if blockid_is_zero (c_bid c) then VbCommitNilBlock
      else match c_sigs c with
           | [] => VbCommitNoSigs
           | _ => if forallb commit_sig_ok (c_sigs c) then VbOk else VbCommitSig
           end
    else VbOk.

  (** evidence item: marshalled bytes and the outcome of its own ValidateBasic (not modelled) *)
  Record block := { b_header : header; b_txs : list bytes; b_last : option commit;
                    b_evs : list (bytes * bool) }.

  (** [Block.ValidateBasic(hasher)] with a non-nil hasher ([Header.ValidateBasic] cannot fail:
      ValidateHash on a [32]byte always passes) *)
  Definition validate_basic (b : block) : vb_class :=
    let h := b_header b in
    let pre :=
      if 1 <? h_height h then
        match b_last b with
        | None => VbNilLastCommit
        | Some c => commit_validate c
        end
      else VbOk in
    match pre with
    | VbOk =>
      let lc :=
        match b_last b with
        | None => if negb (is_zero_hash (h_lastcommit h)) then VbLastCommitHash else VbOk
        | Some c => match commit_hash c with
                    | None => VbPanic
                    | Some ch => if negb (bytes_eqb (h_lastcommit h) ch) then VbLastCommitHash else VbOk
                    end
        end in
      match lc with
      | VbOk =>
        if negb (bytes_eqb (TxRoot (b_txs b)) (h_txhash h)) then VbDataHash
        else if negb (forallb (fun e => snd e) (b_evs b)) then VbEvidenceInvalid
        else if negb (bytes_eqb (evidence_hash (map fst (b_evs b))) (h_evidence h)) then VbEvidenceHash
        else VbOk
      | e => e
      end
    | e => e
    end.
End Block.

(* ====================================================================== validation against the chain state *)

(** kai/state/cstate/validation.go [validateBlock] and the checks of types/validator_set.go
    [VerifyCommit] that do not involve signatures, transcribed check by check in the order of the code.
    What is NOT modelled enters as an input ([vext]): the outcome of VerifyCommit's signature/tally loop
    (C02), cstate.MedianTime of the last commit, membership of the proposer in the validator set and
    the verdict of the evidence pool. *)

Record vstate := {
  st_initial : N;            (* InitialHeight *)
  st_last_height : N;        (* LastBlockHeight *)
  st_last_bid : blockid;     (* LastBlockID *)
  st_app : bytes;            (* AppHash *)
  st_valhash : bytes;        (* Validators.Hash() *)
  st_nextvalhash : bytes;    (* NextValidators.Hash() *)
  st_lastvals_size : N;      (* LastValidators.Size() *)
  st_last_time : timestamp;  (* LastBlockTime *)
  st_max_evidence : Z        (* MaxEvidencePerBlock(ConsensusParams.Block.MaxBytes), an int64 *)
}.

Record vext := {
  x_sigs_ok : bool;          (* every present signature verifies and more than 2/3 of the power is for the block *)
  x_median : timestamp;      (* MedianTime(block.LastCommit, state.LastValidators) *)
  x_proposer_known : bool;   (* state.Validators.HasAddress(proposer) *)
  x_evpool_ok : bool         (* evidencePool.CheckEvidence == nil *)
}.

Inductive vc_class := VcBasic (c : vb_class) | VcSize | VcHeight | VcBlockID | VcSigs | VcOk.

Inductive vs_class :=
  | VsBasic (c : vb_class) | VsHeight | VsLastBlockID | VsAppHash | VsValHash | VsNextValHash
  | VsNilLastCommit | VsInitialSigs | VsCommit (c : vc_class) | VsTimeNotAfter | VsTimeMedian
  | VsTimeGenesis | VsBelowInitial | VsEvidenceOverflow | VsProposer | VsEvidencePool | VsOk.

(** [PartSetHeader.Equals], [BlockID.Equal] *)
Definition psheader_eqb (a b : psheader) : bool :=
  (N.eqb (psh_total a) (psh_total b) && bytes_eqb (psh_hash a) (psh_hash b))%bool.
Definition blockid_eqb (a b : blockid) : bool :=
  (bytes_eqb (bid_hash a) (bid_hash b) && psheader_eqb (bid_parts a) (bid_parts b))%bool.

(** time.Time comparison of two instants given as (seconds, nanoseconds in 0..999999999) *)
Definition time_eqb (a b : timestamp) : bool := (Z.eqb (t_secs a) (t_secs b) && Z.eqb (t_nanos a) (t_nanos b))%bool.
Definition time_ltb (a b : timestamp) : bool :=
  (Z.ltb (t_secs a) (t_secs b) || (Z.eqb (t_secs a) (t_secs b) && Z.ltb (t_nanos a) (t_nanos b)))%bool.

(** uint64 successor / predecessor *)
Definition u64_succ (n : N) : N := (n + 1) mod two64N.
Definition u64_pred (n : N) : N := (n + two64N - 1) mod two64N.

Section Validate.
  Variable H : bytes -> bytes.
  Variable K : bytes -> bytes.
  Variable TxRoot : list bytes -> bytes.

  (** [ValidatorSet.VerifyCommit(chainID, blockID, height, commit)] up to its signature loop *)
  Definition verify_commit (size : N) (bid : blockid) (height : N) (sigs_ok : bool) (c : commit) : vc_class :=
    match commit_validate c with
    | VbOk =>
      if negb (N.eqb size (N.of_nat (length (c_sigs c)))) then VcSize
      else if negb (N.eqb height (c_height c)) then VcHeight
      else if negb (blockid_eqb bid (c_bid c)) then VcBlockID
      else if negb sigs_ok then VcSigs
      else VcOk
    | e => VcBasic e
    end.

  (** [validateBlock(evidencePool, store, state, block)] *)
  Definition validate_block (st : vstate) (x : vext) (b : block) : vs_class :=
    let h := b_header b in
    match validate_basic H K TxRoot b with
    | VbOk =>
      if negb (N.eqb (h_height h) (u64_succ (st_last_height st))) then VsHeight
      else if (N.eqb (st_last_height st) 0 && negb (N.eqb (h_height h) (st_initial st)))%bool then VsHeight
      else if negb (blockid_eqb (h_last h) (st_last_bid st)) then VsLastBlockID
      else if negb (bytes_eqb (h_app h) (st_app st)) then VsAppHash
      else if negb (bytes_eqb (h_valhash h) (st_valhash st)) then VsValHash
      else if negb (bytes_eqb (h_nextval h) (st_nextvalhash st)) then VsNextValHash
      else
        match b_last b with
        | None => VsNilLastCommit
        | Some c =>
          let cm :=
            if N.eqb (h_height h) (st_initial st) then
              match c_sigs c with [] => VsOk | _ => VsInitialSigs end
            else
              match verify_commit (st_lastvals_size st) (st_last_bid st) (u64_pred (h_height h)) (x_sigs_ok x) c with
              | VcOk => VsOk
              | e => VsCommit e
              end in
          match cm with
          | VsOk =>
            let tm :=
              if st_initial st <? h_height h then
                if negb (time_ltb (st_last_time st) (h_time h)) then VsTimeNotAfter
                else if negb (time_eqb (h_time h) (x_median x)) then VsTimeMedian
                else VsOk
              else if N.eqb (h_height h) (st_initial st) then
                if negb (time_eqb (h_time h) (st_last_time st)) then VsTimeGenesis else VsOk
              else VsBelowInitial in
            match tm with
            | VsOk =>
              if Z.ltb (st_max_evidence st) (Z.of_nat (length (b_evs b))) then VsEvidenceOverflow
              else if negb (x_proposer_known x) then VsProposer
              else if negb (x_evpool_ok x) then VsEvidencePool
              else VsOk
            | e => e
            end
          | e => e
          end
        end
    | e => VsBasic e
    end.
End Validate.

(** [Proposal.ValidateBasic]'s bound on the part count of the proposed block id *)
Definition proposal_parts_ok (total : N) : bool := total <=? max_block_parts_count.

(* ====================================================================== the block store *)

(** kai/rawdb: the keys under which [WriteBlock] files a block (schema.go, transcribed: prefix bytes,
    8-byte big-endian height, 4-byte big-endian part index) and the key/value store itself as a finite
    map.  The stored values are opaque here ([V]): what is modelled is WHERE things are put and found
    again — [WriteBlock], [ReadBlockMeta], [ReadBlockPart]/[ReadBlock]'s part loop, [ReadCommit],
    [ReadSeenCommit], [ReadCanonicalHash], [ReadHeaderHeight]. *)

(** big-endian encoding of the low [n] bytes of [v] (binary.BigEndian.PutUint64 / PutUint32) *)
Fixpoint be (n : nat) (v : N) : bytes :=
  match n with
  | O => []
  | S n' => be n' (v / 256) ++ [v mod 256]
  end.

Definition key_meta (h : N) : bytes := 109 :: be 8 h.                     (* "m" + height *)
Definition key_part (h i : N) : bytes := 112 :: be 8 h ++ be 4 i.         (* "p" + height + index *)
Definition key_commit (h : N) : bytes := 99 :: be 8 h.                    (* "c" + height *)
Definition key_seen (h : N) : bytes := 115 :: 109 :: be 8 h.              (* "sm" + height *)
Definition key_canon (h : N) : bytes := 104 :: be 8 h ++ [110].           (* "h" + height + "n" *)
Definition key_height (hash : bytes) : bytes := 72 :: hash.               (* "H" + hash *)

Section Store.
  Variable V : Type.

  Definition db := list (bytes * V).

  Fixpoint db_get (d : db) (k : bytes) : option V :=
    match d with
    | [] => None
    | (k', v) :: d' => if bytes_eqb k' k then Some v else db_get d' k
    end.

  Definition db_put (d : db) (k : bytes) (v : V) : db :=
    (k, v) :: filter (fun e => negb (bytes_eqb (fst e) k)) d.

  Fixpoint put_parts (d : db) (h : N) (i : N) (vs : list V) : db :=
    match vs with
    | [] => d
    | v :: vs' => put_parts (db_put d (key_part h i) v) h (i + 1) vs'
    end.

  (** [WriteBlock(db, block, blockParts, seenCommit)]: meta, every part, the block's last commit under
      height-1 (uint64), the seen commit, hash -> height, height -> hash *)
  Definition write_block (d : db) (h : N) (hash : bytes) (vmeta : V) (vparts : list V) (vcommit vseen : V)
             (vheight vhash : V) : db :=
    let d1 := db_put d (key_meta h) vmeta in
    let d2 := put_parts d1 h 0 vparts in
    let d3 := db_put d2 (key_commit (u64_pred h)) vcommit in
    let d4 := db_put d3 (key_seen h) vseen in
    let d5 := db_put d4 (key_height hash) vheight in
    db_put d5 (key_canon h) vhash.

  (** the part loop of [ReadBlock]: parts 0 .. total-1 of the height; [None] = a part is missing (the
      Go code dereferences the nil part) *)
  Definition read_parts (d : db) (h : N) (total : nat) : option (list V) :=
    all_some (map (fun i => db_get d (key_part h (N.of_nat i))) (seq 0 total)).
End Store.

(* ====================================================================== the executor's validation cache *)

(** kai/state/cstate/execution.go [BlockExecutor.ValidateBlock]: results are cached "over a single
    height" (the cache is emptied by ApplyBlock, so all calls between two resets see one chain state).
    [validationKey] = Keccak(Block.Hash ++ "height/round/blockid-key" of the last commit); the model
    keeps the tuple that is hashed (the key derivation itself is not modelled: two different tuples are
    assumed to give different map keys).  A hit still runs Block.ValidateBasic (commit fc51689). *)
Record vkey := { vk_hash : option bytes; vk_meta : option (N * N * blockid) }.

Definition opt_bytes_eqb (a b : option bytes) : bool :=
  match a, b with Some x, Some y => bytes_eqb x y | None, None => true | _, _ => false end.

Definition vkey_eqb (a b : vkey) : bool :=
  (opt_bytes_eqb (vk_hash a) (vk_hash b) &&
   match vk_meta a, vk_meta b with
   | None, None => true
   | Some (h, r, i), Some (h', r', i') => N.eqb h h' && N.eqb r r' && blockid_eqb i i'
   | _, _ => false
   end)%bool.

Section Executor.
  Variable H : bytes -> bytes.
  Variable K : bytes -> bytes.
  Variable TxRoot : list bytes -> bytes.

  Definition validation_key (b : block) : vkey :=
    {| vk_hash := header_hash K (b_header b);
       vk_meta := match b_last b with None => None | Some c => Some (c_height c, c_round c, c_bid c) end |}.

  (** one call of [ValidateBlock]: verdict and the cache afterwards *)
  Definition exec_validate (cache : list vkey) (st : vstate) (x : vext) (b : block) : vs_class * list vkey :=
    if existsb (vkey_eqb (validation_key b)) cache then
      (match validate_basic H K TxRoot b with VbOk => VsOk | e => VsBasic e end, cache)
    else
      match validate_block H K TxRoot st x b with
      | VsOk => (VsOk, validation_key b :: cache)
      | e => (e, cache)
      end.

  (** a history of calls against one chain state, from an empty cache *)
  Fixpoint exec_run (cache : list vkey) (st : vstate) (calls : list (vext * block)) : list vkey :=
    match calls with
    | [] => cache
    | (x, b) :: rest => exec_run (snd (exec_validate cache st x b)) st rest
    end.
End Executor.
