(** C13 — proof verification (completeness, soundness) and the part set. *)
From Coq Require Import List ZArith NArith Bool Lia Arith ZifyBool.
From Kardia Require Import Base.Int64 Base.ListX C13.Model C13.ProofsMerkle C13.ProofsSound.
Import ListNotations.
Ltac Zify.zify_post_hook ::= Z.div_mod_to_equations.

Lemma to_int_small n : (Z.of_N n < two63)%Z -> to_int n = Z.of_N n.
Proof. intros Hn. unfold to_int. apply wrap64_id. unfold in_int64, min_int64, max_int64, two63 in *. lia. Qed.

Lemma to_int_big n : (two63 <= Z.of_N n < two64)%Z -> (to_int n < 0)%Z.
Proof. unfold to_int, wrap64, two63, two64. intros Hn. lia. Qed.

Lemma compute_rev_neg H i t lh ra : (i < 0)%Z -> compute_rev H i t lh ra = None.
Proof.
  intros Hi. destruct ra; [rewrite compute_rev_nil|rewrite compute_rev_cons];
  replace (Z.ltb i 0) with true by lia; rewrite orb_true_r; reflexivity.
Qed.

Lemma nth_number_proofs total : forall ts j i,
  nth_error (number_proofs total j ts) i =
  match nth_error ts i with
  | Some t => Some {| p_total := total; p_index := j + N.of_nat i; p_leaf := fst t; p_aunts := snd t |}
  | None => None
  end.
Proof.
  induction ts as [|t ts IH]; intros j i.
  - destruct i; reflexivity.
  - destruct i as [|i].
    + cbn [nth_error number_proofs]. change (N.of_nat 0) with 0%N. rewrite N.add_0_r. reflexivity.
    + cbn [nth_error number_proofs]. rewrite IH. destruct (nth_error ts i); [|reflexivity].
      replace (j + 1 + N.of_nat i)%N with (j + N.of_nat (S i))%N by lia. reflexivity.
Qed.

(* ---------------------------------------------------------------- chunks *)

Lemma firstn_slice_app (d : bytes) : forall a b, a <= b -> firstn a d ++ slice a b d = firstn b d.
Proof.
  unfold slice. induction d as [|x d IH]; intros a b Hab.
  - rewrite skipn_nil, !firstn_nil. reflexivity.
  - destruct a as [|a].
    + simpl. rewrite Nat.sub_0_r. reflexivity.
    + destruct b as [|b]; [lia|]. simpl. f_equal. apply IH. lia.
Qed.

Lemma concat_chunks_prefix (d : bytes) (psz : N) : (psz <> 0)%N -> forall k,
  concat (map (fun i => slice (N.to_nat (N.of_nat i * psz))
                              (N.to_nat (N.min (N.of_nat (length d)) ((N.of_nat i + 1) * psz))) d) (seq 0 k))
  = firstn (N.to_nat (N.min (N.of_nat (length d)) (N.of_nat k * psz))) d.
Proof.
  intros Hp. induction k as [|k IH].
  - cbn [seq map concat]. change (N.of_nat 0 * psz)%N with 0%N. rewrite N.min_0_r. reflexivity.
  - rewrite seq_S, map_app, concat_app, IH. cbn [map concat seq plus]. rewrite app_nil_r.
    set (len := N.of_nat (length d)).
    destruct (N.le_gt_cases (N.of_nat k * psz) len) as [Hle|Hgt].
    + rewrite (N.min_r len (N.of_nat k * psz)) by lia.
      replace (N.of_nat (S k)) with (N.of_nat k + 1)%N by lia.
      apply firstn_slice_app. lia.
    + rewrite (N.min_l len (N.of_nat k * psz)) by lia.
      rewrite (N.min_l len ((N.of_nat k + 1) * psz)) by lia.
      rewrite (N.min_l len (N.of_nat (S k) * psz)) by lia.
      unfold slice. rewrite skipn_all2 by lia. rewrite firstn_nil, app_nil_r. reflexivity.
Qed.

Lemma concat_chunks (d : bytes) (psz : N) : (psz <> 0)%N -> concat (chunks_of d psz) = d.
Proof.
  intros Hp. unfold chunks_of. cbv zeta. rewrite concat_chunks_prefix by exact Hp.
  rewrite N2Nat.id. apply firstn_all2.
  set (len := N.of_nat (length d)).
  assert (len <= (len + psz - 1) / psz * psz)%N by lia.
  rewrite N.min_l by lia. subst len. lia.
Qed.

Lemma chunks_length d psz : length (chunks_of d psz) = N.to_nat ((N.of_nat (length d) + psz - 1) / psz).
Proof. unfold chunks_of. cbv zeta. rewrite map_length, seq_length. reflexivity. Qed.


Lemma chunk_len d psz c : In c (chunks_of d psz) -> (N.of_nat (length c) <= psz)%N.
Proof.
  unfold chunks_of. cbv zeta. intros Hin. apply in_map_iff in Hin. destruct Hin as [i [Ec _]]. subst c.
  unfold slice. rewrite firstn_length.
  rewrite N.mul_add_distr_r, N.mul_1_l.
  set (X := (N.of_nat i * psz)%N). set (len := N.of_nat (length d)).
  assert (N.to_nat (N.min len (X + psz)) - N.to_nat X <= N.to_nat psz) by lia.
  lia.
Qed.

Section PartSet.
  Variable H : bytes -> bytes.

  Notation root := (root H).
  Notation leaf_hash := (leaf_hash H).

  (** every proof produced by [SimpleProofsFromByteSlices] verifies against the produced root *)
  Lemma merkle_complete_lemma : forall items r prs i x p,
    (Z.of_nat (length items) < two63)%Z ->
    proofs_from H items = Some (r, prs) -> nth_error items i = Some x -> nth_error prs i = Some p ->
    r = root items /\ p_total p = N.of_nat (length items) /\ p_index p = N.of_nat i /\
    verify H r x p = VOk.
  Proof.
    intros items r prs i x p Hlen Hp Hx Hpi.
    unfold proofs_from in Hp. destruct items as [|y l]; [discriminate|].
    cbv beta iota in Hp. set (items := y :: l) in *.
    inversion Hp as [[Hr Hprs]]. clear Hp. subst prs.
    destruct (trails_spec H items) as [T1 [T2 T3]].
    destruct (T3 i x Hx) as [a [Ha Hc]].
    rewrite nth_number_proofs, Ha in Hpi. inversion Hpi as [Ep]. clear Hpi.
    assert (Hi : i < length items) by (apply nth_error_Some; congruence).
    split; [exact T1|]. cbn [p_total p_index fst snd]. split; [reflexivity|]. split; [lia|].
    unfold verify. cbn [p_leaf p_index p_total p_aunts fst snd].
    rewrite bytes_eqb_refl. cbn [negb].
    change (N.pos (Pos.of_succ_nat (length l))) with (N.of_nat (length items)) in *.
    rewrite (to_int_small (N.of_nat (length items))) by (rewrite nat_N_Z; lia).
    rewrite (to_int_small (N.of_nat i)) by (rewrite nat_N_Z; lia).
    unfold compute_from_aunts. rewrite !nat_N_Z, Hc, T1, bytes_eqb_refl. reflexivity.
  Qed.

  Hypothesis H_len : forall x, length (H x) = 32.
  Notation collision := (collision H).

  (** a verifying proof for (index, total = number of items) against [root items] proves the item at
      that index — or yields a collision *)
  Lemma merkle_sound_lemma : forall items x p,
    items <> [] -> (Z.of_nat (length items) < two63)%Z -> (p_index p < 18446744073709551616)%N ->
    p_total p = N.of_nat (length items) ->
    verify H (root items) x p = VOk ->
    nth_error items (N.to_nat (p_index p)) = Some x \/ collision.
  Proof.
    intros items x p Hne Hlen Hidx Htot Hv.
    unfold verify in Hv.
    destruct (bytes_eqb (p_leaf p) (leaf_hash x)) eqn:El; cbn [negb] in Hv; [|discriminate].
    apply bytes_eqb_eq in El.
    match type of Hv with (if bytes_eqb ?c _ then _ else _) = _ => destruct (bytes_eqb c (root items)) eqn:Ec end; [|discriminate].
    apply bytes_eqb_eq in Ec.
    unfold compute_from_aunts in Ec.
    rewrite Htot in Ec. rewrite (to_int_small (N.of_nat (length items))) in Ec by (rewrite nat_N_Z; lia).
    rewrite nat_N_Z in Ec.
    destruct (compute_rev H (to_int (p_index p)) (Z.of_nat (length items)) (p_leaf p) (rev (p_aunts p))) as [h|] eqn:Eh.
    2:{ exfalso. pose proof (root_len H H_len items Hne) as Hl. rewrite <- Ec in Hl. discriminate. }
    subst h.
    destruct (Z.lt_ge_cases (Z.of_N (p_index p)) two63) as [Hsm|Hbig].
    - rewrite to_int_small in Eh by exact Hsm.
      assert (Hll : length (p_leaf p) = 32) by (rewrite El; apply H_len).
      destruct (compute_sound H H_len items _ _ _ Hne Hll Eh) as [C|[_ [x' [Hn Hx']]]]; [right; exact C|].
      replace (Z.to_nat (Z.of_N (p_index p))) with (N.to_nat (p_index p)) in Hn by lia.
      rewrite El in Hx'. destruct (leaf_hash_inj H x x' Hx') as [E|C]; [left; congruence|right; exact C].
    - exfalso. rewrite compute_rev_neg in Eh; [discriminate|].
      apply to_int_big. unfold two64. unfold two63 in *. lia.
  Qed.

  Lemma number_proofs_length t : forall ts j, length (number_proofs t j ts) = length ts.
  Proof. induction ts; intros; simpl; auto. Qed.

  Lemma proofs_from_spec items r prs : proofs_from H items = Some (r, prs) ->
    items <> [] /\ r = root items /\ length prs = length items.
  Proof.
    intros Ep. unfold proofs_from in Ep. destruct items as [|c cs]; [discriminate|].
    cbv beta iota in Ep. set (items := c :: cs) in *. inversion Ep as [[E1 E2]].
    destruct (trails_spec H items) as [T1 [T2 _]].
    split; [discriminate|]. split; [exact T1|]. rewrite number_proofs_length. exact T2.
  Qed.

  Definition trail_ok (t : bytes * list bytes) : Prop :=
    length (fst t) = 32 /\ Forall (fun a : bytes => length a = 32) (snd t).

  Lemma trails_lens : forall items, Forall trail_ok (fst (trails H items)).
  Proof.
    apply (items_ind (fun items => Forall trail_ok (fst (trails H items)))).
    - constructor.
    - intros x. constructor; [|constructor]. split; [apply H_len|constructor].
    - intros items Hl IL IR.
      pose proof (splitk_bounds (length items) Hl) as Hk.
      rewrite (trails_unfold H items Hl). cbv zeta. cbn [fst].
      destruct (trails_spec H (firstn (splitk (length items)) items)) as [TL _].
      destruct (trails_spec H (skipn (splitk (length items)) items)) as [TR _].
      assert (HLn : firstn (splitk (length items)) items <> []).
      { intros E. apply (f_equal (@length bytes)) in E. rewrite firstn_length in E. simpl in E. lia. }
      assert (HRn : skipn (splitk (length items)) items <> []).
      { intros E. apply (f_equal (@length bytes)) in E. rewrite skipn_length in E. simpl in E. lia. }
      apply Forall_app. split; apply Forall_map.
      + eapply Forall_impl; [|exact IL]. intros t [A B]. split; [exact A|]. cbn [snd].
        apply Forall_app. split; [exact B|]. constructor; [|constructor]. rewrite TR. apply root_len; auto.
      + eapply Forall_impl; [|exact IR]. intros t [A B]. split; [exact A|]. cbn [snd].
        apply Forall_app. split; [exact B|]. constructor; [|constructor]. rewrite TL. apply root_len; auto.
  Qed.

  Lemma forallb_len32 (l : list bytes) : Forall (fun a : bytes => length a = 32) l ->
    forallb (fun a => Nat.eqb (length a) 32) l = true.
  Proof. induction 1 as [|a l Ha _ IH]; [reflexivity|]. cbn [forallb]. rewrite Ha, IH. reflexivity. Qed.

  (* ---------------------------------------------------------------- the setting *)

  Variable data : bytes.
  Variable psz : N.
  Variable full : partset.
  Hypothesis Hfull : from_data H data psz = Some full.

  Let chunks := chunks_of data psz.
  Let n := length chunks.

  Lemma bytes_to_hash_32 b : length b = 32 -> bytes_to_hash b = b.
  Proof.
    intros Hl. unfold bytes_to_hash. rewrite Hl. rewrite Nat.sub_diag. cbn [skipn]. rewrite Hl, Nat.sub_diag. reflexivity.
  Qed.

  Lemma full_facts :
    psz <> 0%N /\ chunks <> [] /\ (Z.of_nat n < two63)%Z /\
    ps_total full = N.of_nat n /\ ps_hash full = root chunks /\ ps_count full = N.of_nat n /\
    concat chunks = data /\
    exists prs, proofs_from H chunks = Some (root chunks, prs) /\ ps_parts full = mk_parts 0 chunks prs /\ length prs = n.
  Proof.
    unfold from_data in Hfull. cbv zeta in Hfull.
    destruct (N.eqb_spec psz 0) as [|Hp]; [discriminate|].
    destruct (N.leb_spec two32 (N.of_nat (length data) + psz - 1)) as [|Hlt]; [discriminate|].
    fold chunks in Hfull.
    destruct (proofs_from H chunks) as [[r prs]|] eqn:Ep; [|discriminate].
    destruct (proofs_from_spec _ _ _ Ep) as [Hne Hr].
    destruct Hr as [Hr Hpl]. subst r.
    inversion Hfull as [Ef]. cbn [ps_total ps_hash ps_count ps_parts].
    assert (Hn : N.of_nat n = ((N.of_nat (length data) + psz - 1) / psz)%N).
    { unfold n, chunks. rewrite chunks_length, N2Nat.id. reflexivity. }
    assert (Hsmall : ((N.of_nat (length data) + psz - 1) / psz < two32)%N).
    { unfold two32 in *. lia. }
    repeat split; auto.
    - rewrite <- nat_N_Z, Hn. unfold two32, two63 in *. lia.
    - apply bytes_to_hash_32. apply root_len; auto.
    - apply concat_chunks. exact Hp.
    - exists prs. auto.
  Qed.

  Lemma nth_mk_parts : forall cs prs j i c pr,
    nth_error cs i = Some c -> nth_error prs i = Some pr ->
    nth_error (mk_parts j cs prs) i = Some (Some {| pt_index := j + N.of_nat i; pt_bytes := c; pt_proof := pr |}).
  Proof.
    induction cs as [|c0 cs IH]; intros prs j i c pr Hc Hp.
    - destruct i; discriminate.
    - destruct prs as [|pr0 prs]; [destruct i; discriminate|].
      destruct i as [|i]; cbn [nth_error mk_parts] in *.
      + inversion Hc; inversion Hp; subst. change (N.of_nat 0) with 0%N. rewrite N.add_0_r. reflexivity.
      + rewrite (IH _ _ _ _ _ Hc Hp).
        replace (j + 1 + N.of_nat i)%N with (j + N.of_nat (S i))%N by lia. reflexivity.
  Qed.

  Lemma in_mk_parts : forall cs prs j g, In (Some g) (mk_parts j cs prs) ->
    exists i, nth_error cs i = Some (pt_bytes g) /\ nth_error prs i = Some (pt_proof g) /\ pt_index g = (j + N.of_nat i)%N.
  Proof.
    induction cs as [|c0 cs IH]; intros prs j g Hin; destruct prs; cbn [mk_parts In] in Hin; try contradiction.
    destruct Hin as [E|Hin].
    - inversion E; subst. exists 0. cbn [nth_error pt_bytes pt_proof pt_index]. repeat split; auto. lia.
    - destruct (IH _ _ _ Hin) as [i [A [B C]]]. exists (S i). cbn [nth_error]. repeat split; auto. lia.
  Qed.

  (** what a genuine part (an element of the full set) is *)
  Definition genuine (g : part) : Prop := In (Some g) (ps_parts full).

  Lemma genuine_spec g : genuine g ->
    exists i, i < n /\ nth_error chunks i = Some (pt_bytes g) /\ pt_index g = N.of_nat i /\
              p_index (pt_proof g) = N.of_nat i /\ p_total (pt_proof g) = N.of_nat n /\
              verify H (root chunks) (pt_bytes g) (pt_proof g) = VOk.
  Proof.
    intros Hg. destruct full_facts as [_ [_ [Hn63 [_ [_ [_ [_ [prs [Hp [Hparts Hpl]]]]]]]]]].
    unfold genuine in Hg. rewrite Hparts in Hg.
    destruct (in_mk_parts _ _ _ _ Hg) as [i [Hc [Hpr Hidx]]].
    destruct (merkle_complete_lemma chunks _ _ i _ _ Hn63 Hp Hc Hpr) as [_ [Ht [Hi Hv]]].
    exists i. split; [unfold n; apply nth_error_Some; congruence|].
    split; [exact Hc|]. split; [lia|]. split; [exact Hi|]. split; [exact Ht|exact Hv].
  Qed.

  Lemma genuine_exists i : i < n -> exists g, genuine g /\ pt_index g = N.of_nat i.
  Proof.
    intros Hi. destruct full_facts as [_ [_ [_ [_ [_ [_ [_ [prs [Hp [Hparts Hpl]]]]]]]]]].
    destruct (nth_error chunks i) as [c|] eqn:Ec; [|apply nth_error_None in Ec; fold n in Ec; lia].
    destruct (nth_error prs i) as [pr|] eqn:Epr; [|apply nth_error_None in Epr; lia].
    exists {| pt_index := 0 + N.of_nat i; pt_bytes := c; pt_proof := pr |}. split; [|simpl; lia].
    unfold genuine. rewrite Hparts. eapply nth_error_In. apply nth_mk_parts; eauto.
  Qed.

  (* ---------------------------------------------------------------- invariants *)

  Fixpoint count_some (l : list (option part)) : N :=
    match l with [] => 0 | Some _ :: l' => count_some l' + 1 | None :: l' => count_some l' end.

  Lemma count_some_le l : (count_some l <= N.of_nat (length l))%N.
  Proof. induction l as [|[p|] l IH]; simpl length; cbn [count_some]; lia. Qed.

  Lemma count_some_full l : count_some l = N.of_nat (length l) -> Forall (fun o => o <> None) l.
  Proof.
    induction l as [|[p|] l IH]; cbn [count_some]; simpl length; intros Hc.
    - constructor.
    - constructor; [discriminate|apply IH; lia].
    - pose proof (count_some_le l). lia.
  Qed.

  Lemma count_some_all l : Forall (fun o => o <> None) l -> count_some l = N.of_nat (length l).
  Proof.
    induction 1 as [|o l Ho _ IH]; [reflexivity|]. destruct o; [|congruence]. cbn [count_some]. simpl length. lia.
  Qed.

  Lemma count_some_set : forall l i p, nth_error l i = Some None ->
    count_some (set_nth i (Some p) l) = (count_some l + 1)%N.
  Proof.
    induction l as [|o l IH]; intros i p Hn; destruct i; simpl in Hn; try discriminate.
    - inversion Hn; subst. reflexivity.
    - simpl set_nth. destruct o; cbn [count_some]; rewrite (IH _ _ Hn); lia.
  Qed.

  (** structural invariant of a set created from the genuine header *)
  Record InvS (s : partset) : Prop := {
    is_total : ps_total s = N.of_nat n;
    is_hash : ps_hash s = root chunks;
    is_len : length (ps_parts s) = n;
    is_count : ps_count s = count_some (ps_parts s) }.

  (** content invariant: every filled slot holds the bytes of that chunk *)
  Definition slot_ok (o : option part) (c : bytes) : Prop :=
    match o with None => True | Some p => pt_bytes p = c end.
  Definition InvC (s : partset) : Prop := Forall2 slot_ok (ps_parts s) chunks.

  Definition s0 : partset := from_header (ps_total full) (ps_hash full).

  Lemma count_some_repeat k : count_some (repeat None k) = 0%N.
  Proof. induction k; simpl; auto. Qed.

  Lemma InvS_s0 : InvS s0.
  Proof.
    destruct full_facts as [_ [_ [_ [Ht [Hh _]]]]].
    unfold s0, from_header. rewrite Ht, Hh. constructor; cbn [ps_total ps_hash ps_parts ps_count]; auto.
    - rewrite repeat_length. lia.
    - rewrite count_some_repeat. reflexivity.
  Qed.

  Lemma slot_ok_repeat (cs : list bytes) : Forall2 slot_ok (repeat None (length cs)) cs.
  Proof. induction cs; simpl; constructor; simpl; auto. Qed.

  Lemma InvC_s0 : InvC s0.
  Proof.
    destruct full_facts as [_ [_ [_ [Ht _]]]].
    unfold InvC, s0, from_header. cbn [ps_parts]. rewrite Ht, Nat2N.id. unfold n. apply slot_ok_repeat.
  Qed.

  (** a refused part leaves the set exactly as it was *)
  Lemma add_part_rejected s p s' e : add_part H s p = (s', (false, e)) -> s' = s.
  Proof.
    unfold add_part. intros Ha.
    destruct (ps_total s <=? pt_index p)%N; [inversion Ha; auto|].
    destruct (nth_error (ps_parts s) (N.to_nat (pt_index p))) as [[q|]|]; try (inversion Ha; auto; fail).
    destruct (negb _ || negb _)%bool; [inversion Ha; auto|].
    destruct (verify H (ps_hash s) (pt_bytes p) (pt_proof p)); inversion Ha; auto.
  Qed.

  Lemma add_part_accepted s p s' e : add_part H s p = (s', (true, e)) ->
    e = ENone /\ (pt_index p < ps_total s)%N /\ nth_error (ps_parts s) (N.to_nat (pt_index p)) = Some None /\
    p_index (pt_proof p) = pt_index p /\ p_total (pt_proof p) = ps_total s /\
    verify H (ps_hash s) (pt_bytes p) (pt_proof p) = VOk /\
    s' = {| ps_total := ps_total s; ps_hash := ps_hash s;
            ps_parts := set_nth (N.to_nat (pt_index p)) (Some p) (ps_parts s); ps_count := ps_count s + 1 |}.
  Proof.
    unfold add_part. intros Ha.
    destruct (N.leb_spec (ps_total s) (pt_index p)); [inversion Ha|].
    destruct (nth_error (ps_parts s) (N.to_nat (pt_index p))) as [[q|]|]; try (inversion Ha; fail).
    destruct (N.eqb_spec (p_index (pt_proof p)) (pt_index p)); cbn [negb orb] in Ha; [|inversion Ha].
    destruct (N.eqb_spec (p_total (pt_proof p)) (ps_total s)); cbn [negb] in Ha; [|inversion Ha].
    destruct (verify H (ps_hash s) (pt_bytes p) (pt_proof p)) eqn:Ev; inversion Ha; subst.
    repeat split; auto.
  Qed.

  Lemma add_part_InvS s p : InvS s -> InvS (fst (add_part H s p)).
  Proof.
    intros Hs. destruct (add_part H s p) as [s' [[|] e]] eqn:Ea; cbn [fst].
    - destruct (add_part_accepted _ _ _ _ Ea) as [_ [Hlt [Hnone [_ [_ [_ Es']]]]]]. subst s'.
      destruct Hs as [A B C D]. constructor; cbn [ps_total ps_hash ps_parts ps_count]; auto.
      + rewrite set_nth_length. exact C.
      + rewrite count_some_set by exact Hnone. rewrite D. reflexivity.
    - rewrite (add_part_rejected _ _ _ _ Ea). exact Hs.
  Qed.

  Lemma add_part_no_crash s p : InvS s -> snd (snd (add_part H s p)) <> ECrash.
  Proof.
    intros [A B C D]. unfold add_part.
    destruct (N.leb_spec (ps_total s) (pt_index p)); [discriminate|].
    destruct (nth_error (ps_parts s) (N.to_nat (pt_index p))) as [[q|]|] eqn:En; [discriminate| |].
    - destruct (negb _ || negb _)%bool; [discriminate|].
      destruct (verify H (ps_hash s) (pt_bytes p) (pt_proof p)); discriminate.
    - exfalso. apply nth_error_None in En. lia.
  Qed.

  (** an accepted part carries the bytes of its chunk, or a collision is exhibited *)
  Lemma accepted_is_chunk s p s' e : InvS s -> add_part H s p = (s', (true, e)) ->
    nth_error chunks (N.to_nat (pt_index p)) = Some (pt_bytes p) \/ collision.
  Proof.
    intros [A B C D] Ha.
    destruct (add_part_accepted _ _ _ _ Ha) as [_ [Hlt [_ [Hi [Ht [Hv _]]]]]].
    destruct full_facts as [_ [Hne [Hn63 _]]].
    rewrite B in Hv. rewrite <- Hi.
    apply merkle_sound_lemma; auto.
    - rewrite Hi, A in *. unfold two63 in Hn63. lia.
    - rewrite Ht, A. reflexivity.
  Qed.

  Lemma Forall2_set_nth {A B} (R : A -> B -> Prop) : forall l1 l2 i x c,
    Forall2 R l1 l2 -> nth_error l2 i = Some c -> R x c -> Forall2 R (set_nth i x l1) l2.
  Proof.
    induction l1 as [|a l1 IH]; intros l2 i x c HF Hn HR; inversion HF; subst.
    - destruct i; discriminate.
    - destruct i; simpl in *.
      + inversion Hn; subst. constructor; auto.
      + constructor; auto. eapply IH; eauto.
  Qed.

  Lemma add_part_InvC_good s p : InvS s -> InvC s ->
    (fst (snd (add_part H s p)) = true -> nth_error chunks (N.to_nat (pt_index p)) = Some (pt_bytes p)) ->
    InvC (fst (add_part H s p)).
  Proof.
    intros Hs Hc Hgood. destruct (add_part H s p) as [s' [[|] e]] eqn:Ea; cbn [fst snd] in *.
    - destruct (add_part_accepted _ _ _ _ Ea) as [_ [_ [_ [_ [_ [_ Es']]]]]]. subst s'.
      unfold InvC. cbn [ps_parts]. eapply Forall2_set_nth; [exact Hc|apply Hgood; reflexivity|reflexivity].
    - rewrite (add_part_rejected _ _ _ _ Ea). exact Hc.
  Qed.

  Lemma add_part_InvC s p : InvS s -> InvC s -> InvC (fst (add_part H s p)) \/ collision.
  Proof.
    intros Hs Hc. destruct (add_part H s p) as [s' [[|] e]] eqn:Ea.
    - destruct (accepted_is_chunk _ _ _ _ Hs Ea) as [Hch|C]; [|right; exact C].
      left. pose proof (add_part_InvC_good s p Hs Hc) as G. rewrite Ea in G. apply G. intros _. exact Hch.
    - left. cbn [fst]. rewrite (add_part_rejected _ _ _ _ Ea). exact Hc.
  Qed.

  Lemma add_all_InvS ops : forall s, InvS s -> InvS (add_all H s ops).
  Proof. induction ops as [|p ops IH]; intros s Hs; [exact Hs|]. simpl. apply IH. apply add_part_InvS. exact Hs. Qed.

  Lemma add_all_InvC ops : forall s, InvS s -> InvC s -> InvC (add_all H s ops) \/ collision.
  Proof.
    induction ops as [|p ops IH]; intros s Hs Hc; [left; exact Hc|]. simpl.
    destruct (add_part_InvC s p Hs Hc) as [Hc'|C]; [|right; exact C].
    apply IH; [apply add_part_InvS; exact Hs|exact Hc'].
  Qed.

  (* ---------------------------------------------------------------- reading a complete set *)

  Lemma concat_parts_all : forall parts cs,
    Forall2 slot_ok parts cs -> Forall (fun o => o <> None) parts -> concat_parts parts = Some (concat cs).
  Proof.
    induction 1 as [|o c parts cs Ho _ IH]; intros Hall; [reflexivity|].
    inversion Hall; subst. destruct o as [p|]; [|congruence].
    cbn [concat_parts concat]. rewrite IH by assumption. simpl in Ho. rewrite Ho. reflexivity.
  Qed.

  Lemma read_complete s : InvS s -> InvC s -> is_complete s = true -> read_all s = Some data.
  Proof.
    intros [A B C D] Hc Hcomp.
    destruct full_facts as [_ [Hne [_ [_ [_ [_ [Hcat _]]]]]]].
    unfold read_all. rewrite Hcomp. cbn [negb].
    unfold is_complete in Hcomp. apply N.eqb_eq in Hcomp.
    assert (Hall : Forall (fun o => o <> None) (ps_parts s)).
    { apply count_some_full. rewrite <- D, Hcomp, A, C. reflexivity. }
    destruct (ps_parts s) as [|o l] eqn:Ep.
    - exfalso. simpl in C. unfold n in C. destruct chunks; [congruence|discriminate].
    - rewrite <- Ep in *. rewrite (concat_parts_all _ _ Hc Hall), Hcat. reflexivity.
  Qed.

  (* ---------------------------------------------------------------- delivery of genuine parts *)

  Definition filled (s : partset) (i : nat) : Prop := exists q, nth_error (ps_parts s) i = Some (Some q).

  Lemma filled_mono s p i : filled s i -> filled (fst (add_part H s p)) i.
  Proof.
    intros [q Hq]. destruct (add_part H s p) as [s' [[|] e]] eqn:Ea; cbn [fst].
    - destruct (add_part_accepted _ _ _ _ Ea) as [_ [_ [Hnone [_ [_ [_ Es']]]]]]. subst s'.
      exists q. cbn [ps_parts]. rewrite nth_error_set_nth_neq; [exact Hq|]. intros E. rewrite E in Hnone. congruence.
    - rewrite (add_part_rejected _ _ _ _ Ea). exists q. exact Hq.
  Qed.

  (** a genuine part offered to a set under the genuine header is accepted whenever its slot is free *)
  Lemma genuine_addable s g : InvS s -> genuine g ->
    nth_error (ps_parts s) (N.to_nat (pt_index g)) = Some None ->
    exists s', add_part H s g = (s', (true, ENone)) /\ nth_error (ps_parts s') (N.to_nat (pt_index g)) = Some (Some g).
  Proof.
    intros [A B C D] Hg Hnone.
    destruct (genuine_spec g Hg) as [i [Hi [Hc [Hidx [Hpi [Hpt Hv]]]]]].
    unfold add_part. rewrite A, Hidx.
    destruct (N.leb_spec (N.of_nat n) (N.of_nat i)); [lia|].
    rewrite Hidx in Hnone. rewrite Hnone.
    rewrite Hpi, Hpt, !N.eqb_refl. cbn [negb orb]. rewrite B, Hv.
    eexists. split; [reflexivity|]. cbn [ps_parts].
    apply nth_error_set_nth_eq. rewrite Nat2N.id, C. exact Hi.
  Qed.

  Lemma genuine_fills s g : InvS s -> genuine g -> filled (fst (add_part H s g)) (N.to_nat (pt_index g)).
  Proof.
    intros Hs Hg.
    destruct (genuine_spec g Hg) as [i [Hi [_ [Hidx _]]]].
    destruct (nth_error (ps_parts s) (N.to_nat (pt_index g))) as [[q|]|] eqn:En.
    - apply filled_mono. exists q. exact En.
    - destruct (genuine_addable s g Hs Hg En) as [s' [Ea Hn]]. rewrite Ea. exists g. exact Hn.
    - exfalso. apply nth_error_None in En. rewrite (is_len _ Hs), Hidx, Nat2N.id in En. lia.
  Qed.

  Lemma add_all_filled ops : forall s i, filled s i -> filled (add_all H s ops) i.
  Proof. induction ops as [|p ops IH]; intros s i Hf; [exact Hf|]. simpl. apply IH. apply filled_mono. exact Hf. Qed.

  Lemma add_all_delivers ops : forall s g, InvS s -> genuine g -> In g ops ->
    filled (add_all H s ops) (N.to_nat (pt_index g)).
  Proof.
    induction ops as [|p ops IH]; intros s g Hs Hg Hin; [contradiction|]. simpl.
    destruct Hin as [E|Hin].
    - subst p. apply add_all_filled. apply genuine_fills; assumption.
    - apply IH; auto. apply add_part_InvS. exact Hs.
  Qed.

  Lemma all_filled_complete s : InvS s -> (forall i, i < n -> filled s i) -> is_complete s = true.
  Proof.
    intros [A B C D] Hf. unfold is_complete. apply N.eqb_eq. rewrite D, A, <- C.
    apply count_some_all. apply Forall_forall. intros o Ho.
    destruct (In_nth_error _ _ Ho) as [i Hi].
    assert (i < n) by (rewrite <- C; apply nth_error_Some; congruence).
    destruct (Hf i H0) as [q Hq]. congruence.
  Qed.

  (** any delivery that contains every genuine part — in any order, with duplicates and arbitrary
      other parts in between — completes the set *)
  Lemma delivery_completes ops : (forall g, genuine g -> In g ops) -> is_complete (add_all H s0 ops) = true.
  Proof.
    intros Hall. apply all_filled_complete; [apply add_all_InvS, InvS_s0|].
    intros i Hi. destruct (genuine_exists i Hi) as [g [Hg Hidx]].
    pose proof (add_all_delivers ops s0 g InvS_s0 Hg (Hall g Hg)) as Hf.
    rewrite Hidx, Nat2N.id in Hf. exact Hf.
  Qed.

  (* ---------------------------------------------------------------- genuine parts on the wire *)

  (** every part produced by NewPartSetFromData with a part size within the limit passes the checks
      PartFromProto applies on the wire, in the WAL and in the block store *)
  Lemma genuine_passes_wire max g : (psz <= max)%N -> genuine g ->
    part_from_proto max (pt_index g) (pt_bytes g) (pt_proof g) = WOk.
  Proof.
    intros Hmax Hg.
    destruct full_facts as [_ [_ [_ [_ [_ [_ [_ [prs [Hp [Hparts Hpl]]]]]]]]]].
    unfold genuine in Hg. rewrite Hparts in Hg.
    destruct (in_mk_parts _ _ _ _ Hg) as [i [Hc [Hpr _]]].
    unfold proofs_from in Hp. fold chunks in Hc.
    destruct chunks as [|c0 cs] eqn:Ech; [destruct i; discriminate|]. rewrite <- Ech in *.
    assert (Eprs : prs = number_proofs (N.of_nat (length chunks)) 0 (fst (trails H chunks))).
    { rewrite Ech in Hp. cbv beta iota in Hp. rewrite <- Ech in Hp. inversion Hp. reflexivity. }
    rewrite Eprs, nth_number_proofs in Hpr.
    destruct (nth_error (fst (trails H chunks)) i) as [t|] eqn:Et; [|discriminate].
    inversion Hpr as [Epr].
    pose proof (trails_lens chunks) as TL. rewrite Forall_forall in TL.
    destruct (TL t (nth_error_In _ _ Et)) as [A B].
    unfold part_from_proto, proof_validate_basic, part_validate_basic. try rewrite <- Epr. cbn [p_leaf p_aunts].
    rewrite A, (forallb_len32 _ B). cbn [Nat.eqb andb negb].
    pose proof (chunk_len data psz (pt_bytes g) (nth_error_In _ _ Hc)) as Hlen.
    destruct (N.leb_spec (N.of_nat (length (pt_bytes g))) max); [reflexivity|lia].
  Qed.

  (* ---------------------------------------------------------------- the property lemmas *)

  Lemma complete_exact ops : is_complete (add_all H s0 ops) = true ->
    read_all (add_all H s0 ops) = Some data \/ collision.
  Proof.
    intros Hc. destruct (add_all_InvC ops s0 InvS_s0 InvC_s0) as [HC|C]; [|right; exact C].
    left. apply read_complete; auto. apply add_all_InvS, InvS_s0.
  Qed.

  Lemma genuine_only_InvC ops : (forall p, In p ops -> genuine p) -> forall s, InvS s -> InvC s -> InvC (add_all H s ops).
  Proof.
    induction ops as [|p ops IH]; intros Hg s Hs Hc; [exact Hc|]. simpl.
    apply IH; [intros q Hq; apply Hg; right; exact Hq|apply add_part_InvS; exact Hs|].
    apply add_part_InvC_good; auto. intros _.
    destruct (genuine_spec p (Hg p (or_introl eq_refl))) as [i [_ [Hch [Hidx _]]]].
    rewrite Hidx, Nat2N.id. exact Hch.
  Qed.

  Lemma permutation_reads ops : (forall p, In p ops -> genuine p) -> (forall g, genuine g -> In g ops) ->
    is_complete (add_all H s0 ops) = true /\ read_all (add_all H s0 ops) = Some data.
  Proof.
    intros H1 H2. pose proof (delivery_completes ops H2) as Hc. split; [exact Hc|].
    apply read_complete; auto; [apply add_all_InvS, InvS_s0|apply genuine_only_InvC; auto using InvS_s0, InvC_s0].
  Qed.

  Lemma bogus_harmless ops :
    let s := add_all H s0 ops in
    (forall p s' e, add_part H s p = (s', (false, e)) -> s' = s /\ e <> ECrash) /\
    (forall p s' e, add_part H s p = (s', (true, e)) ->
       e = ENone /\ nth_error (ps_parts s') (N.to_nat (pt_index p)) = Some (Some p) /\
       (nth_error chunks (N.to_nat (pt_index p)) = Some (pt_bytes p) \/ collision)) /\
    (forall g, genuine g ->
       (exists q, nth_error (ps_parts s) (N.to_nat (pt_index g)) = Some (Some q) /\ (pt_bytes q = pt_bytes g \/ collision)) \/
       (exists s', add_part H s g = (s', (true, ENone)))).
  Proof.
    intros s. assert (Hs : InvS s) by (apply add_all_InvS, InvS_s0).
    split; [|split].
    - intros p s' e Ha. split; [eapply add_part_rejected; exact Ha|].
      pose proof (add_part_no_crash s p Hs) as Hn. rewrite Ha in Hn. exact Hn.
    - intros p s' e Ha.
      destruct (add_part_accepted _ _ _ _ Ha) as [He [Hlt [_ [_ [_ [_ Es']]]]]].
      split; [exact He|]. split.
      + subst s'. cbn [ps_parts]. apply nth_error_set_nth_eq. rewrite (is_len _ Hs), <- (Nat2N.id n), <- (is_total _ Hs). lia.
      + eapply accepted_is_chunk; eauto.
    - intros g Hg.
      destruct (genuine_spec g Hg) as [i [Hi [Hch [Hidx _]]]].
      destruct (nth_error (ps_parts s) (N.to_nat (pt_index g))) as [[q|]|] eqn:En.
      + left. exists q. split; [reflexivity|].
        destruct (add_all_InvC ops s0 InvS_s0 InvC_s0) as [HC|C]; [|right; exact C]. left.
        fold s in HC. unfold InvC in HC.
        rewrite Hidx, Nat2N.id in En.
        clear - HC En Hch. revert i En Hch. induction HC as [|o c l cs Ho _ IH]; intros i En Hch; destruct i; simpl in *; try discriminate.
        * inversion En; inversion Hch; subst. exact Ho.
        * eapply IH; eauto.
      + right. destruct (genuine_addable s g Hs Hg En) as [s' [Ea _]]. exists s'. exact Ea.
      + exfalso. apply nth_error_None in En. rewrite (is_len _ Hs), Hidx, Nat2N.id in En. lia.
  Qed.
End PartSet.

(** the hypotheses of the part-set theorems are satisfiable (a toy hash with 32-byte output) *)
Example hyps_satisfiable :
  let H := fun x : bytes => firstn 32 (x ++ repeat 0%N 32) in
  (forall x, length (H x) = 32) /\ exists full, from_data H [1; 2; 3; 4; 5]%N 2%N = Some full /\ ps_total full = 3%N.
Proof.
  split.
  - intros x. rewrite firstn_length, app_length, repeat_length. lia.
  - eexists. split; [vm_compute; reflexivity|reflexivity].
Qed.
