(** C09 — the contract assumed of the interpreter ([ExecOK]) and what KVM.Call / KVM.create
    (as transcribed in Model.v) guarantee under it: gas returned, balance sum, nonce of the
    transaction origin, refund counter, suicide list. *)
From Coq Require Import List ZArith NArith Bool Lia.
From Kardia Require Import Base.Int64 C09.Model C09.ProofsBase Generated.C09Facts.
Import ListNotations.
Local Open Scope Z_scope.

(** ** The contract of the interpreter.
    Nothing is assumed about the state it returns on failure: kvm.go itself reverts to its
    snapshot, and so does the model. *)
Record ExecOK (run : state -> call_input -> run_output) : Prop := {
  (* the gas left is what was given minus what was used *)
  ok_gas : forall s ci, 0 <= ci_gas ci -> 0 <= ro_gas (run s ci) <= ci_gas ci;
  (* balances only move between accounts, except what SELFDESTRUCT-to-self destroys *)
  ok_burn : forall s ci, 0 <= ro_burn (run s ci);
  ok_moves : forall s ci, ro_err (run s ci) = VOk ->
             sum_dbal (ro_writes (run s ci)) = - ro_burn (run s ci);
  ok_refund : forall s ci, 0 <= ro_refund (run s ci);
  ok_retlen : forall s ci, 0 <= ro_retlen (run s ci);
  (* the origin of a transaction is an externally owned account: no code runs in its name, so
     the interpreter neither bumps its nonce (CREATE) nor destructs it *)
  ok_origin : forall s ci w, In w (ro_writes (run s ci)) -> w_addr w = ci_origin ci ->
              w_dnonce w = 0 /\ w_dead w = false
}.

(** every account the interpreter writes to is in the universe [U] the sum ranges over *)
Definition Closed (U : list N) (run : state -> call_input -> run_output) : Prop :=
  forall s ci w, In w (ro_writes (run s ci)) -> In (w_addr w) U.

Definition incl_dead (U : list N) (s : state) : Prop := forall a, In a (st_dead s) -> In a U.

Section VM.
Variable run : state -> call_input -> run_output.
Hypothesis OK : ExecOK run.

(* ------------------------------------------------------------------ *)
(** * KVM.Call *)

Definition call_ci (mid origin caller a : N) (gas value : Z) : call_input :=
  {| ci_msg := mid; ci_create := false; ci_origin := origin; ci_caller := caller;
     ci_addr := a; ci_gas := gas; ci_value := value |}.

Lemma call_cases s mid origin caller a gas value R :
  call run s mid origin caller a gas value = R ->
  let s1 := transfer s caller a value in
  let o := run s1 (call_ci mid origin caller a gas value) in
  (* insufficient balance *)
  R = (s, gas, VBalance, 0)
  (* no code, not a precompile: plain transfer, gas untouched *)
  \/ R = (s1, gas, VOk, 0)
  (* the run succeeded: its effects are kept *)
  \/ (ro_err o = VOk /\ R = (apply_writes s1 o, ro_gas o, VOk, ro_burn o))
  (* the run failed or reverted: back to the snapshot *)
  \/ (exists g e, R = (s, g, e, 0) /\ e <> VOk /\ (g = 0 \/ g = ro_gas o)).
Proof.
  unfold call. fold (call_ci mid origin caller a gas value).
  destruct (negb (value =? 0) && negb (can_transfer s caller value)); [intros <-; left; reflexivity|].
  destruct (is_precompile a || negb (N.eqb (code (transfer s caller a value) a) 0)).
  - destruct (ro_err (run (transfer s caller a value) (call_ci mid origin caller a gas value))) eqn:He;
      intros <-; cbn zeta.
    + right; right; left. split; reflexivity.
    + right; right; right. exists (ro_gas (run (transfer s caller a value) (call_ci mid origin caller a gas value))), VRevert.
      repeat split; [discriminate|right; reflexivity].
    + right; right; right. exists 0, VFail. repeat split; [discriminate|left; reflexivity].
    + right; right; right. exists 0, VCodeStore. repeat split; [discriminate|left; reflexivity].
    + right; right; right. exists 0, VMaxCode. repeat split; [discriminate|left; reflexivity].
    + right; right; right. exists 0, VCollision. repeat split; [discriminate|left; reflexivity].
    + right; right; right. exists 0, VBalance. repeat split; [discriminate|left; reflexivity].
  - intros <-. right; left; reflexivity.
Qed.

Lemma call_gas s mid origin caller a gas value s2 g2 e b :
  call run s mid origin caller a gas value = (s2, g2, e, b) -> 0 <= gas -> 0 <= g2 <= gas.
Proof.
  intros H Hg. apply call_cases in H. cbn zeta in H.
  pose proof (ok_gas run OK (transfer s caller a value) (call_ci mid origin caller a gas value) Hg) as Hb.
  cbn [ci_gas call_ci] in Hb.
  destruct H as [H|[H|[[_ H]|[g [e' [H [_ Hg']]]]]]].
  - inversion H; subst; lia.
  - inversion H; subst; lia.
  - inversion H; subst; lia.
  - inversion H; subst. destruct Hg'; subst; lia.
Qed.

Lemma call_burn_nonneg s mid origin caller a gas value s2 g2 e b :
  call run s mid origin caller a gas value = (s2, g2, e, b) -> 0 <= b.
Proof.
  intros H. apply call_cases in H. cbn zeta in H.
  destruct H as [H|[H|[[_ H]|[g [e' [H _]]]]]]; inversion H; subst; try lia.
  apply (ok_burn run OK).
Qed.

Lemma call_total U s mid origin caller a gas value s2 g2 e b :
  call run s mid origin caller a gas value = (s2, g2, e, b) ->
  NoDup U -> Closed U run -> In caller U -> In a U ->
  total U s2 = total U s - b.
Proof.
  intros H Hnd Hcl Hc Ha. apply call_cases in H. cbn zeta in H.
  destruct H as [H|[H|[[He H]|[g [e' [H _]]]]]]; inversion H; subst; try lia.
  - rewrite total_transfer by assumption. lia.
  - rewrite total_apply_writes by (try assumption; intros w Hw; eapply Hcl; exact Hw).
    rewrite (ok_moves run OK _ _ He). rewrite total_transfer by assumption. lia.
Qed.

(** the failed / reverted cases return the very state they were given *)
Lemma call_failed_state s mid origin caller a gas value s2 g2 e b :
  call run s mid origin caller a gas value = (s2, g2, e, b) -> e <> VOk -> s2 = s /\ b = 0.
Proof.
  intros H Hne. apply call_cases in H. cbn zeta in H.
  destruct H as [H|[H|[[_ H]|[g [e' [H _]]]]]]; inversion H; subst; try congruence; auto.
Qed.

Lemma call_nonce s mid origin caller a gas value s2 g2 e b :
  call run s mid origin caller a gas value = (s2, g2, e, b) ->
  nonce s2 origin = nonce s origin.
Proof.
  intros H. apply call_cases in H. cbn zeta in H.
  destruct H as [H|[H|[[_ H]|[g [e' [H _]]]]]]; inversion H; subst; try reflexivity.
  - apply nonce_transfer.
  - rewrite nonce_apply_writes; [apply nonce_transfer|].
    intros w Hw Ha. apply (ok_origin run OK _ _ w Hw Ha).
Qed.

Lemma call_refund s mid origin caller a gas value s2 g2 e b :
  call run s mid origin caller a gas value = (s2, g2, e, b) ->
  0 <= st_refund s -> 0 <= st_refund s2.
Proof.
  intros H Hr. apply call_cases in H. cbn zeta in H.
  destruct H as [H|[H|[[_ H]|[g [e' [H _]]]]]]; inversion H; subst; try assumption.
  rewrite refund_apply_writes. apply (ok_refund run OK).
Qed.

Lemma dead_after_writes s o origin :
  (forall w, In w (ro_writes o) -> w_addr w = origin -> w_dead w = false) ->
  (~ In origin (st_dead s) -> ~ In origin (st_dead (apply_writes s o))) /\
  (forall U, (forall w, In w (ro_writes o) -> In (w_addr w) U) -> incl_dead U s ->
             incl_dead U (apply_writes s o)).
Proof.
  intros Ho. split.
  - intros Hn Ha. rewrite dead_apply_writes in Ha. apply dead_fold_writes in Ha.
    destruct Ha as [Ha|[w [Hw [Hwa Hd]]]]; [contradiction|].
    rewrite (Ho w Hw Hwa) in Hd. discriminate.
  - intros U Hcl Hi a Ha. rewrite dead_apply_writes in Ha. apply dead_fold_writes in Ha.
    destruct Ha as [Ha|[w [Hw [<- _]]]]; [apply Hi; exact Ha|apply Hcl; exact Hw].
Qed.

Lemma call_dead s mid origin caller a gas value s2 g2 e b :
  call run s mid origin caller a gas value = (s2, g2, e, b) ->
  (~ In origin (st_dead s) -> ~ In origin (st_dead s2)) /\
  (forall U, Closed U run -> incl_dead U s -> incl_dead U s2).
Proof.
  intros H. apply call_cases in H. cbn zeta in H.
  destruct H as [H|[H|[[_ H]|[g [e' [H _]]]]]]; inversion H; subst; try (split; intros; assumption).
  destruct (dead_after_writes (transfer s caller a value)
              (run (transfer s caller a value) (call_ci mid origin caller a gas value)) origin) as [H1 H2].
  - intros w Hw Ha. apply (ok_origin run OK _ _ w Hw Ha).
  - split; [exact H1|]. intros U Hcl Hi. apply H2; [|exact Hi].
    intros w Hw. eapply Hcl; exact Hw.
Qed.

(* ------------------------------------------------------------------ *)
(** * KVM.create (for any wrap function [W]) *)

Section Create.
Variable W : Z -> Z.

Definition cr_s0 (s : state) (caller : N) : state := set_nonce s caller (W (nonce s caller + 1)).
Definition cr_s3 (s : state) (caller address : N) (value : Z) : state :=
  transfer (set_nonce (create_account (cr_s0 s caller) address) address 1) caller address value.
Definition create_ci (mid origin caller a : N) (gas value : Z) : call_input :=
  {| ci_msg := mid; ci_create := true; ci_origin := origin; ci_caller := caller;
     ci_addr := a; ci_gas := gas; ci_value := value |}.

Lemma create_cases s mid origin caller address gas value R :
  create W run s mid origin caller address gas value = R ->
  let s0 := cr_s0 s caller in
  let s3 := cr_s3 s caller address value in
  let o := run s3 (create_ci mid origin caller address gas value) in
  let cdg := W (ro_retlen o * create_data_gas) in
  (* insufficient balance: nothing happened, not even the nonce *)
  (can_transfer s caller value = false /\ R = (s, gas, VBalance, 0))
  (* address collision: nonce bumped, all gas gone *)
  \/ (can_transfer s caller value = true /\ R = (s0, 0, VCollision, 0))
  (* success: effects kept, code deposited and paid for *)
  \/ (can_transfer s caller value = true /\ nonce s0 address = 0 /\
      ro_err o = VOk /\ ro_retlen o <= max_code_size /\ cdg <= ro_gas o /\
      R = (set_code (apply_writes s3 o) address (ro_retcode o), ro_gas o - cdg, VOk, ro_burn o))
  (* any failure: back to the snapshot taken after the nonce bump *)
  \/ (can_transfer s caller value = true /\ nonce s0 address = 0 /\
      exists g e, R = (s0, g, e, 0) /\ e <> VOk /\ (g = 0 \/ g = ro_gas o)).
Proof.
  unfold create. fold (cr_s0 s caller). fold (cr_s3 s caller address value).
  fold (create_ci mid origin caller address gas value).
  destruct (can_transfer s caller value) eqn:Hct; cbn [negb].
  2:{ intros <-. left. split; reflexivity. }
  destruct (nonce (cr_s0 s caller) address =? 0) eqn:Hn0; cbn [negb orb].
  2:{ intros <-. right; left. split; reflexivity. }
  apply Z.eqb_eq in Hn0.
  destruct (N.eqb (code (cr_s0 s caller) address) 0); cbn [negb].
  2:{ intros <-. right; left. split; reflexivity. }
  set (o := run (cr_s3 s caller address value) (create_ci mid origin caller address gas value)).
  destruct (ro_err o) eqn:He; cbn [vm_err_eqb andb negb orb];
    destruct (max_code_size <? ro_retlen o) eqn:Hex; cbn [andb negb orb vm_err_eqb];
    try (destruct (W (ro_retlen o * create_data_gas) <=? ro_gas o) eqn:Hcd; cbn [vm_err_eqb negb orb andb]);
    intros <-;
    try (right; right; left; apply Z.ltb_ge in Hex; apply Z.leb_le in Hcd; repeat split; (assumption || reflexivity));
    right; right; right; (split; [reflexivity|split; [assumption|]]).
  all: try (eexists _, _; split; [reflexivity|split; [discriminate|auto]]).
Qed.

Hypothesis Wcdg : forall z, 0 <= W z.

Lemma create_gas s mid origin caller address gas value s2 g2 e b :
  create W run s mid origin caller address gas value = (s2, g2, e, b) -> 0 <= gas -> 0 <= g2 <= gas.
Proof.
  intros H Hg. apply create_cases in H. cbn zeta in H.
  pose proof (ok_gas run OK (cr_s3 s caller address value) (create_ci mid origin caller address gas value) Hg) as Hb.
  cbn [ci_gas create_ci] in Hb.
  destruct H as [[_ H]|[[_ H]|[[_ [_ [_ [_ [Hc H]]]]]|[_ [_ [g [e' [H [_ Hg']]]]]]]]].
  - inversion H; subst; lia.
  - inversion H; subst; lia.
  - inversion H; subst.
    pose proof (Wcdg (ro_retlen (run (cr_s3 s caller address value) (create_ci mid origin caller address gas value)) * create_data_gas)). lia.
  - inversion H; subst. destruct Hg'; subst; lia.
Qed.

Lemma create_burn_nonneg s mid origin caller address gas value s2 g2 e b :
  create W run s mid origin caller address gas value = (s2, g2, e, b) -> 0 <= b.
Proof.
  intros H. apply create_cases in H. cbn zeta in H.
  destruct H as [[_ H]|[[_ H]|[[_ [_ [_ [_ [_ H]]]]]|[_ [_ [g [e' [H _]]]]]]]]; inversion H; subst; try lia.
  apply (ok_burn run OK).
Qed.

Lemma total_cr_s0 U s caller : total U (cr_s0 s caller) = total U s.
Proof. apply total_set_nonce. Qed.

Lemma total_cr_s3 U s caller address value :
  NoDup U -> In caller U -> In address U -> total U (cr_s3 s caller address value) = total U s.
Proof.
  intros. unfold cr_s3. rewrite total_transfer by assumption.
  rewrite total_set_nonce, total_create_account. apply total_cr_s0.
Qed.

Lemma create_total U s mid origin caller address gas value s2 g2 e b :
  create W run s mid origin caller address gas value = (s2, g2, e, b) ->
  NoDup U -> Closed U run -> In caller U -> In address U ->
  total U s2 = total U s - b.
Proof.
  intros H Hnd Hcl Hc Ha. apply create_cases in H. cbn zeta in H.
  destruct H as [[_ H]|[[_ H]|[[_ [_ [He [_ [_ H]]]]]|[_ [_ [g [e' [H _]]]]]]]]; inversion H; subst;
    rewrite ?total_cr_s0; try lia.
  rewrite total_set_code.
  rewrite total_apply_writes by (try assumption; intros w Hw; eapply Hcl; exact Hw).
  rewrite (ok_moves run OK _ _ He). rewrite total_cr_s3 by assumption. lia.
Qed.

Lemma create_refund s mid origin caller address gas value s2 g2 e b :
  create W run s mid origin caller address gas value = (s2, g2, e, b) ->
  0 <= st_refund s -> 0 <= st_refund s2.
Proof.
  intros H Hr. apply create_cases in H. cbn zeta in H.
  destruct H as [[_ H]|[[_ H]|[[_ [_ [_ [_ [_ H]]]]]|[_ [_ [g [e' [H _]]]]]]]]; inversion H; subst;
    try assumption.
  cbn. apply (ok_refund run OK).
Qed.

(** the creator's nonce is bumped exactly once whenever the balance check passes
    (creator = origin at depth 0) *)
Lemma create_nonce s mid origin address gas value s2 g2 e b :
  create W run s mid origin origin address gas value = (s2, g2, e, b) ->
  can_transfer s origin value = true ->
  W (nonce s origin + 1) <> 0 ->
  nonce s2 origin = W (nonce s origin + 1).
Proof.
  intros H Hct Hnz. apply create_cases in H. cbn zeta in H.
  assert (Hs0 : nonce (cr_s0 s origin) origin = W (nonce s origin + 1)).
  { unfold cr_s0. rewrite nonce_set_nonce, N.eqb_refl. reflexivity. }
  destruct H as [[Hf _]|[[_ H]|[[_ [Hn0 [_ [_ [_ H]]]]]|[_ [_ [g [e' [H _]]]]]]]]; try congruence;
    inversion H; subst; try exact Hs0.
  assert (Hne : address <> origin) by (intros ->; congruence).
  rewrite nonce_set_code.
  rewrite nonce_apply_writes by (intros w Hw Ha; apply (ok_origin run OK _ _ w Hw Ha)).
  unfold cr_s3. rewrite nonce_transfer, nonce_set_nonce.
  destruct (N.eqb_spec origin address) as [Heq|_]; [congruence|].
  rewrite nonce_create_account. destruct (N.eqb_spec origin address) as [Heq|_]; [congruence|].
  exact Hs0.
Qed.

Lemma dead_create_account s a b : In b (st_dead (create_account s a)) -> In b (st_dead s).
Proof. unfold create_account; cbn. intros H. apply filter_In in H. apply H. Qed.

Lemma create_dead s mid origin caller address gas value s2 g2 e b :
  create W run s mid origin caller address gas value = (s2, g2, e, b) ->
  (~ In origin (st_dead s) -> ~ In origin (st_dead s2)) /\
  (forall U, Closed U run -> incl_dead U s -> incl_dead U s2).
Proof.
  intros H. apply create_cases in H. cbn zeta in H.
  destruct H as [[_ H]|[[_ H]|[[_ [_ [_ [_ [_ H]]]]]|[_ [_ [g [e' [H _]]]]]]]]; inversion H; subst;
    try (split; intros; assumption).
  destruct (dead_after_writes (cr_s3 s caller address value)
              (run (cr_s3 s caller address value) (create_ci mid origin caller address gas value)) origin)
    as [H1 H2].
  - intros w Hw Ha. apply (ok_origin run OK _ _ w Hw Ha).
  - unfold incl_dead. rewrite dead_set_code. split.
    + intros Hn. apply H1. intros Ha. unfold cr_s3 in Ha. rewrite dead_transfer, dead_set_nonce in Ha.
      apply dead_create_account in Ha. contradiction.
    + intros U Hcl Hi. apply H2; [intros w Hw; eapply Hcl; exact Hw|].
      intros a Ha. unfold cr_s3 in Ha. rewrite dead_transfer, dead_set_nonce in Ha.
      apply dead_create_account in Ha. apply Hi. exact Ha.
Qed.

End Create.
End VM.
