(** C09 — balances stay non-negative and the destroyed amount is non-negative: a transaction
    never creates value (the balance sum never increases). *)
From Coq Require Import List ZArith NArith Bool Lia.
From Kardia Require Import Base.Int64 C09.Model C09.ProofsBase C09.ProofsVM C09.ProofsTx Generated.C09Facts.
Import ListNotations.
Local Open Scope Z_scope.

Definition nonneg (s : state) : Prop := forall a, 0 <= bal s a.

(** the interpreter never drives a balance below zero (CanTransfer guards every CALL / CREATE
    value transfer, SELFDESTRUCT moves what is there) *)
Definition RunNonneg (run : state -> call_input -> run_output) : Prop :=
  forall s ci, nonneg s -> nonneg (apply_writes s (run s ci)).

Lemma nonneg_add_bal s a v : nonneg s -> 0 <= v -> nonneg (add_bal s a v).
Proof. intros H Hv b. rewrite bal_add_bal. specialize (H b). pose proof (H0 := H). destruct (N.eqb_spec b a); subst; lia. Qed.

Lemma nonneg_sub_bal s a v : nonneg s -> v <= bal s a -> nonneg (sub_bal s a v).
Proof. intros H Hv b. rewrite bal_sub_bal. specialize (H b). destruct (N.eqb_spec b a); subst; lia. Qed.

Lemma nonneg_set_nonce s a n : nonneg s -> nonneg (set_nonce s a n).
Proof. intros H b. rewrite bal_set_nonce. apply H. Qed.
Lemma nonneg_set_code s a n : nonneg s -> nonneg (set_code s a n).
Proof. intros H b. rewrite bal_set_code. apply H. Qed.
Lemma nonneg_create_account s a : nonneg s -> nonneg (create_account s a).
Proof. intros H b. rewrite bal_create_account. apply H. Qed.

Lemma nonneg_transfer s f t v : nonneg s -> 0 <= v <= bal s f -> nonneg (transfer s f t v).
Proof.
  intros H Hv. unfold transfer. apply nonneg_add_bal; [|lia]. apply nonneg_sub_bal; [exact H|lia].
Qed.

Lemma can_transfer_le s a v : can_transfer s a v = true -> v <= bal s a.
Proof. unfold can_transfer. intros H. apply negb_true_iff, Z.ltb_ge in H. exact H. Qed.

Section NN.
Variable run : state -> call_input -> run_output.
Variable ca : N -> Z -> N.
Hypothesis OK : ExecOK run.
Hypothesis RN : RunNonneg run.

Lemma call_nonneg s mid origin caller a gas value s2 g2 e b :
  call run s mid origin caller a gas value = (s2, g2, e, b) -> nonneg s -> 0 <= value -> nonneg s2.
Proof.
  intros H Hs Hv. unfold call in H.
  destruct (negb (value =? 0) && negb (can_transfer s caller value)) eqn:Hc.
  - inversion H; subst; exact Hs.
  - assert (Hle : value <= bal s caller).
    { destruct (value =? 0) eqn:H0; cbn [negb andb] in Hc.
      - apply Z.eqb_eq in H0. specialize (Hs caller). lia.
      - apply negb_false_iff in Hc. now apply can_transfer_le. }
    assert (Hs1 : nonneg (transfer s caller a value)) by (apply nonneg_transfer; [exact Hs|lia]).
    destruct (is_precompile a || negb (N.eqb (code (transfer s caller a value) a) 0)).
    + destruct (ro_err _) eqn:He; inversion H; subst; try exact Hs. apply RN. exact Hs1.
    + inversion H; subst; exact Hs1.
Qed.

Lemma create_nonneg W s mid origin caller address gas value s2 g2 e b :
  create W run s mid origin caller address gas value = (s2, g2, e, b) -> nonneg s -> 0 <= value -> nonneg s2.
Proof.
  intros H Hs Hv. apply create_cases in H. cbn zeta in H.
  destruct H as [[_ H]|[[_ H]|[[Hct [_ [_ [_ [_ H]]]]]|[_ [_ [g [e' [H _]]]]]]]]; inversion H; subst;
    try exact Hs; try (apply nonneg_set_nonce; exact Hs).
  apply nonneg_set_code. apply RN. unfold cr_s3. apply nonneg_transfer.
  - apply nonneg_set_nonce, nonneg_create_account, nonneg_set_nonce, Hs.
  - split; [exact Hv|]. rewrite bal_set_nonce, bal_create_account. unfold cr_s0. rewrite bal_set_nonce.
    now apply can_transfer_le.
Qed.

Lemma vm_phase_nonneg W s1 m gas1 s2 g2 e b :
  vm_phase W run ca s1 m gas1 = (s2, g2, e, b) -> nonneg s1 -> 0 <= m_value m -> nonneg s2.
Proof.
  unfold vm_phase. intros H Hs Hv. destruct (m_to m).
  - eapply call_nonneg; [exact H|apply nonneg_set_nonce; exact Hs|exact Hv].
  - eapply create_nonneg; [exact H|exact Hs|exact Hv].
Qed.

Lemma kill_fold_nonneg l s b :
  nonneg s -> nonneg (fst (fold_left kill l (s, b))) /\ b <= snd (fold_left kill l (s, b)).
Proof.
  revert s b. induction l as [|a l IH]; intros s b Hs; cbn [fold_left]; [cbn; split; [exact Hs|lia]|].
  change (kill (s, b) a) with (upd s a empty_account, b + bal s a).
  destruct (IH (upd s a empty_account) (b + bal s a)) as [H1 H2].
  - intros c. unfold bal. rewrite get_upd. destruct (N.eqb c a); [cbn; lia|apply Hs].
  - split; [exact H1|]. specialize (Hs a). lia.
Qed.

Lemma finalise_nonneg s : nonneg s -> nonneg (fst (finalise s)) /\ 0 <= snd (finalise s).
Proof.
  intros Hs. unfold finalise. cbn [fst snd].
  destruct (kill_fold_nonneg (st_dead s) s 0 Hs) as [H1 H2]. split; [|exact H2].
  intros a. specialize (H1 a). exact H1.
Qed.

(** an executed transaction keeps all balances non-negative and destroys a non-negative amount *)
Lemma executed_nonneg e s pool m s' pool' r :
  wf_msg m -> 0 <= pool < two64 -> 0 <= st_refund s -> nonneg s ->
  apply_transaction wrapu64 run ca e s pool m = Executed s' pool' r ->
  nonneg s' /\ 0 <= x_burnt r.
Proof.
  intros Hm Hpool Hr Hs Hex.
  destruct (tx_inv run ca OK e s pool m s' pool' r Hm Hpool Hr Hex)
    as (ig & s2 & gas2 & vmerr & burn & H). cbn zeta in H.
  destruct H as (_ & _ & Hf & _ & _ & Hig & _ & Hvm & Hg2 & Hr0 & Hr2 & _ & Hs' & _ & Hrr).
  destruct Hm as [Hgas Hnon Hprice Hvalue].
  assert (Hs1 : nonneg (sub_bal s (m_from m) (m_gas m * m_price m))) by (apply nonneg_sub_bal; assumption).
  pose proof (vm_phase_nonneg _ _ _ _ _ _ _ _ Hvm Hs1 Hvalue) as Hs2.
  assert (Hb : 0 <= burn).
  { unfold vm_phase in Hvm. destruct (m_to m).
    - eapply call_burn_nonneg; [exact OK|exact Hvm].
    - eapply create_burn_nonneg; [exact OK|exact Hvm]. }
  set (s4 := add_bal _ _ _) in *.
  assert (Hs4 : nonneg s4).
  { unfold s4. apply nonneg_add_bal; [apply nonneg_add_bal; [exact Hs2|]|]; apply Z.mul_nonneg_nonneg; lia. }
  destruct (finalise_nonneg s4 Hs4) as [H1 H2].
  rewrite Hs', Hrr. cbn [x_burnt]. split; [exact H1|lia].
Qed.

End NN.
