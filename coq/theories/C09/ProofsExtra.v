(** C09 — round 4: what exactly a failed execution costs, what KVM.create makes of the
    interpreter's result, what a rejected transaction leaves behind (the reason both block
    loops must restore state AND pool), the proposal builder's loop and StateProcessor.Process
    against commitBlock's loop. *)
From Coq Require Import List ZArith NArith Bool Lia.
From Kardia Require Import Base.Int64 C09.Model C09.ProofsBase C09.ProofsVM C09.ProofsTx Generated.C09Facts.
Import ListNotations.
Local Open Scope Z_scope.
Ltac Zify.zify_post_hook ::= Z.div_mod_to_equations.

Definition stor (s : state) (a : N) : N := a_stor (get s a).

Lemma stor_add_bal s a v b : stor (add_bal s a v) b = stor s b.
Proof. unfold stor, add_bal. rewrite get_upd. destruct (N.eqb_spec b a) as [->|]; reflexivity. Qed.
Lemma stor_sub_bal s a v b : stor (sub_bal s a v) b = stor s b.
Proof. apply stor_add_bal. Qed.
Lemma stor_set_nonce s a n b : stor (set_nonce s a n) b = stor s b.
Proof. unfold stor, set_nonce. rewrite get_upd. destruct (N.eqb_spec b a) as [->|]; reflexivity. Qed.

(* ------------------------------------------------------------------ *)
(** * KVM.Call / KVM.create: the outcome as a function of the interpreter's result *)

Section Outcome.
Variable run : state -> call_input -> run_output.
Variable W : Z -> Z.

(** KVM.create once the balance check and the collision check have passed: this is the
    specification the harness re-implements (oracle create-outcome-differs-from-specification):
    code above the size limit and code whose deposit cannot be paid fail and burn all gas, REVERT
    keeps the gas, every failure goes back to the snapshot taken after the nonce bump *)
Lemma create_outcome s mid origin caller address gas value :
  can_transfer s caller value = true ->
  nonce (cr_s0 W s caller) address = 0 -> code (cr_s0 W s caller) address = 0%N ->
  let s0 := cr_s0 W s caller in
  let s3 := cr_s3 W s caller address value in
  let o := run s3 (create_ci mid origin caller address gas value) in
  let cdg := W (ro_retlen o * create_data_gas) in
  create W run s mid origin caller address gas value =
    match ro_err o with
    | VOk => if max_code_size <? ro_retlen o then (s0, 0, VMaxCode, 0)
             else if cdg <=? ro_gas o
                  then (set_code (apply_writes s3 o) address (ro_retcode o), ro_gas o - cdg, VOk, ro_burn o)
                  else (s0, 0, VCodeStore, 0)
    | VRevert => (s0, ro_gas o, VRevert, 0)
    | e => (s0, 0, e, 0)
    end.
Proof.
  intros Hct Hn Hc. cbn zeta. unfold create.
  fold (cr_s0 W s caller). fold (cr_s3 W s caller address value).
  fold (create_ci mid origin caller address gas value).
  rewrite Hct, Hn, Hc. cbn [negb Z.eqb N.eqb orb].
  set (o := run (cr_s3 W s caller address value) (create_ci mid origin caller address gas value)).
  destruct (ro_err o) eqn:He; cbn [vm_err_eqb andb negb orb];
    destruct (max_code_size <? ro_retlen o) eqn:Hex; cbn [andb negb orb vm_err_eqb];
    try (destruct (W (ro_retlen o * create_data_gas) <=? ro_gas o) eqn:Hcd; cbn [vm_err_eqb negb orb andb]);
    reflexivity.
Qed.

(** a failed creation: the creator's nonce bump is all that is left; all gas is gone unless the
    init code reverted *)
Lemma create_failed s mid origin caller address gas value s2 g2 e b :
  create W run s mid origin caller address gas value = (s2, g2, e, b) ->
  can_transfer s caller value = true -> e <> VOk ->
  s2 = cr_s0 W s caller /\ b = 0 /\ (e <> VRevert -> g2 = 0).
Proof.
  intros H Hct Hne. unfold create in H.
  fold (cr_s0 W s caller) in H. fold (cr_s3 W s caller address value) in H.
  fold (create_ci mid origin caller address gas value) in H.
  rewrite Hct in H. cbn [negb] in H.
  destruct (negb (nonce (cr_s0 W s caller) address =? 0) || negb (N.eqb (code (cr_s0 W s caller) address) 0)).
  { inversion H; subst. repeat split; reflexivity. }
  set (o := run (cr_s3 W s caller address value) (create_ci mid origin caller address gas value)) in *.
  destruct (ro_err o) eqn:He; cbn [vm_err_eqb andb negb orb] in H;
    destruct (max_code_size <? ro_retlen o) eqn:Hex; cbn [andb negb orb vm_err_eqb] in H;
    try (destruct (W (ro_retlen o * create_data_gas) <=? ro_gas o) eqn:Hcd; cbn [vm_err_eqb negb orb andb] in H);
    inversion H; subst; try congruence; repeat split; try reflexivity; intros; congruence.
Qed.

(** a failed call (the balance check passed): the state it was given comes back; all gas is gone
    unless the code reverted *)
Lemma call_failed s mid origin caller a gas value s2 g2 e b :
  call run s mid origin caller a gas value = (s2, g2, e, b) ->
  can_transfer s caller value = true -> e <> VOk ->
  s2 = s /\ b = 0 /\ (e <> VRevert -> g2 = 0).
Proof.
  intros H Hct Hne. unfold call in H. rewrite Hct, andb_false_r in H.
  destruct (is_precompile a || negb (N.eqb (code (transfer s caller a value) a) 0)).
  - destruct (ro_err (run _ _)) eqn:He; inversion H; subst; try congruence;
      repeat split; try reflexivity; intros; congruence.
  - inversion H; subst. congruence.
Qed.

End Outcome.

(* ------------------------------------------------------------------ *)
(** * One transaction *)

Section Tx.
Variable run : state -> call_input -> run_output.
Variable ca : N -> Z -> N.
Hypothesis OK : ExecOK run.

(** the VM phase of a transaction whose execution failed: only the sender's nonce moved *)
Lemma vm_phase_failed s1 m gas1 s2 gas2 vmerr burn :
  vm_phase wrapu64 run ca s1 m gas1 = (s2, gas2, vmerr, burn) ->
  can_transfer s1 (m_from m) (m_value m) = true -> vmerr <> VOk ->
  s2 = set_nonce s1 (m_from m) (wrapu64 (nonce s1 (m_from m) + 1)) /\ burn = 0 /\
  (vmerr <> VRevert -> gas2 = 0).
Proof.
  unfold vm_phase. intros H Hct Hne. destruct (m_to m) as [to|].
  - cbn zeta in H.
    assert (Hct' : can_transfer (set_nonce s1 (m_from m) (wrapu64 (nonce s1 (m_from m) + 1))) (m_from m) (m_value m) = true).
    { unfold can_transfer in *. rewrite bal_set_nonce. exact Hct. }
    apply call_failed in H; [|exact Hct'|exact Hne]. destruct H as (-> & -> & Hg).
    repeat split; try reflexivity. exact Hg.
  - apply create_failed in H; [|exact Hct|exact Hne]. destruct H as (-> & -> & Hg).
    repeat split; try reflexivity. exact Hg.
Qed.

(** ** a transaction whose execution failed (out of gas, invalid opcode, REVERT, code too large,
    code deposit unaffordable, address collision): nothing moves but the gas money — the sender
    pays used*price and its nonce is bumped, the proposer receives used*price, every other
    account is untouched, the value is not transferred, nothing is burnt, no refund is granted,
    and unless the code reverted the whole gas limit is used *)
Lemma executed_failed e s pool m s' pool' r :
  wf_msg m -> 0 <= pool < two64 -> st_refund s = 0 -> st_dead s = [] ->
  apply_transaction wrapu64 run ca e s pool m = Executed s' pool' r ->
  x_vmerr r <> VOk ->
  x_failed r = true /\ x_refund r = 0 /\ x_burnt r = 0 /\ x_used r = m_gas m - x_vmleft r /\
  (x_vmerr r <> VRevert -> x_vmleft r = 0 /\ x_used r = m_gas m) /\
  forall a,
    bal s' a = bal s a - (if N.eqb a (m_from m) then x_used r * m_price m else 0)
                       + (if N.eqb a (e_coinbase e) then x_used r * m_price m else 0) /\
    nonce s' a = nonce s a + (if N.eqb a (m_from m) then 1 else 0) /\
    code s' a = code s a /\ stor s' a = stor s a.
Proof.
  intros Hm Hpool Hrefund Hdead Hex Hne.
  destruct (tx_inv run ca OK e s pool m s' pool' r Hm Hpool ltac:(rewrite Hrefund; lia) Hex)
    as (ig & s2 & gas2 & vmerr & burn & H). cbn zeta in H.
  destruct H as (_ & Hn & _ & _ & _ & Hig & Hv & Hvm & Hg2 & _ & _ & _ & Hs' & _ & Hr).
  set (s1 := sub_bal s (m_from m) (m_gas m * m_price m)) in *.
  assert (Hve : vmerr <> VOk) by (rewrite Hr in Hne; exact Hne).
  assert (Hct : can_transfer s1 (m_from m) (m_value m) = true)
    by (unfold can_transfer; apply negb_true_iff, Z.ltb_ge; exact Hv).
  destruct (vm_phase_failed _ _ _ _ _ _ _ Hvm Hct Hve) as (Hs2 & Hb & Hg0).
  assert (Hn1 : nonce s1 (m_from m) = nonce s (m_from m)) by (unfold s1; apply nonce_sub_bal).
  destruct Hm as [_ Hnon _ _].
  rewrite Hn1, wrapu64_small in Hs2 by lia.
  assert (Hrf2 : st_refund s2 = 0).
  { rewrite Hs2. rewrite refund_set_nonce. unfold s1. rewrite refund_sub_bal. exact Hrefund. }
  assert (Hrf : refund_of s2 m gas2 = 0).
  { unfold refund_of. rewrite Hrf2, refund_quotient_is_2.
    destruct (0 <? (m_gas m - gas2) / 2) eqn:Hc0; [reflexivity|]. apply Z.ltb_ge in Hc0. lia. }
  rewrite Hrf in *.
  assert (Hd2 : st_dead s2 = []).
  { rewrite Hs2. rewrite dead_set_nonce. unfold s1. rewrite dead_sub_bal. exact Hdead. }
  rewrite finalise_nodead in Hs', Hr by (rewrite !dead_add_bal; exact Hd2).
  cbn [fst snd] in Hs', Hr. rewrite Hr. cbn [x_failed x_refund x_burnt x_used x_vmleft x_vmerr].
  split; [destruct vmerr; try reflexivity; congruence|].
  split; [reflexivity|]. split; [lia|]. split; [lia|].
  split.
  { intros Hnr. rewrite (Hg0 Hnr). lia. }
  intros a. rewrite Hs'.
  unfold bal at 1, nonce at 1, code at 1, stor at 1, get at 1 2 3 4. cbn [st_acc].
  match goal with |- a_bal (st_acc ?st a) = _ /\ _ =>
    change (bal st a = bal s a - (if N.eqb a (m_from m) then (m_gas m - (gas2 + 0)) * m_price m else 0)
                        + (if N.eqb a (e_coinbase e) then (m_gas m - (gas2 + 0)) * m_price m else 0)
            /\ nonce st a = nonce s a + (if N.eqb a (m_from m) then 1 else 0)
            /\ code st a = code s a /\ stor st a = stor s a) end.
  rewrite Hs2. unfold s1.
  repeat rewrite ?bal_add_bal, ?bal_set_nonce, ?bal_sub_bal, ?nonce_add_bal, ?nonce_set_nonce, ?nonce_sub_bal,
    ?code_add_bal, ?code_set_nonce, ?code_sub_bal, ?stor_add_bal, ?stor_set_nonce, ?stor_sub_bal.
  repeat split; try reflexivity.
  - destruct (N.eqb_spec a (e_coinbase e)) as [->|]; destruct (N.eqb_spec (e_coinbase e) (m_from m)) as [Heq|];
      try rewrite Heq; rewrite ?N.eqb_refl;
      try (destruct (N.eqb_spec a (m_from m)) as [->|]); try congruence; try lia.
  - destruct (N.eqb_spec a (m_from m)) as [->|]; lia.
Qed.

(** ** what ApplyTransaction leaves behind when it returns an error: for the reasons checked
    before buyGas nothing; for those checked after it the sender is out of gas*price and the pool
    is short of the transaction's gas limit.  This is why commitBlock (5c78105) and the proposal
    builder (e9e909b) must restore the pool together with the state snapshot. *)
Definition after_buy_gas (er : tx_err) : bool :=
  match er with EGasOverflow | EIntrinsic | EFundsTransfer => true | _ => false end.

Lemma rejected_residue e s pool m er sx px :
  apply_transaction wrapu64 run ca e s pool m = Rejected er sx px ->
  if after_buy_gas er
  then sx = sub_bal s (m_from m) (m_gas m * m_price m) /\ px = pool - m_gas m
       /\ m_gas m * m_price m <= bal s (m_from m) /\ m_gas m <= pool
  else sx = s /\ px = pool.
Proof.
  unfold apply_transaction.
  destruct (m_sigok m); cbn [negb]; [|intros H; inversion H; subst; split; reflexivity].
  destruct (nonce s (m_from m) <? m_nonce m); [intros H; inversion H; subst; split; reflexivity|].
  destruct (m_nonce m <? nonce s (m_from m)); [intros H; inversion H; subst; split; reflexivity|].
  destruct (bal s (m_from m) <? m_gas m * m_price m) eqn:Hf; [intros H; inversion H; subst; split; reflexivity|].
  destruct (pool <? m_gas m) eqn:Hp; [intros H; inversion H; subst; split; reflexivity|].
  apply Z.ltb_ge in Hf, Hp.
  destruct (intrinsic_gas wrapu64 (m_data m) _ (negb (e_galaxias e))) as [ig|];
    [|intros H; inversion H; subst; cbn [after_buy_gas]; repeat split; assumption].
  destruct (wrapu64 (0 + m_gas m) <? ig);
    [intros H; inversion H; subst; cbn [after_buy_gas]; repeat split; assumption|].
  destruct ((0 <? m_value m) && negb (can_transfer _ (m_from m) (m_value m)));
    [intros H; inversion H; subst; cbn [after_buy_gas]; repeat split; assumption|].
  destruct (vm_phase _ _ _ _ _ _) as [[[s2 g2] ve] bu].
  match goal with |- (if ?c then Panicked else _) = _ -> _ => destruct c; [discriminate|] end.
  destruct (finalise _). discriminate.
Qed.

(* ------------------------------------------------------------------ *)
(** * The other two loops over ApplyTransaction *)

(** the proposal builder's loop body is commitBlock's loop body *)
Lemma propose_step_eq W e b m : propose_step W run ca e b m = commit_step W run ca e b m.
Proof.
  unfold propose_step, commit_step. destruct b as [st pl cum rc pn]. cbn [b_panic b_state b_pool b_cum b_receipts].
  destruct pn; [reflexivity|].
  destruct (apply_transaction W run ca e st pl m); reflexivity.
Qed.

Lemma propose_txs_eq W e txs : forall b, propose_txs W run ca e b txs = commit_txs W run ca e b txs.
Proof.
  unfold propose_txs, commit_txs. induction txs as [|m txs IH]; intros b; [reflexivity|].
  cbn [fold_left]. rewrite propose_step_eq. apply IH.
Qed.

(** StateProcessor.Process *)
Lemma process_txs_none W e txs : process_txs W run ca e None txs = None.
Proof. unfold process_txs. induction txs as [|m txs IH]; [reflexivity|]. cbn [fold_left process_step]. exact IH. Qed.

Lemma process_txs_cons W e ob m txs :
  process_txs W run ca e ob (m :: txs) = process_txs W run ca e (process_step W run ca e ob m) txs.
Proof. reflexivity. Qed.
Lemma commit_txs_cons W e b m txs :
  commit_txs W run ca e b (m :: txs) = commit_txs W run ca e (commit_step W run ca e b m) txs.
Proof. reflexivity. Qed.

(** when Process succeeds it computed what commitBlock's loop computes *)
Lemma process_txs_some W e txs : forall b b',
  process_txs W run ca e (Some b) txs = Some b' -> commit_txs W run ca e b txs = b'.
Proof.
  induction txs as [|m txs IH]; intros b b' H.
  - inversion H. reflexivity.
  - rewrite process_txs_cons in H. rewrite commit_txs_cons.
    unfold process_step in H. unfold commit_step.
    destruct (b_panic b) eqn:Hp.
    + apply IH. exact H.
    + destruct (apply_transaction W run ca e (b_state b) (b_pool b) m).
      * rewrite process_txs_none in H. discriminate.
      * apply IH. exact H.
      * apply IH. exact H.
Qed.

(** ... and it fails exactly when some transaction is rejected in the state the loop reached *)
Lemma process_txs_fails W e txs : forall b,
  process_txs W run ca e (Some b) txs = None ->
  exists txs1 bad txs2 er sx px,
    txs = txs1 ++ bad :: txs2 /\
    apply_transaction W run ca e (b_state (commit_txs W run ca e b txs1))
      (b_pool (commit_txs W run ca e b txs1)) bad = Rejected er sx px.
Proof.
  induction txs as [|m txs IH]; intros b H; [discriminate|].
  rewrite process_txs_cons in H.
  unfold process_step in H.
  assert (Hstep : forall b1, commit_step W run ca e b m = b1 ->
            process_txs W run ca e (Some b1) txs = None ->
            exists txs1 bad txs2 er sx px, m :: txs = txs1 ++ bad :: txs2 /\
              apply_transaction W run ca e (b_state (commit_txs W run ca e b txs1))
                (b_pool (commit_txs W run ca e b txs1)) bad = Rejected er sx px).
  { intros b1 Hb1 Hn. destruct (IH b1 Hn) as (t1 & bad & t2 & er & sx & px & -> & Hrej).
    exists (m :: t1), bad, t2, er, sx, px. split; [reflexivity|].
    rewrite commit_txs_cons, Hb1. exact Hrej. }
  destruct (b_panic b) eqn:Hp.
  - apply (Hstep b); [unfold commit_step; rewrite Hp; reflexivity|exact H].
  - destruct (apply_transaction W run ca e (b_state b) (b_pool b) m) as [er sx px|s1 p1 r1|] eqn:Hap.
    + exists [], m, txs, er, sx, px. split; [reflexivity|]. exact Hap.
    + eapply Hstep; [unfold commit_step; rewrite Hp, Hap; reflexivity|exact H].
    + eapply Hstep; [unfold commit_step; rewrite Hp, Hap; reflexivity|exact H].
Qed.

(** when no transaction is rejected Process succeeds *)
Lemma process_txs_complete W e txs : forall b,
  (forall txs1 m txs2, txs = txs1 ++ m :: txs2 ->
     forall er sx px, apply_transaction W run ca e (b_state (commit_txs W run ca e b txs1))
                        (b_pool (commit_txs W run ca e b txs1)) m <> Rejected er sx px) ->
  process_txs W run ca e (Some b) txs = Some (commit_txs W run ca e b txs).
Proof.
  intros b Hno.
  destruct (process_txs W run ca e (Some b) txs) as [b'|] eqn:Hp.
  - f_equal. symmetry. apply process_txs_some. exact Hp.
  - exfalso. destruct (process_txs_fails W e txs b Hp) as (t1 & bad & t2 & er & sx & px & Heq & Hrej).
    exact (Hno t1 bad t2 Heq er sx px Hrej).
Qed.

End Tx.
