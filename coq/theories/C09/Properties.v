(** C09 — property theorems only.  Each is closed by [exact] of a lemma proved in Proofs*.v and
    followed by [Print Assumptions].

    Reading guide.  [apply_transaction64] is ApplyTransaction (AsMessage, preCheck, buyGas,
    IntrinsicGas, Call / Create, refundGas, fee, Finalise) with uint64 wrap-around as in the
    code; [commit_block64] is commitBlock's transaction loop.  The byte-code interpreter is the
    parameter [run]; [ExecOK run] is the contract assumed of it (gas left <= gas given; net
    balance moves sum to minus the self-destruct burn; the transaction origin is an externally
    owned account).  [wf_msg]: gas and nonce are uint64 values, the nonce is not 2^64-1, price
    and value are non-negative.  A state "at a transaction boundary" has refund counter 0 and no
    account marked suicided (what Finalise leaves).  [U] is any duplicate-free list of accounts
    containing every account involved ([Closed U run]: every account the interpreter writes). *)
From Coq Require Import List ZArith NArith Bool.
From Kardia Require Import Base.Int64 C09.Model C09.ProofsBase C09.ProofsVM C09.ProofsTx
  C09.ProofsWrap C09.ProofsNonneg C09.ProofsExamples C09.ProofsExtra C09.ProofsFlow Generated.C09Facts.
Import ListNotations.
Local Open Scope Z_scope.

(** Executing a transaction changes the balance sum by exactly minus what self-destructs
    destroyed: gas*price leaves the sender, (gas-used)*price comes back, used*price goes to the
    proposer, the value goes to the recipient / created contract, the interpreter only moves. *)
Theorem C09_conservation :
  forall run ca, ExecOK run ->
  forall e s pool m s' pool' r,
    wf_msg m -> 0 <= pool < two64 -> st_refund s = 0 -> st_dead s = [] ->
    apply_transaction64 run ca e s pool m = Executed s' pool' r ->
    forall U, NoDup U -> Closed U run ->
    In (m_from m) U -> In (target ca s m) U -> In (e_coinbase e) U ->
    total U s' = total U s - x_burnt r.
Proof. exact executed_conservation. Qed.
Print Assumptions C09_conservation.

(** gas used <= gas limit; the refund is at most half of the gas used before the refund
    (hence at most the gas finally used); used + refund = limit - gas returned by the VM;
    the VM got at most the limit and returned at most what it got *)
Theorem C09_gas_bounds :
  forall run ca, ExecOK run ->
  forall e s pool m s' pool' r,
    wf_msg m -> 0 <= pool < two64 -> st_refund s = 0 ->
    apply_transaction64 run ca e s pool m = Executed s' pool' r ->
    0 <= x_used r <= m_gas m /\
    0 <= x_refund r /\ 2 * x_refund r <= x_used r + x_refund r /\
    x_used r + x_refund r = m_gas m - x_vmleft r /\
    0 <= x_vmleft r <= x_vmgas r /\ x_vmgas r <= m_gas m.
Proof. exact executed_gas_bounds. Qed.
Print Assumptions C09_gas_bounds.

(** who pays and who receives the gas money: relative to the state [s2] the Call / Create left,
    the sender gets (limit - used)*price back — having paid limit*price up front, it pays
    used*price net — and the proposer gets used*price; accounts that self-destructed are deleted *)
Theorem C09_fee_flow :
  forall run ca, ExecOK run ->
  forall e s pool m s' pool' r,
    wf_msg m -> 0 <= pool < two64 -> st_refund s = 0 ->
    apply_transaction64 run ca e s pool m = Executed s' pool' r ->
    exists ig s2 gas2 vmerr burn,
      let from := m_from m in
      let s1 := sub_bal s from (m_gas m * m_price m) in
      vm_phase wrapu64 run ca s1 m (m_gas m - ig) = (s2, gas2, vmerr, burn) /\
      x_vmerr r = vmerr /\ x_failed r = negb (vm_err_eqb vmerr VOk) /\
      (forall a, ~ In a (st_dead s2) ->
         bal s' a = bal s2 a + (if N.eqb a from then (m_gas m - x_used r) * m_price m else 0)
                             + (if N.eqb a (e_coinbase e) then x_used r * m_price m else 0)) /\
      (forall a, In a (st_dead s2) -> get s' a = empty_account).
Proof. exact executed_fee_flow. Qed.
Print Assumptions C09_fee_flow.

(** a plain value transfer, account by account: the sender pays value + used*price, the
    recipient receives the value, the proposer receives used*price, used = intrinsic gas *)
Theorem C09_plain_transfer :
  forall run ca, ExecOK run ->
  forall e s pool m t s' pool' r,
    wf_msg m -> 0 <= pool < two64 -> st_refund s = 0 -> st_dead s = [] ->
    m_to m = Some t -> code s t = 0%N -> is_precompile t = false ->
    apply_transaction64 run ca e s pool m = Executed s' pool' r ->
    exists ig, intrinsic_gas64 (m_data m) false (negb (e_galaxias e)) = Some ig /\
      x_used r = ig /\ x_failed r = false /\ x_refund r = 0 /\ x_burnt r = 0 /\ pool' = pool - ig /\
      forall a, bal s' a = bal s a
                           - (if N.eqb a (m_from m) then m_value m + ig * m_price m else 0)
                           + (if N.eqb a t then m_value m else 0)
                           + (if N.eqb a (e_coinbase e) then ig * m_price m else 0).
Proof. exact plain_transfer_exact. Qed.
Print Assumptions C09_plain_transfer.

(** the block gas pool decreases by exactly the gas used *)
Theorem C09_pool_exact :
  forall run ca, ExecOK run ->
  forall e s pool m s' pool' r,
    wf_msg m -> 0 <= pool < two64 -> st_refund s = 0 ->
    apply_transaction64 run ca e s pool m = Executed s' pool' r ->
    pool' = pool - x_used r /\ 0 <= pool' < two64.
Proof. exact executed_pool. Qed.
Print Assumptions C09_pool_exact.

(** the sender's nonce is the transaction's nonce and increases by exactly one, on the call
    path (SetNonce in TransitionDb) and on the creation path (SetNonce in KVM.create) alike,
    whether or not the VM call failed *)
Theorem C09_nonce :
  forall run ca, ExecOK run ->
  forall e s pool m s' pool' r,
    wf_msg m -> 0 <= pool < two64 -> st_refund s = 0 -> st_dead s = [] ->
    apply_transaction64 run ca e s pool m = Executed s' pool' r ->
    nonce s' (m_from m) = nonce s (m_from m) + 1 /\ nonce s (m_from m) = m_nonce m.
Proof. exact executed_nonce. Qed.
Print Assumptions C09_nonce.

(** a transaction that ApplyTransaction rejects (whatever state and pool it left behind) is, for
    the block, as if it had not been there: same accounts, same pool, same cumulative gas, same
    receipts after everything that follows.  No hypothesis on the interpreter. *)
Theorem C09_rejected_neutral :
  forall run ca e s txs1 bad txs2,
    (exists er sx px,
       apply_transaction64 run ca e (b_state (commit_block64 run ca e s txs1))
         (b_pool (commit_block64 run ca e s txs1)) bad = Rejected er sx px) ->
    commit_block64 run ca e s (txs1 ++ bad :: txs2) = commit_block64 run ca e s (txs1 ++ txs2).
Proof. intros run ca e s. exact (rejected_neutral run ca wrapu64 e (block_start e s)). Qed.
Print Assumptions C09_rejected_neutral.

(** ... and these are the reasons for which a transaction is rejected *)
Theorem C09_rejected_reason :
  forall run ca e s pool m er sx px,
    apply_transaction64 run ca e s pool m = Rejected er sx px ->
    match er with
    | ESig => m_sigok m = false
    | ENonceHigh => nonce s (m_from m) < m_nonce m
    | ENonceLow => m_nonce m < nonce s (m_from m)
    | EFunds => bal s (m_from m) < m_gas m * m_price m
    | EGasLimit => pool < m_gas m
    | EGasOverflow => intrinsic_gas64 (m_data m) (creation m) (negb (e_galaxias e)) = None
    | EIntrinsic => exists ig, intrinsic_gas64 (m_data m) (creation m) (negb (e_galaxias e)) = Some ig
                               /\ wrapu64 (0 + m_gas m) < ig
    | EFundsTransfer => bal s (m_from m) - m_gas m * m_price m < m_value m
    end.
Proof. exact rejected_reason. Qed.
Print Assumptions C09_rejected_reason.

(** whole blocks: AddGas never panics, pool + gas used = block gas limit, the state is again at
    a transaction boundary, and the balance sum moved by the recorded burns only *)
Theorem C09_block :
  forall run ca, ExecOK run ->
  forall e U s txs,
    0 <= e_gaslimit e < two64 -> NoDup U -> Closed U run -> In (e_coinbase e) U ->
    st_refund s = 0 -> st_dead s = [] ->
    (forall m, In m txs -> wf_msg m /\ In (m_from m) U /\ forall s, In (target ca s m) U) ->
    block_inv e U s (commit_block64 run ca e s txs).
Proof.
  intros run ca OK e U s txs Hgl Hnd Hcl Hc Hr Hd Hall.
  exact (commit_txs_inv run ca OK e U s txs (block_start e s) Hgl Hnd Hcl Hc Hall
           (block_start_inv e U s (proj1 Hgl) Hr Hd)).
Qed.
Print Assumptions C09_block.

(** no uint64 operation wraps: on well-formed messages (data shorter than 2^32 bytes) the code's
    arithmetic agrees with unbounded integers, the overflow checks of IntrinsicGas do not fire,
    and GasPool.AddGas does not panic *)
Theorem C09_no_wrap :
  forall run ca, ExecOK run ->
  forall e s pool m,
    wf_msg m -> data_ok (m_data m) -> 0 <= pool < two64 -> 0 <= st_refund s ->
    apply_transaction64 run ca e s pool m = apply_transaction (fun z => z) run ca e s pool m
    /\ apply_transaction64 run ca e s pool m <> Panicked.
Proof. exact apply_transaction_eq. Qed.
Print Assumptions C09_no_wrap.

Theorem C09_intrinsic_no_overflow :
  forall data c l, data_ok data ->
    intrinsic_gas64 data c l = intrinsic_gas (fun z => z) data c l /\
    exists ig, intrinsic_gas64 data c l = Some ig.
Proof.
  intros data c l H. split; [exact (intrinsic_eq data c l H)|].
  destruct (intrinsic_some data c l H) as [ig Hig]. exists ig.
  unfold intrinsic_gas64. rewrite (intrinsic_eq data c l H). exact Hig.
Qed.
Print Assumptions C09_intrinsic_no_overflow.

(** nothing appears: if the interpreter never overdraws an account ([RunNonneg]), balances stay
    non-negative and the destroyed amount is non-negative, so the balance sum never increases *)
Theorem C09_no_value_created :
  forall run ca, ExecOK run -> RunNonneg run ->
  forall e s pool m s' pool' r,
    wf_msg m -> 0 <= pool < two64 -> 0 <= st_refund s -> nonneg s ->
    apply_transaction64 run ca e s pool m = Executed s' pool' r ->
    nonneg s' /\ 0 <= x_burnt r.
Proof. exact executed_nonneg. Qed.
Print Assumptions C09_no_value_created.

(** exactly the valid transactions are executed (so "rejected" means one of the listed reasons,
    and "executed" is not vacuous) *)
Theorem C09_executed_iff_valid :
  forall run ca, ExecOK run ->
  forall e s pool m,
    wf_msg m -> data_ok (m_data m) -> 0 <= pool < two64 -> 0 <= st_refund s ->
    ((exists s' pool' r, apply_transaction64 run ca e s pool m = Executed s' pool' r)
     <-> valid_tx e s pool m).
Proof.
  intros run ca OK e s pool m Hm Hd Hp Hr. split.
  - intros (s' & pool' & r & H). exact (executed_valid run ca OK e s pool m s' pool' r Hm Hp Hr H).
  - exact (valid_executes run ca OK e s pool m Hm Hd Hp Hr).
Qed.
Print Assumptions C09_executed_iff_valid.

(** the hypotheses are satisfiable *)
Theorem C09_hypotheses_satisfiable :
  (ExecOK run_idle /\ RunNonneg run_idle) /\ ExecOK run_ex /\ wf_msg msg_ex /\
  match apply_transaction64 run_ex ca_ex env_ex st_ex 100000 msg_ex with
  | Executed s' pool' r => x_used r = 21172 /\ pool' = 100000 - 21172 /\ nonce s' 1%N = 6
  | _ => False
  end.
Proof.
  split; [split; [exact run_idle_ok|exact run_idle_nonneg]|].
  split; [exact run_ex_ok|]. split; [exact msg_ex_wf|].
  pose proof ex_executed as H.
  destruct (apply_transaction64 run_ex ca_ex env_ex st_ex 100000 msg_ex); try exact H.
  destruct H as (H1 & H2 & _ & H3 & _). repeat split; assumption.
Qed.
Print Assumptions C09_hypotheses_satisfiable.

(** a transaction whose execution FAILED (out of gas, invalid opcode, REVERT, code above the size
    limit, unaffordable code deposit, address collision) moves nothing but the gas money: the sender
    pays used*price and its nonce goes up by one, the proposer receives used*price, every other
    account keeps balance, nonce, code and storage, the value is not transferred, nothing is burnt,
    no refund is granted, and unless the code executed REVERT the whole gas limit is used *)
Theorem C09_failed_execution :
  forall run ca, ExecOK run ->
  forall e s pool m s' pool' r,
    wf_msg m -> 0 <= pool < two64 -> st_refund s = 0 -> st_dead s = [] ->
    apply_transaction64 run ca e s pool m = Executed s' pool' r ->
    x_vmerr r <> VOk ->
    x_failed r = true /\ x_refund r = 0 /\ x_burnt r = 0 /\ x_used r = m_gas m - x_vmleft r /\
    (x_vmerr r <> VRevert -> x_vmleft r = 0 /\ x_used r = m_gas m) /\
    forall a,
      bal s' a = bal s a - (if N.eqb a (m_from m) then x_used r * m_price m else 0)
                         + (if N.eqb a (e_coinbase e) then x_used r * m_price m else 0) /\
      nonce s' a = nonce s a + (if N.eqb a (m_from m) then 1 else 0) /\
      code s' a = code s a /\ stor s' a = stor s a.
Proof. exact executed_failed. Qed.
Print Assumptions C09_failed_execution.

(** KVM.create as a function of what the interpreter returned (balance and collision checks
    passed): code above MaxCodeSize -> ErrMaxCodeSizeExceeded, deposit of 200 gas per byte not
    affordable -> ErrCodeStoreOutOfGas, both with all gas burnt and the state back at the
    snapshot; REVERT keeps the gas; success stores the code and charges the deposit.  The harness
    re-implements exactly this table (oracle create-outcome-differs-from-specification). *)
Theorem C09_create_outcome :
  forall run s mid origin caller address gas value,
    can_transfer s caller value = true ->
    nonce (cr_s0 wrapu64 s caller) address = 0 -> code (cr_s0 wrapu64 s caller) address = 0%N ->
    let s0 := cr_s0 wrapu64 s caller in
    let s3 := cr_s3 wrapu64 s caller address value in
    let o := run s3 (create_ci mid origin caller address gas value) in
    let cdg := wrapu64 (ro_retlen o * create_data_gas) in
    create wrapu64 run s mid origin caller address gas value =
      match ro_err o with
      | VOk => if max_code_size <? ro_retlen o then (s0, 0, VMaxCode, 0)
               else if cdg <=? ro_gas o
                    then (set_code (apply_writes s3 o) address (ro_retcode o), ro_gas o - cdg, VOk, ro_burn o)
                    else (s0, 0, VCodeStore, 0)
      | VRevert => (s0, ro_gas o, VRevert, 0)
      | e => (s0, 0, e, 0)
      end.
Proof. intros run. exact (create_outcome run wrapu64). Qed.
Print Assumptions C09_create_outcome.

(** what ApplyTransaction leaves behind when it returns an error: nothing for the reasons checked
    before buyGas; for ErrGasUintOverflow / ErrIntrinsicGas / ErrInsufficientFundsForTransfer the
    sender is out of gas*price and the pool is short of the gas limit — every caller must restore
    both (commitBlock: 5c78105, proposal builder: e9e909b).  No hypothesis on the interpreter. *)
Theorem C09_rejected_residue :
  forall run ca e s pool m er sx px,
    apply_transaction64 run ca e s pool m = Rejected er sx px ->
    if after_buy_gas er
    then sx = sub_bal s (m_from m) (m_gas m * m_price m) /\ px = pool - m_gas m
         /\ m_gas m * m_price m <= bal s (m_from m) /\ m_gas m <= pool
    else sx = s /\ px = pool.
Proof. exact rejected_residue. Qed.
Print Assumptions C09_rejected_residue.

(** the proposal builder (proposalBlock.commitTransaction in a loop, block_constructor.go) computes
    what commitBlock's loop computes on the same transactions: same accounts, same pool, same gas
    used, same receipts — so every block theorem above holds for the block it builds, and a
    transaction it rejects is neutral for it as well *)
Theorem C09_proposal_builder :
  forall run ca e s txs,
    propose_txs wrapu64 run ca e (block_start e s) txs = commit_block64 run ca e s txs.
Proof. intros run ca e s txs. exact (propose_txs_eq run ca wrapu64 e txs (block_start e s)). Qed.
Print Assumptions C09_proposal_builder.

(** StateProcessor.Process (first error aborts): it succeeds exactly when no transaction of the
    block is rejected, and then it computes what commitBlock's loop computes *)
Theorem C09_process :
  forall run ca e s txs,
    match process_block64 run ca e s txs with
    | Some b => b = commit_block64 run ca e s txs
    | None => exists txs1 bad txs2 er sx px,
                txs = txs1 ++ bad :: txs2 /\
                apply_transaction64 run ca e (b_state (commit_block64 run ca e s txs1))
                  (b_pool (commit_block64 run ca e s txs1)) bad = Rejected er sx px
    end.
Proof.
  intros run ca e s txs. unfold process_block64, process_block.
  destruct (process_txs wrapu64 run ca e (Some (block_start e s)) txs) as [b|] eqn:H.
  - symmetry. exact (process_txs_some run ca wrapu64 e txs _ _ H).
  - exact (process_txs_fails run ca wrapu64 e txs _ H).
Qed.
Print Assumptions C09_process.

Theorem C09_process_complete :
  forall run ca e s txs,
    (forall txs1 m txs2, txs = txs1 ++ m :: txs2 ->
       forall er sx px, apply_transaction64 run ca e (b_state (commit_block64 run ca e s txs1))
                          (b_pool (commit_block64 run ca e s txs1)) m <> Rejected er sx px) ->
    process_block64 run ca e s txs = Some (commit_block64 run ca e s txs).
Proof. intros run ca e s txs. exact (process_txs_complete run ca wrapu64 e txs (block_start e s)). Qed.
Print Assumptions C09_process_complete.

(** an executed transaction whose execution SUCCEEDED, account by account: there are the
    interpreter's writes [ws] ([] when the target has no code) and the accounts [dead] that
    self-destructed, such that every other account holds what it held before, minus
    value + used*price for the sender, plus the value for the recipient / the created contract,
    plus used*price for the proposer, plus what [ws] moves to or from it; the accounts in [dead] are
    deleted; [ws] as a whole moves nothing but the self-destruct burn; the sender is not destructed.
    Together with C09_failed_execution and C09_plain_transfer this carries the first sentence of
    the property for every account, not only for the sum. *)
Theorem C09_value_flow :
  forall run ca, ExecOK run ->
  forall e s pool m s' pool' r,
    wf_msg m -> 0 <= pool < two64 -> st_refund s = 0 -> st_dead s = [] ->
    apply_transaction64 run ca e s pool m = Executed s' pool' r ->
    x_vmerr r = VOk ->
    exists ws dead,
      (forall U, Closed U run -> (forall w, In w ws -> In (w_addr w) U) /\ (forall a, In a dead -> In a U)) /\
      0 <= - sum_dbal ws /\ ~ In (m_from m) dead /\
      (forall a, ~ In a dead ->
         bal s' a = bal s a
                    - (if N.eqb a (m_from m) then m_value m + x_used r * m_price m else 0)
                    + (if N.eqb a (target ca s m) then m_value m else 0)
                    + (if N.eqb a (e_coinbase e) then x_used r * m_price m else 0)
                    + dbal_of ws a) /\
      (forall a, In a dead -> get s' a = empty_account).
Proof. exact executed_ok_flow. Qed.
Print Assumptions C09_value_flow.

(** the per-account moves of a list of writes add up to its total move over any duplicate-free
    universe that contains the written accounts *)
Theorem C09_writes_sum :
  forall U ws, NoDup U -> (forall w, In w ws -> In (w_addr w) U) -> dbal_total ws U = sum_dbal ws.
Proof. exact dbal_of_total. Qed.
Print Assumptions C09_writes_sum.

(** the hypothesis [Closed U run] of C09_conservation / C09_block is no restriction on the
    interpreter: [restrict U run] (a run that writes outside [U] is reported as a failed run) keeps
    the contract, is closed by construction, and IS [run] on every run that stays inside [U] *)
Theorem C09_closed_universe_wlog :
  forall U run, ExecOK run ->
    ExecOK (restrict U run) /\ Closed U (restrict U run) /\
    forall s ci, (forall w, In w (ro_writes (run s ci)) -> In (w_addr w) U) -> restrict U run s ci = run s ci.
Proof.
  intros U run OK. split; [exact (restrict_exec_ok U run OK)|]. split; [exact (restrict_closed U run)|].
  exact (restrict_same U run).
Qed.
Print Assumptions C09_closed_universe_wlog.

(** hence conservation for whole blocks with the contract [ExecOK] as the ONLY assumption on the
    interpreter *)
Theorem C09_block_restricted :
  forall run ca, ExecOK run ->
  forall e U s txs,
    0 <= e_gaslimit e < two64 -> NoDup U -> In (e_coinbase e) U ->
    st_refund s = 0 -> st_dead s = [] ->
    (forall m, In m txs -> wf_msg m /\ In (m_from m) U /\ forall s, In (target ca s m) U) ->
    block_inv e U s (commit_block64 (restrict U run) ca e s txs).
Proof.
  intros run ca OK e U s txs Hgl Hnd Hc Hr Hd Hall.
  exact (C09_block (restrict U run) ca (restrict_exec_ok U run OK) e U s txs Hgl Hnd (restrict_closed U run) Hc Hr Hd Hall).
Qed.
Print Assumptions C09_block_restricted.

(** the early exit of the proposal builder (pool below TxGas: "not enough gas for further
    transactions") changes nothing: every transaction it skips would have been rejected, because the
    intrinsic gas of any transaction is at least TxGas (no uint64 wrap-around gets below it) *)
Theorem C09_proposal_break_sound :
  forall run ca e b txs,
    (forall m, In m txs -> 0 <= m_gas m < two64) ->
    propose_loop wrapu64 run ca e b txs = propose_txs wrapu64 run ca e b txs.
Proof. intros run ca e b txs. exact (propose_loop_eq run ca e txs b). Qed.
Print Assumptions C09_proposal_break_sound.

Theorem C09_intrinsic_at_least_tx_gas :
  forall d c l ig, intrinsic_gas64 d c l = Some ig -> tx_gas <= ig.
Proof. exact intrinsic_ge_tx_gas. Qed.
Print Assumptions C09_intrinsic_at_least_tx_gas.

(** Tie to the Go SOURCE (translator /verif/go2coq, regenerated from /repo on every check): the nonce,
    funds, block-gas, intrinsic-gas, transfer, refund-cap and pool-overflow guards and the uint64 gas
    arithmetic of the model are the expressions of state_processor.go / tx_pool_utils.go /
    gas_pool.go / lib/math themselves; second part: what buyGas / preCheck / refundGas store and
    re-read, the cumulative gas of ApplyTransaction, the pool restored by commitBlock and by the
    proposal builder (= the pool of [commit_step] / [propose_step] after a rejected transaction), the
    error tests of the three loops, KVM.Call / create: depth and NoRecursion tests (cannot fire at
    depth 0), balance tests (= [can_transfer]), absent-account and empty-code tests, collision test,
    code size limit, code deposit charge and Contract.UseGas (= the model's decisions in [create]),
    gas 0 on failure, the stipend / returned gas / 63-64ths arithmetic of the call-family
    instructions, the protocol constants (statement spelled out in SourceTie.v). *)
From Kardia Require Import C09.SourceTie.
Theorem C09_source_tie : C09_source_tie_statement.
Proof. exact C09_source_tie_proof. Qed.
Print Assumptions C09_source_tie.

(** The contract ExecOK is not an open assumption for the reference interpreter of C10
    (coq/theories/C10/EVM.v, compared instruction by instruction with the real KVM by ./check C10):
    [ToC09.run10] wraps it as C09's [run] (for every Keccak / block-hash function, every
    concretisation of code and storage identities, call data and block environment) and
    [run10_exec_ok] proves the contract.  The theorems above then hold for it with NO hypothesis
    on the interpreter: *)
From Kardia Require C10.EVM C10.ToC09.
Theorem C09_interpreter_contract :
  forall keccak blockhash UW code_of_id stor_of_id id_of_code id_of_stor input_of env_of,
    ExecOK (Kardia.C10.ToC09.run10 keccak blockhash UW code_of_id stor_of_id id_of_code id_of_stor input_of env_of).
Proof. exact Kardia.C10.ToC09.run10_exec_ok. Qed.
Print Assumptions C09_interpreter_contract.

(** one transaction run by the reference interpreter: gas bounds, pool, nonce, and (success path)
    the account-level value flow / (failure path) nothing but the gas money *)
Theorem C09_interpreter_transaction :
  forall keccak blockhash UW code_of_id stor_of_id id_of_code id_of_stor input_of env_of ca,
  let run := Kardia.C10.ToC09.run10 keccak blockhash UW code_of_id stor_of_id id_of_code id_of_stor input_of env_of in
  forall e s pool m s' pool' r,
    wf_msg m -> 0 <= pool < two64 -> st_refund s = 0 -> st_dead s = [] ->
    apply_transaction64 run ca e s pool m = Executed s' pool' r ->
    (0 <= x_used r <= m_gas m /\ 0 <= x_refund r /\ 2 * x_refund r <= x_used r + x_refund r) /\
    (pool' = pool - x_used r /\ 0 <= pool' < two64) /\
    (nonce s' (m_from m) = nonce s (m_from m) + 1 /\ nonce s (m_from m) = m_nonce m) /\
    (x_vmerr r <> VOk ->
       x_burnt r = 0 /\ (x_vmerr r <> VRevert -> x_used r = m_gas m) /\
       forall a, bal s' a = bal s a - (if N.eqb a (m_from m) then x_used r * m_price m else 0)
                                    + (if N.eqb a (e_coinbase e) then x_used r * m_price m else 0)).
Proof.
  intros keccak blockhash UW code_of_id stor_of_id id_of_code id_of_stor input_of env_of ca run
         e s pool m s' pool' r Hm Hp Hr Hd Hex.
  pose proof (Kardia.C10.ToC09.run10_exec_ok keccak blockhash UW code_of_id stor_of_id id_of_code id_of_stor input_of env_of) as OK.
  fold run in OK.
  destruct (C09_gas_bounds run ca OK e s pool m s' pool' r Hm Hp Hr Hex) as (G1 & G2 & G3 & _).
  split; [repeat split; tauto|].
  split; [exact (C09_pool_exact run ca OK e s pool m s' pool' r Hm Hp Hr Hex)|].
  split; [exact (C09_nonce run ca OK e s pool m s' pool' r Hm Hp Hr Hd Hex)|].
  intros Hne.
  destruct (C09_failed_execution run ca OK e s pool m s' pool' r Hm Hp Hr Hd Hex Hne) as (_ & _ & Hb & _ & Hu & Hacc).
  split; [exact Hb|]. split; [intros Hnr; exact (proj2 (Hu Hnr))|].
  intros a. exact (proj1 (Hacc a)).
Qed.
Print Assumptions C09_interpreter_transaction.

(** whole blocks run by the reference interpreter (restricted to the universe [U] the balance sum
    ranges over, see C09_closed_universe_wlog): AddGas never panics, pool + gas used = block gas
    limit, the state is again at a transaction boundary, the balance sum moved by the burns only *)
Theorem C09_interpreter_block :
  forall keccak blockhash UW code_of_id stor_of_id id_of_code id_of_stor input_of env_of ca,
  let run := Kardia.C10.ToC09.run10 keccak blockhash UW code_of_id stor_of_id id_of_code id_of_stor input_of env_of in
  forall e U s txs,
    0 <= e_gaslimit e < two64 -> NoDup U -> In (e_coinbase e) U ->
    st_refund s = 0 -> st_dead s = [] ->
    (forall m, In m txs -> wf_msg m /\ In (m_from m) U /\ forall s, In (target ca s m) U) ->
    block_inv e U s (commit_block64 (restrict U run) ca e s txs).
Proof.
  intros keccak blockhash UW code_of_id stor_of_id id_of_code id_of_stor input_of env_of ca run.
  exact (C09_block_restricted run ca
           (Kardia.C10.ToC09.run10_exec_ok keccak blockhash UW code_of_id stor_of_id id_of_code id_of_stor input_of env_of)).
Qed.
Print Assumptions C09_interpreter_block.

(** The decision-critical functions of the anchored code have exactly the decisions the source tie knows about
    (go2coq manifests, regenerated from /repo on every check; statement in SourceManifest.v). *)
From Kardia Require Import C09.SourceManifest.
Theorem C09_source_manifest : C09_source_manifest_statement.
Proof. exact C09_source_manifest_proof. Qed.
Print Assumptions C09_source_manifest.
