From Coq Require Import List ZArith NArith Bool.
From Kardia Require Import Base.Int64 C09.Model Generated.C09Facts.
Local Open Scope Z_scope.
Theorem C09_placeholder : refund_quotient = 2.
Proof. reflexivity. Qed.
Print Assumptions C09_placeholder.
