(** C09 — property theorems only.  Each is closed by [exact] of a lemma proved in Proofs*.v and
    followed by [Print Assumptions].

    Reading guide.  [apply_transaction64] is ApplyTransaction (AsMessage, preCheck, buyGas,
    IntrinsicGas, Call / Create, refundGas, fee, Finalise) with uint64 wrap-around as in the
    code; [commit_block64] is commitBlock's transaction loop.  The byte-code interpreter is the
    parameter [run]; [ExecOK run] is the contract assumed of it (gas left <= gas given; net
    balance moves sum to minus the self-destruct burn; the transaction origin is an externally
    owned account).  [wf_msg]: gas and nonce are uint64 values, the nonce is not 2^64-1, price
    and value are non-negative.  A state "at a transaction boundary" has refund counter 0 and no
    account marked suicided (what Finalise leaves).  [U] is any duplicate-free list of accounts
    containing every account involved ([Closed U run]: every account the interpreter writes). *)
From Coq Require Import List ZArith NArith Bool.
From Kardia Require Import Base.Int64 C09.Model C09.ProofsBase C09.ProofsVM C09.ProofsTx
  C09.ProofsWrap C09.ProofsNonneg C09.ProofsExamples Generated.C09Facts.
Import ListNotations.
Local Open Scope Z_scope.

(** Executing a transaction changes the balance sum by exactly minus what self-destructs
    destroyed: gas*price leaves the sender, (gas-used)*price comes back, used*price goes to the
    proposer, the value goes to the recipient / created contract, the interpreter only moves. *)
Theorem C09_conservation :
  forall run ca, ExecOK run ->
  forall e s pool m s' pool' r,
    wf_msg m -> 0 <= pool < two64 -> st_refund s = 0 -> st_dead s = [] ->
    apply_transaction64 run ca e s pool m = Executed s' pool' r ->
    forall U, NoDup U -> Closed U run ->
    In (m_from m) U -> In (target ca s m) U -> In (e_coinbase e) U ->
    total U s' = total U s - x_burnt r.
Proof. exact executed_conservation. Qed.
Print Assumptions C09_conservation.

(** gas used <= gas limit; the refund is at most half of the gas used before the refund
    (hence at most the gas finally used); used + refund = limit - gas returned by the VM;
    the VM got at most the limit and returned at most what it got *)
Theorem C09_gas_bounds :
  forall run ca, ExecOK run ->
  forall e s pool m s' pool' r,
    wf_msg m -> 0 <= pool < two64 -> st_refund s = 0 ->
    apply_transaction64 run ca e s pool m = Executed s' pool' r ->
    0 <= x_used r <= m_gas m /\
    0 <= x_refund r /\ 2 * x_refund r <= x_used r + x_refund r /\
    x_used r + x_refund r = m_gas m - x_vmleft r /\
    0 <= x_vmleft r <= x_vmgas r /\ x_vmgas r <= m_gas m.
Proof. exact executed_gas_bounds. Qed.
Print Assumptions C09_gas_bounds.

(** who pays and who receives the gas money: relative to the state [s2] the Call / Create left,
    the sender gets (limit - used)*price back — having paid limit*price up front, it pays
    used*price net — and the proposer gets used*price; accounts that self-destructed are deleted *)
Theorem C09_fee_flow :
  forall run ca, ExecOK run ->
  forall e s pool m s' pool' r,
    wf_msg m -> 0 <= pool < two64 -> st_refund s = 0 ->
    apply_transaction64 run ca e s pool m = Executed s' pool' r ->
    exists ig s2 gas2 vmerr burn,
      let from := m_from m in
      let s1 := sub_bal s from (m_gas m * m_price m) in
      vm_phase wrapu64 run ca s1 m (m_gas m - ig) = (s2, gas2, vmerr, burn) /\
      x_vmerr r = vmerr /\ x_failed r = negb (vm_err_eqb vmerr VOk) /\
      (forall a, ~ In a (st_dead s2) ->
         bal s' a = bal s2 a + (if N.eqb a from then (m_gas m - x_used r) * m_price m else 0)
                             + (if N.eqb a (e_coinbase e) then x_used r * m_price m else 0)) /\
      (forall a, In a (st_dead s2) -> get s' a = empty_account).
Proof. exact executed_fee_flow. Qed.
Print Assumptions C09_fee_flow.

(** a plain value transfer, account by account: the sender pays value + used*price, the
    recipient receives the value, the proposer receives used*price, used = intrinsic gas *)
Theorem C09_plain_transfer :
  forall run ca, ExecOK run ->
  forall e s pool m t s' pool' r,
    wf_msg m -> 0 <= pool < two64 -> st_refund s = 0 -> st_dead s = [] ->
    m_to m = Some t -> code s t = 0%N -> is_precompile t = false ->
    apply_transaction64 run ca e s pool m = Executed s' pool' r ->
    exists ig, intrinsic_gas64 (m_data m) false (negb (e_galaxias e)) = Some ig /\
      x_used r = ig /\ x_failed r = false /\ x_refund r = 0 /\ x_burnt r = 0 /\ pool' = pool - ig /\
      forall a, bal s' a = bal s a
                           - (if N.eqb a (m_from m) then m_value m + ig * m_price m else 0)
                           + (if N.eqb a t then m_value m else 0)
                           + (if N.eqb a (e_coinbase e) then ig * m_price m else 0).
Proof. exact plain_transfer_exact. Qed.
Print Assumptions C09_plain_transfer.

(** the block gas pool decreases by exactly the gas used *)
Theorem C09_pool_exact :
  forall run ca, ExecOK run ->
  forall e s pool m s' pool' r,
    wf_msg m -> 0 <= pool < two64 -> st_refund s = 0 ->
    apply_transaction64 run ca e s pool m = Executed s' pool' r ->
    pool' = pool - x_used r /\ 0 <= pool' < two64.
Proof. exact executed_pool. Qed.
Print Assumptions C09_pool_exact.

(** the sender's nonce is the transaction's nonce and increases by exactly one, on the call
    path (SetNonce in TransitionDb) and on the creation path (SetNonce in KVM.create) alike,
    whether or not the VM call failed *)
Theorem C09_nonce :
  forall run ca, ExecOK run ->
  forall e s pool m s' pool' r,
    wf_msg m -> 0 <= pool < two64 -> st_refund s = 0 -> st_dead s = [] ->
    apply_transaction64 run ca e s pool m = Executed s' pool' r ->
    nonce s' (m_from m) = nonce s (m_from m) + 1 /\ nonce s (m_from m) = m_nonce m.
Proof. exact executed_nonce. Qed.
Print Assumptions C09_nonce.

(** a transaction that ApplyTransaction rejects (whatever state and pool it left behind) is, for
    the block, as if it had not been there: same accounts, same pool, same cumulative gas, same
    receipts after everything that follows.  No hypothesis on the interpreter. *)
Theorem C09_rejected_neutral :
  forall run ca e s txs1 bad txs2,
    (exists er sx px,
       apply_transaction64 run ca e (b_state (commit_block64 run ca e s txs1))
         (b_pool (commit_block64 run ca e s txs1)) bad = Rejected er sx px) ->
    commit_block64 run ca e s (txs1 ++ bad :: txs2) = commit_block64 run ca e s (txs1 ++ txs2).
Proof. intros run ca e s. exact (rejected_neutral run ca wrapu64 e (block_start e s)). Qed.
Print Assumptions C09_rejected_neutral.

(** ... and these are the reasons for which a transaction is rejected *)
Theorem C09_rejected_reason :
  forall run ca e s pool m er sx px,
    apply_transaction64 run ca e s pool m = Rejected er sx px ->
    match er with
    | ESig => m_sigok m = false
    | ENonceHigh => nonce s (m_from m) < m_nonce m
    | ENonceLow => m_nonce m < nonce s (m_from m)
    | EFunds => bal s (m_from m) < m_gas m * m_price m
    | EGasLimit => pool < m_gas m
    | EGasOverflow => intrinsic_gas64 (m_data m) (creation m) (negb (e_galaxias e)) = None
    | EIntrinsic => exists ig, intrinsic_gas64 (m_data m) (creation m) (negb (e_galaxias e)) = Some ig
                               /\ wrapu64 (0 + m_gas m) < ig
    | EFundsTransfer => bal s (m_from m) - m_gas m * m_price m < m_value m
    end.
Proof. exact rejected_reason. Qed.
Print Assumptions C09_rejected_reason.

(** whole blocks: AddGas never panics, pool + gas used = block gas limit, the state is again at
    a transaction boundary, and the balance sum moved by the recorded burns only *)
Theorem C09_block :
  forall run ca, ExecOK run ->
  forall e U s txs,
    0 <= e_gaslimit e < two64 -> NoDup U -> Closed U run -> In (e_coinbase e) U ->
    st_refund s = 0 -> st_dead s = [] ->
    (forall m, In m txs -> wf_msg m /\ In (m_from m) U /\ forall s, In (target ca s m) U) ->
    block_inv e U s (commit_block64 run ca e s txs).
Proof.
  intros run ca OK e U s txs Hgl Hnd Hcl Hc Hr Hd Hall.
  exact (commit_txs_inv run ca OK e U s txs (block_start e s) Hgl Hnd Hcl Hc Hall
           (block_start_inv e U s (proj1 Hgl) Hr Hd)).
Qed.
Print Assumptions C09_block.

(** no uint64 operation wraps: on well-formed messages (data shorter than 2^32 bytes) the code's
    arithmetic agrees with unbounded integers, the overflow checks of IntrinsicGas do not fire,
    and GasPool.AddGas does not panic *)
Theorem C09_no_wrap :
  forall run ca, ExecOK run ->
  forall e s pool m,
    wf_msg m -> data_ok (m_data m) -> 0 <= pool < two64 -> 0 <= st_refund s ->
    apply_transaction64 run ca e s pool m = apply_transaction (fun z => z) run ca e s pool m
    /\ apply_transaction64 run ca e s pool m <> Panicked.
Proof. exact apply_transaction_eq. Qed.
Print Assumptions C09_no_wrap.

Theorem C09_intrinsic_no_overflow :
  forall data c l, data_ok data ->
    intrinsic_gas64 data c l = intrinsic_gas (fun z => z) data c l /\
    exists ig, intrinsic_gas64 data c l = Some ig.
Proof.
  intros data c l H. split; [exact (intrinsic_eq data c l H)|].
  destruct (intrinsic_some data c l H) as [ig Hig]. exists ig.
  unfold intrinsic_gas64. rewrite (intrinsic_eq data c l H). exact Hig.
Qed.
Print Assumptions C09_intrinsic_no_overflow.

(** nothing appears: if the interpreter never overdraws an account ([RunNonneg]), balances stay
    non-negative and the destroyed amount is non-negative, so the balance sum never increases *)
Theorem C09_no_value_created :
  forall run ca, ExecOK run -> RunNonneg run ->
  forall e s pool m s' pool' r,
    wf_msg m -> 0 <= pool < two64 -> 0 <= st_refund s -> nonneg s ->
    apply_transaction64 run ca e s pool m = Executed s' pool' r ->
    nonneg s' /\ 0 <= x_burnt r.
Proof. exact executed_nonneg. Qed.
Print Assumptions C09_no_value_created.

(** exactly the valid transactions are executed (so "rejected" means one of the listed reasons,
    and "executed" is not vacuous) *)
Theorem C09_executed_iff_valid :
  forall run ca, ExecOK run ->
  forall e s pool m,
    wf_msg m -> data_ok (m_data m) -> 0 <= pool < two64 -> 0 <= st_refund s ->
    ((exists s' pool' r, apply_transaction64 run ca e s pool m = Executed s' pool' r)
     <-> valid_tx e s pool m).
Proof.
  intros run ca OK e s pool m Hm Hd Hp Hr. split.
  - intros (s' & pool' & r & H). exact (executed_valid run ca OK e s pool m s' pool' r Hm Hp Hr H).
  - exact (valid_executes run ca OK e s pool m Hm Hd Hp Hr).
Qed.
Print Assumptions C09_executed_iff_valid.

(** the hypotheses are satisfiable *)
Theorem C09_hypotheses_satisfiable :
  (ExecOK run_idle /\ RunNonneg run_idle) /\ ExecOK run_ex /\ wf_msg msg_ex /\
  match apply_transaction64 run_ex ca_ex env_ex st_ex 100000 msg_ex with
  | Executed s' pool' r => x_used r = 21172 /\ pool' = 100000 - 21172 /\ nonce s' 1%N = 6
  | _ => False
  end.
Proof.
  split; [split; [exact run_idle_ok|exact run_idle_nonneg]|].
  split; [exact run_ex_ok|]. split; [exact msg_ex_wf|].
  pose proof ex_executed as H.
  destruct (apply_transaction64 run_ex ca_ex env_ex st_ex 100000 msg_ex); try exact H.
  destruct H as (H1 & H2 & _ & H3 & _). repeat split; assumption.
Qed.
Print Assumptions C09_hypotheses_satisfiable.

(** Tie to the Go SOURCE (translator /verif/go2coq, regenerated from /repo on every check): the nonce,
    funds, block-gas, intrinsic-gas, transfer, refund-cap and pool-overflow guards and the uint64 gas
    arithmetic of the model are the expressions of state_processor.go / tx_pool_utils.go /
    gas_pool.go / lib/math themselves (statement spelled out in SourceTie.v). *)
From Kardia Require Import C09.SourceTie.
Theorem C09_source_tie : C09_source_tie_statement.
Proof. exact C09_source_tie_proof. Qed.
Print Assumptions C09_source_tie.
