(** C09 — no uint64 operation of the transcribed code wraps on well-formed inputs: the model
    instantiated with [wrapu64] computes the same as the model over unbounded integers. *)
From Coq Require Import List ZArith NArith Bool Lia.
From Kardia Require Import Base.Int64 C09.Model C09.ProofsBase C09.ProofsVM C09.ProofsTx Generated.C09Facts.
Import ListNotations.
Local Open Scope Z_scope.
Ltac Zify.zify_post_hook ::= Z.div_mod_to_equations.

Notation idz := (fun z : Z => z).

(** *** IntrinsicGas *)
Lemma count_nz_fold data acc :
  0 <= acc -> acc + Z.of_nat (length data) < two64 ->
  fold_left (fun a b => if N.eqb b 0 then a else wrapu64 (a + 1)) data acc
  = fold_left (fun a b => if N.eqb b 0 then a else idz (a + 1)) data acc
  /\ acc <= fold_left (fun a b => if N.eqb b 0 then a else idz (a + 1)) data acc
         <= acc + Z.of_nat (length data).
Proof.
  cbv beta. revert acc. induction data as [|b data IH]; intros acc H0 H1; cbn [fold_left length].
  - split; [reflexivity|lia].
  - cbn [length] in H1. rewrite Nat2Z.inj_succ in H1 |- *. destruct (N.eqb b 0).
    + destruct (IH acc) as [E B]; [lia|lia|]. split; [exact E|lia].
    + rewrite wrapu64_small by lia. cbv beta.
      destruct (IH (acc + 1)) as [E B]; [lia|lia|]. split; [exact E|lia].
Qed.

Lemma count_nz_eq data :
  Z.of_nat (length data) < two64 ->
  count_nz wrapu64 data = count_nz idz data /\ 0 <= count_nz idz data <= Z.of_nat (length data).
Proof.
  intros H. unfold count_nz. destruct (count_nz_fold data 0) as [E B]; [lia|lia|].
  split; [exact E|lia].
Qed.

Definition data_ok (data : list N) : Prop := Z.of_nat (length data) < 4294967296.

Lemma intrinsic_eq data c l :
  data_ok data -> intrinsic_gas wrapu64 data c l = intrinsic_gas idz data c l.
Proof.
  unfold data_ok. intros Hd. unfold intrinsic_gas.
  destruct (0 <? Z.of_nat (length data)) eqn:Hlen; [|reflexivity].
  assert (Hd' : Z.of_nat (length data) < two64) by (unfold two64; lia).
  destruct (count_nz_eq data Hd') as [E B]. rewrite E.
  set (nz := count_nz idz data) in *. cbv beta.
  set (g := if c then tx_gas_contract_creation else if l then tx_gas_legacy else tx_gas).
  assert (Hg : 0 <= g <= 100000).
  { unfold g. destruct c; [vm_compute; split; discriminate|]. destruct l; vm_compute; split; discriminate. }
  assert (F1 : tx_data_non_zero_gas = 68) by reflexivity.
  assert (F2 : tx_data_zero_gas = 4) by reflexivity.
  rewrite F1, F2. unfold two64 in *.
  rewrite (wrapu64_small (nz * 68)) by (unfold two64; lia).
  rewrite (wrapu64_small (g + nz * 68)) by (unfold two64; lia).
  rewrite (wrapu64_small (Z.of_nat (length data))) by (unfold two64; lia).
  rewrite (wrapu64_small (Z.of_nat (length data) - nz)) by (unfold two64; lia).
  rewrite (wrapu64_small ((Z.of_nat (length data) - nz) * 4)) by (unfold two64; lia).
  rewrite (wrapu64_small (g + nz * 68 + (Z.of_nat (length data) - nz) * 4)) by (unfold two64; lia).
  reflexivity.
Qed.

(** the overflow checks of IntrinsicGas cannot fire *)
Lemma intrinsic_some data c l : data_ok data -> exists ig, intrinsic_gas idz data c l = Some ig.
Proof.
  unfold data_ok. intros Hd. unfold intrinsic_gas.
  destruct (0 <? Z.of_nat (length data)) eqn:Hlen; [|eexists; reflexivity].
  assert (Hd' : Z.of_nat (length data) < two64) by (unfold two64; lia).
  destruct (count_nz_eq data Hd') as [_ B].
  set (nz := count_nz idz data) in *. cbv beta.
  set (g := if c then tx_gas_contract_creation else if l then tx_gas_legacy else tx_gas).
  assert (Hg : 0 <= g <= 100000).
  { unfold g. destruct c; [vm_compute; split; discriminate|]. destruct l; vm_compute; split; discriminate. }
  assert (F1 : tx_data_non_zero_gas = 68) by reflexivity.
  assert (F2 : tx_data_zero_gas = 4) by reflexivity.
  rewrite F1, F2. unfold max_u64, two64.
  destruct (_ / 68 <? nz) eqn:C1; [apply Z.ltb_lt in C1; lia|].
  destruct (_ / 4 <? _) eqn:C2; [apply Z.ltb_lt in C2; lia|].
  eexists; reflexivity.
Qed.

Section Wrap.
Variable run : state -> call_input -> run_output.
Variable ca : N -> Z -> N.
Hypothesis OK : ExecOK run.

(** *** KVM.create *)
Lemma create_eq s mid origin caller address gas value :
  0 <= nonce s caller < two64 - 1 ->
  create wrapu64 run s mid origin caller address gas value
  = create idz run s mid origin caller address gas value.
Proof.
  intros Hn. unfold create. rewrite (wrapu64_small (nonce s caller + 1)) by lia. cbv beta.
  destruct (negb (can_transfer s caller value)); [reflexivity|].
  destruct (_ || _); [reflexivity|].
  set (o := run _ _).
  destruct (vm_err_eqb (ro_err o) VOk && negb (max_code_size <? ro_retlen o)) eqn:Hc; [|reflexivity].
  apply andb_true_iff in Hc. destruct Hc as [_ Hc]. apply negb_true_iff, Z.ltb_ge in Hc.
  pose proof (ok_retlen run OK) as Hr. specialize (Hr _ _ : 0 <= ro_retlen o).
  assert (F : create_data_gas = 200) by reflexivity.
  assert (F' : max_code_size = 39231) by reflexivity.
  rewrite wrapu64_small by (rewrite F; unfold two64; lia). reflexivity.
Qed.

Lemma vm_phase_eq s1 m gas1 :
  0 <= nonce s1 (m_from m) < two64 - 1 ->
  vm_phase wrapu64 run ca s1 m gas1 = vm_phase idz run ca s1 m gas1.
Proof.
  intros Hn. unfold vm_phase. destruct (m_to m).
  - cbn zeta. rewrite wrapu64_small by lia. reflexivity.
  - now apply create_eq.
Qed.

(** *** ApplyTransaction *)
Lemma apply_transaction_eq e s pool m :
  wf_msg m -> data_ok (m_data m) -> 0 <= pool < two64 -> 0 <= st_refund s ->
  apply_transaction wrapu64 run ca e s pool m = apply_transaction idz run ca e s pool m
  /\ apply_transaction wrapu64 run ca e s pool m <> Panicked.
Proof.
  intros [Hgas Hnonce Hprice Hvalue] Hdata Hpool Hrefund. unfold apply_transaction.
  destruct (m_sigok m) eqn:Hsig; cbn [negb]; [|split; [reflexivity|discriminate]].
  destruct (nonce s (m_from m) <? m_nonce m) eqn:Hn1; [split; [reflexivity|discriminate]|].
  destruct (m_nonce m <? nonce s (m_from m)) eqn:Hn2; [split; [reflexivity|discriminate]|].
  apply Z.ltb_ge in Hn1, Hn2.
  destruct (bal s (m_from m) <? m_gas m * m_price m) eqn:Hfunds; [split; [reflexivity|discriminate]|].
  apply Z.ltb_ge in Hfunds.
  destruct (pool <? m_gas m) eqn:Hpl; [split; [reflexivity|discriminate]|]. apply Z.ltb_ge in Hpl.
  fold (creation m).
  rewrite (intrinsic_eq _ (creation m) (negb (e_galaxias e)) Hdata).
  destruct (intrinsic_gas idz (m_data m) (creation m) (negb (e_galaxias e))) as [ig|] eqn:Hig;
    [|split; [reflexivity|discriminate]].
  assert (Hig0 : 0 <= ig).
  { rewrite <- (intrinsic_eq _ (creation m) (negb (e_galaxias e)) Hdata) in Hig.
    eapply (intrinsic_nonneg ca); exact Hig. }
  cbv beta. rewrite (wrapu64_small (0 + m_gas m)) by lia.
  destruct (0 + m_gas m <? ig) eqn:Hlow; [split; [reflexivity|discriminate]|]. apply Z.ltb_ge in Hlow.
  rewrite (wrapu64_small (0 + m_gas m - ig)) by lia.
  set (s1 := sub_bal s (m_from m) (m_gas m * m_price m)).
  destruct ((0 <? m_value m) && negb (can_transfer s1 (m_from m) (m_value m))) eqn:Hval;
    [split; [reflexivity|discriminate]|].
  assert (Hct : can_transfer s1 (m_from m) (m_value m) = true).
  { destruct (0 <? m_value m) eqn:Hv0; cbn [andb] in Hval.
    - now apply negb_false_iff in Hval.
    - apply Z.ltb_ge in Hv0. unfold can_transfer. apply negb_true_iff, Z.ltb_ge.
      unfold s1. rewrite bal_sub_bal, N.eqb_refl. lia. }
  assert (Hn1' : 0 <= nonce s1 (m_from m) < two64 - 1) by (unfold s1; rewrite nonce_sub_bal; lia).
  rewrite <- (vm_phase_eq s1 m (0 + m_gas m - ig) Hn1').
  destruct (vm_phase wrapu64 run ca s1 m (0 + m_gas m - ig)) as [[[s2 gas2] vmerr] burn] eqn:Hvm.
  destruct (vm_phase_spec run ca OK _ _ _ _ _ _ _ Hvm ltac:(lia) Hn1' Hct) as (Hg2 & _ & _ & Hr2 & _).
  assert (Hr2' : 0 <= st_refund s2) by (apply Hr2; unfold s1; rewrite refund_sub_bal; lia).
  cbv beta. rewrite (wrapu64_small (m_gas m - gas2)) by lia.
  set (refund := if st_refund s2 <? (m_gas m - gas2) / refund_quotient then st_refund s2
                 else (m_gas m - gas2) / refund_quotient).
  assert (Hrfb : 0 <= refund /\ 2 * refund <= m_gas m - gas2).
  { unfold refund. rewrite refund_quotient_is_2.
    destruct (st_refund s2 <? (m_gas m - gas2) / 2) eqn:Hcc;
      [apply Z.ltb_lt in Hcc|apply Z.ltb_ge in Hcc]; lia. }
  rewrite (wrapu64_small (gas2 + refund)) by lia.
  destruct (max_u64 - (gas2 + refund) <? pool - m_gas m) eqn:Hpanic.
  { apply Z.ltb_lt in Hpanic. unfold max_u64 in Hpanic. lia. }
  rewrite (wrapu64_small (pool - m_gas m + (gas2 + refund))) by lia.
  rewrite (wrapu64_small (m_gas m - (gas2 + refund))) by lia.
  destruct (finalise _). split; [reflexivity|discriminate].
Qed.

(** *** exactly the valid transactions are executed *)
Definition valid_tx (e : env) (s : state) (pool : Z) (m : msg) : Prop :=
  m_sigok m = true /\ nonce s (m_from m) = m_nonce m /\
  m_gas m * m_price m <= bal s (m_from m) /\ m_gas m <= pool /\
  (exists ig, intrinsic_gas wrapu64 (m_data m) (creation m) (negb (e_galaxias e)) = Some ig /\ ig <= m_gas m) /\
  m_value m <= bal s (m_from m) - m_gas m * m_price m.

Lemma valid_executes e s pool m :
  wf_msg m -> data_ok (m_data m) -> 0 <= pool < two64 -> 0 <= st_refund s ->
  valid_tx e s pool m ->
  exists s' pool' r, apply_transaction wrapu64 run ca e s pool m = Executed s' pool' r.
Proof.
  intros Hm Hd Hp Hr (Hsig & Hn & Hf & Hpl & (ig & Hig & Higle) & Hv).
  destruct (apply_transaction_eq e s pool m Hm Hd Hp Hr) as [_ Hnp].
  destruct (apply_transaction wrapu64 run ca e s pool m) as [er sx px|s' pool' r|] eqn:Hap.
  - exfalso. pose proof (rejected_reason run ca e s pool m er sx px Hap) as Hrr.
    destruct Hm as [Hgas _ _ _].
    destruct er; try lia; try congruence.
    destruct Hrr as (ig' & Hig' & Hlt). rewrite Hig in Hig'. inversion Hig'; subst ig'.
    rewrite wrapu64_small in Hlt by lia. lia.
  - eexists _, _, _. reflexivity.
  - congruence.
Qed.

Lemma executed_valid e s pool m s' pool' r :
  wf_msg m -> 0 <= pool < two64 -> 0 <= st_refund s ->
  apply_transaction wrapu64 run ca e s pool m = Executed s' pool' r -> valid_tx e s pool m.
Proof.
  intros Hm Hp Hr Hex.
  destruct (tx_inv run ca OK e s pool m s' pool' r Hm Hp Hr Hex)
    as (ig & s2 & gas2 & vmerr & burn & H). cbn zeta in H.
  destruct H as (Hsig & Hn & Hf & Hpl & Hig & Higb & Hv & _).
  rewrite bal_sub_bal, N.eqb_refl in Hv.
  repeat split; try assumption. exists ig. split; [exact Hig|lia].
Qed.

End Wrap.
