(** C09 — tie of the model's accounting arithmetic and guards to the Go SOURCE.
    [Generated/C09Source.v] is produced on every check by /verif/go2coq from /repo's working tree:
    every guard / integer expression of StateTransition.buyGas / preCheck / TransitionDb / refundGas /
    gasUsed (mainchain/blockchain/state_processor.go), tx_pool.IntrinsicGas, GasPool.AddGas / SubGas and
    the bodies of lib/math SafeAdd / SafeSub / SafeMul.  The lemmas say that [apply_transaction64] /
    [intrinsic_gas64] of C09/Model.v compute exactly these expressions (uint64 wrap included) on
    exactly these operands. *)
From Coq Require Import List ZArith NArith Bool Lia String.
From Kardia Require Import Base.Int64 Base.GoSem.
From Kardia Require Import Generated.C09Source.
From Kardia Require Import Generated.C09Facts C09.Model C09.ProofsVM.
Import ListNotations.
Local Open Scope Z_scope.

(** big.Int.Cmp / Sign as the Go int they return *)
Definition cmp_int (a b : Z) : Z := match a ?= b with Lt => -1 | Eq => 0 | Gt => 1 end.
Definition sign_int (a : Z) : Z := cmp_int a 0.

Lemma wrapu64_is_wrap z : wrapu64 z = wrap U64 z.
Proof. reflexivity. Qed.

(** ** preCheck: nonce too high / too low *)
Lemma src_nonce_high n mn : mainchain_blockchain__StateTransition_preCheck__if_nonce_lt_st_msg_Nonce n mn = (n <? mn).
Proof. reflexivity. Qed.
Lemma src_nonce_low n mn : mainchain_blockchain__StateTransition_preCheck__if_nonce_gt_st_msg_Nonce n mn = (mn <? n).
Proof. unfold mainchain_blockchain__StateTransition_preCheck__if_nonce_gt_st_msg_Nonce. apply Z.gtb_ltb. Qed.
Lemma src_nonce_atoms :
  mainchain_blockchain__StateTransition_preCheck__if_nonce_lt_st_msg_Nonce_atoms = ["nonce : uint64"; "st.msg.Nonce() : uint64"]%string
  /\ mainchain_blockchain__StateTransition_preCheck__if_nonce_gt_st_msg_Nonce_atoms = ["nonce : uint64"; "st.msg.Nonce() : uint64"]%string.
Proof. split; reflexivity. Qed.

(** ** buyGas: balance.Cmp(gas*price) < 0, pool.SubGas, st.gas += gas *)
Lemma src_funds b mgval : mainchain_blockchain__StateTransition_buyGas__if_st_state_GetBalance_st_msg_From__Cmp_mgval_lt_0 (cmp_int b mgval) = (b <? mgval).
Proof.
  unfold mainchain_blockchain__StateTransition_buyGas__if_st_state_GetBalance_st_msg_From__Cmp_mgval_lt_0, cmp_int, Z.ltb.
  destruct (b ?= mgval); reflexivity.
Qed.
Lemma src_funds_atoms :
  mainchain_blockchain__StateTransition_buyGas__if_st_state_GetBalance_st_msg_From__Cmp_mgval_lt_0_atoms = ["st.state.GetBalance(st.msg.From()).Cmp(mgval) : int"]%string.
Proof. reflexivity. Qed.
Lemma src_gas0 g0 g : mainchain_blockchain__StateTransition_buyGas__set_gas_op g0 g = wrapu64 (g0 + g).
Proof. reflexivity. Qed.
Lemma src_subgas_guard pool amount : in_range U64 pool -> types__GasPool_SubGas__if_uint64_mul_gp_lt_amount pool amount = (pool <? amount).
Proof. intros H. unfold types__GasPool_SubGas__if_uint64_mul_gp_lt_amount, go_conv. rewrite wrap_id by exact H. reflexivity. Qed.
Lemma src_subgas pool amount : in_range U64 pool -> in_range U64 amount -> amount <= pool ->
  types__GasPool_SubGas__assign_op pool amount = pool - amount.
Proof. intros Hp Ha Hle. unfold types__GasPool_SubGas__assign_op, go_sub. apply wrap_id. unfold in_range in *. lia. Qed.

(** ** TransitionDb: intrinsic gas check, value transfer check *)
Lemma src_intrinsic_guard g ig : mainchain_blockchain__StateTransition_TransitionDb__if_st_gas_lt_gas g ig = (g <? ig).
Proof. reflexivity. Qed.
Lemma src_gas1 g ig : mainchain_blockchain__StateTransition_TransitionDb__set_gas_op g ig = wrapu64 (g - ig).
Proof. reflexivity. Qed.
Lemma src_transfer_guard v can :
  mainchain_blockchain__StateTransition_TransitionDb__if_msg_Value__Sign_gt_0_and_not_st_vm_CanTransfer_st_state_msg__a8dc9f8a (sign_int v) can = ((0 <? v) && negb can)%bool.
Proof.
  unfold mainchain_blockchain__StateTransition_TransitionDb__if_msg_Value__Sign_gt_0_and_not_st_vm_CanTransfer_st_state_msg__a8dc9f8a, sign_int, cmp_int. f_equal.
  rewrite Z.gtb_ltb. unfold Z.ltb at 2. rewrite (Z.compare_antisym v 0).
  destruct (v ?= 0); reflexivity.
Qed.
Lemma src_transfer_atoms :
  mainchain_blockchain__StateTransition_TransitionDb__if_msg_Value__Sign_gt_0_and_not_st_vm_CanTransfer_st_state_msg__a8dc9f8a_atoms
  = ["msg.Value().Sign() : int"; "st.vm.CanTransfer(st.state, msg.From(), msg.Value()) : bool"]%string.
Proof. reflexivity. Qed.

(** ** refundGas *)
Lemma src_gas_used i g : mainchain_blockchain__StateTransition_gasUsed__ret_st_initialGas_minus_st_gas i g = wrapu64 (i - g).
Proof. reflexivity. Qed.
Lemma src_gas_used_atoms :
  mainchain_blockchain__StateTransition_gasUsed__ret_st_initialGas_minus_st_gas_atoms = ["st.initialGas : uint64"; "st.gas : uint64"]%string.
Proof. reflexivity. Qed.
Lemma src_refund0 u : in_range U64 u ->
  mainchain_blockchain__StateTransition_refundGas__set_refund u = u / refund_quotient.
Proof.
  intros H. unfold mainchain_blockchain__StateTransition_refundGas__set_refund, go_quot, refund_quotient.
  unfold in_range in H. rewrite Z.quot_div_nonneg by lia. apply wrap_id. unfold in_range.
  pose proof (Z.div_pos u 2). pose proof (Z.div_le_upper_bound u 2 u). lia.
Qed.
Lemma src_refund_cap r0 sr : mainchain_blockchain__StateTransition_refundGas__if_refund_gt_st_state_GetRefund r0 sr = (sr <? r0).
Proof. unfold mainchain_blockchain__StateTransition_refundGas__if_refund_gt_st_state_GetRefund. apply Z.gtb_ltb. Qed.
Lemma src_refund_cap_atoms :
  mainchain_blockchain__StateTransition_refundGas__if_refund_gt_st_state_GetRefund_atoms = ["refund : uint64"; "st.state.GetRefund() : uint64"]%string.
Proof. reflexivity. Qed.
Lemma src_gas3 g r : mainchain_blockchain__StateTransition_refundGas__set_gas_op g r = wrapu64 (g + r).
Proof. reflexivity. Qed.
Lemma src_addgas_guard pool amount : in_range U64 pool -> in_range U64 amount ->
  types__GasPool_AddGas__if_uint64_mul_gp_gt_math_MaxUint64_minus_amount pool amount = (max_u64 - amount <? pool).
Proof.
  intros Hp Ha. unfold types__GasPool_AddGas__if_uint64_mul_gp_gt_math_MaxUint64_minus_amount, go_conv, go_sub, max_u64, two64.
  rewrite (wrap_id U64 pool) by exact Hp.
  rewrite wrap_id by (unfold in_range in *; lia). rewrite Z.gtb_ltb. reflexivity.
Qed.
Lemma src_addgas pool amount : types__GasPool_AddGas__assign_op pool amount = wrapu64 (pool + amount).
Proof. reflexivity. Qed.

(** ** IntrinsicGas *)
Lemma src_ig_nonempty n : mainchain_tx_pool__IntrinsicGas__if_len_data_gt_0 (Z.of_nat n) = (0 <? Z.of_nat n).
Proof. unfold mainchain_tx_pool__IntrinsicGas__if_len_data_gt_0. apply Z.gtb_ltb. Qed.
Lemma src_ig_nz_byte b : mainchain_tx_pool__IntrinsicGas__if_byt_ne_0 (Z.of_N b) = negb (N.eqb b 0).
Proof.
  unfold mainchain_tx_pool__IntrinsicGas__if_byt_ne_0, go_neqb. f_equal.
  destruct (N.eqb_spec b 0); destruct (Z.eqb_spec (Z.of_N b) 0); try reflexivity; lia.
Qed.
Lemma src_ig_nz_overflow gas k nz : in_range U64 gas -> 0 < k ->
  mainchain_tx_pool__IntrinsicGas__if_math_MaxUint64_minus_gas_div_nonZeroGas_lt_nz gas k nz
  = ((max_u64 - gas) / k <? nz).
Proof.
  intros H Hk. unfold mainchain_tx_pool__IntrinsicGas__if_math_MaxUint64_minus_gas_div_nonZeroGas_lt_nz,
    go_quot, go_sub, max_u64, two64. unfold in_range in H.
  rewrite (wrap_id U64 (18446744073709551615 - gas)) by (unfold in_range; lia).
  rewrite Z.quot_div_nonneg by lia.
  rewrite wrap_id; [reflexivity|]. unfold in_range.
  pose proof (Z.div_pos (18446744073709551615 - gas) k ltac:(lia) Hk).
  pose proof (Z.div_le_upper_bound (18446744073709551615 - gas) k (18446744073709551615 - gas) Hk). nia.
Qed.
Lemma src_ig_nz_overflow_atoms :
  mainchain_tx_pool__IntrinsicGas__if_math_MaxUint64_minus_gas_div_nonZeroGas_lt_nz_atoms
  = ["gas : uint64"; "nonZeroGas : uint64"; "nz : uint64"]%string.
Proof. reflexivity. Qed.
Lemma src_ig_gas1 gas nz k : mainchain_tx_pool__IntrinsicGas__set_gas_op gas nz k = wrapu64 (gas + wrapu64 (nz * k)).
Proof. reflexivity. Qed.
Lemma src_ig_z len nz : in_range U64 len -> mainchain_tx_pool__IntrinsicGas__set_z len nz = wrapu64 (wrapu64 len - nz).
Proof. reflexivity. Qed.
Lemma src_ig_z_overflow gas z : in_range U64 gas ->
  mainchain_tx_pool__IntrinsicGas__if_math_MaxUint64_minus_gas_div_configs_TxDataZeroGas_lt_z gas z = ((max_u64 - gas) / tx_data_zero_gas <? z).
Proof.
  intros H. unfold mainchain_tx_pool__IntrinsicGas__if_math_MaxUint64_minus_gas_div_configs_TxDataZeroGas_lt_z, go_quot, go_sub, max_u64, two64, tx_data_zero_gas.
  unfold in_range in H.
  rewrite (wrap_id U64 (18446744073709551615 - gas)) by (unfold in_range; lia).
  rewrite Z.quot_div_nonneg by lia.
  rewrite wrap_id; [reflexivity|]. unfold in_range.
  pose proof (Z.div_pos (18446744073709551615 - gas) 4).
  pose proof (Z.div_le_upper_bound (18446744073709551615 - gas) 4 (18446744073709551615 - gas)). lia.
Qed.
Lemma src_ig_gas2 gas z : mainchain_tx_pool__IntrinsicGas__set_gas_op_2 gas z = wrapu64 (gas + wrapu64 (z * tx_data_zero_gas)).
Proof. reflexivity. Qed.

(** ** lib/math: SafeAdd/SafeSub/SafeMul = exact result mod 2^64 + overflow flag *)
Lemma src_SafeAdd x y : in_range U64 x -> in_range U64 y ->
  lib_math__SafeAdd x y = (wrapu64 (x + y), max_u64 <? x + y).
Proof.
  unfold lib_math__SafeAdd, go_bits_add64, in_range, max_u64, two64. intros Hx Hy. rewrite Z.add_0_r. f_equal.
  unfold go_neqb.
  destruct (Z.ltb_spec (18446744073709551616 - 1) (x + y)) as [Hlt|Hge];
    destruct (Z.eqb_spec ((x + y) / 18446744073709551616) 0) as [He|Hne]; try reflexivity; exfalso.
  - assert (1 <= (x + y) / 18446744073709551616) by (apply Z.div_le_lower_bound; lia). lia.
  - apply Hne. apply Z.div_small. lia.
Qed.
Lemma src_SafeSub x y : in_range U64 x -> in_range U64 y ->
  lib_math__SafeSub x y = (wrapu64 (x - y), x <? y).
Proof.
  unfold lib_math__SafeSub, go_bits_sub64, in_range. intros Hx Hy. rewrite Z.sub_0_r. f_equal.
  unfold go_neqb. destruct (Z.ltb_spec (x - y) 0); destruct (Z.ltb_spec x y); try reflexivity; lia.
Qed.
Lemma src_SafeMul x y : in_range U64 x -> in_range U64 y ->
  lib_math__SafeMul x y = (wrapu64 (x * y), max_u64 <? x * y).
Proof.
  unfold lib_math__SafeMul, go_bits_mul64, in_range, max_u64, two64. intros Hx Hy. f_equal.
  unfold go_neqb.
  destruct (Z.ltb_spec (18446744073709551616 - 1) (x * y)) as [Hlt|Hge];
    destruct (Z.eqb_spec ((x * y) / 18446744073709551616) 0) as [He|Hne]; try reflexivity; exfalso.
  - assert (1 <= (x * y) / 18446744073709551616) by (apply Z.div_le_lower_bound; lia). lia.
  - apply Hne. apply Z.div_small. nia.
Qed.

(** ** the first tie as one statement (arithmetic and comparisons of the state transition) *)
Definition C09_source_tie_core : Prop :=
  (forall n mn, mainchain_blockchain__StateTransition_preCheck__if_nonce_lt_st_msg_Nonce n mn = (n <? mn))
  /\ (forall n mn, mainchain_blockchain__StateTransition_preCheck__if_nonce_gt_st_msg_Nonce n mn = (mn <? n))
  /\ (forall b mg, mainchain_blockchain__StateTransition_buyGas__if_st_state_GetBalance_st_msg_From__Cmp_mgval_lt_0 (cmp_int b mg) = (b <? mg))
  /\ (forall g0 g, mainchain_blockchain__StateTransition_buyGas__set_gas_op g0 g = wrapu64 (g0 + g))
  /\ (forall pool a, in_range U64 pool -> types__GasPool_SubGas__if_uint64_mul_gp_lt_amount pool a = (pool <? a))
  /\ (forall pool a, in_range U64 pool -> in_range U64 a -> a <= pool -> types__GasPool_SubGas__assign_op pool a = pool - a)
  /\ (forall g ig, mainchain_blockchain__StateTransition_TransitionDb__if_st_gas_lt_gas g ig = (g <? ig))
  /\ (forall g ig, mainchain_blockchain__StateTransition_TransitionDb__set_gas_op g ig = wrapu64 (g - ig))
  /\ (forall v can, mainchain_blockchain__StateTransition_TransitionDb__if_msg_Value__Sign_gt_0_and_not_st_vm_CanTransfer_st_state_msg__a8dc9f8a (sign_int v) can = ((0 <? v) && negb can)%bool)
  /\ (forall i g, mainchain_blockchain__StateTransition_gasUsed__ret_st_initialGas_minus_st_gas i g = wrapu64 (i - g))
  /\ (forall u, in_range U64 u -> mainchain_blockchain__StateTransition_refundGas__set_refund u = u / refund_quotient)
  /\ (forall r0 sr, mainchain_blockchain__StateTransition_refundGas__if_refund_gt_st_state_GetRefund r0 sr = (sr <? r0))
  /\ (forall g r, mainchain_blockchain__StateTransition_refundGas__set_gas_op g r = wrapu64 (g + r))
  /\ (forall pool a, in_range U64 pool -> in_range U64 a -> types__GasPool_AddGas__if_uint64_mul_gp_gt_math_MaxUint64_minus_amount pool a = (max_u64 - a <? pool))
  /\ (forall pool a, types__GasPool_AddGas__assign_op pool a = wrapu64 (pool + a))
  /\ (forall gas k nz, in_range U64 gas -> 0 < k -> mainchain_tx_pool__IntrinsicGas__if_math_MaxUint64_minus_gas_div_nonZeroGas_lt_nz gas k nz = ((max_u64 - gas) / k <? nz))
  /\ (forall gas nz k, mainchain_tx_pool__IntrinsicGas__set_gas_op gas nz k = wrapu64 (gas + wrapu64 (nz * k)))
  /\ (forall gas z, in_range U64 gas -> mainchain_tx_pool__IntrinsicGas__if_math_MaxUint64_minus_gas_div_configs_TxDataZeroGas_lt_z gas z = ((max_u64 - gas) / tx_data_zero_gas <? z))
  /\ (forall gas z, mainchain_tx_pool__IntrinsicGas__set_gas_op_2 gas z = wrapu64 (gas + wrapu64 (z * tx_data_zero_gas)))
  /\ (forall x y, in_range U64 x -> in_range U64 y -> lib_math__SafeAdd x y = (wrapu64 (x + y), max_u64 <? x + y))
  /\ (forall x y, in_range U64 x -> in_range U64 y -> lib_math__SafeSub x y = (wrapu64 (x - y), x <? y))
  /\ (forall x y, in_range U64 x -> in_range U64 y -> lib_math__SafeMul x y = (wrapu64 (x * y), max_u64 <? x * y))
  /\ (mainchain_blockchain__StateTransition_buyGas__if_st_state_GetBalance_st_msg_From__Cmp_mgval_lt_0_atoms = ["st.state.GetBalance(st.msg.From()).Cmp(mgval) : int"]%string
      /\ mainchain_blockchain__StateTransition_preCheck__if_nonce_lt_st_msg_Nonce_atoms = ["nonce : uint64"; "st.msg.Nonce() : uint64"]%string
      /\ mainchain_blockchain__StateTransition_TransitionDb__if_st_gas_lt_gas_atoms = ["st.gas : uint64"; "gas : uint64"]%string
      /\ mainchain_blockchain__StateTransition_refundGas__set_refund_atoms = ["st.gasUsed() : uint64"]%string
      /\ mainchain_blockchain__StateTransition_refundGas__if_refund_gt_st_state_GetRefund_atoms = ["refund : uint64"; "st.state.GetRefund() : uint64"]%string
      /\ mainchain_blockchain__StateTransition_gasUsed__ret_st_initialGas_minus_st_gas_atoms = ["st.initialGas : uint64"; "st.gas : uint64"]%string).

Lemma C09_source_tie_core_proof : C09_source_tie_core.
Proof.
  unfold C09_source_tie_core.
  split; [exact src_nonce_high|]. split; [exact src_nonce_low|]. split; [exact src_funds|].
  split; [exact src_gas0|]. split; [exact src_subgas_guard|]. split; [exact src_subgas|].
  split; [exact src_intrinsic_guard|]. split; [exact src_gas1|]. split; [exact src_transfer_guard|].
  split; [exact src_gas_used|]. split; [exact src_refund0|]. split; [exact src_refund_cap|].
  split; [exact src_gas3|]. split; [exact src_addgas_guard|]. split; [exact src_addgas|].
  split; [exact src_ig_nz_overflow|]. split; [exact src_ig_gas1|]. split; [exact src_ig_z_overflow|].
  split; [exact src_ig_gas2|]. split; [exact src_SafeAdd|]. split; [exact src_SafeSub|].
  split; [exact src_SafeMul|]. repeat split; reflexivity.
Qed.

(* ====================================================================================== *)
(** * Second revision of go2coq: bare-atom conditions, field stores, let-assignments, ++ and the
      remaining anchored functions (ApplyTransaction, Process, commitBlock's loop, the proposal
      builder, KVM.Call / CallCode / DelegateCall / StaticCall / create, Contract.UseGas, the
      call-family instructions, CanTransfer). *)


(** ** state transition: what is stored / re-read *)
Lemma src_initial_gas g : mainchain_blockchain__StateTransition_buyGas__put_st_initialGas g = g.
Proof. reflexivity. Qed.
Lemma src_prechecked_nonce n : mainchain_blockchain__StateTransition_preCheck__let_nonce n = n.
Proof. reflexivity. Qed.
(** refundGas as a whole: [refund := gasUsed()/2; if refund > GetRefund() { refund = GetRefund() }]
    is the model's capped refund *)
Lemma src_refund_whole used sr : in_range U64 used ->
  (let refund := mainchain_blockchain__StateTransition_refundGas__set_refund used in
   if mainchain_blockchain__StateTransition_refundGas__if_refund_gt_st_state_GetRefund refund sr
   then mainchain_blockchain__StateTransition_refundGas__let_refund sr else refund)
  = (let refund0 := used / refund_quotient in if sr <? refund0 then sr else refund0).
Proof.
  intros H. cbn zeta. rewrite (src_refund0 used H), src_refund_cap. reflexivity.
Qed.
(** ApplyTransaction: *usedGas += result.UsedGas; receipt.GasUsed = result.UsedGas *)
Lemma src_cumulative cum used : mainchain_blockchain__ApplyTransaction__assign_op cum used = wrapu64 (cum + used).
Proof. reflexivity. Qed.
Lemma src_receipt_used u : mainchain_blockchain__ApplyTransaction__put_receipt_GasUsed u = u.
Proof. reflexivity. Qed.

(** ** the three loops over ApplyTransaction.  commitBlock and the proposal builder: the pool after a
    rejected transaction is the pool read before ApplyTransaction *)
Lemma src_commit_pool_restored pool : in_range U64 pool ->
  mainchain_blockchain__BlockOperations_commitBlock__let_assign
    (mainchain_blockchain__BlockOperations_commitBlock__let_gasBefore pool) = pool.
Proof. intros H. apply (wrap_id U64 pool H). Qed.
Lemma src_proposal_pool_restored pool : in_range U64 pool ->
  mainchain_blockchain__proposalBlock_commitTransaction__let_assign
    (mainchain_blockchain__proposalBlock_commitTransaction__let_gasBefore pool) = pool.
Proof. intros H. apply (wrap_id U64 pool H). Qed.
(** ... which is what [commit_step] / [propose_step] do with the pool *)
Lemma src_commit_step_pool W run ca e b m er sx px :
  b_panic b = false -> in_range U64 (b_pool b) ->
  apply_transaction W run ca e (b_state b) (b_pool b) m = Rejected er sx px ->
  b_pool (commit_step W run ca e b m)
    = mainchain_blockchain__BlockOperations_commitBlock__let_assign
        (mainchain_blockchain__BlockOperations_commitBlock__let_gasBefore (b_pool b))
  /\ b_pool (propose_step W run ca e b m)
    = mainchain_blockchain__proposalBlock_commitTransaction__let_assign
        (mainchain_blockchain__proposalBlock_commitTransaction__let_gasBefore (b_pool b)).
Proof.
  intros Hp Hr H. rewrite src_commit_pool_restored, src_proposal_pool_restored by exact Hr.
  unfold commit_step, propose_step. rewrite Hp, H. split; reflexivity.
Qed.
(** the error tests of the loops are the bare [err != nil] (a negated or different test renames
    or redefines these) *)
Lemma src_loop_error_tests x :
  mainchain_blockchain__BlockOperations_commitBlock__if_err_ne_nil_5 x = x
  /\ mainchain_blockchain__proposalBlock_commitTransaction__if_err_ne_nil x = x
  /\ mainchain_blockchain__StateProcessor_Process__if_err_ne_nil x = x
  /\ mainchain_blockchain__ApplyTransaction__if_err_ne_nil x = x
  /\ mainchain_blockchain__ApplyTransaction__if_err_ne_nil_2 x = x
  /\ mainchain_blockchain__StateTransition_buyGas__if_err_ne_nil x = x
  /\ mainchain_blockchain__StateTransition_TransitionDb__if_err_ne_nil x = x
  /\ mainchain_blockchain__StateTransition_TransitionDb__if_err_ne_nil_2 x = x
  /\ mainchain_blockchain__StateTransition_preCheck__if_st_msg_CheckNonce x = x
  /\ mainchain_blockchain__StateTransition_TransitionDb__if_contractCreation x = x.
Proof. repeat split; reflexivity. Qed.
(** the hard-fork branch of commitBlock is taken exactly at the Galaxias height *)
Lemma src_galaxias_branch set g h :
  mainchain_blockchain__BlockOperations_commitBlock__if_bo_blockchain_chainConfig_GalaxiasBlock_ne_nil_and_mul_bo_bl_57c3e730 set g h
  = (set && (g =? h))%bool.
Proof. reflexivity. Qed.
(** the proposal builder stops when less than TxGas is left in the pool *)
Lemma src_proposal_break pool :
  mainchain_blockchain__proposalBlock_commitTransactions__if_pb_gasPool_Gas_lt_configs_TxGas pool = (pool <? tx_gas)
  /\ mainchain_blockchain__proposalBlock_commitTransactions__if_pb_gasPool_Gas_lt_configs_TxGas_2 pool = (pool <? tx_gas).
Proof. split; reflexivity. Qed.

(** ** the protocol constants as the type checker evaluated them in the translated expressions
    (a changed constant re-opens these) *)
Lemma src_constants :
  mainchain_tx_pool__IntrinsicGas__let_gas = tx_gas_contract_creation /\ tx_gas_contract_creation = 53000
  /\ mainchain_tx_pool__IntrinsicGas__let_gas_2 = tx_gas /\ tx_gas = 21000
  /\ mainchain_tx_pool__IntrinsicGas__let_gas_3 = tx_gas_legacy /\ tx_gas_legacy = 29000
  /\ mainchain_tx_pool__IntrinsicGas__let_nonZeroGas = tx_data_non_zero_gas /\ tx_data_non_zero_gas = 68
  /\ tx_data_zero_gas = 4 /\ create_data_gas = 200 /\ max_code_size = 39231 /\ call_create_depth = 1024
  /\ refund_quotient = 2.
Proof. repeat split; reflexivity. Qed.

(** ** mainchain/kvm.CanTransfer *)
Lemma src_can_transfer s a v :
  mainchain_kvm__CanTransfer__ret_db_GetBalance_addr__Cmp_amount_ge_0 (cmp_int (bal s a) v) = can_transfer s a v.
Proof.
  unfold mainchain_kvm__CanTransfer__ret_db_GetBalance_addr__Cmp_amount_ge_0, can_transfer, cmp_int, Z.geb, Z.ltb.
  destruct (bal s a ?= v); reflexivity.
Qed.

(** ** KVM.Call *)
Lemma src_call_depth d : kvm__KVM_Call__if_kvm_depth_gt_int_configs_CallCreateDepth d = (call_create_depth <? d).
Proof. unfold kvm__KVM_Call__if_kvm_depth_gt_int_configs_CallCreateDepth. apply Z.gtb_ltb. Qed.
(** at depth 0 (where the model's [call] / [create] run) neither the depth limit nor NoRecursion
    can fire, whatever the configuration *)
Lemma src_depth0 nr :
  kvm__KVM_Call__if_kvm_depth_gt_int_configs_CallCreateDepth 0 = false
  /\ kvm__KVM_create__if_kvm_depth_gt_int_configs_CallCreateDepth 0 = false
  /\ kvm__KVM_Call__if_kvm_vmConfig_NoRecursion_and_kvm_depth_gt_0 nr 0 = false
  /\ kvm__KVM_create__if_kvm_vmConfig_NoRecursion_and_kvm_depth_gt_0 nr 0 = false.
Proof. repeat split; try reflexivity; destruct nr; reflexivity. Qed.
(** the four other entry points have the very same depth test *)
Lemma src_depth_same d :
  kvm__KVM_CallCode__if_kvm_depth_gt_int_configs_CallCreateDepth d = kvm__KVM_Call__if_kvm_depth_gt_int_configs_CallCreateDepth d
  /\ kvm__KVM_DelegateCall__if_kvm_depth_gt_int_configs_CallCreateDepth d = kvm__KVM_Call__if_kvm_depth_gt_int_configs_CallCreateDepth d
  /\ kvm__KVM_StaticCall__if_kvm_depth_gt_int_configs_CallCreateDepth d = kvm__KVM_Call__if_kvm_depth_gt_int_configs_CallCreateDepth d
  /\ kvm__KVM_create__if_kvm_depth_gt_int_configs_CallCreateDepth d = kvm__KVM_Call__if_kvm_depth_gt_int_configs_CallCreateDepth d.
Proof. repeat split; reflexivity. Qed.
(** [value.Sign() != 0 && !CanTransfer(...)] is the model's first test of [call] *)
Lemma src_call_balance s caller v :
  kvm__KVM_Call__if_value_Sign_ne_0_and_not_kvm_BlockContext_CanTransfer_kvm_Sta_a9cbbd5d (sign_int v) (can_transfer s caller v)
  = (negb (v =? 0) && negb (can_transfer s caller v))%bool.
Proof.
  unfold kvm__KVM_Call__if_value_Sign_ne_0_and_not_kvm_BlockContext_CanTransfer_kvm_Sta_a9cbbd5d, go_neqb, sign_int, cmp_int.
  f_equal. f_equal. destruct (Z.eqb_spec v 0) as [->|Hne]; [reflexivity|].
  destruct (v ?= 0) eqn:Hc; try reflexivity. apply Z.compare_eq in Hc. contradiction.
Qed.
(** calling an account that does not exist, is not a precompile, with no value: nothing happens *)
Lemma src_call_absent ex pre v :
  kvm__KVM_Call__if_not_kvm_StateDB_Exist_addr ex = negb ex
  /\ kvm__KVM_Call__if_not_isPrecompile_and_value_Sign_eq_0 pre (sign_int v) = (negb pre && (v =? 0))%bool.
Proof.
  split; [reflexivity|]. unfold kvm__KVM_Call__if_not_isPrecompile_and_value_Sign_eq_0, sign_int, cmp_int. f_equal.
  destruct (Z.eqb_spec v 0) as [->|Hne]; [reflexivity|].
  destruct (v ?= 0) eqn:Hc; try reflexivity. apply Z.compare_eq in Hc. contradiction.
Qed.
(** code of length 0 is not run *)
Lemma src_call_nocode (code : list N) :
  kvm__KVM_Call__if_len_code_eq_0 (Z.of_nat (List.length code)) = match code with [] => true | _ => false end.
Proof. destruct code; reflexivity. Qed.
(** on an error other than ErrExecutionReverted the gas is set to the constant 0, in all four call
    entry points *)
Lemma src_failed_call_gas :
  kvm__KVM_Call__let_gas = 0 /\ kvm__KVM_CallCode__let_gas = 0 /\ kvm__KVM_DelegateCall__let_gas = 0
  /\ kvm__KVM_StaticCall__let_gas = 0.
Proof. repeat split; reflexivity. Qed.
Lemma src_call_error_tests x :
  kvm__KVM_Call__if_err_ne_nil x = x /\ kvm__KVM_Call__if_err_ne_ErrExecutionReverted x = x
  /\ kvm__KVM_CallCode__if_err_ne_nil x = x /\ kvm__KVM_CallCode__if_err_ne_ErrExecutionReverted x = x
  /\ kvm__KVM_DelegateCall__if_err_ne_nil x = x /\ kvm__KVM_DelegateCall__if_err_ne_ErrExecutionReverted x = x
  /\ kvm__KVM_StaticCall__if_err_ne_nil x = x /\ kvm__KVM_StaticCall__if_err_ne_ErrExecutionReverted x = x
  /\ kvm__KVM_create__if_err_ne_ErrExecutionReverted x = x /\ kvm__KVM_Call__if_isPrecompile x = x
  /\ kvm__KVM_create__if_contract_UseGas_createDataGas x = x.
Proof. repeat split; reflexivity. Qed.
Lemma src_callcode_balance can :
  kvm__KVM_CallCode__if_not_kvm_CanTransfer_kvm_StateDB_caller_Address_value can = negb can.
Proof. reflexivity. Qed.

(** ** KVM.create *)
Lemma src_create_balance s caller v :
  kvm__KVM_create__if_not_kvm_CanTransfer_kvm_StateDB_caller_Address_value (can_transfer s caller v)
  = negb (can_transfer s caller v).
Proof. reflexivity. Qed.
(** the nonce bump of the creator: [cr_s0] *)
Lemma src_create_nonce s caller :
  cr_s0 wrapu64 s caller
  = set_nonce s caller (kvm__KVM_create__arg_nonce_plus_1 (kvm__KVM_create__let_nonce (nonce s caller))).
Proof. reflexivity. Qed.
(** address collision: nonce != 0 || (hash != {} && hash != emptyCodeHash); the model's code
    identity 0 stands for "no code hash or the hash of the empty code" *)
Lemma src_create_collision n h1 h2 :
  kvm__KVM_create__if_kvm_StateDB_GetNonce_address_ne_0_or_contractHash_ne_common__1d664e2b n h1 h2
  = (negb (n =? 0) || (h1 && h2))%bool.
Proof. reflexivity. Qed.
Lemma src_create_collision_model s address :
  kvm__KVM_create__if_kvm_StateDB_GetNonce_address_ne_0_or_contractHash_ne_common__1d664e2b
    (nonce s address) (negb (N.eqb (code s address) 0)) (negb (N.eqb (code s address) 0))
  = (negb (nonce s address =? 0) || negb (N.eqb (code s address) 0))%bool.
Proof. rewrite src_create_collision. destruct (N.eqb (code s address) 0); reflexivity. Qed.
Lemma src_max_code len : kvm__KVM_create__set_maxCodeSizeExceeded len = (max_code_size <? len).
Proof. unfold kvm__KVM_create__set_maxCodeSizeExceeded. apply Z.gtb_ltb. Qed.
Lemma src_deposit_guard e x : kvm__KVM_create__if_err_eq_nil_and_not_maxCodeSizeExceeded e x = (e && negb x)%bool.
Proof. reflexivity. Qed.
Lemma src_deposit_gas len : in_range U64 len ->
  kvm__KVM_create__set_createDataGas len = wrapu64 (len * create_data_gas).
Proof. intros H. unfold kvm__KVM_create__set_createDataGas, go_mul, go_conv. rewrite (wrap_id U64 len H). reflexivity. Qed.
(** Contract.UseGas: refuses when the gas left is below the charge — the model's [cdg <=? g] is the
    negation — and subtracts otherwise *)
Lemma src_use_gas g c :
  kvm__Contract_UseGas__if_c_Gas_lt_gas g c = negb (c <=? g).
Proof. unfold kvm__Contract_UseGas__if_c_Gas_lt_gas. rewrite Z.leb_antisym, negb_involutive. reflexivity. Qed.
Lemma src_use_gas_sub g c : in_range U64 g -> 0 <= c <= g -> kvm__Contract_UseGas__set_Gas_op g c = g - c.
Proof. intros Hg Hc. unfold kvm__Contract_UseGas__set_Gas_op, go_sub. apply wrap_id. unfold in_range in *. lia. Qed.
Lemma src_create_revert_guard x e :
  kvm__KVM_create__if_maxCodeSizeExceeded_or_err_ne_nil x e = (x || e)%bool
  /\ kvm__KVM_create__if_maxCodeSizeExceeded_and_err_eq_nil x e = (x && e)%bool.
Proof. split; reflexivity. Qed.
(** the three decisions of [create] after the interpreter returned, on the model's own terms *)
Lemma src_create_decisions (err err1 : vm_err) (retlen g : Z) : in_range U64 retlen ->
  let exceeded := max_code_size <? retlen in
  (vm_err_eqb err VOk && negb exceeded)%bool
    = kvm__KVM_create__if_err_eq_nil_and_not_maxCodeSizeExceeded (vm_err_eqb err VOk) (kvm__KVM_create__set_maxCodeSizeExceeded retlen)
  /\ (wrapu64 (retlen * create_data_gas) <=? g)
    = negb (kvm__Contract_UseGas__if_c_Gas_lt_gas g (kvm__KVM_create__set_createDataGas retlen))
  /\ (exceeded || negb (vm_err_eqb err1 VOk))%bool
    = kvm__KVM_create__if_maxCodeSizeExceeded_or_err_ne_nil (kvm__KVM_create__set_maxCodeSizeExceeded retlen) (negb (vm_err_eqb err1 VOk))
  /\ (exceeded && vm_err_eqb err1 VOk)%bool
    = kvm__KVM_create__if_maxCodeSizeExceeded_and_err_eq_nil (kvm__KVM_create__set_maxCodeSizeExceeded retlen) (vm_err_eqb err1 VOk).
Proof.
  intros H. cbn zeta. split; [|split; [|split]].
  - rewrite src_deposit_guard, src_max_code. reflexivity.
  - rewrite (src_deposit_gas retlen H), src_use_gas, negb_involutive. reflexivity.
  - rewrite src_max_code. reflexivity.
  - rewrite src_max_code. reflexivity.
Qed.

(** ** the call-family instructions (inside the interpreter, i.e. inside [run]): the stipend, the
    gas handed back to the caller, "all but one 64th" for CREATE *)
Lemma src_op_gas g r :
  kvm__opCall__set_gas_op g = wrapu64 (g + 2300) /\ kvm__opCallCode__set_gas_op g = wrapu64 (g + 2300)
  /\ kvm__opCall__set_Gas_op g r = wrapu64 (g + r) /\ kvm__opCallCode__set_Gas_op g r = wrapu64 (g + r)
  /\ kvm__opDelegateCall__set_Gas_op g r = wrapu64 (g + r) /\ kvm__opStaticCall__set_Gas_op g r = wrapu64 (g + r)
  /\ kvm__opCreate__set_Gas_op g r = wrapu64 (g + r) /\ kvm__opCreate2__set_Gas_op g r = wrapu64 (g + r).
Proof. repeat split; reflexivity. Qed.
Lemma src_op_create_gas g : in_range U64 g -> kvm__opCreate__set_gas_op g = g - g / 64 /\ 0 <= g - g / 64 <= g.
Proof.
  intros H. unfold kvm__opCreate__set_gas_op, go_sub, go_quot. unfold in_range in H.
  rewrite Z.quot_div_nonneg by lia.
  assert (Hq : 0 <= g / 64 <= g) by (split; [apply Z.div_pos; lia|apply Z.div_le_upper_bound; lia]).
  rewrite (wrap_id U64 (g / 64)) by (unfold in_range; lia).
  rewrite wrap_id by (unfold in_range; lia). lia.
Qed.

(** ** what is compared / stored, not only how (atoms) *)
Lemma src_atoms_ext :
  mainchain_blockchain__StateTransition_buyGas__put_st_initialGas_atoms = ["st.msg.Gas() : uint64"]%string
  /\ mainchain_blockchain__StateTransition_preCheck__let_nonce_atoms = ["st.state.GetNonce(st.msg.From()) : uint64"]%string
  /\ mainchain_blockchain__StateTransition_preCheck__if_st_msg_CheckNonce_atoms = ["st.msg.CheckNonce() : bool"]%string
  /\ mainchain_blockchain__StateTransition_refundGas__let_refund_atoms = ["st.state.GetRefund() : uint64"]%string
  /\ mainchain_blockchain__StateTransition_buyGas__set_gas_op_atoms = ["st.gas : uint64"; "st.msg.Gas() : uint64"]%string
  /\ mainchain_blockchain__StateTransition_TransitionDb__let_isGalaxias_atoms = ["st.vm.ChainConfig().IsGalaxias(&height) : bool"]%string
  /\ mainchain_blockchain__ApplyTransaction__assign_op_atoms = ["*usedGas : uint64"; "result.UsedGas : uint64"]%string
  /\ mainchain_blockchain__ApplyTransaction__put_receipt_GasUsed_atoms = ["result.UsedGas : uint64"]%string
  /\ mainchain_blockchain__BlockOperations_commitBlock__let_gasBefore_atoms = ["gasPool.Gas() : uint64"]%string
  /\ mainchain_blockchain__BlockOperations_commitBlock__let_assign_atoms = ["gasBefore : uint64"]%string
  /\ mainchain_blockchain__BlockOperations_commitBlock__if_err_ne_nil_5_atoms = ["err != nil : untyped bool"]%string
  /\ mainchain_blockchain__proposalBlock_commitTransaction__let_gasBefore_atoms = ["pb.gasPool.Gas() : uint64"]%string
  /\ mainchain_blockchain__proposalBlock_commitTransaction__let_assign_atoms = ["gasBefore : uint64"]%string
  /\ mainchain_blockchain__proposalBlock_commitTransaction__if_err_ne_nil_atoms = ["err != nil : untyped bool"]%string
  /\ mainchain_blockchain__StateProcessor_Process__if_err_ne_nil_atoms = ["err != nil : untyped bool"]%string
  /\ mainchain_blockchain__proposalBlock_commitTransactions__if_pb_gasPool_Gas_lt_configs_TxGas_atoms = ["pb.gasPool.Gas() : uint64"]%string
  /\ mainchain_kvm__CanTransfer__ret_db_GetBalance_addr__Cmp_amount_ge_0_atoms = ["db.GetBalance(addr).Cmp(amount) : int"]%string
  /\ kvm__KVM_Call__if_kvm_depth_gt_int_configs_CallCreateDepth_atoms = ["kvm.depth : int"]%string
  /\ kvm__KVM_Call__if_value_Sign_ne_0_and_not_kvm_BlockContext_CanTransfer_kvm_Sta_a9cbbd5d_atoms
     = ["value.Sign() : int"; "kvm.BlockContext.CanTransfer(kvm.StateDB, caller.Address(), value) : bool"]%string
  /\ kvm__KVM_Call__if_not_kvm_StateDB_Exist_addr_atoms = ["kvm.StateDB.Exist(addr) : bool"]%string
  /\ kvm__KVM_Call__if_not_isPrecompile_and_value_Sign_eq_0_atoms = ["isPrecompile : bool"; "value.Sign() : int"]%string
  /\ kvm__KVM_Call__if_len_code_eq_0_atoms = ["len(code) : int"]%string
  /\ kvm__KVM_Call__if_err_ne_ErrExecutionReverted_atoms = ["err != ErrExecutionReverted : untyped bool"]%string
  /\ kvm__KVM_create__if_not_kvm_CanTransfer_kvm_StateDB_caller_Address_value_atoms = ["kvm.CanTransfer(kvm.StateDB, caller.Address(), value) : bool"]%string
  /\ kvm__KVM_create__let_nonce_atoms = ["kvm.StateDB.GetNonce(caller.Address()) : uint64"]%string
  /\ kvm__KVM_create__if_kvm_StateDB_GetNonce_address_ne_0_or_contractHash_ne_common__1d664e2b_atoms
     = ["kvm.StateDB.GetNonce(address) : uint64"; "contractHash != (common.Hash{}) : untyped bool"; "contractHash != emptyCodeHash : untyped bool"]%string
  /\ kvm__KVM_create__set_maxCodeSizeExceeded_atoms = ["len(ret) : int"]%string
  /\ kvm__KVM_create__set_createDataGas_atoms = ["len(ret) : int"]%string
  /\ kvm__KVM_create__if_contract_UseGas_createDataGas_atoms = ["contract.UseGas(createDataGas) : bool"]%string
  /\ kvm__KVM_create__if_err_eq_nil_and_not_maxCodeSizeExceeded_atoms = ["err == nil : bool"; "maxCodeSizeExceeded : bool"]%string
  /\ kvm__Contract_UseGas__if_c_Gas_lt_gas_atoms = ["c.Gas : uint64"; "gas : uint64"]%string
  /\ kvm__opCall__set_Gas_op_atoms = ["callContext.Contract.Gas : uint64"; "returnGas : uint64"]%string
  /\ kvm__opCreate2__set_Gas_op_atoms = ["callContext.Contract.Gas : uint64"; "returnGas : uint64"]%string
  /\ kvm__opCreate__set_gas_op_atoms = ["gas : uint64"]%string.
Proof. repeat split; reflexivity. Qed.

Definition C09_source_tie_ext : Prop :=
  (forall g, mainchain_blockchain__StateTransition_buyGas__put_st_initialGas g = g)
  /\ (forall n, mainchain_blockchain__StateTransition_preCheck__let_nonce n = n)
  /\ (forall used sr, in_range U64 used ->
        (let refund := mainchain_blockchain__StateTransition_refundGas__set_refund used in
         if mainchain_blockchain__StateTransition_refundGas__if_refund_gt_st_state_GetRefund refund sr
         then mainchain_blockchain__StateTransition_refundGas__let_refund sr else refund)
        = (let refund0 := used / refund_quotient in if sr <? refund0 then sr else refund0))
  /\ (forall cum used, mainchain_blockchain__ApplyTransaction__assign_op cum used = wrapu64 (cum + used))
  /\ (forall u, mainchain_blockchain__ApplyTransaction__put_receipt_GasUsed u = u)
  /\ (forall W run ca e b m er sx px, b_panic b = false -> in_range U64 (b_pool b) ->
        apply_transaction W run ca e (b_state b) (b_pool b) m = Rejected er sx px ->
        b_pool (commit_step W run ca e b m)
          = mainchain_blockchain__BlockOperations_commitBlock__let_assign
              (mainchain_blockchain__BlockOperations_commitBlock__let_gasBefore (b_pool b))
        /\ b_pool (propose_step W run ca e b m)
          = mainchain_blockchain__proposalBlock_commitTransaction__let_assign
              (mainchain_blockchain__proposalBlock_commitTransaction__let_gasBefore (b_pool b)))
  /\ (forall pool, in_range U64 pool ->
        mainchain_blockchain__BlockOperations_commitBlock__let_assign
          (mainchain_blockchain__BlockOperations_commitBlock__let_gasBefore pool) = pool)
  /\ (forall pool, in_range U64 pool ->
        mainchain_blockchain__proposalBlock_commitTransaction__let_assign
          (mainchain_blockchain__proposalBlock_commitTransaction__let_gasBefore pool) = pool)
  /\ (forall x, mainchain_blockchain__BlockOperations_commitBlock__if_err_ne_nil_5 x = x
                /\ mainchain_blockchain__proposalBlock_commitTransaction__if_err_ne_nil x = x
                /\ mainchain_blockchain__StateProcessor_Process__if_err_ne_nil x = x
                /\ mainchain_blockchain__ApplyTransaction__if_err_ne_nil x = x
                /\ mainchain_blockchain__ApplyTransaction__if_err_ne_nil_2 x = x
                /\ mainchain_blockchain__StateTransition_buyGas__if_err_ne_nil x = x
                /\ mainchain_blockchain__StateTransition_TransitionDb__if_err_ne_nil x = x
                /\ mainchain_blockchain__StateTransition_TransitionDb__if_err_ne_nil_2 x = x
                /\ mainchain_blockchain__StateTransition_preCheck__if_st_msg_CheckNonce x = x
                /\ mainchain_blockchain__StateTransition_TransitionDb__if_contractCreation x = x)
  /\ (forall set g h, mainchain_blockchain__BlockOperations_commitBlock__if_bo_blockchain_chainConfig_GalaxiasBlock_ne_nil_and_mul_bo_bl_57c3e730 set g h = (set && (g =? h))%bool)
  /\ (forall pool, mainchain_blockchain__proposalBlock_commitTransactions__if_pb_gasPool_Gas_lt_configs_TxGas pool = (pool <? tx_gas)
                   /\ mainchain_blockchain__proposalBlock_commitTransactions__if_pb_gasPool_Gas_lt_configs_TxGas_2 pool = (pool <? tx_gas))
  /\ (mainchain_tx_pool__IntrinsicGas__let_gas = tx_gas_contract_creation /\ tx_gas_contract_creation = 53000
      /\ mainchain_tx_pool__IntrinsicGas__let_gas_2 = tx_gas /\ tx_gas = 21000
      /\ mainchain_tx_pool__IntrinsicGas__let_gas_3 = tx_gas_legacy /\ tx_gas_legacy = 29000
      /\ mainchain_tx_pool__IntrinsicGas__let_nonZeroGas = tx_data_non_zero_gas /\ tx_data_non_zero_gas = 68
      /\ tx_data_zero_gas = 4 /\ create_data_gas = 200 /\ max_code_size = 39231 /\ call_create_depth = 1024
      /\ refund_quotient = 2)
  /\ (forall s a v, mainchain_kvm__CanTransfer__ret_db_GetBalance_addr__Cmp_amount_ge_0 (cmp_int (bal s a) v) = can_transfer s a v)
  /\ (forall d, kvm__KVM_Call__if_kvm_depth_gt_int_configs_CallCreateDepth d = (call_create_depth <? d))
  /\ (forall nr, kvm__KVM_Call__if_kvm_depth_gt_int_configs_CallCreateDepth 0 = false
                 /\ kvm__KVM_create__if_kvm_depth_gt_int_configs_CallCreateDepth 0 = false
                 /\ kvm__KVM_Call__if_kvm_vmConfig_NoRecursion_and_kvm_depth_gt_0 nr 0 = false
                 /\ kvm__KVM_create__if_kvm_vmConfig_NoRecursion_and_kvm_depth_gt_0 nr 0 = false)
  /\ (forall d, kvm__KVM_CallCode__if_kvm_depth_gt_int_configs_CallCreateDepth d = kvm__KVM_Call__if_kvm_depth_gt_int_configs_CallCreateDepth d
                /\ kvm__KVM_DelegateCall__if_kvm_depth_gt_int_configs_CallCreateDepth d = kvm__KVM_Call__if_kvm_depth_gt_int_configs_CallCreateDepth d
                /\ kvm__KVM_StaticCall__if_kvm_depth_gt_int_configs_CallCreateDepth d = kvm__KVM_Call__if_kvm_depth_gt_int_configs_CallCreateDepth d
                /\ kvm__KVM_create__if_kvm_depth_gt_int_configs_CallCreateDepth d = kvm__KVM_Call__if_kvm_depth_gt_int_configs_CallCreateDepth d)
  /\ (forall s caller v,
        kvm__KVM_Call__if_value_Sign_ne_0_and_not_kvm_BlockContext_CanTransfer_kvm_Sta_a9cbbd5d (sign_int v) (can_transfer s caller v)
        = (negb (v =? 0) && negb (can_transfer s caller v))%bool)
  /\ (forall ex pre v, kvm__KVM_Call__if_not_kvm_StateDB_Exist_addr ex = negb ex
        /\ kvm__KVM_Call__if_not_isPrecompile_and_value_Sign_eq_0 pre (sign_int v) = (negb pre && (v =? 0))%bool)
  /\ (forall code : list N, kvm__KVM_Call__if_len_code_eq_0 (Z.of_nat (List.length code)) = match code with [] => true | _ => false end)
  /\ (kvm__KVM_Call__let_gas = 0 /\ kvm__KVM_CallCode__let_gas = 0 /\ kvm__KVM_DelegateCall__let_gas = 0 /\ kvm__KVM_StaticCall__let_gas = 0)
  /\ (forall x, kvm__KVM_Call__if_err_ne_nil x = x /\ kvm__KVM_Call__if_err_ne_ErrExecutionReverted x = x
        /\ kvm__KVM_CallCode__if_err_ne_nil x = x /\ kvm__KVM_CallCode__if_err_ne_ErrExecutionReverted x = x
        /\ kvm__KVM_DelegateCall__if_err_ne_nil x = x /\ kvm__KVM_DelegateCall__if_err_ne_ErrExecutionReverted x = x
        /\ kvm__KVM_StaticCall__if_err_ne_nil x = x /\ kvm__KVM_StaticCall__if_err_ne_ErrExecutionReverted x = x
        /\ kvm__KVM_create__if_err_ne_ErrExecutionReverted x = x /\ kvm__KVM_Call__if_isPrecompile x = x
        /\ kvm__KVM_create__if_contract_UseGas_createDataGas x = x)
  /\ (forall can, kvm__KVM_CallCode__if_not_kvm_CanTransfer_kvm_StateDB_caller_Address_value can = negb can)
  /\ (forall s caller v, kvm__KVM_create__if_not_kvm_CanTransfer_kvm_StateDB_caller_Address_value (can_transfer s caller v) = negb (can_transfer s caller v))
  /\ (forall s caller, cr_s0 wrapu64 s caller
        = set_nonce s caller (kvm__KVM_create__arg_nonce_plus_1 (kvm__KVM_create__let_nonce (nonce s caller))))
  /\ (forall s address,
        kvm__KVM_create__if_kvm_StateDB_GetNonce_address_ne_0_or_contractHash_ne_common__1d664e2b
          (nonce s address) (negb (N.eqb (code s address) 0)) (negb (N.eqb (code s address) 0))
        = (negb (nonce s address =? 0) || negb (N.eqb (code s address) 0))%bool)
  /\ (forall (err err1 : vm_err) (retlen g : Z), in_range U64 retlen ->
        let exceeded := max_code_size <? retlen in
        (vm_err_eqb err VOk && negb exceeded)%bool
          = kvm__KVM_create__if_err_eq_nil_and_not_maxCodeSizeExceeded (vm_err_eqb err VOk) (kvm__KVM_create__set_maxCodeSizeExceeded retlen)
        /\ (wrapu64 (retlen * create_data_gas) <=? g)
          = negb (kvm__Contract_UseGas__if_c_Gas_lt_gas g (kvm__KVM_create__set_createDataGas retlen))
        /\ (exceeded || negb (vm_err_eqb err1 VOk))%bool
          = kvm__KVM_create__if_maxCodeSizeExceeded_or_err_ne_nil (kvm__KVM_create__set_maxCodeSizeExceeded retlen) (negb (vm_err_eqb err1 VOk))
        /\ (exceeded && vm_err_eqb err1 VOk)%bool
          = kvm__KVM_create__if_maxCodeSizeExceeded_and_err_eq_nil (kvm__KVM_create__set_maxCodeSizeExceeded retlen) (vm_err_eqb err1 VOk))
  /\ (forall g c, in_range U64 g -> 0 <= c <= g -> kvm__Contract_UseGas__set_Gas_op g c = g - c)
  /\ (forall g r, kvm__opCall__set_gas_op g = wrapu64 (g + 2300) /\ kvm__opCallCode__set_gas_op g = wrapu64 (g + 2300)
        /\ kvm__opCall__set_Gas_op g r = wrapu64 (g + r) /\ kvm__opCallCode__set_Gas_op g r = wrapu64 (g + r)
        /\ kvm__opDelegateCall__set_Gas_op g r = wrapu64 (g + r) /\ kvm__opStaticCall__set_Gas_op g r = wrapu64 (g + r)
        /\ kvm__opCreate__set_Gas_op g r = wrapu64 (g + r) /\ kvm__opCreate2__set_Gas_op g r = wrapu64 (g + r))
  /\ (forall g, in_range U64 g -> kvm__opCreate__set_gas_op g = g - g / 64 /\ 0 <= g - g / 64 <= g).

Lemma C09_source_tie_ext_proof : C09_source_tie_ext.
Proof.
  unfold C09_source_tie_ext.
  split; [exact src_initial_gas|]. split; [exact src_prechecked_nonce|]. split; [exact src_refund_whole|].
  split; [exact src_cumulative|]. split; [exact src_receipt_used|]. split; [exact src_commit_step_pool|].
  split; [exact src_commit_pool_restored|]. split; [exact src_proposal_pool_restored|].
  split; [exact src_loop_error_tests|]. split; [exact src_galaxias_branch|]. split; [exact src_proposal_break|].
  split; [exact src_constants|]. split; [exact src_can_transfer|]. split; [exact src_call_depth|].
  split; [exact src_depth0|]. split; [exact src_depth_same|]. split; [exact src_call_balance|].
  split; [exact src_call_absent|]. split; [exact src_call_nocode|]. split; [exact src_failed_call_gas|].
  split; [exact src_call_error_tests|]. split; [exact src_callcode_balance|]. split; [exact src_create_balance|].
  split; [exact src_create_nonce|]. split; [exact src_create_collision_model|]. split; [exact src_create_decisions|].
  split; [exact src_use_gas_sub|]. split; [exact src_op_gas|]. exact src_op_create_gas.
Qed.

(** ** the whole tie as one statement (quoted by Properties.v) *)
Definition C09_source_tie_statement : Prop :=
  C09_source_tie_core /\ C09_source_tie_ext
  /\ (mainchain_blockchain__StateTransition_buyGas__put_st_initialGas_atoms = ["st.msg.Gas() : uint64"]%string
      /\ mainchain_blockchain__BlockOperations_commitBlock__let_gasBefore_atoms = ["gasPool.Gas() : uint64"]%string
      /\ mainchain_blockchain__proposalBlock_commitTransaction__let_gasBefore_atoms = ["pb.gasPool.Gas() : uint64"]%string
      /\ kvm__KVM_create__set_maxCodeSizeExceeded_atoms = ["len(ret) : int"]%string
      /\ kvm__Contract_UseGas__if_c_Gas_lt_gas_atoms = ["c.Gas : uint64"; "gas : uint64"]%string
      /\ mainchain_kvm__CanTransfer__ret_db_GetBalance_addr__Cmp_amount_ge_0_atoms = ["db.GetBalance(addr).Cmp(amount) : int"]%string).

Lemma C09_source_tie_proof : C09_source_tie_statement.
Proof.
  split; [exact C09_source_tie_core_proof|]. split; [exact C09_source_tie_ext_proof|].
  pose proof src_atoms_ext as H. repeat split; apply H.
Qed.
