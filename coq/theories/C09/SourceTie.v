(** C09 — tie of the model's accounting arithmetic and guards to the Go SOURCE.
    [Generated/C09Source.v] is produced on every check by /verif/go2coq from /repo's working tree:
    every guard / integer expression of StateTransition.buyGas / preCheck / TransitionDb / refundGas /
    gasUsed (mainchain/blockchain/state_processor.go), tx_pool.IntrinsicGas, GasPool.AddGas / SubGas and
    the bodies of lib/math SafeAdd / SafeSub / SafeMul.  The lemmas say that [apply_transaction64] /
    [intrinsic_gas64] of C09/Model.v compute exactly these expressions (uint64 wrap included) on
    exactly these operands. *)
From Coq Require Import List ZArith NArith Bool Lia String.
From Kardia Require Import Base.Int64 Base.GoSem.
From Kardia Require Import Generated.C09Source.
From Kardia Require Import Generated.C09Facts C09.Model.
Import ListNotations.
Local Open Scope Z_scope.

(** big.Int.Cmp / Sign as the Go int they return *)
Definition cmp_int (a b : Z) : Z := match a ?= b with Lt => -1 | Eq => 0 | Gt => 1 end.
Definition sign_int (a : Z) : Z := cmp_int a 0.

Lemma wrapu64_is_wrap z : wrapu64 z = wrap U64 z.
Proof. reflexivity. Qed.

(** ** preCheck: nonce too high / too low *)
Lemma src_nonce_high n mn : mainchain_blockchain__StateTransition_preCheck__if_nonce_lt_st_msg_Nonce n mn = (n <? mn).
Proof. reflexivity. Qed.
Lemma src_nonce_low n mn : mainchain_blockchain__StateTransition_preCheck__if_nonce_gt_st_msg_Nonce n mn = (mn <? n).
Proof. unfold mainchain_blockchain__StateTransition_preCheck__if_nonce_gt_st_msg_Nonce. apply Z.gtb_ltb. Qed.
Lemma src_nonce_atoms :
  mainchain_blockchain__StateTransition_preCheck__if_nonce_lt_st_msg_Nonce_atoms = ["nonce : uint64"; "st.msg.Nonce() : uint64"]%string
  /\ mainchain_blockchain__StateTransition_preCheck__if_nonce_gt_st_msg_Nonce_atoms = ["nonce : uint64"; "st.msg.Nonce() : uint64"]%string.
Proof. split; reflexivity. Qed.

(** ** buyGas: balance.Cmp(gas*price) < 0, pool.SubGas, st.gas += gas *)
Lemma src_funds b mgval : mainchain_blockchain__StateTransition_buyGas__if_st_state_GetBalance_st_msg_From__Cmp_mgval_lt_0 (cmp_int b mgval) = (b <? mgval).
Proof.
  unfold mainchain_blockchain__StateTransition_buyGas__if_st_state_GetBalance_st_msg_From__Cmp_mgval_lt_0, cmp_int, Z.ltb.
  destruct (b ?= mgval); reflexivity.
Qed.
Lemma src_funds_atoms :
  mainchain_blockchain__StateTransition_buyGas__if_st_state_GetBalance_st_msg_From__Cmp_mgval_lt_0_atoms = ["st.state.GetBalance(st.msg.From()).Cmp(mgval) : int"]%string.
Proof. reflexivity. Qed.
Lemma src_gas0 g0 g : mainchain_blockchain__StateTransition_buyGas__set_gas_op g0 g = wrapu64 (g0 + g).
Proof. reflexivity. Qed.
Lemma src_subgas_guard pool amount : in_range U64 pool -> types__GasPool_SubGas__if_uint64_mul_gp_lt_amount pool amount = (pool <? amount).
Proof. intros H. unfold types__GasPool_SubGas__if_uint64_mul_gp_lt_amount, go_conv. rewrite wrap_id by exact H. reflexivity. Qed.
Lemma src_subgas pool amount : in_range U64 pool -> in_range U64 amount -> amount <= pool ->
  types__GasPool_SubGas__assign_op pool amount = pool - amount.
Proof. intros Hp Ha Hle. unfold types__GasPool_SubGas__assign_op, go_sub. apply wrap_id. unfold in_range in *. lia. Qed.

(** ** TransitionDb: intrinsic gas check, value transfer check *)
Lemma src_intrinsic_guard g ig : mainchain_blockchain__StateTransition_TransitionDb__if_st_gas_lt_gas g ig = (g <? ig).
Proof. reflexivity. Qed.
Lemma src_gas1 g ig : mainchain_blockchain__StateTransition_TransitionDb__set_gas_op g ig = wrapu64 (g - ig).
Proof. reflexivity. Qed.
Lemma src_transfer_guard v can :
  mainchain_blockchain__StateTransition_TransitionDb__if_msg_Value__Sign_gt_0_and_not_st_vm_CanTransfer_st_state_msg__a8dc9f8a (sign_int v) can = ((0 <? v) && negb can)%bool.
Proof.
  unfold mainchain_blockchain__StateTransition_TransitionDb__if_msg_Value__Sign_gt_0_and_not_st_vm_CanTransfer_st_state_msg__a8dc9f8a, sign_int, cmp_int. f_equal.
  rewrite Z.gtb_ltb. unfold Z.ltb at 2. rewrite (Z.compare_antisym v 0).
  destruct (v ?= 0); reflexivity.
Qed.
Lemma src_transfer_atoms :
  mainchain_blockchain__StateTransition_TransitionDb__if_msg_Value__Sign_gt_0_and_not_st_vm_CanTransfer_st_state_msg__a8dc9f8a_atoms
  = ["msg.Value().Sign() : int"; "st.vm.CanTransfer(st.state, msg.From(), msg.Value()) : bool"]%string.
Proof. reflexivity. Qed.

(** ** refundGas *)
Lemma src_gas_used i g : mainchain_blockchain__StateTransition_gasUsed__ret_st_initialGas_minus_st_gas i g = wrapu64 (i - g).
Proof. reflexivity. Qed.
Lemma src_gas_used_atoms :
  mainchain_blockchain__StateTransition_gasUsed__ret_st_initialGas_minus_st_gas_atoms = ["st.initialGas : uint64"; "st.gas : uint64"]%string.
Proof. reflexivity. Qed.
Lemma src_refund0 u : in_range U64 u ->
  mainchain_blockchain__StateTransition_refundGas__set_refund u = u / refund_quotient.
Proof.
  intros H. unfold mainchain_blockchain__StateTransition_refundGas__set_refund, go_quot, refund_quotient.
  unfold in_range in H. rewrite Z.quot_div_nonneg by lia. apply wrap_id. unfold in_range.
  pose proof (Z.div_pos u 2). pose proof (Z.div_le_upper_bound u 2 u). lia.
Qed.
Lemma src_refund_cap r0 sr : mainchain_blockchain__StateTransition_refundGas__if_refund_gt_st_state_GetRefund r0 sr = (sr <? r0).
Proof. unfold mainchain_blockchain__StateTransition_refundGas__if_refund_gt_st_state_GetRefund. apply Z.gtb_ltb. Qed.
Lemma src_refund_cap_atoms :
  mainchain_blockchain__StateTransition_refundGas__if_refund_gt_st_state_GetRefund_atoms = ["refund : uint64"; "st.state.GetRefund() : uint64"]%string.
Proof. reflexivity. Qed.
Lemma src_gas3 g r : mainchain_blockchain__StateTransition_refundGas__set_gas_op g r = wrapu64 (g + r).
Proof. reflexivity. Qed.
Lemma src_addgas_guard pool amount : in_range U64 pool -> in_range U64 amount ->
  types__GasPool_AddGas__if_uint64_mul_gp_gt_math_MaxUint64_minus_amount pool amount = (max_u64 - amount <? pool).
Proof.
  intros Hp Ha. unfold types__GasPool_AddGas__if_uint64_mul_gp_gt_math_MaxUint64_minus_amount, go_conv, go_sub, max_u64, two64.
  rewrite (wrap_id U64 pool) by exact Hp.
  rewrite wrap_id by (unfold in_range in *; lia). rewrite Z.gtb_ltb. reflexivity.
Qed.
Lemma src_addgas pool amount : types__GasPool_AddGas__assign_op pool amount = wrapu64 (pool + amount).
Proof. reflexivity. Qed.

(** ** IntrinsicGas *)
Lemma src_ig_nonempty n : mainchain_tx_pool__IntrinsicGas__if_len_data_gt_0 (Z.of_nat n) = (0 <? Z.of_nat n).
Proof. unfold mainchain_tx_pool__IntrinsicGas__if_len_data_gt_0. apply Z.gtb_ltb. Qed.
Lemma src_ig_nz_byte b : mainchain_tx_pool__IntrinsicGas__if_byt_ne_0 (Z.of_N b) = negb (N.eqb b 0).
Proof.
  unfold mainchain_tx_pool__IntrinsicGas__if_byt_ne_0, go_neqb. f_equal.
  destruct (N.eqb_spec b 0); destruct (Z.eqb_spec (Z.of_N b) 0); try reflexivity; lia.
Qed.
Lemma src_ig_nz_overflow gas k nz : in_range U64 gas -> 0 < k ->
  mainchain_tx_pool__IntrinsicGas__if_math_MaxUint64_minus_gas_div_nonZeroGas_lt_nz gas k nz
  = ((max_u64 - gas) / k <? nz).
Proof.
  intros H Hk. unfold mainchain_tx_pool__IntrinsicGas__if_math_MaxUint64_minus_gas_div_nonZeroGas_lt_nz,
    go_quot, go_sub, max_u64, two64. unfold in_range in H.
  rewrite (wrap_id U64 (18446744073709551615 - gas)) by (unfold in_range; lia).
  rewrite Z.quot_div_nonneg by lia.
  rewrite wrap_id; [reflexivity|]. unfold in_range.
  pose proof (Z.div_pos (18446744073709551615 - gas) k ltac:(lia) Hk).
  pose proof (Z.div_le_upper_bound (18446744073709551615 - gas) k (18446744073709551615 - gas) Hk). nia.
Qed.
Lemma src_ig_nz_overflow_atoms :
  mainchain_tx_pool__IntrinsicGas__if_math_MaxUint64_minus_gas_div_nonZeroGas_lt_nz_atoms
  = ["gas : uint64"; "nonZeroGas : uint64"; "nz : uint64"]%string.
Proof. reflexivity. Qed.
Lemma src_ig_gas1 gas nz k : mainchain_tx_pool__IntrinsicGas__set_gas_op gas nz k = wrapu64 (gas + wrapu64 (nz * k)).
Proof. reflexivity. Qed.
Lemma src_ig_z len nz : in_range U64 len -> mainchain_tx_pool__IntrinsicGas__set_z len nz = wrapu64 (wrapu64 len - nz).
Proof. reflexivity. Qed.
Lemma src_ig_z_overflow gas z : in_range U64 gas ->
  mainchain_tx_pool__IntrinsicGas__if_math_MaxUint64_minus_gas_div_configs_TxDataZeroGas_lt_z gas z = ((max_u64 - gas) / tx_data_zero_gas <? z).
Proof.
  intros H. unfold mainchain_tx_pool__IntrinsicGas__if_math_MaxUint64_minus_gas_div_configs_TxDataZeroGas_lt_z, go_quot, go_sub, max_u64, two64, tx_data_zero_gas.
  unfold in_range in H.
  rewrite (wrap_id U64 (18446744073709551615 - gas)) by (unfold in_range; lia).
  rewrite Z.quot_div_nonneg by lia.
  rewrite wrap_id; [reflexivity|]. unfold in_range.
  pose proof (Z.div_pos (18446744073709551615 - gas) 4).
  pose proof (Z.div_le_upper_bound (18446744073709551615 - gas) 4 (18446744073709551615 - gas)). lia.
Qed.
Lemma src_ig_gas2 gas z : mainchain_tx_pool__IntrinsicGas__set_gas_op_2 gas z = wrapu64 (gas + wrapu64 (z * tx_data_zero_gas)).
Proof. reflexivity. Qed.

(** ** lib/math: SafeAdd/SafeSub/SafeMul = exact result mod 2^64 + overflow flag *)
Lemma src_SafeAdd x y : in_range U64 x -> in_range U64 y ->
  lib_math__SafeAdd x y = (wrapu64 (x + y), max_u64 <? x + y).
Proof.
  unfold lib_math__SafeAdd, go_bits_add64, in_range, max_u64, two64. intros Hx Hy. rewrite Z.add_0_r. f_equal.
  unfold go_neqb.
  destruct (Z.ltb_spec (18446744073709551616 - 1) (x + y)) as [Hlt|Hge];
    destruct (Z.eqb_spec ((x + y) / 18446744073709551616) 0) as [He|Hne]; try reflexivity; exfalso.
  - assert (1 <= (x + y) / 18446744073709551616) by (apply Z.div_le_lower_bound; lia). lia.
  - apply Hne. apply Z.div_small. lia.
Qed.
Lemma src_SafeSub x y : in_range U64 x -> in_range U64 y ->
  lib_math__SafeSub x y = (wrapu64 (x - y), x <? y).
Proof.
  unfold lib_math__SafeSub, go_bits_sub64, in_range. intros Hx Hy. rewrite Z.sub_0_r. f_equal.
  unfold go_neqb. destruct (Z.ltb_spec (x - y) 0); destruct (Z.ltb_spec x y); try reflexivity; lia.
Qed.
Lemma src_SafeMul x y : in_range U64 x -> in_range U64 y ->
  lib_math__SafeMul x y = (wrapu64 (x * y), max_u64 <? x * y).
Proof.
  unfold lib_math__SafeMul, go_bits_mul64, in_range, max_u64, two64. intros Hx Hy. f_equal.
  unfold go_neqb.
  destruct (Z.ltb_spec (18446744073709551616 - 1) (x * y)) as [Hlt|Hge];
    destruct (Z.eqb_spec ((x * y) / 18446744073709551616) 0) as [He|Hne]; try reflexivity; exfalso.
  - assert (1 <= (x * y) / 18446744073709551616) by (apply Z.div_le_lower_bound; lia). lia.
  - apply Hne. apply Z.div_small. nia.
Qed.

(** ** the whole tie as one statement (quoted by Properties.v) *)
Definition C09_source_tie_statement : Prop :=
  (forall n mn, mainchain_blockchain__StateTransition_preCheck__if_nonce_lt_st_msg_Nonce n mn = (n <? mn))
  /\ (forall n mn, mainchain_blockchain__StateTransition_preCheck__if_nonce_gt_st_msg_Nonce n mn = (mn <? n))
  /\ (forall b mg, mainchain_blockchain__StateTransition_buyGas__if_st_state_GetBalance_st_msg_From__Cmp_mgval_lt_0 (cmp_int b mg) = (b <? mg))
  /\ (forall g0 g, mainchain_blockchain__StateTransition_buyGas__set_gas_op g0 g = wrapu64 (g0 + g))
  /\ (forall pool a, in_range U64 pool -> types__GasPool_SubGas__if_uint64_mul_gp_lt_amount pool a = (pool <? a))
  /\ (forall pool a, in_range U64 pool -> in_range U64 a -> a <= pool -> types__GasPool_SubGas__assign_op pool a = pool - a)
  /\ (forall g ig, mainchain_blockchain__StateTransition_TransitionDb__if_st_gas_lt_gas g ig = (g <? ig))
  /\ (forall g ig, mainchain_blockchain__StateTransition_TransitionDb__set_gas_op g ig = wrapu64 (g - ig))
  /\ (forall v can, mainchain_blockchain__StateTransition_TransitionDb__if_msg_Value__Sign_gt_0_and_not_st_vm_CanTransfer_st_state_msg__a8dc9f8a (sign_int v) can = ((0 <? v) && negb can)%bool)
  /\ (forall i g, mainchain_blockchain__StateTransition_gasUsed__ret_st_initialGas_minus_st_gas i g = wrapu64 (i - g))
  /\ (forall u, in_range U64 u -> mainchain_blockchain__StateTransition_refundGas__set_refund u = u / refund_quotient)
  /\ (forall r0 sr, mainchain_blockchain__StateTransition_refundGas__if_refund_gt_st_state_GetRefund r0 sr = (sr <? r0))
  /\ (forall g r, mainchain_blockchain__StateTransition_refundGas__set_gas_op g r = wrapu64 (g + r))
  /\ (forall pool a, in_range U64 pool -> in_range U64 a -> types__GasPool_AddGas__if_uint64_mul_gp_gt_math_MaxUint64_minus_amount pool a = (max_u64 - a <? pool))
  /\ (forall pool a, types__GasPool_AddGas__assign_op pool a = wrapu64 (pool + a))
  /\ (forall gas k nz, in_range U64 gas -> 0 < k -> mainchain_tx_pool__IntrinsicGas__if_math_MaxUint64_minus_gas_div_nonZeroGas_lt_nz gas k nz = ((max_u64 - gas) / k <? nz))
  /\ (forall gas nz k, mainchain_tx_pool__IntrinsicGas__set_gas_op gas nz k = wrapu64 (gas + wrapu64 (nz * k)))
  /\ (forall gas z, in_range U64 gas -> mainchain_tx_pool__IntrinsicGas__if_math_MaxUint64_minus_gas_div_configs_TxDataZeroGas_lt_z gas z = ((max_u64 - gas) / tx_data_zero_gas <? z))
  /\ (forall gas z, mainchain_tx_pool__IntrinsicGas__set_gas_op_2 gas z = wrapu64 (gas + wrapu64 (z * tx_data_zero_gas)))
  /\ (forall x y, in_range U64 x -> in_range U64 y -> lib_math__SafeAdd x y = (wrapu64 (x + y), max_u64 <? x + y))
  /\ (forall x y, in_range U64 x -> in_range U64 y -> lib_math__SafeSub x y = (wrapu64 (x - y), x <? y))
  /\ (forall x y, in_range U64 x -> in_range U64 y -> lib_math__SafeMul x y = (wrapu64 (x * y), max_u64 <? x * y))
  /\ (mainchain_blockchain__StateTransition_buyGas__if_st_state_GetBalance_st_msg_From__Cmp_mgval_lt_0_atoms = ["st.state.GetBalance(st.msg.From()).Cmp(mgval) : int"]%string
      /\ mainchain_blockchain__StateTransition_preCheck__if_nonce_lt_st_msg_Nonce_atoms = ["nonce : uint64"; "st.msg.Nonce() : uint64"]%string
      /\ mainchain_blockchain__StateTransition_TransitionDb__if_st_gas_lt_gas_atoms = ["st.gas : uint64"; "gas : uint64"]%string
      /\ mainchain_blockchain__StateTransition_refundGas__set_refund_atoms = ["st.gasUsed() : uint64"]%string
      /\ mainchain_blockchain__StateTransition_refundGas__if_refund_gt_st_state_GetRefund_atoms = ["refund : uint64"; "st.state.GetRefund() : uint64"]%string
      /\ mainchain_blockchain__StateTransition_gasUsed__ret_st_initialGas_minus_st_gas_atoms = ["st.initialGas : uint64"; "st.gas : uint64"]%string).

Lemma C09_source_tie_proof : C09_source_tie_statement.
Proof.
  unfold C09_source_tie_statement.
  split; [exact src_nonce_high|]. split; [exact src_nonce_low|]. split; [exact src_funds|].
  split; [exact src_gas0|]. split; [exact src_subgas_guard|]. split; [exact src_subgas|].
  split; [exact src_intrinsic_guard|]. split; [exact src_gas1|]. split; [exact src_transfer_guard|].
  split; [exact src_gas_used|]. split; [exact src_refund0|]. split; [exact src_refund_cap|].
  split; [exact src_gas3|]. split; [exact src_addgas_guard|]. split; [exact src_addgas|].
  split; [exact src_ig_nz_overflow|]. split; [exact src_ig_gas1|]. split; [exact src_ig_z_overflow|].
  split; [exact src_ig_gas2|]. split; [exact src_SafeAdd|]. split; [exact src_SafeSub|].
  split; [exact src_SafeMul|]. repeat split; reflexivity.
Qed.
