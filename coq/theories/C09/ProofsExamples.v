(** C09 — the hypotheses of the theorems are satisfiable: an interpreter that satisfies
    [ExecOK], and concrete transactions run through the extracted entry points. *)
From Coq Require Import List ZArith NArith Bool Lia.
From Kardia Require Import Base.Int64 C09.Model C09.ProofsBase C09.ProofsVM C09.ProofsTx C09.ProofsNonneg Generated.C09Facts.
Import ListNotations.
Local Open Scope Z_scope.

(** an interpreter that moves 7 from the callee to account 9, burns nothing, uses 100 gas *)
Definition run_ex (s : state) (ci : call_input) : run_output :=
  {| ro_err := VOk; ro_gas := if 100 <=? ci_gas ci then ci_gas ci - 100 else 0;
     ro_retlen := 0; ro_retcode := 0%N; ro_refund := 0; ro_burn := 0;
     ro_writes := [ {| w_addr := ci_addr ci; w_dbal := -7; w_dnonce := 0; w_code := None; w_stor := None; w_dead := false |};
                    {| w_addr := 9%N; w_dbal := 7; w_dnonce := 0; w_code := None; w_stor := None; w_dead := false |} ] |}.

Lemma run_ex_ok : ExecOK run_ex.
Proof.
  constructor; intros; cbn in *; try lia.
  - destruct (100 <=? ci_gas ci) eqn:E; [apply Z.leb_le in E|apply Z.leb_gt in E]; lia.
  - destruct H as [<-|[<-|[]]]; cbn; split; reflexivity.
Qed.

Lemma run_ex_closed U : In 9%N U -> (forall ci : call_input, In (ci_addr ci) U) -> Closed U run_ex.
Proof. intros H9 Ha s ci w [<-|[<-|[]]]; cbn; auto. Qed.

Definition ca_ex (a : N) (n : Z) : N := (1000 + a * 100 + Z.to_N n)%N.
Definition env_ex : env := {| e_coinbase := 3%N; e_galaxias := true; e_gaslimit := 100000 |}.
Definition st_ex : state :=
  mk_state [ (1%N, {| a_bal := 10000000; a_nonce := 5; a_code := 0%N; a_stor := 0%N |});
             (2%N, {| a_bal := 50; a_nonce := 1; a_code := 77%N; a_stor := 0%N |}) ].
(** call into the contract at 2 with value 10, gas 30000 at price 2 *)
Definition msg_ex : msg :=
  {| m_id := 0%N; m_sigok := true; m_from := 1%N; m_to := Some 2%N; m_nonce := 5; m_gas := 30000;
     m_price := 2; m_value := 10; m_data := [1%N; 0%N] |}.

Lemma msg_ex_wf : wf_msg msg_ex.
Proof. constructor; cbn; unfold two64; lia. Qed.

Example ex_executed :
  match apply_transaction64 run_ex ca_ex env_ex st_ex 100000 msg_ex with
  | Executed s' pool' r =>
    x_used r = 21000 + 68 + 4 + 100 /\ pool' = 100000 - 21172 /\ x_failed r = false /\
    nonce s' 1%N = 6 /\ bal s' 1%N = 10000000 - 10 - 21172 * 2 /\ bal s' 2%N = 50 + 10 - 7 /\
    bal s' 9%N = 7 /\ bal s' 3%N = 21172 * 2 /\ x_burnt r = 0
  | _ => False
  end.
Proof. vm_compute. repeat split. Qed.

(** the same transaction with one unit of gas less than intrinsic is rejected after buyGas *)
Example ex_rejected :
  match apply_transaction64 run_ex ca_ex env_ex st_ex 100000
          {| m_id := 1%N; m_sigok := true; m_from := 1%N; m_to := Some 2%N; m_nonce := 5;
             m_gas := 21071; m_price := 2; m_value := 10; m_data := [1%N; 0%N] |} with
  | Rejected EIntrinsic s' pool' => pool' = 100000 - 21071 /\ bal s' 1%N = 10000000 - 21071 * 2
  | _ => False
  end.
Proof. vm_compute. repeat split. Qed.

(** and the block loop gives that gas back *)
Example ex_block :
  let bad := {| m_id := 1%N; m_sigok := true; m_from := 1%N; m_to := Some 2%N; m_nonce := 5;
                m_gas := 21071; m_price := 2; m_value := 10; m_data := [1%N; 0%N] |} in
  let b := commit_block64 run_ex ca_ex env_ex st_ex [bad; msg_ex] in
  b_pool b = 100000 - 21172 /\ b_cum b = 21172 /\ length (b_receipts b) = 1%nat /\ b_panic b = false.
Proof. vm_compute. repeat split. Qed.

(** an interpreter that uses all gas and touches nothing satisfies both contracts *)
Definition run_idle (s : state) (ci : call_input) : run_output :=
  {| ro_err := VOk; ro_gas := 0; ro_retlen := 0; ro_retcode := 0%N; ro_refund := 0; ro_burn := 0;
     ro_writes := [] |}.
Lemma run_idle_ok : ExecOK run_idle.
Proof. constructor; intros; cbn in *; try lia; try contradiction. Qed.
Lemma run_idle_nonneg : RunNonneg run_idle.
Proof. intros s ci H a. exact (H a). Qed.
