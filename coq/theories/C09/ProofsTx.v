(** C09 — one transaction (ApplyTransaction as the code computes it, uint64 wraps included)
    and the block loop: inversion of an executed transaction into exact equations, then
    conservation, gas bounds, pool, nonce, neutrality of rejected transactions. *)
From Coq Require Import List ZArith NArith Bool Lia.
From Kardia Require Import Base.Int64 C09.Model C09.ProofsBase C09.ProofsVM Generated.C09Facts.
Import ListNotations.
Local Open Scope Z_scope.
Ltac Zify.zify_post_hook ::= Z.div_mod_to_equations.

(** side conditions on the source-derived constants (re-proved against Generated/C09Facts.v) *)
Lemma facts_nonneg :
  0 <= tx_gas /\ 0 <= tx_gas_legacy /\ 0 <= tx_gas_contract_creation /\
  0 < tx_data_zero_gas /\ 0 < tx_data_non_zero_gas /\ 0 <= create_data_gas /\ 0 <= max_code_size.
Proof. vm_compute. repeat split; discriminate. Qed.

Lemma refund_quotient_is_2 : refund_quotient = 2.
Proof. reflexivity. Qed.

Lemma wrapu64_nonneg z : 0 <= wrapu64 z.
Proof. unfold wrapu64, two64. pose proof (Z.mod_pos_bound z 18446744073709551616 ltac:(lia)). lia. Qed.

Lemma wrapu64_small z : 0 <= z < two64 -> wrapu64 z = z.
Proof. apply wrapu64_id. Qed.

(** well-formed inputs: the ranges the Go types give, plus "the nonce is not the last uint64" *)
Record wf_msg (m : msg) : Prop := {
  wf_gas : 0 <= m_gas m < two64;
  wf_nonce : 0 <= m_nonce m < two64 - 1;
  wf_price : 0 <= m_price m;
  wf_value : 0 <= m_value m }.

Definition creation (m : msg) : bool := match m_to m with None => true | Some _ => false end.

(** the account that receives the value at depth 0 *)
Definition target (ca : N -> Z -> N) (s : state) (m : msg) : N :=
  match m_to m with Some t => t | None => ca (m_from m) (nonce s (m_from m)) end.

Section Tx.
Variable run : state -> call_input -> run_output.
Variable ca : N -> Z -> N.
Hypothesis OK : ExecOK run.

Lemma intrinsic_nonneg d c l ig : intrinsic_gas wrapu64 d c l = Some ig -> 0 <= ig.
Proof.
  unfold intrinsic_gas. pose proof facts_nonneg as F.
  destruct (0 <? Z.of_nat (length d)).
  - destruct (_ <? _); [discriminate|]. destruct (_ <? _); [discriminate|].
    intros H; inversion H. apply wrapu64_nonneg.
  - intros H; inversion H. destruct c; [lia|]. destruct l; lia.
Qed.

(** *** the VM phase *)
Lemma vm_phase_spec s1 m gas1 s2 gas2 vmerr burn :
  vm_phase wrapu64 run ca s1 m gas1 = (s2, gas2, vmerr, burn) ->
  0 <= gas1 -> 0 <= nonce s1 (m_from m) < two64 - 1 ->
  can_transfer s1 (m_from m) (m_value m) = true ->
  0 <= gas2 <= gas1 /\ 0 <= burn /\
  nonce s2 (m_from m) = nonce s1 (m_from m) + 1 /\
  (0 <= st_refund s1 -> 0 <= st_refund s2) /\
  (~ In (m_from m) (st_dead s1) -> ~ In (m_from m) (st_dead s2)) /\
  (forall U, Closed U run -> incl_dead U s1 -> incl_dead U s2) /\
  (forall U, NoDup U -> Closed U run -> In (m_from m) U -> In (target ca s1 m) U ->
             total U s2 = total U s1 - burn).
Proof.
  unfold vm_phase, target. intros H Hg Hn Hct.
  assert (Hw : wrapu64 (nonce s1 (m_from m) + 1) = nonce s1 (m_from m) + 1)
    by (apply wrapu64_small; lia).
  destruct (m_to m) as [to|].
  - (* call *)
    cbn zeta in H. rewrite Hw in H.
    repeat split.
    + eapply call_gas in H; [lia|exact OK|exact Hg].
    + eapply call_gas in H; [lia|exact OK|exact Hg].
    + eapply call_burn_nonneg; [exact OK|exact H].
    + erewrite call_nonce by (try exact OK; exact H).
      rewrite nonce_set_nonce, N.eqb_refl. reflexivity.
    + intros Hr. eapply call_refund; [exact OK|exact H|exact Hr].
    + eapply (call_dead run OK) in H. apply H.
    + eapply (call_dead run OK) in H. apply H.
    + intros U Hnd Hcl Hf Ht. erewrite call_total by (try exact OK; try exact H; assumption).
      now rewrite total_set_nonce.
  - (* create *)
    repeat split.
    + eapply create_gas in H; [lia|exact OK|apply wrapu64_nonneg|exact Hg].
    + eapply create_gas in H; [lia|exact OK|apply wrapu64_nonneg|exact Hg].
    + eapply create_burn_nonneg; [exact OK|exact H].
    + erewrite create_nonce; [exact Hw|exact OK|exact H|exact Hct|rewrite Hw; lia].
    + intros Hr. eapply create_refund; [exact OK|exact H|exact Hr].
    + eapply (create_dead run OK wrapu64) in H. apply H.
    + eapply (create_dead run OK wrapu64) in H. apply H.
    + intros U Hnd Hcl Hf Ht. eapply create_total; [exact OK|exact H|assumption..].
Qed.

(** *** inversion of an executed transaction *)
Definition refund_of (s2 : state) (m : msg) (gas2 : Z) : Z :=
  let refund0 := (m_gas m - gas2) / refund_quotient in
  if st_refund s2 <? refund0 then st_refund s2 else refund0.

Lemma tx_inv e s pool m s' pool' r :
  wf_msg m -> 0 <= pool < two64 -> 0 <= st_refund s ->
  apply_transaction wrapu64 run ca e s pool m = Executed s' pool' r ->
  exists ig s2 gas2 vmerr burn,
    let from := m_from m in
    let s1 := sub_bal s from (m_gas m * m_price m) in
    let refund := refund_of s2 m gas2 in
    let gas3 := gas2 + refund in
    let used := m_gas m - gas3 in
    let s4 := add_bal (add_bal s2 from (gas3 * m_price m)) (e_coinbase e) (used * m_price m) in
    m_sigok m = true /\ nonce s from = m_nonce m /\
    m_gas m * m_price m <= bal s from /\ m_gas m <= pool /\
    intrinsic_gas wrapu64 (m_data m) (creation m) (negb (e_galaxias e)) = Some ig /\
    0 <= ig <= m_gas m /\ m_value m <= bal s1 from /\
    vm_phase wrapu64 run ca s1 m (m_gas m - ig) = (s2, gas2, vmerr, burn) /\
    0 <= gas2 <= m_gas m - ig /\ 0 <= refund /\ 2 * refund <= m_gas m - gas2 /\
    refund <= st_refund s2 /\
    s' = fst (finalise s4) /\ pool' = pool - used /\
    r = {| x_failed := negb (vm_err_eqb vmerr VOk); x_vmerr := vmerr; x_used := used;
           x_vmgas := m_gas m - ig; x_vmleft := gas2; x_refund := refund;
           x_burnt := burn + snd (finalise s4) |}.
Proof.
  intros [Hgas Hnonce Hprice Hvalue] Hpool Hrefund. unfold apply_transaction.
  destruct (m_sigok m) eqn:Hsig; cbn [negb]; [|discriminate].
  destruct (nonce s (m_from m) <? m_nonce m) eqn:Hn1; [discriminate|].
  destruct (m_nonce m <? nonce s (m_from m)) eqn:Hn2; [discriminate|].
  apply Z.ltb_ge in Hn1, Hn2.
  destruct (bal s (m_from m) <? m_gas m * m_price m) eqn:Hfunds; [discriminate|].
  apply Z.ltb_ge in Hfunds.
  destruct (pool <? m_gas m) eqn:Hpl; [discriminate|]. apply Z.ltb_ge in Hpl.
  fold (creation m).
  destruct (intrinsic_gas wrapu64 (m_data m) (creation m) (negb (e_galaxias e))) as [ig|] eqn:Hig;
    [|discriminate].
  pose proof (intrinsic_nonneg _ _ _ _ Hig) as Hig0.
  replace (wrapu64 (0 + m_gas m)) with (m_gas m) by (rewrite wrapu64_small; lia).
  destruct (m_gas m <? ig) eqn:Hlow; [discriminate|]. apply Z.ltb_ge in Hlow.
  rewrite (wrapu64_small (m_gas m - ig)) by lia.
  set (s1 := sub_bal s (m_from m) (m_gas m * m_price m)).
  assert (Hbal1 : bal s1 (m_from m) = bal s (m_from m) - m_gas m * m_price m).
  { unfold s1. rewrite bal_sub_bal, N.eqb_refl. reflexivity. }
  destruct ((0 <? m_value m) && negb (can_transfer s1 (m_from m) (m_value m))) eqn:Hval;
    [discriminate|].
  assert (Hct : can_transfer s1 (m_from m) (m_value m) = true).
  { destruct (0 <? m_value m) eqn:Hv0; cbn [andb] in Hval.
    - now apply negb_false_iff in Hval.
    - apply Z.ltb_ge in Hv0. unfold can_transfer. apply negb_true_iff, Z.ltb_ge. lia. }
  assert (Hvle : m_value m <= bal s1 (m_from m)).
  { unfold can_transfer in Hct. apply negb_true_iff, Z.ltb_ge in Hct. exact Hct. }
  destruct (vm_phase wrapu64 run ca s1 m (m_gas m - ig)) as [[[s2 gas2] vmerr] burn] eqn:Hvm.
  assert (Hn1' : 0 <= nonce s1 (m_from m) < two64 - 1).
  { unfold s1. rewrite nonce_sub_bal. lia. }
  destruct (vm_phase_spec _ _ _ _ _ _ _ Hvm ltac:(lia) Hn1' Hct) as (Hg2 & Hb & _ & Hr2 & _ & _ & _).
  specialize (Hr2 Hrefund).
  rewrite (wrapu64_small (m_gas m - gas2)) by lia.
  fold (refund_of s2 m gas2).
  assert (Hrf : 0 <= refund_of s2 m gas2 /\ 2 * refund_of s2 m gas2 <= m_gas m - gas2
                /\ refund_of s2 m gas2 <= st_refund s2).
  { unfold refund_of. rewrite refund_quotient_is_2.
    destruct (st_refund s2 <? (m_gas m - gas2) / 2) eqn:Hc;
      [apply Z.ltb_lt in Hc|apply Z.ltb_ge in Hc]; lia. }
  destruct Hrf as (Hrf0 & Hrf2 & Hrf3).
  rewrite (wrapu64_small (gas2 + refund_of s2 m gas2)) by lia.
  destruct (max_u64 - (gas2 + refund_of s2 m gas2) <? pool - m_gas m) eqn:Hpanic.
  { apply Z.ltb_lt in Hpanic. unfold max_u64 in Hpanic. lia. }
  rewrite (wrapu64_small (pool - m_gas m + (gas2 + refund_of s2 m gas2))) by lia.
  rewrite (wrapu64_small (m_gas m - (gas2 + refund_of s2 m gas2))) by lia.
  destruct (finalise _) as [s5 destroyed] eqn:Hfin.
  intros H. inversion H; subst s' pool' r; clear H.
  exists ig, s2, gas2, vmerr, burn. cbn zeta. fold s1. rewrite Hfin. cbn [fst snd].
  repeat split; try lia; try assumption; try reflexivity.
Qed.

(* ------------------------------------------------------------------ *)
(** * Theorems about one executed transaction *)

Section Executed.
Variables (e : env) (s : state) (pool : Z) (m : msg) (s' : state) (pool' : Z) (r : receipt).
Hypothesis Hm : wf_msg m.
Hypothesis Hpool : 0 <= pool < two64.
Hypothesis Hrefund : st_refund s = 0.
Hypothesis Hdead : st_dead s = [].
Hypothesis Hex : apply_transaction wrapu64 run ca e s pool m = Executed s' pool' r.

Lemma Hrefund0 : 0 <= st_refund s.
Proof. rewrite Hrefund. lia. Qed.

Lemma executed_gas_bounds :
  0 <= x_used r <= m_gas m /\
  0 <= x_refund r /\ 2 * x_refund r <= x_used r + x_refund r /\
  x_used r + x_refund r = m_gas m - x_vmleft r /\
  0 <= x_vmleft r <= x_vmgas r /\ x_vmgas r <= m_gas m.
Proof.
  destruct (tx_inv e s pool m s' pool' r Hm Hpool Hrefund0 Hex)
    as (ig & s2 & gas2 & vmerr & burn & H). cbn zeta in H.
  destruct H as (_ & _ & _ & _ & _ & Hig & _ & _ & Hg2 & Hr0 & Hr2 & _ & _ & _ & ->).
  cbn [x_used x_refund x_vmleft x_vmgas]. lia.
Qed.

Lemma executed_pool : pool' = pool - x_used r /\ 0 <= pool' < two64.
Proof.
  destruct (tx_inv e s pool m s' pool' r Hm Hpool Hrefund0 Hex)
    as (ig & s2 & gas2 & vmerr & burn & H). cbn zeta in H.
  destruct H as (_ & _ & _ & Hpl & _ & Hig & _ & _ & Hg2 & Hr0 & Hr2 & _ & _ & -> & ->).
  cbn [x_used]. lia.
Qed.

(** facts about the state after the VM phase that several theorems need *)
Lemma executed_decompose :
  exists ig s2 gas2 vmerr burn,
    let from := m_from m in
    let s1 := sub_bal s from (m_gas m * m_price m) in
    let gas3 := gas2 + x_refund r in
    let s4 := add_bal (add_bal s2 from (gas3 * m_price m)) (e_coinbase e) (x_used r * m_price m) in
    nonce s from = m_nonce m /\
    vm_phase wrapu64 run ca s1 m (m_gas m - ig) = (s2, gas2, vmerr, burn) /\
    0 <= ig <= m_gas m /\ x_vmgas r = m_gas m - ig /\ x_vmleft r = gas2 /\
    x_used r = m_gas m - gas3 /\
    0 <= burn /\ nonce s2 from = nonce s from + 1 /\
    ~ In from (st_dead s2) /\
    (forall U, Closed U run -> incl_dead U s2) /\
    (forall U, NoDup U -> Closed U run -> In from U -> In (target ca s m) U ->
               total U s2 = total U s - m_gas m * m_price m - burn) /\
    s' = fst (finalise s4) /\ x_burnt r = burn + snd (finalise s4).
Proof.
  destruct (tx_inv e s pool m s' pool' r Hm Hpool Hrefund0 Hex)
    as (ig & s2 & gas2 & vmerr & burn & H). cbn zeta in H.
  destruct H as (_ & Hn & Hf & _ & _ & Hig & Hv & Hvm & Hg2 & _ & _ & _ & Hs' & _ & Hr).
  exists ig, s2, gas2, vmerr, burn. cbn zeta.
  set (s1 := sub_bal s (m_from m) (m_gas m * m_price m)) in *.
  assert (Hn1 : nonce s1 (m_from m) = nonce s (m_from m)) by (unfold s1; apply nonce_sub_bal).
  assert (Hct : can_transfer s1 (m_from m) (m_value m) = true).
  { unfold can_transfer. apply negb_true_iff, Z.ltb_ge. exact Hv. }
  destruct Hm as [_ Hnon _ _].
  assert (Hnr : 0 <= nonce s1 (m_from m) < two64 - 1) by (rewrite Hn1, Hn; lia).
  destruct (vm_phase_spec _ _ _ _ _ _ _ Hvm ltac:(lia) Hnr Hct)
    as (_ & Hb & Hn2 & _ & Hd1 & Hd2 & Htot).
  assert (Hdead1 : st_dead s1 = []) by (unfold s1; rewrite dead_sub_bal; exact Hdead).
  rewrite Hr. cbn [x_refund x_used x_vmgas x_vmleft x_burnt].
  repeat split; try assumption; try lia.
  - apply Hd1. rewrite Hdead1. intros [].
  - intros U Hcl. apply Hd2; [exact Hcl|]. intros a Ha. rewrite Hdead1 in Ha. destruct Ha.
  - intros U Hnd Hcl Hfu Htu.
    rewrite (Htot U Hnd Hcl Hfu).
    + unfold s1. rewrite total_sub_bal by assumption. lia.
    + unfold target in *. destruct (m_to m); [exact Htu|].
      unfold s1. rewrite nonce_sub_bal. exact Htu.
Qed.

Lemma executed_nonce : nonce s' (m_from m) = nonce s (m_from m) + 1 /\ nonce s (m_from m) = m_nonce m.
Proof.
  destruct executed_decompose as (ig & s2 & gas2 & vmerr & burn & H). cbn zeta in H.
  destruct H as (Hn & _ & _ & _ & _ & _ & _ & Hn2 & Hnd & _ & _ & -> & _).
  split; [|exact Hn].
  unfold nonce at 1. rewrite finalise_get_notin.
  - fold (nonce (add_bal (add_bal s2 (m_from m) ((gas2 + x_refund r) * m_price m)) (e_coinbase e)
                   (x_used r * m_price m)) (m_from m)).
    rewrite !nonce_add_bal. exact Hn2.
  - rewrite !dead_add_bal. exact Hnd.
Qed.

(** conservation: the balance sum over any universe that contains every account involved
    changes by exactly minus what self-destructs destroyed *)
Lemma executed_conservation U :
  NoDup U -> Closed U run ->
  In (m_from m) U -> In (target ca s m) U -> In (e_coinbase e) U ->
  total U s' = total U s - x_burnt r.
Proof.
  intros Hnd Hcl Hf Ht Hc.
  destruct executed_decompose as (ig & s2 & gas2 & vmerr & burn & H). cbn zeta in H.
  destruct H as (_ & _ & _ & _ & _ & Hu & _ & _ & _ & Hd2 & Htot & -> & ->).
  rewrite total_finalise; [|exact Hnd|].
  - rewrite !total_add_bal by assumption. rewrite (Htot U Hnd Hcl Hf Ht). rewrite Hu. lia.
  - intros a Ha. rewrite !dead_add_bal in Ha. apply (Hd2 U Hcl). exact Ha.
Qed.

(** where the gas money goes: apart from what the VM phase did, the sender gets back the unused
    gas, the proposer gets used*price, and the two add up to the gas*price taken by buyGas *)
Lemma executed_fee_flow :
  exists ig s2 gas2 vmerr burn,
    let from := m_from m in
    let s1 := sub_bal s from (m_gas m * m_price m) in
    vm_phase wrapu64 run ca s1 m (m_gas m - ig) = (s2, gas2, vmerr, burn) /\
    x_vmerr r = vmerr /\ x_failed r = negb (vm_err_eqb vmerr VOk) /\
    (forall a, ~ In a (st_dead s2) ->
       bal s' a = bal s2 a + (if N.eqb a from then (m_gas m - x_used r) * m_price m else 0)
                           + (if N.eqb a (e_coinbase e) then x_used r * m_price m else 0)) /\
    (forall a, In a (st_dead s2) -> get s' a = empty_account).
Proof.
  destruct (tx_inv e s pool m s' pool' r Hm Hpool Hrefund0 Hex)
    as (ig & s2 & gas2 & vmerr & burn & H). cbn zeta in H.
  destruct H as (_ & _ & _ & _ & _ & _ & _ & Hvm & _ & _ & _ & _ & Hs' & _ & Hr).
  exists ig, s2, gas2, vmerr, burn. cbn zeta. rewrite Hr. cbn [x_vmerr x_failed x_used].
  repeat split; try assumption.
  - intros a Ha. rewrite Hs'. unfold bal at 1. rewrite finalise_get_notin by (rewrite !dead_add_bal; exact Ha).
    match goal with |- a_bal (get ?st a) = _ => change (a_bal (get st a)) with (bal st a) end.
    rewrite !bal_add_bal.
    replace (m_gas m - (m_gas m - (gas2 + refund_of s2 m gas2))) with (gas2 + refund_of s2 m gas2) by lia.
    destruct (N.eqb_spec a (e_coinbase e)) as [->|]; destruct (N.eqb_spec (e_coinbase e) (m_from m)) as [Heq|];
      try rewrite Heq; rewrite ?N.eqb_refl;
      try (destruct (N.eqb_spec a (m_from m)) as [->|]); try congruence; try lia.
  - intros a Ha. rewrite Hs'.
    set (s4 := add_bal _ _ _).
    assert (Hd4 : In a (st_dead s4)) by (unfold s4; rewrite !dead_add_bal; exact Ha).
    clearbody s4. unfold finalise. cbn [fst]. unfold get at 1. cbn [st_acc].
    change (get (fst (fold_left kill (st_dead s4) (s4, 0))) a = empty_account).
    generalize 0. generalize dependent s4. intros s4. generalize (st_dead s4) as l.
    intros l. revert s4. induction l as [|c l IH]; intros s4 Hd z; [destruct Hd|].
    cbn [fold_left]. change (kill (s4, z) c) with (upd s4 c empty_account, z + bal s4 c).
    destruct (in_dec N.eq_dec a l) as [Hin|Hnin].
    + apply IH. exact Hin.
    + rewrite kill_fold_acc_notin by exact Hnin.
      destruct Hd as [->|Hd]; [apply get_upd_eq|contradiction].
Qed.

End Executed.
(** *** a plain value transfer (recipient without code, not a precompile), exactly *)
Lemma plain_transfer_exact e s pool m t s' pool' r :
  wf_msg m -> 0 <= pool < two64 -> st_refund s = 0 -> st_dead s = [] ->
  m_to m = Some t -> code s t = 0%N -> is_precompile t = false ->
  apply_transaction wrapu64 run ca e s pool m = Executed s' pool' r ->
  exists ig, intrinsic_gas wrapu64 (m_data m) false (negb (e_galaxias e)) = Some ig /\
    x_used r = ig /\ x_failed r = false /\ x_refund r = 0 /\ x_burnt r = 0 /\ pool' = pool - ig /\
    forall a, bal s' a = bal s a
                         - (if N.eqb a (m_from m) then m_value m + ig * m_price m else 0)
                         + (if N.eqb a t then m_value m else 0)
                         + (if N.eqb a (e_coinbase e) then ig * m_price m else 0).
Proof.
  intros Hm Hpool Hrefund Hdead Hto Hcode Hpre Hex.
  destruct (tx_inv e s pool m s' pool' r Hm Hpool ltac:(rewrite Hrefund; lia) Hex)
    as (ig & s2 & gas2 & vmerr & burn & H). cbn zeta in H.
  destruct H as (_ & _ & _ & _ & Hig & Higb & Hv & Hvm & _ & _ & _ & _ & Hs' & Hp' & Hr).
  unfold creation in Hig. rewrite Hto in Hig.
  exists ig. split; [exact Hig|].
  (* compute the VM phase *)
  unfold vm_phase in Hvm. rewrite Hto in Hvm. cbn zeta in Hvm. unfold call in Hvm.
  set (s1 := sub_bal s (m_from m) (m_gas m * m_price m)) in *.
  set (s1' := set_nonce s1 (m_from m) _) in *.
  assert (Hct : can_transfer s1' (m_from m) (m_value m) = true).
  { unfold can_transfer. apply negb_true_iff, Z.ltb_ge. unfold s1'. rewrite bal_set_nonce. exact Hv. }
  rewrite Hct in Hvm. rewrite andb_false_r in Hvm.
  assert (Hc : code (transfer s1' (m_from m) t (m_value m)) t = 0%N).
  { rewrite code_transfer. unfold s1'. rewrite code_set_nonce. unfold s1. rewrite code_sub_bal. exact Hcode. }
  rewrite Hpre, Hc in Hvm. cbn [N.eqb negb orb] in Hvm.
  inversion Hvm; subst s2 gas2 vmerr burn; clear Hvm.
  assert (Hrf : refund_of (transfer s1' (m_from m) t (m_value m)) m (m_gas m - ig) = 0).
  { unfold refund_of. rewrite refund_transfer. unfold s1'. rewrite refund_set_nonce. unfold s1.
    rewrite refund_sub_bal, Hrefund. rewrite refund_quotient_is_2.
    destruct (0 <? (m_gas m - (m_gas m - ig)) / 2) eqn:Hc0; [reflexivity|]. apply Z.ltb_ge in Hc0. lia. }
  rewrite Hrf in *.
  rewrite finalise_nodead in Hs', Hr
    by (rewrite !dead_add_bal, dead_transfer; unfold s1'; rewrite dead_set_nonce; unfold s1;
        rewrite dead_sub_bal; exact Hdead).
  cbn [fst snd] in Hs', Hr. rewrite Hr. cbn [x_used x_failed x_refund x_burnt vm_err_eqb negb].
  repeat split; try lia.
  intros a. rewrite Hs'. unfold bal at 1, get at 1. cbn [st_acc].
  match goal with |- a_bal (st_acc ?st a) = _ => change (a_bal (st_acc st a)) with (bal st a) end.
  unfold s1', s1.
  repeat rewrite ?bal_add_bal, ?bal_transfer, ?bal_set_nonce, ?bal_sub_bal.
  repeat match goal with |- context [N.eqb ?x ?y] =>
    destruct (N.eqb_spec x y); try congruence end; subst;
  repeat match goal with H : e_coinbase e = _ |- _ => rewrite H in *; clear H end; try lia.
Qed.

(** *** why a transaction is rejected *)
Lemma rejected_reason e s pool m er sx px :
  apply_transaction wrapu64 run ca e s pool m = Rejected er sx px ->
  match er with
  | ESig => m_sigok m = false
  | ENonceHigh => nonce s (m_from m) < m_nonce m
  | ENonceLow => m_nonce m < nonce s (m_from m)
  | EFunds => bal s (m_from m) < m_gas m * m_price m
  | EGasLimit => pool < m_gas m
  | EGasOverflow => intrinsic_gas wrapu64 (m_data m) (creation m) (negb (e_galaxias e)) = None
  | EIntrinsic => exists ig, intrinsic_gas wrapu64 (m_data m) (creation m) (negb (e_galaxias e)) = Some ig
                             /\ wrapu64 (0 + m_gas m) < ig
  | EFundsTransfer => bal s (m_from m) - m_gas m * m_price m < m_value m
  end.
Proof.
  unfold apply_transaction. fold (creation m).
  destruct (m_sigok m) eqn:Hsig; cbn [negb]; [|intros H; inversion H; reflexivity].
  destruct (nonce s (m_from m) <? m_nonce m) eqn:Hn1; [intros H; inversion H; subst; cbn; apply Z.ltb_lt; assumption|].
  destruct (m_nonce m <? nonce s (m_from m)) eqn:Hn2; [intros H; inversion H; subst; cbn; apply Z.ltb_lt; assumption|].
  destruct (bal s (m_from m) <? m_gas m * m_price m) eqn:Hf; [intros H; inversion H; subst; cbn; apply Z.ltb_lt; assumption|].
  destruct (pool <? m_gas m) eqn:Hp; [intros H; inversion H; subst; cbn; apply Z.ltb_lt; assumption|].
  destruct (intrinsic_gas wrapu64 (m_data m) (creation m) (negb (e_galaxias e))) as [ig|] eqn:Hig;
    [|intros H; inversion H; reflexivity].
  destruct (wrapu64 (0 + m_gas m) <? ig) eqn:Hlow;
    [intros H; inversion H; subst; cbn; exists ig; split; [reflexivity|apply Z.ltb_lt; assumption]|].
  destruct ((0 <? m_value m) && negb (can_transfer _ (m_from m) (m_value m))) eqn:Hv.
  - intros H; inversion H. apply andb_true_iff in Hv. destruct Hv as [_ Hv].
    apply negb_true_iff in Hv. unfold can_transfer in Hv. apply negb_false_iff, Z.ltb_lt in Hv.
    rewrite bal_sub_bal, N.eqb_refl in Hv. exact Hv.
  - destruct (vm_phase _ _ _ _ _ _) as [[[s2 g2] ve] bu].
    match goal with |- (if ?c then Panicked else _) = _ -> _ => destruct c; [discriminate|] end.
    destruct (finalise _). discriminate.
Qed.

(* ------------------------------------------------------------------ *)
(** * The block loop *)

Lemma commit_txs_app W e b l1 l2 :
  commit_txs W run ca e b (l1 ++ l2) = commit_txs W run ca e (commit_txs W run ca e b l1) l2.
Proof. unfold commit_txs. apply fold_left_app. Qed.

(** a rejected transaction is as if it had not been in the block: state (all accounts), pool,
    cumulative gas and receipts of everything that follows are the same *)
Lemma rejected_neutral W e b txs1 bad txs2 :
  (exists er sx px,
     apply_transaction W run ca e (b_state (commit_txs W run ca e b txs1))
       (b_pool (commit_txs W run ca e b txs1)) bad = Rejected er sx px) ->
  commit_txs W run ca e b (txs1 ++ bad :: txs2) = commit_txs W run ca e b (txs1 ++ txs2).
Proof.
  intros (er & sx & px & H). rewrite !commit_txs_app.
  set (b1 := commit_txs W run ca e b txs1) in *.
  change (commit_txs W run ca e b1 (bad :: txs2))
    with (commit_txs W run ca e (commit_step W run ca e b1 bad) txs2).
  replace (commit_step W run ca e b1 bad) with b1; [reflexivity|].
  unfold commit_step. rewrite H. destruct (b_panic b1); reflexivity.
Qed.

(** block invariant: no panic, pool + gas used = block gas limit, the state is at a transaction
    boundary (refund counter 0, nobody marked suicided), the balance sum moved by the burns only *)
Definition burnt_of (rs : list (N * Z * receipt)) : Z :=
  fold_right (fun x acc => x_burnt (snd x) + acc) 0 rs.

Record block_inv (e : env) (U : list N) (s0 : state) (b : bstate) : Prop := {
  bi_panic : b_panic b = false;
  bi_pool : 0 <= b_pool b /\ b_pool b + b_cum b = e_gaslimit e;
  bi_cum : 0 <= b_cum b;
  bi_refund : st_refund (b_state b) = 0;
  bi_dead : st_dead (b_state b) = [];
  bi_total : total U (b_state b) = total U s0 - burnt_of (b_receipts b) }.

Lemma commit_step_inv e U s0 b m :
  0 <= e_gaslimit e < two64 -> NoDup U -> Closed U run ->
  wf_msg m -> In (m_from m) U -> In (e_coinbase e) U ->
  (forall s, In (target ca s m) U) ->
  block_inv e U s0 b -> block_inv e U s0 (commit_step wrapu64 run ca e b m).
Proof.
  intros Hgl Hnd Hcl Hm Hf Hc Ht [Hpa [Hp0 Hpc] Hc0 Hrf Hdd Htot].
  unfold commit_step. rewrite Hpa.
  destruct (apply_transaction wrapu64 run ca e (b_state b) (b_pool b) m) as [er sx px|s' pool' r|] eqn:Hap.
  - constructor; auto.
  - assert (Hpool : 0 <= b_pool b < two64) by lia.
    destruct (executed_pool e _ _ m s' pool' r Hm Hpool Hrf Hap) as [Hp' Hp'r].
    destruct (executed_gas_bounds e _ _ m s' pool' r Hm Hpool Hrf Hap) as (Hu & _).
    pose proof (executed_conservation e _ _ m s' pool' r Hm Hpool Hrf Hdd Hap U Hnd Hcl Hf (Ht _) Hc) as Hcons.
    destruct (tx_inv e _ _ m s' pool' r Hm Hpool ltac:(rewrite Hrf; lia) Hap)
      as (ig & s2 & gas2 & vmerr & burn & H). cbn zeta in H.
    destruct H as (_ & _ & _ & _ & _ & _ & _ & _ & _ & _ & _ & _ & Hs' & _ & _).
    rewrite (wrapu64_small (b_cum b + x_used r)) by lia.
    constructor; cbn [b_panic b_pool b_cum b_state b_receipts]; try reflexivity; try lia.
    + rewrite Hs'. reflexivity.
    + rewrite Hs'. reflexivity.
    + change (burnt_of ((m_id m, b_cum b + x_used r, r) :: b_receipts b))
        with (x_burnt r + burnt_of (b_receipts b)). lia.
  - exfalso.
    (* Panicked is impossible: re-run the inversion up to the AddGas check *)
    revert Hap. unfold apply_transaction.
    destruct Hm as [Hgas Hnonce Hprice Hvalue].
    destruct (m_sigok m); cbn [negb]; [|discriminate].
    destruct (nonce (b_state b) (m_from m) <? m_nonce m) eqn:Hn1; [discriminate|].
    destruct (m_nonce m <? nonce (b_state b) (m_from m)) eqn:Hn2; [discriminate|].
    apply Z.ltb_ge in Hn1, Hn2.
    destruct (bal (b_state b) (m_from m) <? m_gas m * m_price m) eqn:Hfunds; [discriminate|].
    apply Z.ltb_ge in Hfunds.
    destruct (b_pool b <? m_gas m) eqn:Hpl; [discriminate|]. apply Z.ltb_ge in Hpl.
    fold (creation m).
    destruct (intrinsic_gas wrapu64 (m_data m) (creation m) (negb (e_galaxias e))) as [ig|] eqn:Hig;
      [|discriminate].
    pose proof (intrinsic_nonneg _ _ _ _ Hig) as Hig0.
    replace (wrapu64 (0 + m_gas m)) with (m_gas m) by (rewrite wrapu64_small; lia).
    destruct (m_gas m <? ig) eqn:Hlow; [discriminate|]. apply Z.ltb_ge in Hlow.
    rewrite (wrapu64_small (m_gas m - ig)) by lia.
    set (s1 := sub_bal (b_state b) (m_from m) (m_gas m * m_price m)).
    destruct ((0 <? m_value m) && negb (can_transfer s1 (m_from m) (m_value m))) eqn:Hval;
      [discriminate|].
    assert (Hct : can_transfer s1 (m_from m) (m_value m) = true).
    { destruct (0 <? m_value m) eqn:Hv0; cbn [andb] in Hval.
      - now apply negb_false_iff in Hval.
      - apply Z.ltb_ge in Hv0. unfold can_transfer. apply negb_true_iff, Z.ltb_ge.
        unfold s1. rewrite bal_sub_bal, N.eqb_refl. lia. }
    destruct (vm_phase wrapu64 run ca s1 m (m_gas m - ig)) as [[[s2 gas2] vmerr] burn] eqn:Hvm.
    assert (Hn1' : 0 <= nonce s1 (m_from m) < two64 - 1) by (unfold s1; rewrite nonce_sub_bal; lia).
    destruct (vm_phase_spec _ _ _ _ _ _ _ Hvm ltac:(lia) Hn1' Hct) as (Hg2 & _ & _ & Hr2 & _).
    assert (Hr2' : 0 <= st_refund s2) by (apply Hr2; unfold s1; rewrite refund_sub_bal, Hrf; lia).
    rewrite (wrapu64_small (m_gas m - gas2)) by lia.
    fold (refund_of s2 m gas2).
    assert (Hrfb : 0 <= refund_of s2 m gas2 /\ 2 * refund_of s2 m gas2 <= m_gas m - gas2).
    { unfold refund_of. rewrite refund_quotient_is_2.
      destruct (st_refund s2 <? (m_gas m - gas2) / 2) eqn:Hcc;
        [apply Z.ltb_lt in Hcc|apply Z.ltb_ge in Hcc]; lia. }
    rewrite (wrapu64_small (gas2 + refund_of s2 m gas2)) by lia.
    destruct (max_u64 - (gas2 + refund_of s2 m gas2) <? b_pool b - m_gas m) eqn:Hpanic.
    + apply Z.ltb_lt in Hpanic. unfold max_u64 in Hpanic. lia.
    + destruct (finalise _). discriminate.
Qed.

Lemma commit_txs_inv e U s0 txs b :
  0 <= e_gaslimit e < two64 -> NoDup U -> Closed U run -> In (e_coinbase e) U ->
  (forall m, In m txs -> wf_msg m /\ In (m_from m) U /\ forall s, In (target ca s m) U) ->
  block_inv e U s0 b -> block_inv e U s0 (commit_txs wrapu64 run ca e b txs).
Proof.
  intros Hgl Hnd Hcl Hc. revert b. induction txs as [|m txs IH]; intros b Hall Hb; [exact Hb|].
  change (commit_txs wrapu64 run ca e b (m :: txs))
    with (commit_txs wrapu64 run ca e (commit_step wrapu64 run ca e b m) txs).
  apply IH; [intros m' Hm'; apply Hall; right; exact Hm'|].
  destruct (Hall m (or_introl eq_refl)) as (Hm & Hf & Ht).
  now apply commit_step_inv.
Qed.

Lemma block_start_inv e U s :
  0 <= e_gaslimit e -> st_refund s = 0 -> st_dead s = [] -> block_inv e U s (block_start e s).
Proof.
  intros. constructor; cbn; try reflexivity; try assumption; try lia.
Qed.

End Tx.
