(** C09 — executable model of transaction execution accounting:

      mainchain/blockchain/state_processor.go   ApplyTransaction, StateTransition
                                                 (preCheck, buyGas, TransitionDb, refundGas, gasUsed)
      mainchain/blockchain/block_operations.go  commitBlock's transaction loop (after fix 5c78105)
      types/gas_pool.go                          GasPool.AddGas / SubGas
      mainchain/tx_pool/tx_pool_utils.go         IntrinsicGas
      kvm/kvm.go                                 KVM.Call / KVM.create at depth 0 (transfer, snapshot,
                                                 revert on error, code deposit)
      mainchain/kvm/kvm.go                       CanTransfer / Transfer
      kai/state/statedb.go                       Finalise (suicided accounts deleted, refund counter reset)

    The byte-code interpreter (and the precompiles) is NOT modelled here: it is the Section
    variable [run], which receives the state at the point where kvm.go calls [run(...)] /
    [RunPrecompiledContract] and reports what happened (error class, gas left, returned code,
    refund counter, net balance moves, nonce moves, code/storage identities, accounts that
    self-destructed, balance destroyed by self-destructing to oneself).  Everything *around* it —
    nonce check, gas purchase, pool, intrinsic gas, value transfer, snapshot/revert, code deposit
    gas, refund cap, fee, finalisation, the per-transaction revert of commitBlock — is
    transcribed branch by branch.

    uint64 arithmetic goes through the parameter [W] (instantiated with [wrapu64] for the code
    that exists, and with the identity in the statement of C09_no_wrap).  Balances, prices and
    values are math/big integers in the code, hence plain [Z] here.  Addresses are [N]. *)
From Coq Require Import List ZArith NArith Bool.
From Kardia Require Import Base.Int64 Generated.C09Facts.
Import ListNotations.
Local Open Scope Z_scope.

(* ------------------------------------------------------------------ *)
(** * Accounts and state *)

(** [a_code] / [a_stor] are identities of the code bytes / of the storage content
    (0 = empty); only the interpreter, contract creation and account deletion change them. *)
Record account := { a_bal : Z; a_nonce : Z; a_code : N; a_stor : N }.
Definition empty_account : account := {| a_bal := 0; a_nonce := 0; a_code := 0%N; a_stor := 0%N |}.

(** [st_refund]: StateDB.refund;  [st_dead]: addresses whose state object has suicided = true
    (deleted by the next Finalise).  Both are journalled in the code, hence part of what a
    snapshot restores. *)
Record state := { st_acc : N -> account; st_refund : Z; st_dead : list N }.

Definition get (s : state) (a : N) : account := st_acc s a.
Definition upd (s : state) (a : N) (x : account) : state :=
  {| st_acc := fun b => if N.eqb b a then x else st_acc s b;
     st_refund := st_refund s; st_dead := st_dead s |}.

Definition with_bal (x : account) (v : Z) : account :=
  {| a_bal := v; a_nonce := a_nonce x; a_code := a_code x; a_stor := a_stor x |}.
Definition with_nonce (x : account) (n : Z) : account :=
  {| a_bal := a_bal x; a_nonce := n; a_code := a_code x; a_stor := a_stor x |}.
Definition with_code (x : account) (c : N) : account :=
  {| a_bal := a_bal x; a_nonce := a_nonce x; a_code := c; a_stor := a_stor x |}.

Definition bal (s : state) (a : N) : Z := a_bal (get s a).
Definition nonce (s : state) (a : N) : Z := a_nonce (get s a).
Definition code (s : state) (a : N) : N := a_code (get s a).

(** StateDB.AddBalance / SubBalance / SetNonce / SetCode *)
Definition add_bal (s : state) (a : N) (v : Z) : state := upd s a (with_bal (get s a) (bal s a + v)).
Definition sub_bal (s : state) (a : N) (v : Z) : state := add_bal s a (- v).
Definition set_nonce (s : state) (a : N) (n : Z) : state := upd s a (with_nonce (get s a) n).
Definition set_code (s : state) (a : N) (c : N) : state := upd s a (with_code (get s a) c).

(** mainchain/kvm.CanTransfer / Transfer *)
Definition can_transfer (s : state) (a : N) (v : Z) : bool := negb (bal s a <? v).
Definition transfer (s : state) (from to : N) (v : Z) : state := add_bal (sub_bal s from v) to v.

(** StateDB.CreateAccount: a fresh object that keeps only the balance of the previous one
    (and is not marked as suicided). *)
Definition create_account (s : state) (a : N) : state :=
  let s' := upd s a {| a_bal := bal s a; a_nonce := 0; a_code := 0%N; a_stor := 0%N |} in
  {| st_acc := st_acc s'; st_refund := st_refund s';
     st_dead := filter (fun b => negb (N.eqb b a)) (st_dead s') |}.

Definition mk_state (l : list (N * account)) : state :=
  {| st_acc := fun a => match find (fun p => N.eqb (fst p) a) l with
                        | Some p => snd p | None => empty_account end;
     st_refund := 0; st_dead := [] |}.

(** sum of the balances of the accounts in [U] *)
Definition total (U : list N) (s : state) : Z := fold_right (fun a acc => bal s a + acc) 0 U.

(* ------------------------------------------------------------------ *)
(** * Messages, environment, the VM interface *)

Record env := { e_coinbase : N;        (* header.ProposerAddress *)
                e_galaxias : bool;     (* ChainConfig.IsGalaxias(height) *)
                e_gaslimit : Z }.      (* header.GasLimit *)

(** [m_sigok]: tx.AsMessage succeeded (ideal signatures: the harness signs with real keys and
    reports whether Sender recovered an address); [m_id] identifies the transaction for [run]. *)
Record msg := { m_id : N; m_sigok : bool; m_from : N; m_to : option N;
                m_nonce : Z; m_gas : Z; m_price : Z; m_value : Z; m_data : list N }.

Inductive vm_err := VOk | VRevert | VFail | VCodeStore | VMaxCode | VCollision | VBalance.

Definition vm_err_eqb (a b : vm_err) : bool :=
  match a, b with
  | VOk, VOk | VRevert, VRevert | VFail, VFail | VCodeStore, VCodeStore
  | VMaxCode, VMaxCode | VCollision, VCollision | VBalance, VBalance => true
  | _, _ => false
  end.

Record call_input := { ci_msg : N; ci_create : bool; ci_origin : N; ci_caller : N;
                       ci_addr : N; ci_gas : Z; ci_value : Z }.

(** one account touched by the interpreter: balance and nonce move by a delta, code / storage
    identities are replaced when [Some], [w_dead]: the account self-destructed *)
Record write := { w_addr : N; w_dbal : Z; w_dnonce : Z; w_code : option N; w_stor : option N;
                  w_dead : bool }.

Record run_output := { ro_err : vm_err;      (* VOk, VRevert, anything else = failure *)
                       ro_gas : Z;           (* contract.Gas when the interpreter returned *)
                       ro_retlen : Z;        (* len(ret) *)
                       ro_retcode : N;       (* identity of ret (becomes the code on creation) *)
                       ro_refund : Z;        (* StateDB.GetRefund() afterwards *)
                       ro_burn : Z;          (* balance destroyed by SELFDESTRUCT to oneself *)
                       ro_writes : list write }.

Definition is_precompile (a : N) : bool := existsb (N.eqb a) precompiles.

Definition max_u64 : Z := two64 - 1.

Inductive tx_err := ESig | ENonceHigh | ENonceLow | EFunds | EGasLimit | EGasOverflow
                  | EIntrinsic | EFundsTransfer.

Record receipt := { x_failed : bool;        (* receipt status = failed *)
                    x_vmerr : vm_err;
                    x_used : Z;             (* receipt.GasUsed *)
                    x_vmgas : Z;            (* gas handed to Call / Create *)
                    x_vmleft : Z;           (* gas they returned *)
                    x_refund : Z;           (* refund applied by refundGas *)
                    x_burnt : Z }.          (* balance destroyed (self-destructs) *)

Inductive outcome :=
| Rejected (e : tx_err) (s : state) (pool : Z)   (* ApplyTransaction returned an error; state and
                                                    pool as it left them *)
| Executed (s : state) (pool : Z) (r : receipt)
| Panicked.                                       (* GasPool.AddGas: "gas pool pushed above uint64" *)

(* ------------------------------------------------------------------ *)
Section Model.

Variable W : Z -> Z.
Variable run : state -> call_input -> run_output.
(** crypto.CreateAddress(sender, nonce) = Keccak(rlp(sender, nonce))[12:] *)
Variable create_address : N -> Z -> N.

(** ** tx_pool.IntrinsicGas *)
Definition count_nz (data : list N) : Z :=
  fold_left (fun acc b => if N.eqb b 0 then acc else W (acc + 1)) data 0.

Definition intrinsic_gas (data : list N) (creation legacy : bool) : option Z :=
  let gas := if creation then tx_gas_contract_creation
             else if legacy then tx_gas_legacy else tx_gas in
  let len := W (Z.of_nat (length data)) in
  if 0 <? Z.of_nat (length data) then
    let nz := count_nz data in
    if (max_u64 - gas) / tx_data_non_zero_gas <? nz then None
    else
      let gas1 := W (gas + W (nz * tx_data_non_zero_gas)) in
      let z := W (len - nz) in
      if (max_u64 - gas1) / tx_data_zero_gas <? z then None
      else Some (W (gas1 + W (z * tx_data_zero_gas)))
  else Some gas.

(** ** effect of the interpreter on the state *)
Definition apply_write (s : state) (w : write) : state :=
  let x := get s (w_addr w) in
  let x' := {| a_bal := a_bal x + w_dbal w; a_nonce := a_nonce x + w_dnonce w;
               a_code := match w_code w with Some c => c | None => a_code x end;
               a_stor := match w_stor w with Some c => c | None => a_stor x end |} in
  let s' := upd s (w_addr w) x' in
  if w_dead w then {| st_acc := st_acc s'; st_refund := st_refund s'; st_dead := w_addr w :: st_dead s' |}
  else s'.

Definition apply_writes (s : state) (o : run_output) : state :=
  let s' := fold_left apply_write (ro_writes o) s in
  {| st_acc := st_acc s'; st_refund := ro_refund o; st_dead := st_dead s' |}.

(** ** KVM.Call at depth 0 (NoRecursion = false, depth check cannot fail) *)
Definition call (s : state) (mid origin caller a : N) (gas value : Z) : state * Z * vm_err * Z :=
  (* value.Sign() != 0 && !CanTransfer *)
  if negb (value =? 0) && negb (can_transfer s caller value) then (s, gas, VBalance, 0)
  else
    let snapshot := s in
    (* !Exist(addr) && !precompile && value == 0: returns (gas, nil) without touching anything; an
       absent account has no code, so this is the last branch below with a zero transfer.
       Otherwise CreateAccount(addr) on an absent address creates the all-zero account. *)
    let s1 := transfer s caller a value in
    if is_precompile a || negb (N.eqb (code s1 a) 0) then
      let o := run s1 {| ci_msg := mid; ci_create := false; ci_origin := origin; ci_caller := caller;
                         ci_addr := a; ci_gas := gas; ci_value := value |} in
      match ro_err o with
      | VOk => (apply_writes s1 o, ro_gas o, VOk, ro_burn o)
      | VRevert => (snapshot, ro_gas o, VRevert, 0)       (* RevertToSnapshot, gas kept *)
      | e => (snapshot, 0, e, 0)                           (* RevertToSnapshot, gas = 0 *)
      end
    else (s1, gas, VOk, 0).                                (* len(code) == 0: gas unchanged *)

(** ** KVM.create at depth 0, [address] = CreateAddress(caller, nonce) computed by Create *)
Definition create (s : state) (mid origin caller address : N) (gas value : Z)
  : state * Z * vm_err * Z :=
  if negb (can_transfer s caller value) then (s, gas, VBalance, 0)
  else
    let n := nonce s caller in
    let s0 := set_nonce s caller (W (n + 1)) in
    (* GetNonce(address) != 0 || (codeHash != {} && codeHash != emptyCodeHash) *)
    if negb (nonce s0 address =? 0) || negb (N.eqb (code s0 address) 0) then (s0, 0, VCollision, 0)
    else
      let snapshot := s0 in
      let s1 := create_account s0 address in
      let s2 := set_nonce s1 address 1 in
      let s3 := transfer s2 caller address value in
      let o := run s3 {| ci_msg := mid; ci_create := true; ci_origin := origin; ci_caller := caller;
                         ci_addr := address; ci_gas := gas; ci_value := value |} in
      let err := ro_err o in
      let s4 := if vm_err_eqb err VOk then apply_writes s3 o else s3 in
      let g := ro_gas o in
      let exceeded := max_code_size <? ro_retlen o in
      (* err == nil && !maxCodeSizeExceeded: charge the code deposit, store the code *)
      let '(err1, g1, s5) :=
        if vm_err_eqb err VOk && negb exceeded then
          let cdg := W (ro_retlen o * create_data_gas) in
          if cdg <=? g then (VOk, g - cdg, set_code s4 address (ro_retcode o))
          else (VCodeStore, g, s4)
        else (err, g, s4) in
      (* maxCodeSizeExceeded || err != nil: revert, and burn the gas unless ErrExecutionReverted *)
      let '(g2, s6) :=
        if exceeded || negb (vm_err_eqb err1 VOk) then
          ((if vm_err_eqb err1 VRevert then g1 else 0), snapshot)
        else (g1, s5) in
      let err2 := if exceeded && vm_err_eqb err1 VOk then VMaxCode else err1 in
      (s6, g2, err2, if vm_err_eqb err2 VOk then ro_burn o else 0).

(** ** StateDB.Finalise(true) as far as balances, nonces, code and storage are concerned:
    suicided objects are deleted (whatever balance they hold disappears), the refund counter
    and the journal are reset.  (Deleting *empty* touched objects changes none of the four
    observables.) Returns the destroyed balance as well. *)
Definition kill (sb : state * Z) (a : N) : state * Z :=
  (upd (fst sb) a empty_account, snd sb + bal (fst sb) a).

Definition finalise (s : state) : state * Z :=
  let sb := fold_left kill (st_dead s) (s, 0) in
  ({| st_acc := st_acc (fst sb); st_refund := 0; st_dead := [] |}, snd sb).

(** the two arms of TransitionDb's [if contractCreation]:
      ret, _, st.gas, vmerr = st.vm.Create(sender, st.data, st.gas, st.value)
    or
      st.state.SetNonce(msg.From(), st.state.GetNonce(sender.Address())+1)
      ret, st.gas, vmerr = st.vm.Call(sender, st.to(), st.data, st.gas, st.value) *)
Definition vm_phase (s1 : state) (m : msg) (gas1 : Z) : state * Z * vm_err * Z :=
  let from := m_from m in
  match m_to m with
  | None => create s1 (m_id m) from from (create_address from (nonce s1 from)) gas1 (m_value m)
  | Some to =>
    let s1' := set_nonce s1 from (W (nonce s1 from + 1)) in
    call s1' (m_id m) from from to gas1 (m_value m)
  end.

(** ** ApplyTransaction = AsMessage + NewStateTransition(...).TransitionDb() + Finalise *)
Definition apply_transaction (e : env) (s : state) (pool : Z) (m : msg) : outcome :=
  if negb (m_sigok m) then Rejected ESig s pool else
  let from := m_from m in
  (* preCheck (CheckNonce() is true for every message made by AsMessage) *)
  let n := nonce s from in
  if n <? m_nonce m then Rejected ENonceHigh s pool
  else if m_nonce m <? n then Rejected ENonceLow s pool
  else
  (* buyGas *)
  let mgval := m_gas m * m_price m in
  if bal s from <? mgval then Rejected EFunds s pool
  else if pool <? m_gas m then Rejected EGasLimit s pool     (* gp.SubGas *)
  else
  let pool1 := pool - m_gas m in
  let gas0 := W (0 + m_gas m) in                              (* st.gas += msg.Gas() *)
  let initial := m_gas m in
  let s1 := sub_bal s from mgval in
  (* TransitionDb *)
  let creation := match m_to m with None => true | Some _ => false end in
  match intrinsic_gas (m_data m) creation (negb (e_galaxias e)) with
  | None => Rejected EGasOverflow s1 pool1
  | Some ig =>
    if gas0 <? ig then Rejected EIntrinsic s1 pool1
    else
    let gas1 := W (gas0 - ig) in
    if (0 <? m_value m) && negb (can_transfer s1 from (m_value m)) then Rejected EFundsTransfer s1 pool1
    else
    let '(s2, gas2, vmerr, burn) := vm_phase s1 m gas1 in
    (* refundGas *)
    let refund0 := W (initial - gas2) / refund_quotient in
    let refund := if st_refund s2 <? refund0 then st_refund s2 else refund0 in
    let gas3 := W (gas2 + refund) in
    let s3 := add_bal s2 from (gas3 * m_price m) in
    if max_u64 - gas3 <? pool1 then Panicked                 (* gp.AddGas *)
    else
    let pool2 := W (pool1 + gas3) in
    (* fee to the proposer *)
    let used := W (initial - gas3) in
    let s4 := add_bal s3 (e_coinbase e) (used * m_price m) in
    (* ApplyTransaction: statedb.Finalise(true) *)
    let '(s5, destroyed) := finalise s4 in
    Executed s5 pool2
      {| x_failed := negb (vm_err_eqb vmerr VOk); x_vmerr := vmerr; x_used := used;
         x_vmgas := gas1; x_vmleft := gas2; x_refund := refund; x_burnt := burn + destroyed |}
  end.

(** ** commitBlock: the transaction loop *)
Record bstate := { b_state : state; b_pool : Z;
                   b_cum : Z;                       (* *usedGas *)
                   b_receipts : list (N * Z * receipt);  (* (tx, CumulativeGasUsed, receipt), newest first *)
                   b_panic : bool }.

Definition commit_step (e : env) (b : bstate) (m : msg) : bstate :=
  if b_panic b then b else
  (* snap := state.Snapshot(); gasBefore := gasPool.Gas() *)
  match apply_transaction e (b_state b) (b_pool b) m with
  | Rejected _ _ _ =>
    (* state.RevertToSnapshot(snap); *gasPool = GasPool(gasBefore); continue *)
    b
  | Executed s' pool' r =>
    let cum := W (b_cum b + x_used r) in
    {| b_state := s'; b_pool := pool'; b_cum := cum;
       b_receipts := (m_id m, cum, r) :: b_receipts b; b_panic := false |}
  | Panicked =>
    {| b_state := b_state b; b_pool := b_pool b; b_cum := b_cum b;
       b_receipts := b_receipts b; b_panic := true |}
  end.

(** gasPool := new(GasPool).AddGas(header.GasLimit) *)
Definition block_start (e : env) (s : state) : bstate :=
  {| b_state := s; b_pool := e_gaslimit e; b_cum := 0; b_receipts := []; b_panic := false |}.

Definition commit_txs (e : env) (b : bstate) (txs : list msg) : bstate :=
  fold_left (commit_step e) txs b.

Definition commit_block (e : env) (s : state) (txs : list msg) : bstate :=
  commit_txs e (block_start e s) txs.

(** ** proposalBlock.commitTransaction (block_constructor.go), the loop body of the proposal
    builder used by CreateProposalBlock once Galaxias is active (after fix e9e909b):

      snap := pb.state.Snapshot(); gasBefore := pb.gasPool.Gas()
      receipt, _, err := ApplyTransaction(..., pb.gasPool, pb.state, pb.header, tx, pb.usedGas, ...)
      if err != nil { pb.state.RevertToSnapshot(snap); *pb.gasPool = types.GasPool(gasBefore); return err }
      pb.txs = append(pb.txs, tx); pb.receipts = append(pb.receipts, receipt)

    [pool_before] is what the pool is reset to on error (transcribed separately from
    [commit_step]; C09_proposal_builder proves that they coincide). *)
Definition propose_step (e : env) (b : bstate) (m : msg) : bstate :=
  if b_panic b then b else
  let pool_before := b_pool b in
  match apply_transaction e (b_state b) (b_pool b) m with
  | Rejected _ _ _ =>
    {| b_state := b_state b; b_pool := pool_before; b_cum := b_cum b;
       b_receipts := b_receipts b; b_panic := false |}
  | Executed s' pool' r =>
    let cum := W (b_cum b + x_used r) in
    {| b_state := s'; b_pool := pool'; b_cum := cum;
       b_receipts := (m_id m, cum, r) :: b_receipts b; b_panic := false |}
  | Panicked =>
    {| b_state := b_state b; b_pool := b_pool b; b_cum := b_cum b;
       b_receipts := b_receipts b; b_panic := true |}
  end.

Definition propose_txs (e : env) (b : bstate) (txs : list msg) : bstate :=
  fold_left (propose_step e) txs b.

(** proposalBlock.commitTransactions: the loop leaves as soon as the pool holds less than TxGas
    ("Not enough gas for further transactions"); [txs] is the sequence of transactions the loop
    hands to commitTransaction (the price-and-nonce heap and its Shift / Pop are not modelled) *)
Fixpoint propose_loop (e : env) (b : bstate) (txs : list msg) : bstate :=
  match txs with
  | [] => b
  | m :: rest =>
    if b_pool b <? tx_gas then b
    else propose_loop e (propose_step e b m) rest
  end.

(** ** StateProcessor.Process: the same ApplyTransaction calls on one pool, but the first error
    aborts the whole block ([None]: "return nil, nil, 0, err"). *)
Definition process_step (e : env) (ob : option bstate) (m : msg) : option bstate :=
  match ob with
  | None => None
  | Some b =>
    if b_panic b then Some b else
    match apply_transaction e (b_state b) (b_pool b) m with
    | Rejected _ _ _ => None
    | Executed s' pool' r =>
      let cum := W (b_cum b + x_used r) in
      Some {| b_state := s'; b_pool := pool'; b_cum := cum;
              b_receipts := (m_id m, cum, r) :: b_receipts b; b_panic := false |}
    | Panicked =>
      Some {| b_state := b_state b; b_pool := b_pool b; b_cum := b_cum b;
              b_receipts := b_receipts b; b_panic := true |}
    end
  end.

Definition process_txs (e : env) (ob : option bstate) (txs : list msg) : option bstate :=
  fold_left (process_step e) txs ob.

Definition process_block (e : env) (s : state) (txs : list msg) : option bstate :=
  process_txs e (Some (block_start e s)) txs.

End Model.

(** The code as it is: uint64 arithmetic wraps. *)
Definition apply_transaction64 := apply_transaction wrapu64.
Definition commit_step64 := commit_step wrapu64.
Definition commit_block64 := commit_block wrapu64.
Definition intrinsic_gas64 := intrinsic_gas wrapu64.
Definition propose_step64 := propose_step wrapu64.
Definition process_block64 := process_block wrapu64.
