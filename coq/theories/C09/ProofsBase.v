(** C09 — basic facts about the state operations of the model: what each primitive does to
    balances, nonces, the refund counter and the suicide list, and to the balance sum. *)
From Coq Require Import List ZArith NArith Bool Lia.
From Kardia Require Import Base.Int64 C09.Model Generated.C09Facts.
Import ListNotations.
Local Open Scope Z_scope.

Lemma get_upd_eq s a x : get (upd s a x) a = x.
Proof. unfold get, upd; cbn. now rewrite N.eqb_refl. Qed.

Lemma get_upd_neq s a b x : b <> a -> get (upd s a x) b = get s b.
Proof. intros H. unfold get, upd; cbn. destruct (N.eqb_spec b a); congruence. Qed.

Lemma get_upd s a b x : get (upd s a x) b = if N.eqb b a then x else get s b.
Proof. unfold get, upd; cbn. reflexivity. Qed.

Lemma refund_upd s a x : st_refund (upd s a x) = st_refund s.
Proof. reflexivity. Qed.
Lemma dead_upd s a x : st_dead (upd s a x) = st_dead s.
Proof. reflexivity. Qed.

(** balances *)
Lemma bal_add_bal s a v b : bal (add_bal s a v) b = if N.eqb b a then bal s a + v else bal s b.
Proof. unfold bal, add_bal. rewrite get_upd. destruct (N.eqb b a); reflexivity. Qed.

Lemma bal_sub_bal s a v b : bal (sub_bal s a v) b = if N.eqb b a then bal s a - v else bal s b.
Proof. unfold sub_bal. rewrite bal_add_bal. destruct (N.eqb b a); lia. Qed.

Lemma bal_set_nonce s a n b : bal (set_nonce s a n) b = bal s b.
Proof. unfold bal, set_nonce. rewrite get_upd. destruct (N.eqb_spec b a); subst; reflexivity. Qed.

Lemma bal_set_code s a c b : bal (set_code s a c) b = bal s b.
Proof. unfold bal, set_code. rewrite get_upd. destruct (N.eqb_spec b a); subst; reflexivity. Qed.

Lemma bal_create_account s a b : bal (create_account s a) b = bal s b.
Proof.
  unfold bal, create_account, get; cbn. destruct (N.eqb_spec b a); subst; reflexivity.
Qed.

(** code *)
Lemma code_add_bal s a v b : code (add_bal s a v) b = code s b.
Proof. unfold code, add_bal. rewrite get_upd. destruct (N.eqb_spec b a); subst; reflexivity. Qed.
Lemma code_sub_bal s a v b : code (sub_bal s a v) b = code s b.
Proof. apply code_add_bal. Qed.
Lemma code_set_nonce s a n b : code (set_nonce s a n) b = code s b.
Proof. unfold code, set_nonce. rewrite get_upd. destruct (N.eqb_spec b a); subst; reflexivity. Qed.
Lemma code_transfer s f t v b : code (transfer s f t v) b = code s b.
Proof. unfold transfer. now rewrite code_add_bal, code_sub_bal. Qed.

Lemma bal_transfer s f t v b :
  bal (transfer s f t v) b = bal s b - (if N.eqb b f then v else 0) + (if N.eqb b t then v else 0).
Proof.
  unfold transfer. rewrite bal_add_bal. destruct (N.eqb_spec b t) as [Heq|Hne].
  2: rewrite bal_sub_bal; destruct (N.eqb_spec b f) as [Heq|]; [subst b|]; lia.
  subst b. rewrite bal_sub_bal. destruct (N.eqb_spec t f) as [Heq|]; [subst t|]; lia.
Qed.

(** nonces *)
Lemma nonce_add_bal s a v b : nonce (add_bal s a v) b = nonce s b.
Proof. unfold nonce, add_bal. rewrite get_upd. destruct (N.eqb_spec b a); subst; reflexivity. Qed.
Lemma nonce_sub_bal s a v b : nonce (sub_bal s a v) b = nonce s b.
Proof. apply nonce_add_bal. Qed.
Lemma nonce_set_nonce s a n b : nonce (set_nonce s a n) b = if N.eqb b a then n else nonce s b.
Proof. unfold nonce, set_nonce. rewrite get_upd. destruct (N.eqb b a); reflexivity. Qed.
Lemma nonce_set_code s a c b : nonce (set_code s a c) b = nonce s b.
Proof. unfold nonce, set_code. rewrite get_upd. destruct (N.eqb_spec b a); subst; reflexivity. Qed.
Lemma nonce_transfer s f t v b : nonce (transfer s f t v) b = nonce s b.
Proof. unfold transfer. now rewrite nonce_add_bal, nonce_sub_bal. Qed.
Lemma nonce_create_account s a b : nonce (create_account s a) b = if N.eqb b a then 0 else nonce s b.
Proof. unfold nonce, create_account, get; cbn. destruct (N.eqb b a); reflexivity. Qed.

(** refund counter and suicide list are only touched by the interpreter and by Finalise *)
Lemma refund_add_bal s a v : st_refund (add_bal s a v) = st_refund s. Proof. reflexivity. Qed.
Lemma refund_sub_bal s a v : st_refund (sub_bal s a v) = st_refund s. Proof. reflexivity. Qed.
Lemma refund_set_nonce s a n : st_refund (set_nonce s a n) = st_refund s. Proof. reflexivity. Qed.
Lemma refund_set_code s a n : st_refund (set_code s a n) = st_refund s. Proof. reflexivity. Qed.
Lemma refund_transfer s f t v : st_refund (transfer s f t v) = st_refund s. Proof. reflexivity. Qed.
Lemma refund_create_account s a : st_refund (create_account s a) = st_refund s. Proof. reflexivity. Qed.
Lemma dead_add_bal s a v : st_dead (add_bal s a v) = st_dead s. Proof. reflexivity. Qed.
Lemma dead_sub_bal s a v : st_dead (sub_bal s a v) = st_dead s. Proof. reflexivity. Qed.
Lemma dead_set_nonce s a n : st_dead (set_nonce s a n) = st_dead s. Proof. reflexivity. Qed.
Lemma dead_set_code s a n : st_dead (set_code s a n) = st_dead s. Proof. reflexivity. Qed.
Lemma dead_transfer s f t v : st_dead (transfer s f t v) = st_dead s. Proof. reflexivity. Qed.

(* ------------------------------------------------------------------ *)
(** * the balance sum *)

Lemma total_cons U a s : total (a :: U) s = bal s a + total U s.
Proof. reflexivity. Qed.

Lemma total_ext U s s' : (forall a, In a U -> bal s' a = bal s a) -> total U s' = total U s.
Proof.
  induction U as [|b U IH]; intros H; [reflexivity|].
  rewrite !total_cons. rewrite H by (left; reflexivity). rewrite IH; [reflexivity|].
  intros a Ha. apply H. right; exact Ha.
Qed.

(** one account moves, the others keep their balance *)
Lemma total_delta U s s' a :
  NoDup U -> In a U -> (forall b, b <> a -> bal s' b = bal s b) ->
  total U s' = total U s + (bal s' a - bal s a).
Proof.
  induction U as [|b U IH]; intros Hnd Hin Hoth; [destruct Hin|].
  inversion Hnd as [|? ? Hnotin Hnd']; subst.
  rewrite !total_cons.
  destruct (N.eq_dec b a) as [->|Hne].
  - rewrite (total_ext U s s'); [lia|].
    intros c Hc. apply Hoth. intros ->. contradiction.
  - destruct Hin as [->|Hin]; [congruence|].
    rewrite (IH Hnd' Hin Hoth). rewrite (Hoth b Hne). lia.
Qed.

Lemma total_add_bal U s a v : NoDup U -> In a U -> total U (add_bal s a v) = total U s + v.
Proof.
  intros Hnd Hin. rewrite (total_delta U s (add_bal s a v) a Hnd Hin).
  - rewrite bal_add_bal, N.eqb_refl. lia.
  - intros b Hb. rewrite bal_add_bal. destruct (N.eqb_spec b a); congruence.
Qed.

Lemma total_sub_bal U s a v : NoDup U -> In a U -> total U (sub_bal s a v) = total U s - v.
Proof. intros. unfold sub_bal. rewrite total_add_bal by assumption. lia. Qed.

Lemma total_transfer U s f t v :
  NoDup U -> In f U -> In t U -> total U (transfer s f t v) = total U s.
Proof.
  intros. unfold transfer. rewrite total_add_bal, total_sub_bal by assumption. lia.
Qed.

Lemma total_set_nonce U s a n : total U (set_nonce s a n) = total U s.
Proof. apply total_ext. intros. apply bal_set_nonce. Qed.
Lemma total_set_code U s a n : total U (set_code s a n) = total U s.
Proof. apply total_ext. intros. apply bal_set_code. Qed.
Lemma total_create_account U s a : total U (create_account s a) = total U s.
Proof. apply total_ext. intros. apply bal_create_account. Qed.

(** the sum only looks at [st_acc] *)
Lemma total_acc U s s' : st_acc s' = st_acc s -> total U s' = total U s.
Proof. intros H. apply total_ext. intros a _. unfold bal, get. now rewrite H. Qed.

(* ------------------------------------------------------------------ *)
(** * effect of the interpreter's writes *)

Definition sum_dbal (ws : list write) : Z := fold_right (fun w acc => w_dbal w + acc) 0 ws.

Lemma bal_apply_write s w b :
  bal (apply_write s w) b = if N.eqb b (w_addr w) then bal s (w_addr w) + w_dbal w else bal s b.
Proof.
  unfold apply_write. destruct (w_dead w); unfold bal, get; cbn;
    destruct (N.eqb b (w_addr w)); reflexivity.
Qed.

Lemma nonce_apply_write s w b :
  nonce (apply_write s w) b = if N.eqb b (w_addr w) then nonce s (w_addr w) + w_dnonce w else nonce s b.
Proof.
  unfold apply_write. destruct (w_dead w); unfold nonce, get; cbn;
    destruct (N.eqb b (w_addr w)); reflexivity.
Qed.

Lemma dead_apply_write s w :
  st_dead (apply_write s w) = if w_dead w then w_addr w :: st_dead s else st_dead s.
Proof. unfold apply_write. destruct (w_dead w); reflexivity. Qed.

Lemma total_apply_write U s w :
  NoDup U -> In (w_addr w) U -> total U (apply_write s w) = total U s + w_dbal w.
Proof.
  intros Hnd Hin. rewrite (total_delta U s _ (w_addr w) Hnd Hin).
  - rewrite bal_apply_write, N.eqb_refl. lia.
  - intros b Hb. rewrite bal_apply_write. destruct (N.eqb_spec b (w_addr w)); congruence.
Qed.

Lemma total_fold_writes U ws s :
  NoDup U -> (forall w, In w ws -> In (w_addr w) U) ->
  total U (fold_left apply_write ws s) = total U s + sum_dbal ws.
Proof.
  intros Hnd. revert s. induction ws as [|w ws IH]; intros s Hin; cbn [fold_left].
  - cbn. lia.
  - change (sum_dbal (w :: ws)) with (w_dbal w + sum_dbal ws).
    rewrite IH by (intros; apply Hin; right; assumption).
    rewrite total_apply_write by (try assumption; apply Hin; left; reflexivity). lia.
Qed.

Lemma total_apply_writes U s o :
  NoDup U -> (forall w, In w (ro_writes o) -> In (w_addr w) U) ->
  total U (apply_writes s o) = total U s + sum_dbal (ro_writes o).
Proof.
  intros Hnd Hin. unfold apply_writes.
  transitivity (total U (fold_left apply_write (ro_writes o) s)); [apply total_acc; reflexivity|].
  now apply total_fold_writes.
Qed.

Lemma refund_apply_writes s o : st_refund (apply_writes s o) = ro_refund o.
Proof. reflexivity. Qed.

(** nonce of an account none of the writes moves *)
Lemma nonce_fold_writes ws s a :
  (forall w, In w ws -> w_addr w = a -> w_dnonce w = 0) ->
  nonce (fold_left apply_write ws s) a = nonce s a.
Proof.
  revert s. induction ws as [|w ws IH]; intros s H; cbn [fold_left]; [reflexivity|].
  rewrite IH by (intros; eapply H; [right; eassumption|assumption]).
  rewrite nonce_apply_write. destruct (N.eqb_spec a (w_addr w)) as [->|]; [|reflexivity].
  rewrite (H w) by (try left; reflexivity). lia.
Qed.

Lemma nonce_apply_writes s o a :
  (forall w, In w (ro_writes o) -> w_addr w = a -> w_dnonce w = 0) ->
  nonce (apply_writes s o) a = nonce s a.
Proof. intros H. unfold apply_writes, nonce, get; cbn. now apply nonce_fold_writes. Qed.

(** suicide list after the writes: old entries plus addresses of writes flagged dead *)
Lemma dead_fold_writes ws s a :
  In a (st_dead (fold_left apply_write ws s)) ->
  In a (st_dead s) \/ exists w, In w ws /\ w_addr w = a /\ w_dead w = true.
Proof.
  revert s. induction ws as [|w ws IH]; intros s H; cbn [fold_left] in H; [left; exact H|].
  destruct (IH _ H) as [Hd|[w' [Hw' Hrest]]].
  - rewrite dead_apply_write in Hd. destruct (w_dead w) eqn:Hdead.
    + destruct Hd as [<-|Hd]; [right; exists w; repeat split; auto; left; reflexivity|left; exact Hd].
    + left; exact Hd.
  - right. exists w'. split; [right; exact Hw'|exact Hrest].
Qed.

Lemma dead_apply_writes s o : st_dead (apply_writes s o) = st_dead (fold_left apply_write (ro_writes o) s).
Proof. reflexivity. Qed.

(* ------------------------------------------------------------------ *)
(** * Finalise *)

Lemma kill_fold_total U l s b :
  NoDup U -> (forall a, In a l -> In a U) ->
  total U (fst (fold_left kill l (s, b))) = total U s - (snd (fold_left kill l (s, b)) - b).
Proof.
  intros Hnd. revert s b. induction l as [|a l IH]; intros s b Hin; cbn [fold_left].
  - cbn [fst snd]. lia.
  - change (kill (s, b) a) with (upd s a empty_account, b + bal s a).
    rewrite IH by (intros; apply Hin; right; assumption).
    rewrite (total_delta U s (upd s a empty_account) a Hnd).
    + replace (bal (upd s a empty_account) a) with 0
        by (unfold bal; rewrite get_upd_eq; reflexivity).
      lia.
    + apply Hin; left; reflexivity.
    + intros c Hc. unfold bal. now rewrite get_upd_neq.
Qed.

Lemma total_finalise U s :
  NoDup U -> (forall a, In a (st_dead s) -> In a U) ->
  total U (fst (finalise s)) = total U s - snd (finalise s).
Proof.
  intros Hnd Hin. unfold finalise. cbn [fst snd].
  transitivity (total U (fst (fold_left kill (st_dead s) (s, 0)))); [apply total_acc; reflexivity|].
  rewrite (kill_fold_total U _ s 0 Hnd Hin). lia.
Qed.

Lemma finalise_nodead s : st_dead s = [] -> finalise s = ({| st_acc := st_acc s; st_refund := 0; st_dead := [] |}, 0).
Proof. intros H. unfold finalise. rewrite H. reflexivity. Qed.

Lemma kill_fold_acc_notin l s b a :
  ~ In a l -> get (fst (fold_left kill l (s, b))) a = get s a.
Proof.
  revert s b. induction l as [|c l IH]; intros s b Hn; cbn [fold_left]; [reflexivity|].
  change (kill (s, b) c) with (upd s c empty_account, b + bal s c).
  rewrite IH by (intros H; apply Hn; right; exact H).
  apply get_upd_neq. intros ->. apply Hn. left; reflexivity.
Qed.

Lemma finalise_get_notin s a : ~ In a (st_dead s) -> get (fst (finalise s)) a = get s a.
Proof.
  intros H. unfold finalise. cbn [fst]. unfold get at 1. cbn [st_acc].
  change (get (fst (fold_left kill (st_dead s) (s, 0))) a = get s a). now apply kill_fold_acc_notin.
Qed.

Lemma finalise_refund s : st_refund (fst (finalise s)) = 0. Proof. reflexivity. Qed.
Lemma finalise_dead s : st_dead (fst (finalise s)) = []. Proof. reflexivity. Qed.
