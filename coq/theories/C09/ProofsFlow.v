(** C09 — round 4, second part.
    (1) The success path account by account: after an executed transaction whose execution
        succeeded, every account that did not self-destruct holds what it held before, minus
        value + used*price for the sender, plus the value for the recipient / created contract,
        plus used*price for the proposer, plus what the interpreter's own writes moved to or from
        it — and those writes sum to minus the self-destruct burn.
    (2) The hypothesis [Closed U run] of the conservation theorems costs nothing: any interpreter
        can be restricted to a universe [U] (a run that writes outside [U] is reported as failed);
        the restriction keeps the contract [ExecOK], is closed by construction, and is the
        interpreter itself on every run that stays inside [U]. *)
From Coq Require Import List ZArith NArith Bool Lia.
From Kardia Require Import Base.Int64 C09.Model C09.ProofsBase C09.ProofsVM C09.ProofsTx C09.ProofsExtra Generated.C09Facts.
Ltac Zify.zify_post_hook ::= Z.div_mod_to_equations.
Import ListNotations.
Local Open Scope Z_scope.

(* ------------------------------------------------------------------ *)
(** * Balance moved to an account by a list of writes *)

Definition dbal_of (ws : list write) (a : N) : Z :=
  fold_right (fun w acc => (if N.eqb a (w_addr w) then w_dbal w else 0) + acc) 0 ws.

Lemma bal_fold_writes ws : forall s a, bal (fold_left apply_write ws s) a = bal s a + dbal_of ws a.
Proof.
  induction ws as [|w ws IH]; intros s a; cbn [fold_left dbal_of fold_right]; [lia|].
  fold (dbal_of ws a). rewrite IH, bal_apply_write.
  destruct (N.eqb_spec a (w_addr w)) as [->|]; lia.
Qed.

Lemma bal_apply_writes s o a : bal (apply_writes s o) a = bal s a + dbal_of (ro_writes o) a.
Proof. unfold apply_writes. unfold bal at 1, get at 1. cbn [st_acc]. apply (bal_fold_writes (ro_writes o) s a). Qed.

(** summed over a duplicate-free universe that contains every written account, the per-account
    moves are the total move *)
Definition dbal_total (ws : list write) (U : list N) : Z := fold_right (fun a acc => dbal_of ws a + acc) 0 U.

Lemma dbal_of_cons w ws a : dbal_of (w :: ws) a = (if N.eqb a (w_addr w) then w_dbal w else 0) + dbal_of ws a.
Proof. reflexivity. Qed.
Lemma dbal_total_cons ws a U : dbal_total ws (a :: U) = dbal_of ws a + dbal_total ws U.
Proof. reflexivity. Qed.

Lemma dbal_total_notin w ws U : ~ In (w_addr w) U -> dbal_total (w :: ws) U = dbal_total ws U.
Proof.
  induction U as [|a U IH]; intros Hn; [reflexivity|].
  rewrite !dbal_total_cons, dbal_of_cons, IH by (intros Hc; apply Hn; right; exact Hc).
  destruct (N.eqb_spec a (w_addr w)) as [->|]; [exfalso; apply Hn; left; reflexivity|lia].
Qed.

Lemma dbal_total_in w ws U : NoDup U -> In (w_addr w) U -> dbal_total (w :: ws) U = w_dbal w + dbal_total ws U.
Proof.
  induction U as [|a U IH]; intros Hnd Hin; [destruct Hin|].
  inversion Hnd as [|? ? Hna Hnd']; subst. rewrite !dbal_total_cons, dbal_of_cons.
  destruct (N.eqb_spec a (w_addr w)) as [Heq|Hne].
  - subst a. rewrite dbal_total_notin by exact Hna. lia.
  - destruct Hin as [Hin|Hin]; [congruence|]. rewrite (IH Hnd' Hin). lia.
Qed.

Lemma dbal_of_total U ws : NoDup U -> (forall w, In w ws -> In (w_addr w) U) -> dbal_total ws U = sum_dbal ws.
Proof.
  intros Hnd. induction ws as [|w ws IH]; intros Hin.
  - clear. induction U as [|a U IHU]; [reflexivity|]. rewrite dbal_total_cons, IHU. reflexivity.
  - change (sum_dbal (w :: ws)) with (w_dbal w + sum_dbal ws).
    rewrite dbal_total_in by (try assumption; apply Hin; left; reflexivity).
    rewrite IH by (intros; apply Hin; right; assumption). reflexivity.
Qed.

(* ------------------------------------------------------------------ *)
(** * The success path, account by account *)

Section Flow.
Variable run : state -> call_input -> run_output.
Variable ca : N -> Z -> N.
Hypothesis OK : ExecOK run.

(** the VM phase when it succeeds: the value moves from the sender to the target, then the
    interpreter's writes [ws] apply ([] when no code ran) *)
Lemma vm_phase_ok s1 m gas1 s2 gas2 burn :
  vm_phase wrapu64 run ca s1 m gas1 = (s2, gas2, VOk, burn) ->
  exists ws,
    (forall U, Closed U run -> forall w, In w ws -> In (w_addr w) U) /\
    sum_dbal ws = - burn /\
    forall a, bal s2 a = bal s1 a - (if N.eqb a (m_from m) then m_value m else 0)
                                  + (if N.eqb a (target ca s1 m) then m_value m else 0)
                                  + dbal_of ws a.
Proof.
  unfold vm_phase, target. destruct (m_to m) as [to|]; intros H.
  - cbn zeta in H. apply (call_cases run) in H. cbn zeta in H.
    destruct H as [H|[H|[[He H]|[g [e' [H [Hne _]]]]]]]; inversion H; subst; try congruence.
    + exists []. split; [intros U _ w []|]. split; [reflexivity|].
      intros a. rewrite bal_transfer, bal_set_nonce. cbn [dbal_of fold_right]. lia.
    + match goal with |- context [apply_writes ?st ?out] => set (o := out); set (s1' := st) end.
      exists (ro_writes o). split; [intros U Hcl w Hw; exact (Hcl _ _ w Hw)|].
      split; [exact (ok_moves run OK _ _ He)|].
      intros a. rewrite bal_apply_writes. unfold s1'. rewrite bal_transfer, bal_set_nonce. lia.
  - apply (create_cases run wrapu64) in H. cbn zeta in H.
    destruct H as [[_ H]|[[_ H]|[[_ [_ [He [_ [_ H]]]]]|[_ [_ [g [e' [H [Hne _]]]]]]]]]; inversion H; subst; try congruence.
    match goal with |- context [apply_writes ?st ?out] => set (o := out); set (s3 := st) end.
    exists (ro_writes o). split; [intros U Hcl w Hw; exact (Hcl _ _ w Hw)|].
    split; [exact (ok_moves run OK _ _ He)|].
    intros a. rewrite bal_set_code, bal_apply_writes. unfold s3, cr_s3, cr_s0.
    rewrite bal_transfer, bal_set_nonce, bal_create_account, bal_set_nonce. lia.
Qed.

(** Finalise deletes the accounts on the suicide list *)
Lemma finalise_get_in s a : In a (st_dead s) -> get (fst (finalise s)) a = empty_account.
Proof.
  intros Hd. unfold finalise. cbn [fst]. unfold get at 1. cbn [st_acc].
  change (get (fst (fold_left kill (st_dead s) (s, 0))) a = empty_account).
  generalize 0. revert Hd. generalize (st_dead s) as l. intros l. revert s.
  induction l as [|c l IH]; intros s Hd z; [destruct Hd|].
  cbn [fold_left]. change (kill (s, z) c) with (upd s c empty_account, z + bal s c).
  destruct (in_dec N.eq_dec a l) as [Hin|Hnin].
  - apply IH. exact Hin.
  - rewrite kill_fold_acc_notin by exact Hnin.
    destruct Hd as [->|Hd]; [apply get_upd_eq|contradiction].
Qed.

(** ** an executed transaction whose execution succeeded, account by account: [ws] are the
    interpreter's writes ([] if no code ran), [dead] the accounts that self-destructed *)
Lemma executed_ok_flow e s pool m s' pool' r :
  wf_msg m -> 0 <= pool < two64 -> st_refund s = 0 -> st_dead s = [] ->
  apply_transaction wrapu64 run ca e s pool m = Executed s' pool' r ->
  x_vmerr r = VOk ->
  exists ws dead,
    (forall U, Closed U run -> (forall w, In w ws -> In (w_addr w) U) /\ (forall a, In a dead -> In a U)) /\
    0 <= - sum_dbal ws /\ ~ In (m_from m) dead /\
    (forall a, ~ In a dead ->
       bal s' a = bal s a
                  - (if N.eqb a (m_from m) then m_value m + x_used r * m_price m else 0)
                  + (if N.eqb a (target ca s m) then m_value m else 0)
                  + (if N.eqb a (e_coinbase e) then x_used r * m_price m else 0)
                  + dbal_of ws a) /\
    (forall a, In a dead -> get s' a = empty_account).
Proof.
  intros Hm Hpool Hrefund Hdead Hex Hok.
  destruct (tx_inv run ca OK e s pool m s' pool' r Hm Hpool ltac:(rewrite Hrefund; lia) Hex)
    as (ig & s2 & gas2 & vmerr & burn & H). cbn zeta in H.
  destruct H as (_ & Hn & _ & _ & _ & Hig & Hv & Hvm & Hg2 & _ & _ & _ & Hs' & _ & Hr).
  set (s1 := sub_bal s (m_from m) (m_gas m * m_price m)) in *.
  assert (Hve : vmerr = VOk) by (rewrite Hr in Hok; exact Hok). subst vmerr.
  assert (Hn1 : nonce s1 (m_from m) = nonce s (m_from m)) by (unfold s1; apply nonce_sub_bal).
  assert (Hct : can_transfer s1 (m_from m) (m_value m) = true)
    by (unfold can_transfer; apply negb_true_iff, Z.ltb_ge; exact Hv).
  destruct Hm as [Hgas Hnon Hprice Hvalue].
  assert (Hnr : 0 <= nonce s1 (m_from m) < two64 - 1) by (rewrite Hn1, Hn; lia).
  destruct (vm_phase_spec run ca OK _ _ _ _ _ _ _ Hvm ltac:(lia) Hnr Hct)
    as (_ & Hb & _ & _ & Hd1 & Hd2 & _).
  assert (Hdead1 : st_dead s1 = []) by (unfold s1; rewrite dead_sub_bal; exact Hdead).
  destruct (vm_phase_ok _ _ _ _ _ _ Hvm) as (ws & Hcl & Hsum & Hb2).
  assert (Htg : target ca s1 m = target ca s m) by (unfold target; rewrite Hn1; reflexivity).
  exists ws, (st_dead s2). split; [|split; [|split; [|split]]].
  - intros U HU. split; [exact (Hcl U HU)|].
    apply (Hd2 U HU). intros a Ha. rewrite Hdead1 in Ha. destruct Ha.
  - lia.
  - apply Hd1. rewrite Hdead1. intros [].
  - intros a Ha. rewrite Hs'. unfold bal at 1.
    rewrite finalise_get_notin by (rewrite !dead_add_bal; exact Ha).
    match goal with |- a_bal (get ?st a) = _ => change (a_bal (get st a)) with (bal st a) end.
    rewrite !bal_add_bal, !Hb2, Htg. unfold s1. rewrite !bal_sub_bal.
    rewrite Hr. cbn [x_used].
    destruct (N.eqb_spec a (e_coinbase e)) as [->|]; destruct (N.eqb_spec (e_coinbase e) (m_from m)) as [Heq|];
      try rewrite Heq; rewrite ?N.eqb_refl;
      try (destruct (N.eqb_spec a (m_from m)) as [->|]); try congruence; try lia.
  - intros a Ha. rewrite Hs'. apply finalise_get_in. rewrite !dead_add_bal. exact Ha.
Qed.

End Flow.

(* ------------------------------------------------------------------ *)
(** * Restricting an interpreter to a universe *)

Definition failed_run : run_output :=
  {| ro_err := VFail; ro_gas := 0; ro_retlen := 0; ro_retcode := 0%N; ro_refund := 0; ro_burn := 0;
     ro_writes := [] |}.

Definition inside (U : list N) (o : run_output) : bool :=
  forallb (fun w => existsb (N.eqb (w_addr w)) U) (ro_writes o).

(** [restrict U run] is [run], except that a run writing to an account outside [U] is reported
    as a failed run (which Call / create treat like any other failure: revert, no gas left) *)
Definition restrict (U : list N) (run : state -> call_input -> run_output) (s : state) (ci : call_input)
  : run_output :=
  if inside U (run s ci) then run s ci else failed_run.

Lemma inside_spec U o : inside U o = true <-> forall w, In w (ro_writes o) -> In (w_addr w) U.
Proof.
  unfold inside. rewrite forallb_forall. split; intros H w Hw.
  - specialize (H w Hw). apply existsb_exists in H. destruct H as (a & Ha & He).
    apply N.eqb_eq in He. subst a. exact Ha.
  - apply existsb_exists. exists (w_addr w). split; [apply H; exact Hw|apply N.eqb_refl].
Qed.

Lemma restrict_closed U run : Closed U (restrict U run).
Proof.
  intros s ci w Hw. unfold restrict in Hw. destruct (inside U (run s ci)) eqn:Hi.
  - apply (proj1 (inside_spec U _) Hi w Hw).
  - destruct Hw.
Qed.

Lemma restrict_exec_ok U run : ExecOK run -> ExecOK (restrict U run).
Proof.
  intros OK. constructor; intros s ci; unfold restrict; destruct (inside U (run s ci)); cbn [failed_run ro_gas ro_burn ro_err ro_refund ro_retlen ro_writes];
    try (intros; lia); try (intros; discriminate); try (intros w []).
  - apply (ok_gas run OK).
  - apply (ok_burn run OK).
  - apply (ok_moves run OK).
  - apply (ok_refund run OK).
  - apply (ok_retlen run OK).
  - apply (ok_origin run OK).
Qed.

Lemma restrict_same U run s ci :
  (forall w, In w (ro_writes (run s ci)) -> In (w_addr w) U) -> restrict U run s ci = run s ci.
Proof. intros H. unfold restrict. rewrite (proj2 (inside_spec U _) H). reflexivity. Qed.

(* ------------------------------------------------------------------ *)
(** * The early exit of the proposal builder *)

Lemma count_nz_nonneg data : 0 <= count_nz wrapu64 data.
Proof.
  unfold count_nz. assert (H : forall acc, 0 <= acc ->
    0 <= fold_left (fun acc b => if N.eqb b 0 then acc else wrapu64 (acc + 1)) data acc).
  { induction data as [|b data IH]; intros acc Ha; cbn [fold_left]; [exact Ha|].
    apply IH. destruct (N.eqb b 0); [exact Ha|apply wrapu64_nonneg]. }
  apply H. lia.
Qed.

(** the intrinsic gas of any transaction is at least TxGas (no wrap-around gets below it: the
    overflow checks of IntrinsicGas see to that) *)
Lemma intrinsic_ge_tx_gas d c l ig : intrinsic_gas wrapu64 d c l = Some ig -> tx_gas <= ig.
Proof.
  unfold intrinsic_gas.
  set (gas := if c then tx_gas_contract_creation else if l then tx_gas_legacy else tx_gas).
  assert (Hg : tx_gas <= gas < two64).
  { unfold gas, tx_gas, tx_gas_legacy, tx_gas_contract_creation, two64. destruct c; [lia|]. destruct l; lia. }
  clearbody gas. assert (Htg : 0 <= tx_gas) by (unfold tx_gas; lia).
  destruct (0 <? Z.of_nat (length d)); [|intros H; inversion H; subst; exact (proj1 Hg)].
  pose proof (count_nz_nonneg d) as Hnz. set (nz := count_nz wrapu64 d) in *.
  destruct ((max_u64 - gas) / tx_data_non_zero_gas <? nz) eqn:G1; [discriminate|]. apply Z.ltb_ge in G1.
  unfold max_u64, tx_data_non_zero_gas in G1.
  assert (H1 : 0 <= nz * tx_data_non_zero_gas <= two64 - 1 - gas) by (unfold tx_data_non_zero_gas, two64 in *; lia).
  rewrite (wrapu64_small (nz * tx_data_non_zero_gas)) by (unfold two64 in *; lia).
  rewrite (wrapu64_small (gas + nz * tx_data_non_zero_gas)) by (unfold two64 in *; lia).
  set (gas1 := gas + nz * tx_data_non_zero_gas) in *.
  pose proof (wrapu64_nonneg (wrapu64 (Z.of_nat (length d)) - nz)) as Hz.
  set (z := wrapu64 (wrapu64 (Z.of_nat (length d)) - nz)) in *.
  destruct ((max_u64 - gas1) / tx_data_zero_gas <? z) eqn:G2; [discriminate|]. apply Z.ltb_ge in G2.
  unfold max_u64, tx_data_zero_gas in G2.
  assert (H2 : 0 <= z * tx_data_zero_gas <= two64 - 1 - gas1) by (unfold tx_data_zero_gas, two64 in *; lia).
  rewrite (wrapu64_small (z * tx_data_zero_gas)) by (unfold two64 in *; lia).
  rewrite (wrapu64_small (gas1 + z * tx_data_zero_gas)) by (unfold two64 in *; lia).
  intros H; inversion H; subst. lia.
Qed.

Section Brk.
Variable run : state -> call_input -> run_output.
Variable ca : N -> Z -> N.

(** with less than TxGas in the pool no transaction can be executed *)
Lemma rejected_when_pool_low e s pool m :
  0 <= m_gas m < two64 -> pool < tx_gas ->
  exists er sx px, apply_transaction wrapu64 run ca e s pool m = Rejected er sx px.
Proof.
  intros Hg Hp. unfold apply_transaction.
  destruct (m_sigok m); cbn [negb]; [|eauto].
  destruct (nonce s (m_from m) <? m_nonce m); [eauto|].
  destruct (m_nonce m <? nonce s (m_from m)); [eauto|].
  destruct (bal s (m_from m) <? m_gas m * m_price m); [eauto|].
  destruct (pool <? m_gas m) eqn:Hpl; [eauto|]. apply Z.ltb_ge in Hpl.
  destruct (intrinsic_gas wrapu64 (m_data m) _ (negb (e_galaxias e))) as [ig|] eqn:Hig; [|eauto].
  apply intrinsic_ge_tx_gas in Hig.
  rewrite (wrapu64_small (0 + m_gas m)) by lia.
  destruct (0 + m_gas m <? ig) eqn:Hlow; [eauto|]. apply Z.ltb_ge in Hlow. lia.
Qed.

Lemma propose_step_rejected e b m er sx px :
  apply_transaction wrapu64 run ca e (b_state b) (b_pool b) m = Rejected er sx px ->
  propose_step wrapu64 run ca e b m = b.
Proof.
  intros H. unfold propose_step. destruct b as [st pl cum rc pn]. cbn [b_panic b_state b_pool b_cum b_receipts] in *.
  destruct pn; [reflexivity|]. rewrite H. reflexivity.
Qed.

(** the early exit of the proposal builder ("not enough gas for further transactions") changes
    nothing: the transactions it skips would all have been rejected *)
Lemma propose_loop_eq e txs : forall b,
  (forall m, In m txs -> 0 <= m_gas m < two64) ->
  propose_loop wrapu64 run ca e b txs = propose_txs wrapu64 run ca e b txs.
Proof.
  induction txs as [|m txs IH]; intros b Hall; [reflexivity|].
  cbn [propose_loop]. unfold propose_txs. cbn [fold_left]. fold (propose_txs wrapu64 run ca e).
  destruct (b_pool b <? tx_gas) eqn:Hp.
  - apply Z.ltb_lt in Hp.
    (* everything from here on is rejected *)
    assert (Hstay : forall l, (forall m, In m l -> 0 <= m_gas m < two64) -> propose_txs wrapu64 run ca e b l = b).
    { induction l as [|x l IHl]; intros Hl; [reflexivity|].
      unfold propose_txs. cbn [fold_left]. fold (propose_txs wrapu64 run ca e).
      destruct (rejected_when_pool_low e (b_state b) (b_pool b) x (Hl x (or_introl eq_refl)) Hp) as (er & sx & px & Hr).
      rewrite (propose_step_rejected e b x er sx px Hr). apply IHl. intros y Hy. apply Hl. right. exact Hy. }
    symmetry. apply (Hstay (m :: txs)). exact Hall.
  - apply IH. intros y Hy. apply Hall. right. exact Hy.
Qed.
End Brk.
