(** C16 — headers, [read_kind], and the item-level theorems. *)
From Coq Require Import List ZArith NArith Bool Lia Arith.
From Coq Require Import Init.Byte.
From Kardia Require Import C16.Model C16.ProofsBase.
Import ListNotations.
Local Open Scope N_scope.
Ltac Zify.zify_post_hook ::= Z.to_euclidean_division_equations.

Ltac ltb_cases :=
  repeat match goal with
  | |- context [?a <? ?b] => destruct (N.ltb_spec a b); try lia
  | |- context [?a =? ?b] => destruct (N.eqb_spec a b); try lia
  | |- context [?a <=? ?b] => destruct (N.leb_spec a b); try lia
  end.

Definition fits64 (n : N) : Prop := n < two64.

(** ** length of minimal big-endian strings *)
Lemma be_bytes_len_le8 n : fits64 n -> len (be_bytes n) <= 8.
Proof.
  unfold fits64, two64. intros Hn.
  destruct (be_bytes n) as [|b r] eqn:E; [cbn; lia|].
  assert (Hn0 : n <> 0) by (intro; subst; discriminate).
  pose proof (be_bytes_hd n Hn0) as Hhd. rewrite E in Hhd. cbn [hd] in Hhd.
  pose proof (be_val_lower b r Hhd) as Hlow. rewrite <- E, be_val_bytes in Hlow.
  rewrite len_cons.
  destruct (N.le_gt_cases (len r) 7) as [|Hgt]; [lia|exfalso].
  assert (256 ^ 8 <= 256 ^ len r) by (apply N.pow_le_mono_r; lia).
  change (256 ^ 8) with 18446744073709551616 in *. lia.
Qed.

Lemma be_bytes_len_pos n : n <> 0 -> 1 <= len (be_bytes n).
Proof.
  intros Hn. destruct (be_bytes n) eqn:E.
  - apply be_bytes_nil in E. contradiction.
  - rewrite len_cons. lia.
Qed.

(** ** readUint *)
Lemma read_uint_ok il n rest :
  56 <= n -> fits64 n ->
  read_uint il (len (be_bytes n)) (be_bytes n ++ rest) = UOk n rest.
Proof.
  intros Hn Hf. unfold read_uint.
  pose proof (be_bytes_len_pos n ltac:(lia)) as Hpos.
  destruct (N.eqb_spec (len (be_bytes n)) 0); [lia|].
  rewrite len_app. destruct (N.ltb_spec (len (be_bytes n) + len rest) (len (be_bytes n))); [lia|].
  rewrite take_app_len, drop_app_len, be_val_bytes.
  destruct (N.eqb_spec (len (be_bytes n)) 1); [reflexivity|].
  destruct (N.eqb_spec (bN (hd x00 (be_bytes n))) 0) as [Hz|]; [|reflexivity].
  exfalso. revert Hz. apply be_bytes_hd. lia.
Qed.

Lemma read_uint_canon il size bs v rest :
  read_uint il size bs = UOk v rest -> size <> 0 -> 56 <= v ->
  bs = be_bytes v ++ rest /\ len (be_bytes v) = size /\ size <= len bs.
Proof.
  unfold read_uint. intros HH Hs Hv.
  destruct (N.eqb_spec size 0); [contradiction|].
  destruct (N.ltb_spec (len bs) size); [discriminate|].
  assert (Hhd : bN (hd x00 (take size bs)) <> 0 -> v = be_val (take size bs) -> rest = drop size bs ->
                bs = be_bytes v ++ rest /\ len (be_bytes v) = size /\ size <= len bs).
  { intros Hnz -> ->. rewrite be_bytes_val by exact Hnz. rewrite take_drop.
    split; [reflexivity|]. split; [apply len_take; lia|lia]. }
  destruct (N.eqb_spec size 1) as [->|].
  - injection HH as Hv' Hr. apply Hhd; auto.
    destruct (take 1 bs) as [|x [|y l]] eqn:Et.
    + pose proof (len_take 1 bs ltac:(lia)) as Hl. rewrite Et in Hl. cbn in Hl. lia.
    + cbn [hd]. rewrite be_val_single in Hv'. lia.
    + pose proof (len_take 1 bs ltac:(lia)) as Hl. rewrite Et, !len_cons in Hl. lia.
  - destruct (N.eqb_spec (bN (hd x00 (take size bs))) 0); [discriminate|].
    injection HH as Hv' Hr. apply Hhd; auto.
Qed.

(** ** headers *)
Lemma head_len_small small large size : size < 56 -> head small large size = [Nb (small + size)].
Proof. intros HH. unfold head. destruct (N.ltb_spec size 56); [reflexivity|lia]. Qed.
Lemma head_len_large small large size :
  56 <= size -> head small large size = Nb (large + len (be_bytes size)) :: be_bytes size.
Proof. intros HH. unfold head. destruct (N.ltb_spec size 56); [lia|reflexivity]. Qed.

(** what a successful [read_kind] says about the input: the header is the canonical one and
    the declared size is within the remaining window *)
Inductive kind_spec (bs : bytes) : kind -> N -> byte -> bytes -> Prop :=
| KSByte b rest : bs = b :: rest -> bN b < 128 -> kind_spec bs KByte 0 b rest
| KSString size rest : bs = str_head size ++ rest -> size <= len rest ->
                       kind_spec bs KString size x00 rest
| KSList size rest : bs = list_head size ++ rest -> size <= len rest ->
                     kind_spec bs KList size x00 rest.

Lemma chk_size_spec il k size rest k' size' bv rest' :
  chk_size il k size rest = KOk k' size' bv rest' ->
  k' = k /\ size' = size /\ bv = x00 /\ rest' = rest /\ size <= len rest.
Proof.
  unfold chk_size. destruct (N.ltb_spec (len rest) size); [discriminate|].
  intros HH. injection HH as <- <- <- <-. auto.
Qed.

Lemma read_kind_canon il bs k size bv rest :
  read_kind il bs = KOk k size bv rest -> kind_spec bs k size bv rest.
Proof.
  unfold read_kind. destruct bs as [|b r]; [discriminate|].
  pose proof (bN_lt b) as Hb.
  destruct (N.ltb_spec (bN b) 128).
  { intros HH. injection HH as <- <- <- <-. constructor; auto. }
  destruct (N.ltb_spec (bN b) 184).
  { intros HH. apply chk_size_spec in HH. destruct HH as (-> & -> & -> & -> & Hs).
    apply KSString; [|exact Hs].
    rewrite (head_len_small 128 183) by lia. cbn [app]. f_equal.
    replace (128 + (bN b - 128)) with (bN b) by lia. symmetry. apply Nb_bN. }
  destruct (N.ltb_spec (bN b) 192).
  { destruct (read_uint il (bN b - 183) r) as [v r'|e] eqn:Eu; [|discriminate].
    destruct (N.ltb_spec v 56); [discriminate|].
    intros HH. apply chk_size_spec in HH. destruct HH as (-> & -> & -> & -> & Hs).
    apply read_uint_canon in Eu; [|lia|lia]. destruct Eu as (-> & Hl & Hle).
    apply KSString; [|exact Hs].
    unfold str_head. rewrite head_len_large by lia. cbn [app]. f_equal.
    rewrite Hl. replace (183 + (bN b - 183)) with (bN b) by lia. symmetry. apply Nb_bN. }
  destruct (N.ltb_spec (bN b) 248).
  { intros HH. apply chk_size_spec in HH. destruct HH as (-> & -> & -> & -> & Hs).
    apply KSList; [|exact Hs].
    rewrite (head_len_small 192 247) by lia. cbn [app]. f_equal.
    replace (192 + (bN b - 192)) with (bN b) by lia. symmetry. apply Nb_bN. }
  { destruct (read_uint il (bN b - 247) r) as [v r'|e] eqn:Eu; [|discriminate].
    destruct (N.ltb_spec v 56); [discriminate|].
    intros HH. apply chk_size_spec in HH. destruct HH as (-> & -> & -> & -> & Hs).
    apply read_uint_canon in Eu; [|lia|lia]. destruct Eu as (-> & Hl & Hle).
    apply KSList; [|exact Hs].
    unfold list_head. rewrite head_len_large by lia. cbn [app]. f_equal.
    rewrite Hl. replace (247 + (bN b - 247)) with (bN b) by lia. symmetry. apply Nb_bN. }
Qed.

(** reading back the canonical headers *)
Lemma read_kind_byte il b rest : bN b < 128 -> read_kind il (b :: rest) = KOk KByte 0 b rest.
Proof. intros HH. unfold read_kind. destruct (N.ltb_spec (bN b) 128); [reflexivity|lia]. Qed.

Lemma read_kind_str_head il size rest :
  size <= len rest -> fits64 size ->
  read_kind il (str_head size ++ rest) = KOk KString size x00 rest.
Proof.
  intros Hs Hf. unfold str_head, head.
  destruct (N.ltb_spec size 56).
  - cbn [app]. unfold read_kind. rewrite bN_Nb by lia.
    destruct (N.ltb_spec (128 + size) 128); [lia|].
    destruct (N.ltb_spec (128 + size) 184); [|lia].
    replace (128 + size - 128) with size by lia.
    unfold chk_size. destruct (N.ltb_spec (len rest) size); [lia|reflexivity].
  - cbn [app]. unfold read_kind.
    pose proof (be_bytes_len_le8 size Hf) as H8.
    pose proof (be_bytes_len_pos size ltac:(lia)) as H1.
    rewrite bN_Nb by lia.
    destruct (N.ltb_spec (183 + len (be_bytes size)) 128); [lia|].
    destruct (N.ltb_spec (183 + len (be_bytes size)) 184); [lia|].
    destruct (N.ltb_spec (183 + len (be_bytes size)) 192); [|lia].
    replace (183 + len (be_bytes size) - 183) with (len (be_bytes size)) by lia.
    rewrite read_uint_ok by assumption.
    destruct (N.ltb_spec size 56); [lia|].
    unfold chk_size. destruct (N.ltb_spec (len rest) size); [lia|reflexivity].
Qed.

Lemma read_kind_list_head il size rest :
  size <= len rest -> fits64 size ->
  read_kind il (list_head size ++ rest) = KOk KList size x00 rest.
Proof.
  intros Hs Hf. unfold list_head, head.
  destruct (N.ltb_spec size 56).
  - cbn [app]. unfold read_kind. rewrite bN_Nb by lia.
    destruct (N.ltb_spec (192 + size) 128); [lia|].
    destruct (N.ltb_spec (192 + size) 184); [lia|].
    destruct (N.ltb_spec (192 + size) 192); [lia|].
    destruct (N.ltb_spec (192 + size) 248); [|lia].
    replace (192 + size - 192) with size by lia.
    unfold chk_size. destruct (N.ltb_spec (len rest) size); [lia|reflexivity].
  - cbn [app]. unfold read_kind.
    pose proof (be_bytes_len_le8 size Hf) as H8.
    pose proof (be_bytes_len_pos size ltac:(lia)) as H1.
    rewrite bN_Nb by lia.
    destruct (N.ltb_spec (247 + len (be_bytes size)) 128); [lia|].
    destruct (N.ltb_spec (247 + len (be_bytes size)) 184); [lia|].
    destruct (N.ltb_spec (247 + len (be_bytes size)) 192); [lia|].
    destruct (N.ltb_spec (247 + len (be_bytes size)) 248); [lia|].
    replace (247 + len (be_bytes size) - 247) with (len (be_bytes size)) by lia.
    rewrite read_uint_ok by assumption.
    destruct (N.ltb_spec size 56); [lia|].
    unfold chk_size. destruct (N.ltb_spec (len rest) size); [lia|reflexivity].
Qed.

(** ** strings *)
Lemma enc_str_cases b :
  (exists x, b = [x] /\ bN x < 128 /\ enc_str b = [x]) \/
  ((forall x, b = [x] -> 128 <= bN x) /\ enc_str b = str_head (len b) ++ b).
Proof.
  destruct b as [|x [|y l]].
  - right. split; [discriminate|reflexivity].
  - unfold enc_str. destruct (N.ltb_spec (bN x) 128).
    + left. eauto.
    + right. split; [|reflexivity]. intros x' E. injection E as <-. assumption.
  - right. split; [discriminate|reflexivity].
Qed.

Lemma dec_bytes_enc il b rest :
  fits64 (len b) -> exists a, dec_bytes il (enc_str b ++ rest) = Ok b rest a.
Proof.
  intros Hf. destruct (enc_str_cases b) as [(x & -> & Hx & ->)|(Hne & ->)].
  - cbn [app]. unfold dec_bytes. rewrite read_kind_byte by assumption. eauto.
  - rewrite <- app_assoc. unfold dec_bytes.
    rewrite read_kind_str_head by (rewrite ?len_app; unfold fits64 in *; lia).
    rewrite take_app_len, drop_app_len.
    destruct (N.eqb_spec (len b) 1) as [E1|]; cbn [andb]; [|eauto].
    destruct b as [|x [|y l]]; try (cbn in E1; rewrite ?len_cons in E1; lia).
    specialize (Hne x eq_refl). cbn [hd].
    destruct (N.ltb_spec (bN x) 128); [lia|]. eauto.
Qed.

Lemma dec_bytes_canon il bs b rest a :
  dec_bytes il bs = Ok b rest a -> bs = enc_str b ++ rest.
Proof.
  unfold dec_bytes.
  destruct (read_kind il bs) as [k size bv r|e] eqn:Ek; [|discriminate].
  apply read_kind_canon in Ek.
  destruct Ek as [bv r -> Hb|size r -> Hs|size r -> Hs].
  - intros HH. injection HH as <- <- _. unfold enc_str.
    destruct (N.ltb_spec (bN bv) 128); [reflexivity|lia].
  - destruct ((size =? 1) && (bN (hd x00 (take size r)) <? 128)) eqn:Ec; [discriminate|].
    intros HH. injection HH as <- <- _.
    assert (Hl : len (take size r) = size) by (apply len_take; assumption).
    rewrite <- (take_drop size r) at 1. rewrite app_assoc. f_equal.
    destruct (take size r) as [|x [|y l]] eqn:Et.
    + cbn in Hl. subst size. reflexivity.
    + rewrite len_cons in Hl. cbn in Hl. subst size. cbn [hd] in Ec.
      unfold enc_str. cbn [N.eqb Pos.eqb andb] in Ec. rewrite Ec. reflexivity.
    + unfold enc_str. rewrite Hl. reflexivity.
  - discriminate.
Qed.

(** ** allocation accounting *)
Definition bounded {A} (r : res A) (bs : bytes) : Prop :=
  match r with Ok _ rest a => a + len rest <= len bs | Err _ a => a <= len bs end.

Lemma kind_spec_len bs k size bv rest :
  kind_spec bs k size bv rest -> len rest < len bs /\ size <= len rest.
Proof.
  intros [b r -> Hb|sz r -> Hs|sz r -> Hs].
  - rewrite len_cons. lia.
  - rewrite len_app. split; [|exact Hs]. unfold str_head, head.
    destruct (sz <? 56); rewrite len_cons; lia.
  - rewrite len_app. split; [|exact Hs]. unfold list_head, head.
    destruct (sz <? 56); rewrite len_cons; lia.
Qed.

Lemma dec_bytes_bounded il bs : bounded (dec_bytes il bs) bs.
Proof.
  unfold dec_bytes. destruct (read_kind il bs) as [k size bv r|e] eqn:Ek; [|cbn; lia].
  apply read_kind_canon, kind_spec_len in Ek. destruct Ek as [Hl Hs].
  destruct k; cbn [bounded]; try lia.
  destruct ((size =? 1) && (bN (hd x00 (take size r)) <? 128)); cbn [bounded].
  - lia.
  - rewrite len_drop. lia.
Qed.

Lemma bounded_bind {A B} (r : res A) (f : A -> bytes -> res B) bs :
  bounded r bs -> (forall v rest, bounded (f v rest) rest) -> bounded (bind r f) bs.
Proof.
  intros Hr Hf. destruct r as [v rest a|e a]; cbn [bind bounded] in *; [|assumption].
  specialize (Hf v rest). destruct (f v rest); cbn [bounded] in *; lia.
Qed.

Lemma bounded_rmap {A B} (g : A -> B) (r : res A) bs : bounded r bs -> bounded (rmap g r) bs.
Proof. destruct r; exact (fun H => H). Qed.

Lemma slice_elems_bounded {A} (elem : bytes -> res A) :
  (forall p, bounded (elem p) p) -> forall n p, bounded (slice_elems elem n p) p.
Proof.
  intros He. induction n as [|n IH]; intros p; destruct p as [|b p']; cbn [slice_elems bounded]; try lia.
  apply bounded_bind; [apply He|]. intros v rest. apply bounded_rmap, IH.
Qed.

Lemma slice_elems_rest_nil {A} (elem : bytes -> res A) n p xs r a :
  slice_elems elem n p = Ok xs r a -> r = [].
Proof.
  revert p xs r a. induction n as [|n IH]; intros p xs r a; destruct p as [|b p']; cbn [slice_elems].
  - intros HH. injection HH as _ <- _. reflexivity.
  - discriminate.
  - intros HH. injection HH as _ <- _. reflexivity.
  - unfold bind. destruct (elem (b :: p')) as [x rest a0|]; [|discriminate].
    destruct (slice_elems elem n rest) as [ys r' a1|] eqn:Es; cbn [rmap]; [|discriminate].
    intros HH. injection HH as _ <- _. eapply IH. exact Es.
Qed.

Lemma dec_list_bounded {A} (elem : bytes -> res A) il bs :
  (forall p, bounded (elem p) p) -> bounded (dec_list elem il bs) bs.
Proof.
  intros He. unfold dec_list.
  destruct (read_kind il bs) as [k size bv r|e] eqn:Ek; [|cbn; lia].
  apply read_kind_canon, kind_spec_len in Ek. destruct Ek as [Hl Hs].
  destruct k; cbn [bounded]; try lia.
  destruct (size =? 0); cbn [bounded]; [lia|].
  pose proof (slice_elems_bounded elem He (length (take size r)) (take size r)) as Hb.
  destruct (slice_elems elem (length (take size r)) (take size r)) as [xs r' a|e a];
    cbn [bounded] in *; rewrite len_take in Hb by assumption.
  - rewrite len_drop. lia.
  - lia.
Qed.

Lemma dec_item_bounded fuel : forall il bs, bounded (dec_item fuel il bs) bs.
Proof.
  induction fuel as [|f IH]; intros il bs; cbn [dec_item]; [cbn; lia|].
  destruct (read_kind il bs) as [k size bv r|e]; [|cbn; lia].
  destruct k; apply bounded_rmap; try apply dec_bytes_bounded.
  apply dec_list_bounded. intros p. apply IH.
Qed.

(** ** lists of encoded values *)
Section Elems.
  Context {A : Type} (enc : A -> bytes) (elem : bytes -> res A).

  Lemma slice_elems_enc xs :
    (forall x, In x xs -> enc x <> [] /\ forall rest, exists a, elem (enc x ++ rest) = Ok x rest a) ->
    forall n, (length (flat_map enc xs) <= n)%nat ->
    exists a, slice_elems elem n (flat_map enc xs) = Ok xs [] a.
  Proof.
    induction xs as [|x xs IH]; intros Hx n Hn.
    - destruct n; cbn; eauto.
    - cbn [flat_map] in *.
      destruct (Hx x (or_introl eq_refl)) as [Hne Hrt].
      destruct (enc x ++ flat_map enc xs) as [|b p'] eqn:E.
      { apply app_eq_nil in E. destruct E. contradiction. }
      destruct n as [|n]; [cbn in Hn; lia|].
      cbn [slice_elems]. rewrite <- E.
      destruct (Hrt (flat_map enc xs)) as [a0 ->]. cbn [bind].
      destruct (IH (fun y Hy => Hx y (or_intror Hy)) n) as [a1 ->].
      + assert (length (enc x) <> 0)%nat by (destruct (enc x); [contradiction|discriminate]).
        rewrite <- E, app_length in Hn. cbn [length] in Hn. lia.
      + cbn [rmap]. eauto.
  Qed.

  Lemma slice_elems_canon :
    (forall p x r a, elem p = Ok x r a -> p = enc x ++ r) ->
    forall n p xs r a, slice_elems elem n p = Ok xs r a -> p = flat_map enc xs /\ r = [].
  Proof.
    intros He. induction n as [|n IH]; intros p xs r a; destruct p as [|b p']; cbn [slice_elems].
    - intros HH. injection HH as <- <- _. auto.
    - discriminate.
    - intros HH. injection HH as <- <- _. auto.
    - unfold bind. destruct (elem (b :: p')) as [x rest a0|] eqn:Ee; [|discriminate].
      destruct (slice_elems elem n rest) as [ys r' a1|] eqn:Es; cbn [rmap]; [|discriminate].
      intros HH. injection HH as <- <- _.
      apply He in Ee. apply IH in Es. destruct Es as [-> ->].
      cbn [flat_map]. auto.
  Qed.

  Lemma dec_list_canon il bs xs rest a :
    (forall p x r a, elem p = Ok x r a -> p = enc x ++ r) ->
    dec_list elem il bs = Ok xs rest a -> bs = enc_list (flat_map enc xs) ++ rest.
  Proof.
    intros He. unfold dec_list.
    destruct (read_kind il bs) as [k size bv r|e] eqn:Ek; [|discriminate].
    apply read_kind_canon in Ek.
    destruct Ek as [bv r -> Hb|size r -> Hs|size r -> Hs]; try discriminate.
    destruct (N.eqb_spec size 0) as [->|Hnz].
    - intros HH. injection HH as <- <- _. reflexivity.
    - destruct (slice_elems elem (length (take size r)) (take size r)) as [ys r' a'|] eqn:Es; [|discriminate].
      intros HH. injection HH as <- <- _.
      apply slice_elems_canon in Es; [|exact He]. destruct Es as [Et _].
      unfold enc_list. rewrite <- Et, len_take by assumption.
      rewrite <- app_assoc, take_drop. reflexivity.
  Qed.

  Lemma dec_list_enc il xs rest :
    (forall x, In x xs -> enc x <> [] /\ forall rest, exists a, elem (enc x ++ rest) = Ok x rest a) ->
    fits64 (len (flat_map enc xs)) ->
    exists a, dec_list elem il (enc_list (flat_map enc xs) ++ rest) = Ok xs rest a.
  Proof.
    intros Hx Hf. unfold dec_list, enc_list. rewrite <- app_assoc.
    rewrite read_kind_list_head by (rewrite ?len_app; unfold fits64 in *; lia).
    destruct (N.eqb_spec (len (flat_map enc xs)) 0) as [E0|Hnz].
    - apply len_0 in E0.
      destruct xs as [|x xs'].
      + rewrite E0. cbn [app]. eauto.
      + exfalso. cbn [flat_map] in E0. apply app_eq_nil in E0.
        destruct (Hx x (or_introl eq_refl)) as [Hne _]. tauto.
    - rewrite take_app_len, drop_app_len.
      destruct (slice_elems_enc xs Hx (length (flat_map enc xs)) (le_n _)) as [a ->]. eauto.
  Qed.
End Elems.

(** ** items *)
Fixpoint item_ind' (P : item -> Prop) (HS : forall b, P (Str b))
  (HL : forall l, Forall P l -> P (List l)) (x : item) : P x :=
  match x with
  | Str b => HS b
  | List l => HL l ((fix go (l : list item) : Forall P l :=
                       match l with
                       | [] => Forall_nil P
                       | y :: t => Forall_cons y (item_ind' P HS HL y) (go t)
                       end) l)
  end.

Lemma enc_str_nonempty b : enc_str b <> [].
Proof.
  destruct (enc_str_cases b) as [(x & -> & _ & ->)|(_ & ->)]; [discriminate|].
  unfold str_head, head. destruct (len b <? 56); discriminate.
Qed.

Lemma encode_nonempty x : encode x <> [].
Proof.
  destruct x; cbn [encode]; [apply enc_str_nonempty|].
  unfold enc_list, list_head, head. destruct (_ <? 56); discriminate.
Qed.

Lemma len_enc_str_ge b : len b <= len (enc_str b).
Proof.
  destruct (enc_str_cases b) as [(x & -> & _ & ->)|(_ & ->)]; [lia|]. rewrite len_app. lia.
Qed.

Lemma in_flat_map_len {A} (f : A -> bytes) x xs : In x xs -> len (f x) <= len (flat_map f xs).
Proof.
  induction xs as [|y xs IH]; [contradiction|]. intros [->|Hin]; cbn [flat_map]; rewrite len_app.
  - lia.
  - specialize (IH Hin). lia.
Qed.

Lemma dec_item_enc x : forall fuel il rest,
  (length (encode x) < fuel)%nat -> fits64 (len (encode x)) ->
  exists a, dec_item fuel il (encode x ++ rest) = Ok x rest a.
Proof.
  induction x as [b|l IH] using item_ind'; intros fuel il rest Hfuel Hf.
  - destruct fuel as [|f]; [lia|]. cbn [dec_item encode].
    assert (Hfb : fits64 (len b)).
    { cbn [encode] in Hf. pose proof (len_enc_str_ge b). unfold fits64 in *. lia. }
    destruct (dec_bytes_enc il b rest Hfb) as [a Hd].
    destruct (enc_str_cases b) as [(x & -> & Hx & E)|(Hne & E)].
    + rewrite E in *. cbn [app] in *. rewrite read_kind_byte by assumption. rewrite Hd. cbn. eauto.
    + rewrite E in *. rewrite <- app_assoc in *.
      rewrite read_kind_str_head by (rewrite ?len_app; unfold fits64 in *; lia).
      rewrite Hd. cbn. eauto.
  - destruct fuel as [|f]; [lia|]. cbn [dec_item encode] in *.
    assert (Hlp : len (flat_map encode l) < len (enc_list (flat_map encode l))).
    { unfold enc_list. rewrite len_app. unfold list_head, head.
      destruct (_ <? 56); rewrite len_cons; lia. }
    assert (Hfp : fits64 (len (flat_map encode l))) by (unfold fits64 in *; lia).
    assert (Hk : read_kind il (enc_list (flat_map encode l) ++ rest)
                 = KOk KList (len (flat_map encode l)) x00 (flat_map encode l ++ rest)).
    { unfold enc_list. rewrite <- app_assoc. apply read_kind_list_head; [rewrite len_app; lia|assumption]. }
    rewrite Hk.
    destruct (dec_list_enc encode (dec_item f true) il l rest) as [a ->]; [|assumption|cbn; eauto].
    intros y Hy. split; [apply encode_nonempty|]. intros rest'.
    rewrite Forall_forall in IH. apply IH; [exact Hy| |].
    + pose proof (in_flat_map_len encode y l Hy) as Hle. unfold len in *. lia.
    + pose proof (in_flat_map_len encode y l Hy). unfold fits64 in *. lia.
Qed.

Lemma dec_item_canon fuel : forall il bs x rest a,
  dec_item fuel il bs = Ok x rest a -> bs = encode x ++ rest.
Proof.
  induction fuel as [|f IH]; intros il bs x rest a; cbn [dec_item]; [discriminate|].
  destruct (read_kind il bs) as [k size bv r|e] eqn:Ek; [|discriminate].
  assert (Hstr : rmap Str (dec_bytes il bs) = Ok x rest a -> bs = encode x ++ rest).
  { destruct (dec_bytes il bs) as [b r' a'|] eqn:Ed; cbn [rmap]; [|discriminate].
    intros HH. injection HH as <- <- _. cbn [encode]. eapply dec_bytes_canon. exact Ed. }
  destruct k; try exact Hstr.
  destruct (dec_list (dec_item f true) il bs) as [l r' a'|] eqn:Ed; cbn [rmap]; [|discriminate].
  intros HH. injection HH as <- <- _. cbn [encode].
  eapply (dec_list_canon encode); [|exact Ed].
  intros p y r0 a0. apply IH.
Qed.
