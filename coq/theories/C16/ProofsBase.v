(** C16 — basic lemmas: bytes, big-endian integers, headers, [read_kind]. *)
From Coq Require Import List ZArith NArith Bool Lia Arith.
From Coq Require Import Init.Byte.
From Kardia Require Import C16.Model.
Import ListNotations.
Local Open Scope N_scope.
Ltac Zify.zify_post_hook ::= Z.to_euclidean_division_equations.

(** ** bytes *)
Lemma bN_lt (b : byte) : bN b < 256.
Proof. unfold bN. pose proof (Byte.to_N_bounded b). lia. Qed.

Lemma bN_Nb (n : N) : n < 256 -> bN (Nb n) = n.
Proof.
  intros Hn. unfold bN, Nb. destruct (Byte.of_N n) eqn:E.
  - apply Byte.to_of_N. exact E.
  - apply Byte.of_N_None_iff in E. lia.
Qed.

Lemma Nb_bN (b : byte) : Nb (bN b) = b.
Proof. unfold Nb, bN. rewrite Byte.of_to_N. reflexivity. Qed.

Lemma bN_inj (a b : byte) : bN a = bN b -> a = b.
Proof. intros H. rewrite <- (Nb_bN a), <- (Nb_bN b), H. reflexivity. Qed.

(** ** len / take / drop *)
Lemma len_nil {A} : len (@nil A) = 0. Proof. reflexivity. Qed.
Lemma len_cons {A} (x : A) l : len (x :: l) = 1 + len l.
Proof. unfold len. cbn [length]. lia. Qed.
Lemma len_app {A} (a b : list A) : len (a ++ b) = len a + len b.
Proof. unfold len. rewrite app_length. lia. Qed.
Lemma len_rev {A} (a : list A) : len (rev a) = len a.
Proof. unfold len. rewrite rev_length. reflexivity. Qed.
Lemma len_0 {A} (l : list A) : len l = 0 -> l = [].
Proof. destruct l; [reflexivity|]. rewrite len_cons. lia. Qed.

Lemma take_app_len {A} (a b : list A) : take (len a) (a ++ b) = a.
Proof.
  unfold take, len. rewrite Nat2N.id.
  rewrite firstn_app, Nat.sub_diag, firstn_all. cbn. apply app_nil_r.
Qed.
Lemma drop_app_len {A} (a b : list A) : drop (len a) (a ++ b) = b.
Proof.
  unfold drop, len. rewrite Nat2N.id.
  rewrite skipn_app, Nat.sub_diag, skipn_all. reflexivity.
Qed.
Lemma take_drop {A} n (l : list A) : take n l ++ drop n l = l.
Proof. apply firstn_skipn. Qed.
Lemma len_take {A} n (l : list A) : n <= len l -> len (take n l) = n.
Proof. unfold take, len. intros H. rewrite firstn_length_le by lia. lia. Qed.
Lemma len_take_le {A} n (l : list A) : len (take n l) <= len l.
Proof. unfold take, len. rewrite firstn_length. lia. Qed.
Lemma len_drop {A} n (l : list A) : len (drop n l) = len l - n.
Proof. unfold drop, len. rewrite skipn_length. lia. Qed.

(** ** little/big endian *)
Lemma le_val_app a b : le_val (a ++ b) = le_val a + 256 ^ len a * le_val b.
Proof.
  induction a as [|x a IH].
  - cbn [app le_val]. change (len (@nil byte)) with 0. rewrite N.pow_0_r. lia.
  - cbn [app le_val]. rewrite IH, len_cons.
    replace (1 + len a) with (N.succ (len a)) by lia. rewrite N.pow_succ_r'. lia.
Qed.

Lemma le_val_bound bs : le_val bs < 256 ^ len bs.
Proof.
  induction bs as [|x a IH].
  - cbn. lia.
  - cbn [le_val]. rewrite len_cons.
    replace (1 + len a) with (N.succ (len a)) by lia. rewrite N.pow_succ_r'.
    pose proof (bN_lt x). lia.
Qed.

Lemma le_bytes_val fuel n : n < 2 ^ N.of_nat fuel -> le_val (le_bytes fuel n) = n.
Proof.
  revert n. induction fuel as [|f IH]; intros n Hn.
  - cbn in Hn. cbn. lia.
  - cbn [le_bytes]. destruct (n =? 0) eqn:E.
    + apply N.eqb_eq in E. subst. reflexivity.
    + cbn [le_val]. rewrite bN_Nb by (apply N.mod_upper_bound; lia).
      rewrite IH.
      * pose proof (N.div_mod n 256). lia.
      * rewrite Nat2N.inj_succ, N.pow_succ_r' in Hn.
        apply N.eqb_neq in E.
        assert (n / 256 <= n / 2).
        { apply N.div_le_compat_l. lia. }
        assert (n / 2 < 2 ^ N.of_nat f) by (apply N.div_lt_upper_bound; lia).
        lia.
Qed.

Lemma pos_size_nat_bound p : N.pos p < 2 ^ N.of_nat (Pos.size_nat p).
Proof.
  induction p as [p IH|p IH|]; cbn [Pos.size_nat]; rewrite ?Nat2N.inj_succ, ?N.pow_succ_r'.
  - change (N.pos p~1) with (2 * N.pos p + 1). lia.
  - change (N.pos p~0) with (2 * N.pos p). lia.
  - cbn. lia.
Qed.

Lemma size_nat_bound n : n < 2 ^ N.of_nat (N.size_nat n).
Proof. destruct n as [|p]; [cbn; lia|]. apply pos_size_nat_bound. Qed.

Lemma be_val_bytes n : be_val (be_bytes n) = n.
Proof.
  unfold be_val, be_bytes. rewrite rev_involutive. apply le_bytes_val, size_nat_bound.
Qed.

(** last element of a little-endian string is its most significant byte *)
Lemma le_bytes_le_val bs : (forall l x, bs = l ++ [x] -> bN x <> 0) ->
  forall fuel, (length bs <= fuel)%nat -> le_bytes fuel (le_val bs) = bs.
Proof.
  induction bs as [|b r IH]; intros Hlast fuel Hf.
  - destruct fuel; reflexivity.
  - destruct fuel as [|f]; [cbn in Hf; lia|].
    cbn [le_bytes le_val].
    assert (Hnz : bN b + 256 * le_val r <> 0).
    { destruct r as [|y r'].
      - specialize (Hlast [] b eq_refl). cbn. lia.
      - intro H0.
        assert (Hr : le_val (y :: r') = 0) by lia.
        (* the last byte of y :: r' is non-zero, so its value is non-zero *)
        destruct (@exists_last _ (y :: r') ltac:(discriminate)) as (l & x & El).
        rewrite El, le_val_app in Hr. cbn [le_val] in Hr.
        specialize (Hlast (b :: l) x). rewrite El in Hlast. specialize (Hlast eq_refl).
        assert (0 < 256 ^ len l) by (apply N.neq_0_lt_0, N.pow_nonzero; lia).
        nia. }
    destruct (bN b + 256 * le_val r =? 0) eqn:E; [apply N.eqb_eq in E; contradiction|].
    pose proof (bN_lt b).
    replace ((bN b + 256 * le_val r) mod 256) with (bN b)
      by lia.
    replace ((bN b + 256 * le_val r) / 256) with (le_val r)
      by lia.
    rewrite Nb_bN. f_equal.
    destruct r as [|y r'].
    + destruct f; reflexivity.
    + apply IH.
      * intros l x El. apply (Hlast (b :: l) x). rewrite El. reflexivity.
      * cbn [length] in *. lia.
Qed.

Lemma le_val_size bs : (N.size_nat (le_val bs) <= 8 * length bs)%nat.
Proof.
  pose proof (le_val_bound bs) as Hb.
  destruct (le_val bs) as [|p] eqn:E; [cbn; lia|].
  cbn [N.size_nat].
  (* p < 256^len = 2^(8 len) -> size p <= 8 len *)
  assert (H2 : N.pos p < 2 ^ (8 * len bs)).
  { rewrite N.pow_mul_r. exact Hb. }
  clear Hb E. unfold len in H2.
  replace (8 * N.of_nat (length bs)) with (N.of_nat (8 * length bs)) in H2 by lia.
  generalize dependent (8 * length bs)%nat. clear bs.
  induction p as [p IH|p IH|]; intros k Hk; cbn [Pos.size_nat].
  - destruct k as [|k]; [cbn in Hk; lia|].
    rewrite Nat2N.inj_succ, N.pow_succ_r' in Hk.
    change (N.pos p~1) with (2 * N.pos p + 1) in Hk. specialize (IH k). lia.
  - destruct k as [|k]; [cbn in Hk; lia|].
    rewrite Nat2N.inj_succ, N.pow_succ_r' in Hk.
    change (N.pos p~0) with (2 * N.pos p) in Hk. specialize (IH k). lia.
  - destruct k as [|k]; [cbn in Hk; lia|]. lia.
Qed.

Lemma le_val_lower bs l x : bs = l ++ [x] -> bN x <> 0 -> 256 ^ len l <= le_val bs.
Proof.
  intros -> Hx. rewrite le_val_app. cbn [le_val].
  assert (0 < 256 ^ len l) by (apply N.neq_0_lt_0, N.pow_nonzero; lia). nia.
Qed.

Lemma size_nat_lower n k : 2 ^ N.of_nat k <= n -> (k < N.size_nat n)%nat.
Proof.
  intros H. pose proof (size_nat_bound n) as Hb.
  destruct (Nat.lt_ge_cases k (N.size_nat n)) as [|Hge]; [assumption|exfalso].
  assert (2 ^ N.of_nat (N.size_nat n) <= 2 ^ N.of_nat k) by (apply N.pow_le_mono_r; lia).
  lia.
Qed.

Lemma be_bytes_val bs : bN (hd x00 bs) <> 0 -> be_bytes (be_val bs) = bs.
Proof.
  intros Hhd. unfold be_bytes, be_val.
  destruct bs as [|b r]; [reflexivity|].
  assert (Hlast : forall l x, rev (b :: r) = l ++ [x] -> bN x <> 0).
  { intros l x El. cbn [rev] in El. apply app_inj_tail in El. destruct El as [_ <-]. exact Hhd. }
  rewrite le_bytes_le_val.
  - apply rev_involutive.
  - exact Hlast.
  - rewrite rev_length. cbn [rev].
    pose proof (le_val_lower (rev r ++ [b]) (rev r) b eq_refl Hhd) as Hlow.
    assert (Hk : 2 ^ N.of_nat (length r) <= le_val (rev r ++ [b])).
    { etransitivity; [|exact Hlow]. rewrite len_rev. unfold len.
      change 256 with (2 ^ 8). rewrite <- N.pow_mul_r. apply N.pow_le_mono_r; lia. }
    apply size_nat_lower in Hk. cbn [length]. lia.
Qed.

Lemma be_bytes_0 : be_bytes 0 = []. Proof. reflexivity. Qed.

Lemma le_bytes_last fuel : forall m l' x,
  m < 2 ^ N.of_nat fuel -> le_bytes fuel m = l' ++ [x] -> bN x <> 0.
Proof.
  induction fuel as [|f IH]; intros m l' x Hm E.
  - cbn in E. destruct l'; discriminate.
  - cbn [le_bytes] in E. destruct (m =? 0) eqn:Em; [destruct l'; discriminate|].
    apply N.eqb_neq in Em.
    rewrite Nat2N.inj_succ, N.pow_succ_r' in Hm.
    assert (Hdiv : m / 256 < 2 ^ N.of_nat f).
    { assert (m / 256 <= m / 2) by (apply N.div_le_compat_l; lia).
      assert (m / 2 < 2 ^ N.of_nat f) by (apply N.div_lt_upper_bound; lia). lia. }
    destruct l' as [|y l''].
    + cbn [app] in E. injection E as Ex Et. subst x.
      rewrite bN_Nb by (apply N.mod_upper_bound; lia).
      assert (Hq : m / 256 = 0).
      { destruct f as [|f'].
        - cbn in Hdiv. lia.
        - cbn [le_bytes] in Et. destruct (m / 256 =? 0) eqn:Eq; [apply N.eqb_eq in Eq; exact Eq|discriminate]. }
      pose proof (N.div_mod m 256). lia.
    + cbn [app] in E. injection E as _ Et. eapply IH; [exact Hdiv|exact Et].
Qed.

Lemma be_bytes_hd n : n <> 0 -> bN (hd x00 (be_bytes n)) <> 0.
Proof.
  intros Hn. unfold be_bytes.
  remember (le_bytes (N.size_nat n) n) as l eqn:El.
  destruct l as [|b r] using rev_ind.
  - exfalso. pose proof (le_bytes_val (N.size_nat n) n (size_nat_bound n)) as Hv.
    rewrite <- El in Hv. cbn in Hv. congruence.
  - rewrite rev_app_distr. cbn [rev app hd].
    eapply le_bytes_last; [apply size_nat_bound|]. symmetry. exact El.
Qed.

Lemma be_bytes_nil n : be_bytes n = [] -> n = 0.
Proof. intros H. rewrite <- (be_val_bytes n), H. reflexivity. Qed.

Lemma be_val_bound bs : be_val bs < 256 ^ len bs.
Proof. unfold be_val. rewrite <- len_rev. apply le_val_bound. Qed.

(** value of a byte string with non-zero head is at least 256^(len-1) *)
Lemma be_val_lower b r : bN b <> 0 -> 256 ^ len r <= be_val (b :: r).
Proof.
  intros Hb. unfold be_val. cbn [rev]. rewrite <- len_rev.
  eapply le_val_lower; [reflexivity|exact Hb].
Qed.

Lemma be_val_single b : be_val [b] = bN b.
Proof. unfold be_val. cbn. lia. Qed.
