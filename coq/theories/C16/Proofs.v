(** C16 — final lemmas in the form of the property theorems (item level). *)
From Coq Require Import List ZArith NArith Bool Lia Arith.
From Coq Require Import Init.Byte.
From Kardia Require Import C16.Model C16.ProofsBase C16.ProofsItem.
Import ListNotations.
Local Open Scope N_scope.

Lemma decode_encode x rest :
  len (encode x) < two64 -> exists a, decode (encode x ++ rest) = Ok x rest a.
Proof.
  intros Hf. unfold decode. apply dec_item_enc; [|exact Hf].
  rewrite app_length. lia.
Qed.

Lemma canonical bs x rest a : decode bs = Ok x rest a -> bs = encode x ++ rest.
Proof. unfold decode. apply dec_item_canon. Qed.

Lemma decode_bytes_exact bs x rest a :
  decode_bytes_item bs = Ok x rest a -> rest = [] /\ bs = encode x.
Proof.
  unfold decode_bytes_item, exactly_one.
  destruct (decode bs) as [y r a'|e a'] eqn:Ed; [|discriminate].
  destruct r as [|b r']; [|discriminate].
  intros HH. injection HH as <- <- _. split; [reflexivity|].
  apply canonical in Ed. rewrite app_nil_r in Ed. exact Ed.
Qed.

Lemma prefix_free x y r1 r2 :
  len (encode x) < two64 -> len (encode y) < two64 ->
  encode x ++ r1 = encode y ++ r2 -> x = y /\ r1 = r2.
Proof.
  intros Hx Hy E.
  destruct (decode_encode x r1 Hx) as [a Ha].
  destruct (decode_encode y r2 Hy) as [b Hb].
  rewrite E, Hb in Ha. injection Ha as -> -> _. auto.
Qed.

Lemma encode_injective x y : len (encode x) < two64 -> encode x = encode y -> x = y.
Proof.
  intros Hx E. apply (prefix_free x y [] []); [assumption|rewrite <- E; assumption|].
  rewrite E. reflexivity.
Qed.

Lemma size_checked il bs k size bv rest :
  read_kind il bs = KOk k size bv rest -> size <= len rest /\ len rest < len bs.
Proof. intros HH. apply read_kind_canon, kind_spec_len in HH. tauto. Qed.

Lemma size_bound bs :
  match decode bs with
  | Ok _ rest alloc => alloc + len rest <= len bs
  | Err _ alloc => alloc <= len bs
  end.
Proof. exact (dec_item_bounded _ false bs). Qed.

(** the classic non-canonical shapes, by computation *)
Definition bs_of (l : list N) : bytes := map Nb l.
Lemma reject_wrapped_single_byte : decode (bs_of [129; 5]) = Err ECanonSize 1.
Proof. vm_compute. reflexivity. Qed.
Lemma reject_long_form_short_size : decode (bs_of [184; 1; 200]) = Err ECanonSize 0.
Proof. vm_compute. reflexivity. Qed.
Lemma reject_leading_zero_length :
  decode (bs_of (185 :: 0 :: 56 :: repeat 1 56)) = Err ECanonSize 0.
Proof. vm_compute. reflexivity. Qed.
Lemma reject_truncated : decode (bs_of [131; 1; 2]) = Err EValueTooLarge 0.
Proof. vm_compute. reflexivity. Qed.
Lemma reject_trailing : decode_bytes_item (bs_of [1; 2]) = Err EMoreThanOne 1.
Proof. vm_compute. reflexivity. Qed.
Lemma accept_example :
  decode (bs_of [200; 131; 99; 97; 116; 131; 100; 111; 103]) =
  Ok (List [Str (bs_of [99; 97; 116]); Str (bs_of [100; 111; 103])]) [] 6.
Proof. vm_compute. reflexivity. Qed.
