(** C16 — typed layer: canonicity for the core type universe (uints, byte slices, strings,
    interface{} items, lists and tag-free structs of these, nested), and the refutation of
    canonicity under rlp:"optional". *)
From Coq Require Import List ZArith NArith Bool Lia Arith.
From Coq Require Import Init.Byte.
From Kardia Require Import C16.Model C16.ProofsBase C16.ProofsItem C16.Proofs.
Import ListNotations.
Local Open Scope N_scope.
Ltac Zify.zify_post_hook ::= Z.to_euclidean_division_equations.

Scheme ty_mut := Induction for ty Sort Prop
  with fields_mut := Induction for fields Sort Prop.
Combined Scheme ty_fields_ind from ty_mut, fields_mut.

(** the core universe: no struct tags at all *)
Fixpoint core (t : ty) : Prop :=
  match t with
  | TUint _ | TBytes | TString | TIface => True
  | TList e => core e
  | TStruct fs => core_fields fs
  | _ => False
  end
with core_fields (fs : fields) : Prop :=
  match fs with
  | FNil => True
  | FCons t tg r => tg = no_tag /\ core t /\ core_fields r
  end.

(** ** uints *)
Lemma read_uint_spec il size r v r' :
  read_uint il size r = UOk v r' -> size <= len r ->
  r = take size r ++ r' /\ v = be_val (take size r) /\
  (size <= 1 \/ bN (hd x00 (take size r)) <> 0).
Proof.
  unfold read_uint. intros HH Hs.
  destruct (N.eqb_spec size 0) as [->|Hnz].
  - injection HH as <- <-. unfold take. cbn [N.to_nat firstn app].
    split; [reflexivity|]. split; [reflexivity|left; lia].
  - destruct (N.ltb_spec (len r) size); [lia|].
    destruct (N.eqb_spec size 1) as [->|].
    + injection HH as <- <-. rewrite take_drop. split; [reflexivity|]. split; [reflexivity|left; lia].
    + destruct (N.eqb_spec (bN (hd x00 (take size r))) 0); [discriminate|].
      injection HH as <- <-. rewrite take_drop. auto.
Qed.

Lemma enc_uint_byte bv : bN bv <> 0 -> bN bv < 128 -> enc_uint (bN bv) = [bv].
Proof.
  intros Hnz Hlt. unfold enc_uint. rewrite <- be_val_single, be_bytes_val by exact Hnz.
  unfold enc_str. destruct (N.ltb_spec (bN bv) 128); [reflexivity|lia].
Qed.

Lemma dec_uint_canon bits il bs n rest a :
  dec_uint bits il bs = Ok n rest a -> bs = enc_uint n ++ rest.
Proof.
  unfold dec_uint.
  destruct (read_kind il bs) as [k size bv r|e] eqn:Ek; [|discriminate].
  apply read_kind_canon in Ek.
  destruct Ek as [bv r -> Hb|size r -> Hs|size r -> Hs]; [| |discriminate].
  - destruct (N.eqb_spec (bN bv) 0); [discriminate|].
    intros HH. injection HH as <- <- _. rewrite enc_uint_byte by assumption. reflexivity.
  - destruct (bits / 8 <? size); [discriminate|].
    destruct (read_uint il size r) as [v r'|e] eqn:Eu; [|destruct e; discriminate].
    destruct ((0 <? size) && (v <? 128)) eqn:Ec; [discriminate|].
    intros HH. injection HH as <- <- _.
    apply read_uint_spec in Eu; [|assumption]. destruct Eu as (Er & -> & Hhd).
    assert (Hl : len (take size r) = size) by (apply len_take; assumption).
    rewrite Er at 1. rewrite app_assoc. f_equal.
    unfold enc_uint.
    destruct (take size r) as [|x [|y l]] eqn:Et.
    + cbn in Hl. subst size. reflexivity.
    + rewrite len_cons in Hl. cbn in Hl. subst size. cbn [N.ltb N.compare Pos.compare andb] in Ec.
      change (0 <? 1) with true in Ec. cbn [andb] in Ec.
      rewrite be_val_single in *. apply N.ltb_ge in Ec.
      rewrite <- be_val_single, be_bytes_val by (cbn [hd]; lia).
      unfold enc_str. destruct (N.ltb_spec (bN x) 128); [lia|reflexivity].
    + destruct Hhd as [Hle|Hhd]; [rewrite <- Hl, !len_cons in Hle; lia|].
      rewrite be_bytes_val by exact Hhd. unfold enc_str. rewrite Hl. reflexivity.
Qed.

(** ** structs without tags *)
Lemma trim_tail_all_kept l : trim_tail (map (fun e => (false, e)) l) = l.
Proof.
  induction l as [|e l IH]; [reflexivity|]. cbn [map trim_tail]. rewrite IH.
  destruct l; reflexivity.
Qed.

(** payload of a tag-free struct: the concatenation of the field encodings *)
Fixpoint plain_fields (fs : fields) (vs : list val) : list bytes :=
  match fs, vs with
  | FCons t tg r, v :: vs' => enc_val t tg v :: plain_fields r vs'
  | _, _ => []
  end.

Lemma enc_fields_core fs : core_fields fs -> forall vs,
  enc_fields fs false vs = map (fun e => (false, e)) (plain_fields fs vs).
Proof.
  induction fs as [|t tg r IH]; intros Hc vs; [destruct vs; reflexivity|].
  destruct Hc as (-> & _ & Hr). destruct vs as [|v vs']; [reflexivity|].
  cbn [enc_fields plain_fields map no_tag t_ignored t_optional orb andb].
  rewrite IH by assumption. reflexivity.
Qed.

Lemma enc_struct_core fs vs : core_fields fs ->
  enc_val (TStruct fs) no_tag (VStruct vs) = enc_list (concat (plain_fields fs vs)).
Proof.
  intros Hc. cbn [enc_val]. rewrite enc_fields_core by assumption.
  rewrite trim_tail_all_kept. reflexivity.
Qed.

(** ** canonicity for the core universe *)
Definition canon_at (t : ty) : Prop :=
  core t -> forall il bs v rest a,
    dec_val t no_tag il bs = Ok v rest a -> bs = enc_val t no_tag v ++ rest.
Definition canon_fields_at (fs : fields) : Prop :=
  core_fields fs -> forall p vs rest a,
    dec_fields fs p = Ok vs rest a -> p = concat (plain_fields fs vs) ++ rest.

Lemma rmap_ok {A B} (g : A -> B) (r : res A) w rest a :
  rmap g r = Ok w rest a -> exists v, r = Ok v rest a /\ w = g v.
Proof. destruct r; cbn [rmap]; [|discriminate]. intros HH. injection HH as <- <- <-. eauto. Qed.

Lemma typed_canon_mut : (forall t, canon_at t) /\ (forall fs, canon_fields_at fs).
Proof.
  apply ty_fields_ind; unfold canon_at, canon_fields_at; try (intros; cbn [core] in *; contradiction).
  - (* TUint *) intros bits _ il bs v rest a HH. cbn [dec_val] in HH.
    apply rmap_ok in HH. destruct HH as (n & Hd & ->). cbn [enc_val].
    eapply dec_uint_canon. exact Hd.
  - (* TBytes *) intros _ il bs v rest a HH. cbn [dec_val] in HH.
    apply rmap_ok in HH. destruct HH as (b & Hd & ->). cbn [enc_val].
    eapply dec_bytes_canon. exact Hd.
  - (* TString *) intros _ il bs v rest a HH. cbn [dec_val] in HH.
    apply rmap_ok in HH. destruct HH as (b & Hd & ->). cbn [enc_val].
    eapply dec_bytes_canon. exact Hd.
  - (* TList *) intros e IH Hc il bs v rest a HH. cbn [core] in Hc.
    cbn [dec_val no_tag t_tail] in HH.
    apply rmap_ok in HH. destruct HH as (l & Hd & ->).
    apply (dec_list_canon (enc_val e no_tag)) in Hd.
    + rewrite Hd. cbn [enc_val no_tag t_tail]. destruct l as [|x l']; [reflexivity|reflexivity].
    + intros p x r a0 Hp. eapply IH; [exact Hc|exact Hp].
  - (* TStruct *) intros fs IH Hc il bs v rest a HH. cbn [core] in Hc.
    cbn [dec_val] in HH.
    destruct (read_kind il bs) as [k size bv r|e] eqn:Ek; [|discriminate].
    apply read_kind_canon in Ek.
    destruct Ek as [bv r -> Hb|size r -> Hs|size r -> Hs]; try discriminate.
    destruct (dec_fields fs (take size r)) as [vs r' a'|] eqn:Ed; [|discriminate].
    destruct r' as [|b r'']; [|discriminate].
    injection HH as <- <- _.
    apply IH in Ed; [|exact Hc]. rewrite app_nil_r in Ed.
    rewrite enc_struct_core by exact Hc. unfold enc_list.
    rewrite <- Ed, len_take by assumption. rewrite <- app_assoc, take_drop. reflexivity.
  - (* TIface *) intros _ il bs v rest a HH. cbn [dec_val] in HH.
    apply rmap_ok in HH. destruct HH as (x & Hd & ->). cbn [enc_val].
    eapply dec_item_canon. exact Hd.
  - (* FNil *) intros _ p vs rest a HH. cbn [dec_fields] in HH. injection HH as <- <- _. reflexivity.
  - (* FCons *) intros t IHt tg r IHr (-> & Hct & Hcr) p vs rest a HH.
    cbn [dec_fields no_tag t_ignored t_tail t_optional] in HH.
    destruct p as [|b p']; [discriminate|].
    unfold bind in HH.
    destruct (dec_val t no_tag true (b :: p')) as [v r1 a1|] eqn:Ev; [|discriminate].
    destruct (dec_fields r r1) as [vs' r2 a2|] eqn:Ef; cbn [rmap] in HH; [|discriminate].
    injection HH as <- <- _.
    apply IHt in Ev; [|exact Hct]. apply IHr in Ef; [|exact Hcr].
    cbn [plain_fields concat]. change (mkTag false false false NoNil) with no_tag.
    rewrite Ev, Ef, app_assoc. reflexivity.
Qed.

Lemma typed_canonical_core t il bs v rest a :
  core t -> dec_val t no_tag il bs = Ok v rest a -> bs = enc_val t no_tag v ++ rest.
Proof. intros Hc. apply (proj1 typed_canon_mut t Hc). Qed.

Lemma typed_decode_bytes_exact_core t bs v rest a :
  core t -> decode_bytes t bs = Ok v rest a -> rest = [] /\ bs = encode_to_bytes t v.
Proof.
  intros Hc. unfold decode_bytes, exactly_one, encode_to_bytes.
  destruct (dec_val t no_tag false bs) as [w r a'|] eqn:Ed; [|discriminate].
  destruct r as [|b r']; [|discriminate].
  intros HH. injection HH as <- <- _. split; [reflexivity|].
  apply typed_canonical_core in Ed; [|exact Hc]. rewrite app_nil_r in Ed. exact Ed.
Qed.

(** ** rlp:"optional" breaks canonicity: struct{A uint64; B uint64 `rlp:"optional"`} *)
Definition opt_tag : tag := mkTag true false false NoNil.
Definition ty_SO : ty := TStruct (FCons (TUint 64) no_tag (FCons (TUint 64) opt_tag FNil)).

Lemma optional_refuted :
  exists bs v,
    decode_bytes ty_SO bs = Ok v [] 0 /\ encode_to_bytes ty_SO v <> bs /\
    decode_bytes ty_SO (encode_to_bytes ty_SO v) = Ok v [] 0.
Proof.
  exists (bs_of [194; 5; 128]), (VStruct [VUint 5; VUint 0]).
  split; [vm_compute; reflexivity|]. split; [vm_compute; discriminate|vm_compute; reflexivity].
Qed.
