(** C16 — allocation bound for the typed decoder: on every input the input-controlled
    allocation is bounded by the bytes consumed. *)
From Coq Require Import List ZArith NArith Bool Lia Arith.
From Coq Require Import Init.Byte.
From Kardia Require Import C16.Model C16.ProofsBase C16.ProofsItem C16.Proofs C16.ProofsTyped.
Import ListNotations.
Local Open Scope N_scope.
Ltac Zify.zify_post_hook ::= Z.to_euclidean_division_equations.

Lemma read_uint_rest il size r v r' : read_uint il size r = UOk v r' -> len r' <= len r.
Proof.
  unfold read_uint. destruct (size =? 0); [intros HH; injection HH as _ <-; lia|].
  destruct (len r <? size); [discriminate|].
  destruct (size =? 1); [intros HH; injection HH as _ <-; rewrite len_drop; lia|].
  destruct (bN (hd x00 (take size r)) =? 0); [discriminate|].
  intros HH; injection HH as _ <-; rewrite len_drop; lia.
Qed.

Ltac kind_cases Ek Hl Hs :=
  match goal with
  | |- context [read_kind ?il ?bs] =>
    destruct (read_kind il bs) as [k size bv r|e] eqn:Ek; [|cbn; lia];
    pose proof (kind_spec_len _ _ _ _ _ (read_kind_canon _ _ _ _ _ _ Ek)) as [Hl Hs]
  end.

Lemma dec_uint_bounded bits il bs : bounded (dec_uint bits il bs) bs.
Proof.
  unfold dec_uint. kind_cases Ek Hl Hs. destruct k; cbn [bounded]; try lia.
  - destruct (bN bv =? 0); cbn [bounded]; lia.
  - destruct (bits / 8 <? size); cbn [bounded]; [lia|].
    destruct (read_uint il size r) as [v r'|e] eqn:Eu.
    + apply read_uint_rest in Eu. destruct ((0 <? size) && (v <? 128)); cbn [bounded]; lia.
    + destruct e; cbn [bounded]; lia.
Qed.

Lemma dec_bool_bounded il bs : bounded (dec_bool il bs) bs.
Proof.
  unfold dec_bool. pose proof (dec_uint_bounded 8 il bs) as Hb.
  destruct (dec_uint 8 il bs) as [v r a|e a]; cbn [bounded] in *; [|exact Hb].
  destruct (v =? 0); [exact Hb|]. destruct (v =? 1); cbn [bounded]; [exact Hb|lia].
Qed.

Lemma dec_big_bounded il bs : bounded (dec_big il bs) bs.
Proof.
  unfold dec_big. kind_cases Ek Hl Hs. destruct k; cbn [bounded]; try lia.
  - destruct (bN bv =? 0); cbn [bounded]; lia.
  - destruct (size =? 0); cbn [bounded]; [lia|].
    destruct (N.leb_spec size 32);
      destruct ((size =? 1) && (bN (hd x00 (take size r)) <? 128)); cbn [bounded]; try lia;
      destruct (bN (hd x00 (take size r)) =? 0); cbn [bounded]; rewrite ?len_drop; lia.
Qed.

Lemma dec_array_bounded n il bs : bounded (dec_array n il bs) bs.
Proof.
  unfold dec_array. kind_cases Ek Hl Hs. destruct k; cbn [bounded]; try lia.
  - destruct (n =? 0); cbn [bounded]; [lia|]. destruct (1 <? n); cbn [bounded]; lia.
  - destruct (n <? size); cbn [bounded]; [lia|]. destruct (size <? n); cbn [bounded]; [lia|].
    destruct ((size =? 1) && (bN (hd x00 (take size r)) <? 128)); cbn [bounded]; rewrite ?len_drop; lia.
Qed.

Lemma dec_raw_bounded il bs : bounded (dec_raw il bs) bs.
Proof.
  unfold dec_raw. destruct (read_kind il bs) as [k size bv r|e] eqn:Ek; [|cbn; lia].
  apply read_kind_canon in Ek.
  destruct Ek as [b r -> Hb|sz r -> Hs|sz r -> Hs]; cbn [bounded];
    rewrite ?len_cons, ?len_app, ?len_drop; lia.
Qed.

Definition bounded_at (t : ty) : Prop := forall tg il bs, bounded (dec_val t tg il bs) bs.
Definition bounded_fields_at (fs : fields) : Prop := forall p, bounded (dec_fields fs p) p.

Lemma typed_bounded_mut : (forall t, bounded_at t) /\ (forall fs, bounded_fields_at fs).
Proof.
  apply ty_fields_ind; unfold bounded_at, bounded_fields_at.
  - intros bits tg il bs. cbn [dec_val]. apply bounded_rmap, dec_uint_bounded.
  - intros tg il bs. cbn [dec_val]. apply bounded_rmap, dec_big_bounded.
  - intros tg il bs. cbn [dec_val]. apply bounded_rmap, dec_bool_bounded.
  - intros tg il bs. cbn [dec_val]. apply bounded_rmap, dec_bytes_bounded.
  - intros n tg il bs. cbn [dec_val]. apply bounded_rmap, dec_array_bounded.
  - intros tg il bs. cbn [dec_val]. apply bounded_rmap, dec_bytes_bounded.
  - intros e IH tg il bs. cbn [dec_val]. destruct (t_tail tg); apply bounded_rmap.
    + apply slice_elems_bounded. intros p. apply IH.
    + apply dec_list_bounded. intros p. apply IH.
  - intros fs IH tg il bs. cbn [dec_val]. kind_cases Ek Hl Hs. destruct k; cbn [bounded]; try lia.
    pose proof (IH (take size r)) as Hb.
    destruct (dec_fields fs (take size r)) as [vs r' a|e a]; cbn [bounded] in Hb;
      rewrite len_take in Hb by assumption.
    + destruct r'; cbn [bounded]; [rewrite len_drop; cbn in Hb; lia|lia].
    + cbn [bounded]. lia.
  - intros e0 IH tg il bs. cbn [dec_val]. destruct (t_nil tg); try (apply bounded_rmap, IH);
      (kind_cases Ek Hl Hs;
       destruct (negb (kind_eqb k KByte) && (size =? 0));
       [destruct (kind_eqb k (nil_kind e0 tg)); cbn [bounded]; lia|apply bounded_rmap, IH]).
  - intros tg il bs. cbn [dec_val]. apply bounded_rmap, dec_raw_bounded.
  - intros tg il bs. cbn [dec_val]. apply bounded_rmap, dec_item_bounded.
  - intros p. cbn. lia.
  - intros t IHt tg r IHr p. cbn [dec_fields].
    destruct (t_ignored tg); [apply bounded_rmap, IHr|].
    assert (Hseq : bounded (bind (dec_val t tg true p) (fun v rest => rmap (cons v) (dec_fields r rest))) p).
    { apply bounded_bind; [apply IHt|]. intros v rest. apply bounded_rmap, IHr. }
    destruct (t_tail tg); [exact Hseq|].
    destruct p as [|b p']; [|exact Hseq].
    destruct (t_optional tg); cbn; lia.
Qed.

Lemma typed_size_bound t tg il bs :
  match dec_val t tg il bs with
  | Ok _ rest alloc => alloc + len rest <= len bs
  | Err _ alloc => alloc <= len bs
  end.
Proof. exact (proj1 typed_bounded_mut t tg il bs). Qed.
