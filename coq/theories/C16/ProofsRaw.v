(** C16 — raw.go (Split, CountValues) against the encoder. *)
From Coq Require Import List ZArith NArith Bool Lia Arith.
From Coq Require Import Init.Byte.
From Kardia Require Import C16.Model C16.ProofsBase C16.ProofsItem C16.Proofs.
Import ListNotations.
Local Open Scope N_scope.
Ltac Zify.zify_post_hook ::= Z.to_euclidean_division_equations.

Lemma raw_read_size_be size rest :
  56 <= size ->
  raw_read_size (be_bytes size ++ rest) (len (be_bytes size)) = ROk size.
Proof.
  intros Hs. unfold raw_read_size. rewrite len_app.
  destruct (N.ltb_spec (len (be_bytes size) + len rest) (len (be_bytes size))); [lia|].
  rewrite take_app_len, be_val_bytes.
  destruct (N.ltb_spec size 56); [lia|]. cbn [orb].
  pose proof (be_bytes_hd size ltac:(lia)) as Hhd.
  destruct (be_bytes size) as [|b r] eqn:E.
  - apply be_bytes_nil in E. lia.
  - cbn [app hd] in *. destruct (N.eqb_spec (bN b) 0); [contradiction|reflexivity].
Qed.

(** the header of a string/list of [size] bytes, as raw.go's readKind sees it *)
Lemma raw_read_kind_head (small large : N) (k : kind) size rest :
  ((small = 128 /\ large = 183 /\ k = KString) \/ (small = 192 /\ large = 247 /\ k = KList)) ->
  size <= len rest -> fits64 size ->
  (k = KString -> size = 1 -> 128 <= bN (hd x00 rest)) ->
  raw_read_kind (head small large size ++ rest) = ROk (k, len (head small large size), size).
Proof.
  intros Hsl Hs Hf Hcanon. unfold head.
  destruct (N.ltb_spec size 56) as [Hlt|Hge].
  - cbn [app]. unfold raw_read_kind. rewrite !len_cons.
    destruct Hsl as [(-> & -> & ->)|(-> & -> & ->)]; rewrite bN_Nb by lia.
    + destruct (N.ltb_spec (128 + size) 128); [lia|].
      destruct (N.ltb_spec (128 + size) 184); [|lia].
      replace (128 + size - 128) with size by lia.
      destruct (N.eqb_spec size 1) as [E1|]; cbn [andb].
      * specialize (Hcanon eq_refl E1).
        destruct (N.ltb_spec 1 (1 + len rest)); cbn [andb]; [|lia].
        destruct (N.ltb_spec (bN (hd x00 rest)) 128); [lia|].
        change (len (@nil byte)) with 0.
        destruct (N.ltb_spec (1 + len rest - 1) size); [lia|]. reflexivity.
      * change (len (@nil byte)) with 0.
        destruct (N.ltb_spec (1 + len rest - 1) size); [lia|]. reflexivity.
    + destruct (N.ltb_spec (192 + size) 128); [lia|].
      destruct (N.ltb_spec (192 + size) 184); [lia|].
      destruct (N.ltb_spec (192 + size) 192); [lia|].
      destruct (N.ltb_spec (192 + size) 248); [|lia].
      replace (192 + size - 192) with size by lia.
      change (len (@nil byte)) with 0.
      destruct (N.ltb_spec (1 + len rest - 1) size); [lia|]. reflexivity.
  - cbn [app]. unfold raw_read_kind.
    pose proof (be_bytes_len_le8 size Hf) as H8.
    pose proof (be_bytes_len_pos size ltac:(lia)) as H1.
    rewrite !len_cons, !len_app.
    destruct Hsl as [(-> & -> & ->)|(-> & -> & ->)]; rewrite bN_Nb by lia.
    + destruct (N.ltb_spec (183 + len (be_bytes size)) 128); [lia|].
      destruct (N.ltb_spec (183 + len (be_bytes size)) 184); [lia|].
      destruct (N.ltb_spec (183 + len (be_bytes size)) 192); [|lia].
      replace (183 + len (be_bytes size) - 183) with (len (be_bytes size)) by lia.
      rewrite raw_read_size_be by assumption.
      destruct (N.ltb_spec (1 + (len (be_bytes size) + len rest) - (len (be_bytes size) + 1)) size); [lia|].
      f_equal. f_equal. f_equal. lia.
    + destruct (N.ltb_spec (247 + len (be_bytes size)) 128); [lia|].
      destruct (N.ltb_spec (247 + len (be_bytes size)) 184); [lia|].
      destruct (N.ltb_spec (247 + len (be_bytes size)) 192); [lia|].
      destruct (N.ltb_spec (247 + len (be_bytes size)) 248); [lia|].
      replace (247 + len (be_bytes size) - 247) with (len (be_bytes size)) by lia.
      rewrite raw_read_size_be by assumption.
      destruct (N.ltb_spec (1 + (len (be_bytes size) + len rest) - (len (be_bytes size) + 1)) size); [lia|].
      f_equal. f_equal. f_equal. lia.
Qed.

Lemma raw_read_kind_byte b rest : bN b < 128 -> raw_read_kind (b :: rest) = ROk (KByte, 0, 1).
Proof.
  intros Hb. unfold raw_read_kind. destruct (N.ltb_spec (bN b) 128); [|lia].
  rewrite len_cons. destruct (N.ltb_spec (1 + len rest - 0) 1); [lia|reflexivity].
Qed.

(** what raw.go reports for the encoding of one item *)
Definition item_kind (x : item) : kind :=
  match x with
  | Str [b] => if bN b <? 128 then KByte else KString
  | Str _ => KString
  | List _ => KList
  end.
Definition item_content (x : item) : bytes :=
  match x with Str b => b | List l => flat_map encode l end.

Lemma raw_read_kind_encode x rest :
  fits64 (len (encode x)) ->
  exists ts, raw_read_kind (encode x ++ rest) = ROk (item_kind x, ts, len (item_content x)) /\
             encode x = take ts (encode x) ++ item_content x /\ ts <= len (encode x).
Proof.
  intros Hf. destruct x as [b|l]; cbn [encode item_kind item_content] in *.
  - destruct (enc_str_cases b) as [(x & -> & Hx & E)|(Hne & E)]; rewrite E in *.
    + exists 0. cbn [app]. rewrite raw_read_kind_byte by assumption.
      destruct (N.ltb_spec (bN x) 128); [|lia]. split; [reflexivity|]. split; [reflexivity|cbn; lia].
    + exists (len (str_head (len b))). rewrite <- app_assoc.
      assert (Hfb : fits64 (len b)) by (rewrite len_app in Hf; unfold fits64 in *; lia).
      rewrite (raw_read_kind_head 128 183 KString); [| auto | rewrite len_app; lia | exact Hfb |].
      * split; [|split; [rewrite take_app_len; reflexivity|rewrite len_app; lia]].
        destruct b as [|y [|z l]]; try reflexivity.
        specialize (Hne y eq_refl). destruct (N.ltb_spec (bN y) 128); [lia|reflexivity].
      * intros _ E1. destruct b as [|y [|z l]]; try (cbn in E1; rewrite ?len_cons in E1; lia).
        cbn [app hd]. apply Hne. reflexivity.
  - exists (len (list_head (len (flat_map encode l)))). unfold enc_list in *. rewrite <- app_assoc.
    assert (Hfp : fits64 (len (flat_map encode l))) by (rewrite len_app in Hf; unfold fits64 in *; lia).
    rewrite (raw_read_kind_head 192 247 KList); [| auto | rewrite len_app; lia | exact Hfp | discriminate].
    split; [reflexivity|]. split; [rewrite take_app_len; reflexivity|rewrite len_app; lia].
Qed.

Lemma split_encode x rest :
  len (encode x) < two64 ->
  split (encode x ++ rest) = ROk (item_kind x, item_content x, rest).
Proof.
  intros Hf. destruct (raw_read_kind_encode x rest Hf) as (ts & Hk & He & Hts).
  unfold split. rewrite Hk.
  assert (Hlen : len (encode x) = ts + len (item_content x)).
  { rewrite He at 1. rewrite len_app, len_take by assumption. reflexivity. }
  assert (Hts' : len (take ts (encode x)) = ts) by (apply len_take; assumption).
  rewrite He at 1 2. rewrite <- !app_assoc.
  rewrite <- Hts' at 1. rewrite drop_app_len, take_app_len.
  replace (ts + len (item_content x)) with (len (take ts (encode x) ++ item_content x))
    by (rewrite len_app; lia).
  rewrite app_assoc, drop_app_len. reflexivity.
Qed.

Lemma count_values_aux_encode l : forall fuel i,
  (length (flat_map encode l) <= fuel)%nat -> fits64 (len (flat_map encode l)) ->
  count_values_aux fuel (flat_map encode l) i = ROk (i + len l).
Proof.
  induction l as [|x l IH]; intros fuel i Hfuel Hf.
  - cbn. destruct fuel; cbn; f_equal; lia.
  - cbn [flat_map] in *.
    assert (Hfx : fits64 (len (encode x))) by (rewrite len_app in Hf; unfold fits64 in *; lia).
    assert (Hfl : fits64 (len (flat_map encode l))) by (rewrite len_app in Hf; unfold fits64 in *; lia).
    destruct (raw_read_kind_encode x (flat_map encode l) Hfx) as (ts & Hk & He & Hts).
    pose proof (encode_nonempty x) as Hne.
    destruct (encode x ++ flat_map encode l) as [|b p] eqn:E.
    { apply app_eq_nil in E. destruct E. contradiction. }
    destruct fuel as [|fuel]; [cbn in Hfuel; lia|].
    cbn [count_values_aux]. rewrite Hk, <- E.
    assert (Hlen : len (encode x) = ts + len (item_content x)).
    { rewrite He at 1. rewrite len_app, len_take by assumption. reflexivity. }
    rewrite <- Hlen, drop_app_len.
    rewrite IH; [f_equal; rewrite len_cons; lia| |exact Hfl].
    assert (length (encode x) <> 0)%nat by (destruct (encode x); [contradiction|discriminate]).
    rewrite <- E, app_length in Hfuel. cbn [length] in Hfuel. lia.
Qed.

Lemma count_values_encode l :
  len (flat_map encode l) < two64 -> count_values (flat_map encode l) = ROk (len l).
Proof.
  intros Hf. unfold count_values. rewrite count_values_aux_encode; [f_equal; lia|apply le_n|exact Hf].
Qed.
