(** C16 — tie of the model's size/length/canonicity decisions to the Go SOURCE of lib/rlp.
    [Generated/C16Source.v] is produced on every check by /verif/go2coq from /repo's working tree:
    every guard, integer assignment and store of the encoder's header arithmetic (headsize,
    puthead, putint, intsize, IntSize, ListSize, AppendUint64, encBuffer.writeUint64 / writeBytes /
    encodeStringHeader / writeBigInt / list / listEnd / size, the one-byte array and string
    writers, the slice / struct / pointer writers), of the Stream (Reset, Kind, readKind, readUint,
    willRead, listLimit, List, ListEnd, Bytes, ReadBytes, Raw, uint), of the typed decoders with a
    size decision (decodeBigInt, decodeByteArray, decodeListArray, decodeListSlice,
    decodeSliceElems, the nil-pointer decoder, decodeInterface, DecodeBytes) and of raw.go /
    iterator.go (readKind, readSize, SplitString, SplitList, SplitUint64, CountValues,
    NewListIterator, Next), as Gallina over [Z] with explicit machine-integer wraps (Base/GoSem.v).

    The model works over [N] and byte lists; the lemmas below say that the model's functions ARE
    these expressions on these operands: first guard by guard ([zN] embeds the model's numbers),
    then function by function (the model's definition re-assembled from the generated guards is
    the model's definition), and the [_atoms] lists are pinned (what is compared, not only how).
    An edit of the Go source that flips a comparison, changes a constant or an operand, drops or
    adds a store re-opens these obligations. *)
From Coq Require Import List ZArith NArith Bool Lia String.
From Coq Require Import Init.Byte.
From Kardia Require Import Base.Int64 Base.GoSem.
From Kardia Require Import Generated.C16Source.
From Kardia Require Import C16.Model C16.ProofsBase C16.ProofsItem C16.ProofsRoundtrip C16.ProofsExtra.
Import ListNotations.
Local Open Scope Z_scope.

Notation zN := Z.of_N.
Definition zk (k : kind) : Z := match k with KByte => 0 | KString => 1 | KList => 2 end.
Definition zb (b : byte) : Z := zN (bN b).

Lemma zb_range b : 0 <= zb b < 256.
Proof. unfold zb. pose proof (bN_lt b). lia. Qed.

Ltac n_cases :=
  repeat match goal with
         | |- context [N.ltb ?a ?b] => destruct (N.ltb_spec a b)
         | |- context [N.leb ?a ?b] => destruct (N.leb_spec a b)
         | |- context [N.eqb ?a ?b] => destruct (N.eqb_spec a b)
         end.
Ltac wraps_away :=
  repeat match goal with
         | |- context [ wrap ?t ?e ] => rewrite (wrap_id t e) by (unfold in_range; lia)
         end.
Ltac tie_close := gosem_unfold; wraps_away; n_cases; bool_cases; cbn [andb orb negb]; try reflexivity; try lia.

(** * 1. Encoder: header boundaries *)
Lemma src_puthead_guard size : lib_rlp__puthead__if_size_lt_56 (zN size) = (size <? 56)%N.
Proof. unfold lib_rlp__puthead__if_size_lt_56. tie_close. Qed.
Lemma src_headsize_guard size : lib_rlp__headsize__if_size_lt_56 (zN size) = (size <? 56)%N.
Proof. unfold lib_rlp__headsize__if_size_lt_56. tie_close. Qed.
Lemma src_strheader_guard size : lib_rlp__encBuffer_encodeStringHeader__if_size_lt_56 (zN size) = (size <? 56)%N.
Proof. unfold lib_rlp__encBuffer_encodeStringHeader__if_size_lt_56. tie_close. Qed.
Lemma src_listEnd_guard size : lib_rlp__encBuffer_listEnd__if_lh_size_lt_56 (zN size) = (size <? 56)%N.
Proof. unfold lib_rlp__encBuffer_listEnd__if_lh_size_lt_56. tie_close. Qed.
Lemma src_header_guard_atoms :
  lib_rlp__puthead__if_size_lt_56_atoms = ["size : uint64"]%string
  /\ lib_rlp__headsize__if_size_lt_56_atoms = ["size : uint64"]%string
  /\ lib_rlp__encBuffer_encodeStringHeader__if_size_lt_56_atoms = ["size : int"]%string
  /\ lib_rlp__encBuffer_listEnd__if_lh_size_lt_56_atoms = ["lh.size : int"]%string.
Proof. repeat split; reflexivity. Qed.

Lemma src_puthead_small small size : (small + size < 256)%N ->
  lib_rlp__puthead__assign (zN small) (zN size) = zN (small + size).
Proof. intros H. unfold lib_rlp__puthead__assign. gosem_unfold. wraps_away. lia. Qed.
Lemma src_puthead_large large k : (large + k < 256)%N ->
  lib_rlp__puthead__assign_2 (zN large) (lib_rlp__puthead__let_sizesize (zN k)) = zN (large + k).
Proof. intros H. unfold lib_rlp__puthead__assign_2, lib_rlp__puthead__let_sizesize. gosem_unfold. wraps_away. lia. Qed.
Lemma src_puthead_atoms :
  lib_rlp__puthead__assign_atoms = ["smalltag : byte"; "size : uint64"]%string
  /\ lib_rlp__puthead__let_sizesize_atoms = ["putint(buf[1:], size) : int"]%string
  /\ lib_rlp__puthead__assign_2_atoms = ["largetag : byte"; "sizesize : int"]%string.
Proof. repeat split; reflexivity. Qed.

(** the model's header function IS puthead *)
Lemma src_head small large size : (small + 55 < 256)%N -> (large + 8 < 256)%N -> (size < two64)%N ->
  head small large size =
    if lib_rlp__puthead__if_size_lt_56 (zN size)
    then [Nb (Z.to_N (lib_rlp__puthead__assign (zN small) (zN size)))]
    else let sb := be_bytes size in
         Nb (Z.to_N (lib_rlp__puthead__assign_2 (zN large) (lib_rlp__puthead__let_sizesize (zN (len sb))))) :: sb.
Proof.
  intros Hs Hl H64. unfold head. rewrite src_puthead_guard.
  destruct (N.ltb_spec size 56) as [Hlt|Hge].
  - rewrite src_puthead_small by lia. rewrite N2Z.id. reflexivity.
  - cbv zeta. pose proof (be_bytes_len_le8 size H64) as H8.
    rewrite src_puthead_large by lia. rewrite N2Z.id. reflexivity.
Qed.

(** string header written by encodeStringHeader: the large tag *)
Lemma src_strheader_large k : (k <= 8)%N ->
  lib_rlp__encBuffer_encodeStringHeader__assign (lib_rlp__encBuffer_encodeStringHeader__let_sizesize (zN k)) = zN (183 + k).
Proof.
  intros H. unfold lib_rlp__encBuffer_encodeStringHeader__assign, lib_rlp__encBuffer_encodeStringHeader__let_sizesize.
  gosem_unfold. wraps_away. lia.
Qed.

Lemma src_strheader_small size : (size < 56)%N ->
  lib_rlp__encBuffer_encodeStringHeader__arg_0x80_plus_byte_size (zN size) = zN (128 + size).
Proof. intros H. unfold lib_rlp__encBuffer_encodeStringHeader__arg_0x80_plus_byte_size. gosem_unfold. wraps_away. lia. Qed.
(** the model's string header IS encodeStringHeader *)
Lemma src_str_head size : (size < two64)%N ->
  str_head size =
    if lib_rlp__encBuffer_encodeStringHeader__if_size_lt_56 (zN size)
    then [Nb (Z.to_N (lib_rlp__encBuffer_encodeStringHeader__arg_0x80_plus_byte_size (zN size)))]
    else let sb := be_bytes size in
         Nb (Z.to_N (lib_rlp__encBuffer_encodeStringHeader__assign
                       (lib_rlp__encBuffer_encodeStringHeader__let_sizesize (zN (len sb))))) :: sb.
Proof.
  intros H64. unfold str_head, head. rewrite src_strheader_guard.
  destruct (N.ltb_spec size 56).
  - rewrite src_strheader_small by assumption. rewrite N2Z.id. reflexivity.
  - cbv zeta. pose proof (be_bytes_len_le8 size H64). rewrite src_strheader_large by assumption. rewrite N2Z.id. reflexivity.
Qed.

(** single bytes below 0x80 are their own encoding: writeBytes / writeString / [1]byte *)
Lemma src_writeBytes_guard (b : bytes) :
  lib_rlp__encBuffer_writeBytes__if_len_b_eq_1_and_b_at_0_le_0x7F (zN (len b)) (zb (hd x00 b))
  = ((len b =? 1) && (bN (hd x00 b) <? 128))%N%bool.
Proof. unfold lib_rlp__encBuffer_writeBytes__if_len_b_eq_1_and_b_at_0_le_0x7F, zb. tie_close. Qed.
Lemma src_writeString_guard (b : bytes) :
  lib_rlp__writeString__if_len_s_eq_1_and_s_at_0_le_0x7f (zN (len b)) (zb (hd x00 b))
  = ((len b =? 1) && (bN (hd x00 b) <? 128))%N%bool.
Proof. unfold lib_rlp__writeString__if_len_s_eq_1_and_s_at_0_le_0x7f, zb. tie_close. Qed.
Lemma src_writeOneByteArray_guard (x : byte) :
  lib_rlp__writeLengthOneByteArray__if_b_le_0x7f (lib_rlp__writeLengthOneByteArray__let_b (zb x)) = (bN x <? 128)%N.
Proof.
  unfold lib_rlp__writeLengthOneByteArray__if_b_le_0x7f, lib_rlp__writeLengthOneByteArray__let_b, zb.
  pose proof (bN_lt x). tie_close.
Qed.
Lemma src_writeBytes_atoms :
  lib_rlp__encBuffer_writeBytes__if_len_b_eq_1_and_b_at_0_le_0x7F_atoms = ["len(b) : int"; "b[0] : byte"]%string
  /\ lib_rlp__writeString__if_len_s_eq_1_and_s_at_0_le_0x7f_atoms = ["len(s) : int"; "s[0] : byte"]%string.
Proof. split; reflexivity. Qed.

(** the model's string writer IS writeBytes *)
Lemma src_enc_str (b : bytes) :
  enc_str b =
    if lib_rlp__encBuffer_writeBytes__if_len_b_eq_1_and_b_at_0_le_0x7F (zN (len b)) (zb (hd x00 b))
    then b else str_head (len b) ++ b.
Proof.
  rewrite src_writeBytes_guard. unfold enc_str.
  destruct b as [|x [|y r]].
  - reflexivity.
  - cbn [hd]. change (len [x]) with 1%N. cbn [N.eqb Pos.eqb andb]. destruct (bN x <? 128)%N; reflexivity.
  - replace (len (x :: y :: r) =? 1)%N with false; [reflexivity|].
    symmetry. apply N.eqb_neq. rewrite !len_cons. lia.
Qed.

(** * 2. Encoder: integers (putint / intsize / AppendUint64 / writeUint64 / IntSize / ListSize) *)
Local Open Scope N_scope.

Lemma be_val_cons b r : be_val (b :: r) = bN b * 256 ^ len r + be_val r.
Proof.
  unfold be_val. cbn [rev]. rewrite le_val_app, len_rev. cbn [le_val]. lia.
Qed.

(** the minimal big-endian representation has exactly k bytes between 256^(k-1) and 256^k *)
Lemma be_bytes_len_exact n k : 1 <= k -> 256 ^ (k - 1) <= n -> n < 256 ^ k -> len (be_bytes n) = k.
Proof.
  intros Hk Hlo Hhi.
  pose proof (be_bytes_len_le n k Hhi) as Hle.
  pose proof (be_val_bound (be_bytes n)) as Hb. rewrite be_val_bytes in Hb.
  destruct (N.lt_ge_cases (len (be_bytes n)) k) as [Hlt|Hge]; [|lia].
  exfalso.
  assert (256 ^ len (be_bytes n) <= 256 ^ (k - 1)) by (apply N.pow_le_mono_r; lia).
  lia.
Qed.

(** the k digits of n in base 256, most significant first *)
Fixpoint be_digits (k : nat) (n : N) : bytes :=
  match k with
  | O => []
  | S k' => Nb ((n / 256 ^ N.of_nat k') mod 256) :: be_digits k' n
  end.
Lemma len_be_digits k n : len (be_digits k n) = N.of_nat k.
Proof. induction k as [|k IH]; [reflexivity|]. cbn [be_digits]. rewrite len_cons, IH. lia. Qed.
Lemma be_digits_val k n : be_val (be_digits k n) = n mod 256 ^ N.of_nat k.
Proof.
  induction k as [|k IH].
  - cbn. rewrite N.mod_1_r. reflexivity.
  - cbn [be_digits]. rewrite be_val_cons, len_be_digits, IH.
    rewrite bN_Nb by (apply N.mod_lt; lia).
    replace (N.of_nat (S k)) with (N.of_nat k + 1) by lia.
    rewrite N.pow_add_r, N.pow_1_r.
    rewrite (N.mod_mul_r n (256 ^ N.of_nat k) 256) by (try apply N.pow_nonzero; lia).
    lia.
Qed.
Lemma be_bytes_digits k n : 256 ^ N.of_nat k <= n -> n < 256 ^ N.of_nat (S k) -> be_bytes n = be_digits (S k) n.
Proof.
  intros Hlo Hhi.
  rewrite <- (be_bytes_val (be_digits (S k) n)).
  - rewrite be_digits_val, N.mod_small by exact Hhi. reflexivity.
  - cbn [be_digits hd]. rewrite bN_Nb by (apply N.mod_lt; lia).
    assert (Hp : 256 ^ N.of_nat k <> 0) by (apply N.pow_nonzero; lia).
    replace (N.of_nat (S k)) with (N.of_nat k + 1) in Hhi by lia.
    rewrite N.pow_add_r, N.pow_1_r in Hhi.
    assert (Hq : n / 256 ^ N.of_nat k < 256) by (apply N.div_lt_upper_bound; [exact Hp|lia]).
    rewrite N.mod_small by exact Hq.
    assert (1 <= n / 256 ^ N.of_nat k) by (apply N.div_le_lower_bound; [exact Hp|lia]).
    lia.
Qed.

Local Open Scope Z_scope.

(** a byte extracted by [byte(i >> 8j)] is the j-th base-256 digit *)
Lemma src_shr_byte n j c : c = 8 * Z.of_nat j -> (n < two64)%N ->
  go_conv U8 (go_shr U64 (zN n) c) = zN ((n / 256 ^ N.of_nat j) mod 256)%N.
Proof.
  intros -> Hn. unfold go_conv, go_shr.
  assert (Hpow : 2 ^ (8 * Z.of_nat j) = zN (256 ^ N.of_nat j)%N).
  { rewrite N2Z.inj_pow, nat_N_Z. change (zN 256) with (2 ^ 8). rewrite <- Z.pow_mul_r by lia. reflexivity. }
  rewrite Hpow.
  assert (Hp : (256 ^ N.of_nat j <> 0)%N) by (apply N.pow_nonzero; lia).
  rewrite <- N2Z.inj_div.
  assert ((n / 256 ^ N.of_nat j <= n)%N).
  { apply N.div_le_upper_bound; [exact Hp|]. set (p := (256 ^ N.of_nat j)%N) in *. clearbody p.
    assert (1 <= p)%N by lia. rewrite <- (N.mul_1_l n) at 1. apply N.mul_le_mono_r. exact H. }
  set (q := (n / 256 ^ N.of_nat j)%N) in *. clearbody q.
  rewrite (wrap_id U64) by (unfold in_range, two64 in *; lia).
  unfold wrap. rewrite N2Z.inj_mod. reflexivity.
Qed.
Lemma src_low_byte n : go_conv U8 (zN n) = zN ((n / 256 ^ N.of_nat 0) mod 256)%N.
Proof. unfold go_conv, wrap. cbn [N.of_nat N.pow]. rewrite N.div_1_r, N2Z.inj_mod. reflexivity. Qed.

Definition nb (z : Z) : byte := Nb (Z.to_N z).

(** putint's size ladder and the bytes it stores, case by case *)
Definition src_putint_size (i : Z) : Z :=
  if lib_rlp__putint__case_i_lt_1_shl_8 i then 1
  else if lib_rlp__putint__case_i_lt_1_shl_16 i then 2
  else if lib_rlp__putint__case_i_lt_1_shl_24 i then 3
  else if lib_rlp__putint__case_i_lt_1_shl_32 i then 4
  else if lib_rlp__putint__case_i_lt_1_shl_40 i then 5
  else if lib_rlp__putint__case_i_lt_1_shl_48 i then 6
  else if lib_rlp__putint__case_i_lt_1_shl_56 i then 7
  else 8.
Definition src_putint_bytes (i : Z) : bytes :=
  if lib_rlp__putint__case_i_lt_1_shl_8 i then [nb (lib_rlp__putint__let_assign i)]
  else if lib_rlp__putint__case_i_lt_1_shl_16 i then
    [nb (lib_rlp__putint__assign i); nb (lib_rlp__putint__let_assign_2 i)]
  else if lib_rlp__putint__case_i_lt_1_shl_24 i then
    [nb (lib_rlp__putint__assign_2 i); nb (lib_rlp__putint__assign_3 i); nb (lib_rlp__putint__let_assign_3 i)]
  else if lib_rlp__putint__case_i_lt_1_shl_32 i then
    [nb (lib_rlp__putint__assign_4 i); nb (lib_rlp__putint__assign_5 i); nb (lib_rlp__putint__assign_6 i);
     nb (lib_rlp__putint__let_assign_4 i)]
  else if lib_rlp__putint__case_i_lt_1_shl_40 i then
    [nb (lib_rlp__putint__assign_7 i); nb (lib_rlp__putint__assign_8 i); nb (lib_rlp__putint__assign_9 i);
     nb (lib_rlp__putint__assign_10 i); nb (lib_rlp__putint__let_assign_5 i)]
  else if lib_rlp__putint__case_i_lt_1_shl_48 i then
    [nb (lib_rlp__putint__assign_11 i); nb (lib_rlp__putint__assign_12 i); nb (lib_rlp__putint__assign_13 i);
     nb (lib_rlp__putint__assign_14 i); nb (lib_rlp__putint__assign_15 i); nb (lib_rlp__putint__let_assign_6 i)]
  else if lib_rlp__putint__case_i_lt_1_shl_56 i then
    [nb (lib_rlp__putint__assign_16 i); nb (lib_rlp__putint__assign_17 i); nb (lib_rlp__putint__assign_18 i);
     nb (lib_rlp__putint__assign_19 i); nb (lib_rlp__putint__assign_20 i); nb (lib_rlp__putint__assign_21 i);
     nb (lib_rlp__putint__let_assign_7 i)]
  else
    [nb (lib_rlp__putint__assign_22 i); nb (lib_rlp__putint__assign_23 i); nb (lib_rlp__putint__assign_24 i);
     nb (lib_rlp__putint__assign_25 i); nb (lib_rlp__putint__assign_26 i); nb (lib_rlp__putint__assign_27 i);
     nb (lib_rlp__putint__assign_28 i); nb (lib_rlp__putint__let_assign_8 i)].

Ltac putint_digits Hn :=
  unfold nb,
    lib_rlp__putint__let_assign, lib_rlp__putint__let_assign_2, lib_rlp__putint__let_assign_3, lib_rlp__putint__let_assign_4,
    lib_rlp__putint__let_assign_5, lib_rlp__putint__let_assign_6, lib_rlp__putint__let_assign_7, lib_rlp__putint__let_assign_8,
    lib_rlp__putint__assign, lib_rlp__putint__assign_2, lib_rlp__putint__assign_3, lib_rlp__putint__assign_4,
    lib_rlp__putint__assign_5, lib_rlp__putint__assign_6, lib_rlp__putint__assign_7, lib_rlp__putint__assign_8,
    lib_rlp__putint__assign_9, lib_rlp__putint__assign_10, lib_rlp__putint__assign_11, lib_rlp__putint__assign_12,
    lib_rlp__putint__assign_13, lib_rlp__putint__assign_14, lib_rlp__putint__assign_15, lib_rlp__putint__assign_16,
    lib_rlp__putint__assign_17, lib_rlp__putint__assign_18, lib_rlp__putint__assign_19, lib_rlp__putint__assign_20,
    lib_rlp__putint__assign_21, lib_rlp__putint__assign_22, lib_rlp__putint__assign_23, lib_rlp__putint__assign_24,
    lib_rlp__putint__assign_25, lib_rlp__putint__assign_26, lib_rlp__putint__assign_27, lib_rlp__putint__assign_28;
  rewrite ?src_low_byte;
  rewrite ?(src_shr_byte _ 1 8 eq_refl Hn), ?(src_shr_byte _ 2 16 eq_refl Hn), ?(src_shr_byte _ 3 24 eq_refl Hn),
    ?(src_shr_byte _ 4 32 eq_refl Hn), ?(src_shr_byte _ 5 40 eq_refl Hn), ?(src_shr_byte _ 6 48 eq_refl Hn),
    ?(src_shr_byte _ 7 56 eq_refl Hn);
  rewrite ?N2Z.id.

(** the model's minimal big-endian bytes ARE what putint stores, and their number is its result *)
Lemma src_putint n : (0 < n < two64)%N ->
  be_bytes n = src_putint_bytes (zN n) /\ zN (len (be_bytes n)) = src_putint_size (zN n).
Proof.
  intros [Hpos Hn].
  unfold src_putint_bytes, src_putint_size,
    lib_rlp__putint__case_i_lt_1_shl_8, lib_rlp__putint__case_i_lt_1_shl_16, lib_rlp__putint__case_i_lt_1_shl_24,
    lib_rlp__putint__case_i_lt_1_shl_32, lib_rlp__putint__case_i_lt_1_shl_40, lib_rlp__putint__case_i_lt_1_shl_48,
    lib_rlp__putint__case_i_lt_1_shl_56.
  assert (Hd : forall k, (256 ^ N.of_nat k <= n)%N -> (n < 256 ^ N.of_nat (S k))%N ->
                be_bytes n = be_digits (S k) n /\ len (be_bytes n) = N.of_nat (S k)).
  { intros k Hlo Hhi. rewrite (be_bytes_digits k n Hlo Hhi). split; [reflexivity|apply len_be_digits]. }
  bool_cases.
  - destruct (Hd 0%nat) as [E L]; [cbn; lia|cbn; lia|]. rewrite L, E. split; [|reflexivity].
    cbn [be_digits]. putint_digits Hn. reflexivity.
  - destruct (Hd 1%nat) as [E L]; [cbn; lia|cbn; lia|]. rewrite L, E. split; [|reflexivity].
    cbn [be_digits]. putint_digits Hn. reflexivity.
  - destruct (Hd 2%nat) as [E L]; [cbn; lia|cbn; lia|]. rewrite L, E. split; [|reflexivity].
    cbn [be_digits]. putint_digits Hn. reflexivity.
  - destruct (Hd 3%nat) as [E L]; [cbn; lia|cbn; lia|]. rewrite L, E. split; [|reflexivity].
    cbn [be_digits]. putint_digits Hn. reflexivity.
  - destruct (Hd 4%nat) as [E L]; [cbn; lia|cbn; lia|]. rewrite L, E. split; [|reflexivity].
    cbn [be_digits]. putint_digits Hn. reflexivity.
  - destruct (Hd 5%nat) as [E L]; [cbn; lia|cbn; lia|]. rewrite L, E. split; [|reflexivity].
    cbn [be_digits]. putint_digits Hn. reflexivity.
  - destruct (Hd 6%nat) as [E L]; [cbn; lia|cbn; lia|]. rewrite L, E. split; [|reflexivity].
    cbn [be_digits]. putint_digits Hn. reflexivity.
  - destruct (Hd 7%nat) as [E L]; [cbn; lia|unfold two64 in Hn; cbn; lia|]. rewrite L, E. split; [|reflexivity].
    cbn [be_digits]. putint_digits Hn. reflexivity.
Qed.

(** intsize: the loop [for size = 1; ; size++ { if i >>= 8; i == 0 { return size } }] *)
Fixpoint src_intsize_loop (fuel : nat) (size i : Z) : Z :=
  match fuel with
  | O => size
  | S f =>
    let i' := lib_rlp__intsize__set_i_op i in
    if lib_rlp__intsize__if_i_eq_0 i' then size
    else src_intsize_loop f (lib_rlp__intsize__set_size_op size) i'
  end.
Definition src_intsize (i : Z) : Z := src_intsize_loop 8 lib_rlp__intsize__forinit_size i.

Local Open Scope N_scope.
Lemma be_bytes_bounds m : m <> 0 -> 256 ^ (len (be_bytes m) - 1) <= m /\ m < 256 ^ len (be_bytes m).
Proof.
  intros Hm. split.
  - pose proof (be_bytes_hd m Hm) as Hhd. destruct (be_bytes m) as [|b r] eqn:E.
    + apply be_bytes_nil in E. contradiction.
    + pose proof (be_val_lower b r Hhd) as Hl. rewrite <- E, be_val_bytes in Hl.
      rewrite len_cons. replace (1 + len r - 1) with (len r) by lia. exact Hl.
  - pose proof (be_val_bound (be_bytes m)) as Hb. rewrite be_val_bytes in Hb. exact Hb.
Qed.
Lemma int_size_raw_step n : 256 <= n -> int_size_raw n = 1 + int_size_raw (n / 256).
Proof.
  intros Hn. unfold int_size_raw.
  assert (Hq : n / 256 <> 0) by (intros E; apply N.div_small_iff in E; lia).
  destruct (N.eqb_spec n 0); [lia|]. destruct (N.eqb_spec (n / 256) 0); [contradiction|].
  destruct (be_bytes_bounds (n / 256) Hq) as [Hlo Hhi].
  pose proof (be_bytes_len_pos (n / 256) Hq) as Hk.
  set (k := len (be_bytes (n / 256))) in *. clearbody k.
  apply be_bytes_len_exact; [lia| |].
  - replace (1 + k - 1) with (k - 1 + 1) by lia. rewrite N.pow_add_r, N.pow_1_r.
    pose proof (N.mul_div_le n 256 ltac:(lia)). nia.
  - rewrite N.add_comm, N.pow_add_r, N.pow_1_r.
    pose proof (N.mul_succ_div_gt n 256 ltac:(lia)). nia.
Qed.
Lemma int_size_raw_small n : n < 256 -> int_size_raw n = 1.
Proof.
  intros Hn. unfold int_size_raw. destruct (N.eqb_spec n 0) as [|Hn0]; [reflexivity|].
  destruct (be_bytes_small n Hn0 Hn) as (x & -> & _). reflexivity.
Qed.
Local Open Scope Z_scope.

Lemma src_intsize_loop_ok fuel : forall s n, 0 <= s /\ s + Z.of_nat fuel <= 200 -> (n < 256 ^ N.of_nat fuel)%N -> (n < two64)%N ->
  (fuel <= 8)%nat ->
  src_intsize_loop fuel s (zN n) = s + zN (int_size_raw n) - 1.
Proof.
  induction fuel as [|f IH]; intros s n Hs Hn H64 Hf.
  - cbn in Hn. assert (n = 0%N) by lia. subst. cbn. lia.
  - cbn [src_intsize_loop]. cbv zeta.
    assert (Hi : lib_rlp__intsize__set_i_op (zN n) = zN (n / 256)%N).
    { unfold lib_rlp__intsize__set_i_op, go_shr. change (2 ^ 8) with (zN 256). rewrite <- N2Z.inj_div.
      apply wrap_id. unfold in_range, two64 in *.
      assert ((n / 256 <= n)%N) by (apply N.div_le_upper_bound; lia). lia. }
    rewrite Hi. unfold lib_rlp__intsize__if_i_eq_0.
    destruct (Z.eqb_spec (zN (n / 256)%N) 0) as [E|E].
    + assert ((n < 256)%N) by (apply N.div_small_iff; lia). rewrite int_size_raw_small by assumption. lia.
    + assert ((256 <= n)%N).
      { destruct (N.lt_ge_cases n 256) as [Hlt|]; [|assumption]. apply N.div_small in Hlt. lia. }
      rewrite (int_size_raw_step n) by assumption.
      unfold lib_rlp__intsize__set_size_op, go_add. rewrite wrap_id by (unfold in_range; lia).
      rewrite IH.
      * lia.
      * lia.
      * replace (N.of_nat (S f)) with (N.of_nat f + 1)%N in Hn by lia.
        rewrite N.pow_add_r, N.pow_1_r in Hn. apply N.div_lt_upper_bound; lia.
      * assert ((n / 256 <= n)%N) by (apply N.div_le_upper_bound; lia). lia.
      * lia.
Qed.
Lemma src_intsize_ok n : (n < two64)%N -> src_intsize (zN n) = zN (int_size_raw n).
Proof.
  intros Hn. unfold src_intsize. rewrite src_intsize_loop_ok; unfold lib_rlp__intsize__forinit_size; try lia.
  exact Hn.
Qed.

(** headsize / IntSize / ListSize *)
Lemma src_head_size size : (size < two64)%N ->
  zN (head_size size) =
    if lib_rlp__headsize__if_size_lt_56 (zN size) then 1
    else lib_rlp__headsize__ret_1_plus_intsize_size (src_intsize (zN size)).
Proof.
  intros Hn. unfold head_size. rewrite src_headsize_guard, src_intsize_ok by exact Hn.
  destruct (size <? 56)%N; [reflexivity|].
  unfold lib_rlp__headsize__ret_1_plus_intsize_size, go_add.
  assert (zN (int_size_raw size) <= 8).
  { unfold int_size_raw. destruct (size =? 0)%N; [lia|]. pose proof (be_bytes_len_le8 size Hn). lia. }
  rewrite wrap_id by (unfold in_range; lia). lia.
Qed.
Lemma src_int_size n : (n < two64)%N ->
  zN (int_size n) =
    if lib_rlp__IntSize__if_x_lt_0x80 (zN n) then 1
    else lib_rlp__IntSize__ret_1_plus_intsize_x (src_intsize (zN n)).
Proof.
  intros Hn. unfold int_size. rewrite src_intsize_ok by exact Hn.
  unfold lib_rlp__IntSize__if_x_lt_0x80. n_cases; bool_cases; try lia.
  unfold lib_rlp__IntSize__ret_1_plus_intsize_x, go_add.
  assert (zN (int_size_raw n) <= 8).
  { unfold int_size_raw. destruct (n =? 0)%N; [lia|]. pose proof (be_bytes_len_le8 n Hn). lia. }
  rewrite wrap_id by (unfold in_range; lia). lia.
Qed.
Lemma src_list_size n : (n < two64)%N ->
  zN (list_size n) = lib_rlp__ListSize__ret_uint64_headsize_contentSize_plus_contentSize (zN (head_size n)) (zN n).
Proof.
  intros Hn. unfold list_size, lib_rlp__ListSize__ret_uint64_headsize_contentSize_plus_contentSize, go_add, go_conv.
  assert (zN (head_size n) <= 9).
  { unfold head_size, int_size_raw. destruct (n <? 56)%N; [lia|]. destruct (n =? 0)%N; [lia|].
    pose proof (be_bytes_len_le8 n Hn). lia. }
  rewrite (wrap_id U64 (zN (head_size n))) by (unfold in_range; lia).
  unfold wrap. rewrite N2Z.inj_mod, N2Z.inj_add. reflexivity.
Qed.
Lemma src_sizes_atoms :
  lib_rlp__headsize__ret_1_plus_intsize_size_atoms = ["intsize(size) : int"]%string
  /\ lib_rlp__IntSize__if_x_lt_0x80_atoms = ["x : uint64"]%string
  /\ lib_rlp__IntSize__ret_1_plus_intsize_x_atoms = ["intsize(x) : int"]%string
  /\ lib_rlp__ListSize__ret_uint64_headsize_contentSize_plus_contentSize_atoms = ["headsize(contentSize) : int"; "contentSize : uint64"]%string
  /\ lib_rlp__intsize__set_i_op_atoms = ["i : uint64"]%string
  /\ lib_rlp__intsize__if_i_eq_0_atoms = ["i : uint64"]%string.
Proof. repeat split; reflexivity. Qed.

(** AppendUint64 / encBuffer.writeUint64: zero, single byte, else tag 0x80+k and the putint bytes *)
Definition src_appenduint_size (i : Z) : Z :=
  if lib_rlp__AppendUint64__case_i_lt_1_shl_8 i then 1
  else if lib_rlp__AppendUint64__case_i_lt_1_shl_16 i then 2
  else if lib_rlp__AppendUint64__case_i_lt_1_shl_24 i then 3
  else if lib_rlp__AppendUint64__case_i_lt_1_shl_32 i then 4
  else if lib_rlp__AppendUint64__case_i_lt_1_shl_40 i then 5
  else if lib_rlp__AppendUint64__case_i_lt_1_shl_48 i then 6
  else if lib_rlp__AppendUint64__case_i_lt_1_shl_56 i then 7
  else 8.
Lemma src_appenduint_ladder i : src_appenduint_size i = src_putint_size i.
Proof. reflexivity. Qed.

(** the bytes AppendUint64 appends are the bytes putint stores *)
Lemma src_appenduint_bytes :
  lib_rlp__AppendUint64__arg_byte_i_shr_8 = lib_rlp__putint__assign
  /\ lib_rlp__AppendUint64__arg_byte_i_shr_16 = lib_rlp__putint__assign_2 /\ lib_rlp__AppendUint64__arg_byte_i_shr_8_2 = lib_rlp__putint__assign_3
  /\ lib_rlp__AppendUint64__arg_byte_i_shr_24 = lib_rlp__putint__assign_4 /\ lib_rlp__AppendUint64__arg_byte_i_shr_16_2 = lib_rlp__putint__assign_5
  /\ lib_rlp__AppendUint64__arg_byte_i_shr_8_3 = lib_rlp__putint__assign_6
  /\ lib_rlp__AppendUint64__arg_byte_i_shr_32 = lib_rlp__putint__assign_7 /\ lib_rlp__AppendUint64__arg_byte_i_shr_24_2 = lib_rlp__putint__assign_8
  /\ lib_rlp__AppendUint64__arg_byte_i_shr_16_3 = lib_rlp__putint__assign_9 /\ lib_rlp__AppendUint64__arg_byte_i_shr_8_4 = lib_rlp__putint__assign_10
  /\ lib_rlp__AppendUint64__arg_byte_i_shr_40 = lib_rlp__putint__assign_11 /\ lib_rlp__AppendUint64__arg_byte_i_shr_32_2 = lib_rlp__putint__assign_12
  /\ lib_rlp__AppendUint64__arg_byte_i_shr_24_3 = lib_rlp__putint__assign_13 /\ lib_rlp__AppendUint64__arg_byte_i_shr_16_4 = lib_rlp__putint__assign_14
  /\ lib_rlp__AppendUint64__arg_byte_i_shr_8_5 = lib_rlp__putint__assign_15
  /\ lib_rlp__AppendUint64__arg_byte_i_shr_48 = lib_rlp__putint__assign_16 /\ lib_rlp__AppendUint64__arg_byte_i_shr_40_2 = lib_rlp__putint__assign_17
  /\ lib_rlp__AppendUint64__arg_byte_i_shr_32_3 = lib_rlp__putint__assign_18 /\ lib_rlp__AppendUint64__arg_byte_i_shr_24_4 = lib_rlp__putint__assign_19
  /\ lib_rlp__AppendUint64__arg_byte_i_shr_16_5 = lib_rlp__putint__assign_20 /\ lib_rlp__AppendUint64__arg_byte_i_shr_8_6 = lib_rlp__putint__assign_21
  /\ lib_rlp__AppendUint64__arg_byte_i_shr_56 = lib_rlp__putint__assign_22 /\ lib_rlp__AppendUint64__arg_byte_i_shr_48_2 = lib_rlp__putint__assign_23
  /\ lib_rlp__AppendUint64__arg_byte_i_shr_40_3 = lib_rlp__putint__assign_24 /\ lib_rlp__AppendUint64__arg_byte_i_shr_32_4 = lib_rlp__putint__assign_25
  /\ lib_rlp__AppendUint64__arg_byte_i_shr_24_5 = lib_rlp__putint__assign_26 /\ lib_rlp__AppendUint64__arg_byte_i_shr_16_6 = lib_rlp__putint__assign_27
  /\ lib_rlp__AppendUint64__arg_byte_i_shr_8_7 = lib_rlp__putint__assign_28.
Proof. repeat split; reflexivity. Qed.

Lemma src_append_uint64 n : (n < two64)%N ->
  append_uint64 n =
    (if lib_rlp__AppendUint64__if_i_eq_0 (zN n) then [Nb 128]
     else if lib_rlp__AppendUint64__if_i_lt_128 (zN n) then [Nb n]
     else Nb (128 + Z.to_N (src_appenduint_size (zN n))) :: src_putint_bytes (zN n)).
Proof.
  intros Hn. unfold append_uint64, lib_rlp__AppendUint64__if_i_eq_0, lib_rlp__AppendUint64__if_i_lt_128.
  n_cases; bool_cases; try lia; try reflexivity.
  cbv zeta. destruct (src_putint n ltac:(lia)) as [Eb El].
  rewrite src_appenduint_ladder, <- El, <- Eb, N2Z.id. reflexivity.
Qed.

Lemma src_enc_uint n : (n < two64)%N ->
  enc_uint n =
    (if lib_rlp__encBuffer_writeUint64__if_i_eq_0 (zN n) then [Nb 128]
     else if lib_rlp__encBuffer_writeUint64__if_i_lt_128 (zN n) then [Nb n]
     else nb (lib_rlp__encBuffer_writeUint64__assign (lib_rlp__encBuffer_writeUint64__let_s (src_putint_size (zN n))))
          :: src_putint_bytes (zN n)).
Proof.
  intros Hn. rewrite <- append_uint64_enc_uint by exact Hn.
  unfold append_uint64, lib_rlp__encBuffer_writeUint64__if_i_eq_0, lib_rlp__encBuffer_writeUint64__if_i_lt_128.
  n_cases; bool_cases; try lia; try reflexivity.
  cbv zeta. destruct (src_putint n ltac:(lia)) as [Eb El].
  rewrite <- El, <- Eb. pose proof (be_bytes_len_le8 n Hn).
  unfold nb, lib_rlp__encBuffer_writeUint64__assign, lib_rlp__encBuffer_writeUint64__let_s. gosem_unfold. wraps_away.
  replace (Z.to_N (128 + zN (len (be_bytes n)))) with (128 + len (be_bytes n))%N by lia. reflexivity.
Qed.
Lemma src_uint_atoms :
  lib_rlp__AppendUint64__if_i_eq_0_atoms = ["i : uint64"]%string
  /\ lib_rlp__AppendUint64__if_i_lt_128_atoms = ["i : uint64"]%string
  /\ lib_rlp__encBuffer_writeUint64__if_i_eq_0_atoms = ["i : uint64"]%string
  /\ lib_rlp__encBuffer_writeUint64__if_i_lt_128_atoms = ["i : uint64"]%string
  /\ lib_rlp__encBuffer_writeUint64__let_s_atoms = ["putint(buf.sizebuf[1:], i) : int"]%string
  /\ lib_rlp__encBuffer_writeUint64__assign_atoms = ["s : int"]%string
  /\ lib_rlp__putint__case_i_lt_1_shl_8_atoms = ["i : uint64"]%string
  /\ lib_rlp__putint__assign_22_atoms = ["i : uint64"]%string.
Proof. repeat split; reflexivity. Qed.

(** writeBigInt: the uint64 path up to 64 bits, and ((bitlen + 7) & -8) >> 3 bytes above *)
Lemma land_minus8 a : 0 <= a -> Z.land a (-8) = 8 * (a / 8).
Proof.
  intros Ha. change (-8) with (Z.lnot (Z.ones 3)). rewrite <- Z.ldiff_land, Z.ldiff_ones_r by lia.
  rewrite Z.shiftl_mul_pow2, Z.shiftr_div_pow2 by lia. change (2 ^ 3) with 8. lia.
Qed.
Lemma src_bigint_length bitlen : 0 <= bitlen < 2 ^ 32 ->
  lib_rlp__encBuffer_writeBigInt__set_length (lib_rlp__encBuffer_writeBigInt__let_bitlen bitlen) = (bitlen + 7) / 8.
Proof.
  intros H. unfold lib_rlp__encBuffer_writeBigInt__set_length, lib_rlp__encBuffer_writeBigInt__let_bitlen, go_shr, go_and, go_add.
  rewrite (wrap_id I64 (bitlen + 7)) by (unfold in_range; lia).
  rewrite land_minus8 by lia.
  assert (0 <= (bitlen + 7) / 8 <= bitlen + 7) by (split; [apply Z.div_pos; lia|apply Z.div_le_upper_bound; lia]).
  rewrite (wrap_id I64 (8 * ((bitlen + 7) / 8))) by (unfold in_range; lia).
  change (2 ^ 3) with 8. rewrite Z.mul_comm, Z.div_mul by lia.
  apply wrap_id. unfold in_range. lia.
Qed.
Lemma src_bigint_guard bitlen : lib_rlp__encBuffer_writeBigInt__if_bitlen_le_64 (zN bitlen) = (bitlen <=? 64)%N.
Proof. unfold lib_rlp__encBuffer_writeBigInt__if_bitlen_le_64. tie_close. Qed.
(** the number of bytes of a big integer of [bitlen] bits is the length of the model's [be_bytes] *)
Lemma be_bytes_len_bits n : (n <> 0)%N -> zN (len (be_bytes n)) = (zN (N.size n) + 7) / 8.
Proof.
  intros Hn.
  assert (Hs1 : (1 <= N.size n)%N) by (destruct n; [contradiction|cbn; lia]).
  assert (Hs : (2 ^ (N.size n - 1) <= n < 2 ^ N.size n)%N).
  { split; [|apply N.size_gt].
    pose proof (N.size_le n) as Hle. rewrite N.succ_double_spec in Hle.
    replace (N.size n) with (N.size n - 1 + 1)%N in Hle at 1 by lia.
    rewrite N.pow_add_r, N.pow_1_r in Hle. lia. }
  set (s := N.size n) in *.
  set (k := ((s + 7) / 8)%N).
  assert (Hk : (8 * (k - 1) < s <= 8 * k)%N) by (unfold k; lia).
  assert (len (be_bytes n) = k).
  { apply be_bytes_len_exact.
    - unfold k. lia.
    - change 256%N with (2 ^ 8)%N. rewrite <- N.pow_mul_r.
      apply N.le_trans with (2 ^ (s - 1))%N; [apply N.pow_le_mono_r; lia|lia].
    - change 256%N with (2 ^ 8)%N. rewrite <- N.pow_mul_r.
      apply N.lt_le_trans with (2 ^ s)%N; [lia|apply N.pow_le_mono_r; lia]. }
  rewrite H. unfold k. rewrite N2Z.inj_div, N2Z.inj_add. reflexivity.
Qed.

(** encBuffer bookkeeping: size(), the size of a closed list, the header bytes it adds *)
Lemma src_encbuffer_size a b : 0 <= a < 2 ^ 62 -> 0 <= b < 2 ^ 62 ->
  lib_rlp__encBuffer_size__ret_len_buf_str_plus_buf_lhsize a b = a + b.
Proof. intros. unfold lib_rlp__encBuffer_size__ret_len_buf_str_plus_buf_lhsize. gosem_unfold. wraps_away. reflexivity. Qed.
Lemma src_listEnd_size total offset before : 0 <= before -> 0 <= offset -> before + offset <= total < 2 ^ 62 ->
  lib_rlp__encBuffer_listEnd__set_size total offset before = total - offset - before.
Proof. intros. unfold lib_rlp__encBuffer_listEnd__set_size. gosem_unfold. wraps_away. reflexivity. Qed.
Lemma src_listEnd_lhsize lhsize size : 0 <= lhsize < 2 ^ 62 -> (size < two64)%N ->
  (if lib_rlp__encBuffer_listEnd__if_lh_size_lt_56 (zN size)
   then lib_rlp__encBuffer_listEnd__set_lhsize_op lhsize
   else lib_rlp__encBuffer_listEnd__set_lhsize_op_2 lhsize (src_intsize (zN size)))
  = lhsize + zN (head_size size).
Proof.
  intros Hl Hn. rewrite src_listEnd_guard, src_intsize_ok by exact Hn. unfold head_size.
  assert (zN (int_size_raw size) <= 8).
  { unfold int_size_raw. destruct (size =? 0)%N; [lia|]. pose proof (be_bytes_len_le8 size Hn). lia. }
  destruct (size <? 56)%N;
    unfold lib_rlp__encBuffer_listEnd__set_lhsize_op, lib_rlp__encBuffer_listEnd__set_lhsize_op_2; gosem_unfold; wraps_away; lia.
Qed.
Lemma src_encbuffer_atoms :
  lib_rlp__encBuffer_size__ret_len_buf_str_plus_buf_lhsize_atoms = ["len(buf.str) : int"; "buf.lhsize : int"]%string
  /\ lib_rlp__encBuffer_listEnd__set_size_atoms = ["buf.size() : int"; "lh.offset : int"; "lh.size : int"]%string
  /\ lib_rlp__encBuffer_listEnd__set_lhsize_op_2_atoms = ["buf.lhsize : int"; "intsize(uint64(lh.size)) : int"]%string
  /\ lib_rlp__encBuffer_writeBigInt__let_bitlen_atoms = ["i.BitLen() : int"]%string
  /\ lib_rlp__encBuffer_writeBigInt__if_bitlen_le_64_atoms = ["bitlen : int"]%string
  /\ lib_rlp__encBuffer_writeBigInt__set_length_atoms = ["bitlen : int"]%string.
Proof. repeat split; reflexivity. Qed.

(** empty slices / arrays are 0xC0; nil pointers 0x80 or 0xC0 by kind *)
Lemma src_slice_empty (l : list val) :
  lib_rlp__makeSliceWriter__if_vlen_eq_0 (lib_rlp__makeSliceWriter__let_vlen_2 (zN (len l))) = match l with [] => true | _ => false end.
Proof.
  unfold lib_rlp__makeSliceWriter__if_vlen_eq_0, lib_rlp__makeSliceWriter__let_vlen_2.
  destruct l; [reflexivity|]. rewrite len_cons. bool_cases; [lia|reflexivity].
Qed.
Lemma src_ptr_nil_encoding e tg :
  (match nil_kind e tg with KString => [Nb 128] | _ => [Nb 192] end : bytes) =
  [nb (if lib_rlp__makePtrWriter__if_typeNilKind_typ_Elem_ts_eq_String (zk (nil_kind e tg))
       then lib_rlp__makePtrWriter__let_nilEncoding_2 else lib_rlp__makePtrWriter__let_nilEncoding)].
Proof.
  destruct (nil_kind_cases e tg) as [-> | ->]; reflexivity.
Qed.
Lemma src_writer_atoms :
  lib_rlp__makeSliceWriter__let_vlen_2_atoms = ["val.Len() : int"]%string
  /\ lib_rlp__makeSliceWriter__if_vlen_eq_0_atoms = ["vlen : int"]%string
  /\ lib_rlp__makeSliceWriter__if_ts_Tail_atoms = ["ts.Tail : bool"]%string
  /\ lib_rlp__makePtrWriter__if_typeNilKind_typ_Elem_ts_eq_String_atoms = ["typeNilKind(typ.Elem(), ts) : github.com/kardiachain/go-kardia/lib/rlp.Kind"]%string
  /\ lib_rlp__makeStructWriter__if_firstOptionalField_eq_len_fields_atoms = ["firstOptionalField : int"; "len(fields) : int"]%string
  /\ lib_rlp__makeStructWriter__for_lastField_ge_firstOptionalField_atoms = ["lastField : int"; "firstOptionalField : int"]%string
  /\ lib_rlp__makeStructWriter__if_not_val_Field_fields_at_lastField__index__IsZero_atoms = ["val.Field(fields[lastField].index).IsZero() : bool"]%string
  /\ lib_rlp__makeStructWriter__for_i_le_lastField_atoms = ["i : int"; "lastField : int"]%string.
Proof. repeat split; reflexivity. Qed.

(** * 3. Decoder: the Stream *)

Lemma nb_zb b : nb (zb b) = b.
Proof. unfold nb, zb. rewrite N2Z.id. apply Nb_bN. Qed.

(** ** readKind: the four boundaries of the type tag, the short sizes, "long form for a short size" *)
Lemma src_tag_lt_0x80 b : lib_rlp__Stream_readKind__case_b_lt_0x80 (zb b) = (bN b <? 128)%N.
Proof. unfold lib_rlp__Stream_readKind__case_b_lt_0x80, zb. tie_close. Qed.
Lemma src_tag_lt_0xB8 b : lib_rlp__Stream_readKind__case_b_lt_0xB8 (zb b) = (bN b <? 184)%N.
Proof. unfold lib_rlp__Stream_readKind__case_b_lt_0xB8, zb. tie_close. Qed.
Lemma src_tag_lt_0xC0 b : lib_rlp__Stream_readKind__case_b_lt_0xC0 (zb b) = (bN b <? 192)%N.
Proof. unfold lib_rlp__Stream_readKind__case_b_lt_0xC0, zb. tie_close. Qed.
Lemma src_tag_lt_0xF8 b : lib_rlp__Stream_readKind__case_b_lt_0xF8 (zb b) = (bN b <? 248)%N.
Proof. unfold lib_rlp__Stream_readKind__case_b_lt_0xF8, zb. tie_close. Qed.
Lemma src_short_string_size b : (128 <= bN b)%N ->
  Z.to_N (lib_rlp__Stream_readKind__ret_uint64_b_minus_0x80 (zb b)) = (bN b - 128)%N.
Proof.
  intros H. pose proof (bN_lt b). unfold lib_rlp__Stream_readKind__ret_uint64_b_minus_0x80, zb.
  gosem_unfold. wraps_away. lia.
Qed.
Lemma src_short_list_size b : (192 <= bN b)%N ->
  Z.to_N (lib_rlp__Stream_readKind__ret_uint64_b_minus_0xC0 (zb b)) = (bN b - 192)%N.
Proof.
  intros H. pose proof (bN_lt b). unfold lib_rlp__Stream_readKind__ret_uint64_b_minus_0xC0, zb.
  gosem_unfold. wraps_away. lia.
Qed.
Lemma src_lenlen b :
  ((184 <= bN b)%N -> Z.to_N (lib_rlp__Stream_readKind__arg_b_minus_0xB7 (zb b)) = (bN b - 183)%N
                      /\ Z.to_N (lib_rlp__readKind__arg_b_minus_0xB7 (zb b)) = (bN b - 183)%N)
  /\ ((248 <= bN b)%N -> Z.to_N (lib_rlp__Stream_readKind__arg_b_minus_0xF7 (zb b)) = (bN b - 247)%N
                         /\ Z.to_N (lib_rlp__readKind__arg_b_minus_0xF7 (zb b)) = (bN b - 247)%N).
Proof.
  pose proof (bN_lt b).
  unfold lib_rlp__Stream_readKind__arg_b_minus_0xB7, lib_rlp__readKind__arg_b_minus_0xB7,
    lib_rlp__Stream_readKind__arg_b_minus_0xF7, lib_rlp__readKind__arg_b_minus_0xF7, zb.
  split; intros; split; gosem_unfold; wraps_away; lia.
Qed.
Lemma src_lenlen_atoms :
  lib_rlp__Stream_readKind__arg_b_minus_0xB7_atoms = ["b : byte"]%string
  /\ lib_rlp__Stream_readKind__arg_b_minus_0xF7_atoms = ["b : byte"]%string
  /\ lib_rlp__readKind__arg_b_minus_0xB7_atoms = ["b : byte"]%string
  /\ lib_rlp__readKind__arg_b_minus_0xF7_atoms = ["b : byte"]%string.
Proof. repeat split; reflexivity. Qed.

Lemma src_long_size_canon size :
  lib_rlp__Stream_readKind__if_err_eq_nil_and_size_lt_56 true (zN size) = (size <? 56)%N
  /\ lib_rlp__Stream_readKind__if_err_eq_nil_and_size_lt_56_2 true (zN size) = (size <? 56)%N.
Proof.
  unfold lib_rlp__Stream_readKind__if_err_eq_nil_and_size_lt_56, lib_rlp__Stream_readKind__if_err_eq_nil_and_size_lt_56_2.
  split; tie_close.
Qed.
Lemma src_readKind_atoms :
  lib_rlp__Stream_readKind__case_b_lt_0x80_atoms = ["b : byte"]%string
  /\ lib_rlp__Stream_readKind__case_b_lt_0xB8_atoms = ["b : byte"]%string
  /\ lib_rlp__Stream_readKind__case_b_lt_0xC0_atoms = ["b : byte"]%string
  /\ lib_rlp__Stream_readKind__case_b_lt_0xF8_atoms = ["b : byte"]%string
  /\ lib_rlp__Stream_readKind__ret_uint64_b_minus_0x80_atoms = ["b : byte"]%string
  /\ lib_rlp__Stream_readKind__ret_uint64_b_minus_0xC0_atoms = ["b : byte"]%string
  /\ lib_rlp__Stream_readKind__if_err_eq_nil_and_size_lt_56_atoms = ["err == nil : untyped bool"; "size : uint64"]%string
  /\ lib_rlp__Stream_readKind__if_err_eq_nil_and_size_lt_56_2_atoms = ["err == nil : untyped bool"; "size : uint64"]%string
  /\ lib_rlp__Stream_readKind__put_s_byteval_2_atoms = ["b : byte"]%string
  /\ lib_rlp__Stream_readKind__if_len_s_stack_eq_0_atoms = ["len(s.stack) : int"]%string.
Proof. repeat split; reflexivity. Qed.

(** the window decoder's [read_kind] re-assembled from the generated guards and operands *)
Definition src_read_kind (il : bool) (bs : bytes) : kres :=
  match bs with
  | [] => KErr (if il then EEOL else EEOF)
  | b :: r =>
    let t := zb b in
    if lib_rlp__Stream_readKind__case_b_lt_0x80 t then KOk KByte 0 (nb (lib_rlp__Stream_readKind__put_s_byteval_2 t)) r
    else if lib_rlp__Stream_readKind__case_b_lt_0xB8 t then
      chk_size il KString (Z.to_N (lib_rlp__Stream_readKind__ret_uint64_b_minus_0x80 t)) r
    else if lib_rlp__Stream_readKind__case_b_lt_0xC0 t then
      match read_uint il (Z.to_N (lib_rlp__Stream_readKind__arg_b_minus_0xB7 t)) r with
      | UErr e => KErr e
      | UOk size r' =>
        if lib_rlp__Stream_readKind__if_err_eq_nil_and_size_lt_56 true (zN size) then KErr ECanonSize
        else chk_size il KString size r'
      end
    else if lib_rlp__Stream_readKind__case_b_lt_0xF8 t then
      chk_size il KList (Z.to_N (lib_rlp__Stream_readKind__ret_uint64_b_minus_0xC0 t)) r
    else
      match read_uint il (Z.to_N (lib_rlp__Stream_readKind__arg_b_minus_0xF7 t)) r with
      | UErr e => KErr e
      | UOk size r' =>
        if lib_rlp__Stream_readKind__if_err_eq_nil_and_size_lt_56_2 true (zN size) then KErr ECanonSize
        else chk_size il KList size r'
      end
  end.
Lemma src_read_kind_ok il bs : read_kind il bs = src_read_kind il bs.
Proof.
  destruct bs as [|b r]; [reflexivity|]. unfold read_kind, src_read_kind. cbv zeta.
  rewrite src_tag_lt_0x80, src_tag_lt_0xB8, src_tag_lt_0xC0, src_tag_lt_0xF8.
  destruct (N.ltb_spec (bN b) 128).
  { unfold lib_rlp__Stream_readKind__put_s_byteval_2. rewrite nb_zb. reflexivity. }
  destruct (N.ltb_spec (bN b) 184). { rewrite src_short_string_size by assumption. reflexivity. }
  destruct (N.ltb_spec (bN b) 192).
  { rewrite (proj1 (proj1 (src_lenlen b) ltac:(assumption))).
    destruct (read_uint il (bN b - 183) r); [|reflexivity]. rewrite (proj1 (src_long_size_canon v)). reflexivity. }
  destruct (N.ltb_spec (bN b) 248). { rewrite src_short_list_size by assumption. reflexivity. }
  rewrite (proj1 (proj2 (src_lenlen b) ltac:(assumption))).
  destruct (read_uint il (bN b - 247) r); [|reflexivity]. rewrite (proj2 (src_long_size_canon v)). reflexivity.
Qed.

(** the same for the literal Stream machine *)
Definition src_s_read_kind (s : stream) : sres (kind * N * byte) :=
  match s_read_full 1 s with
  | SErr e =>
    if lib_rlp__Stream_readKind__if_len_s_stack_eq_0 (zN (len (s_stack s)))
    then match e with EValueTooLarge => SErr EEOF | _ => SErr e end
    else SErr e
  | SOk b1 s1 =>
    let b := hd x00 b1 in
    let t := zb b in
    if lib_rlp__Stream_readKind__case_b_lt_0x80 t then SOk (KByte, 0%N, nb (lib_rlp__Stream_readKind__put_s_byteval_2 t)) s1
    else if lib_rlp__Stream_readKind__case_b_lt_0xB8 t then
      SOk (KString, Z.to_N (lib_rlp__Stream_readKind__ret_uint64_b_minus_0x80 t), nb lib_rlp__Stream_readKind__put_s_byteval) s1
    else if lib_rlp__Stream_readKind__case_b_lt_0xC0 t then
      sbind (s_read_uint (Z.to_N (lib_rlp__Stream_readKind__arg_b_minus_0xB7 t)) s1) (fun size s2 =>
      if lib_rlp__Stream_readKind__if_err_eq_nil_and_size_lt_56 true (zN size) then SErr ECanonSize
      else SOk (KString, size, nb lib_rlp__Stream_readKind__put_s_byteval) s2)
    else if lib_rlp__Stream_readKind__case_b_lt_0xF8 t then
      SOk (KList, Z.to_N (lib_rlp__Stream_readKind__ret_uint64_b_minus_0xC0 t), nb lib_rlp__Stream_readKind__put_s_byteval) s1
    else
      sbind (s_read_uint (Z.to_N (lib_rlp__Stream_readKind__arg_b_minus_0xF7 t)) s1) (fun size s2 =>
      if lib_rlp__Stream_readKind__if_err_eq_nil_and_size_lt_56_2 true (zN size) then SErr ECanonSize
      else SOk (KList, size, nb lib_rlp__Stream_readKind__put_s_byteval) s2)
  end.
Lemma src_s_read_kind_ok s : s_read_kind s = src_s_read_kind s.
Proof.
  unfold s_read_kind, src_s_read_kind.
  destruct (s_read_full 1 s) as [b1 s1|e].
  - cbv zeta. rewrite src_tag_lt_0x80, src_tag_lt_0xB8, src_tag_lt_0xC0, src_tag_lt_0xF8.
    change (nb lib_rlp__Stream_readKind__put_s_byteval) with x00.
    destruct (N.ltb_spec (bN (hd x00 b1)) 128).
    { unfold lib_rlp__Stream_readKind__put_s_byteval_2. rewrite nb_zb. reflexivity. }
    destruct (N.ltb_spec (bN (hd x00 b1)) 184). { rewrite src_short_string_size by assumption. reflexivity. }
    destruct (N.ltb_spec (bN (hd x00 b1)) 192).
    { rewrite (proj1 (proj1 (src_lenlen (hd x00 b1)) ltac:(assumption))).
      unfold sbind. destruct (s_read_uint _ s1); [|reflexivity]. rewrite (proj1 (src_long_size_canon v)). reflexivity. }
    destruct (N.ltb_spec (bN (hd x00 b1)) 248). { rewrite src_short_list_size by assumption. reflexivity. }
    rewrite (proj1 (proj2 (src_lenlen (hd x00 b1)) ltac:(assumption))).
    unfold sbind. destruct (s_read_uint _ s1); [|reflexivity]. rewrite (proj2 (src_long_size_canon v)). reflexivity.
  - unfold lib_rlp__Stream_readKind__if_len_s_stack_eq_0.
    destruct (s_stack s) as [|l st]; [reflexivity|].
    rewrite len_cons. bool_cases; [lia|]. destruct e; reflexivity.
Qed.

(** ** Kind: end of list, the size of the value ahead against the list limit and the input limit *)
Lemma src_kind_eol (inList : bool) l :
  lib_rlp__Stream_Kind__if_inList_and_listLimit_eq_0 inList (zN l) = (inList && (l =? 0)%N)%bool.
Proof. unfold lib_rlp__Stream_Kind__if_inList_and_listLimit_eq_0. destruct inList; tie_close. Qed.
Lemma src_kind_elem_too_large (inList : bool) size l :
  lib_rlp__Stream_Kind__if_inList_and_s_size_gt_listLimit inList (zN size) (zN l) = (inList && (l <? size)%N)%bool.
Proof. unfold lib_rlp__Stream_Kind__if_inList_and_s_size_gt_listLimit. destruct inList; tie_close. Qed.
Lemma src_kind_value_too_large (limited : bool) size rem :
  lib_rlp__Stream_Kind__if_s_limited_and_s_size_gt_s_remaining limited (zN size) (zN rem) = (limited && (rem <? size)%N)%bool.
Proof. unfold lib_rlp__Stream_Kind__if_s_limited_and_s_size_gt_s_remaining. destruct limited; tie_close. Qed.
Lemma src_kind_atoms :
  lib_rlp__Stream_Kind__if_s_kind_ge_0_atoms = ["s.kind : github.com/kardiachain/go-kardia/lib/rlp.Kind"]%string
  /\ lib_rlp__Stream_Kind__if_inList_and_listLimit_eq_0_atoms = ["inList : bool"; "listLimit : uint64"]%string
  /\ lib_rlp__Stream_Kind__if_inList_and_s_size_gt_listLimit_atoms = ["inList : bool"; "s.size : uint64"; "listLimit : uint64"]%string
  /\ lib_rlp__Stream_Kind__if_s_limited_and_s_size_gt_s_remaining_atoms = ["s.limited : bool"; "s.size : uint64"; "s.remaining : uint64"]%string
  /\ lib_rlp__Stream_Kind__if_s_kinderr_eq_nil_atoms = ["s.kinderr == nil : untyped bool"]%string.
Proof. repeat split; reflexivity. Qed.

(** the window decoder's size check is Kind's: against the list limit inside a list, against the
    remaining input at top level (where DecodeBytes has set [limited]) *)
Lemma src_chk_size il k size rest :
  chk_size il k size rest =
    if (if il then lib_rlp__Stream_Kind__if_inList_and_s_size_gt_listLimit true (zN size) (zN (len rest))
        else lib_rlp__Stream_Kind__if_s_limited_and_s_size_gt_s_remaining true (zN size) (zN (len rest)))
    then KErr (too_large il) else KOk k size x00 rest.
Proof.
  unfold chk_size. rewrite src_kind_elem_too_large, src_kind_value_too_large. destruct il; reflexivity.
Qed.

(** the cached kind: [s.kind >= 0] is "a kind is cached"; every re-arm stores -1 *)
Definition cache_kind (c : option (kind * N * byte)) : Z :=
  match c with Some (k, _, _) => zk k | None => lib_rlp__Stream_willRead__put_s_kind end.
Lemma src_kind_cached c : lib_rlp__Stream_Kind__if_s_kind_ge_0 (cache_kind c) = match c with Some _ => true | None => false end.
Proof. destruct c as [[[[| |] ?] ?]|]; reflexivity. Qed.
Lemma src_rearm_stores :
  lib_rlp__Stream_willRead__put_s_kind = -1 /\ lib_rlp__Stream_Reset__put_s_kind = -1
  /\ lib_rlp__Stream_readUint__put_s_kind = -1 /\ lib_rlp__Stream_List__put_s_kind = -1
  /\ lib_rlp__Stream_ListEnd__put_s_kind = -1 /\ lib_rlp__Stream_Bytes__put_s_kind = -1
  /\ lib_rlp__Stream_ReadBytes__put_s_kind = -1 /\ lib_rlp__Stream_Raw__put_s_kind = -1
  /\ lib_rlp__Stream_uint__put_s_kind = -1 /\ lib_rlp__decodeBigInt__put_s_kind = -1
  /\ lib_rlp__decodeBigInt__put_s_kind_2 = -1 /\ lib_rlp__decodeByteArray__put_s_kind = -1
  /\ lib_rlp__makeNilPtrDecoder__put_s_kind = -1.
Proof. repeat split; reflexivity. Qed.

Definition src_s_kind (s : stream) : sres (kind * N * byte) :=
  if lib_rlp__Stream_Kind__if_s_kind_ge_0 (cache_kind (s_cache s)) then
    match s_cache s with Some c => SOk c s | None => SErr EFuel end
  else
    let inList := match s_stack s with [] => false | _ => true end in
    let l := hd 0%N (s_stack s) in
    if lib_rlp__Stream_Kind__if_inList_and_listLimit_eq_0 inList (zN l) then SErr EEOL
    else
      sbind (s_read_kind s) (fun c s' =>
      let '(k, size, bv) := c in
      if lib_rlp__Stream_Kind__if_inList_and_s_size_gt_listLimit inList (zN size) (zN l) then SErr EElemTooLarge
      else if lib_rlp__Stream_Kind__if_s_limited_and_s_size_gt_s_remaining true (zN size) (zN (len (s_in s'))) then SErr EValueTooLarge
      else SOk c (mkS (s_in s') (s_stack s') (Some c))).
Lemma src_s_kind_ok s : s_kind s = src_s_kind s.
Proof.
  unfold s_kind, src_s_kind. rewrite src_kind_cached.
  destruct (s_cache s) as [c|]; [reflexivity|]. cbv zeta.
  rewrite src_kind_eol.
  destruct (s_stack s) as [|l st]; cbn [hd andb].
  - unfold sbind. destruct (s_read_kind s) as [[[k size] bv] s'|e]; [|reflexivity].
    rewrite src_kind_elem_too_large, src_kind_value_too_large. reflexivity.
  - destruct (l =? 0)%N; [reflexivity|].
    unfold sbind. destruct (s_read_kind s) as [[[k size] bv] s'|e]; [|reflexivity].
    rewrite src_kind_elem_too_large, src_kind_value_too_large. reflexivity.
Qed.

(** ** willRead: the two limits and their updates *)
Lemma src_willRead_list n limit : lib_rlp__Stream_willRead__if_n_gt_limit (zN n) (zN limit) = (limit <? n)%N.
Proof. unfold lib_rlp__Stream_willRead__if_n_gt_limit. tie_close. Qed.
Lemma src_willRead_input n rem : lib_rlp__Stream_willRead__if_n_gt_s_remaining (zN n) (zN rem) = (rem <? n)%N.
Proof. unfold lib_rlp__Stream_willRead__if_n_gt_s_remaining. tie_close. Qed.
Lemma src_willRead_sub_list limit n : (n <= limit)%N -> (limit < two64)%N ->
  lib_rlp__Stream_willRead__assign (zN limit) (zN n) = zN (limit - n).
Proof. intros. unfold lib_rlp__Stream_willRead__assign, two64 in *. gosem_unfold. wraps_away. lia. Qed.
Lemma src_willRead_sub_input rem n : (n <= rem)%N -> (rem < two64)%N ->
  lib_rlp__Stream_willRead__set_remaining_op (zN rem) (zN n) = zN (rem - n).
Proof. intros. unfold lib_rlp__Stream_willRead__set_remaining_op, two64 in *. gosem_unfold. wraps_away. lia. Qed.
Lemma src_willRead_atoms :
  lib_rlp__Stream_willRead__if_n_gt_limit_atoms = ["n : uint64"; "limit : uint64"]%string
  /\ lib_rlp__Stream_willRead__assign_atoms = ["limit : uint64"; "n : uint64"]%string
  /\ lib_rlp__Stream_willRead__if_n_gt_s_remaining_atoms = ["n : uint64"; "s.remaining : uint64"]%string
  /\ lib_rlp__Stream_willRead__set_remaining_op_atoms = ["s.remaining : uint64"; "n : uint64"]%string
  /\ lib_rlp__Stream_willRead__if_inList_atoms = ["inList : bool"]%string
  /\ lib_rlp__Stream_willRead__if_s_limited_atoms = ["s.limited : bool"]%string.
Proof. repeat split; reflexivity. Qed.

Definition src_s_read_full (n : N) (s : stream) : sres bytes :=
  match s_stack s with
  | l :: r =>
    if lib_rlp__Stream_willRead__if_n_gt_limit (zN n) (zN l) then SErr EElemTooLarge
    else if lib_rlp__Stream_willRead__if_n_gt_s_remaining (zN n) (zN (len (s_in s))) then SErr EValueTooLarge
    else SOk (take n (s_in s)) (mkS (drop n (s_in s)) (Z.to_N (lib_rlp__Stream_willRead__assign (zN l) (zN n)) :: r) None)
  | [] =>
    if lib_rlp__Stream_willRead__if_n_gt_s_remaining (zN n) (zN (len (s_in s))) then SErr EValueTooLarge
    else SOk (take n (s_in s)) (mkS (drop n (s_in s)) [] None)
  end.
Lemma src_s_read_full_ok n s : Forall (fun l => (l < two64)%N) (s_stack s) -> s_read_full n s = src_s_read_full n s.
Proof.
  intros Hst. unfold s_read_full, src_s_read_full.
  destruct (s_stack s) as [|l r]; rewrite ?src_willRead_list, ?src_willRead_input; [reflexivity|].
  destruct (N.ltb_spec l n); [reflexivity|]. destruct (len (s_in s) <? n)%N; [reflexivity|].
  inversion Hst; subst. rewrite src_willRead_sub_list by assumption. rewrite N2Z.id. reflexivity.
Qed.

(** ** readUint: a multi-byte size or integer must not start with a zero byte *)
Lemma src_readUint_leading_zero (b : bytes) :
  lib_rlp__Stream_readUint__if_buffer_at_start_eq_0 (zb (hd x00 b)) = (bN (hd x00 b) =? 0)%N.
Proof. unfold lib_rlp__Stream_readUint__if_buffer_at_start_eq_0, zb. tie_close. Qed.
Lemma src_readUint_start size : (2 <= size <= 8)%N -> lib_rlp__Stream_readUint__set_start (zN size) = 8 - zN size.
Proof. intros. unfold lib_rlp__Stream_readUint__set_start. gosem_unfold. wraps_away. reflexivity. Qed.
Lemma src_read_uint il size bs :
  read_uint il size bs =
    if (size =? 0)%N then UOk 0%N bs
    else if (len bs <? size)%N then UErr (too_large il)
    else let b := take size bs in
         if (size =? 1)%N then UOk (be_val b) (drop size bs)
         else if lib_rlp__Stream_readUint__if_buffer_at_start_eq_0 (zb (hd x00 b)) then UErr ECanonSize
         else UOk (be_val b) (drop size bs).
Proof. unfold read_uint. cbv zeta. rewrite src_readUint_leading_zero. reflexivity. Qed.
Lemma src_readUint_atoms :
  lib_rlp__Stream_readUint__if_buffer_at_start_eq_0_atoms = ["buffer[start] : byte"]%string
  /\ lib_rlp__Stream_readUint__set_start_atoms = ["size : byte"]%string.
Proof. split; reflexivity. Qed.

(** ** List / ListEnd *)
Lemma src_list_kind k : lib_rlp__Stream_List__if_kind_ne_List (zk k) = negb (kind_eqb k KList).
Proof. destruct k; reflexivity. Qed.
Lemma src_list_limit limit size : (limit < two64)%N -> (size < two64)%N ->
  Z.to_N (lib_rlp__Stream_List__assign (zN limit) (zN size)) = ((limit + two64 - size) mod two64)%N.
Proof.
  intros Hl Hs. unfold lib_rlp__Stream_List__assign, go_sub, wrap, two64 in *.
  apply N2Z.inj. rewrite Z2N.id by (apply Z.mod_pos_bound; lia).
  rewrite N2Z.inj_mod. change (zN 18446744073709551616) with 18446744073709551616.
  replace (zN (limit + 18446744073709551616 - size)) with (zN limit - zN size + 1 * 18446744073709551616) by lia.
  rewrite Z.mod_add by lia. reflexivity.
Qed.
Lemma src_listEnd_not_at_eol l : lib_rlp__Stream_ListEnd__if_listLimit_gt_0 (zN l) = (0 <? l)%N.
Proof. unfold lib_rlp__Stream_ListEnd__if_listLimit_gt_0. tie_close. Qed.
Lemma src_list_atoms :
  lib_rlp__Stream_List__if_kind_ne_List_atoms = ["kind : github.com/kardiachain/go-kardia/lib/rlp.Kind"]%string
  /\ lib_rlp__Stream_List__assign_atoms = ["limit : uint64"; "size : uint64"]%string
  /\ lib_rlp__Stream_List__if_inList_atoms = ["inList : bool"]%string
  /\ lib_rlp__Stream_ListEnd__if_not_inList_atoms = ["inList : bool"]%string
  /\ lib_rlp__Stream_ListEnd__if_listLimit_gt_0_atoms = ["listLimit : uint64"]%string.
Proof. repeat split; reflexivity. Qed.

Definition src_s_list (s : stream) : sres N :=
  sbind (s_kind s) (fun c s' =>
  let '(k, size, _) := c in
  if lib_rlp__Stream_List__if_kind_ne_List (zk k) then SErr EExpectedList
  else
    let st := match s_stack s' with
              | l :: r => Z.to_N (lib_rlp__Stream_List__assign (zN l) (zN size)) :: r
              | [] => []
              end in
    SOk size (mkS (s_in s') (size :: st) None)).
Lemma src_s_list_ok s :
  (forall c s', s_kind s = SOk c s' -> (snd (fst c) < two64)%N /\ Forall (fun l => (l < two64)%N) (s_stack s')) ->
  s_list s = src_s_list s.
Proof.
  intros Hb. unfold s_list, src_s_list, sbind.
  destruct (s_kind s) as [[[k size] bv] s'|e] eqn:E; [|reflexivity].
  destruct (Hb _ _ eq_refl) as [Hs Hst]. cbn [fst snd] in Hs.
  rewrite src_list_kind. destruct k; cbn [kind_eqb negb]; try reflexivity.
  destruct (s_stack s') as [|l r]; [reflexivity|].
  inversion Hst; subst. rewrite src_list_limit by assumption. reflexivity.
Qed.

Definition src_s_list_end (s : stream) : sres unit :=
  if lib_rlp__Stream_ListEnd__if_not_inList (match s_stack s with [] => false | _ => true end) then SErr ENotInList
  else if lib_rlp__Stream_ListEnd__if_listLimit_gt_0 (zN (hd 0%N (s_stack s))) then SErr ENotAtEOL
  else SOk tt (mkS (s_in s) (tl (s_stack s)) None).
Lemma src_s_list_end_ok s : s_list_end s = src_s_list_end s.
Proof.
  unfold s_list_end, src_s_list_end. destruct (s_stack s) as [|l r]; [reflexivity|].
  cbn [hd tl]. rewrite src_listEnd_not_at_eol. reflexivity.
Qed.

(** * 4. Decoder: strings, integers, byte arrays, pointers, lists *)

(** "single byte wrapped as a string" (Stream.Bytes, ReadBytes, decodeBigInt, decodeByteArray) *)
Lemma src_wrapped_single_byte size (b : bytes) :
  lib_rlp__Stream_Bytes__if_size_eq_1_and_b_at_0_lt_128 (zN size) (zb (hd x00 b)) = ((size =? 1) && (bN (hd x00 b) <? 128))%N%bool
  /\ lib_rlp__Stream_ReadBytes__if_size_eq_1_and_b_at_0_lt_128 (zN size) (zb (hd x00 b)) = ((size =? 1) && (bN (hd x00 b) <? 128))%N%bool
  /\ lib_rlp__decodeBigInt__if_size_eq_1_and_buffer_at_0_lt_128 (zN size) (zb (hd x00 b)) = ((size =? 1) && (bN (hd x00 b) <? 128))%N%bool
  /\ lib_rlp__decodeByteArray__if_size_eq_1_and_slice_at_0_lt_128 (zN size) (zb (hd x00 b)) = ((size =? 1) && (bN (hd x00 b) <? 128))%N%bool.
Proof.
  unfold lib_rlp__Stream_Bytes__if_size_eq_1_and_b_at_0_lt_128, lib_rlp__Stream_ReadBytes__if_size_eq_1_and_b_at_0_lt_128,
    lib_rlp__decodeBigInt__if_size_eq_1_and_buffer_at_0_lt_128, lib_rlp__decodeByteArray__if_size_eq_1_and_slice_at_0_lt_128, zb.
  repeat split; tie_close.
Qed.
Lemma src_wrapped_atoms :
  lib_rlp__Stream_Bytes__if_size_eq_1_and_b_at_0_lt_128_atoms = ["size : uint64"; "b[0] : byte"]%string
  /\ lib_rlp__Stream_ReadBytes__if_size_eq_1_and_b_at_0_lt_128_atoms = ["size : uint64"; "b[0] : byte"]%string
  /\ lib_rlp__decodeBigInt__if_size_eq_1_and_buffer_at_0_lt_128_atoms = ["size : uint64"; "buffer[0] : byte"]%string
  /\ lib_rlp__decodeByteArray__if_size_eq_1_and_slice_at_0_lt_128_atoms = ["size : uint64"; "slice[0] : byte"]%string.
Proof. repeat split; reflexivity. Qed.

Lemma src_dec_bytes il bs :
  dec_bytes il bs =
    match read_kind il bs with
    | KErr e => Err e 0%N
    | KOk KByte _ bv rest => Ok [bv] rest 1%N
    | KOk KString size _ rest =>
      let b := take size rest in
      if lib_rlp__Stream_Bytes__if_size_eq_1_and_b_at_0_lt_128 (zN size) (zb (hd x00 b)) then Err ECanonSize size
      else Ok b (drop size rest) size
    | KOk KList _ _ _ => Err EExpectedString 0%N
    end.
Proof.
  unfold dec_bytes. destruct (read_kind il bs) as [[| |] size bv rest|e]; try reflexivity.
  cbv zeta. rewrite (proj1 (src_wrapped_single_byte size (take size rest))). reflexivity.
Qed.

(** ReadBytes: the buffer must have exactly the announced size *)
Lemma src_readbytes_guards n size :
  lib_rlp__Stream_ReadBytes__if_len_b_ne_1 (zN n) = negb (n =? 1)%N
  /\ ((n < two64)%N -> lib_rlp__Stream_ReadBytes__if_uint64_len_b_ne_size (zN n) (zN size) = negb (n =? size)%N).
Proof.
  unfold lib_rlp__Stream_ReadBytes__if_len_b_ne_1, lib_rlp__Stream_ReadBytes__if_uint64_len_b_ne_size, go_neqb, two64.
  split; [|intros Hn; gosem_unfold; wraps_away]; n_cases; bool_cases; cbn [negb]; try reflexivity; lia.
Qed.
Lemma src_s_read_bytes n s : (n < two64)%N ->
  s_read_bytes n s =
    sbind (s_kind s) (fun c s' =>
    match c with
    | (KByte, _, bv) => if lib_rlp__Stream_ReadBytes__if_len_b_ne_1 (zN n) then SErr EWrongSize else SOk [bv] (rearm s')
    | (KString, size, _) =>
      if lib_rlp__Stream_ReadBytes__if_uint64_len_b_ne_size (zN n) (zN size) then SErr EWrongSize
      else sbind (s_read_full size s') (fun b s'' =>
           if lib_rlp__Stream_ReadBytes__if_size_eq_1_and_b_at_0_lt_128 (zN size) (zb (hd x00 b)) then SErr ECanonSize else SOk b s'')
    | (KList, _, _) => SErr EExpectedString
    end).
Proof.
  intros Hn. unfold s_read_bytes, sbind. destruct (s_kind s) as [[[[| |] size] bv] s'|e]; try reflexivity.
  - rewrite (proj1 (src_readbytes_guards n 0%N)). destruct (n =? 1)%N; reflexivity.
  - rewrite (proj2 (src_readbytes_guards n size) Hn). destruct (n =? size)%N; cbn [negb]; [|reflexivity].
    destruct (s_read_full size s'); [|reflexivity].
    rewrite (proj1 (proj2 (src_wrapped_single_byte size v))). reflexivity.
Qed.

(** Raw: which header is re-created *)
Lemma src_raw_kinds k :
  lib_rlp__Stream_Raw__if_kind_eq_Byte (zk k) = kind_eqb k KByte
  /\ lib_rlp__Stream_Raw__if_kind_eq_String (zk k) = kind_eqb k KString.
Proof. destruct k; split; reflexivity. Qed.
Lemma src_dec_raw il bs :
  dec_raw il bs =
    match read_kind il bs with
    | KErr e => Err e 0%N
    | KOk k size bv rest =>
      if lib_rlp__Stream_Raw__if_kind_eq_Byte (zk k) then Ok [bv] rest 1%N
      else
        let h := if lib_rlp__Stream_Raw__if_kind_eq_String (zk k) then str_head size else list_head size in
        Ok (h ++ take size rest) (drop size rest) (len h + size)%N
    end.
Proof. unfold dec_raw. destruct (read_kind il bs) as [[| |] size bv rest|e]; reflexivity. Qed.

(** Raw: the buffer it allocates has the size of the re-created header plus the content *)
Lemma src_raw_alloc size : (size < two64 - 9)%N ->
  lib_rlp__Stream_Raw__arg_uint64_start_plus_size (lib_rlp__Stream_Raw__let_start (zN (head_size size))) (zN size)
  = zN (head_size size + size).
Proof.
  intros H. unfold lib_rlp__Stream_Raw__arg_uint64_start_plus_size, lib_rlp__Stream_Raw__let_start, two64 in *.
  assert (zN (head_size size) <= 9).
  { unfold head_size, int_size_raw. destruct (size <? 56)%N; [lia|]. destruct (size =? 0)%N; [lia|].
    pose proof (be_bytes_len_le8 size ltac:(unfold fits64, two64; lia)). lia. }
  gosem_unfold. wraps_away. lia.
Qed.

(** uint: zero byte, width of the target, single byte wrapped as a string *)
Lemma src_uint_guards bv size maxbits v : (maxbits < 2 ^ 32)%N ->
  lib_rlp__Stream_uint__if_s_byteval_eq_0 (zb bv) = (bN bv =? 0)%N
  /\ lib_rlp__Stream_uint__if_size_gt_uint64_maxbits_div_8 (zN size) (zN maxbits) = (maxbits / 8 <? size)%N
  /\ lib_rlp__Stream_uint__case_size_gt_0_and_v_lt_128 (zN size) (zN v) = ((0 <? size) && (v <? 128))%N%bool.
Proof.
  intros Hm.
  unfold lib_rlp__Stream_uint__if_s_byteval_eq_0, lib_rlp__Stream_uint__if_size_gt_uint64_maxbits_div_8,
    lib_rlp__Stream_uint__case_size_gt_0_and_v_lt_128, zb.
  split; [tie_close|]. split; [|tie_close].
  unfold go_conv, go_quot. rewrite Z.quot_div_nonneg by lia.
  assert (0 <= zN maxbits / 8 <= zN maxbits) by (split; [apply Z.div_pos; lia|apply Z.div_le_upper_bound; lia]).
  change (2 ^ 32)%N with 4294967296%N in Hm.
  wraps_away.
  change 8 with (zN 8). rewrite <- N2Z.inj_div. tie_close.
Qed.
Lemma src_uint_atoms2 :
  lib_rlp__Stream_uint__if_s_byteval_eq_0_atoms = ["s.byteval : byte"]%string
  /\ lib_rlp__Stream_uint__if_size_gt_uint64_maxbits_div_8_atoms = ["size : uint64"; "maxbits : int"]%string
  /\ lib_rlp__Stream_uint__case_size_gt_0_and_v_lt_128_atoms = ["size : uint64"; "v : uint64"]%string.
Proof. repeat split; reflexivity. Qed.
Lemma src_dec_uint maxbits il bs : (maxbits < 2 ^ 32)%N ->
  dec_uint maxbits il bs =
    match read_kind il bs with
    | KErr e => Err e 0%N
    | KOk KByte _ bv rest => if lib_rlp__Stream_uint__if_s_byteval_eq_0 (zb bv) then Err ECanonInt 0%N else Ok (bN bv) rest 0%N
    | KOk KString size _ rest =>
      if lib_rlp__Stream_uint__if_size_gt_uint64_maxbits_div_8 (zN size) (zN maxbits) then Err EUintOverflow 0%N
      else match read_uint il size rest with
           | UErr ECanonSize => Err ECanonInt 0%N
           | UErr e => Err e 0%N
           | UOk v r => if lib_rlp__Stream_uint__case_size_gt_0_and_v_lt_128 (zN size) (zN v) then Err ECanonSize 0%N else Ok v r 0%N
           end
    | KOk KList _ _ _ => Err EExpectedString 0%N
    end.
Proof.
  intros Hm. unfold dec_uint. destruct (read_kind il bs) as [[| |] size bv rest|e]; try reflexivity.
  - rewrite (proj1 (src_uint_guards bv 0%N maxbits 0%N Hm)). reflexivity.
  - rewrite (proj1 (proj2 (src_uint_guards bv size maxbits 0%N Hm))).
    destruct (maxbits / 8 <? size)%N; [reflexivity|].
    destruct (read_uint il size rest) as [v r|e]; [|reflexivity].
    rewrite (proj2 (proj2 (src_uint_guards bv size maxbits v Hm))). reflexivity.
Qed.

(** decodeBigInt: kinds, the empty string, the 32-byte scratch buffer, leading zero *)
Lemma src_bigint_guards k size (b : bytes) :
  lib_rlp__decodeBigInt__case_kind_eq_List (zk k) = kind_eqb k KList
  /\ lib_rlp__decodeBigInt__case_kind_eq_Byte (zk k) = kind_eqb k KByte
  /\ lib_rlp__decodeBigInt__case_size_eq_0 (zN size) = (size =? 0)%N
  /\ lib_rlp__decodeBigInt__case_size_le_uint64_len_s_uintbuf (zN size) = (size <=? 32)%N
  /\ (b <> [] -> lib_rlp__decodeBigInt__if_len_buffer_gt_0_and_buffer_at_0_eq_0 (zN (len b)) (zb (hd x00 b)) = (bN (hd x00 b) =? 0)%N).
Proof.
  unfold lib_rlp__decodeBigInt__case_kind_eq_List, lib_rlp__decodeBigInt__case_kind_eq_Byte, lib_rlp__decodeBigInt__case_size_eq_0,
    lib_rlp__decodeBigInt__case_size_le_uint64_len_s_uintbuf, lib_rlp__decodeBigInt__if_len_buffer_gt_0_and_buffer_at_0_eq_0, zb.
  split; [destruct k; reflexivity|]. split; [destruct k; reflexivity|]. split; [tie_close|]. split; [tie_close|].
  intros Hb. destruct b as [|x r]; [contradiction|]. rewrite len_cons. tie_close.
Qed.
Lemma src_bigint_atoms :
  lib_rlp__decodeBigInt__case_size_eq_0_atoms = ["size : uint64"]%string
  /\ lib_rlp__decodeBigInt__case_size_le_uint64_len_s_uintbuf_atoms = ["size : uint64"]%string
  /\ lib_rlp__decodeBigInt__if_len_buffer_gt_0_and_buffer_at_0_eq_0_atoms = ["len(buffer) : int"; "buffer[0] : byte"]%string.
Proof. repeat split; reflexivity. Qed.
Lemma src_dec_big il bs :
  dec_big il bs =
    match read_kind il bs with
    | KErr e => Err e 0%N
    | KOk k size bv rest =>
      if lib_rlp__decodeBigInt__case_kind_eq_List (zk k) then Err EExpectedString 0%N
      else if lib_rlp__decodeBigInt__case_kind_eq_Byte (zk k) then
        (if lib_rlp__decodeBigInt__if_len_buffer_gt_0_and_buffer_at_0_eq_0 1 (zb bv) then Err ECanonInt 0%N else Ok (bN bv) rest 0%N)
      else if lib_rlp__decodeBigInt__case_size_eq_0 (zN size) then Ok 0%N rest 0%N
      else
        let b := take size rest in
        let small := lib_rlp__decodeBigInt__case_size_le_uint64_len_s_uintbuf (zN size) in
        let a := if small then 0%N else size in
        if small && lib_rlp__decodeBigInt__if_size_eq_1_and_buffer_at_0_lt_128 (zN size) (zb (hd x00 b)) then Err ECanonSize a
        else if lib_rlp__decodeBigInt__if_len_buffer_gt_0_and_buffer_at_0_eq_0 (zN size) (zb (hd x00 b)) then Err ECanonInt a
        else Ok (be_val b) (drop size rest) a
    end.
Proof.
  unfold dec_big. destruct (read_kind il bs) as [k size bv rest|e]; [|reflexivity].
  destruct (src_bigint_guards k size [bv]) as (-> & -> & -> & -> & Hz).
  destruct k; cbn [kind_eqb]; try reflexivity.
  - specialize (Hz ltac:(discriminate)). change (zN (len [bv])) with 1 in Hz. cbn [hd] in Hz. rewrite Hz. reflexivity.
  - destruct (N.eqb_spec size 0); [reflexivity|]. cbv zeta.
    rewrite (proj1 (proj2 (proj2 (src_wrapped_single_byte size (take size rest))))).
    unfold lib_rlp__decodeBigInt__if_len_buffer_gt_0_and_buffer_at_0_eq_0, zb.
    destruct (N.leb_spec size 32); cbn [andb].
    + destruct ((size =? 1)%N && (bN (hd x00 (take size rest)) <? 128)%N); [reflexivity|]. tie_close.
    + replace ((size =? 1)%N && (bN (hd x00 (take size rest)) <? 128)%N) with false
        by (destruct (N.eqb_spec size 1); [lia|reflexivity]).
      tie_close.
Qed.

(** decodeByteArray: the input string has exactly the array's length *)
Lemma src_array_guards n size :
  lib_rlp__decodeByteArray__if_len_slice_eq_0 (zN n) = (n =? 0)%N
  /\ lib_rlp__decodeByteArray__if_len_slice_gt_1 (zN n) = (1 <? n)%N
  /\ ((n < two64)%N -> lib_rlp__decodeByteArray__if_uint64_len_slice_lt_size (zN n) (zN size) = (n <? size)%N
                      /\ lib_rlp__decodeByteArray__if_uint64_len_slice_gt_size (zN n) (zN size) = (size <? n)%N).
Proof.
  unfold lib_rlp__decodeByteArray__if_len_slice_eq_0, lib_rlp__decodeByteArray__if_len_slice_gt_1,
    lib_rlp__decodeByteArray__if_uint64_len_slice_lt_size, lib_rlp__decodeByteArray__if_uint64_len_slice_gt_size, two64.
  split; [tie_close|]. split; [tie_close|]. intros Hn. split; tie_close.
Qed.
Lemma src_array_atoms :
  lib_rlp__decodeByteArray__if_len_slice_eq_0_atoms = ["len(slice) : int"]%string
  /\ lib_rlp__decodeByteArray__if_len_slice_gt_1_atoms = ["len(slice) : int"]%string
  /\ lib_rlp__decodeByteArray__if_uint64_len_slice_lt_size_atoms = ["len(slice) : int"; "size : uint64"]%string
  /\ lib_rlp__decodeByteArray__if_uint64_len_slice_gt_size_atoms = ["len(slice) : int"; "size : uint64"]%string.
Proof. repeat split; reflexivity. Qed.
Lemma src_dec_array n il bs : (n < two64)%N ->
  dec_array n il bs =
    match read_kind il bs with
    | KErr e => Err e 0%N
    | KOk KByte _ bv rest =>
      if lib_rlp__decodeByteArray__if_len_slice_eq_0 (zN n) then Err EStrTooLong 0%N
      else if lib_rlp__decodeByteArray__if_len_slice_gt_1 (zN n) then Err EStrTooShort 0%N else Ok [bv] rest 0%N
    | KOk KString size _ rest =>
      if lib_rlp__decodeByteArray__if_uint64_len_slice_lt_size (zN n) (zN size) then Err EStrTooLong 0%N
      else if lib_rlp__decodeByteArray__if_uint64_len_slice_gt_size (zN n) (zN size) then Err EStrTooShort 0%N
      else
        let b := take size rest in
        if lib_rlp__decodeByteArray__if_size_eq_1_and_slice_at_0_lt_128 (zN size) (zb (hd x00 b)) then Err ECanonSize 0%N
        else Ok b (drop size rest) 0%N
    | KOk KList _ _ _ => Err EExpectedString 0%N
    end.
Proof.
  intros Hn. unfold dec_array. destruct (read_kind il bs) as [[| |] size bv rest|e]; try reflexivity.
  - destruct (src_array_guards n 0%N) as (-> & -> & _). reflexivity.
  - destruct (src_array_guards n size) as (_ & _ & H). destruct (H Hn) as [-> ->].
    cbv zeta. rewrite (proj2 (proj2 (proj2 (src_wrapped_single_byte size (take size rest))))). reflexivity.
Qed.

(** nil-tagged pointers: an empty string / list is the nil pointer if it has the right kind *)
Lemma src_nilptr_guards k size nk :
  lib_rlp__makeNilPtrDecoder__if_kind_ne_Byte_and_size_eq_0 (zk k) (zN size) = (negb (kind_eqb k KByte) && (size =? 0)%N)%bool
  /\ lib_rlp__makeNilPtrDecoder__if_kind_ne_nilKind (zk k) (lib_rlp__makeNilPtrDecoder__let_nilKind (zk nk)) = negb (kind_eqb k nk).
Proof.
  unfold lib_rlp__makeNilPtrDecoder__if_kind_ne_Byte_and_size_eq_0, lib_rlp__makeNilPtrDecoder__if_kind_ne_nilKind,
    lib_rlp__makeNilPtrDecoder__let_nilKind.
  split; [destruct k; cbn [zk kind_eqb negb andb go_neqb Z.eqb]; try reflexivity; tie_close|destruct k, nk; reflexivity].
Qed.
Lemma src_nilptr_atoms :
  lib_rlp__makeNilPtrDecoder__if_kind_ne_Byte_and_size_eq_0_atoms = ["kind : github.com/kardiachain/go-kardia/lib/rlp.Kind"; "size : uint64"]%string
  /\ lib_rlp__makeNilPtrDecoder__if_kind_ne_nilKind_atoms = ["kind : github.com/kardiachain/go-kardia/lib/rlp.Kind"; "nilKind : github.com/kardiachain/go-kardia/lib/rlp.Kind"]%string
  /\ lib_rlp__makeNilPtrDecoder__let_nilKind_atoms = ["typeNilKind(etype, ts) : github.com/kardiachain/go-kardia/lib/rlp.Kind"]%string.
Proof. repeat split; reflexivity. Qed.
(** the model's nil-pointer decision, on the window decoder (the Stream version has the same shape) *)
Lemma src_dec_ptr_nil e tg il bs : t_nil tg <> NoNil ->
  dec_val (TPtr e) tg il bs =
    match read_kind il bs with
    | KErr er => Err er 0%N
    | KOk k size _ rest =>
      if lib_rlp__makeNilPtrDecoder__if_kind_ne_Byte_and_size_eq_0 (zk k) (zN size) then
        if lib_rlp__makeNilPtrDecoder__if_kind_ne_nilKind (zk k) (lib_rlp__makeNilPtrDecoder__let_nilKind (zk (nil_kind e tg)))
        then Err EWrongEmpty 0%N else Ok VNil rest 0%N
      else rmap VPtr (dec_val e no_tag il bs)
    end.
Proof.
  intros Hn. cbn [dec_val]. destruct (t_nil tg) eqn:E; [contradiction| | |];
    (destruct (read_kind il bs) as [k size bv rest|er]; [|reflexivity];
     destruct (src_nilptr_guards k size (nil_kind e tg)) as [-> ->];
     destruct (negb (kind_eqb k KByte) && (size =? 0)%N)%bool; [|reflexivity];
     destruct (kind_eqb k (nil_kind e tg)); reflexivity).
Qed.

(** lists: the empty list, interface{} dispatch, DecodeBytes' trailing input, [n]T, slice growth *)
Lemma src_list_guards size k n :
  lib_rlp__decodeListSlice__if_size_eq_0 (zN size) = (size =? 0)%N
  /\ lib_rlp__decodeInterface__if_kind_eq_List (zk k) = kind_eqb k KList
  /\ lib_rlp__DecodeBytes__if_r_Len_gt_0 (zN n) = (0 <? n)%N.
Proof.
  unfold lib_rlp__decodeListSlice__if_size_eq_0, lib_rlp__decodeInterface__if_kind_eq_List, lib_rlp__DecodeBytes__if_r_Len_gt_0.
  split; [tie_close|]. split; [destruct k; reflexivity|tie_close].
Qed.
Lemma src_exactly_one {A} (r : res A) :
  exactly_one r =
    match r with
    | Ok v rest a => if lib_rlp__DecodeBytes__if_r_Len_gt_0 (zN (len rest)) then Err EMoreThanOne a else r
    | _ => r
    end.
Proof.
  destruct r as [v rest a|e a]; [|reflexivity].
  rewrite (proj2 (proj2 (src_list_guards 0%N KByte (len rest)))). destruct rest; [reflexivity|].
  rewrite len_cons. cbn [exactly_one]. destruct (N.ltb_spec 0 (1 + len rest)); [reflexivity|lia].
Qed.
Lemma src_newcap c : 0 <= c < 2 ^ 61 -> lib_rlp__decodeSliceElems__set_newcap c = c + c / 2.
Proof.
  intros Hc. unfold lib_rlp__decodeSliceElems__set_newcap, go_add, go_quot. rewrite Z.quot_div_nonneg by lia.
  assert (0 <= c / 2 <= c) by (split; [apply Z.div_pos; lia|apply Z.div_le_upper_bound; lia]).
  assert (c < 2305843009213693952) by (change (2 ^ 61) with 2305843009213693952 in Hc; lia).
  wraps_away. reflexivity.
Qed.
Lemma src_list_atoms2 :
  lib_rlp__decodeListSlice__if_size_eq_0_atoms = ["size : uint64"]%string
  /\ lib_rlp__decodeInterface__if_kind_eq_List_atoms = ["kind : github.com/kardiachain/go-kardia/lib/rlp.Kind"]%string
  /\ lib_rlp__DecodeBytes__if_r_Len_gt_0_atoms = ["r.Len() : int"]%string
  /\ lib_rlp__decodeListArray__for_i_lt_vlen_atoms = ["i : int"; "vlen : int"]%string
  /\ lib_rlp__decodeListArray__if_i_lt_vlen_atoms = ["i : int"; "vlen : int"]%string
  /\ lib_rlp__decodeListArray__let_vlen_atoms = ["val.Len() : int"]%string
  /\ lib_rlp__decodeListArray__if_err_eq_EOL_atoms = ["err == EOL : untyped bool"]%string
  /\ lib_rlp__decodeSliceElems__if_err_eq_EOL_atoms = ["err == EOL : untyped bool"]%string
  /\ lib_rlp__decodeSliceElems__set_newcap_atoms = ["val.Cap() : int"]%string
  /\ lib_rlp__decodeSliceElems__if_newcap_lt_4_atoms = ["newcap : int"]%string
  /\ lib_rlp__Stream_Reset__if_inputLimit_gt_0_atoms = ["inputLimit : uint64"]%string
  /\ lib_rlp__Stream_Reset__put_s_remaining_2_atoms = ["br.Len() : int"]%string.
Proof. repeat split; reflexivity. Qed.
(** [n]T: the element loop runs while [i < vlen] and "too few elements" is [i < vlen] after it *)
Lemma src_listarray_guards i vlen :
  lib_rlp__decodeListArray__for_i_lt_vlen (zN i) (lib_rlp__decodeListArray__let_vlen (zN vlen)) = (i <? vlen)%N
  /\ lib_rlp__decodeListArray__if_i_lt_vlen (zN i) (lib_rlp__decodeListArray__let_vlen (zN vlen)) = (i <? vlen)%N
  /\ lib_rlp__decodeListArray__let_i = 0 /\ lib_rlp__decodeListArray__set_i_op (zN i) = wrap I64 (zN i + 1).
Proof.
  unfold lib_rlp__decodeListArray__for_i_lt_vlen, lib_rlp__decodeListArray__if_i_lt_vlen, lib_rlp__decodeListArray__let_vlen,
    lib_rlp__decodeListArray__let_i, lib_rlp__decodeListArray__set_i_op.
  split; [tie_close|]. split; [tie_close|]. split; reflexivity.
Qed.
(** Reset (DecodeBytes): the input limit is the reader's length and the limit is in effect *)
Lemma src_reset n : (n < two64)%N ->
  lib_rlp__Stream_Reset__put_s_remaining_2 (zN n) = zN n /\ lib_rlp__Stream_Reset__put_s_limited_2 = true
  /\ lib_rlp__Stream_Reset__if_inputLimit_gt_0 (zN n) = (0 <? n)%N /\ lib_rlp__Stream_Reset__put_s_remaining (zN n) = zN n
  /\ lib_rlp__Stream_Reset__put_s_limited = true.
Proof.
  intros Hn. unfold lib_rlp__Stream_Reset__put_s_remaining_2, lib_rlp__Stream_Reset__if_inputLimit_gt_0, two64 in *.
  split; [gosem_unfold; wraps_away; reflexivity|]. split; [reflexivity|]. split; [tie_close|]. split; reflexivity.
Qed.

(** * 5. raw.go and iterator.go *)

Lemma lor_disjoint a b k m : m = 2 ^ k -> 0 <= k -> 0 <= a -> a mod m = 0 -> 0 <= b < m -> Z.lor a b = a + b.
Proof.
  intros -> Hk Ha Hmod Hb.
  assert (Hland : Z.land a b = 0).
  { apply Z.bits_inj'. intros n Hn. rewrite Z.land_spec, Z.bits_0.
    destruct (Z.lt_ge_cases n k) as [Hlt|Hge].
    - assert (E : a = (a / 2 ^ k) * 2 ^ k).
      { pose proof (Z.div_mod a (2 ^ k) ltac:(apply Z.pow_nonzero; lia)). lia. }
      rewrite E, Z.mul_pow2_bits_low by lia. reflexivity.
    - destruct (Z.eq_dec b 0) as [->|Hb0]; [rewrite Z.bits_0; apply andb_false_r|].
      rewrite (Z.bits_above_log2 b n), andb_false_r; [reflexivity|lia|].
      apply Z.lt_le_trans with k; [apply Z.log2_lt_pow2; lia|lia]. }
  rewrite <- Z.lxor_lor by exact Hland. symmetry. apply Z.add_nocarry_lxor. exact Hland.
Qed.

Ltac lor_step a b :=
  let side := (first [reflexivity | lia]) in
  first
    [ rewrite (lor_disjoint a b 56 72057594037927936) by side
    | rewrite (lor_disjoint a b 48 281474976710656) by side
    | rewrite (lor_disjoint a b 40 1099511627776) by side
    | rewrite (lor_disjoint a b 32 4294967296) by side
    | rewrite (lor_disjoint a b 24 16777216) by side
    | rewrite (lor_disjoint a b 16 65536) by side
    | rewrite (lor_disjoint a b 8 256) by side ].
Ltac lor_chain :=
  repeat (wraps_away; match goal with |- context [Z.lor ?a ?b] => lor_step a b end); wraps_away.

Lemma be_val_2 b0 b1 : be_val [b0; b1] = (bN b0 * 256 + bN b1)%N.
Proof. unfold be_val. cbn [rev app le_val]. lia. Qed.
Lemma be_val_3 b0 b1 b2 : be_val [b0; b1; b2] = (bN b0 * 65536 + bN b1 * 256 + bN b2)%N.
Proof. unfold be_val. cbn [rev app le_val]. lia. Qed.
Lemma be_val_4 b0 b1 b2 b3 : be_val [b0; b1; b2; b3] = (bN b0 * 16777216 + bN b1 * 65536 + bN b2 * 256 + bN b3)%N.
Proof. unfold be_val. cbn [rev app le_val]. lia. Qed.
Lemma be_val_5 b0 b1 b2 b3 b4 :
  be_val [b0; b1; b2; b3; b4] = (bN b0 * 4294967296 + bN b1 * 16777216 + bN b2 * 65536 + bN b3 * 256 + bN b4)%N.
Proof. unfold be_val. cbn [rev app le_val]. lia. Qed.
Lemma be_val_6 b0 b1 b2 b3 b4 b5 :
  be_val [b0; b1; b2; b3; b4; b5] =
  (bN b0 * 1099511627776 + bN b1 * 4294967296 + bN b2 * 16777216 + bN b3 * 65536 + bN b4 * 256 + bN b5)%N.
Proof. unfold be_val. cbn [rev app le_val]. lia. Qed.
Lemma be_val_7 b0 b1 b2 b3 b4 b5 b6 :
  be_val [b0; b1; b2; b3; b4; b5; b6] =
  (bN b0 * 281474976710656 + bN b1 * 1099511627776 + bN b2 * 4294967296 + bN b3 * 16777216 + bN b4 * 65536 + bN b5 * 256 + bN b6)%N.
Proof. unfold be_val. cbn [rev app le_val]. lia. Qed.
Lemma be_val_8 b0 b1 b2 b3 b4 b5 b6 b7 :
  be_val [b0; b1; b2; b3; b4; b5; b6; b7] =
  (bN b0 * 72057594037927936 + bN b1 * 281474976710656 + bN b2 * 1099511627776 + bN b3 * 4294967296 + bN b4 * 16777216
   + bN b5 * 65536 + bN b6 * 256 + bN b7)%N.
Proof. unfold be_val. cbn [rev app le_val]. lia. Qed.

Ltac byte_ranges :=
  repeat match goal with
         | b : byte |- _ => lazymatch goal with H : 0 <= zb b < 256 |- _ => fail | _ => pose proof (zb_range b) end
         end.

(** readSize assembles the big-endian value of the size bytes *)
Lemma src_readSize_value_1 b0 : lib_rlp__readSize__let_s (zb b0) = zN (be_val [b0]).
Proof. rewrite be_val_single. unfold lib_rlp__readSize__let_s, go_conv. byte_ranges. wraps_away. reflexivity. Qed.
Lemma src_readSize_value_2 b0 b1 : lib_rlp__readSize__set_s (zb b0) (zb b1) = zN (be_val [b0; b1]).
Proof.
  rewrite be_val_2. unfold lib_rlp__readSize__set_s, go_or, go_shl, go_conv. byte_ranges.
  cbn [Z.pow Z.pow_pos Pos.iter Z.mul Pos.mul]. lor_chain. unfold zb. lia.
Qed.
Lemma src_readSize_value_3 b0 b1 b2 : lib_rlp__readSize__set_s_2 (zb b0) (zb b1) (zb b2) = zN (be_val [b0; b1; b2]).
Proof.
  rewrite be_val_3. unfold lib_rlp__readSize__set_s_2, go_or, go_shl, go_conv. byte_ranges.
  cbn [Z.pow Z.pow_pos Pos.iter Z.mul Pos.mul]. lor_chain. unfold zb. lia.
Qed.
Lemma src_readSize_value_4 b0 b1 b2 b3 : lib_rlp__readSize__set_s_3 (zb b0) (zb b1) (zb b2) (zb b3) = zN (be_val [b0; b1; b2; b3]).
Proof.
  rewrite be_val_4. unfold lib_rlp__readSize__set_s_3, go_or, go_shl, go_conv. byte_ranges.
  cbn [Z.pow Z.pow_pos Pos.iter Z.mul Pos.mul]. lor_chain. unfold zb. lia.
Qed.
Lemma src_readSize_value_5 b0 b1 b2 b3 b4 :
  lib_rlp__readSize__set_s_4 (zb b0) (zb b1) (zb b2) (zb b3) (zb b4) = zN (be_val [b0; b1; b2; b3; b4]).
Proof.
  rewrite be_val_5. unfold lib_rlp__readSize__set_s_4, go_or, go_shl, go_conv. byte_ranges.
  cbn [Z.pow Z.pow_pos Pos.iter Z.mul Pos.mul]. lor_chain. unfold zb. lia.
Qed.
Lemma src_readSize_value_6 b0 b1 b2 b3 b4 b5 :
  lib_rlp__readSize__set_s_5 (zb b0) (zb b1) (zb b2) (zb b3) (zb b4) (zb b5) = zN (be_val [b0; b1; b2; b3; b4; b5]).
Proof.
  rewrite be_val_6. unfold lib_rlp__readSize__set_s_5, go_or, go_shl, go_conv. byte_ranges.
  cbn [Z.pow Z.pow_pos Pos.iter Z.mul Pos.mul]. lor_chain. unfold zb. lia.
Qed.
Lemma src_readSize_value_7 b0 b1 b2 b3 b4 b5 b6 :
  lib_rlp__readSize__set_s_6 (zb b0) (zb b1) (zb b2) (zb b3) (zb b4) (zb b5) (zb b6) = zN (be_val [b0; b1; b2; b3; b4; b5; b6]).
Proof.
  rewrite be_val_7. unfold lib_rlp__readSize__set_s_6, go_or, go_shl, go_conv. byte_ranges.
  cbn [Z.pow Z.pow_pos Pos.iter Z.mul Pos.mul]. lor_chain. unfold zb. lia.
Qed.
Lemma src_readSize_value_8 b0 b1 b2 b3 b4 b5 b6 b7 :
  lib_rlp__readSize__set_s_7 (zb b0) (zb b1) (zb b2) (zb b3) (zb b4) (zb b5) (zb b6) (zb b7)
  = zN (be_val [b0; b1; b2; b3; b4; b5; b6; b7]).
Proof.
  rewrite be_val_8. unfold lib_rlp__readSize__set_s_7, go_or, go_shl, go_conv. byte_ranges.
  cbn [Z.pow Z.pow_pos Pos.iter Z.mul Pos.mul]. lor_chain. unfold zb. lia.
Qed.

Lemma src_readSize_guards (b : bytes) slen s : (slen < 256)%N ->
  lib_rlp__readSize__if_int_slen_gt_len_b (zN slen) (zN (len b)) = (len b <? slen)%N
  /\ lib_rlp__readSize__if_s_lt_56_or_b_at_0_eq_0 (zN s) (zb (hd x00 b)) = ((s <? 56) || (bN (hd x00 b) =? 0))%N%bool.
Proof.
  intros Hs. unfold lib_rlp__readSize__if_int_slen_gt_len_b, lib_rlp__readSize__if_s_lt_56_or_b_at_0_eq_0, zb.
  split; tie_close.
Qed.
Lemma src_readSize_atoms :
  lib_rlp__readSize__if_int_slen_gt_len_b_atoms = ["slen : byte"; "len(b) : int"]%string
  /\ lib_rlp__readSize__if_s_lt_56_or_b_at_0_eq_0_atoms = ["s : uint64"; "b[0] : byte"]%string
  /\ lib_rlp__readSize__set_s_atoms = ["b[0] : byte"; "b[1] : byte"]%string
  /\ lib_rlp__readSize__set_s_7_atoms = ["b[0] : byte"; "b[1] : byte"; "b[2] : byte"; "b[3] : byte"; "b[4] : byte"; "b[5] : byte"; "b[6] : byte"; "b[7] : byte"]%string.
Proof. repeat split; reflexivity. Qed.
Lemma src_raw_read_size b slen : (slen < 256)%N ->
  raw_read_size b slen =
    if lib_rlp__readSize__if_int_slen_gt_len_b (zN slen) (zN (len b)) then RErr RUnexpectedEOF
    else let s := be_val (take slen b) in
         if lib_rlp__readSize__if_s_lt_56_or_b_at_0_eq_0 (zN s) (zb (hd x00 b)) then RErr RCanonSize else ROk s.
Proof.
  intros Hs. unfold raw_read_size. cbv zeta.
  destruct (src_readSize_guards b slen (be_val (take slen b)) Hs) as [-> ->]. reflexivity.
Qed.

(** raw.go readKind: tag boundaries, tag and content sizes, the single-byte rule, the length check *)
Lemma src_raw_tags b :
  lib_rlp__readKind__case_b_lt_0x80 (zb b) = (bN b <? 128)%N /\ lib_rlp__readKind__case_b_lt_0xB8 (zb b) = (bN b <? 184)%N
  /\ lib_rlp__readKind__case_b_lt_0xC0 (zb b) = (bN b <? 192)%N /\ lib_rlp__readKind__case_b_lt_0xF8 (zb b) = (bN b <? 248)%N.
Proof.
  unfold lib_rlp__readKind__case_b_lt_0x80, lib_rlp__readKind__case_b_lt_0xB8, lib_rlp__readKind__case_b_lt_0xC0,
    lib_rlp__readKind__case_b_lt_0xF8, zb. repeat split; tie_close.
Qed.
Lemma src_raw_sizes b :
  ((128 <= bN b)%N -> Z.to_N (lib_rlp__readKind__set_contentsize (zb b)) = (bN b - 128)%N)
  /\ ((184 <= bN b)%N -> Z.to_N (lib_rlp__readKind__set_tagsize (zb b)) = (bN b - 183 + 1)%N)
  /\ ((192 <= bN b)%N -> Z.to_N (lib_rlp__readKind__set_contentsize_2 (zb b)) = (bN b - 192)%N)
  /\ ((248 <= bN b)%N -> Z.to_N (lib_rlp__readKind__set_tagsize_2 (zb b)) = (bN b - 247 + 1)%N)
  /\ lib_rlp__readKind__let_tagsize = 0 /\ lib_rlp__readKind__let_contentsize = 1
  /\ lib_rlp__readKind__let_tagsize_2 = 1 /\ lib_rlp__readKind__let_tagsize_3 = 1
  /\ lib_rlp__readKind__let_k = zk KByte /\ lib_rlp__readKind__let_k_2 = zk KString /\ lib_rlp__readKind__let_k_3 = zk KString
  /\ lib_rlp__readKind__let_k_4 = zk KList /\ lib_rlp__readKind__let_k_5 = zk KList.
Proof.
  pose proof (bN_lt b).
  unfold lib_rlp__readKind__set_contentsize, lib_rlp__readKind__set_tagsize, lib_rlp__readKind__set_contentsize_2,
    lib_rlp__readKind__set_tagsize_2, zb.
  repeat split; try reflexivity; intros; gosem_unfold; wraps_away; lia.
Qed.
Lemma src_raw_single_byte cs n (x : byte) :
  lib_rlp__readKind__if_contentsize_eq_1_and_len_buf_gt_1_and_buf_at_1_lt_128 (zN cs) (zN n) (zb x)
  = ((cs =? 1) && (1 <? n) && (bN x <? 128))%N%bool.
Proof. unfold lib_rlp__readKind__if_contentsize_eq_1_and_len_buf_gt_1_and_buf_at_1_lt_128, zb. tie_close. Qed.
Lemma src_raw_too_large cs (buf : bytes) ts : (ts <= len buf)%N -> (len buf < two64)%N ->
  lib_rlp__readKind__if_contentsize_gt_uint64_len_buf_minus_tagsize (zN cs) (zN (len buf)) (zN ts) = (len buf - ts <? cs)%N.
Proof.
  intros H1 H2. unfold lib_rlp__readKind__if_contentsize_gt_uint64_len_buf_minus_tagsize, two64 in *. tie_close.
Qed.
Lemma src_raw_atoms :
  lib_rlp__readKind__if_len_buf_eq_0_atoms = ["len(buf) : int"]%string
  /\ lib_rlp__readKind__case_b_lt_0x80_atoms = ["b : byte"]%string
  /\ lib_rlp__readKind__if_contentsize_eq_1_and_len_buf_gt_1_and_buf_at_1_lt_128_atoms = ["contentsize : uint64"; "len(buf) : int"; "buf[1] : byte"]%string
  /\ lib_rlp__readKind__set_tagsize_atoms = ["b : byte"]%string
  /\ lib_rlp__readKind__if_contentsize_gt_uint64_len_buf_minus_tagsize_atoms = ["contentsize : uint64"; "len(buf) : int"; "tagsize : uint64"]%string.
Proof. repeat split; reflexivity. Qed.

Definition src_raw_read_kind (buf : bytes) : rres (kind * N * N) :=
  if lib_rlp__readKind__if_len_buf_eq_0 (zN (len buf)) then RErr RUnexpectedEOF
  else
    let b := hd x00 buf in
    let r := tl buf in
    let t := zb b in
    let fin (k : kind) (tagsize contentsize : N) :=
      if lib_rlp__readKind__if_contentsize_gt_uint64_len_buf_minus_tagsize (zN contentsize) (zN (len buf)) (zN tagsize)
      then RErr RValueTooLarge else ROk (k, tagsize, contentsize) in
    if lib_rlp__readKind__case_b_lt_0x80 t then fin KByte (Z.to_N lib_rlp__readKind__let_tagsize) (Z.to_N lib_rlp__readKind__let_contentsize)
    else if lib_rlp__readKind__case_b_lt_0xB8 t then
      let cs := Z.to_N (lib_rlp__readKind__set_contentsize t) in
      if lib_rlp__readKind__if_contentsize_eq_1_and_len_buf_gt_1_and_buf_at_1_lt_128 (zN cs) (zN (len buf)) (zb (hd x00 r))
      then RErr RCanonSize else fin KString (Z.to_N lib_rlp__readKind__let_tagsize_2) cs
    else if lib_rlp__readKind__case_b_lt_0xC0 t then
      match raw_read_size r (Z.to_N (lib_rlp__readKind__arg_b_minus_0xB7 t)) with
      | RErr e => RErr e
      | ROk cs => fin KString (Z.to_N (lib_rlp__readKind__set_tagsize t)) cs
      end
    else if lib_rlp__readKind__case_b_lt_0xF8 t then
      fin KList (Z.to_N lib_rlp__readKind__let_tagsize_3) (Z.to_N (lib_rlp__readKind__set_contentsize_2 t))
    else
      match raw_read_size r (Z.to_N (lib_rlp__readKind__arg_b_minus_0xF7 t)) with
      | RErr e => RErr e
      | ROk cs => fin KList (Z.to_N (lib_rlp__readKind__set_tagsize_2 t)) cs
      end.

Lemma raw_read_size_len r slen cs : raw_read_size r slen = ROk cs -> (slen <= len r)%N.
Proof. unfold raw_read_size. destruct (N.ltb_spec (len r) slen); [discriminate|intros _; assumption]. Qed.

Lemma src_raw_read_kind_ok buf : (len buf < two64)%N -> raw_read_kind buf = src_raw_read_kind buf.
Proof.
  intros H64. unfold raw_read_kind, src_raw_read_kind, lib_rlp__readKind__if_len_buf_eq_0.
  destruct buf as [|b r]; [reflexivity|].
  rewrite len_cons in *. destruct (Z.eqb_spec (zN (1 + len r)) 0); [lia|].
  cbn [hd tl]. cbv zeta.
  destruct (src_raw_tags b) as (-> & -> & -> & ->).
  destruct (src_raw_sizes b) as (Hcs & Hts & Hcs2 & Hts2 & -> & -> & -> & -> & _).
  change (Z.to_N 0) with 0%N. change (Z.to_N 1) with 1%N.
  assert (Hl : len (b :: r) = (1 + len r)%N) by apply len_cons.
  destruct (N.ltb_spec (bN b) 128).
  { rewrite <- Hl, src_raw_too_large by (rewrite ?Hl; lia). rewrite Hl. reflexivity. }
  destruct (N.ltb_spec (bN b) 184).
  { rewrite Hcs by assumption. rewrite src_raw_single_byte.
    rewrite <- Hl, src_raw_too_large by (rewrite ?Hl; lia). rewrite Hl. reflexivity. }
  destruct (N.ltb_spec (bN b) 192).
  { rewrite (proj2 (proj1 (src_lenlen b) ltac:(assumption))).
    destruct (raw_read_size r (bN b - 183)) as [cs|e] eqn:E; [|reflexivity].
    apply raw_read_size_len in E. rewrite Hts by assumption.
    rewrite <- Hl, src_raw_too_large by (rewrite ?Hl; lia). rewrite Hl. reflexivity. }
  destruct (N.ltb_spec (bN b) 248).
  { rewrite Hcs2 by assumption. rewrite <- Hl, src_raw_too_large by (rewrite ?Hl; lia). rewrite Hl. reflexivity. }
  rewrite (proj2 (proj2 (src_lenlen b) ltac:(assumption))).
  destruct (raw_read_size r (bN b - 247)) as [cs|e] eqn:E; [|reflexivity].
  apply raw_read_size_len in E. rewrite Hts2 by assumption.
  rewrite <- Hl, src_raw_too_large by (rewrite ?Hl; lia). rewrite Hl. reflexivity.
Qed.

(** SplitString / SplitList / SplitUint64 / CountValues / the iterator *)
Lemma src_split_guards k (c : bytes) n :
  lib_rlp__SplitString__if_k_eq_List (zk k) = kind_eqb k KList
  /\ lib_rlp__SplitList__if_k_ne_List (zk k) = negb (kind_eqb k KList)
  /\ lib_rlp__NewListIterator__if_k_ne_List (zk k) = negb (kind_eqb k KList)
  /\ lib_rlp__SplitUint64__case_len_content_eq_0 (zN (len c)) = (len c =? 0)%N
  /\ lib_rlp__SplitUint64__case_len_content_eq_1 (zN (len c)) = (len c =? 1)%N
  /\ lib_rlp__SplitUint64__if_content_at_0_eq_0 (zb (hd x00 c)) = (bN (hd x00 c) =? 0)%N
  /\ lib_rlp__SplitUint64__case_len_content_gt_8 (zN (len c)) = (8 <? len c)%N
  /\ lib_rlp__CountValues__for_len_b_gt_0 (zN n) = (0 <? n)%N
  /\ lib_rlp__listIterator_Next__if_len_it_data_eq_0 (zN n) = (n =? 0)%N.
Proof.
  unfold lib_rlp__SplitString__if_k_eq_List, lib_rlp__SplitList__if_k_ne_List, lib_rlp__NewListIterator__if_k_ne_List,
    lib_rlp__SplitUint64__case_len_content_eq_0, lib_rlp__SplitUint64__case_len_content_eq_1, lib_rlp__SplitUint64__if_content_at_0_eq_0,
    lib_rlp__SplitUint64__case_len_content_gt_8, lib_rlp__CountValues__for_len_b_gt_0, lib_rlp__listIterator_Next__if_len_it_data_eq_0, zb.
  split; [destruct k; reflexivity|]. split; [destruct k; reflexivity|]. split; [destruct k; reflexivity|].
  repeat split; tie_close.
Qed.
Lemma src_split_atoms :
  lib_rlp__SplitString__if_k_eq_List_atoms = ["k : github.com/kardiachain/go-kardia/lib/rlp.Kind"]%string
  /\ lib_rlp__SplitList__if_k_ne_List_atoms = ["k : github.com/kardiachain/go-kardia/lib/rlp.Kind"]%string
  /\ lib_rlp__SplitUint64__case_len_content_eq_0_atoms = ["len(content) : int"]%string
  /\ lib_rlp__SplitUint64__case_len_content_eq_1_atoms = ["len(content) : int"]%string
  /\ lib_rlp__SplitUint64__if_content_at_0_eq_0_atoms = ["content[0] : byte"]%string
  /\ lib_rlp__SplitUint64__case_len_content_gt_8_atoms = ["len(content) : int"]%string
  /\ lib_rlp__CountValues__for_len_b_gt_0_atoms = ["len(b) : int"]%string
  /\ lib_rlp__NewListIterator__if_k_ne_List_atoms = ["k : github.com/kardiachain/go-kardia/lib/rlp.Kind"]%string
  /\ lib_rlp__listIterator_Next__if_len_it_data_eq_0_atoms = ["len(it.data) : int"]%string.
Proof. repeat split; reflexivity. Qed.

Lemma src_split_uint64 b :
  split_uint64 b =
    match split_string b with
    | RErr e => RErr e
    | ROk (c, r) =>
      if lib_rlp__SplitUint64__case_len_content_eq_0 (zN (len c)) then ROk (0%N, r)
      else if lib_rlp__SplitUint64__case_len_content_eq_1 (zN (len c)) then
        (if lib_rlp__SplitUint64__if_content_at_0_eq_0 (zb (hd x00 c)) then RErr RCanonInt else ROk (bN (hd x00 c), r))
      else if lib_rlp__SplitUint64__case_len_content_gt_8 (zN (len c)) then RErr RUintOverflow
      else match raw_read_size c (len c) with
           | RErr _ => RErr RCanonInt
           | ROk x => ROk (x, r)
           end
    end.
Proof.
  unfold split_uint64. destruct (split_string b) as [[c r]|e]; [|reflexivity].
  destruct (src_split_guards KByte c 0%N) as (_ & _ & _ & -> & -> & -> & -> & _).
  destruct c as [|x [|y c']]; try reflexivity.
  rewrite !len_cons. destruct (N.eqb_spec (1 + (1 + len c')) 0); [lia|]. destruct (N.eqb_spec (1 + (1 + len c')) 1); [lia|].
  reflexivity.
Qed.

(** * The whole tie as one statement (quoted by Properties.v).
    Built from the statements of the lemmas above, in this order: encoder headers and strings,
    integers (putint bytes and sizes, intsize, headsize, IntSize, ListSize, AppendUint64,
    writeUint64, writeBigInt), encBuffer bookkeeping, empty slices and nil pointers; Stream
    (readKind on both transcriptions, Kind, the window decoder's size check, re-arm stores,
    willRead, readUint, List, ListEnd); typed decoders (Bytes, ReadBytes, Raw, uint, big integers,
    byte arrays, nil pointers, lists, DecodeBytes, [n]T, slice growth, Reset); raw.go (readSize
    values and guards, readKind, Split*, CountValues, iterator); the operands ([_atoms]). *)
Ltac tie_lemmas k :=
  k constr:((src_head, src_enc_str, src_str_head, src_strheader_large, src_writeString_guard, src_writeOneByteArray_guard,
                   src_putint, src_intsize_ok, src_head_size, src_int_size, src_list_size, src_append_uint64, src_appenduint_bytes, src_enc_uint,
                   src_bigint_length, src_bigint_guard, be_bytes_len_bits,
                   src_encbuffer_size, src_listEnd_size, src_listEnd_lhsize, src_slice_empty, src_ptr_nil_encoding,
                   src_read_kind_ok, src_s_read_kind_ok, src_s_kind_ok, src_chk_size, src_rearm_stores,
                   src_s_read_full_ok, src_willRead_sub_input, src_read_uint, src_readUint_start,
                   src_s_list_ok, src_s_list_end_ok,
                   src_dec_bytes, src_s_read_bytes, src_dec_raw, src_raw_alloc, src_dec_uint, src_dec_big, src_dec_array, src_dec_ptr_nil,
                   src_list_guards, @src_exactly_one, src_listarray_guards, src_newcap, src_reset,
                   src_readSize_value_1, src_readSize_value_2, src_readSize_value_3, src_readSize_value_4, src_readSize_value_5,
                   src_readSize_value_6, src_readSize_value_7, src_readSize_value_8,
                   src_raw_read_size, src_raw_read_kind_ok, src_split_guards, src_split_uint64,
                   src_header_guard_atoms, src_puthead_atoms, src_writeBytes_atoms, src_sizes_atoms, src_uint_atoms,
                   src_encbuffer_atoms, src_writer_atoms, src_readKind_atoms, src_lenlen_atoms, src_kind_atoms, src_willRead_atoms,
                   src_readUint_atoms, src_list_atoms, src_wrapped_atoms, src_uint_atoms2, src_bigint_atoms, src_array_atoms,
                   src_nilptr_atoms, src_list_atoms2, src_readSize_atoms, src_raw_atoms, src_split_atoms)).

Definition C16_source_tie_statement : Prop :=
  ltac:(tie_lemmas ltac:(fun l =>
        let rec go t :=
          lazymatch t with
          | (?a, ?b) => let ta := go a in let tb := type of b in constr:(ta /\ tb)
          | ?b => let tb := type of b in constr:(tb)
          end in
        let r := go l in exact r)).

Lemma C16_source_tie_proof : C16_source_tie_statement.
Proof.
  unfold C16_source_tie_statement.
  tie_lemmas ltac:(fun l =>
    let rec go t :=
      lazymatch t with
      | (?a, ?b) => let pa := go a in constr:(conj pa b)
      | ?b => constr:(b)
      end in
    let r := go l in exact r).
Qed.
