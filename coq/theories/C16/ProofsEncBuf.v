(** C16 — the encoder's buffer as the code has it (encbuffer.go: string data, deferred list
    headers, running header size, copyTo) produces the functional encoding. *)
From Coq Require Import List ZArith NArith Bool Lia.
From Coq Require Import Init.Byte.
From Kardia Require Import C16.Model C16.ProofsBase C16.ProofsItem C16.ProofsExtra.
Import ListNotations.
Local Open Scope N_scope.

(** string data (the encoding without list headers), header bytes, and the closed headers of an
    item written at string offset [off] when [lh] header bytes have been accounted for *)
Fixpoint sdata (x : item) : bytes :=
  match x with Str s => enc_str s | List l => flat_map sdata l end.
Fixpoint lhs (x : item) : N :=
  match x with
  | Str _ => 0
  | List l => fold_right (fun y a => lhs y + a) 0 l + head_size (len (flat_map encode l))
  end.
Definition lhs_list (l : list item) : N := fold_right (fun y a => lhs y + a) 0 l.
Fixpoint heads_of (x : item) (off lh : N) : list (N * N) :=
  match x with
  | Str _ => []
  | List l =>
    (off, len (flat_map encode l)) ::
    (fix go (l : list item) (off lh : N) : list (N * N) :=
       match l with
       | [] => []
       | y :: r => heads_of y off lh ++ go r (off + len (sdata y)) (lh + lhs y)
       end) l off lh
  end.
Fixpoint heads_list (l : list item) (off lh : N) : list (N * N) :=
  match l with
  | [] => []
  | y :: r => heads_of y off lh ++ heads_list r (off + len (sdata y)) (lh + lhs y)
  end.
Lemma heads_of_list l off lh : heads_of (List l) off lh = (off, len (flat_map encode l)) :: heads_list l off lh.
Proof.
  reflexivity.
Qed.

Lemma len_flat_map_app {A} (f : A -> bytes) l : len (flat_map f l) = fold_right (fun y a => len (f y) + a) 0 l.
Proof. induction l as [|y r IH]; [reflexivity|]. cbn [flat_map fold_right]. rewrite len_app, IH. reflexivity. Qed.

Lemma len_encode_split : forall x, len (encode x) = len (sdata x) + lhs x.
Proof.
  apply item_ind'.
  - intros b. cbn. lia.
  - intros l IH. cbn [encode sdata lhs]. unfold enc_list. rewrite len_app. unfold list_head. rewrite len_head.
    assert (E : len (flat_map encode l) = len (flat_map sdata l) + lhs_list l).
    { unfold lhs_list. induction l as [|y r IHr]; [reflexivity|].
      inversion IH as [|? ? Hy Hr]; subst. cbn [flat_map fold_right]. rewrite !len_app, Hy, (IHr Hr). lia. }
    fold (lhs_list l). lia.
Qed.
Lemma len_encode_list l : len (flat_map encode l) = len (flat_map sdata l) + lhs_list l.
Proof.
  unfold lhs_list. induction l as [|y r IH]; [reflexivity|].
  cbn [flat_map fold_right]. rewrite !len_app, len_encode_split, IH. lia.
Qed.

(** * what writing an item does to the buffer *)
Lemma set_nth_app {A} (a : list A) x y r : set_nth (length a) y (a ++ x :: r) = a ++ y :: r.
Proof. induction a as [|z a IH]; [reflexivity|]. cbn [length app set_nth]. rewrite IH. reflexivity. Qed.
Lemma nth_app_here {A} (a : list A) x r d : nth (length a) (a ++ x :: r) d = x.
Proof. rewrite app_nth2 by lia. rewrite Nat.sub_diag. reflexivity. Qed.

Definition item_spec (x : item) : Prop :=
  forall b, eb_item x b =
    mkE (e_str b ++ sdata x) (e_heads b ++ heads_of x (len (e_str b)) (e_lhsize b)) (e_lhsize b + lhs x).

Lemma fold_items l : Forall item_spec l -> forall b,
  fold_left (fun b' y => eb_item y b') l b =
    mkE (e_str b ++ flat_map sdata l) (e_heads b ++ heads_list l (len (e_str b)) (e_lhsize b)) (e_lhsize b + lhs_list l).
Proof.
  unfold lhs_list. induction 1 as [|y r Hy Hr IH]; intros b.
  - cbn. rewrite !app_nil_r, N.add_0_r. destruct b; reflexivity.
  - cbn [fold_left flat_map heads_list fold_right]. rewrite (Hy b), IH. cbn [e_str e_heads e_lhsize].
    rewrite len_app, <- !app_assoc. f_equal. lia.
Qed.

Lemma eb_item_spec : forall x, item_spec x.
Proof.
  apply item_ind'.
  - intros s b. cbn [eb_item sdata heads_of lhs]. unfold eb_append. rewrite app_nil_r, N.add_0_r. reflexivity.
  - intros l IH b. cbn [eb_item]. unfold eb_list. rewrite (fold_items l IH). cbn [e_str e_heads e_lhsize].
    unfold eb_list_end. cbn [e_heads e_str e_lhsize].
    rewrite <- app_assoc. cbn [app]. rewrite nth_app_here, set_nth_app.
    unfold eb_size. cbn [e_str e_lhsize].
    assert (Esz : len (e_str b ++ flat_map sdata l) + (e_lhsize b + lhs_list l) - len (e_str b) - e_lhsize b
                  = len (flat_map encode l)).
    { rewrite len_app, len_encode_list. lia. }
    rewrite Esz. rewrite heads_of_list. cbn [sdata lhs]. fold (lhs_list l). f_equal. lia.
Qed.

(** * copyTo *)
Lemma take_app_ge {A} n (a b : list A) : len a <= n -> take n (a ++ b) = a ++ take (n - len a) b.
Proof.
  unfold take, len. intros H. rewrite firstn_app. rewrite firstn_all2 by lia. f_equal. f_equal. lia.
Qed.
Lemma drop_app_ge {A} n (a b : list A) : len a <= n -> drop n (a ++ b) = drop (n - len a) b.
Proof.
  unfold drop, len. intros H. rewrite skipn_app. rewrite skipn_all2 by lia. cbn [app]. f_equal. lia.
Qed.

Definition offs_ge (p : N) (hs : list (N * N)) : Prop := Forall (fun h => p <= fst h) hs.

(** skipping string data that no remaining header interrupts *)
Lemma copy_skip hs : forall pre mid tail, offs_ge (len pre + len mid) hs ->
  eb_copy hs (pre ++ mid ++ tail) (len pre) = mid ++ eb_copy hs (pre ++ mid ++ tail) (len pre + len mid).
Proof.
  intros pre mid tail Hge. destruct hs as [|[o sz] r]; cbn [eb_copy].
  - rewrite drop_app_len. rewrite app_assoc, <- len_app, drop_app_len. reflexivity.
  - inversion Hge as [|? ? Ho _]; subst. cbn [fst] in Ho.
    rewrite drop_app_len. rewrite take_app_ge by lia.
    rewrite (app_assoc pre mid tail), <- len_app, drop_app_len, <- app_assoc.
    replace (o - len pre - len mid) with (o - len (pre ++ mid)) by (rewrite len_app; lia). reflexivity.
Qed.

Lemma offs_ge_le p q hs : q <= p -> offs_ge p hs -> offs_ge q hs.
Proof. intros Hle H. eapply Forall_impl; [|exact H]. cbn. intros; lia. Qed.
Lemma offs_ge_app p a b : offs_ge p a -> offs_ge p b -> offs_ge p (a ++ b).
Proof. intros Ha Hb. apply Forall_app. split; assumption. Qed.

(** the headers of an item lie at or after the offset it is written at *)
Lemma heads_of_ge : forall x off lh, offs_ge off (heads_of x off lh).
Proof.
  apply (item_ind' (fun x => forall off lh, offs_ge off (heads_of x off lh))).
  - intros s off lh. constructor.
  - intros l IH off lh. rewrite heads_of_list. constructor; [cbn; lia|].
    revert off lh. induction IH as [|y r Hy Hr IHr]; intros off lh; [constructor|].
    cbn [heads_list]. apply offs_ge_app; [apply Hy|].
    eapply offs_ge_le; [|apply IHr]. lia.
Qed.
Lemma heads_list_ge l off lh : offs_ge off (heads_list l off lh).
Proof.
  revert off lh. induction l as [|y r IH]; intros off lh; [constructor|].
  cbn [heads_list]. apply offs_ge_app; [apply heads_of_ge|]. eapply offs_ge_le; [|apply IH]. lia.
Qed.

Definition copy_spec (x : item) : Prop :=
  forall lh rest pre mid post,
    offs_ge (len pre + len mid + len (sdata x)) rest ->
    eb_copy (heads_of x (len pre + len mid) lh ++ rest) (pre ++ mid ++ sdata x ++ post) (len pre) =
    mid ++ encode x ++ eb_copy rest (pre ++ mid ++ sdata x ++ post) (len pre + len mid + len (sdata x)).

Lemma copy_list l : Forall copy_spec l -> forall lh rest pre post,
  offs_ge (len pre + len (flat_map sdata l)) rest ->
  eb_copy (heads_list l (len pre) lh ++ rest) (pre ++ flat_map sdata l ++ post) (len pre) =
  flat_map encode l ++ eb_copy rest (pre ++ flat_map sdata l ++ post) (len pre + len (flat_map sdata l)).
Proof.
  induction 1 as [|y r Hy Hr IH]; intros lh rest pre post Hge.
  - cbn [heads_list flat_map app]. change (len (@nil byte)) with 0. rewrite N.add_0_r. reflexivity.
  - cbn [heads_list flat_map] in *. rewrite <- !app_assoc.
    (* the first element, with no string data before it *)
    pose proof (Hy lh (heads_list r (len pre + len (sdata y)) (lh + lhs y) ++ rest) pre [] (flat_map sdata r ++ post)) as H1.
    change (len (@nil byte)) with 0 in H1. rewrite !N.add_0_r in H1. cbn [app] in H1.
    rewrite H1.
    2:{ apply offs_ge_app; [apply heads_list_ge|]. eapply offs_ge_le; [|exact Hge]. rewrite len_app. lia. }
    (* the remaining elements *)
    specialize (IH (lh + lhs y) rest (pre ++ sdata y) post).
    rewrite len_app in IH. rewrite <- (app_assoc pre (sdata y)) in IH.
    f_equal. rewrite IH.
    + rewrite len_app, N.add_assoc. reflexivity.
    + eapply offs_ge_le; [|exact Hge]. rewrite len_app. lia.
Qed.

Lemma copy_item : forall x, copy_spec x.
Proof.
  apply item_ind'.
  - intros s lh rest pre mid post Hge. cbn [heads_of app sdata encode].
    pose proof (copy_skip rest pre (mid ++ enc_str s) post) as H. rewrite len_app, <- !app_assoc in H.
    rewrite N.add_assoc in H. apply H. exact Hge.
  - intros l IH lh rest pre mid post Hge. rewrite heads_of_list. cbn [app eb_copy sdata encode].
    rewrite drop_app_len.
    replace (len pre + len mid - len pre) with (len mid) by lia. rewrite take_app_len.
    f_equal. unfold enc_list. rewrite <- app_assoc. f_equal.
    pose proof (copy_list l IH lh rest (pre ++ mid) post) as H. rewrite len_app, <- !app_assoc in H.
    apply H. exact Hge.
Qed.

Theorem encbuffer_refines_encode x : encode_via_buffer x = encode x.
Proof.
  unfold encode_via_buffer, eb_bytes. rewrite (eb_item_spec x eb_empty).
  pose proof (copy_item x 0 [] [] [] []) as H. rewrite !app_nil_r in H. specialize (H ltac:(constructor)).
  change (eb_copy (heads_of x 0 0) (sdata x) 0 = encode x ++ eb_copy [] (sdata x) (len (sdata x))) in H.
  change (eb_copy (heads_of x 0 0) (sdata x) 0 = encode x).
  rewrite H. cbn [eb_copy]. unfold drop, len. rewrite Nnat.Nat2N.id, skipn_all. apply app_nil_r.
Qed.
