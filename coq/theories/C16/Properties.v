(** C16 — property theorems only.  Each is closed by [exact] of a lemma proved in Proofs*.v
    and followed by [Print Assumptions].

    [decode] is the decoder of one RLP item on a byte string (decodeInterface through the
    window decoder, fuel = input length + 1); a result [Ok x rest alloc] carries the
    undecoded rest and the allocation measure. *)
From Coq Require Import List ZArith NArith Bool.
From Coq Require Import Init.Byte.
From Kardia Require Import C16.Model C16.ProofsBase C16.ProofsItem C16.Proofs C16.ProofsTyped
  C16.ProofsCanon C16.ProofsRoundtrip C16.ProofsRaw C16.ProofsBound C16.ProofsExtra C16.ProofsStream C16.ProofsEncBuf C16.SourceTie.
Import ListNotations.
Local Open Scope N_scope.

(** decoding the encoding of any item (followed by anything) returns the item and the
    untouched rest; the only hypothesis is that the encoding is shorter than 2^64 bytes
    (sizes are uint64 in the implementation) *)
Theorem C16_decode_encode :
  forall x rest, len (encode x) < two64 -> exists a, decode (encode x ++ rest) = Ok x rest a.
Proof. exact decode_encode. Qed.
Print Assumptions C16_decode_encode.

(** an accepted byte string IS the encoding of the value it decodes to, followed by the rest:
    leading zeros in lengths, long-form headers for short payloads, single bytes wrapped as
    strings, missing bytes are all rejected by this one statement (no hypothesis on the input) *)
Theorem C16_canonical :
  forall bs x rest a, decode bs = Ok x rest a -> bs = encode x ++ rest.
Proof. exact canonical. Qed.
Print Assumptions C16_canonical.

(** DecodeBytes: exactly one value, no trailing bytes *)
Theorem C16_decode_bytes_exact :
  forall bs x rest a, decode_bytes_item bs = Ok x rest a -> rest = [] /\ bs = encode x.
Proof. exact decode_bytes_exact. Qed.
Print Assumptions C16_decode_bytes_exact.

Theorem C16_prefix_free :
  forall x y r1 r2, len (encode x) < two64 -> len (encode y) < two64 ->
    encode x ++ r1 = encode y ++ r2 -> x = y /\ r1 = r2.
Proof. exact prefix_free. Qed.
Print Assumptions C16_prefix_free.

Theorem C16_encode_injective :
  forall x y, len (encode x) < two64 -> encode x = encode y -> x = y.
Proof. exact encode_injective. Qed.
Print Assumptions C16_encode_injective.

(** every size declared by a header is compared with the remaining window before anything
    uses it (Stream.Kind) *)
Theorem C16_size_checked :
  forall il bs k size bv rest,
    read_kind il bs = KOk k size bv rest -> size <= len rest /\ len rest < len bs.
Proof. exact size_checked. Qed.
Print Assumptions C16_size_checked.

(** on EVERY input (accepted or not) the input-controlled allocation is bounded by the number
    of bytes consumed, hence by the input length *)
Theorem C16_size_bound :
  forall bs, match decode bs with
             | Ok _ rest alloc => alloc + len rest <= len bs
             | Err _ alloc => alloc <= len bs
             end.
Proof. exact size_bound. Qed.
Print Assumptions C16_size_bound.

(** the hypotheses are satisfiable, and the classic non-canonical shapes are rejected *)
Theorem C16_examples :
  decode (bs_of [200; 131; 99; 97; 116; 131; 100; 111; 103]) =
    Ok (List [Str (bs_of [99; 97; 116]); Str (bs_of [100; 111; 103])]) [] 6 /\
  decode (bs_of [129; 5]) = Err ECanonSize 1 /\
  decode (bs_of [184; 1; 200]) = Err ECanonSize 0 /\
  decode (bs_of (185 :: 0 :: 56 :: repeat 1 56)) = Err ECanonSize 0 /\
  decode (bs_of [131; 1; 2]) = Err EValueTooLarge 0 /\
  decode_bytes_item (bs_of [1; 2]) = Err EMoreThanOne 1.
Proof.
  exact (conj accept_example (conj reject_wrapped_single_byte (conj reject_long_form_short_size
        (conj reject_leading_zero_length (conj reject_truncated reject_trailing))))).
Qed.
Print Assumptions C16_examples.

(** typed layer: canonicity of the typed decoder for EVERY type without rlp:"optional"
    ([optional_free]): uints, *big.Int, bool, []byte, [n]byte, string, RawValue, interface{},
    lists, pointers, structs, with the nil / nilString / nilList, tail and "-" tags, nested.
    For a tail-tagged slice [enc_val] is the bare concatenation of the elements. *)
Theorem C16_typed_canonical :
  forall t tg il bs v rest a, optional_free t ->
    dec_val t tg il bs = Ok v rest a -> bs = enc_val t tg v ++ rest.
Proof. exact typed_canonical_full. Qed.
Print Assumptions C16_typed_canonical.

Theorem C16_typed_decode_bytes_exact :
  forall t bs v rest a, optional_free t ->
    decode_bytes t bs = Ok v rest a -> rest = [] /\ bs = encode_to_bytes t v.
Proof. exact typed_decode_bytes_exact_full. Qed.
Print Assumptions C16_typed_decode_bytes_exact.

(** typed round trip over the WHOLE universe (optional, tail, "-", nil tags included) for values
    in normal form [wf_val]: uints fit their width, no nil slices / big ints / interfaces, nil
    pointers only under a nil tag (and then non-nil pointers do not point to an empty
    encoding), ignored fields zero, RawValues hold one item; [wf_fields] also carries the
    validity conditions of rlpstruct.ProcessFields.  Trailing zero-valued optional fields are
    dropped by the encoder and re-created by the decoder. *)
Theorem C16_typed_roundtrip :
  forall t v il rest, wf_val t no_tag v -> len (enc_val t no_tag v) < two64 ->
    exists a, dec_val t no_tag il (enc_val t no_tag v ++ rest) = Ok v rest a.
Proof. exact typed_roundtrip. Qed.
Print Assumptions C16_typed_roundtrip.

Theorem C16_typed_decode_bytes_roundtrip :
  forall t v, wf_val t no_tag v -> len (encode_to_bytes t v) < two64 ->
    exists a, decode_bytes t (encode_to_bytes t v) = Ok v [] a.
Proof. exact typed_decode_bytes_roundtrip. Qed.
Print Assumptions C16_typed_decode_bytes_roundtrip.

(** the normal-form hypothesis is satisfiable on a struct using every tag *)
Theorem C16_typed_example :
  wf_val ty_all no_tag val_all /\
  decode_bytes ty_all (encode_to_bytes ty_all val_all) = Ok val_all [] 0.
Proof. exact typed_example. Qed.
Print Assumptions C16_typed_example.

(** REFUTED for rlp:"optional": for struct{A uint64; B uint64 `rlp:"optional"`} the string
    c2 05 80 is accepted, decodes to {5,0}, and {5,0} encodes to c1 05 (which decodes to the
    same value): two accepted encodings of one value (known finding) *)
Theorem C16_typed_canonical_optional_refuted :
  exists bs v,
    decode_bytes ty_SO bs = Ok v [] 0 /\ encode_to_bytes ty_SO v <> bs /\
    decode_bytes ty_SO (encode_to_bytes ty_SO v) = Ok v [] 0.
Proof. exact optional_refuted. Qed.
Print Assumptions C16_typed_canonical_optional_refuted.

(** raw.go agrees with the encoder: Split returns kind, content and the untouched rest of the
    encoding of any item ([item_kind]: Byte for a single byte below 0x80, else String / List;
    [item_content]: the string, or the concatenated encodings of the list elements) *)
Theorem C16_split_encode :
  forall x rest, len (encode x) < two64 ->
    split (encode x ++ rest) = ROk (item_kind x, item_content x, rest).
Proof. exact split_encode. Qed.
Print Assumptions C16_split_encode.

(** CountValues counts the items of a list payload *)
Theorem C16_count_values :
  forall l, len (flat_map encode l) < two64 -> count_values (flat_map encode l) = ROk (len l).
Proof. exact count_values_encode. Qed.
Print Assumptions C16_count_values.

(** the allocation bound of C16_size_bound for the typed decoder: every type, every tag,
    every input (accepted or not) *)
Theorem C16_typed_size_bound :
  forall t tg il bs,
    match dec_val t tg il bs with
    | Ok _ rest alloc => alloc + len rest <= len bs
    | Err _ alloc => alloc <= len bs
    end.
Proof. exact typed_size_bound. Qed.
Print Assumptions C16_typed_size_bound.

(** raw.go helpers against the encoder: AppendUint64 writes the integer encoding, IntSize is its
    length, ListSize is the length of a list with that payload (below 2^64) *)
Theorem C16_append_uint64 :
  forall n, n < two64 -> append_uint64 n = enc_uint n /\ len (enc_uint n) = int_size n.
Proof. exact (fun n H => conj (append_uint64_enc_uint n H) (len_enc_uint n H)). Qed.
Print Assumptions C16_append_uint64.

Theorem C16_list_size :
  forall p, len (enc_list p) < two64 -> list_size (len p) = len (enc_list p).
Proof. exact list_size_enc_list. Qed.
Print Assumptions C16_list_size.

(** the list iterator yields exactly the encodings of the elements, in order, without error *)
Theorem C16_list_iterator :
  forall l rest, len (encode (List l)) < two64 ->
    list_iterator (encode (List l) ++ rest) = ROk (map encode l, None).
Proof. exact list_iterator_encode. Qed.
Print Assumptions C16_list_iterator.

(** several values in a row (journals): a concatenation of encodings of normal-form values of
    one type decodes value by value to these values and then reports io.EOF *)
Theorem C16_decode_sequence :
  forall t vs, Forall (fun v => wf_val t no_tag v /\ len (enc_val t no_tag v) < two64) vs ->
    decode_all t (flat_map (enc_val t no_tag) vs) = (vs, EEOF).
Proof. exact decode_all_encode. Qed.
Print Assumptions C16_decode_sequence.

(** the model's size / length / canonicity decisions ARE the expressions of the Go source
    (Generated/C16Source.v, regenerated from /repo on every check) *)
Theorem C16_source_tie : C16_source_tie_statement.
Proof. exact C16_source_tie_proof. Qed.
Print Assumptions C16_source_tie.

(** the literal Stream machine (decode.go: input, stack of list limits reduced by unchecked
    uint64 subtraction, cached kind, Kind's size test against the limit read before the header)
    accepts through DecodeBytes exactly the inputs the window decoder accepts, with the same
    value: so every theorem above about [decode_bytes] (canonicity, exactness, round trip) holds
    for the machine as the code has it.  [tail_ok]: tail tags only on slices, which
    rlpstruct.ProcessFields enforces before a decoder exists; inputs are shorter than 2^64 bytes *)
Theorem C16_stream_refines_window :
  forall t bs v, tail_ok t -> len bs < two64 ->
    ((exists s, stream_decode_bytes t bs = SOk v s) <-> (exists a, decode_bytes t bs = Ok v [] a)).
Proof. exact stream_refines_window. Qed.
Print Assumptions C16_stream_refines_window.

(** several values in a row on one Stream (journals): both transcriptions deliver the same values *)
Theorem C16_stream_sequence_values :
  forall t bs, tail_ok t -> len bs < two64 -> fst (stream_decode_all t bs) = fst (decode_all t bs).
Proof. exact stream_decode_all_values. Qed.
Print Assumptions C16_stream_sequence_values.

(** REFUTED without [tail_ok]: for struct{A uint8 `rlp:"optional,tail"`} (a descriptor Go refuses)
    the machine accepts c0 and the window decoder does not *)
Theorem C16_stream_refines_window_illformed_refuted :
  (exists s, stream_decode_bytes ty_bad_tail [Nb 192] = SOk (VStruct [VUint 0]) s) /\
  decode_bytes ty_bad_tail [Nb 192] = Err EEOL 0.
Proof. exact stream_window_differ_on_illformed. Qed.
Print Assumptions C16_stream_refines_window_illformed_refuted.

(** the encoder's buffer as the code has it (encbuffer.go: string data without list headers, the
    headers apart with their offsets, listEnd computing a list's size from the running totals,
    copyTo interleaving them) produces exactly the functional encoding the theorems above are
    about, for every item *)
Theorem C16_encbuffer_refines_encode : forall x, encode_via_buffer x = encode x.
Proof. exact encbuffer_refines_encode. Qed.
Print Assumptions C16_encbuffer_refines_encode.

(** The decision-critical functions of the anchored code have exactly the decisions the source tie knows about
    (go2coq manifests, regenerated from /repo on every check; statement in SourceManifest.v). *)
From Kardia Require Import C16.SourceManifest.
Theorem C16_source_manifest : C16_source_manifest_statement.
Proof. exact C16_source_manifest_proof. Qed.
Print Assumptions C16_source_manifest.
