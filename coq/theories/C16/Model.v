(** C16 — RLP (lib/rlp) model: encoder, stream decoder, raw splitter, typed layer.

    Transcribed from /repo/lib/rlp/{encode,encbuffer,decode,raw,typecache}.go and
    internal/rlpstruct/rlpstruct.go as they are today.  No proofs in this file.

    Modelling steps (each is exercised by the correspondence run):
    - bytes are [list byte] (Coq.Init.Byte, 256 constructors), sizes are [N];
    - the encoder's deferred list headers (encBuffer.lheads / listEnd / copyTo) are modelled
      by their functional meaning: header(size of payload) ++ payload;
    - the decoder's [Stream] with its stack of list limits is modelled by nested windows:
      the decoder of a list element only sees the remaining payload of the innermost list
      ([il = true]), the top-level decoder sees the remaining input ([il = false]).  This is
      exact for DecodeBytes because there [remaining] is the real input length and every
      pushed list size has been checked against the enclosing limit (Stream.Kind), so the
      innermost limit is always the binding one; the only difference between the two
      situations is the error class (ErrElemTooLarge / ErrValueTooLarge, EOL / io.EOF);
    - every result carries an allocation measure: the number of bytes requested through
      [make([]byte, n)] with an [n] that comes from the input (Stream.Bytes, Raw,
      decodeBigInt's large branch). *)
From Coq Require Import List NArith Bool.
From Coq Require Import Init.Byte.
Import ListNotations.
Local Open Scope N_scope.

Definition bytes := list byte.
Definition bN (b : byte) : N := Byte.to_N b.
Definition Nb (n : N) : byte := match Byte.of_N n with Some b => b | None => x00 end.
Definition len {A} (l : list A) : N := N.of_nat (length l).
Definition take {A} (n : N) (l : list A) : list A := firstn (N.to_nat n) l.
Definition drop {A} (n : N) (l : list A) : list A := skipn (N.to_nat n) l.

(** * Integers as minimal big-endian byte strings (putint / intsize / big.Int.Bytes) *)
Fixpoint le_bytes (fuel : nat) (n : N) : bytes :=
  match fuel with
  | O => []
  | S f => if n =? 0 then [] else Nb (n mod 256) :: le_bytes f (n / 256)
  end.
Definition be_bytes (n : N) : bytes := rev (le_bytes (N.size_nat n) n).
Fixpoint le_val (bs : bytes) : N :=
  match bs with [] => 0 | b :: r => bN b + 256 * le_val r end.
Definition be_val (bs : bytes) : N := le_val (rev bs).

(** * Items and the encoder *)
Inductive item := Str (b : bytes) | List (l : list item).

(** puthead / encodeStringHeader / listhead.encode *)
Definition head (small large : N) (size : N) : bytes :=
  if size <? 56 then [Nb (small + size)]
  else let sb := be_bytes size in Nb (large + len sb) :: sb.
Definition str_head := head 128 183.   (* 0x80, 0xB7 *)
Definition list_head := head 192 247.  (* 0xC0, 0xF7 *)

(** encBuffer.writeBytes / writeString / byte-array writers *)
Definition enc_str (b : bytes) : bytes :=
  match b with
  | [x] => if bN x <? 128 then [x] else str_head 1 ++ b
  | _ => str_head (len b) ++ b
  end.
Definition enc_list (payload : bytes) : bytes := list_head (len payload) ++ payload.

Fixpoint encode (x : item) : bytes :=
  match x with
  | Str b => enc_str b
  | List l => enc_list (flat_map encode l)
  end.

(** encBuffer.writeUint64 / writeBigInt: 0 -> 0x80, <128 -> the byte, else header + minimal BE *)
Definition enc_uint (n : N) : bytes := enc_str (be_bytes n).

(** * Decoder: error classes, results *)
Inductive err :=
| EEOF            (* io.EOF: no input at top level *)
| EEOL            (* end of list (internal) *)
| EExpectedString | EExpectedList
| ECanonInt | ECanonSize
| EElemTooLarge | EValueTooLarge
| EMoreThanOne    (* DecodeBytes: trailing bytes *)
| EUintOverflow   (* "input string too long" for uints *)
| ENotAtEOL       (* "input list has too many elements" *)
| ETooFew         (* struct: "too few elements" *)
| EStrTooLong | EStrTooShort  (* byte arrays *)
| EBool           (* invalid boolean value *)
| EWrongEmpty     (* wrong kind of empty value (nil tags) *)
| ENotInList      (* ListEnd outside of any list (errNotInList; Stream scripts only) *)
| EWrongSize      (* ReadBytes: "input value has wrong size" *)
| EFuel.          (* model only: recursion fuel exhausted; shown unreachable *)

Inductive kind := KByte | KString | KList.

(** [Ok v rest alloc] / [Err e alloc]: [alloc] = bytes requested from the allocator with an
    input-controlled size *)
Inductive res (A : Type) :=
| Ok (v : A) (rest : bytes) (alloc : N)
| Err (e : err) (alloc : N).
Arguments Ok {A}. Arguments Err {A}.

Definition bind {A B} (r : res A) (f : A -> bytes -> res B) : res B :=
  match r with
  | Err e a => Err e a
  | Ok v rest a =>
    match f v rest with
    | Ok w rest' a' => Ok w rest' (a + a')
    | Err e a' => Err e (a + a')
    end
  end.
Definition rmap {A B} (f : A -> B) (r : res A) : res B :=
  match r with Ok v rest a => Ok (f v) rest a | Err e a => Err e a end.

(** willRead against the innermost limit *)
Definition too_large (il : bool) : err := if il then EElemTooLarge else EValueTooLarge.

Inductive ures := UOk (v : N) (rest : bytes) | UErr (e : err).

(** Stream.readUint(size): big-endian integer of [size] bytes; more than one byte with a
    leading zero is rejected with ErrCanonSize (the caller adjusts) *)
Definition read_uint (il : bool) (size : N) (bs : bytes) : ures :=
  if size =? 0 then UOk 0 bs
  else if len bs <? size then UErr (too_large il)
  else
    let b := take size bs in
    if size =? 1 then UOk (be_val b) (drop size bs)
    else if bN (hd x00 b) =? 0 then UErr ECanonSize
    else UOk (be_val b) (drop size bs).

Inductive kres := KOk (k : kind) (size : N) (bv : byte) (rest : bytes) | KErr (e : err).

(** Stream.Kind on a fresh position = readKind + the size check against the limit *)
Definition chk_size (il : bool) (k : kind) (size : N) (rest : bytes) : kres :=
  if len rest <? size then KErr (too_large il) else KOk k size x00 rest.

Definition read_kind (il : bool) (bs : bytes) : kres :=
  match bs with
  | [] => KErr (if il then EEOL else EEOF)
  | b :: r =>
    let t := bN b in
    if t <? 128 then KOk KByte 0 b r
    else if t <? 184 then chk_size il KString (t - 128) r
    else if t <? 192 then
      match read_uint il (t - 183) r with
      | UErr e => KErr e
      | UOk size r' => if size <? 56 then KErr ECanonSize else chk_size il KString size r'
      end
    else if t <? 248 then chk_size il KList (t - 192) r
    else
      match read_uint il (t - 247) r with
      | UErr e => KErr e
      | UOk size r' => if size <? 56 then KErr ECanonSize else chk_size il KList size r'
      end
  end.

(** Stream.Bytes *)
Definition dec_bytes (il : bool) (bs : bytes) : res bytes :=
  match read_kind il bs with
  | KErr e => Err e 0
  | KOk KByte _ bv rest => Ok [bv] rest 1
  | KOk KString size _ rest =>
    let b := take size rest in
    if (size =? 1) && (bN (hd x00 b) <? 128) then Err ECanonSize size
    else Ok b (drop size rest) size
  | KOk KList _ _ _ => Err EExpectedString 0
  end.

(** Stream.uint(maxbits) *)
Definition dec_uint (maxbits : N) (il : bool) (bs : bytes) : res N :=
  match read_kind il bs with
  | KErr e => Err e 0
  | KOk KByte _ bv rest => if bN bv =? 0 then Err ECanonInt 0 else Ok (bN bv) rest 0
  | KOk KString size _ rest =>
    if maxbits / 8 <? size then Err EUintOverflow 0
    else match read_uint il size rest with
         | UErr ECanonSize => Err ECanonInt 0
         | UErr e => Err e 0
         | UOk v r => if (0 <? size) && (v <? 128) then Err ECanonSize 0 else Ok v r 0
         end
  | KOk KList _ _ _ => Err EExpectedString 0
  end.

(** Stream.Bool *)
Definition dec_bool (il : bool) (bs : bytes) : res bool :=
  match dec_uint 8 il bs with
  | Err e a => Err e a
  | Ok v r a => if v =? 0 then Ok false r a else if v =? 1 then Ok true r a else Err EBool a
  end.

(** decodeBigInt *)
Definition dec_big (il : bool) (bs : bytes) : res N :=
  match read_kind il bs with
  | KErr e => Err e 0
  | KOk KList _ _ _ => Err EExpectedString 0
  | KOk KByte _ bv rest => if bN bv =? 0 then Err ECanonInt 0 else Ok (bN bv) rest 0
  | KOk KString size _ rest =>
    if size =? 0 then Ok 0 rest 0
    else
      let b := take size rest in
      let a := if size <=? 32 then 0 else size in
      if (size =? 1) && (bN (hd x00 b) <? 128) then Err ECanonSize a
      else if bN (hd x00 b) =? 0 then Err ECanonInt a
      else Ok (be_val b) (drop size rest) a
  end.

(** decodeByteArray for [n]byte *)
Definition dec_array (n : N) (il : bool) (bs : bytes) : res bytes :=
  match read_kind il bs with
  | KErr e => Err e 0
  | KOk KByte _ bv rest =>
    if n =? 0 then Err EStrTooLong 0 else if 1 <? n then Err EStrTooShort 0 else Ok [bv] rest 0
  | KOk KString size _ rest =>
    if n <? size then Err EStrTooLong 0
    else if size <? n then Err EStrTooShort 0
    else
      let b := take size rest in
      if (size =? 1) && (bN (hd x00 b) <? 128) then Err ECanonSize 0
      else Ok b (drop size rest) 0
  | KOk KList _ _ _ => Err EExpectedString 0
  end.

(** Stream.Raw: the header is re-created from the declared size *)
Definition dec_raw (il : bool) (bs : bytes) : res bytes :=
  match read_kind il bs with
  | KErr e => Err e 0
  | KOk KByte _ bv rest => Ok [bv] rest 1
  | KOk KString size _ rest =>
    let h := str_head size in Ok (h ++ take size rest) (drop size rest) (len h + size)
  | KOk KList size _ rest =>
    let h := list_head size in Ok (h ++ take size rest) (drop size rest) (len h + size)
  end.

(** decodeSliceElems: decode elements until the window (list payload) is exhausted.  [n] is
    loop fuel (every element consumes at least one byte, so the window length suffices). *)
Fixpoint slice_elems {A} (elem : bytes -> res A) (n : nat) (p : bytes) : res (list A) :=
  match p with
  | [] => Ok [] [] 0
  | _ :: _ =>
    match n with
    | O => Err EFuel 0
    | S n' =>
      bind (elem p) (fun x rest =>
      rmap (cons x) (slice_elems elem n' rest))
    end
  end.

(** decodeListSlice *)
Definition dec_list {A} (elem : bytes -> res A) (il : bool) (bs : bytes) : res (list A) :=
  match read_kind il bs with
  | KErr e => Err e 0
  | KOk KList size _ rest =>
    if size =? 0 then Ok [] rest 0
    else
      let p := take size rest in
      match slice_elems elem (length p) p with
      | Err e a => Err e a
      | Ok xs _ a => Ok xs (drop size rest) a
      end
  | KOk _ _ _ _ => Err EExpectedList 0
  end.

(** decodeInterface: strings become []byte, lists become []interface{} — i.e. an [item].
    [fuel] bounds the nesting depth. *)
Fixpoint dec_item (fuel : nat) (il : bool) (bs : bytes) : res item :=
  match fuel with
  | O => Err EFuel 0
  | S f =>
    match read_kind il bs with
    | KErr e => Err e 0
    | KOk KList _ _ _ => rmap List (dec_list (dec_item f true) il bs)
    | KOk _ _ _ _ => rmap Str (dec_bytes il bs)
    end
  end.

(** the item decoder of the property statement: fuel = input length (+1) *)
Definition decode (bs : bytes) : res item := dec_item (S (length bs)) false bs.

(** DecodeBytes: exactly one value *)
Definition exactly_one {A} (r : res A) : res A :=
  match r with
  | Ok v (_ :: _) a => Err EMoreThanOne a
  | _ => r
  end.
Definition decode_bytes_item (bs : bytes) : res item := exactly_one (decode bs).

(** * raw.go: Split, SplitString, SplitList, SplitUint64, CountValues *)
Inductive rerr := RUnexpectedEOF | RCanonSize | RValueTooLarge | RExpectedString | RExpectedList
                | RCanonInt | RUintOverflow | RFuel.
Inductive rres (A : Type) := ROk (v : A) | RErr (e : rerr).
Arguments ROk {A}. Arguments RErr {A}.

(** readSize *)
Definition raw_read_size (b : bytes) (slen : N) : rres N :=
  if len b <? slen then RErr RUnexpectedEOF
  else
    let s := be_val (take slen b) in
    if (s <? 56) || (bN (hd x00 b) =? 0) then RErr RCanonSize else ROk s.

(** raw.go readKind: (kind, tagsize, contentsize) *)
Definition raw_read_kind (buf : bytes) : rres (kind * N * N) :=
  match buf with
  | [] => RErr RUnexpectedEOF
  | b :: r =>
    let t := bN b in
    let fin (k : kind) (tagsize contentsize : N) :=
      if len buf - tagsize <? contentsize then RErr RValueTooLarge else ROk (k, tagsize, contentsize) in
    if t <? 128 then fin KByte 0 1
    else if t <? 184 then
      let cs := t - 128 in
      if (cs =? 1) && (1 <? len buf) && (bN (hd x00 r) <? 128) then RErr RCanonSize
      else fin KString 1 cs
    else if t <? 192 then
      match raw_read_size r (t - 183) with
      | RErr e => RErr e
      | ROk cs => fin KString (t - 183 + 1) cs
      end
    else if t <? 248 then fin KList 1 (t - 192)
    else
      match raw_read_size r (t - 247) with
      | RErr e => RErr e
      | ROk cs => fin KList (t - 247 + 1) cs
      end
  end.

Definition split (b : bytes) : rres (kind * bytes * bytes) :=
  match raw_read_kind b with
  | RErr e => RErr e
  | ROk (k, ts, cs) => ROk (k, take cs (drop ts b), drop (ts + cs) b)
  end.

Definition split_string (b : bytes) : rres (bytes * bytes) :=
  match split b with
  | RErr e => RErr e
  | ROk (KList, _, _) => RErr RExpectedString
  | ROk (_, c, r) => ROk (c, r)
  end.

Definition split_list (b : bytes) : rres (bytes * bytes) :=
  match split b with
  | RErr e => RErr e
  | ROk (KList, c, r) => ROk (c, r)
  | ROk _ => RErr RExpectedList
  end.

Definition split_uint64 (b : bytes) : rres (N * bytes) :=
  match split_string b with
  | RErr e => RErr e
  | ROk (c, r) =>
    match c with
    | [] => ROk (0, r)
    | [x] => if bN x =? 0 then RErr RCanonInt else ROk (bN x, r)
    | _ =>
      if 8 <? len c then RErr RUintOverflow
      else match raw_read_size c (len c) with
           | RErr _ => RErr RCanonInt
           | ROk x => ROk (x, r)
           end
    end
  end.

Fixpoint count_values_aux (fuel : nat) (b : bytes) (i : N) : rres N :=
  match b with
  | [] => ROk i
  | _ :: _ =>
    match fuel with
    | O => RErr RFuel
    | S f =>
      match raw_read_kind b with
      | RErr e => RErr e
      | ROk (_, ts, cs) => count_values_aux f (drop (ts + cs) b) (i + 1)
      end
    end
  end.
Definition count_values (b : bytes) : rres N := count_values_aux (length b) b 0.

(** AppendUint64, literally: 0 -> 0x80, below 128 the byte itself, else 0x80+k followed by the k
    big-endian bytes *)
Definition append_uint64 (n : N) : bytes :=
  if n =? 0 then [Nb 128]
  else if n <? 128 then [Nb n]
  else let b := be_bytes n in Nb (128 + len b) :: b.

(** intsize / headsize / IntSize / ListSize (the last one in uint64 arithmetic) *)
Definition int_size_raw (n : N) : N := if n =? 0 then 1 else len (be_bytes n).
Definition head_size (size : N) : N := if size <? 56 then 1 else 1 + int_size_raw size.
Definition int_size (n : N) : N := if n <? 128 then 1 else 1 + int_size_raw n.
Definition list_size (n : N) : N := (head_size n + n) mod 18446744073709551616.

(** iterator.go: NewListIterator + Next/Value/Err until Next returns false or an element fails.
    A failing element leaves [data] unchanged and yields the empty value with the error; the
    caller (like the harness) stops there. *)
Fixpoint iter_values (fuel : nat) (data : bytes) : list bytes * option rerr :=
  match data with
  | [] => ([], None)
  | _ :: _ =>
    match fuel with
    | O => ([], Some RFuel)
    | S f =>
      match raw_read_kind data with
      | RErr e => ([], Some e)
      | ROk (_, ts, cs) =>
        let '(vs, e) := iter_values f (drop (ts + cs) data) in (take (ts + cs) data :: vs, e)
      end
    end
  end.
Definition list_iterator (b : bytes) : rres (list bytes * option rerr) :=
  match raw_read_kind b with
  | RErr e => RErr e
  | ROk (KList, ts, cs) => let d := take cs (drop ts b) in ROk (iter_values (length d) d)
  | ROk _ => RErr RExpectedList
  end.

(** * Typed layer *)
Inductive niltag := NoNil | NilAuto | NilString | NilList.
Record tag := mkTag { t_optional : bool; t_tail : bool; t_ignored : bool; t_nil : niltag }.
Definition no_tag : tag := mkTag false false false NoNil.

(** type descriptors; [TBig] is [*big.Int], [TArray n] is [[n]byte], [TBytes] is [[]byte],
    [TRaw] is rlp.RawValue, [TIface] is interface{} *)
Inductive ty :=
| TUint (bits : N) | TBig | TBool | TBytes | TArray (n : N) | TString
| TList (e : ty) | TStruct (fs : fields) | TPtr (e : ty) | TRaw | TIface
with fields := FNil | FCons (t : ty) (tg : tag) (rest : fields).

(** values; [VNil] is a nil slice / nil pointer / nil *big.Int / nil interface;
    [VBytes] serves []byte, [n]byte, string and RawValue; [VUint] serves uints and big ints *)
Inductive val :=
| VNil | VUint (n : N) | VBool (b : bool) | VBytes (b : bytes)
| VList (l : list val) | VStruct (l : list val) | VPtr (v : val) | VItem (x : item).

(** rlpstruct.Type.DefaultNilValue *)
Definition default_nil (e : ty) : kind :=
  match e with
  | TUint _ | TString | TBool | TArray _ | TBytes | TRaw => KString
  | _ => KList
  end.
(** typeNilKind *)
Definition nil_kind (e : ty) (tg : tag) : kind :=
  match t_nil tg with
  | NoNil | NilAuto => default_nil e
  | NilString => KString
  | NilList => KList
  end.
Definition kind_eqb (a b : kind) : bool :=
  match a, b with KByte, KByte | KString, KString | KList, KList => true | _, _ => false end.

Definition is_zero_byte (b : byte) : bool := bN b =? 0.

(** reflect.Zero *)
Fixpoint zero_val (t : ty) : val :=
  match t with
  | TUint _ => VUint 0
  | TBool => VBool false
  | TString => VBytes []
  | TArray n => VBytes (repeat x00 (N.to_nat n))
  | TStruct fs => VStruct (zero_fields fs)
  | _ => VNil
  end
with zero_fields (fs : fields) : list val :=
  match fs with FNil => [] | FCons t _ r => zero_val t :: zero_fields r end.

(** reflect.Value.IsZero *)
Fixpoint is_zero (t : ty) (v : val) : bool :=
  match t, v with
  | _, VNil => true
  | TUint _, VUint n => n =? 0
  | TBool, VBool b => negb b
  | TString, VBytes b => match b with [] => true | _ => false end
  | TArray _, VBytes b => forallb is_zero_byte b
  | TStruct fs, VStruct vs => is_zero_fields fs vs
  | _, _ => false
  end
with is_zero_fields (fs : fields) (vs : list val) : bool :=
  match fs, vs with
  | FNil, _ => true
  | FCons t _ r, v :: vs' => is_zero t v && is_zero_fields r vs'
  | FCons _ _ _, [] => true
  end.

(** makeStructWriter with optional fields: drop the maximal all-zero suffix of the fields at
    or after the first optional one.  [(droppable, encoding)] per encoded field. *)
Fixpoint trim_tail (l : list (bool * bytes)) : list bytes :=
  match l with
  | [] => []
  | (z, e) :: r =>
    match trim_tail r with
    | [] => if z then [] else [e]
    | r' => e :: r'
    end
  end.

(** writers (makeWriter).  Ill-typed (type, value) pairs encode to [[]]; negative big ints
    (ErrNegativeBigInt) are outside the value universe. *)
Fixpoint enc_val (t : ty) (tg : tag) (v : val) {struct t} : bytes :=
  match t with
  | TUint _ | TBig =>
    match v with VUint n => enc_uint n | VNil => [Nb 128] | _ => [] end
  | TBool => match v with VBool true => [Nb 1] | VBool false => [Nb 128] | _ => [] end
  | TBytes => match v with VBytes b => enc_str b | VNil => [Nb 128] | _ => [] end
  | TArray _ | TString => match v with VBytes b => enc_str b | _ => [] end
  | TRaw => match v with VBytes b => b | _ => [] end
  | TIface => match v with VItem x => encode x | VNil => [Nb 192] | _ => [] end
  | TList e =>
    match v with
    | VList l =>
      let p := flat_map (enc_val e no_tag) l in
      if t_tail tg then p else match l with [] => [Nb 192] | _ => enc_list p end
    | VNil => if t_tail tg then [] else [Nb 192]
    | _ => []
    end
  | TPtr e =>
    match v with
    | VPtr w => enc_val e no_tag w
    | VNil => match nil_kind e tg with KString => [Nb 128] | _ => [Nb 192] end
    | _ => []
    end
  | TStruct fs =>
    match v with
    | VStruct vs => enc_list (concat (trim_tail (enc_fields fs false vs)))
    | _ => []
    end
  end
with enc_fields (fs : fields) (inopt : bool) (vs : list val) {struct fs} : list (bool * bytes) :=
  match fs, vs with
  | FCons t tg r, v :: vs' =>
    if t_ignored tg then enc_fields r inopt vs'
    else
      let inopt' := inopt || t_optional tg in
      (inopt' && is_zero t v, enc_val t tg v) :: enc_fields r inopt' vs'
  | _, _ => []
  end.

(** decoders (makeDecoder) on a window *)
Fixpoint dec_val (t : ty) (tg : tag) (il : bool) (bs : bytes) {struct t} : res val :=
  match t with
  | TUint bits => rmap VUint (dec_uint bits il bs)
  | TBig => rmap VUint (dec_big il bs)
  | TBool => rmap VBool (dec_bool il bs)
  | TBytes | TString => rmap VBytes (dec_bytes il bs)
  | TArray n => rmap VBytes (dec_array n il bs)
  | TRaw => rmap VBytes (dec_raw il bs)
  | TIface => rmap VItem (dec_item (S (length bs)) il bs)
  | TList e =>
    if t_tail tg then rmap VList (slice_elems (dec_val e no_tag true) (length bs) bs)
    else rmap VList (dec_list (dec_val e no_tag true) il bs)
  | TPtr e =>
    match t_nil tg with
    | NoNil => rmap VPtr (dec_val e no_tag il bs)
    | _ =>
      match read_kind il bs with
      | KErr er => Err er 0
      | KOk k size _ rest =>
        if negb (kind_eqb k KByte) && (size =? 0) then
          if kind_eqb k (nil_kind e tg) then Ok VNil rest 0 else Err EWrongEmpty 0
        else rmap VPtr (dec_val e no_tag il bs)
      end
    end
  | TStruct fs =>
    match read_kind il bs with
    | KErr er => Err er 0
    | KOk KList size _ rest =>
      match dec_fields fs (take size rest) with
      | Err er a => Err er a
      | Ok vs (_ :: _) a => Err ENotAtEOL a
      | Ok vs [] a => Ok (VStruct vs) (drop size rest) a
      end
    | KOk _ _ _ _ => Err EExpectedList 0
    end
  end
with dec_fields (fs : fields) (p : bytes) {struct fs} : res (list val) :=
  match fs with
  | FNil => Ok [] p 0
  | FCons t tg r =>
    if t_ignored tg then rmap (cons (zero_val t)) (dec_fields r p)
    else if t_tail tg then
      bind (dec_val t tg true p) (fun v rest => rmap (cons v) (dec_fields r rest))
    else
      match p with
      | [] => if t_optional tg then Ok (zero_fields fs) [] 0 else Err ETooFew 0
      | _ :: _ => bind (dec_val t tg true p) (fun v rest => rmap (cons v) (dec_fields r rest))
      end
  end.

(** * The Stream, literally (decode.go): input, stack of list limits, cached kind.

    This second transcription keeps the mutable state of [Stream] as it is: [remaining] is the
    length of [s_in] (DecodeBytes), [s_stack] is the stack of list limits (innermost first),
    [s_cache] is (kind, size, byteval) of the value ahead ([s.kind >= 0]).  It reproduces two
    quirks the window decoder above abstracts from: [Kind] compares the size of a list element
    with the list limit read *before* the element's header was consumed, and [List] subtracts
    the size from the enclosing limit without a check (uint64 wrap).  Both only change which
    error is reported (an input that trips them is never accepted), which is why the error
    classes of the correspondence run are taken from this machine, while acceptance and the
    decoded value are taken from both and must agree. *)
Definition two64 : N := 18446744073709551616.
Record stream := mkS { s_in : bytes; s_stack : list N; s_cache : option (kind * N * byte) }.
Inductive sres (A : Type) := SOk (v : A) (s : stream) | SErr (e : err).
Arguments SOk {A}. Arguments SErr {A}.

Definition sbind {A B} (r : sres A) (f : A -> stream -> sres B) : sres B :=
  match r with SErr e => SErr e | SOk v s => f v s end.
Definition smap {A B} (f : A -> B) (r : sres A) : sres B :=
  match r with SErr e => SErr e | SOk v s => SOk (f v) s end.

Definition rearm (s : stream) : stream := mkS (s_in s) (s_stack s) None.

(** willRead + the read itself *)
Definition s_read_full (n : N) (s : stream) : sres bytes :=
  match s_stack s with
  | l :: r =>
    if l <? n then SErr EElemTooLarge
    else if len (s_in s) <? n then SErr EValueTooLarge
    else SOk (take n (s_in s)) (mkS (drop n (s_in s)) ((l - n) :: r) None)
  | [] =>
    if len (s_in s) <? n then SErr EValueTooLarge
    else SOk (take n (s_in s)) (mkS (drop n (s_in s)) [] None)
  end.

Definition s_read_uint (size : N) (s : stream) : sres N :=
  if size =? 0 then SOk 0 (rearm s)
  else
    sbind (s_read_full size s) (fun b s' =>
    if size =? 1 then SOk (be_val b) s'
    else if bN (hd x00 b) =? 0 then SErr ECanonSize
    else SOk (be_val b) s').

(** readKind *)
Definition s_read_kind (s : stream) : sres (kind * N * byte) :=
  match s_read_full 1 s with
  | SErr e =>
    match s_stack s, e with
    | [], EValueTooLarge => SErr EEOF
    | _, _ => SErr e
    end
  | SOk b1 s1 =>
    let b := hd x00 b1 in
    let t := bN b in
    if t <? 128 then SOk (KByte, 0, b) s1
    else if t <? 184 then SOk (KString, t - 128, x00) s1
    else if t <? 192 then
      sbind (s_read_uint (t - 183) s1) (fun size s2 =>
      if size <? 56 then SErr ECanonSize else SOk (KString, size, x00) s2)
    else if t <? 248 then SOk (KList, t - 192, x00) s1
    else
      sbind (s_read_uint (t - 247) s1) (fun size s2 =>
      if size <? 56 then SErr ECanonSize else SOk (KList, size, x00) s2)
  end.

(** Kind: cached; EOL at the end of the innermost list; size checks against the limit taken
    before the header was read and against the remaining input *)
Definition s_kind (s : stream) : sres (kind * N * byte) :=
  match s_cache s with
  | Some c => SOk c s
  | None =>
    match s_stack s with
    | l :: _ =>
      if l =? 0 then SErr EEOL
      else
        sbind (s_read_kind s) (fun c s' =>
        let '(k, size, bv) := c in
        if l <? size then SErr EElemTooLarge
        else if len (s_in s') <? size then SErr EValueTooLarge
        else SOk c (mkS (s_in s') (s_stack s') (Some c)))
    | [] =>
      sbind (s_read_kind s) (fun c s' =>
      let '(k, size, bv) := c in
      if len (s_in s') <? size then SErr EValueTooLarge
      else SOk c (mkS (s_in s') (s_stack s') (Some c)))
    end
  end.

Definition s_bytes (s : stream) : sres bytes :=
  sbind (s_kind s) (fun c s' =>
  match c with
  | (KByte, _, bv) => SOk [bv] (rearm s')
  | (KString, size, _) =>
    sbind (s_read_full size s') (fun b s'' =>
    if (size =? 1) && (bN (hd x00 b) <? 128) then SErr ECanonSize else SOk b s'')
  | (KList, _, _) => SErr EExpectedString
  end).

Definition s_uint (maxbits : N) (s : stream) : sres N :=
  sbind (s_kind s) (fun c s' =>
  match c with
  | (KByte, _, bv) => if bN bv =? 0 then SErr ECanonInt else SOk (bN bv) (rearm s')
  | (KString, size, _) =>
    if maxbits / 8 <? size then SErr EUintOverflow
    else match s_read_uint size s' with
         | SErr ECanonSize => SErr ECanonInt
         | SErr e => SErr e
         | SOk v s'' => if (0 <? size) && (v <? 128) then SErr ECanonSize else SOk v s''
         end
  | (KList, _, _) => SErr EExpectedString
  end).

Definition s_bool (s : stream) : sres bool :=
  sbind (s_uint 8 s) (fun v s' =>
  if v =? 0 then SOk false s' else if v =? 1 then SOk true s' else SErr EBool).

Definition s_big (s : stream) : sres N :=
  sbind (s_kind s) (fun c s' =>
  match c with
  | (KList, _, _) => SErr EExpectedString
  | (KByte, _, bv) => if bN bv =? 0 then SErr ECanonInt else SOk (bN bv) (rearm s')
  | (KString, size, _) =>
    if size =? 0 then SOk 0 (rearm s')
    else
      sbind (s_read_full size s') (fun b s'' =>
      if (size <=? 32) && (size =? 1) && (bN (hd x00 b) <? 128) then SErr ECanonSize
      else if bN (hd x00 b) =? 0 then SErr ECanonInt
      else SOk (be_val b) s'')
  end).

Definition s_array (n : N) (s : stream) : sres bytes :=
  sbind (s_kind s) (fun c s' =>
  match c with
  | (KByte, _, bv) =>
    if n =? 0 then SErr EStrTooLong else if 1 <? n then SErr EStrTooShort else SOk [bv] (rearm s')
  | (KString, size, _) =>
    if n <? size then SErr EStrTooLong
    else if size <? n then SErr EStrTooShort
    else
      sbind (s_read_full size s') (fun b s'' =>
      if (size =? 1) && (bN (hd x00 b) <? 128) then SErr ECanonSize else SOk b s'')
  | (KList, _, _) => SErr EExpectedString
  end).

Definition s_raw (s : stream) : sres bytes :=
  sbind (s_kind s) (fun c s' =>
  match c with
  | (KByte, _, bv) => SOk [bv] (rearm s')
  | (KString, size, _) => smap (app (str_head size)) (s_read_full size s')
  | (KList, size, _) => smap (app (list_head size)) (s_read_full size s')
  end).

(** List(): the enclosing limit is reduced by the size (uint64 arithmetic), the size is pushed *)
Definition s_list (s : stream) : sres N :=
  sbind (s_kind s) (fun c s' =>
  match c with
  | (KList, size, _) =>
    let st := match s_stack s' with
              | l :: r => ((l + two64 - size) mod two64) :: r
              | [] => []
              end in
    SOk size (mkS (s_in s') (size :: st) None)
  | _ => SErr EExpectedList
  end).

Definition s_list_end (s : stream) : sres unit :=
  match s_stack s with
  | [] => SErr ENotInList (* errNotInList: unreachable from the typed decoders *)
  | l :: r => if 0 <? l then SErr ENotAtEOL else SOk tt (mkS (s_in s) r None)
  end.

(** decodeSliceElems: until the element decoder reports EOL *)
Fixpoint s_slice_elems {A} (elem : stream -> sres A) (n : nat) (s : stream) : sres (list A) :=
  match elem s with
  | SErr EEOL => SOk [] s
  | SErr e => SErr e
  | SOk x s' =>
    match n with
    | O => SErr EFuel
    | S n' => smap (cons x) (s_slice_elems elem n' s')
    end
  end.

Definition s_list_slice {A} (elem : stream -> sres A) (s : stream) : sres (list A) :=
  sbind (s_list s) (fun size s' =>
  if size =? 0 then smap (fun _ => []) (s_list_end s')
  else
    sbind (s_slice_elems elem (length (s_in s')) s') (fun xs s'' =>
    smap (fun _ => xs) (s_list_end s''))).

Fixpoint s_item (fuel : nat) (s : stream) : sres item :=
  match fuel with
  | O => SErr EFuel
  | S f =>
    sbind (s_kind s) (fun c s' =>
    match c with
    | (KList, _, _) => smap List (s_list_slice (s_item f) s')
    | _ => smap Str (s_bytes s')
    end)
  end.

Fixpoint s_val (t : ty) (tg : tag) (s : stream) {struct t} : sres val :=
  match t with
  | TUint bits => smap VUint (s_uint bits s)
  | TBig => smap VUint (s_big s)
  | TBool => smap VBool (s_bool s)
  | TBytes | TString => smap VBytes (s_bytes s)
  | TArray n => smap VBytes (s_array n s)
  | TRaw => smap VBytes (s_raw s)
  | TIface => smap VItem (s_item (S (length (s_in s))) s)
  | TList e =>
    if t_tail tg then smap VList (s_slice_elems (s_val e no_tag) (length (s_in s)) s)
    else smap VList (s_list_slice (s_val e no_tag) s)
  | TPtr e =>
    match t_nil tg with
    | NoNil => smap VPtr (s_val e no_tag s)
    | _ =>
      sbind (s_kind s) (fun c s' =>
      let '(k, size, _) := c in
      if negb (kind_eqb k KByte) && (size =? 0) then
        if kind_eqb k (nil_kind e tg) then SOk VNil (rearm s') else SErr EWrongEmpty
      else smap VPtr (s_val e no_tag s'))
    end
  | TStruct fs =>
    sbind (s_list s) (fun _ s' =>
    sbind (s_fields fs s') (fun vs s'' =>
    smap (fun _ => VStruct vs) (s_list_end s'')))
  end
with s_fields (fs : fields) (s : stream) {struct fs} : sres (list val) :=
  match fs with
  | FNil => SOk [] s
  | FCons t tg r =>
    if t_ignored tg then smap (cons (zero_val t)) (s_fields r s)
    else
      match s_val t tg s with
      | SErr EEOL => if t_optional tg then SOk (zero_fields fs) s else SErr ETooFew
      | SErr e => SErr e
      | SOk v s' => smap (cons v) (s_fields r s')
      end
  end.

(** rlp.DecodeBytes through the literal Stream *)
Definition stream_decode_bytes (t : ty) (bs : bytes) : sres val :=
  match s_val t no_tag (mkS bs [] None) with
  | SErr e => SErr e
  | SOk v s => match s_in s with [] => SOk v s | _ :: _ => SErr EMoreThanOne end
  end.

(** rlp.EncodeToBytes / rlp.DecodeBytes on a type descriptor *)
Definition encode_to_bytes (t : ty) (v : val) : bytes := enc_val t no_tag v.
Definition decode_bytes (t : ty) (bs : bytes) : res val := exactly_one (dec_val t no_tag false bs).

(** * Several top-level values in a row (NewStream(r, 0) + Stream.Decode in a loop, as the
    transaction journal and the snapshot journal do): values until the first error; a clean end
    is io.EOF.  Both transcriptions. *)
Fixpoint stream_decode_seq (t : ty) (fuel : nat) (s : stream) : list val * err :=
  match fuel with
  | O => ([], EFuel)
  | S f =>
    match s_val t no_tag s with
    | SErr e => ([], e)
    | SOk v s' => let '(vs, e) := stream_decode_seq t f s' in (v :: vs, e)
    end
  end.
Definition stream_decode_all (t : ty) (bs : bytes) : list val * err :=
  stream_decode_seq t (S (length bs)) (mkS bs [] None).

Fixpoint decode_seq (t : ty) (fuel : nat) (bs : bytes) : list val * err :=
  match fuel with
  | O => ([], EFuel)
  | S f =>
    match dec_val t no_tag false bs with
    | Err e _ => ([], e)
    | Ok v rest _ => let '(vs, e) := decode_seq t f rest in (v :: vs, e)
    end
  end.
Definition decode_all (t : ty) (bs : bytes) : list val * err := decode_seq t (S (length bs)) bs.

(** * Stream used by hand (custom DecodeRLP methods): one operation at a time *)
Definition s_read_bytes (n : N) (s : stream) : sres bytes :=
  sbind (s_kind s) (fun c s' =>
  match c with
  | (KByte, _, bv) => if n =? 1 then SOk [bv] (rearm s') else SErr EWrongSize
  | (KString, size, _) =>
    if n =? size then
      sbind (s_read_full size s') (fun b s'' =>
      if (size =? 1) && (bN (hd x00 b) <? 128) then SErr ECanonSize else SOk b s'')
    else SErr EWrongSize
  | (KList, _, _) => SErr EExpectedString
  end).

Inductive sop := OKind | OList | OListEnd | OBytes | OUint (bits : N) | OBool | ORaw | OBig
               | OReadBytes (n : N).
Inductive sout := RKind (k : kind) (size : N) | RNum (n : N) | RBytes (b : bytes) | RBool (b : bool)
                | RUnit | RErrOut (e : err).

Definition s_fin {A} (s : stream) (f : A -> sout) (r : sres A) : sout * option stream :=
  match r with
  | SOk v s' => (f v, Some s')
  | SErr EEOL => (RErrOut EEOL, Some s)
  | SErr e => (RErrOut e, None)
  end.

Definition s_step (op : sop) (s : stream) : sout * option stream :=
  let fin {A} := @s_fin A s in
  match op with
  | OKind => fin (fun c : kind * N * byte => let '(k, size, _) := c in RKind k size) (s_kind s)
  | OList => fin RNum (s_list s)
  | OListEnd =>
    match s_list_end s with
    | SOk _ s' => (RUnit, Some s')
    | SErr e => (RErrOut e, Some s)      (* ListEnd does not touch the state when it fails *)
    end
  | OBytes => fin RBytes (s_bytes s)
  | OUint bits => fin RNum (s_uint bits s)
  | OBool => fin RBool (s_bool s)
  | ORaw => fin RBytes (s_raw s)
  | OBig => fin RNum (s_big s)
  | OReadBytes n => fin RBytes (s_read_bytes n s)
  end.

(** the script stops at the first error other than EOL / a failed ListEnd *)
Fixpoint s_script (ops : list sop) (s : stream) : list sout :=
  match ops with
  | [] => []
  | op :: r =>
    match s_step op s with
    | (o, Some s') => o :: s_script r s'
    | (o, None) => [o]
    end
  end.

(** NewStream(bytes.NewReader(b), 0) and NewListStream(bytes.NewReader(b), n) with n <= len b
    (n = 0 leaves the limit to the reader's length) *)
Definition new_stream (bs : bytes) : stream := mkS bs [] None.
Definition new_list_stream (bs : bytes) (n : N) : stream :=
  mkS (if n =? 0 then bs else take n bs) [] (Some (KList, n, x00)).

(** * The encoder's buffer, literally (encbuffer.go): string data without list headers, the
    list headers apart (offset into the string data, size), the running size of all headers.
    [list] opens a header remembering the header bytes written so far in its size field,
    [listEnd] turns that into the payload size and accounts for the header, [copyTo] interleaves.
    The functional encoder above is what the theorems are about; the driver compares the two on
    every EncoderBuffer operation of the harness (statement in C16/Open.v). *)
Record ebuf := mkE { e_str : bytes; e_heads : list (N * N); e_lhsize : N }.
Definition eb_empty : ebuf := mkE [] [] 0.
Definition eb_size (b : ebuf) : N := len (e_str b) + e_lhsize b.
Definition eb_append (d : bytes) (b : ebuf) : ebuf := mkE (e_str b ++ d) (e_heads b) (e_lhsize b).
Definition eb_list (b : ebuf) : ebuf * nat :=
  (mkE (e_str b) (e_heads b ++ [(len (e_str b), e_lhsize b)]) (e_lhsize b), length (e_heads b)).
Fixpoint set_nth {A} (n : nat) (x : A) (l : list A) : list A :=
  match l, n with
  | [], _ => []
  | _ :: r, O => x :: r
  | y :: r, S n' => y :: set_nth n' x r
  end.
Definition eb_list_end (idx : nat) (b : ebuf) : ebuf :=
  let '(off, sz0) := nth idx (e_heads b) (0, 0) in
  let size := eb_size b - off - sz0 in
  mkE (e_str b) (set_nth idx (off, size) (e_heads b)) (e_lhsize b + head_size size).
Fixpoint eb_item (x : item) (b : ebuf) : ebuf :=
  match x with
  | Str s => eb_append (enc_str s) b
  | List l => let '(b1, idx) := eb_list b in eb_list_end idx (fold_left (fun b' y => eb_item y b') l b1)
  end.
Fixpoint eb_copy (heads : list (N * N)) (str : bytes) (strpos : N) : bytes :=
  match heads with
  | [] => drop strpos str
  | (off, size) :: r => take (off - strpos) (drop strpos str) ++ list_head size ++ eb_copy r str off
  end.
Definition eb_bytes (b : ebuf) : bytes := eb_copy (e_heads b) (e_str b) 0.
Definition encode_via_buffer (x : item) : bytes := eb_bytes (eb_item x eb_empty).
