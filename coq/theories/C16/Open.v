(** C16 — statements not (yet) proved.  Only [Definition ..._statement : Prop]; nothing here is
    used by Properties.v.  Each is exercised by the correspondence run (harness + driver). *)
From Coq Require Import List NArith Bool.
From Coq Require Import Init.Byte.
From Kardia Require Import C16.Model.
Import ListNotations.
Local Open Scope N_scope.

(** types without rlp:"optional" anywhere *)
Fixpoint optional_free (t : ty) : Prop :=
  match t with
  | TList e | TPtr e => optional_free e
  | TStruct fs => optional_free_fields fs
  | _ => True
  end
with optional_free_fields (fs : fields) : Prop :=
  match fs with
  | FNil => True
  | FCons t tg r => t_optional tg = false /\ optional_free t /\ optional_free_fields r
  end.

(** full typed canonicity: every optional-free type, every tag (nil/nilString/nilList, tail,
    "-"), big ints, bools, byte arrays, raw values, pointers.  Proved in ProofsTyped.v for
    the core universe only (C16_typed_canonical_partial). *)
Definition typed_canonical_statement : Prop :=
  forall t tg il bs v rest a, optional_free t -> t_optional tg = false ->
    dec_val t tg il bs = Ok v rest a -> bs = enc_val t tg v ++ rest.

(** values in normal form: the ones the decoder can return *)
Fixpoint wf_val (t : ty) (tg : tag) (v : val) {struct t} : Prop :=
  match t, v with
  | TUint bits, VUint n => n < 2 ^ bits
  | TBig, VUint _ => True
  | TBool, VBool _ => True
  | TBytes, VBytes _ | TString, VBytes _ | TRaw, VBytes _ => True
  | TArray n, VBytes b => len b = n
  | TIface, VItem _ => True
  | TList e, VList l => (fix all (l : list val) : Prop :=
                           match l with [] => True | x :: r => wf_val e no_tag x /\ all r end) l
  | TPtr e, VPtr w => wf_val e no_tag w /\
                      (t_nil tg <> NoNil ->
                       enc_val e no_tag w <> [Nb 128] /\ enc_val e no_tag w <> [Nb 192])
  | TPtr _, VNil => t_nil tg <> NoNil
  | TStruct fs, VStruct vs => wf_fields fs vs
  | _, _ => False
  end
with wf_fields (fs : fields) (vs : list val) {struct fs} : Prop :=
  match fs, vs with
  | FNil, [] => True
  | FCons t tg r, v :: vs' =>
    (if t_ignored tg then v = zero_val t else wf_val t tg v) /\ wf_fields r vs'
  | _, _ => False
  end.

(** typed round trip (RawValue fields must hold one well-formed item for this to be true;
    the statement therefore excludes TRaw via [raw_free]) *)
Fixpoint raw_free (t : ty) : Prop :=
  match t with
  | TRaw => False
  | TList e | TPtr e => raw_free e
  | TStruct fs => raw_free_fields fs
  | _ => True
  end
with raw_free_fields (fs : fields) : Prop :=
  match fs with FNil => True | FCons t _ r => raw_free t /\ raw_free_fields r end.

Definition typed_roundtrip_statement : Prop :=
  forall t v il rest, raw_free t -> wf_val t no_tag v ->
    len (enc_val t no_tag v) < two64 ->
    exists a, dec_val t no_tag il (enc_val t no_tag v ++ rest) = Ok v rest a.

(** the literal Stream machine and the window decoder accept the same inputs with the same
    value (the driver checks this on every generated input) *)
Definition stream_refines_window_statement : Prop :=
  forall t bs v,
    (exists s, stream_decode_bytes t bs = SOk v s) <-> (exists a, decode_bytes t bs = Ok v [] a).

(** raw.go agrees with the decoder on the first value *)
Definition split_encode_statement : Prop :=
  forall x rest, len (encode x) < two64 ->
    exists k c, split (encode x ++ rest) = ROk (k, c, rest) /\
      match x with
      | Str b => k <> KList /\ c = b
      | List l => k = KList /\ c = flat_map encode l
      end.

Definition count_values_statement : Prop :=
  forall l, len (flat_map encode l) < two64 ->
    count_values (flat_map encode l) = ROk (len l).

(** allocation bound for the typed decoder (proved for the item decoder: C16_size_bound) *)
Definition typed_size_bound_statement : Prop :=
  forall t tg il bs,
    match dec_val t tg il bs with
    | Ok _ rest alloc => alloc + len rest <= len bs
    | Err _ alloc => alloc <= len bs
    end.
