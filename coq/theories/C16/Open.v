(** C16 — statements not (yet) proved.  Only [Definition ..._statement : Prop]; nothing here is
    used by Properties.v.  Each is exercised by the correspondence run (harness + driver).
    (Proved since round 1 and moved to Properties.v: full typed canonicity for optional-free
    types, the typed round trip for normal-form values, Split/CountValues against the encoder, the typed allocation bound.) *)
From Coq Require Import List NArith Bool.
From Coq Require Import Init.Byte.
From Kardia Require Import C16.Model.
Import ListNotations.
Local Open Scope N_scope.

(** the literal Stream machine and the window decoder accept the same inputs with the same
    value (the driver checks this on every generated input) *)
Definition stream_refines_window_statement : Prop :=
  forall t bs v,
    (exists s, stream_decode_bytes t bs = SOk v s) <-> (exists a, decode_bytes t bs = Ok v [] a).
