(** C16 — statements not (yet) proved.  Only [Definition ..._statement : Prop]; nothing here is
    used by Properties.v.
    Nothing is open at present.  Proved and moved to Properties.v: full typed canonicity for
    optional-free types, the typed round trip for normal-form values, Split/CountValues against
    the encoder, the typed allocation bound; round 4: the literal Stream machine against the
    window decoder (C16_stream_refines_window, for descriptors whose tail tags sit on slices and
    inputs below 2^64 bytes; the statement without that restriction is refuted,
    C16_stream_refines_window_illformed_refuted) and the literal encoder buffer against the
    functional encoder (C16_encbuffer_refines_encode).
    Outside the model (see props/C16.json): reflect/typecache dispatch, io.Reader streaming without
    an input limit, Stream operations issued by hand after an error (the correspondence run
    stops a script at the first error other than EOL). *)
From Coq Require Import List NArith Bool.
From Kardia Require Import C16.Model.
