(** C16 — typed round trip: dec_val t (enc_val t v ++ rest) = v for values in normal form
    ([wf_val]), over the whole type universe, tags included. *)
From Coq Require Import List ZArith NArith Bool Lia Arith.
From Coq Require Import Init.Byte.
From Kardia Require Import C16.Model C16.ProofsBase C16.ProofsItem C16.Proofs C16.ProofsTyped.
Import ListNotations.
Local Open Scope N_scope.
Ltac Zify.zify_post_hook ::= Z.to_euclidean_division_equations.

(** ** normal-form values *)

(** a RawValue holding exactly one item header + payload (content not inspected) *)
Definition raw_shape (b : bytes) : Prop :=
  (exists x, b = [x] /\ bN x < 128) \/
  (exists p, fits64 (len p) /\ (b = str_head (len p) ++ p \/ b = list_head (len p) ++ p)).

(** the encoding does not start with an empty-string / empty-list header *)
Definition not_empty_enc (b : bytes) : Prop :=
  forall x r, b = x :: r -> bN x <> 128 /\ bN x <> 192.

Fixpoint all_ignored_zero (fs : fields) (vs : list val) : Prop :=
  match fs with
  | FNil => vs = []
  | FCons t tg r => exists vs', vs = zero_val t :: vs' /\ t_ignored tg = true /\ all_ignored_zero r vs'
  end.

(** [wf_val t tg v]: v is a value the decoder of (t, tg) can return and re-create:
    uints fit their width; no nil slices / big ints / interfaces; a nil pointer only under a
    nil tag, and then a non-nil pointer does not point to something with an empty encoding;
    ignored fields are zero.  [wf_fields] also carries the validity of the struct type
    (rlpstruct.ProcessFields): after the first optional field every field is optional or the
    tail; the tail is a slice, is not optional, and only ignored fields follow it. *)
Fixpoint wf_val (t : ty) (tg : tag) (v : val) {struct t} : Prop :=
  match t with
  | TUint bits => exists n, v = VUint n /\ n < 256 ^ (bits / 8)
  | TBig => exists n, v = VUint n
  | TBool => exists b, v = VBool b
  | TBytes | TString => exists b, v = VBytes b
  | TArray n => exists b, v = VBytes b /\ len b = n
  | TRaw => exists b, v = VBytes b /\ raw_shape b
  | TIface => exists x, v = VItem x
  | TList e => exists l, v = VList l /\ Forall (wf_val e no_tag) l
  | TPtr e =>
    (v = VNil /\ t_nil tg <> NoNil) \/
    (exists w, v = VPtr w /\ wf_val e no_tag w /\
               (t_nil tg <> NoNil -> not_empty_enc (enc_val e no_tag w)))
  | TStruct fs => exists vs, v = VStruct vs /\ wf_fields fs false vs
  end
with wf_fields (fs : fields) (io : bool) (vs : list val) {struct fs} : Prop :=
  match fs with
  | FNil => vs = []
  | FCons t tg r =>
    exists v vs', vs = v :: vs' /\
    if t_ignored tg then v = zero_val t /\ wf_fields r io vs'
    else if t_tail tg then
      t_optional tg = false /\ (exists e, t = TList e) /\ wf_val t tg v /\ all_ignored_zero r vs'
    else
      (io = true -> t_optional tg = true) /\ wf_val t tg v /\ wf_fields r (io || t_optional tg) vs'
  end.

(** ** integers *)
Lemma be_bytes_len_le n k : n < 256 ^ k -> len (be_bytes n) <= k.
Proof.
  intros Hn.
  destruct (be_bytes n) as [|b r] eqn:E; [cbn; lia|].
  assert (Hn0 : n <> 0) by (intro; subst; discriminate).
  pose proof (be_bytes_hd n Hn0) as Hhd. rewrite E in Hhd. cbn [hd] in Hhd.
  pose proof (be_val_lower b r Hhd) as Hlow. rewrite <- E, be_val_bytes in Hlow.
  rewrite len_cons.
  destruct (N.le_gt_cases (1 + len r) k) as [|Hgt]; [assumption|exfalso].
  assert (256 ^ k <= 256 ^ len r) by (apply N.pow_le_mono_r; lia). lia.
Qed.

Lemma read_uint_be il n rest :
  read_uint il (len (be_bytes n)) (be_bytes n ++ rest) = UOk n rest.
Proof.
  unfold read_uint.
  destruct (N.eqb_spec (len (be_bytes n)) 0) as [E0|Hnz].
  - apply len_0 in E0. rewrite E0. apply be_bytes_nil in E0. subst. reflexivity.
  - rewrite len_app. destruct (N.ltb_spec (len (be_bytes n) + len rest) (len (be_bytes n))); [lia|].
    rewrite take_app_len, drop_app_len, be_val_bytes.
    destruct (N.eqb_spec (len (be_bytes n)) 1); [reflexivity|].
    destruct (N.eqb_spec (bN (hd x00 (be_bytes n))) 0) as [Hz|]; [|reflexivity].
    exfalso. revert Hz. apply be_bytes_hd. intro; subst. apply Hnz. reflexivity.
Qed.

Lemma be_bytes_single n x : be_bytes n = [x] -> n = bN x.
Proof. intros E. rewrite <- (be_val_bytes n), E. apply be_val_single. Qed.

Lemma be_bytes_small n : n <> 0 -> n < 256 -> exists x, be_bytes n = [x] /\ bN x = n.
Proof.
  intros Hn0 Hn.
  pose proof (be_bytes_len_le n 1 ltac:(change (256 ^ 1) with 256; lia)) as Hle.
  pose proof (be_bytes_len_pos n Hn0) as Hge.
  destruct (be_bytes n) as [|x [|y l]] eqn:E.
  - cbn in Hge. lia.
  - exists x. split; [reflexivity|]. symmetry. apply be_bytes_single. exact E.
  - rewrite !len_cons in Hle. lia.
Qed.

Lemma fits64_le a b : a <= b -> fits64 b -> fits64 a.
Proof. unfold fits64. lia. Qed.

Lemma dec_uint_enc bits il n rest :
  n < 256 ^ (bits / 8) -> fits64 (len (enc_uint n)) ->
  dec_uint bits il (enc_uint n ++ rest) = Ok n rest 0.
Proof.
  intros Hn Hf. unfold enc_uint in *.
  assert (Hfb : fits64 (len (be_bytes n))) by (eapply fits64_le; [apply len_enc_str_ge|exact Hf]).
  pose proof (be_bytes_len_le n _ Hn) as Hle.
  destruct (enc_str_cases (be_bytes n)) as [(x & E & Hx & ->)|(Hne & ->)].
  - cbn [app]. unfold dec_uint. rewrite read_kind_byte by assumption.
    pose proof (be_bytes_single _ _ E) as En. subst n.
    destruct (N.eqb_spec (bN x) 0) as [Hz|]; [|reflexivity].
    exfalso. rewrite Hz in E. discriminate E.
  - rewrite <- app_assoc. unfold dec_uint.
    rewrite read_kind_str_head by (rewrite ?len_app; unfold fits64 in *; lia).
    destruct (N.ltb_spec (bits / 8) (len (be_bytes n))); [lia|].
    rewrite read_uint_be.
    destruct (N.ltb_spec 0 (len (be_bytes n))) as [Hpos|]; cbn [andb]; [|reflexivity].
    destruct (N.ltb_spec n 128) as [Hsmall|]; [|reflexivity].
    exfalso.
    assert (Hn0 : n <> 0) by (intro; subst; cbn in Hpos; lia).
    destruct (be_bytes_small n Hn0 ltac:(lia)) as (x & E & Hx).
    specialize (Hne x E). lia.
Qed.

Lemma dec_big_enc il n rest :
  fits64 (len (enc_uint n)) -> exists a, dec_big il (enc_uint n ++ rest) = Ok n rest a.
Proof.
  intros Hf. unfold enc_uint in *.
  assert (Hfb : fits64 (len (be_bytes n))) by (eapply fits64_le; [apply len_enc_str_ge|exact Hf]).
  destruct (enc_str_cases (be_bytes n)) as [(x & E & Hx & ->)|(Hne & ->)].
  - cbn [app]. unfold dec_big. rewrite read_kind_byte by assumption.
    pose proof (be_bytes_single _ _ E) as En. subst n.
    destruct (N.eqb_spec (bN x) 0) as [Hz|]; [|eauto].
    exfalso. rewrite Hz in E. discriminate E.
  - rewrite <- app_assoc. unfold dec_big.
    rewrite read_kind_str_head by (rewrite ?len_app; unfold fits64 in *; lia).
    destruct (N.eqb_spec (len (be_bytes n)) 0) as [E0|Hnz].
    + apply len_0 in E0. rewrite E0. apply be_bytes_nil in E0. subst. cbn [app]. eauto.
    + rewrite take_app_len, drop_app_len, be_val_bytes.
      assert (Hn0 : n <> 0) by (intro; subst; apply Hnz; reflexivity).
      pose proof (be_bytes_hd n Hn0) as Hhd.
      destruct (N.eqb_spec (bN (hd x00 (be_bytes n))) 0); [contradiction|].
      destruct (N.eqb_spec (len (be_bytes n)) 1) as [E1|]; cbn [andb]; [|eauto].
      destruct (be_bytes n) as [|x [|y l]] eqn:E; try (rewrite ?len_cons in E1; lia); try (cbn in E1; lia).
      specialize (Hne x eq_refl). cbn [hd].
      destruct (N.ltb_spec (bN x) 128); [lia|]. eauto.
Qed.

Lemma dec_bool_enc il (b : bool) rest :
  dec_bool il ((if b then [Nb 1] else [Nb 128]) ++ rest) = Ok b rest 0.
Proof.
  unfold dec_bool. destruct b.
  - change [Nb 1] with (enc_uint 1). rewrite (dec_uint_enc 8 il 1 rest); [reflexivity|cbn; lia|vm_compute; reflexivity].
  - change [Nb 128] with (enc_uint 0). rewrite (dec_uint_enc 8 il 0 rest); [reflexivity|cbn; lia|vm_compute; reflexivity].
Qed.

Lemma dec_array_enc il b rest :
  fits64 (len b) -> dec_array (len b) il (enc_str b ++ rest) = Ok b rest 0.
Proof.
  intros Hf. destruct (enc_str_cases b) as [(x & -> & Hx & ->)|(Hne & ->)].
  - cbn [app]. unfold dec_array. rewrite read_kind_byte by assumption. reflexivity.
  - rewrite <- app_assoc. unfold dec_array.
    rewrite read_kind_str_head by (rewrite ?len_app; unfold fits64 in *; lia).
    rewrite N.ltb_irrefl. rewrite take_app_len, drop_app_len.
    destruct (N.eqb_spec (len b) 1) as [E1|]; cbn [andb]; [|reflexivity].
    destruct b as [|x [|y l]]; try (cbn in E1; rewrite ?len_cons in E1; lia).
    specialize (Hne x eq_refl). cbn [hd].
    destruct (N.ltb_spec (bN x) 128); [lia|]. reflexivity.
Qed.

Lemma dec_raw_enc il b rest : raw_shape b -> exists a, dec_raw il (b ++ rest) = Ok b rest a.
Proof.
  intros [(x & -> & Hx)|(p & Hf & [->| ->])]; unfold dec_raw.
  - cbn [app]. rewrite read_kind_byte by assumption. eauto.
  - rewrite <- app_assoc. rewrite read_kind_str_head by (rewrite ?len_app; unfold fits64 in *; lia).
    rewrite take_app_len, drop_app_len. eauto.
  - rewrite <- app_assoc. rewrite read_kind_list_head by (rewrite ?len_app; unfold fits64 in *; lia).
    rewrite take_app_len, drop_app_len. eauto.
Qed.

(** ** auxiliary facts about the typed layer *)
Lemma nil_kind_cases e tg : nil_kind e tg = KString \/ nil_kind e tg = KList.
Proof. unfold nil_kind, default_nil. destruct (t_nil tg), e; auto. Qed.

Lemma read_kind_not_empty il x r k size bv rest :
  read_kind il (x :: r) = KOk k size bv rest -> bN x <> 128 -> bN x <> 192 ->
  negb (kind_eqb k KByte) && (size =? 0) = false.
Proof.
  intros Ek H1 H2. apply read_kind_canon in Ek.
  destruct (N.eqb_spec size 0) as [->|]; [|rewrite andb_false_r; reflexivity].
  inversion Ek; subst; [reflexivity| |];
    match goal with E : _ :: _ = _ |- _ => cbn in E; injection E as -> _ end;
    exfalso; [apply H1|apply H2]; first [reflexivity | apply bN_Nb; lia].
Qed.

(** every typed decoder (without a tail tag) starts by reading a header *)
Lemma dec_val_ok_kind : forall t il bs v rest a,
  dec_val t no_tag il bs = Ok v rest a -> exists k size bv r, read_kind il bs = KOk k size bv r.
Proof.
  assert (Hk : forall il bs, (exists e, read_kind il bs = KErr e) \/
                             (exists k size bv r, read_kind il bs = KOk k size bv r)).
  { intros il bs. destruct (read_kind il bs); eauto 6. }
  induction t; intros il bs v rest a HH; cbn [dec_val no_tag t_tail t_nil] in HH;
    try (destruct (Hk il bs) as [(e0 & Ee)|Hok]; [exfalso|exact Hok]).
  - unfold dec_uint in HH. rewrite Ee in HH. discriminate.
  - unfold dec_big in HH. rewrite Ee in HH. discriminate.
  - unfold dec_bool, dec_uint in HH. rewrite Ee in HH. discriminate.
  - unfold dec_bytes in HH. rewrite Ee in HH. discriminate.
  - unfold dec_array in HH. rewrite Ee in HH. discriminate.
  - unfold dec_bytes in HH. rewrite Ee in HH. discriminate.
  - unfold dec_list in HH. rewrite Ee in HH. discriminate.
  - rewrite Ee in HH. discriminate.
  - apply rmap_ok in HH. destruct HH as (w & Hd & _).
    destruct (IHt _ _ _ _ _ Hd) as (k & size & bv & r & Ek). rewrite Ek in Ee. discriminate Ee.
  - unfold dec_raw in HH. rewrite Ee in HH. discriminate.
  - cbn [dec_item] in HH. rewrite Ee in HH. discriminate.
Qed.

Lemma forallb_zero_repeat b : forallb is_zero_byte b = true -> b = repeat x00 (length b).
Proof.
  induction b as [|x b IH]; [reflexivity|]. cbn [forallb]. intros HH.
  apply andb_prop in HH. destruct HH as [Hx Hb]. cbn [length repeat]. f_equal; [|apply IH; exact Hb].
  unfold is_zero_byte in Hx. apply N.eqb_eq in Hx. apply bN_inj. exact Hx.
Qed.

Definition zero_at (t : ty) : Prop :=
  forall tg v, wf_val t tg v -> is_zero t v = true -> v = zero_val t.
Definition zero_fields_at (fs : fields) : Prop :=
  forall io vs, wf_fields fs io vs -> is_zero_fields fs vs = true -> vs = zero_fields fs.

Lemma zero_mut : (forall t, zero_at t) /\ (forall fs, zero_fields_at fs).
Proof.
  apply ty_fields_ind; unfold zero_at, zero_fields_at.
  - intros bits tg v (n & -> & _) HH. cbn in HH. apply N.eqb_eq in HH. subst. reflexivity.
  - intros tg v (n & ->) HH. discriminate HH.
  - intros tg v (b & ->) HH. destruct b; [discriminate HH|reflexivity].
  - intros tg v (b & ->) HH. discriminate HH.
  - intros n tg v (b & -> & Hl) HH. cbn in HH. apply forallb_zero_repeat in HH.
    cbn [zero_val]. rewrite <- Hl. unfold len. rewrite Nat2N.id. f_equal. exact HH.
  - intros tg v (b & ->) HH. destruct b; [reflexivity|discriminate HH].
  - intros e _ tg v (l & -> & _) HH. discriminate HH.
  - intros fs IH tg v (vs & -> & Hw) HH. cbn in HH. cbn [zero_val]. f_equal. eapply IH; eassumption.
  - intros e _ tg v [(-> & _)|(w & -> & _)] HH; [reflexivity|discriminate HH].
  - intros tg v (b & -> & _) HH. discriminate HH.
  - intros tg v (x & ->) HH. discriminate HH.
  - intros io vs Hw _. cbn in Hw. subst. reflexivity.
  - intros t IHt tg r IHr io vs Hw HH. cbn [wf_fields] in Hw.
    destruct Hw as (v & vs' & -> & Hw). cbn [is_zero_fields] in HH.
    apply andb_prop in HH. destruct HH as [Hz Hzr]. cbn [zero_fields].
    destruct (t_ignored tg).
    + destruct Hw as [-> Hw]. f_equal. eapply IHr; eassumption.
    + destruct (t_tail tg).
      * destruct Hw as (_ & (e & ->) & (l & -> & _) & _). discriminate Hz.
      * destruct Hw as (_ & Hwv & Hwr). f_equal; [eapply IHt|eapply IHr]; eassumption.
Qed.

Lemma enc_nonempty : forall t tg v, wf_val t tg v -> t_tail tg = false -> enc_val t tg v <> [].
Proof.
  induction t; intros tg v Hw Ht; cbn [wf_val] in Hw; cbn [enc_val].
  - destruct Hw as (n & -> & _). apply enc_str_nonempty.
  - destruct Hw as (n & ->). apply enc_str_nonempty.
  - destruct Hw as (b & ->). destruct b; discriminate.
  - destruct Hw as (b & ->). apply enc_str_nonempty.
  - destruct Hw as (b & -> & _). apply enc_str_nonempty.
  - destruct Hw as (b & ->). apply enc_str_nonempty.
  - destruct Hw as (l & -> & _). rewrite Ht. destruct l; [discriminate|].
    unfold enc_list, list_head, head. destruct (_ <? 56); discriminate.
  - destruct Hw as (vs & -> & _). unfold enc_list, list_head, head. destruct (_ <? 56); discriminate.
  - destruct Hw as [(-> & _)|(w & -> & Hw & _)].
    + destruct (nil_kind t tg); discriminate.
    + apply IHt; [exact Hw|reflexivity].
  - destruct Hw as (b & -> & [(x & -> & _)|(p & _ & [->| ->])]); [discriminate| |];
      unfold str_head, list_head, head; destruct (_ <? 56); discriminate.
  - destruct Hw as (x & ->). apply encode_nonempty.
Qed.

(** fields that are all ignored *)
Lemma all_ignored_enc r : forall io vs, all_ignored_zero r vs -> enc_fields r io vs = [].
Proof.
  induction r as [|t tg r IH]; intros io vs Hw; cbn in Hw.
  - subst. reflexivity.
  - destruct Hw as (vs' & -> & Hi & Hw). cbn [enc_fields]. rewrite Hi. apply IH. exact Hw.
Qed.

Lemma all_ignored_dec r : forall vs p, all_ignored_zero r vs -> dec_fields r p = Ok vs p 0.
Proof.
  induction r as [|t tg r IH]; intros vs p Hw; cbn in Hw.
  - subst. reflexivity.
  - destruct Hw as (vs' & -> & Hi & Hw). cbn [dec_fields]. rewrite Hi. rewrite (IH vs' p Hw). reflexivity.
Qed.

(** when every remaining field has been dropped by the encoder, the decoder re-creates them as
    zero values at the end of the list *)
Lemma all_dropped r : forall io vs,
  wf_fields r io vs -> trim_tail (enc_fields r io vs) = [] ->
  vs = zero_fields r /\ dec_fields r [] = Ok (zero_fields r) [] 0.
Proof.
  induction r as [|t tg r IH]; intros io vs Hw HT; cbn [wf_fields] in Hw.
  - subst. split; reflexivity.
  - destruct Hw as (v & vs' & -> & Hw). cbn [enc_fields dec_fields zero_fields] in *.
    destruct (t_ignored tg).
    + destruct Hw as [-> Hw]. destruct (IH io vs' Hw HT) as [-> Hd]. rewrite Hd. split; reflexivity.
    + destruct (t_tail tg) eqn:Et.
      * exfalso. destruct Hw as (_ & (e & ->) & (l & -> & _) & _).
        cbn [is_zero] in HT. rewrite andb_false_r in HT. cbn [trim_tail] in HT.
        destruct (trim_tail _); discriminate HT.
      * destruct Hw as (Hio & Hwv & Hwr). cbn [trim_tail] in HT.
        destruct (trim_tail (enc_fields r (io || t_optional tg) vs')) eqn:ER; [|discriminate HT].
        destruct ((io || t_optional tg) && is_zero t v) eqn:Ez; [|discriminate HT].
        apply andb_prop in Ez. destruct Ez as [Hio' Hz].
        assert (Hopt : t_optional tg = true).
        { destruct io; [apply Hio; reflexivity|exact Hio']. }
        rewrite Hopt. destruct (IH _ vs' Hwr ER) as [-> _].
        rewrite (proj1 zero_mut t tg v Hwv Hz). split; reflexivity.
Qed.

(** ** the round trip *)
Definition rt_at (t : ty) : Prop :=
  forall tg v il rest, wf_val t tg v -> fits64 (len (enc_val t tg v)) ->
    (t_tail tg = false \/ rest = []) ->
    exists a, dec_val t tg il (enc_val t tg v ++ rest) = Ok v rest a.
Definition rt_fields_at (fs : fields) : Prop :=
  forall io vs, wf_fields fs io vs ->
    fits64 (len (concat (trim_tail (enc_fields fs io vs)))) ->
    exists a, dec_fields fs (concat (trim_tail (enc_fields fs io vs))) = Ok vs [] a.

Lemma rmap_ex {A B} (g : A -> B) (r : res A) v rest :
  (exists a, r = Ok v rest a) -> exists a, rmap g r = Ok (g v) rest a.
Proof. intros [a ->]. cbn. eauto. Qed.

Lemma len_enc_list_gt p : len p < len (enc_list p).
Proof. unfold enc_list. rewrite len_app. unfold list_head, head. destruct (_ <? 56); rewrite len_cons; lia. Qed.

Lemma ptr_nil_enc e tg v il rest
  (IH : forall w, v = VPtr w -> wf_val e no_tag w ->
        exists a, dec_val e no_tag il (enc_val e no_tag w ++ rest) = Ok w rest a) :
  wf_val (TPtr e) tg v -> t_nil tg <> NoNil ->
  exists a,
    match read_kind il (enc_val (TPtr e) tg v ++ rest) with
    | KErr er => Err er 0
    | KOk k size _ rest' =>
      if negb (kind_eqb k KByte) && (size =? 0) then
        if kind_eqb k (nil_kind e tg) then Ok VNil rest' 0 else Err EWrongEmpty 0
      else rmap VPtr (dec_val e no_tag il (enc_val (TPtr e) tg v ++ rest))
    end = Ok v rest a.
Proof.
  intros Hw Hn. cbn [wf_val] in Hw. destruct Hw as [(-> & _)|(w & -> & Hw & Hne)].
  - cbn [enc_val]. destruct (nil_kind_cases e tg) as [Ek|Ek]; rewrite Ek.
    + change [Nb 128] with (str_head 0).
      rewrite read_kind_str_head by (unfold fits64, two64; lia). cbn. eauto.
    + change [Nb 192] with (list_head 0).
      rewrite read_kind_list_head by (unfold fits64, two64; lia). cbn. eauto.
  - cbn [enc_val]. destruct (IH w eq_refl Hw) as [a Hd].
    destruct (dec_val_ok_kind _ _ _ _ _ _ Hd) as (k & size & bv & r & Ek). rewrite Ek.
    pose proof (enc_nonempty e no_tag w Hw eq_refl) as Hnn.
    destruct (enc_val e no_tag w) as [|x r0] eqn:Ee; [contradiction|].
    destruct (Hne Hn x r0 eq_refl) as [H1 H2].
    cbn [app] in Ek. rewrite (read_kind_not_empty _ _ _ _ _ _ _ Ek H1 H2).
    rewrite Hd. cbn. eauto.
Qed.

Lemma typed_rt_mut : (forall t, rt_at t) /\ (forall fs, rt_fields_at fs).
Proof.
  apply ty_fields_ind; unfold rt_at, rt_fields_at.
  - (* TUint *) intros bits tg v il rest (n & -> & Hn) Hf _. cbn [enc_val dec_val] in *.
    rewrite dec_uint_enc by assumption. cbn. eauto.
  - (* TBig *) intros tg v il rest (n & ->) Hf _. cbn [enc_val dec_val] in *.
    apply rmap_ex. apply dec_big_enc. exact Hf.
  - (* TBool *) intros tg v il rest (b & ->) Hf _. cbn [dec_val].
    replace (enc_val TBool tg (VBool b)) with (if b then [Nb 1] else [Nb 128]) by (destruct b; reflexivity).
    rewrite dec_bool_enc. cbn. eauto.
  - (* TBytes *) intros tg v il rest (b & ->) Hf _. cbn [enc_val dec_val] in *.
    apply rmap_ex. apply dec_bytes_enc. eapply fits64_le; [apply len_enc_str_ge|exact Hf].
  - (* TArray *) intros n tg v il rest (b & -> & <-) Hf _. cbn [enc_val dec_val] in *.
    rewrite dec_array_enc by (eapply fits64_le; [apply len_enc_str_ge|exact Hf]). cbn. eauto.
  - (* TString *) intros tg v il rest (b & ->) Hf _. cbn [enc_val dec_val] in *.
    apply rmap_ex. apply dec_bytes_enc. eapply fits64_le; [apply len_enc_str_ge|exact Hf].
  - (* TList *) intros e IH tg v il rest (l & -> & Hall) Hf Hrest. cbn [enc_val dec_val] in *.
    assert (Helem : forall p : bytes, fits64 (len p) -> len (flat_map (enc_val e no_tag) l) <= len p ->
              forall x, In x l -> enc_val e no_tag x <> [] /\
                forall rest0, exists a, dec_val e no_tag true (enc_val e no_tag x ++ rest0) = Ok x rest0 a).
    { intros p Hfp Hle x Hx. rewrite Forall_forall in Hall. split.
      - apply enc_nonempty; [apply Hall; exact Hx|reflexivity].
      - intros rest0. apply IH; [apply Hall; exact Hx| |left; reflexivity].
        pose proof (in_flat_map_len (enc_val e no_tag) x l Hx). unfold fits64 in *. lia. }
    destruct (t_tail tg) eqn:Et.
    + destruct Hrest as [Hc| ->]; [discriminate Hc|]. rewrite app_nil_r. apply rmap_ex.
      apply slice_elems_enc; [|apply le_n]. apply (Helem _ Hf). lia.
    + apply rmap_ex.
      assert (Hfp : fits64 (len (flat_map (enc_val e no_tag) l))).
      { destruct l as [|x l']; [unfold fits64, two64; cbn; lia|].
        pose proof (len_enc_list_gt (flat_map (enc_val e no_tag) (x :: l'))). unfold fits64 in *. lia. }
      assert (Hgoal : exists a, dec_list (dec_val e no_tag true) il
                        (enc_list (flat_map (enc_val e no_tag) l) ++ rest) = Ok l rest a).
      { apply dec_list_enc; [|exact Hfp]. apply (Helem _ Hfp). lia. }
      destruct l; exact Hgoal.
  - (* TStruct *) intros fs IH tg v il rest (vs & -> & Hw) Hf _. cbn [enc_val dec_val] in *.
    set (P := concat (trim_tail (enc_fields fs false vs))) in *.
    pose proof (len_enc_list_gt P) as Hgt.
    assert (HfP : fits64 (len P)) by (unfold fits64 in *; lia).
    unfold enc_list. rewrite <- app_assoc.
    rewrite read_kind_list_head by (rewrite ?len_app; unfold fits64 in *; lia).
    rewrite take_app_len, drop_app_len.
    destruct (IH false vs Hw HfP) as [a Hd]. fold P in Hd. rewrite Hd. eauto.
  - (* TPtr *) intros e IH tg v il rest Hw Hf _.
    assert (IHw : forall w, v = VPtr w -> wf_val e no_tag w ->
              exists a, dec_val e no_tag il (enc_val e no_tag w ++ rest) = Ok w rest a).
    { intros w -> Hww. apply IH; [exact Hww| |left; reflexivity]. exact Hf. }
    cbn [dec_val]. destruct (t_nil tg) eqn:En.
    + cbn [wf_val] in Hw. destruct Hw as [(_ & Hc)|(w & -> & Hww & _)]; [rewrite En in Hc; contradiction|].
      cbn [enc_val]. apply rmap_ex. apply IHw; [reflexivity|exact Hww].
    + apply ptr_nil_enc; [exact IHw|exact Hw|rewrite En; discriminate].
    + apply ptr_nil_enc; [exact IHw|exact Hw|rewrite En; discriminate].
    + apply ptr_nil_enc; [exact IHw|exact Hw|rewrite En; discriminate].
  - (* TRaw *) intros tg v il rest (b & -> & Hs) Hf _. cbn [enc_val dec_val] in *.
    apply rmap_ex. apply dec_raw_enc. exact Hs.
  - (* TIface *) intros tg v il rest (x & ->) Hf _. cbn [enc_val dec_val] in *.
    apply rmap_ex. apply dec_item_enc; [rewrite app_length; lia|exact Hf].
  - (* FNil *) intros io vs Hw _. cbn in Hw. subst. cbn. eauto.
  - (* FCons *) intros t IHt tg r IHr io vs Hw Hf. cbn [wf_fields] in Hw.
    destruct Hw as (v & vs' & -> & Hw). cbn [enc_fields dec_fields] in *.
    destruct (t_ignored tg).
    + destruct Hw as [-> Hw]. apply rmap_ex. apply IHr; assumption.
    + destruct (t_tail tg) eqn:Et.
      * destruct Hw as (Hopt & (e & ->) & Hwv & Hign).
        rewrite (all_ignored_enc r _ vs' Hign) in *.
        destruct Hwv as (l & -> & Hall). cbn [is_zero] in *. rewrite andb_false_r in *.
        cbn [trim_tail concat] in *. rewrite app_nil_r in *.
        destruct (IHt tg (VList l) true [] (ex_intro _ l (conj eq_refl Hall)) Hf (or_intror eq_refl)) as [a Hd].
        rewrite app_nil_r in Hd. rewrite Hd. cbn [bind].
        rewrite (all_ignored_dec r vs' [] Hign). cbn. eauto.
      * destruct Hw as (Hio & Hwv & Hwr).
        pose proof (enc_nonempty t tg v Hwv Et) as Hne.
        cbn [trim_tail] in *.
        destruct (trim_tail (enc_fields r (io || t_optional tg) vs')) as [|e1 R] eqn:ER.
        { destruct ((io || t_optional tg) && is_zero t v) eqn:Ez.
          - (* everything from here on was dropped *)
            cbn [concat]. apply andb_prop in Ez. destruct Ez as [Hio' Hz].
            assert (Hopt : t_optional tg = true).
            { destruct io; [apply Hio; reflexivity|exact Hio']. }
            rewrite Hopt. destruct (all_dropped r _ vs' Hwr ER) as [-> _].
            rewrite (proj1 zero_mut t tg v Hwv Hz). cbn [zero_fields]. eauto.
          - (* this is the last encoded field *)
            cbn [concat] in *. rewrite app_nil_r in *.
            destruct (enc_val t tg v) as [|x0 e0] eqn:Ee; [contradiction|]. rewrite <- Ee in *.
            destruct (IHt tg v true [] Hwv Hf (or_introl Et)) as [a Hd].
            rewrite app_nil_r in Hd.
            destruct (all_dropped r _ vs' Hwr ER) as [Hvs Hdr].
            rewrite Ee in *. rewrite Hd. cbn [bind]. rewrite Hdr, <- Hvs. cbn. eauto. }
        { (* more fields follow *)
          cbn [concat] in *.
          assert (HfR : fits64 (len (concat (e1 :: R)))) by (rewrite len_app in Hf; unfold fits64 in *; cbn [concat] in *; lia).
          assert (Hfe : fits64 (len (enc_val t tg v))) by (rewrite len_app in Hf; unfold fits64 in *; lia).
          destruct (IHt tg v true (concat (e1 :: R)) Hwv Hfe (or_introl Et)) as [a Hd].
          destruct (IHr _ vs' Hwr) as [a' Hdr]; [rewrite ER; exact HfR|]. rewrite ER in Hdr.
          cbn [concat] in *.
          destruct (enc_val t tg v ++ e1 ++ concat R) as [|x0 p0] eqn:Ep.
          { apply app_eq_nil in Ep. destruct Ep. contradiction. }
          rewrite Hd. cbn [bind]. rewrite Hdr. cbn. eauto. }
Qed.

Lemma typed_roundtrip t v il rest :
  wf_val t no_tag v -> len (enc_val t no_tag v) < two64 ->
  exists a, dec_val t no_tag il (enc_val t no_tag v ++ rest) = Ok v rest a.
Proof. intros Hw Hf. apply (proj1 typed_rt_mut t); [exact Hw|exact Hf|left; reflexivity]. Qed.

Lemma typed_decode_bytes_roundtrip t v :
  wf_val t no_tag v -> len (encode_to_bytes t v) < two64 ->
  exists a, decode_bytes t (encode_to_bytes t v) = Ok v [] a.
Proof.
  intros Hw Hf. unfold decode_bytes, encode_to_bytes in *.
  destruct (typed_roundtrip t v false [] Hw Hf) as [a Hd]. rewrite app_nil_r in Hd.
  rewrite Hd. cbn. eauto.
Qed.

(** a struct using every tag: {A uint64; P *uint64 `nil`; I [2]byte `-`; O uint8 `optional`;
    T []uint16 `tail`} with O = 0 kept because the tail follows *)
Definition ty_all : ty :=
  TStruct (FCons (TUint 64) no_tag
          (FCons (TPtr (TUint 64)) (mkTag false false false NilAuto)
          (FCons (TArray 2) (mkTag false false true NoNil)
          (FCons (TUint 8) (mkTag true false false NoNil)
          (FCons (TList (TUint 16)) (mkTag false true false NoNil) FNil))))).
Definition val_all : val :=
  VStruct [VUint 1024; VNil; VBytes [x00; x00]; VUint 0; VList [VUint 7; VUint 300]].

Lemma typed_example :
  wf_val ty_all no_tag val_all /\
  decode_bytes ty_all (encode_to_bytes ty_all val_all) = Ok val_all [] 0.
Proof.
  split; [|vm_compute; reflexivity].
  cbn. eexists. split; [reflexivity|].
  eexists _, _. split; [reflexivity|]. cbn. split; [discriminate|]. split; [exists 1024; split; [reflexivity|lia]|].
  eexists _, _. split; [reflexivity|]. cbn. split; [discriminate|]. split; [left; split; [reflexivity|discriminate]|].
  eexists _, _. split; [reflexivity|]. cbn. split; [reflexivity|].
  eexists _, _. split; [reflexivity|]. cbn. split; [reflexivity|]. split; [exists 0; split; [reflexivity|lia]|].
  eexists _, _. split; [reflexivity|]. cbn. split; [reflexivity|]. split; [eauto|].
  split; [|reflexivity].
  eexists. split; [reflexivity|]. repeat constructor; eexists; (split; [reflexivity|cbn; lia]).
Qed.
