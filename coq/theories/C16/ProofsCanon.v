(** C16 — typed canonicity for the whole optional-free universe: every scalar kind, lists,
    structs with tail / "-" / nil tags, pointers, RawValue, interface{}. *)
From Coq Require Import List ZArith NArith Bool Lia Arith.
From Coq Require Import Init.Byte.
From Kardia Require Import C16.Model C16.ProofsBase C16.ProofsItem C16.Proofs C16.ProofsTyped.
Import ListNotations.
Local Open Scope N_scope.
Ltac Zify.zify_post_hook ::= Z.to_euclidean_division_equations.

(** types without rlp:"optional" anywhere *)
Fixpoint optional_free (t : ty) : Prop :=
  match t with
  | TList e | TPtr e => optional_free e
  | TStruct fs => optional_free_fields fs
  | _ => True
  end
with optional_free_fields (fs : fields) : Prop :=
  match fs with
  | FNil => True
  | FCons t tg r => t_optional tg = false /\ optional_free t /\ optional_free_fields r
  end.

(** ** strings read with an explicit header *)
Lemma enc_str_take size r :
  size <= len r -> (size =? 1) && (bN (hd x00 (take size r)) <? 128) = false ->
  enc_str (take size r) = str_head size ++ take size r.
Proof.
  intros Hs Ec.
  assert (Hl : len (take size r) = size) by (apply len_take; assumption).
  destruct (take size r) as [|x [|y l]] eqn:Et.
  - cbn in Hl. subst size. reflexivity.
  - rewrite len_cons in Hl. cbn in Hl. subst size. cbn [hd] in Ec.
    unfold enc_str. cbn [N.eqb Pos.eqb andb] in Ec. rewrite Ec. reflexivity.
  - unfold enc_str. rewrite Hl. reflexivity.
Qed.

Lemma split_take_drop size (r : bytes) h : h ++ r = (h ++ take size r) ++ drop size r.
Proof. rewrite <- app_assoc, take_drop. reflexivity. Qed.

(** ** scalar decoders *)
Lemma dec_big_canon il bs n rest a : dec_big il bs = Ok n rest a -> bs = enc_uint n ++ rest.
Proof.
  unfold dec_big.
  destruct (read_kind il bs) as [k size bv r|e] eqn:Ek; [|discriminate].
  apply read_kind_canon in Ek.
  destruct Ek as [bv r -> Hb|size r -> Hs|size r -> Hs]; [| |discriminate].
  - destruct (N.eqb_spec (bN bv) 0); [discriminate|].
    intros HH. injection HH as <- <- _. rewrite enc_uint_byte by assumption. reflexivity.
  - destruct (N.eqb_spec size 0) as [->|Hnz].
    { intros HH. injection HH as <- <- _. reflexivity. }
    destruct ((size =? 1) && (bN (hd x00 (take size r)) <? 128)) eqn:Ec; [discriminate|].
    destruct (N.eqb_spec (bN (hd x00 (take size r))) 0) as [|Hhd]; [discriminate|].
    intros HH. injection HH as <- <- _.
    unfold enc_uint. rewrite be_bytes_val by exact Hhd.
    rewrite enc_str_take by assumption. apply split_take_drop.
Qed.

Lemma enc_uint_0 : enc_uint 0 = [Nb 128]. Proof. reflexivity. Qed.
Lemma enc_uint_1 : enc_uint 1 = [Nb 1]. Proof. vm_compute. reflexivity. Qed.

Lemma dec_bool_canon il bs b rest a :
  dec_bool il bs = Ok b rest a -> bs = (if b then [Nb 1] else [Nb 128]) ++ rest.
Proof.
  unfold dec_bool. destruct (dec_uint 8 il bs) as [v r a'|] eqn:Ed; [|discriminate].
  apply dec_uint_canon in Ed.
  destruct (N.eqb_spec v 0) as [->|].
  - intros HH. injection HH as <- <- _. exact Ed.
  - destruct (N.eqb_spec v 1) as [->|]; [|discriminate].
    intros HH. injection HH as <- <- _. rewrite enc_uint_1 in Ed. exact Ed.
Qed.

Lemma dec_array_canon n il bs b rest a :
  dec_array n il bs = Ok b rest a -> bs = enc_str b ++ rest /\ len b = n.
Proof.
  unfold dec_array.
  destruct (read_kind il bs) as [k size bv r|e] eqn:Ek; [|discriminate].
  apply read_kind_canon in Ek.
  destruct Ek as [bv r -> Hb|size r -> Hs|size r -> Hs]; [| |discriminate].
  - destruct (N.eqb_spec n 0); [discriminate|]. destruct (N.ltb_spec 1 n); [discriminate|].
    intros HH. injection HH as <- <- _. split; [|cbn; lia].
    unfold enc_str. destruct (N.ltb_spec (bN bv) 128); [reflexivity|lia].
  - destruct (N.ltb_spec n size); [discriminate|]. destruct (N.ltb_spec size n); [discriminate|].
    destruct ((size =? 1) && (bN (hd x00 (take size r)) <? 128)) eqn:Ec; [discriminate|].
    intros HH. injection HH as <- <- _. split.
    + rewrite enc_str_take by assumption. apply split_take_drop.
    + rewrite len_take by assumption. lia.
Qed.

Lemma dec_raw_canon il bs b rest a : dec_raw il bs = Ok b rest a -> bs = b ++ rest.
Proof.
  unfold dec_raw.
  destruct (read_kind il bs) as [k size bv r|e] eqn:Ek; [|discriminate].
  apply read_kind_canon in Ek.
  destruct Ek as [bv r -> Hb|size r -> Hs|size r -> Hs];
    intros HH; injection HH as <- <- _; [reflexivity| |]; apply split_take_drop.
Qed.

(** ** structs without optional fields: the payload is the concatenation of the encodings of
    the fields that are not ignored *)
Fixpoint kept_fields (fs : fields) (vs : list val) : list bytes :=
  match fs, vs with
  | FCons t tg r, v :: vs' =>
    if t_ignored tg then kept_fields r vs' else enc_val t tg v :: kept_fields r vs'
  | _, _ => []
  end.

Lemma enc_fields_optional_free fs : optional_free_fields fs -> forall vs,
  enc_fields fs false vs = map (fun e => (false, e)) (kept_fields fs vs).
Proof.
  induction fs as [|t tg r IH]; intros Hc vs; [destruct vs; reflexivity|].
  destruct Hc as (Ho & _ & Hr). destruct vs as [|v vs']; [reflexivity|].
  cbn [enc_fields kept_fields]. destruct (t_ignored tg); [apply IH; assumption|].
  rewrite Ho. cbn [orb andb map]. rewrite IH by assumption. reflexivity.
Qed.

Lemma enc_struct_optional_free fs tg vs : optional_free_fields fs ->
  enc_val (TStruct fs) tg (VStruct vs) = enc_list (concat (kept_fields fs vs)).
Proof.
  intros Hc. cbn [enc_val]. rewrite enc_fields_optional_free by assumption.
  rewrite trim_tail_all_kept. reflexivity.
Qed.

(** ** the mutual induction *)
Definition canon_full_at (t : ty) : Prop :=
  optional_free t -> forall tg il bs v rest a,
    dec_val t tg il bs = Ok v rest a -> bs = enc_val t tg v ++ rest.
Definition canon_full_fields_at (fs : fields) : Prop :=
  optional_free_fields fs -> forall p vs rest a,
    dec_fields fs p = Ok vs rest a -> p = concat (kept_fields fs vs) ++ rest.

Lemma head_0_str : str_head 0 = [Nb 128]. Proof. reflexivity. Qed.
Lemma head_0_list : list_head 0 = [Nb 192]. Proof. reflexivity. Qed.

Lemma kind_eqb_eq a b : kind_eqb a b = true -> a = b.
Proof. destruct a, b; cbn; congruence. Qed.

Lemma ptr_nil_canon e tg il bs v rest a
  (IH : forall tg il bs v rest a, dec_val e tg il bs = Ok v rest a -> bs = enc_val e tg v ++ rest) :
  match read_kind il bs with
  | KErr er => Err er 0
  | KOk k size _ rest =>
    if negb (kind_eqb k KByte) && (size =? 0) then
      if kind_eqb k (nil_kind e tg) then Ok VNil rest 0 else Err EWrongEmpty 0
    else rmap VPtr (dec_val e no_tag il bs)
  end = Ok v rest a ->
  bs = enc_val (TPtr e) tg v ++ rest.
Proof.
  destruct (read_kind il bs) as [k size bv r|er] eqn:Ek; [|discriminate].
  destruct (negb (kind_eqb k KByte) && (size =? 0)) eqn:Ec.
  - destruct (kind_eqb k (nil_kind e tg)) eqn:Enk; [|discriminate].
    intros HH. injection HH as <- <- _.
    apply kind_eqb_eq in Enk. cbn [enc_val]. rewrite <- Enk.
    apply andb_prop in Ec. destruct Ec as [Hk Hz]. apply N.eqb_eq in Hz. subst size.
    apply read_kind_canon in Ek. clear Enk.
    destruct k; [cbn in Hk; discriminate Hk| |]; inversion Ek; subst; reflexivity.
  - intros HH. apply rmap_ok in HH. destruct HH as (w & Hd & ->).
    cbn [enc_val]. eapply IH. exact Hd.
Qed.

Lemma typed_canon_full_mut : (forall t, canon_full_at t) /\ (forall fs, canon_full_fields_at fs).
Proof.
  apply ty_fields_ind; unfold canon_full_at, canon_full_fields_at.
  - (* TUint *) intros bits _ tg il bs v rest a HH. cbn [dec_val] in HH.
    apply rmap_ok in HH. destruct HH as (n & Hd & ->). cbn [enc_val].
    eapply dec_uint_canon. exact Hd.
  - (* TBig *) intros _ tg il bs v rest a HH. cbn [dec_val] in HH.
    apply rmap_ok in HH. destruct HH as (n & Hd & ->). cbn [enc_val].
    eapply dec_big_canon. exact Hd.
  - (* TBool *) intros _ tg il bs v rest a HH. cbn [dec_val] in HH.
    apply rmap_ok in HH. destruct HH as (b & Hd & ->). cbn [enc_val].
    apply dec_bool_canon in Hd. destruct b; exact Hd.
  - (* TBytes *) intros _ tg il bs v rest a HH. cbn [dec_val] in HH.
    apply rmap_ok in HH. destruct HH as (b & Hd & ->). cbn [enc_val].
    eapply dec_bytes_canon. exact Hd.
  - (* TArray *) intros n _ tg il bs v rest a HH. cbn [dec_val] in HH.
    apply rmap_ok in HH. destruct HH as (b & Hd & ->). cbn [enc_val].
    eapply dec_array_canon. exact Hd.
  - (* TString *) intros _ tg il bs v rest a HH. cbn [dec_val] in HH.
    apply rmap_ok in HH. destruct HH as (b & Hd & ->). cbn [enc_val].
    eapply dec_bytes_canon. exact Hd.
  - (* TList *) intros e IH Hc tg il bs v rest a HH. cbn [optional_free] in Hc.
    cbn [dec_val] in HH. cbn [enc_val].
    destruct (t_tail tg).
    + apply rmap_ok in HH. destruct HH as (l & Hd & ->).
      apply (slice_elems_canon (enc_val e no_tag)) in Hd.
      * destruct Hd as [-> ->]. rewrite app_nil_r. reflexivity.
      * intros p x r a0 Hp. eapply IH; [exact Hc|exact Hp].
    + apply rmap_ok in HH. destruct HH as (l & Hd & ->).
      apply (dec_list_canon (enc_val e no_tag)) in Hd.
      * rewrite Hd. destruct l as [|x l']; reflexivity.
      * intros p x r a0 Hp. eapply IH; [exact Hc|exact Hp].
  - (* TStruct *) intros fs IH Hc tg il bs v rest a HH. cbn [optional_free] in Hc.
    cbn [dec_val] in HH.
    destruct (read_kind il bs) as [k size bv r|e] eqn:Ek; [|discriminate].
    apply read_kind_canon in Ek.
    destruct Ek as [bv r -> Hb|size r -> Hs|size r -> Hs]; try discriminate.
    destruct (dec_fields fs (take size r)) as [vs r' a'|] eqn:Ed; [|discriminate].
    destruct r' as [|b r'']; [|discriminate].
    injection HH as <- <- _.
    apply IH in Ed; [|exact Hc]. rewrite app_nil_r in Ed.
    rewrite enc_struct_optional_free by exact Hc. unfold enc_list.
    rewrite <- Ed, len_take by assumption. rewrite <- app_assoc, take_drop. reflexivity.
  - (* TPtr *) intros e IH Hc tg il bs v rest a HH. cbn [optional_free] in Hc.
    cbn [dec_val] in HH.
    destruct (t_nil tg) eqn:En.
    + apply rmap_ok in HH. destruct HH as (w & Hd & ->). cbn [enc_val].
      eapply IH; [exact Hc|exact Hd].
    + eapply ptr_nil_canon; [|exact HH]. intros. eapply IH; eassumption.
    + eapply ptr_nil_canon; [|exact HH]. intros. eapply IH; eassumption.
    + eapply ptr_nil_canon; [|exact HH]. intros. eapply IH; eassumption.
  - (* TRaw *) intros _ tg il bs v rest a HH. cbn [dec_val] in HH.
    apply rmap_ok in HH. destruct HH as (b & Hd & ->). cbn [enc_val].
    eapply dec_raw_canon. exact Hd.
  - (* TIface *) intros _ tg il bs v rest a HH. cbn [dec_val] in HH.
    apply rmap_ok in HH. destruct HH as (x & Hd & ->). cbn [enc_val].
    eapply dec_item_canon. exact Hd.
  - (* FNil *) intros _ p vs rest a HH. cbn [dec_fields] in HH. injection HH as <- <- _. reflexivity.
  - (* FCons *) intros t IHt tg r IHr (Ho & Hct & Hcr) p vs rest a HH.
    cbn [dec_fields] in HH.
    assert (Hseq : bind (dec_val t tg true p) (fun v rest => rmap (cons v) (dec_fields r rest)) = Ok vs rest a ->
                   t_ignored tg = false -> p = concat (kept_fields (FCons t tg r) vs) ++ rest).
    { intros HB Hi. unfold bind in HB.
      destruct (dec_val t tg true p) as [v r1 a1|] eqn:Ev; [|discriminate].
      destruct (dec_fields r r1) as [vs' r2 a2|] eqn:Ef; cbn [rmap] in HB; [|discriminate].
      injection HB as <- <- _.
      apply IHt in Ev; [|exact Hct]. apply IHr in Ef; [|exact Hcr].
      cbn [kept_fields]. rewrite Hi. cbn [concat]. rewrite Ev, Ef, app_assoc. reflexivity. }
    destruct (t_ignored tg) eqn:Ei.
    + apply rmap_ok in HH. destruct HH as (vs' & Hd & ->).
      apply IHr in Hd; [|exact Hcr]. cbn [kept_fields]. rewrite Ei. exact Hd.
    + destruct (t_tail tg); [apply Hseq; [exact HH|reflexivity]|].
      destruct p as [|b p']; [rewrite Ho in HH; discriminate|].
      apply Hseq; [exact HH|reflexivity].
Qed.

Lemma typed_canonical_full t tg il bs v rest a :
  optional_free t -> dec_val t tg il bs = Ok v rest a -> bs = enc_val t tg v ++ rest.
Proof. intros Hc. apply (proj1 typed_canon_full_mut t Hc). Qed.

Lemma typed_decode_bytes_exact_full t bs v rest a :
  optional_free t -> decode_bytes t bs = Ok v rest a -> rest = [] /\ bs = encode_to_bytes t v.
Proof.
  intros Hc. unfold decode_bytes, exactly_one, encode_to_bytes.
  destruct (dec_val t no_tag false bs) as [w r a'|] eqn:Ed; [|discriminate].
  destruct r as [|b r']; [|discriminate].
  intros HH. injection HH as <- <- _. split; [reflexivity|].
  apply typed_canonical_full in Ed; [|exact Hc]. rewrite app_nil_r in Ed. exact Ed.
Qed.
