(** C16 — the literal Stream machine (decode.go: input, stack of list limits, cached kind)
    against the window decoder the theorems are about.

    Part 1: invariants of the machine.  [dgap] (sum of the list limits minus the remaining
    input) never decreases along a successful operation; a state in which it is positive
    ("doomed": the limits promise more bytes than the input has) can therefore never lead to
    an accepted input, because acceptance ends with an empty stack. *)
From Coq Require Import List ZArith NArith Bool Lia.
From Coq Require Import Init.Byte.
From Kardia Require Import C16.Model C16.ProofsBase C16.ProofsItem C16.ProofsRoundtrip C16.ProofsBound.
Import ListNotations.
Local Open Scope N_scope.
Ltac Zify.zify_post_hook ::= Z.to_euclidean_division_equations.

(** * list helpers *)
Lemma take_app_le {A} n (a b : list A) : n <= len a -> take n (a ++ b) = take n a.
Proof.
  unfold take, len. intros H. rewrite firstn_app.
  replace (N.to_nat n - length a)%nat with 0%nat by lia. cbn. apply app_nil_r.
Qed.
Lemma drop_app_le {A} n (a b : list A) : n <= len a -> drop n (a ++ b) = drop n a ++ b.
Proof.
  unfold drop, len. intros H. rewrite skipn_app.
  replace (N.to_nat n - length a)%nat with 0%nat by lia. reflexivity.
Qed.
Lemma len_drop_le {A} n (a : list A) : n <= len a -> len (drop n a) + n = len a.
Proof. intros H. rewrite len_drop. lia. Qed.
Lemma take_all {A} n (a : list A) : len a <= n -> take n a = a.
Proof. unfold take, len. intros H. apply firstn_all2. lia. Qed.

(** * invariants *)
Definition ssum (st : list N) : N := fold_right N.add 0 st.

Definition inv (s : stream) : Prop :=
  len (s_in s) < two64 /\ Forall (fun l => l < two64) (s_stack s) /\
  match s_cache s with Some (_, size, _) => size <= len (s_in s) | None => True end.

(** the stack keeps its depth and everything below its top *)
Definition shape (s s' : stream) : Prop :=
  match s_stack s, s_stack s' with
  | [], [] => True
  | _ :: r, _ :: r' => r = r'
  | _, _ => False
  end.
(** [dgap s <= dgap s'], without subtraction *)
Definition dle (s s' : stream) : Prop :=
  len (s_in s') + ssum (s_stack s) <= len (s_in s) + ssum (s_stack s').
Definition doomed (s : stream) : Prop := len (s_in s) < ssum (s_stack s).

Definition mono {A} (s : stream) (r : sres A) : Prop :=
  match r with SErr _ => True | SOk _ s' => inv s' /\ shape s s' /\ dle s s' end.

Lemma shape_refl s : shape s s.
Proof. unfold shape. destruct (s_stack s); auto. Qed.
Lemma shape_trans a b c : shape a b -> shape b c -> shape a c.
Proof.
  unfold shape. destruct (s_stack a), (s_stack b), (s_stack c); try tauto. intros -> ->. reflexivity.
Qed.
Lemma dle_refl s : dle s s.
Proof. unfold dle. lia. Qed.
Lemma dle_trans a b c : dle a b -> dle b c -> dle a c.
Proof. unfold dle. lia. Qed.
Lemma doomed_dle s s' : doomed s -> dle s s' -> doomed s'.
Proof. unfold doomed, dle. lia. Qed.

Lemma mono_bind {A B} s (r : sres A) (f : A -> stream -> sres B) :
  mono s r -> (forall v s', inv s' -> mono s' (f v s')) -> mono s (sbind r f).
Proof.
  intros Hr Hf. destruct r as [v s'|e]; [|exact I]. cbn [sbind]. destruct Hr as (Hi & Hs & Hd).
  specialize (Hf v s' Hi). destruct (f v s') as [w s''|e]; [|exact I].
  destruct Hf as (Hi' & Hs' & Hd'). split; [exact Hi'|]. split; [eapply shape_trans; eassumption|eapply dle_trans; eassumption].
Qed.
Lemma mono_smap {A B} s (g : A -> B) (r : sres A) : mono s r -> mono s (smap g r).
Proof. destruct r; exact (fun H => H). Qed.
Lemma mono_ok {A} s (v : A) s' : inv s' -> shape s s' -> dle s s' -> mono s (SOk v s').
Proof. intros; cbn; auto. Qed.

Lemma inv_rearm s : inv s -> inv (rearm s).
Proof. intros (H1 & H2 & _). split; [exact H1|]. split; [exact H2|exact I]. Qed.
Lemma mono_rearm {A} s (v : A) : inv s -> mono s (SOk v (rearm s)).
Proof. intros H. apply mono_ok; [apply inv_rearm; exact H|exact (shape_refl s)|exact (dle_refl s)]. Qed.

Lemma mono_read_full n s : inv s -> mono s (s_read_full n s).
Proof.
  intros (Hl & Hst & _). unfold s_read_full. destruct (s_stack s) as [|l r] eqn:E.
  - destruct (N.ltb_spec (len (s_in s)) n); [exact I|].
    apply mono_ok.
    + split; cbn [s_in s_stack s_cache]; [rewrite len_drop; lia|]. split; [constructor|exact I].
    + unfold shape. rewrite E. exact I.
    + unfold dle. cbn [s_in s_stack]. rewrite E, len_drop. cbn. lia.
  - destruct (N.ltb_spec l n); [exact I|]. destruct (N.ltb_spec (len (s_in s)) n); [exact I|].
    inversion Hst; subst.
    apply mono_ok.
    + split; cbn [s_in s_stack s_cache]; [rewrite len_drop; lia|]. split; [constructor; [lia|assumption]|exact I].
    + unfold shape. rewrite E. reflexivity.
    + unfold dle. cbn [s_in s_stack]. rewrite E, len_drop. cbn [ssum fold_right]. lia.
Qed.

Lemma mono_read_uint size s : inv s -> mono s (s_read_uint size s).
Proof.
  intros Hi. unfold s_read_uint. destruct (size =? 0); [apply mono_rearm; exact Hi|].
  apply mono_bind; [apply mono_read_full; exact Hi|].
  intros b s' Hi'. destruct (size =? 1); [apply mono_ok; [exact Hi'|apply shape_refl|apply dle_refl]|].
  destruct (bN (hd x00 b) =? 0); [exact I|apply mono_ok; [exact Hi'|apply shape_refl|apply dle_refl]].
Qed.

Lemma mono_here {A} s (v : A) : inv s -> mono s (SOk v s).
Proof. intros H. apply mono_ok; [exact H|apply shape_refl|apply dle_refl]. Qed.

Lemma mono_read_kind s : inv s -> mono s (s_read_kind s).
Proof.
  intros Hi. unfold s_read_kind. pose proof (mono_read_full 1 s Hi) as H1.
  destruct (s_read_full 1 s) as [b1 s1|e]; [|destruct (s_stack s), e; exact I].
  destruct H1 as (Hi1 & Hs1 & Hd1).
  assert (Hk : forall (c : kind * N * byte), mono s (SOk c s1)) by (intros c; apply mono_ok; assumption).
  assert (Hu : forall n (k : kind), mono s (sbind (s_read_uint n s1) (fun size s2 =>
                 if size <? 56 then SErr ECanonSize else SOk (k, size, x00) s2))).
  { intros n k. apply mono_bind.
    - pose proof (mono_read_uint n s1 Hi1) as Hm. destruct (s_read_uint n s1) as [v s2|]; [|exact I].
      destruct Hm as (Ha & Hb & Hc). split; [exact Ha|]. split; [eapply shape_trans; eassumption|eapply dle_trans; eassumption].
    - intros v s' Hi'. destruct (v <? 56); [exact I|apply mono_here; exact Hi']. }
  destruct (bN (hd x00 b1) <? 128); [apply Hk|].
  destruct (bN (hd x00 b1) <? 184); [apply Hk|].
  destruct (bN (hd x00 b1) <? 192); [apply Hu|].
  destruct (bN (hd x00 b1) <? 248); [apply Hk|apply Hu].
Qed.

Lemma mono_kind s : inv s -> mono s (s_kind s).
Proof.
  intros Hi. unfold s_kind. destruct (s_cache s) as [c|] eqn:Ec; [apply mono_here; exact Hi|].
  assert (Hc : forall (chk : N -> bool), mono s (sbind (s_read_kind s) (fun c s' =>
            let '(k, size, bv) := c in
            if chk size then SErr EElemTooLarge
            else if len (s_in s') <? size then SErr EValueTooLarge
            else SOk c (mkS (s_in s') (s_stack s') (Some c))))).
  { intros chk. apply mono_bind; [apply mono_read_kind; exact Hi|].
    intros [[k size] bv] s' (H1 & H2 & _). destruct (chk size); [exact I|].
    destruct (N.ltb_spec (len (s_in s')) size); [exact I|].
    apply mono_ok; [|unfold shape; cbn [s_stack]; apply shape_refl|unfold dle; cbn [s_in s_stack]; lia].
    split; [exact H1|]. split; [exact H2|exact H]. }
  destruct (s_stack s) as [|l r] eqn:Es.
  - exact (Hc (fun _ => false)).
  - destruct (l =? 0); [exact I|]. exact (Hc (fun size => l <? size)).
Qed.

(** primitives *)
Ltac mono_tac :=
  repeat first
    [ exact I
    | apply mono_here; assumption
    | apply mono_rearm; assumption
    | apply mono_read_full; assumption
    | apply mono_read_uint; assumption
    | apply mono_kind; assumption
    | apply mono_smap
    | match goal with |- mono _ (if ?c then _ else _) => destruct c end
    | match goal with |- mono _ (match ?c with (_, _) => _ end) => destruct c end
    | match goal with |- mono _ (match ?k with KByte => _ | KString => _ | KList => _ end) => destruct k end
    | apply mono_bind; [|intros ? ? ?] ].

Lemma mono_bytes s : inv s -> mono s (s_bytes s).
Proof. intros Hi. unfold s_bytes. mono_tac. Qed.
Lemma mono_uint bits s : inv s -> mono s (s_uint bits s).
Proof.
  intros Hi. unfold s_uint. apply mono_bind; [apply mono_kind; exact Hi|]. intros [[k size] bv] s' Hi'.
  destruct k; mono_tac.
  pose proof (mono_read_uint size s' Hi') as Hm.
  destruct (s_read_uint size s') as [v s''|e]; [|destruct e; exact I].
  destruct ((0 <? size) && (v <? 128)); [exact I|exact Hm].
Qed.
Lemma mono_bool s : inv s -> mono s (s_bool s).
Proof. intros Hi. unfold s_bool. apply mono_bind; [apply mono_uint; exact Hi|]. intros v s' Hi'. mono_tac. Qed.
Lemma mono_big s : inv s -> mono s (s_big s).
Proof. intros Hi. unfold s_big. mono_tac. Qed.
Lemma mono_array n s : inv s -> mono s (s_array n s).
Proof. intros Hi. unfold s_array. mono_tac. Qed.
Lemma mono_raw s : inv s -> mono s (s_raw s).
Proof. intros Hi. unfold s_raw. mono_tac. Qed.
Lemma mono_read_bytes n s : inv s -> mono s (s_read_bytes n s).
Proof. intros Hi. unfold s_read_bytes. mono_tac. Qed.

(** List pushes a limit, ListEnd pops one *)
Definition shape_push (s s' : stream) : Prop :=
  match s_stack s, s_stack s' with
  | [], [_] => True
  | _ :: r, _ :: _ :: r' => r = r'
  | _, _ => False
  end.
Definition shape_pop (s s' : stream) : Prop :=
  match s_stack s with
  | [] => False
  | _ :: r => s_stack s' = r
  end.
Lemma shape_push_pop a b c d : shape_push a b -> shape b c -> shape_pop c d -> shape a d.
Proof.
  unfold shape_push, shape, shape_pop.
  destruct (s_stack a) as [|x xa], (s_stack b) as [|y [|y' yb]], (s_stack c) as [|z zc]; try tauto.
  - intros _ <- ->. exact I.
  - intros -> <- ->. reflexivity.
Qed.
Lemma shape_l_push a b c : shape a b -> shape_push b c -> shape_push a c.
Proof.
  unfold shape, shape_push. destruct (s_stack a), (s_stack b), (s_stack c) as [|? [|? ?]]; try tauto.
  intros -> ->. reflexivity.
Qed.

Lemma list_ok s size s' : inv s -> s_list s = SOk size s' -> inv s' /\ shape_push s s' /\ dle s s'.
Proof.
  intros Hi. unfold s_list.
  pose proof (mono_kind s Hi) as Hk. destruct (s_kind s) as [[[k sz] bv] s1|e] eqn:Ek; [|discriminate].
  cbn [sbind]. destruct k; try discriminate. intros HH. injection HH as <- <-.
  destruct Hk as ((Hl & Hst & Hc) & Hs & Hd).
  assert (Hsz : sz <= len (s_in s1)).
  { unfold s_kind in Ek. destruct (s_cache s) as [c|] eqn:Ec.
    - injection Ek as -> <-. destruct Hi as (_ & _ & Hcc). rewrite Ec in Hcc. exact Hcc.
    - destruct (s_stack s) as [|l r].
      + unfold sbind in Ek. destruct (s_read_kind s) as [[[k' sz'] bv'] s2|]; [|discriminate].
        destruct (N.ltb_spec (len (s_in s2)) sz'); [discriminate|]. injection Ek as _ <- _ <-. exact H.
      + destruct (l =? 0); [discriminate|]. unfold sbind in Ek.
        destruct (s_read_kind s) as [[[k' sz'] bv'] s2|]; [|discriminate].
        destruct (l <? sz'); [discriminate|].
        destruct (N.ltb_spec (len (s_in s2)) sz'); [discriminate|]. injection Ek as _ <- _ <-. exact H. }
  unfold shape in Hs. unfold dle in Hd. unfold shape_push, dle, inv. cbn [s_in s_stack s_cache].
  destruct (s_stack s) as [|l0 r0], (s_stack s1) as [|l r]; try tauto.
  - split; [split; [exact Hl|split; [constructor; [lia|constructor]|exact I]]|]. split; [exact I|].
    cbn [ssum fold_right] in *. lia.
  - subst r0. inversion Hst; subst.
    assert (Hm : (l + two64 - sz) mod two64 < two64) by (apply N.mod_lt; unfold two64; lia).
    split; [split; [exact Hl|split; [constructor; [lia|constructor; assumption]|exact I]]|]. split; [reflexivity|].
    cbn [ssum fold_right] in *.
    assert (l <= sz + (l + two64 - sz) mod two64).
    { destruct (N.le_gt_cases sz l).
      - replace (l + two64 - sz) with (l - sz + 1 * two64) by lia. rewrite N.mod_add by (unfold two64; lia).
        rewrite N.mod_small by lia. lia.
      - rewrite N.mod_small by lia. lia. }
    lia.
Qed.

Lemma list_end_ok s s' : inv s -> s_list_end s = SOk tt s' -> inv s' /\ shape_pop s s' /\ dle s s'.
Proof.
  intros (Hl & Hst & _). unfold s_list_end, shape_pop, dle, inv.
  destruct (s_stack s) as [|l r]; [discriminate|]. destruct (N.ltb_spec 0 l); [discriminate|].
  intros HH. injection HH as <-. cbn [s_in s_stack s_cache]. inversion Hst; subst.
  split; [split; [exact Hl|split; [assumption|exact I]]|]. split; [reflexivity|].
  unfold ssum. cbn [fold_right]. lia.
Qed.

(** loops, generic in the element decoder *)
Lemma mono_slice_elems {A} (elem : stream -> sres A) :
  (forall s, inv s -> mono s (elem s)) -> forall n s, inv s -> mono s (s_slice_elems elem n s).
Proof.
  intros He. induction n as [|n IH]; intros s Hi; cbn [s_slice_elems]; specialize (He s Hi);
    destruct (elem s) as [x s'|e].
  - exact I.
  - destruct e; try exact I. apply mono_here; exact Hi.
  - destruct He as (Hi' & Hs & Hd). apply mono_smap. specialize (IH s' Hi').
    destruct (s_slice_elems elem n s') as [xs s''|]; [|exact I].
    destruct IH as (Ha & Hb & Hc). split; [exact Ha|]. split; [eapply shape_trans; eassumption|eapply dle_trans; eassumption].
  - destruct e; try exact I. apply mono_here; exact Hi.
Qed.

Lemma mono_list_slice {A} (elem : stream -> sres A) :
  (forall s, inv s -> mono s (elem s)) -> forall s, inv s -> mono s (s_list_slice elem s).
Proof.
  intros He s Hi. unfold s_list_slice.
  destruct (s_list s) as [size s1|e] eqn:El; [|exact I]. cbn [sbind].
  destruct (list_ok s size s1 Hi El) as (Hi1 & Hp1 & Hd1).
  assert (Hend : forall {B} (xs : B) s2, inv s2 -> shape s1 s2 -> dle s1 s2 -> mono s (smap (fun _ => xs) (s_list_end s2))).
  { intros B xs s2 Hi2 Hs2 Hd2. destruct (s_list_end s2) as [[] s3|e] eqn:Ee; [|exact I]. cbn [smap].
    destruct (list_end_ok s2 s3 Hi2 Ee) as (Hi3 & Hp3 & Hd3).
    split; [exact Hi3|]. split; [eapply shape_push_pop; eassumption|].
    eapply dle_trans; [exact Hd1|]. eapply dle_trans; eassumption. }
  destruct (size =? 0); [apply Hend; [exact Hi1|apply shape_refl|apply dle_refl]|].
  pose proof (mono_slice_elems elem He (length (s_in s1)) s1 Hi1) as Hm.
  destruct (s_slice_elems elem (length (s_in s1)) s1) as [xs s2|e]; [|exact I]. cbn [sbind].
  destruct Hm as (Hi2 & Hs2 & Hd2). apply Hend; assumption.
Qed.

Lemma mono_item fuel : forall s, inv s -> mono s (s_item fuel s).
Proof.
  induction fuel as [|f IH]; intros s Hi; [exact I|]. cbn [s_item].
  pose proof (mono_kind s Hi) as Hk. destruct (s_kind s) as [[[k size] bv] s'|e]; [|exact I]. cbn [sbind].
  destruct Hk as (Hi' & Hs & Hd).
  assert (Hcomp : forall {A} (r : sres A), mono s' r -> mono s r).
  { intros A r Hm. destruct r as [v s''|]; [|exact I]. destruct Hm as (Ha & Hb & Hc).
    split; [exact Ha|]. split; [eapply shape_trans; eassumption|eapply dle_trans; eassumption]. }
  destruct k; apply Hcomp, mono_smap.
  - apply mono_bytes; exact Hi'.
  - apply mono_bytes; exact Hi'.
  - apply mono_list_slice; [exact IH|exact Hi'].
Qed.

(** the typed decoders *)
Scheme ty_mut' := Induction for ty Sort Prop
  with fields_mut' := Induction for fields Sort Prop.
Combined Scheme ty_fields_ind' from ty_mut', fields_mut'.

Lemma mono_trans {A} s s' (r : sres A) : inv s' -> shape s s' -> dle s s' -> mono s' r -> mono s r.
Proof.
  intros Hi Hs Hd Hm. destruct r as [v s''|]; [|exact I]. destruct Hm as (Ha & Hb & Hc).
  split; [exact Ha|]. split; [eapply shape_trans; eassumption|eapply dle_trans; eassumption].
Qed.

Lemma mono_val_mut :
  (forall t tg s, inv s -> mono s (s_val t tg s)) /\ (forall fs s, inv s -> mono s (s_fields fs s)).
Proof.
  apply ty_fields_ind'.
  - intros bits tg s Hi. cbn [s_val]. apply mono_smap, mono_uint, Hi.
  - intros tg s Hi. cbn [s_val]. apply mono_smap, mono_big, Hi.
  - intros tg s Hi. cbn [s_val]. apply mono_smap, mono_bool, Hi.
  - intros tg s Hi. cbn [s_val]. apply mono_smap, mono_bytes, Hi.
  - intros n tg s Hi. cbn [s_val]. apply mono_smap, mono_array, Hi.
  - intros tg s Hi. cbn [s_val]. apply mono_smap, mono_bytes, Hi.
  - intros e IH tg s Hi. cbn [s_val]. destruct (t_tail tg); apply mono_smap.
    + apply mono_slice_elems; [intros; apply IH; assumption|exact Hi].
    + apply mono_list_slice; [intros; apply IH; assumption|exact Hi].
  - intros fs IH tg s Hi. cbn [s_val].
    destruct (s_list s) as [size s1|e] eqn:El; [|exact I]. cbn [sbind].
    destruct (list_ok s size s1 Hi El) as (Hi1 & Hp1 & Hd1).
    specialize (IH s1 Hi1). destruct (s_fields fs s1) as [vs s2|e]; [|exact I]. cbn [sbind].
    destruct IH as (Hi2 & Hs2 & Hd2).
    destruct (s_list_end s2) as [[] s3|e] eqn:Ee; [|exact I]. cbn [smap].
    destruct (list_end_ok s2 s3 Hi2 Ee) as (Hi3 & Hp3 & Hd3).
    split; [exact Hi3|]. split; [eapply shape_push_pop; eassumption|].
    eapply dle_trans; [exact Hd1|]. eapply dle_trans; eassumption.
  - intros e IH tg s Hi. cbn [s_val]. destruct (t_nil tg); try (apply mono_smap, IH, Hi);
      (apply mono_bind; [apply mono_kind; exact Hi|]; intros [[k size] bv] s' Hi';
       destruct (negb (kind_eqb k KByte) && (size =? 0));
       [destruct (kind_eqb k (nil_kind e tg)); [apply mono_rearm; exact Hi'|exact I]|apply mono_smap, IH, Hi']).
  - intros tg s Hi. cbn [s_val]. apply mono_smap, mono_raw, Hi.
  - intros tg s Hi. cbn [s_val]. apply mono_smap, mono_item, Hi.
  - intros s Hi. cbn [s_fields]. apply mono_here, Hi.
  - intros t IHt tg r IHr s Hi. cbn [s_fields].
    destruct (t_ignored tg); [apply mono_smap, IHr, Hi|].
    specialize (IHt tg s Hi). destruct (s_val t tg s) as [v s'|e].
    + destruct IHt as (Hi' & Hs & Hd). apply mono_smap. eapply mono_trans; [exact Hi'|exact Hs|exact Hd|apply IHr, Hi'].
    + destruct e; try exact I. destruct (t_optional tg); [apply mono_here, Hi|exact I].
Qed.

(** * Part 2: positions.  The window decoder at window [w] (inside a list: [il = true], the
    remaining payload of the innermost list) corresponds to the machine whose input is [w]
    followed by what comes after the list ([o]), whose innermost limit is [len w] and whose
    outer limits [st] have already been reduced by the sizes of the lists entered. *)
Definition stk (il : bool) (w : bytes) (st : list N) : list N := if il then len w :: st else [].
Definition pos (il : bool) (w o : bytes) (st : list N) : stream := mkS (w ++ o) (stk il w st) None.
Definition kpos (il : bool) (c : kind * N * byte) (w o : bytes) (st : list N) : stream :=
  mkS (w ++ o) (stk il w st) (Some c).
Definition sound (il : bool) (w o : bytes) (st : list N) : Prop :=
  len (w ++ o) < two64 /\ ssum st <= len o /\ Forall (fun l => l < two64) st /\ (il = false -> o = [] /\ st = []).

(** the machine is at [w]: before the header, or after it with the kind cached, or after it with
    a cached kind whose size passed Kind's test (against the limit BEFORE the header) but does
    not fit what is left of the list: the window decoder has already failed there *)
Definition at_pos (il : bool) (w o : bytes) (st : list N) (s : stream) : Prop :=
  s = pos il w o st
  \/ (exists k size bv rest, read_kind il w = KOk k size bv rest /\ s = kpos il (k, size, bv) rest o st)
  \/ (exists e k size bv rest, read_kind il w = KErr e /\ il = true /\ k <> KByte /\
        s = kpos true (k, size, bv) rest o st /\ len rest < size /\ size <= len (rest ++ o) /\ len rest < len w).

Definition bad {A} (r : sres A) : Prop :=
  match r with SErr _ => True | SOk _ s' => inv s' /\ doomed s' end.
Definition simres {A} (il : bool) (o : bytes) (st : list N) (r : res A) (sr : sres A) : Prop :=
  match r with
  | Ok v w' _ => sr = SOk v (pos il w' o st)
  | Err _ _ => bad sr
  end.

Lemma sound_len il w o st : sound il w o st -> len w < two64.
Proof. intros (H & _). rewrite len_app in H. lia. Qed.
Lemma inv_pos il w o st : sound il w o st -> inv (pos il w o st).
Proof.
  intros (H1 & H2 & H3 & H4). split; [exact H1|]. split; [|exact I].
  cbn [pos s_stack]. unfold stk. destruct il; [|constructor]. constructor; [rewrite len_app in H1; lia|exact H3].
Qed.
Lemma sound_shrink il w w' o st : sound il w o st -> len w' <= len w -> sound il w' o st.
Proof. intros (H1 & H2 & H3 & H4) Hl. split; [rewrite len_app in *; lia|auto]. Qed.

Lemma bad_mono {A} s (r : sres A) : inv s -> doomed s -> mono s r -> bad r.
Proof.
  intros Hi Hd Hm. destruct r as [v s'|]; [|exact I]. destruct Hm as (Hi' & _ & Hle).
  split; [exact Hi'|eapply doomed_dle; eassumption].
Qed.
Lemma bad_smap {A B} (g : A -> B) (r : sres A) : bad r -> bad (smap g r).
Proof. destruct r; exact (fun H => H). Qed.

(** reading from a position *)
Lemma read_full_eq il r o st c n : (il = false -> o = []) ->
  s_read_full n (mkS (r ++ o) (stk il r st) c) =
  if len r <? n then SErr (too_large il) else SOk (take n r) (pos il (drop n r) o st).
Proof.
  intros Ho. unfold s_read_full, pos. cbn [s_in s_stack]. destruct il; cbn [stk too_large].
  - destruct (N.ltb_spec (len r) n); [reflexivity|].
    destruct (N.ltb_spec (len (r ++ o)) n) as [Hlt|_]; [rewrite len_app in Hlt; lia|].
    rewrite take_app_le, drop_app_le by assumption. rewrite len_drop. reflexivity.
  - rewrite (Ho eq_refl), !app_nil_r. destruct (len r <? n); reflexivity.
Qed.

Lemma read_uint_eq il size r o st c : (il = false -> o = []) ->
  s_read_uint size (mkS (r ++ o) (stk il r st) c) =
  match read_uint il size r with
  | UOk v r' => SOk v (pos il r' o st)
  | UErr e => SErr e
  end.
Proof.
  intros Ho. unfold s_read_uint, read_uint. destruct (size =? 0); [reflexivity|].
  rewrite read_full_eq by exact Ho. cbn [sbind].
  destruct (len r <? size); [reflexivity|]. cbn [sbind].
  destruct (size =? 1); [reflexivity|]. destruct (bN (hd x00 (take size r)) =? 0); reflexivity.
Qed.

(** readKind without Kind's size test *)
Definition pre_kind (il : bool) (bs : bytes) : kres :=
  match bs with
  | [] => KErr (if il then EElemTooLarge else EEOF)
  | b :: r =>
    let t := bN b in
    if t <? 128 then KOk KByte 0 b r
    else if t <? 184 then KOk KString (t - 128) x00 r
    else if t <? 192 then
      match read_uint il (t - 183) r with
      | UErr e => KErr e
      | UOk size r' => if size <? 56 then KErr ECanonSize else KOk KString size x00 r'
      end
    else if t <? 248 then KOk KList (t - 192) x00 r
    else
      match read_uint il (t - 247) r with
      | UErr e => KErr e
      | UOk size r' => if size <? 56 then KErr ECanonSize else KOk KList size x00 r'
      end
  end.

Lemma read_kind_pre il b r :
  read_kind il (b :: r) =
  match pre_kind il (b :: r) with
  | KOk KByte size bv r' => KOk KByte size bv r'
  | KOk k size bv r' => chk_size il k size r'
  | KErr e => KErr e
  end.
Proof.
  unfold read_kind, pre_kind. cbv zeta.
  destruct (bN b <? 128); [reflexivity|]. destruct (bN b <? 184); [reflexivity|].
  destruct (bN b <? 192).
  { destruct (read_uint il (bN b - 183) r); [|reflexivity]. destruct (v <? 56); reflexivity. }
  destruct (bN b <? 248); [reflexivity|].
  destruct (read_uint il (bN b - 247) r); [|reflexivity]. destruct (v <? 56); reflexivity.
Qed.

Lemma pre_kind_props il bs k size bv r' :
  pre_kind il bs = KOk k size bv r' -> len r' < len bs /\ (k = KByte -> size = 0) /\ (k <> KByte -> bv = x00).
Proof.
  destruct bs as [|b r]; [discriminate|]. unfold pre_kind. cbv zeta. rewrite len_cons.
  assert (Hu : forall n v r'', read_uint il n r = UOk v r'' -> len r'' <= len r).
  { intros n v r'' E. unfold read_uint in E. destruct (n =? 0); [injection E as _ <-; lia|].
    destruct (len r <? n); [discriminate|].
    destruct (n =? 1); [injection E as _ <-; rewrite len_drop; lia|].
    destruct (bN (hd x00 (take n r)) =? 0); [discriminate|]. injection E as _ <-. rewrite len_drop. lia. }
  destruct (bN b <? 128). { intros E. injection E as <- <- <- <-. split; [lia|]. split; [reflexivity|congruence]. }
  destruct (bN b <? 184). { intros E. injection E as <- <- <- <-. split; [lia|]. split; [discriminate|reflexivity]. }
  destruct (bN b <? 192).
  { destruct (read_uint il (bN b - 183) r) as [v r''|] eqn:E'; [|discriminate]. destruct (v <? 56); [discriminate|].
    intros E. injection E as <- <- <- <-. apply Hu in E'. split; [lia|]. split; [discriminate|reflexivity]. }
  destruct (bN b <? 248). { intros E. injection E as <- <- <- <-. split; [lia|]. split; [discriminate|reflexivity]. }
  destruct (read_uint il (bN b - 247) r) as [v r''|] eqn:E'; [|discriminate]. destruct (v <? 56); [discriminate|].
  intros E. injection E as <- <- <- <-. apply Hu in E'. split; [lia|]. split; [discriminate|reflexivity].
Qed.

Lemma s_read_kind_eq il b r o st : (il = false -> o = []) ->
  s_read_kind (pos il (b :: r) o st) =
  match pre_kind il (b :: r) with
  | KOk k size bv r' => SOk (k, size, bv) (pos il r' o st)
  | KErr e => SErr e
  end.
Proof.
  intros Ho. unfold s_read_kind, pos. rewrite read_full_eq by exact Ho.
  rewrite len_cons. destruct (N.ltb_spec (1 + len r) 1); [lia|].
  change (take 1 (b :: r)) with [b]. change (drop 1 (b :: r)) with r. cbn [hd]. cbv zeta.
  unfold pre_kind. cbv zeta. unfold pos.
  destruct (bN b <? 128); [reflexivity|]. destruct (bN b <? 184); [reflexivity|].
  destruct (bN b <? 192).
  { rewrite read_uint_eq by exact Ho. destruct (read_uint il (bN b - 183) r); [|reflexivity]. cbn [sbind].
    destruct (v <? 56); reflexivity. }
  destruct (bN b <? 248); [reflexivity|].
  rewrite read_uint_eq by exact Ho. destruct (read_uint il (bN b - 247) r); [|reflexivity]. cbn [sbind].
  destruct (v <? 56); reflexivity.
Qed.

Lemma read_uint_err il n r e : read_uint il n r = UErr e -> e <> EEOL.
Proof.
  unfold read_uint. destruct (n =? 0); [discriminate|]. destruct (len r <? n).
  - intros E. injection E as <-. destruct il; discriminate.
  - destruct (n =? 1); [discriminate|]. destruct (bN (hd x00 (take n r)) =? 0); [|discriminate].
    intros E. injection E as <-. discriminate.
Qed.
Lemma pre_kind_err il bs e : pre_kind il bs = KErr e -> e <> EEOL.
Proof.
  destruct bs as [|b r]; cbn [pre_kind].
  - intros E. injection E as <-. destruct il; discriminate.
  - cbv zeta. destruct (bN b <? 128); [discriminate|]. destruct (bN b <? 184); [discriminate|].
    destruct (bN b <? 192).
    { destruct (read_uint il (bN b - 183) r) eqn:Eu.
      - destruct (v <? 56); [|discriminate]. intros E. injection E as <-. discriminate.
      - intros E. injection E as <-. eapply read_uint_err; exact Eu. }
    destruct (bN b <? 248); [discriminate|].
    destruct (read_uint il (bN b - 247) r) eqn:Eu.
    + destruct (v <? 56); [|discriminate]. intros E. injection E as <-. discriminate.
    + intros E. injection E as <-. eapply read_uint_err; exact Eu.
Qed.

(** Kind at a position before a non-empty window, as one equation *)
Lemma s_kind_eq il b r o st : (il = false -> o = []) ->
  s_kind (pos il (b :: r) o st) =
  match pre_kind il (b :: r) with
  | KErr e => SErr e
  | KOk k size bv r' =>
    if (if il then len (b :: r) <? size else false) then SErr EElemTooLarge
    else if len (r' ++ o) <? size then SErr EValueTooLarge
    else SOk (k, size, bv) (kpos il (k, size, bv) r' o st)
  end.
Proof.
  intros Ho. pose proof (s_read_kind_eq il b r o st Ho) as Hrk.
  unfold s_kind. unfold pos in *. cbn [s_cache s_stack]. destruct il; cbn [stk] in *.
  - destruct (N.eqb_spec (len (b :: r)) 0) as [E|_]; [rewrite len_cons in E; lia|].
    rewrite Hrk. destruct (pre_kind true (b :: r)) as [k size bv r'|e]; reflexivity.
  - rewrite Hrk. destruct (pre_kind false (b :: r)) as [k size bv r'|e]; reflexivity.
Qed.

(** the three outcomes of Kind at a position *)
Inductive kind_case (il : bool) (w o : bytes) (st : list N) (s : stream) : Prop :=
| KGood k size bv rest :
    read_kind il w = KOk k size bv rest -> s_kind s = SOk (k, size, bv) (kpos il (k, size, bv) rest o st) ->
    size <= len rest -> len rest < len w -> kind_case il w o st s
| KFail e e' : read_kind il w = KErr e -> s_kind s = SErr e' -> (e' = EEOL -> w = [] /\ s = pos il w o st) -> kind_case il w o st s
| KQuirk e k size bv rest :
    read_kind il w = KErr e -> il = true -> k <> KByte ->
    s_kind s = SOk (k, size, bv) (kpos true (k, size, bv) rest o st) ->
    len rest < size -> size <= len (rest ++ o) -> len rest < len w -> kind_case il w o st s.

Lemma kind_cases il w o st s : sound il w o st -> at_pos il w o st s -> kind_case il w o st s.
Proof.
  intros Hs [->|[(k & size & bv & rest & Ek & ->)|(e & k & size & bv & rest & Ek & Hil & Hk & -> & H1 & H2 & H3)]].
  - (* before the header *)
    destruct Hs as (Hl & Hsum & Hst & Htop).
    assert (Ho : il = false -> o = []) by (intros E; apply Htop; exact E).
    destruct w as [|b r].
    + destruct il.
      * eapply KFail; [reflexivity|reflexivity|auto].
      * destruct (Htop eq_refl) as [-> ->]. eapply KFail; [reflexivity|reflexivity|discriminate].
    + pose proof (s_kind_eq il b r o st Ho) as Hsk. pose proof (read_kind_pre il b r) as Hrk.
      destruct (pre_kind il (b :: r)) as [k size bv r'|e] eqn:Ep.
      2:{ eapply KFail; [exact Hrk|exact Hsk|]. intros ->. exfalso. eapply pre_kind_err; [exact Ep|reflexivity]. }
      destruct (pre_kind_props _ _ _ _ _ _ Ep) as (Hlr & Hkb & Hbv).
      assert (Hcases : k = KByte \/ k <> KByte) by (destruct k; [left; reflexivity|right; discriminate|right; discriminate]).
      destruct Hcases as [->|Hnb].
      * rewrite (Hkb eq_refl) in *.
        eapply KGood; [exact Hrk| |lia|exact Hlr].
        rewrite Hsk. destruct il.
        -- destruct (N.ltb_spec (len (b :: r)) 0); [lia|]. destruct (N.ltb_spec (len (r' ++ o)) 0); [lia|reflexivity].
        -- destruct (N.ltb_spec (len (r' ++ o)) 0); [lia|reflexivity].
      * assert (Hrk' : read_kind il (b :: r) = chk_size il k size r')
          by (rewrite Hrk; destruct k; [contradiction|reflexivity|reflexivity]).
        rewrite (Hbv Hnb) in *. unfold chk_size in Hrk'.
        destruct (N.ltb_spec (len r') size) as [Hlt|Hge].
        -- destruct il.
           ++ destruct (N.ltb_spec (len (b :: r)) size) as [Hb|Hb].
              { eapply KFail; [exact Hrk'|exact Hsk|discriminate]. }
              destruct (N.ltb_spec (len (r' ++ o)) size) as [Hc|Hc].
              { eapply KFail; [exact Hrk'|exact Hsk|discriminate]. }
              eapply KQuirk; [exact Hrk'|reflexivity|exact Hnb|exact Hsk|exact Hlt|exact Hc|exact Hlr].
           ++ pose proof (Ho eq_refl) as Eo. subst o. rewrite app_nil_r in Hsk.
              destruct (N.ltb_spec (len r') size); [|lia].
              eapply KFail; [exact Hrk'|exact Hsk|discriminate].
        -- eapply KGood; [exact Hrk'| |exact Hge|exact Hlr].
           rewrite Hsk. destruct il.
           ++ destruct (N.ltb_spec (len (b :: r)) size); [lia|].
              destruct (N.ltb_spec (len (r' ++ o)) size) as [Hc|]; [rewrite len_app in Hc; lia|reflexivity].
           ++ destruct (N.ltb_spec (len (r' ++ o)) size) as [Hc|]; [rewrite len_app in Hc; lia|reflexivity].
  - pose proof Ek as Ek'. apply read_kind_canon, kind_spec_len in Ek'. destruct Ek' as [Hl Hsz].
    eapply KGood; [exact Ek|reflexivity|exact Hsz|exact Hl].
  - subst il. eapply KQuirk; [exact Ek|reflexivity|exact Hk|reflexivity|exact H1|exact H2|exact H3].
Qed.

(** * Part 3: the scalar decoders at a position *)
Lemma kpos_read_full il c rest o st n : (il = false -> o = []) ->
  s_read_full n (kpos il c rest o st) =
  if len rest <? n then SErr (too_large il) else SOk (take n rest) (pos il (drop n rest) o st).
Proof. intros Ho. unfold kpos. apply read_full_eq. exact Ho. Qed.
Lemma kpos_read_uint il c rest o st n : (il = false -> o = []) ->
  s_read_uint n (kpos il c rest o st) =
  match read_uint il n rest with UOk v r' => SOk v (pos il r' o st) | UErr e => SErr e end.
Proof. intros Ho. unfold kpos. apply read_uint_eq. exact Ho. Qed.
Lemma kpos_rearm il c rest o st : rearm (kpos il c rest o st) = pos il rest o st.
Proof. reflexivity. Qed.
Lemma sound_o il w o st : sound il w o st -> il = false -> o = [].
Proof. intros (_ & _ & _ & H) E. apply H. exact E. Qed.

Ltac ltb_lia :=
  repeat match goal with
         | |- context [N.ltb ?a ?b] => destruct (N.ltb_spec a b); try lia
         end.

Lemma bytes_sim il w o st s : sound il w o st -> at_pos il w o st s ->
  simres il o st (dec_bytes il w) (s_bytes s).
Proof.
  intros Hs Hp. pose proof (sound_o _ _ _ _ Hs) as Ho. unfold dec_bytes, s_bytes.
  destruct (kind_cases il w o st s Hs Hp) as [k size bv rest Ek Esk Hsz Hl|e e' Ek Esk _|e k size bv rest Ek Hil Hk Esk H1 H2 H3];
    rewrite Ek, Esk; cbn [sbind simres].
  - destruct k; cbn [simres].
    + reflexivity.
    + rewrite kpos_read_full by exact Ho. destruct (N.ltb_spec (len rest) size); [lia|]. cbn [sbind].
      destruct ((size =? 1) && (bN (hd x00 (take size rest)) <? 128)); cbn [simres bad]; [exact I|reflexivity].
    + exact I.
  - exact I.
  - subst il. destruct k; [contradiction| |exact I].
    rewrite kpos_read_full by discriminate. destruct (N.ltb_spec (len rest) size); [exact I|lia].
Qed.

Lemma uint_sim bits il w o st s : sound il w o st -> at_pos il w o st s ->
  simres il o st (dec_uint bits il w) (s_uint bits s).
Proof.
  intros Hs Hp. pose proof (sound_o _ _ _ _ Hs) as Ho. unfold dec_uint, s_uint.
  destruct (kind_cases il w o st s Hs Hp) as [k size bv rest Ek Esk Hsz Hl|e e' Ek Esk _|e k size bv rest Ek Hil Hk Esk H1 H2 H3];
    rewrite Ek, Esk; cbn [sbind simres].
  - destruct k; cbn [simres].
    + destruct (bN bv =? 0); cbn [simres bad]; [exact I|reflexivity].
    + destruct (bits / 8 <? size); cbn [simres bad]; [exact I|].
      rewrite kpos_read_uint by exact Ho. destruct (read_uint il size rest) as [v r'|e0].
      * destruct ((0 <? size) && (v <? 128)); cbn [simres bad]; [exact I|reflexivity].
      * destruct e0; exact I.
    + exact I.
  - exact I.
  - subst il. destruct k; [contradiction| |exact I].
    destruct (bits / 8 <? size); [exact I|].
    rewrite kpos_read_uint by discriminate. unfold read_uint.
    destruct (N.eqb_spec size 0); [lia|]. destruct (N.ltb_spec (len rest) size); [exact I|lia].
Qed.

Lemma bool_sim il w o st s : sound il w o st -> at_pos il w o st s ->
  simres il o st (dec_bool il w) (s_bool s).
Proof.
  intros Hs Hp. pose proof (uint_sim 8 il w o st s Hs Hp) as Hu. unfold dec_bool, s_bool.
  destruct (dec_uint 8 il w) as [v w' a|e a]; cbn [simres] in *.
  - rewrite Hu. cbn [sbind]. destruct (v =? 0); [reflexivity|]. destruct (v =? 1); [reflexivity|exact I].
  - destruct (s_uint 8 s) as [v s'|]; [|exact I]. cbn [sbind]. destruct Hu as [Hi Hd].
    destruct (v =? 0); [split; assumption|]. destruct (v =? 1); [split; assumption|exact I].
Qed.

Lemma big_sim il w o st s : sound il w o st -> at_pos il w o st s ->
  simres il o st (dec_big il w) (s_big s).
Proof.
  intros Hs Hp. pose proof (sound_o _ _ _ _ Hs) as Ho. unfold dec_big, s_big.
  destruct (kind_cases il w o st s Hs Hp) as [k size bv rest Ek Esk Hsz Hl|e e' Ek Esk _|e k size bv rest Ek Hil Hk Esk H1 H2 H3];
    rewrite Ek, Esk; cbn [sbind simres].
  - destruct k; cbn [simres].
    + destruct (bN bv =? 0); cbn [simres bad]; [exact I|reflexivity].
    + destruct (N.eqb_spec size 0); cbn [simres]; [reflexivity|].
      rewrite kpos_read_full by exact Ho. destruct (N.ltb_spec (len rest) size); [lia|]. cbn [sbind].
      destruct (N.leb_spec size 32); cbn [andb].
      * destruct ((size =? 1) && (bN (hd x00 (take size rest)) <? 128)); cbn [simres bad]; [exact I|].
        destruct (bN (hd x00 (take size rest)) =? 0); cbn [simres bad]; [exact I|reflexivity].
      * replace ((size =? 1) && (bN (hd x00 (take size rest)) <? 128)) with false
          by (destruct (N.eqb_spec size 1); [lia|reflexivity]).
        destruct (bN (hd x00 (take size rest)) =? 0); cbn [simres bad]; [exact I|reflexivity].
    + exact I.
  - exact I.
  - subst il. destruct k; [contradiction| |exact I].
    destruct (N.eqb_spec size 0); [lia|].
    rewrite kpos_read_full by discriminate. destruct (N.ltb_spec (len rest) size); [exact I|lia].
Qed.

Lemma array_sim n il w o st s : sound il w o st -> at_pos il w o st s ->
  simres il o st (dec_array n il w) (s_array n s).
Proof.
  intros Hs Hp. pose proof (sound_o _ _ _ _ Hs) as Ho. unfold dec_array, s_array.
  destruct (kind_cases il w o st s Hs Hp) as [k size bv rest Ek Esk Hsz Hl|e e' Ek Esk _|e k size bv rest Ek Hil Hk Esk H1 H2 H3];
    rewrite Ek, Esk; cbn [sbind simres].
  - destruct k; cbn [simres].
    + destruct (n =? 0); cbn [simres bad]; [exact I|]. destruct (1 <? n); cbn [simres bad]; [exact I|reflexivity].
    + destruct (n <? size); cbn [simres bad]; [exact I|]. destruct (size <? n); cbn [simres bad]; [exact I|].
      rewrite kpos_read_full by exact Ho. destruct (N.ltb_spec (len rest) size); [lia|]. cbn [sbind].
      destruct ((size =? 1) && (bN (hd x00 (take size rest)) <? 128)); cbn [simres bad]; [exact I|reflexivity].
    + exact I.
  - exact I.
  - subst il. destruct k; [contradiction| |exact I].
    destruct (n <? size); [exact I|]. destruct (size <? n); [exact I|].
    rewrite kpos_read_full by discriminate. destruct (N.ltb_spec (len rest) size); [exact I|lia].
Qed.

Lemma raw_sim il w o st s : sound il w o st -> at_pos il w o st s ->
  simres il o st (dec_raw il w) (s_raw s).
Proof.
  intros Hs Hp. pose proof (sound_o _ _ _ _ Hs) as Ho. unfold dec_raw, s_raw.
  destruct (kind_cases il w o st s Hs Hp) as [k size bv rest Ek Esk Hsz Hl|e e' Ek Esk _|e k size bv rest Ek Hil Hk Esk H1 H2 H3];
    rewrite Ek, Esk; cbn [sbind simres].
  - destruct k; cbn [simres]; [reflexivity| |];
      (rewrite kpos_read_full by exact Ho; destruct (N.ltb_spec (len rest) size); [lia|]; reflexivity).
  - exact I.
  - subst il. destruct k; [contradiction| |];
      (rewrite kpos_read_full by discriminate; destruct (N.ltb_spec (len rest) size); [exact I|lia]).
Qed.

(** * Part 4: end of list.  EOL is only ever produced by Kind, at a fresh position whose
    innermost limit is zero; the loops and the struct decoder rely on exactly that. *)
Definition noeol {A} (r : sres A) : Prop := r <> SErr EEOL.

Lemma noeol_err {A B} e : noeol (@SErr A e) -> noeol (@SErr B e).
Proof. unfold noeol. intros H E. injection E as ->. apply H. reflexivity. Qed.

Lemma noeol_read_full n s : noeol (s_read_full n s).
Proof.
  unfold noeol, s_read_full. destruct (s_stack s); repeat match goal with |- context [if ?c then _ else _] => destruct c end; discriminate.
Qed.
Lemma noeol_read_uint n s : noeol (s_read_uint n s).
Proof.
  unfold noeol, s_read_uint. destruct (n =? 0); [discriminate|].
  pose proof (noeol_read_full n s) as H. destruct (s_read_full n s) as [b s'|e]; cbn [sbind].
  - destruct (n =? 1); [discriminate|]. destruct (bN (hd x00 b) =? 0); discriminate.
  - intros E. injection E as ->. apply H. reflexivity.
Qed.
Lemma noeol_read_kind s : noeol (s_read_kind s).
Proof.
  unfold noeol, s_read_kind. pose proof (noeol_read_full 1 s) as H.
  destruct (s_read_full 1 s) as [b1 s1|e].
  - assert (Hu : forall n (k : kind), sbind (s_read_uint n s1) (fun size s2 =>
                 if size <? 56 then SErr ECanonSize else SOk (k, size, x00) s2) <> SErr EEOL).
    { intros n k. pose proof (noeol_read_uint n s1) as Hn. destruct (s_read_uint n s1) as [v s2|e]; cbn [sbind]; [|exact (noeol_err _ Hn)].
      destruct (v <? 56); discriminate. }
    destruct (bN (hd x00 b1) <? 128); [discriminate|]. destruct (bN (hd x00 b1) <? 184); [discriminate|].
    destruct (bN (hd x00 b1) <? 192); [apply Hu|]. destruct (bN (hd x00 b1) <? 248); [discriminate|apply Hu].
  - destruct (s_stack s); [destruct e; try discriminate; exact (noeol_err _ H)|exact (noeol_err _ H)].
Qed.

Lemma s_kind_eol_inv s : s_kind s = SErr EEOL -> s_cache s = None /\ exists r, s_stack s = 0 :: r.
Proof.
  unfold s_kind. destruct (s_cache s); [discriminate|]. intros H. split; [reflexivity|].
  pose proof (noeol_read_kind s) as Hn.
  destruct (s_stack s) as [|l r].
  - exfalso. destruct (s_read_kind s) as [[[k size] bv] s'|e]; cbn [sbind] in H; [|exact (Hn H)].
    destruct (len (s_in s') <? size); discriminate.
  - destruct (N.eqb_spec l 0) as [->|_]; [exists r; reflexivity|].
    exfalso. destruct (s_read_kind s) as [[[k size] bv] s'|e]; cbn [sbind] in H; [|exact (Hn H)].
    destruct (l <? size); [discriminate|]. destruct (len (s_in s') <? size); discriminate.
Qed.
Lemma s_kind_eol s r : s_cache s = None -> s_stack s = 0 :: r -> s_kind s = SErr EEOL.
Proof. intros Hc Hs. unfold s_kind. rewrite Hc, Hs. reflexivity. Qed.
Lemma s_kind_cached s c s' : s_kind s = SOk c s' -> s_cache s' = Some c.
Proof.
  unfold s_kind. destruct (s_cache s) eqn:Ec; [intros H; injection H as <- <-; exact Ec|].
  destruct (s_stack s) as [|l r].
  - destruct (s_read_kind s) as [[[k size] bv] s1|]; cbn [sbind]; [|discriminate].
    destruct (len (s_in s1) <? size); [discriminate|]. intros H. injection H as <- <-. reflexivity.
  - destruct (l =? 0); [discriminate|].
    destruct (s_read_kind s) as [[[k size] bv] s1|]; cbn [sbind]; [|discriminate].
    destruct (l <? size); [discriminate|]. destruct (len (s_in s1) <? size); [discriminate|].
    intros H. injection H as <- <-. reflexivity.
Qed.

(** an operation that starts with Kind and never produces EOL afterwards *)
Definition eol_from_kind {A} (P : stream -> sres A) : Prop := forall s, P s = SErr EEOL -> s_kind s = SErr EEOL.
Lemma eol_bind_kind {A} (body : kind * N * byte -> stream -> sres A) :
  (forall s c s', s_kind s = SOk c s' -> noeol (body c s')) -> eol_from_kind (fun s => sbind (s_kind s) body).
Proof.
  intros Hb s H. destruct (s_kind s) as [c s'|e] eqn:Ek; cbn [sbind] in H.
  - exfalso. exact (Hb s c s' Ek H).
  - injection H as ->. reflexivity.
Qed.
Lemma noeol_smap {A B} (g : A -> B) (r : sres A) : noeol r -> noeol (smap g r).
Proof. unfold noeol. destruct r; cbn [smap]; [discriminate|]. intros H E. injection E as ->. apply H. reflexivity. Qed.
Lemma eol_smap {A B} (g : A -> B) (P : stream -> sres A) : eol_from_kind P -> eol_from_kind (fun s => smap g (P s)).
Proof.
  intros HP s H. apply HP. destruct (P s); cbn [smap] in H; [discriminate|]. injection H as ->. reflexivity.
Qed.

Ltac noeol_tac :=
  unfold noeol;
  repeat first
    [ discriminate
    | match goal with |- (if ?c then _ else _) <> _ => destruct c end
    | match goal with |- (match ?c with (_, _) => _ end) <> _ => destruct c end
    | match goal with |- (match ?k with KByte => _ | KString => _ | KList => _ end) <> _ => destruct k end
    | match goal with
      | |- sbind (s_read_full ?n ?s) _ <> _ =>
          let H := fresh in pose proof (noeol_read_full n s) as H; unfold noeol in H;
          destruct (s_read_full n s); cbn [sbind]; [|exact (noeol_err _ H)]
      | |- smap _ (s_read_full ?n ?s) <> _ =>
          let H := fresh in pose proof (noeol_read_full n s) as H; unfold noeol in H;
          destruct (s_read_full n s); cbn [smap]; [discriminate|intros E; injection E as ->; apply H; reflexivity]
      end ].

Lemma eol_bytes : eol_from_kind s_bytes.
Proof. apply eol_bind_kind. intros s [[k size] bv] s' _. noeol_tac. Qed.
Lemma eol_uint bits : eol_from_kind (s_uint bits).
Proof.
  apply eol_bind_kind. intros s [[k size] bv] s' _. unfold noeol. destruct k.
  { destruct (bN bv =? 0); discriminate. }
  2:{ discriminate. }
  destruct (bits / 8 <? size); [discriminate|].
  pose proof (noeol_read_uint size s') as H. destruct (s_read_uint size s') as [v s''|e].
  - destruct ((0 <? size) && (v <? 128)); discriminate.
  - destruct e; try discriminate. exfalso. apply H. reflexivity.
Qed.
Lemma eol_bool : eol_from_kind s_bool.
Proof.
  intros s H. apply (eol_uint 8). unfold s_bool in H. destruct (s_uint 8 s) as [v s'|e]; cbn [sbind] in H.
  - destruct (v =? 0); [discriminate|]. destruct (v =? 1); discriminate.
  - injection H as ->. reflexivity.
Qed.
Lemma eol_big : eol_from_kind s_big.
Proof. apply eol_bind_kind. intros s [[k size] bv] s' _. noeol_tac. Qed.
Lemma eol_array n : eol_from_kind (s_array n).
Proof. apply eol_bind_kind. intros s [[k size] bv] s' _. noeol_tac. Qed.
Lemma eol_raw : eol_from_kind s_raw.
Proof. apply eol_bind_kind. intros s [[k size] bv] s' _. noeol_tac. Qed.
Lemma eol_list : eol_from_kind s_list.
Proof. apply eol_bind_kind. intros s [[k size] bv] s' _. noeol_tac. Qed.

Lemma noeol_list_end s : noeol (s_list_end s).
Proof. unfold noeol, s_list_end. destruct (s_stack s); [discriminate|]. destruct (0 <? n); discriminate. Qed.
Lemma noeol_slice_elems {A} (elem : stream -> sres A) n : forall s, noeol (s_slice_elems elem n s).
Proof.
  unfold noeol. induction n as [|n IH]; intros s; cbn [s_slice_elems]; destruct (elem s) as [x s'|e].
  - discriminate.
  - destruct e; discriminate.
  - specialize (IH s'). destruct (s_slice_elems elem n s'); cbn [smap]; [discriminate|].
    intros E. injection E as ->. apply IH. reflexivity.
  - destruct e; discriminate.
Qed.
Lemma eol_list_slice {A} (elem : stream -> sres A) : eol_from_kind (s_list_slice elem).
Proof.
  intros s H. apply eol_list. unfold s_list_slice in H. destruct (s_list s) as [size s'|e]; cbn [sbind] in H; [exfalso|injection H as ->; reflexivity].
  destruct (size =? 0).
  - pose proof (noeol_list_end s') as Hn. destruct (s_list_end s'); cbn [smap] in H; [discriminate|].
    injection H as ->. apply Hn. reflexivity.
  - pose proof (noeol_slice_elems elem (length (s_in s')) s') as Hn.
    destruct (s_slice_elems elem (length (s_in s')) s') as [xs s''|e]; cbn [sbind] in H.
    + pose proof (noeol_list_end s'') as Hn'. destruct (s_list_end s''); cbn [smap] in H; [discriminate|].
      injection H as ->. apply Hn'. reflexivity.
    + apply Hn. exact H.
Qed.
Lemma eol_item fuel : eol_from_kind (s_item fuel).
Proof.
  destruct fuel as [|f]; [intros s H; discriminate|]. cbn [s_item]. apply eol_bind_kind.
  intros s [[k size] bv] s' Ek. pose proof (s_kind_cached _ _ _ Ek) as Hc.
  assert (Hb : noeol (smap Str (s_bytes s'))).
  { apply noeol_smap. intros H. apply eol_bytes in H. unfold s_kind in H. rewrite Hc in H. discriminate. }
  destruct k; [exact Hb|exact Hb|].
  apply noeol_smap. intros H. apply eol_list_slice in H. unfold s_kind in H. rewrite Hc in H. discriminate.
Qed.

Lemma eol_val_mut :
  (forall t tg, eol_from_kind (s_val t tg)) /\ (forall fs s, noeol (s_fields fs s)).
Proof.
  apply ty_fields_ind'.
  - intros bits tg. cbn [s_val]. apply eol_smap, eol_uint.
  - intros tg. cbn [s_val]. apply eol_smap, eol_big.
  - intros tg. cbn [s_val]. apply eol_smap, eol_bool.
  - intros tg. cbn [s_val]. apply eol_smap, eol_bytes.
  - intros n tg. cbn [s_val]. apply eol_smap, eol_array.
  - intros tg. cbn [s_val]. apply eol_smap, eol_bytes.
  - intros e IH tg. cbn [s_val]. destruct (t_tail tg).
    + intros s H. exfalso. pose proof (noeol_slice_elems (s_val e no_tag) (length (s_in s)) s) as Hn.
      destruct (s_slice_elems (s_val e no_tag) (length (s_in s)) s); cbn [smap] in H; [discriminate|].
      injection H as ->. apply Hn. reflexivity.
    + apply eol_smap, eol_list_slice.
  - intros fs IH tg s H. apply eol_list. cbn [s_val] in H.
    destruct (s_list s) as [size s1|e]; cbn [sbind] in H; [exfalso|injection H as ->; reflexivity].
    specialize (IH s1). destruct (s_fields fs s1) as [vs s2|e]; cbn [sbind] in H; [|injection H as ->; apply IH; reflexivity].
    pose proof (noeol_list_end s2) as Hn. destruct (s_list_end s2); cbn [smap] in H; [discriminate|].
    injection H as ->. apply Hn. reflexivity.
  - intros e IH tg. cbn [s_val]. destruct (t_nil tg); try (apply eol_smap, IH);
      (apply eol_bind_kind; intros s [[k size] bv] s' Ek; pose proof (s_kind_cached _ _ _ Ek) as Hc;
       destruct (negb (kind_eqb k KByte) && (size =? 0));
       [destruct (kind_eqb k (nil_kind e tg)); discriminate|];
       apply noeol_smap; intros H; apply IH in H; unfold s_kind in H; rewrite Hc in H; discriminate).
  - intros tg. cbn [s_val]. apply eol_smap, eol_raw.
  - intros tg s. cbn [s_val]. apply eol_smap, eol_item.
  - intros s. discriminate.
  - intros t IHt tg r IHr s. cbn [s_fields]. destruct (t_ignored tg); [apply noeol_smap, IHr|].
    destruct (s_val t tg s) as [v s'|e].
    + apply noeol_smap, IHr.
    + destruct e; try discriminate. destruct (t_optional tg); discriminate.
Qed.

(** at a fresh position whose limit is zero every decoder without a tail tag answers EOL *)
Lemma eol_at_zero_bind {A} (body : kind * N * byte -> stream -> sres A) s r :
  s_cache s = None -> s_stack s = 0 :: r -> sbind (s_kind s) body = SErr EEOL.
Proof. intros Hc Hs. rewrite (s_kind_eol s r Hc Hs). reflexivity. Qed.
Lemma list_at_zero s r : s_cache s = None -> s_stack s = 0 :: r -> s_list s = SErr EEOL.
Proof. intros Hc Hs. unfold s_list. apply (eol_at_zero_bind _ s r Hc Hs). Qed.
Lemma val_at_zero : forall t tg s r, t_tail tg = false -> s_cache s = None -> s_stack s = 0 :: r -> s_val t tg s = SErr EEOL.
Proof.
  induction t as [bits| | | |n| |e IH|fs|e IH| |]; intros tg s r Ht Hc Hs; cbn [s_val].
  - unfold s_uint. rewrite (eol_at_zero_bind _ s r Hc Hs). reflexivity.
  - unfold s_big. rewrite (eol_at_zero_bind _ s r Hc Hs). reflexivity.
  - unfold s_bool, s_uint. rewrite (eol_at_zero_bind _ s r Hc Hs). reflexivity.
  - unfold s_bytes. rewrite (eol_at_zero_bind _ s r Hc Hs). reflexivity.
  - unfold s_array. rewrite (eol_at_zero_bind _ s r Hc Hs). reflexivity.
  - unfold s_bytes. rewrite (eol_at_zero_bind _ s r Hc Hs). reflexivity.
  - rewrite Ht. unfold s_list_slice. rewrite (list_at_zero s r Hc Hs). reflexivity.
  - rewrite (list_at_zero s r Hc Hs). reflexivity.
  - destruct (t_nil tg); try (rewrite (IH no_tag s r eq_refl Hc Hs); reflexivity);
      rewrite (eol_at_zero_bind _ s r Hc Hs); reflexivity.
  - unfold s_raw. rewrite (eol_at_zero_bind _ s r Hc Hs). reflexivity.
  - cbn [s_item]. rewrite (eol_at_zero_bind _ s r Hc Hs). reflexivity.
Qed.
Lemma item_at_zero f s r : s_cache s = None -> s_stack s = 0 :: r -> s_item (S f) s = SErr EEOL.
Proof. intros Hc Hs. cbn [s_item]. rewrite (eol_at_zero_bind _ s r Hc Hs). reflexivity. Qed.

(** * Part 5: lists at a position *)
Lemma list_good il rest o st size bv : size <= len rest -> len rest < two64 ->
  s_list (kpos il (KList, size, bv) rest o st) =
  SOk size (pos true (take size rest) (drop size rest ++ o) (stk il (drop size rest) st)).
Proof.
  intros Hsz Hl. unfold s_list, s_kind, kpos, pos. cbn [s_cache sbind s_stack s_in].
  assert (Ht : len (take size rest) = size) by (apply len_take; exact Hsz).
  assert (Ea : rest ++ o = take size rest ++ drop size rest ++ o) by (rewrite app_assoc, take_drop; reflexivity).
  destruct il; cbn [stk].
  - rewrite Ht, <- Ea. f_equal. f_equal. f_equal. f_equal.
    rewrite len_drop. replace (len rest + two64 - size) with (len rest - size + 1 * two64) by lia.
    rewrite N.mod_add by (unfold two64; lia). apply N.mod_small. lia.
  - rewrite Ht, <- Ea. reflexivity.
Qed.

Lemma list_quirk rest o st size bv : len rest < size -> size <= len (rest ++ o) -> len (rest ++ o) < two64 ->
  Forall (fun l => l < two64) st ->
  exists s1, s_list (kpos true (KList, size, bv) rest o st) = SOk size s1 /\ inv s1 /\ doomed s1.
Proof.
  intros H1 H2 H3 Hst. unfold s_list, s_kind, kpos. cbn [s_cache sbind s_stack s_in stk].
  eexists. split; [reflexivity|]. rewrite len_app in *.
  assert (Hm : (len rest + two64 - size) mod two64 = len rest + two64 - size) by (apply N.mod_small; lia).
  split.
  - split; cbn [s_in s_stack s_cache]; [rewrite len_app; lia|]. split; [|exact I].
    constructor; [lia|]. constructor; [rewrite Hm; lia|exact Hst].
  - unfold doomed. cbn [s_in s_stack ssum fold_right]. rewrite Hm, len_app. lia.
Qed.

Lemma list_end_zero o' st' : s_list_end (pos true [] o' st') = SOk tt (mkS o' st' None).
Proof. reflexivity. Qed.
Lemma list_end_nonzero b p o' st' : s_list_end (pos true (b :: p) o' st') = SErr ENotAtEOL.
Proof.
  unfold s_list_end, pos. cbn [s_stack stk]. rewrite len_cons. destruct (N.ltb_spec 0 (1 + len p)); [reflexivity|lia].
Qed.

Lemma sound_inner il w o st rest size :
  sound il w o st -> len rest < len w -> size <= len rest ->
  sound true (take size rest) (drop size rest ++ o) (stk il (drop size rest) st).
Proof.
  intros (H1 & H2 & H3 & H4) Hl Hsz.
  assert (Hlen : len (take size rest ++ drop size rest ++ o) = len rest + len o).
  { rewrite app_assoc, take_drop, len_app. reflexivity. }
  split; [rewrite Hlen; rewrite len_app in H1; lia|].
  split; [|split; [|discriminate]].
  - unfold ssum in *. destruct il; cbn [stk fold_right]; rewrite len_app; lia.
  - destruct il; cbn [stk]; [|constructor]. constructor; [rewrite len_drop; rewrite len_app in H1; lia|exact H3].
Qed.

(** what the loops need from an element decoder ([L] bounds the windows it is trusted on) *)
Record elem_ok {A} (L : nat) (welem : bytes -> res A) (selem : stream -> sres A) : Prop := {
  e_sim : forall p o st s, (length p <= L)%nat -> sound true p o st -> at_pos true p o st s ->
                           simres true o st (welem p) (selem s);
  e_prog : forall p v p' a, welem p = Ok v p' a -> len p' < len p;
  e_mono : forall s, inv s -> mono s (selem s);
  e_eol : eol_from_kind selem;
  e_zero : (1 <= L)%nat -> forall s r, s_cache s = None -> s_stack s = 0 :: r -> selem s = SErr EEOL }.

Lemma len_lt_length {A} (a b : list A) : len a < len b -> (length a < length b)%nat.
Proof. unfold len. lia. Qed.

Lemma slice_elems_sim {A} L (welem : bytes -> res A) (selem : stream -> sres A) :
  elem_ok L welem selem -> (1 <= L)%nat ->
  forall n m p o st, sound true p o st -> (length p <= n)%nat -> (length p <= m)%nat -> (length p <= L)%nat ->
    match slice_elems welem n p with
    | Ok xs _ _ => s_slice_elems selem m (pos true p o st) = SOk xs (pos true [] o st)
    | Err _ _ => bad (s_slice_elems selem m (pos true p o st))
    end.
Proof.
  intros [Hsim Hprog Hmono Heol Hzero'] HL1. pose proof (Hzero' HL1) as Hzero.
  induction n as [|n IH]; intros m p o st Hs Hn Hm HL.
  - destruct p; [|cbn in Hn; lia]. cbn [slice_elems].
    assert (E : selem (pos true [] o st) = SErr EEOL) by (eapply Hzero; reflexivity).
    destruct m; cbn [s_slice_elems]; rewrite E; reflexivity.
  - destruct p as [|b p'].
    + cbn [slice_elems].
      assert (E : selem (pos true [] o st) = SErr EEOL) by (eapply Hzero; reflexivity).
      destruct m; cbn [s_slice_elems]; rewrite E; reflexivity.
    + cbn [slice_elems]. set (p := b :: p') in *.
      pose proof (Hsim p o st (pos true p o st) HL Hs (or_introl eq_refl)) as He.
      destruct m as [|m]; [cbn in Hm; lia|]. cbn [s_slice_elems].
      destruct (welem p) as [x p1 a|e a] eqn:Ew; cbn [bind simres] in *.
      * rewrite He. apply Hprog in Ew.
        assert (Hs1 : sound true p1 o st) by (eapply sound_shrink; [exact Hs|lia]).
        apply len_lt_length in Ew.
        specialize (IH m p1 o st Hs1 ltac:(lia) ltac:(lia) ltac:(lia)).
        destruct (slice_elems welem n p1) as [xs r a'|e a']; cbn [rmap].
        -- rewrite IH. reflexivity.
        -- apply bad_smap. exact IH.
      * destruct (selem (pos true p o st)) as [x s'|e'] eqn:Es.
        -- destruct He as [Hi Hd]. apply bad_smap. eapply bad_mono; [exact Hi|exact Hd|].
           apply mono_slice_elems; [exact Hmono|exact Hi].
        -- destruct e'; try exact I.
           exfalso. apply Heol, s_kind_eol_inv in Es. destruct Es as [_ [r Er]].
           unfold pos, p in Er. cbn [s_stack stk] in Er. rewrite len_cons in Er. assert (E0 : 1 + len p' = 0) by congruence. lia.
Qed.

(** the part of decodeListSlice after List() *)
Definition lsr {A} (elem : stream -> sres A) (size : N) (s' : stream) : sres (list A) :=
  if size =? 0 then smap (fun _ => []) (s_list_end s')
  else sbind (s_slice_elems elem (length (s_in s')) s') (fun xs s'' => smap (fun _ => xs) (s_list_end s'')).
Lemma list_slice_lsr {A} (elem : stream -> sres A) s : s_list_slice elem s = sbind (s_list s) (lsr elem).
Proof. reflexivity. Qed.

Lemma bad_list_end {B} (xs : B) s : inv s -> doomed s -> bad (smap (fun _ => xs) (s_list_end s)).
Proof.
  intros Hi Hd. destruct (s_list_end s) as [[] s'|] eqn:E; [|exact I]. cbn [smap].
  destruct (list_end_ok s s' Hi E) as (Hi' & _ & Hle). split; [exact Hi'|eapply doomed_dle; eassumption].
Qed.
Lemma bad_lsr {A} (elem : stream -> sres A) size s1 :
  (forall s, inv s -> mono s (elem s)) -> inv s1 -> doomed s1 -> bad (lsr elem size s1).
Proof.
  intros Hm Hi Hd. unfold lsr. destruct (size =? 0); [apply bad_list_end; assumption|].
  pose proof (mono_slice_elems elem Hm (length (s_in s1)) s1 Hi) as Hl.
  destruct (s_slice_elems elem (length (s_in s1)) s1) as [xs s2|]; [|exact I]. cbn [sbind].
  destruct Hl as (Hi2 & _ & Hle). apply bad_list_end; [exact Hi2|eapply doomed_dle; eassumption].
Qed.

Lemma sound_stack il w o st : sound il w o st -> Forall (fun l => l < two64) st.
Proof. intros (_ & _ & H & _). exact H. Qed.

Lemma dec_list_sim {A} L (welem : bytes -> res A) (selem : stream -> sres A) il w o st s :
  elem_ok L welem selem -> (forall k size bv rest, read_kind il w = KOk k size bv rest -> (length rest <= L)%nat) ->
  sound il w o st -> at_pos il w o st s ->
  simres il o st (dec_list welem il w) (s_list_slice selem s).
Proof.
  intros Hel HL Hs Hp. rewrite list_slice_lsr. unfold dec_list, s_list at 1.
  destruct (kind_cases il w o st s Hs Hp) as [k size bv rest Ek Esk Hsz Hl|e e' Ek Esk _|e k size bv rest Ek Hil Hk Esk H1 H2 H3].
  - rewrite Ek.
    assert (Hlr : len rest < two64) by (pose proof (sound_len _ _ _ _ Hs); lia).
    destruct k.
    + rewrite Esk. cbn [sbind simres]. exact I.
    + rewrite Esk. cbn [sbind simres]. exact I.
    + (* a list: enter it *)
      assert (El : s_list s = SOk size (pos true (take size rest) (drop size rest ++ o) (stk il (drop size rest) st))).
      { unfold s_list. rewrite Esk. cbn [sbind]. pose proof (list_good il rest o st size bv Hsz Hlr) as Hg.
        unfold s_list, s_kind, kpos in Hg. cbn [s_cache sbind] in Hg. exact Hg. }
      fold (s_list s). rewrite El. cbn [sbind]. unfold lsr.
      pose proof (sound_inner il w o st rest size Hs Hl Hsz) as Hin.
      destruct (N.eqb_spec size 0) as [->|Hnz].
      * change (take 0 rest) with (@nil byte). rewrite list_end_zero. cbn [smap simres]. reflexivity.
      * set (p := take size rest) in *.
        assert (Hpl : (length p <= L)%nat).
        { pose proof (HL _ _ _ _ Ek) as HLr. assert (len p <= len rest) by (unfold p; rewrite len_take by exact Hsz; lia). unfold len in *. lia. }
        assert (HL1 : (1 <= L)%nat).
        { assert (len p = size) by (unfold p; apply len_take; exact Hsz). unfold len in *. lia. }
        assert (Hfuel : (length p <= length (s_in (pos true p (drop size rest ++ o) (stk il (drop size rest) st))))%nat).
        { unfold pos. cbn [s_in]. rewrite app_length. lia. }
        pose proof (slice_elems_sim L welem selem Hel HL1 (length p) _ p _ _ Hin (le_n _) Hfuel Hpl) as Hse.
        destruct (slice_elems welem (length p) p) as [xs r a|e a]; cbn [simres].
        -- rewrite Hse. cbn [sbind]. rewrite list_end_zero. reflexivity.
        -- destruct (s_slice_elems selem _ _) as [xs s2|]; [|exact I]. cbn [sbind]. destruct Hse as [Hi Hd].
           apply bad_list_end; assumption.
  - rewrite Ek. unfold s_list. rewrite Esk. exact I.
  - rewrite Ek. cbn [simres]. subst il. destruct k; [contradiction| |].
    + rewrite Esk. exact I.
    + fold (s_list s).
      destruct (list_quirk rest o st size bv H1 H2) as (s1 & El & Hi & Hd).
      { destruct Hs as (Hlen & _). pose proof Ek as Ek'.
        assert (len (rest ++ o) <= len (w ++ o)) by (rewrite !len_app; lia). lia. }
      { eapply sound_stack; exact Hs. }
      assert (El' : s_list s = SOk size s1).
      { unfold s_list. rewrite Esk. cbn [sbind]. unfold s_list, s_kind, kpos in El. cbn [s_cache sbind] in El. exact El. }
      rewrite El'. cbn [sbind]. apply bad_lsr; [apply (e_mono _ _ _ Hel)|exact Hi|exact Hd].
Qed.

(** * Part 6: every decoder without a tail tag consumes at least the header *)
Ltac prog_tac :=
  repeat match goal with
         | H : Ok _ _ _ = Ok _ _ _ |- _ => injection H as <- <- <-
         | H : Err _ _ = Ok _ _ _ |- _ => discriminate H
         | H : context [if ?c then _ else _] |- _ => destruct c
         | H : context [match ?k with KByte => _ | KString => _ | KList => _ end] |- _ => destruct k
         end; rewrite ?len_drop; try lia.

Lemma kind_ok_len il p k size bv r : read_kind il p = KOk k size bv r -> len r < len p /\ size <= len r.
Proof. intros E. apply read_kind_canon, kind_spec_len in E. exact E. Qed.

Lemma prog_bytes il p v p' a : dec_bytes il p = Ok v p' a -> len p' < len p.
Proof.
  unfold dec_bytes. destruct (read_kind il p) as [k size bv r|] eqn:Ek; [|discriminate].
  apply kind_ok_len in Ek. destruct Ek. intros HH. prog_tac.
Qed.
Lemma prog_uint bits il p v p' a : dec_uint bits il p = Ok v p' a -> len p' < len p.
Proof.
  unfold dec_uint. destruct (read_kind il p) as [k size bv r|] eqn:Ek; [|discriminate].
  apply kind_ok_len in Ek. destruct Ek as [Hl Hs]. destruct k; [| |discriminate].
  - intros HH. prog_tac.
  - destruct (bits / 8 <? size); [discriminate|].
    unfold read_uint. destruct (size =? 0). { intros HH. prog_tac. }
    destruct (len r <? size); [destruct il; discriminate|]. destruct (size =? 1). { intros HH. prog_tac. }
    destruct (bN (hd x00 (take size r)) =? 0); [discriminate|]. intros HH. prog_tac.
Qed.
Lemma prog_bool il p v p' a : dec_bool il p = Ok v p' a -> len p' < len p.
Proof.
  unfold dec_bool. destruct (dec_uint 8 il p) as [x r a0|] eqn:E; [|discriminate].
  apply prog_uint in E. intros HH. prog_tac.
Qed.
Lemma prog_big il p v p' a : dec_big il p = Ok v p' a -> len p' < len p.
Proof.
  unfold dec_big. destruct (read_kind il p) as [k size bv r|] eqn:Ek; [|discriminate].
  apply kind_ok_len in Ek. destruct Ek. intros HH. prog_tac.
Qed.
Lemma prog_array n il p v p' a : dec_array n il p = Ok v p' a -> len p' < len p.
Proof.
  unfold dec_array. destruct (read_kind il p) as [k size bv r|] eqn:Ek; [|discriminate].
  apply kind_ok_len in Ek. destruct Ek. intros HH. prog_tac.
Qed.
Lemma prog_raw il p v p' a : dec_raw il p = Ok v p' a -> len p' < len p.
Proof.
  unfold dec_raw. destruct (read_kind il p) as [k size bv r|] eqn:Ek; [|discriminate].
  apply kind_ok_len in Ek. destruct Ek. intros HH. prog_tac.
Qed.
Lemma prog_list {A} (elem : bytes -> res A) il p v p' a : dec_list elem il p = Ok v p' a -> len p' < len p.
Proof.
  unfold dec_list. destruct (read_kind il p) as [k size bv r|] eqn:Ek; [|discriminate].
  apply kind_ok_len in Ek. destruct Ek. destruct k; try discriminate.
  destruct (size =? 0). { intros HH. prog_tac. }
  destruct (slice_elems elem _ _); [|discriminate]. intros HH. prog_tac.
Qed.
Lemma prog_item f il p v p' a : dec_item f il p = Ok v p' a -> len p' < len p.
Proof.
  destruct f; [discriminate|]. cbn [dec_item]. destruct (read_kind il p) as [k size bv r|]; [|discriminate].
  destruct k.
  - destruct (dec_bytes il p) eqn:E; [|discriminate]. apply prog_bytes in E. cbn [rmap]. intros HH. prog_tac.
  - destruct (dec_bytes il p) eqn:E; [|discriminate]. apply prog_bytes in E. cbn [rmap]. intros HH. prog_tac.
  - destruct (dec_list (dec_item f true) il p) eqn:E; [|discriminate]. apply prog_list in E. cbn [rmap]. intros HH. prog_tac.
Qed.
Lemma prog_val : forall t il p v p' a, dec_val t no_tag il p = Ok v p' a -> len p' < len p.
Proof.
  induction t as [bits| | | |n| |e IH|fs|e IH| |]; intros il p v p' a; cbn [dec_val no_tag t_tail t_nil].
  - destruct (dec_uint bits il p) eqn:E; [|discriminate]. apply prog_uint in E. cbn [rmap]. intros HH. prog_tac.
  - destruct (dec_big il p) eqn:E; [|discriminate]. apply prog_big in E. cbn [rmap]. intros HH. prog_tac.
  - destruct (dec_bool il p) eqn:E; [|discriminate]. apply prog_bool in E. cbn [rmap]. intros HH. prog_tac.
  - destruct (dec_bytes il p) eqn:E; [|discriminate]. apply prog_bytes in E. cbn [rmap]. intros HH. prog_tac.
  - destruct (dec_array n il p) eqn:E; [|discriminate]. apply prog_array in E. cbn [rmap]. intros HH. prog_tac.
  - destruct (dec_bytes il p) eqn:E; [|discriminate]. apply prog_bytes in E. cbn [rmap]. intros HH. prog_tac.
  - destruct (dec_list (dec_val e no_tag true) il p) eqn:E; [|discriminate]. apply prog_list in E. cbn [rmap]. intros HH. prog_tac.
  - destruct (read_kind il p) as [k size bv r|] eqn:Ek; [|discriminate].
    apply kind_ok_len in Ek. destruct Ek. destruct k; try discriminate.
    destruct (dec_fields fs (take size r)) as [vs [|? ?] a0|]; try discriminate. intros HH. prog_tac.
  - destruct (dec_val e no_tag il p) eqn:E; [|discriminate]. apply IH in E. cbn [rmap]. intros HH. prog_tac.
  - destruct (dec_raw il p) eqn:E; [|discriminate]. apply prog_raw in E. cbn [rmap]. intros HH. prog_tac.
  - destruct (dec_item (S (length p)) il p) eqn:E; [|discriminate]. apply prog_item in E. cbn [rmap]. intros HH. prog_tac.
Qed.

(** * Part 7: interface{} values *)
Lemma simres_rmap {A B} (g : A -> B) il o st (r : res A) (sr : sres A) :
  simres il o st r sr -> simres il o st (rmap g r) (smap g sr).
Proof.
  destruct r as [v w' a|e a]; cbn [rmap simres].
  - intros ->. reflexivity.
  - apply bad_smap.
Qed.

Lemma item_sim : forall fw fs il w o st s, (length w < fw)%nat ->
  (forall k size bv rest, read_kind il w = KOk k size bv rest -> (length rest < fs)%nat) ->
  sound il w o st -> at_pos il w o st s -> simres il o st (dec_item fw il w) (s_item fs s).
Proof.
  induction fw as [|fw IH]; intros fs il w o st s Hfw Hfs Hs Hp; [lia|].
  cbn [dec_item].
  assert (Hel : forall fs', (1 <= length w)%nat -> elem_ok (Nat.min fs' (length w - 1)) (dec_item fw true) (s_item fs')).
  { intros fs' Hw1. constructor.
    - intros p o' st' s' HL Hs' Hp''.
      apply IH; [lia| |exact Hs'|exact Hp''].
      intros k size bv rest Ek. apply kind_ok_len in Ek. destruct Ek as [Hl _]. apply len_lt_length in Hl. lia.
    - intros p v p' a. apply prog_item.
    - intros s'. apply mono_item.
    - apply eol_item.
    - intros H1 s' r Hc Hst. destruct fs'; [lia|]. apply item_at_zero with r; assumption. }
  destruct (kind_cases il w o st s Hs Hp) as [k size bv rest Ek Esk Hsz Hl|e e' Ek Esk _|e k size bv rest Ek Hil Hk Esk H1 H2 H3].
  - pose proof (Hfs _ _ _ _ Ek) as Hf. destruct fs as [|fs']; [lia|]. cbn [s_item].
    rewrite Ek, Esk. cbn [sbind].
    assert (Hp' : at_pos il w o st (kpos il (k, size, bv) rest o st)).
    { right. left. exists k, size, bv, rest. split; [exact Ek|reflexivity]. }
    assert (Hw1 : (1 <= length w)%nat) by (apply len_lt_length in Hl; lia).
    destruct k.
    + apply simres_rmap, bytes_sim; assumption.
    + apply simres_rmap, bytes_sim; assumption.
    + apply simres_rmap. eapply dec_list_sim; [exact (Hel fs' Hw1)| |exact Hs|exact Hp'].
      intros k' size' bv' rest' Ek'. rewrite Ek in Ek'. injection Ek' as _ _ _ <-.
      apply len_lt_length in Hl. lia.
  - rewrite Ek. cbn [simres]. destruct fs; [exact I|]. cbn [s_item]. rewrite Esk. exact I.
  - rewrite Ek. cbn [simres]. destruct fs as [|fs']; [exact I|]. cbn [s_item]. rewrite Esk. cbn [sbind]. subst il.
    assert (Hq : at_pos true w o st (kpos true (k, size, bv) rest o st)).
    { right. right. exists e, k, size, bv, rest. repeat split; assumption. }
    assert (Hw1 : (1 <= length w)%nat) by (apply len_lt_length in H3; lia).
    destruct k; [contradiction| |].
    + pose proof (bytes_sim true w o st _ Hs Hq) as Hb. unfold dec_bytes in Hb. rewrite Ek in Hb. cbn [simres] in Hb.
      apply bad_smap. exact Hb.
    + assert (Hb : simres true o st (dec_list (dec_item fw true) true w) (s_list_slice (s_item fs') (kpos true (KList, size, bv) rest o st))).
      { eapply dec_list_sim; [exact (Hel fs' Hw1)| |exact Hs|exact Hq]. intros ? ? ? ? Ek'. rewrite Ek in Ek'. discriminate. }
      unfold dec_list in Hb. rewrite Ek in Hb. cbn [simres] in Hb. apply bad_smap. exact Hb.
Qed.

(** * Part 8: the typed decoders.  [tail_ok]: the tail tag only sits on slices, as
    rlpstruct.ProcessFields enforces (the struct decoder hands a tail field the rest of the
    list without looking at it, which only a slice decoder can take). *)
Fixpoint tail_ok (t : ty) : Prop :=
  match t with
  | TList e | TPtr e => tail_ok e
  | TStruct fs => tail_ok_fields fs
  | _ => True
  end
with tail_ok_fields (fs : fields) : Prop :=
  match fs with
  | FNil => True
  | FCons t tg r => tail_ok t /\ (t_tail tg = true -> exists e, t = TList e) /\ tail_ok_fields r
  end.

Lemma list_enter il w o st s size bv rest :
  sound il w o st -> s_kind s = SOk (KList, size, bv) (kpos il (KList, size, bv) rest o st) ->
  size <= len rest -> len rest < len w ->
  s_list s = SOk size (pos true (take size rest) (drop size rest ++ o) (stk il (drop size rest) st)).
Proof.
  intros Hs Esk Hsz Hl. unfold s_list. rewrite Esk. cbn [sbind].
  assert (Hlr : len rest < two64) by (pose proof (sound_len _ _ _ _ Hs); lia).
  pose proof (list_good il rest o st size bv Hsz Hlr) as Hg.
  unfold s_list, s_kind, kpos in Hg. cbn [s_cache sbind] in Hg. exact Hg.
Qed.
Lemma list_enter_quirk w o st s size bv rest :
  sound true w o st -> s_kind s = SOk (KList, size, bv) (kpos true (KList, size, bv) rest o st) ->
  len rest < size -> size <= len (rest ++ o) -> len rest < len w ->
  exists s1, s_list s = SOk size s1 /\ inv s1 /\ doomed s1.
Proof.
  intros Hs Esk H1 H2 H3.
  destruct (list_quirk rest o st size bv H1 H2) as (s1 & El & Hi & Hd).
  { destruct Hs as (Hlen & _). assert (len (rest ++ o) <= len (w ++ o)) by (rewrite !len_app; lia). lia. }
  { eapply sound_stack; exact Hs. }
  exists s1. split; [|split; assumption].
  unfold s_list. rewrite Esk. cbn [sbind]. unfold s_list, s_kind, kpos in El. cbn [s_cache sbind] in El. exact El.
Qed.

Lemma typed_size_bound_len t tg il p v p' a : dec_val t tg il p = Ok v p' a -> len p' <= len p.
Proof. intros E. pose proof (typed_size_bound t tg il p) as H. rewrite E in H. lia. Qed.

Definition sim_at (t : ty) : Prop :=
  tail_ok t -> forall tg il w o st s, sound il w o st -> at_pos il w o st s ->
    (t_tail tg = true -> il = true /\ s = pos true w o st) ->
    simres il o st (dec_val t tg il w) (s_val t tg s).
Definition sim_fields_at (fs : fields) : Prop :=
  tail_ok_fields fs -> forall p o st, sound true p o st ->
    simres true o st (dec_fields fs p) (s_fields fs (pos true p o st)).

Lemma typed_elem_ok L e : sim_at e -> tail_ok e -> elem_ok L (dec_val e no_tag true) (s_val e no_tag).
Proof.
  intros IH Ht. constructor.
  - intros p o st s _ Hs Hp. apply IH; [exact Ht|exact Hs|exact Hp|discriminate].
  - intros p v p' a. apply prog_val.
  - intros s. apply (proj1 mono_val_mut).
  - apply (proj1 eol_val_mut).
  - intros _ s r. apply val_at_zero. reflexivity.
Qed.

Lemma sim_mut : (forall t, sim_at t) /\ (forall fs, sim_fields_at fs).
Proof.
  apply ty_fields_ind'; unfold sim_at, sim_fields_at.
  - intros bits _ tg il w o st s Hs Hp _. cbn [dec_val s_val]. apply simres_rmap, uint_sim; assumption.
  - intros _ tg il w o st s Hs Hp _. cbn [dec_val s_val]. apply simres_rmap, big_sim; assumption.
  - intros _ tg il w o st s Hs Hp _. cbn [dec_val s_val]. apply simres_rmap, bool_sim; assumption.
  - intros _ tg il w o st s Hs Hp _. cbn [dec_val s_val]. apply simres_rmap, bytes_sim; assumption.
  - intros n _ tg il w o st s Hs Hp _. cbn [dec_val s_val]. apply simres_rmap, array_sim; assumption.
  - intros _ tg il w o st s Hs Hp _. cbn [dec_val s_val]. apply simres_rmap, bytes_sim; assumption.
  - (* lists *)
    intros e IH Ht tg il w o st s Hs Hp Htail. cbn [dec_val s_val tail_ok] in *.
    destruct (t_tail tg).
    + destruct (Htail eq_refl) as [-> ->].
      pose proof (typed_elem_ok (S (length w)) e IH Ht) as Hel.
      assert (Hfuel : (length w <= length (s_in (pos true w o st)))%nat) by (unfold pos; cbn [s_in]; rewrite app_length; lia).
      pose proof (slice_elems_sim _ _ _ Hel ltac:(lia) (length w) _ w o st Hs (le_n _) Hfuel ltac:(lia)) as Hse.
      destruct (slice_elems (dec_val e no_tag true) (length w) w) as [xs r a|e0 a] eqn:Ese; cbn [rmap simres].
      * apply slice_elems_rest_nil in Ese. subst r. rewrite Hse. reflexivity.
      * apply bad_smap. exact Hse.
    + apply simres_rmap. eapply dec_list_sim; [apply (typed_elem_ok (length w) e IH Ht)| |exact Hs|exact Hp].
      intros k size bv rest Ek. apply kind_ok_len in Ek. destruct Ek as [Hl _]. apply len_lt_length in Hl. lia.
  - (* structs *)
    intros fs IH Ht tg il w o st s Hs Hp _. cbn [dec_val s_val tail_ok] in *.
    destruct (kind_cases il w o st s Hs Hp) as [k size bv rest Ek Esk Hsz Hl|e e' Ek Esk _|e k size bv rest Ek Hil Hk Esk H1 H2 H3].
    + rewrite Ek. destruct k.
      * unfold s_list. rewrite Esk. exact I.
      * unfold s_list. rewrite Esk. exact I.
      * rewrite (list_enter il w o st s size bv rest Hs Esk Hsz Hl). cbn [sbind].
        pose proof (sound_inner il w o st rest size Hs Hl Hsz) as Hin.
        specialize (IH Ht (take size rest) _ _ Hin).
        destruct (dec_fields fs (take size rest)) as [vs p' a|e a]; cbn [simres] in IH.
        -- rewrite IH. cbn [sbind]. destruct p' as [|b p'].
           ++ rewrite list_end_zero. reflexivity.
           ++ rewrite list_end_nonzero. exact I.
        -- destruct (s_fields fs _) as [vs s2|]; [|exact I]. cbn [sbind]. destruct IH as [Hi Hd].
           apply bad_list_end; assumption.
    + rewrite Ek. unfold s_list. rewrite Esk. exact I.
    + rewrite Ek. cbn [simres]. subst il. destruct k; [contradiction| |].
      * unfold s_list. rewrite Esk. exact I.
      * destruct (list_enter_quirk w o st s size bv rest Hs Esk H1 H2 H3) as (s1 & El & Hi & Hd).
        rewrite El. cbn [sbind].
        pose proof (proj2 mono_val_mut fs s1 Hi) as Hm.
        destruct (s_fields fs s1) as [vs s2|]; [|exact I]. cbn [sbind]. destruct Hm as (Hi2 & _ & Hle).
        apply bad_list_end; [exact Hi2|eapply doomed_dle; eassumption].
  - (* pointers *)
    intros e IH Ht tg il w o st s Hs Hp _. cbn [dec_val s_val tail_ok] in *.
    assert (Hrec : forall s', at_pos il w o st s' -> simres il o st (rmap VPtr (dec_val e no_tag il w)) (smap VPtr (s_val e no_tag s'))).
    { intros s' Hp'. apply simres_rmap, IH; [exact Ht|exact Hs|exact Hp'|discriminate]. }
    destruct (t_nil tg) eqn:En; [apply Hrec; exact Hp| | |];
      (destruct (kind_cases il w o st s Hs Hp) as [k size bv rest Ek Esk Hsz Hl|e0 e' Ek Esk _|e0 k size bv rest Ek Hil Hk Esk H1 H2 H3];
       [ rewrite Ek, Esk; cbn [sbind];
         destruct (negb (kind_eqb k KByte) && (size =? 0));
         [ destruct (kind_eqb k (nil_kind e tg)); cbn [simres]; [reflexivity|exact I]
         | apply Hrec; right; left; exists k, size, bv, rest; split; [exact Ek|reflexivity] ]
       | rewrite Ek, Esk; exact I
       | rewrite Ek, Esk; cbn [sbind simres]; subst il;
         replace (negb (kind_eqb k KByte) && (size =? 0)) with false
           by (destruct (N.eqb_spec size 0); [lia|rewrite andb_false_r; reflexivity]);
         assert (Hq : at_pos true w o st (kpos true (k, size, bv) rest o st))
           by (right; right; exists e0, k, size, bv, rest; repeat split; assumption);
         specialize (Hrec _ Hq);
         destruct (dec_val e no_tag true w) as [v w' a|e1 a] eqn:Ed;
         [ apply dec_val_ok_kind in Ed; destruct Ed as (? & ? & ? & ? & Ed); rewrite Ek in Ed; discriminate
         | exact Hrec ] ]).
  - intros _ tg il w o st s Hs Hp _. cbn [dec_val s_val]. apply simres_rmap, raw_sim; assumption.
  - (* interface{} *)
    intros _ tg il w o st s Hs Hp _. cbn [dec_val s_val]. apply simres_rmap, item_sim; [lia| |exact Hs|exact Hp].
    intros k size bv rest Ek.
    destruct Hp as [->|[(k' & size' & bv' & rest' & Ek' & ->)|(e & k' & size' & bv' & rest' & Ek' & _)]].
    + apply kind_ok_len in Ek. destruct Ek as [Hl _]. apply len_lt_length in Hl.
      unfold pos. cbn [s_in]. rewrite app_length. lia.
    + rewrite Ek in Ek'. injection Ek' as _ _ _ <-. unfold kpos. cbn [s_in]. rewrite app_length. lia.
    + rewrite Ek in Ek'. discriminate.
  - (* no fields *)
    intros _ p o st Hs. cbn [dec_fields s_fields simres]. reflexivity.
  - (* a field *)
    intros t IHt tg r IHr [Ht [Htl Hr]] p o st Hs. cbn [dec_fields s_fields].
    destruct (t_ignored tg).
    { apply simres_rmap. apply IHr; assumption. }
    assert (Hstep : forall v p' a, dec_val t tg true p = Ok v p' a ->
              s_val t tg (pos true p o st) = SOk v (pos true p' o st) ->
              simres true o st (rmap (cons v) (dec_fields r p')) (smap (cons v) (s_fields r (pos true p' o st)))).
    { intros v p' a Ed _. apply simres_rmap, IHr; [exact Hr|].
      pose proof (typed_size_bound_len t tg true p v p' a Ed) as Hle. eapply sound_shrink; [exact Hs|exact Hle]. }
    assert (Hbad : forall (sr : sres val), bad sr -> sr <> SErr EEOL ->
              bad (match sr with
                   | SErr EEOL => if t_optional tg then SOk (zero_fields (FCons t tg r)) (pos true p o st) else SErr ETooFew
                   | SErr e => SErr e
                   | SOk v s' => smap (cons v) (s_fields r s')
                   end)).
    { intros sr Hb Hne. destruct sr as [v s'|e].
      - destruct Hb as [Hi Hd]. apply bad_smap. eapply bad_mono; [exact Hi|exact Hd|apply (proj2 mono_val_mut); exact Hi].
      - destruct e; try exact I. contradiction. }
    assert (Hbind : (t_tail tg = true -> True) -> s_val t tg (pos true p o st) <> SErr EEOL ->
              simres true o st (dec_val t tg true p) (s_val t tg (pos true p o st)) ->
              simres true o st (bind (dec_val t tg true p) (fun v rest => rmap (cons v) (dec_fields r rest)))
                (match s_val t tg (pos true p o st) with
                 | SErr EEOL => if t_optional tg then SOk (zero_fields (FCons t tg r)) (pos true p o st) else SErr ETooFew
                 | SErr e => SErr e
                 | SOk v s' => smap (cons v) (s_fields r s')
                 end)).
    { intros _ Hne Hsim. destruct (dec_val t tg true p) as [v p' a|e a] eqn:Ed; cbn [simres] in Hsim.
      - rewrite Hsim. pose proof (Hstep v p' a eq_refl Hsim) as Hst.
        cbn [bind]. destruct (dec_fields r p') as [vs p'' a'|e' a']; cbn [rmap simres] in *.
        + rewrite Hst. reflexivity.
        + exact Hst.
      - cbn [bind simres]. apply Hbad; assumption. }
    destruct (t_tail tg) eqn:Etl.
    + destruct (Htl eq_refl) as [e ->].
      apply Hbind; [auto| |apply IHt; [exact Ht|exact Hs|left; reflexivity|intros _; split; reflexivity]].
      cbn [s_val]. rewrite Etl. apply noeol_smap, noeol_slice_elems.
    + destruct p as [|b p1].
      * rewrite (val_at_zero t tg (pos true [] o st) st Etl eq_refl eq_refl).
        destruct (t_optional tg); cbn [simres]; [reflexivity|exact I].
      * apply Hbind; [auto| |apply IHt; [exact Ht|exact Hs|left; reflexivity|congruence]].
        intros E. apply (proj1 eol_val_mut), s_kind_eol_inv in E. destruct E as [_ [r0 Er]].
        unfold pos in Er. cbn [s_stack stk] in Er. rewrite len_cons in Er.
        assert (E0 : 1 + len p1 = 0) by congruence. lia.
Qed.

(** * The refinement: DecodeBytes through the literal Stream accepts exactly what the window
    decoder accepts, with the same value (input shorter than 2^64 bytes, tail tags on slices) *)
Theorem stream_refines_window t bs v :
  tail_ok t -> len bs < two64 ->
  ((exists s, stream_decode_bytes t bs = SOk v s) <-> (exists a, decode_bytes t bs = Ok v [] a)).
Proof.
  intros Ht Hl. unfold stream_decode_bytes, decode_bytes.
  assert (Hs : sound false bs [] []).
  { split; [rewrite app_nil_r; exact Hl|]. split; [cbn; lia|]. split; [constructor|auto]. }
  assert (E0 : pos false bs [] [] = mkS bs [] None) by (unfold pos; cbn [stk]; rewrite app_nil_r; reflexivity).
  pose proof (proj1 sim_mut t Ht no_tag false bs [] [] _ Hs (or_introl eq_refl) ltac:(discriminate)) as Hsim.
  rewrite E0 in Hsim.
  assert (Hi : inv (mkS bs [] None)) by (split; [exact Hl|split; [constructor|exact I]]).
  pose proof (proj1 mono_val_mut t no_tag _ Hi) as Hm.
  destruct (dec_val t no_tag false bs) as [v' w' a|e a]; cbn [simres exactly_one] in *.
  - rewrite Hsim. unfold pos. cbn [s_in stk]. rewrite app_nil_r. split.
    + intros [s H]. destruct w' as [|b w']; [|discriminate]. injection H as <- _. exists a. reflexivity.
    + intros [a' H]. destruct w' as [|b w']; [|discriminate]. injection H as <- _. eexists. reflexivity.
  - split; [|intros [a' H]; discriminate].
    intros [s H]. exfalso.
    destruct (s_val t no_tag (mkS bs [] None)) as [v1 s1|]; [|discriminate].
    destruct Hsim as [_ Hd]. destruct Hm as (_ & Hsh & _).
    unfold shape in Hsh. cbn [s_stack] in Hsh. unfold doomed in Hd.
    destruct (s_stack s1); [cbn in Hd; lia|contradiction].
Qed.

(** without [tail_ok] the two transcriptions differ: a tail tag on a non-slice field (which
    rlpstruct.ProcessFields rejects before any decoder exists) *)
Definition ty_bad_tail : ty := TStruct (FCons (TUint 8) (mkTag true true false NoNil) FNil).
Lemma stream_window_differ_on_illformed :
  (exists s, stream_decode_bytes ty_bad_tail [Nb 192] = SOk (VStruct [VUint 0]) s) /\
  decode_bytes ty_bad_tail [Nb 192] = Err EEOL 0.
Proof. split; [eexists; vm_compute; reflexivity|vm_compute; reflexivity]. Qed.

(** several values in a row: both transcriptions deliver the same values before they stop *)
Lemma stream_seq_values t : tail_ok t -> forall fuel w, len w < two64 ->
  fst (stream_decode_seq t fuel (pos false w [] [])) = fst (decode_seq t fuel w).
Proof.
  intros Ht. induction fuel as [|f IH]; intros w Hl; [reflexivity|]. cbn [stream_decode_seq decode_seq].
  assert (Hs : sound false w [] []).
  { split; [rewrite app_nil_r; exact Hl|]. split; [cbn; lia|]. split; [constructor|auto]. }
  pose proof (proj1 sim_mut t Ht no_tag false w [] [] _ Hs (or_introl eq_refl) ltac:(discriminate)) as Hsim.
  pose proof (proj1 mono_val_mut t no_tag _ (inv_pos _ _ _ _ Hs)) as Hm.
  destruct (dec_val t no_tag false w) as [v w' a|e a] eqn:Ed; cbn [simres] in Hsim.
  - rewrite Hsim. apply typed_size_bound_len in Ed.
    specialize (IH w' ltac:(lia)).
    destruct (stream_decode_seq t f (pos false w' [] [])), (decode_seq t f w'). cbn [fst] in *. congruence.
  - destruct (s_val t no_tag (pos false w [] [])) as [v1 s1|]; [exfalso|reflexivity].
    destruct Hsim as [_ Hd]. destruct Hm as (_ & Hsh & _).
    unfold shape, pos in Hsh. cbn [s_stack stk] in Hsh. unfold doomed in Hd.
    destruct (s_stack s1); [cbn in Hd; lia|contradiction].
Qed.
Lemma stream_decode_all_values t bs : tail_ok t -> len bs < two64 ->
  fst (stream_decode_all t bs) = fst (decode_all t bs).
Proof.
  intros Ht Hl. unfold stream_decode_all, decode_all.
  replace (mkS bs [] None) with (pos false bs [] []) by (unfold pos; cbn [stk]; rewrite app_nil_r; reflexivity).
  apply stream_seq_values; assumption.
Qed.
