(** C16 — raw.go helpers (AppendUint64, IntSize, ListSize), the list iterator and sequences of
    top-level values against the encoder. *)
From Coq Require Import List ZArith NArith Bool Lia.
From Coq Require Import Init.Byte.
From Kardia Require Import C16.Model C16.ProofsBase C16.ProofsItem C16.ProofsRoundtrip C16.ProofsRaw.
Import ListNotations.
Local Open Scope N_scope.
Ltac Zify.zify_post_hook ::= Z.to_euclidean_division_equations.

(** AppendUint64 writes the encoder's integer encoding *)
Lemma append_uint64_enc_uint n : n < two64 -> append_uint64 n = enc_uint n.
Proof.
  intros Hn. unfold append_uint64, enc_uint.
  destruct (N.eqb_spec n 0) as [->|Hn0]; [reflexivity|].
  destruct (N.ltb_spec n 128) as [Hlt|Hge].
  - destruct (be_bytes_small n Hn0 ltac:(lia)) as (x & E & Hx). rewrite E. unfold enc_str.
    destruct (N.ltb_spec (bN x) 128); [|lia]. rewrite <- Hx, Nb_bN. reflexivity.
  - pose proof (be_bytes_len_le8 n Hn) as H8. pose proof (be_bytes_len_pos n Hn0) as H1.
    cbv zeta. unfold enc_str, str_head.
    destruct (be_bytes n) as [|x [|y r]] eqn:E.
    + cbn in H1. lia.
    + assert (bN x = n) by (apply be_bytes_single in E; symmetry; exact E).
      destruct (N.ltb_spec (bN x) 128); [lia|]. reflexivity.
    + rewrite head_len_small by lia. reflexivity.
Qed.

Lemma len_enc_uint n : n < two64 -> len (enc_uint n) = int_size n.
Proof.
  intros Hn. rewrite <- append_uint64_enc_uint by exact Hn. unfold append_uint64, int_size, int_size_raw.
  destruct (N.eqb_spec n 0) as [->|Hn0]; [reflexivity|].
  destruct (N.ltb_spec n 128); [reflexivity|].
  cbv zeta. rewrite len_cons. reflexivity.
Qed.

(** headsize is the length of the header the encoder writes; ListSize the length of the list *)
Lemma len_head small large size : len (head small large size) = head_size size.
Proof.
  unfold head, head_size, int_size_raw. destruct (N.ltb_spec size 56); [reflexivity|].
  destruct (N.eqb_spec size 0); [lia|]. rewrite len_cons. reflexivity.
Qed.
Lemma list_size_enc_list p : len (enc_list p) < two64 -> list_size (len p) = len (enc_list p).
Proof.
  intros H. unfold list_size, enc_list in *. rewrite len_app in *. unfold list_head in *.
  rewrite len_head in *. apply N.mod_small. exact H.
Qed.

(** the iterator yields the encodings of the elements of a list, in order, without error *)
Lemma iter_values_encode l : forall fuel,
  (length (flat_map encode l) <= fuel)%nat -> fits64 (len (flat_map encode l)) ->
  iter_values fuel (flat_map encode l) = (map encode l, None).
Proof.
  induction l as [|x l IH]; intros fuel Hfuel Hf.
  - cbn. destruct fuel; reflexivity.
  - cbn [flat_map map] in *.
    assert (Hfx : fits64 (len (encode x))) by (rewrite len_app in Hf; unfold fits64 in *; lia).
    assert (Hfl : fits64 (len (flat_map encode l))) by (rewrite len_app in Hf; unfold fits64 in *; lia).
    destruct (raw_read_kind_encode x (flat_map encode l) Hfx) as (ts & Hk & He & Hts).
    pose proof (encode_nonempty x) as Hne.
    destruct (encode x ++ flat_map encode l) as [|b p] eqn:E.
    { apply app_eq_nil in E. destruct E. contradiction. }
    destruct fuel as [|fuel]; [cbn in Hfuel; lia|].
    cbn [iter_values]. rewrite Hk, <- E.
    assert (Hlen : len (encode x) = ts + len (item_content x)).
    { rewrite He at 1. rewrite len_app, len_take by assumption. reflexivity. }
    rewrite <- Hlen, drop_app_len, take_app_len.
    rewrite IH; [reflexivity| |exact Hfl].
    assert (length (encode x) <> 0)%nat by (destruct (encode x); [contradiction|discriminate]).
    rewrite <- E, app_length in Hfuel. cbn [length] in Hfuel. lia.
Qed.

Lemma list_iterator_encode l rest :
  len (encode (List l)) < two64 -> list_iterator (encode (List l) ++ rest) = ROk (map encode l, None).
Proof.
  intros Hf. unfold list_iterator.
  pose proof (split_encode (List l) rest Hf) as Hs. unfold split in Hs.
  destruct (raw_read_kind_encode (List l) rest Hf) as (ts & Hk & He & Hts).
  rewrite Hk in *. cbn [item_kind item_content encode] in *.
  injection Hs as Hc Hr. rewrite Hc. cbv zeta.
  rewrite iter_values_encode; [reflexivity|apply le_n|]. unfold enc_list, fits64 in *. rewrite len_app in Hf. lia.
Qed.

Lemma dec_val_empty t : exists a, dec_val t no_tag false [] = Err EEOF a.
Proof.
  induction t as [bits| | | |n| |e IH|fs|e IH| |]; cbn; try (eexists; reflexivity).
  destruct IH as [a ->]. eexists; reflexivity.
Qed.

(** a concatenation of encodings of normal-form values of one type decodes, value by value,
    to exactly these values and then reports io.EOF *)
Lemma decode_seq_encode t : forall vs fuel,
  Forall (fun v => wf_val t no_tag v /\ len (enc_val t no_tag v) < two64) vs ->
  (length vs < fuel)%nat ->
  decode_seq t fuel (flat_map (enc_val t no_tag) vs) = (vs, EEOF).
Proof.
  induction vs as [|v vs IH]; intros fuel Hall Hfuel.
  - destruct fuel as [|fuel]; [cbn in Hfuel; lia|]. cbn [flat_map decode_seq].
    destruct (dec_val_empty t) as [a ->]. reflexivity.
  - destruct fuel as [|fuel]; [cbn in Hfuel; lia|].
    inversion Hall as [|? ? [Hwf Hlen] Hrest]; subst.
    cbn [flat_map decode_seq].
    destruct (typed_roundtrip t v false (flat_map (enc_val t no_tag) vs) Hwf Hlen) as [a ->].
    rewrite IH; [reflexivity|exact Hrest|cbn in Hfuel; lia].
Qed.

Lemma decode_all_encode t vs :
  Forall (fun v => wf_val t no_tag v /\ len (enc_val t no_tag v) < two64) vs ->
  decode_all t (flat_map (enc_val t no_tag) vs) = (vs, EEOF).
Proof.
  intros Hall. unfold decode_all. apply decode_seq_encode; [exact Hall|].
  assert (length vs <= length (flat_map (enc_val t no_tag) vs))%nat; [|lia].
  induction Hall as [|v vs [Hwf _] _ IH]; [apply le_n|].
  cbn [flat_map length]. rewrite app_length.
  pose proof (enc_nonempty t no_tag v Hwf eq_refl) as Hne.
  destruct (enc_val t no_tag v); [contradiction|cbn [length]; lia].
Qed.
