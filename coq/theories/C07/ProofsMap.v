(** C07 proofs, part 2: get / insert / delete on canonical tries refine a finite map
    (stated through the content relation [has]) and preserve the canonical form. *)
From Coq Require Import List NArith Arith Bool Lia.
From Kardia Require Import C07.Model C07.ProofsBase.
Import ListNotations.

(* ------------------------------------------------------------------ list facts *)

Lemma nth_error_app_mid {A} (pre : list A) x t : nth_error (pre ++ x :: t) (length pre) = Some x.
Proof. induction pre; cbn; auto. Qed.

Lemma skipn_app_mid {A} (pre : list A) x t : skipn (S (length pre)) (pre ++ x :: t) = t.
Proof. induction pre; cbn; auto. Qed.

Lemma firstn_app_len {A} (pre t : list A) : firstn (length pre) (pre ++ t) = pre.
Proof. induction pre; cbn; [destruct t|]; auto. f_equal; auto. Qed.

Lemma skipn_app_len {A} (pre t : list A) : skipn (length pre) (pre ++ t) = t.
Proof. induction pre; cbn; auto. Qed.

Lemma wfk_mid_nibs a x t : wfk (a ++ x :: t) -> nibs a.
Proof.
  induction a as [|y a IH]; cbn; [constructor|].
  intros [[_ Hnil]|[Hy Hw]].
  - destruct a; discriminate.
  - constructor; auto. apply IH; auto.
Qed.

Definition short_cond (nk k : key) : bool :=
  Nat.ltb (length k) (length nk) || negb (keq nk (firstn (length nk) k)).

Lemma short_cond_false nk k : short_cond nk k = false <-> exists r, k = nk ++ r.
Proof.
  unfold short_cond. split.
  - intros Hc. apply orb_false_iff in Hc as [Hl Hk].
    apply Nat.ltb_ge in Hl. apply negb_false_iff in Hk. apply keq_eq in Hk.
    exists (skipn (length nk) k). rewrite Hk at 1. symmetry. apply firstn_skipn.
  - intros (r & ->). rewrite firstn_app_len, keq_refl. cbn.
    rewrite app_length. rewrite orb_false_r. apply Nat.ltb_ge. lia.
Qed.

(* ------------------------------------------------------------------ get *)

Section WithDb.
Variable d : db.

Lemma get_short_eq f nk c fl k :
  get (S f) d (Short nk c fl) k =
  if short_cond nk k then Ok ([], Short nk c fl)
  else rbind (get f d c (skipn (length nk) k)) (fun r => Ok (fst r, Short nk (snd r) fl)).
Proof. reflexivity. Qed.

Lemma get_full_eq f cs fl i kt :
  get (S f) d (Full cs fl) (i :: kt) =
  match nth_error cs i with
  | None => Crash
  | Some c => rbind (get f d c kt) (fun r => Ok (fst r, Full (set_nth i (snd r) cs) fl))
  end.
Proof. reflexivity. Qed.

Definition get_ok (n : node) (k : key) (v : bytes) : Prop :=
  (v = [] /\ forall w, ~ has n k w) \/ (v <> [] /\ has n k v).

Lemma get_spec : forall fuel n k, canon n -> wfk k -> length k < fuel ->
  exists v, get fuel d n k = Ok (v, n) /\ get_ok n k v.
Proof.
  induction fuel as [|f IH]; intros n k Hc Hk Hf; [lia|].
  destruct Hc as [|p v fl Hp Hv|nk cs g fl Hnk Hn Hc|cs fl Hl Hch H16 Hcnt].
  - exists []. split; [reflexivity|]. left. split; auto. intros w Hw. inversion Hw.
  - rewrite get_short_eq. destruct (short_cond (p ++ [16]) k) eqn:E.
    + exists []. split; auto. left. split; auto. intros w Hw.
      apply has_short in Hw as (r & -> & _).
      assert (short_cond (p ++ [16]) ((p ++ [16]) ++ r) = false) by (apply short_cond_false; eauto).
      congruence.
    + apply short_cond_false in E as (r & ->).
      assert (r = []) as -> by (apply (wfk_prefix_eq (p ++ [16]) r); [apply wfk_snoc; auto | auto]).
      rewrite skipn_app_len. destruct f as [|f]; [rewrite !app_length in Hf; cbn in Hf; lia|].
      exists v. split; [reflexivity|]. right. split; auto. constructor. constructor.
  - rewrite get_short_eq. destruct (short_cond nk k) eqn:E.
    + exists []. split; auto. left. split; auto. intros w Hw.
      apply has_short in Hw as (r & -> & _).
      assert (short_cond nk (nk ++ r) = false) by (apply short_cond_false; eauto). congruence.
    + apply short_cond_false in E as (r & ->). rewrite skipn_app_len.
      assert (Hr : wfk r) by (eapply wfk_app_inv; eauto).
      destruct (IH (Full cs g) r Hc Hr) as (v & Hg & Hok).
      { rewrite app_length in Hf. destruct nk; [congruence|]. cbn in Hf. lia. }
      rewrite Hg. cbn [rbind fst snd]. exists v. split; auto.
      destruct Hok as [[-> Hno]|[Hv Hh]].
      * left. split; auto. intros w Hw. apply has_short in Hw as (r' & Heq & Hr').
        apply app_inv_head in Heq. subst. eapply Hno; eauto.
      * right. split; auto. constructor; auto.
  - destruct k as [|i kt]; [cbn in Hk; tauto|]. rewrite get_full_eq.
    cbn in Hk. destruct Hk as [[-> ->]|[Hi Hkt]].
    + destruct (nth_error_lt_some cs 16) as (c & Hn); [lia|]. rewrite Hn.
      destruct f as [|f]; [cbn in Hf; lia|].
      destruct (H16 _ Hn) as [->|(v & Hv & ->)].
      * exists []. cbn [get rbind fst snd]. rewrite (set_nth_same _ _ _ Hn). split; auto. left. split; auto.
        intros w Hw. apply has_full in Hw as (i & r & c & Heq & Hn' & Hr). inversion Heq; subst.
        rewrite Hn in Hn'. inversion Hn'; subst. inversion Hr.
      * exists v. cbn [get rbind fst snd]. rewrite (set_nth_same _ _ _ Hn). split; auto. right. split; auto.
        econstructor; eauto. constructor.
    + destruct (nth_error_lt_some cs i) as (c & Hn); [lia|]. rewrite Hn.
      destruct (IH c kt (Hch _ _ Hn Hi) Hkt) as (v & Hg & Hok); [cbn in Hf; lia|].
      rewrite Hg. cbn [rbind fst snd]. rewrite (set_nth_same _ _ _ Hn). exists v. split; auto.
      destruct Hok as [[-> Hno]|[Hv Hh]].
      * left. split; auto. intros w Hw. apply has_full in Hw as (j & r & c' & Heq & Hn' & Hr).
        inversion Heq; subst. rewrite Hn in Hn'. inversion Hn'; subst. eapply Hno; eauto.
      * right. split; auto. econstructor; eauto.
Qed.

(* ------------------------------------------------------------------ insert *)

Definition leafn (rest : key) (x : node) : node :=
  match rest with [] => x | _ => Short rest x newflag end.

Lemma has_leafn rest x r w : has (leafn rest x) r w <-> exists r2, r = rest ++ r2 /\ has x r2 w.
Proof.
  destruct rest as [|a rest]; cbn [leafn].
  - split; [intros Hh; exists r; auto | intros (r2 & -> & Hh); auto].
  - apply has_short.
Qed.

Lemma insert_nil_eq f n value :
  insert (S f) d n [] value =
  match n, value with
  | Value v, Value w => Ok (negb (beq v w), value)
  | Value v, _ => Crash
  | _, _ => Ok (true, value)
  end.
Proof. reflexivity. Qed.

Lemma insert_short_eq f nk c fl k0 kt value :
  insert (S f) d (Short nk c fl) (k0 :: kt) value =
  let k := k0 :: kt in
  let ml := prefix_len k nk in
  if Nat.eqb ml (length nk) then
    rbind (insert f d c (skipn ml k) value) (fun r =>
      if fst r then Ok (true, Short nk (snd r) newflag) else Ok (false, Short nk c fl))
  else
    match nth_error nk ml, nth_error k ml with
    | Some oi, Some ni =>
      let b2 := set_nth ni (leafn (skipn (S ml) k) value)
                  (set_nth oi (leafn (skipn (S ml) nk) c) empty_children) in
      if Nat.eqb ml 0 then Ok (true, Full b2 newflag)
      else Ok (true, Short (firstn ml k) (Full b2 newflag) newflag)
    | _, _ => Crash
    end.
Proof. reflexivity. Qed.

Lemma insert_full_eq f cs fl k0 kt value :
  insert (S f) d (Full cs fl) (k0 :: kt) value =
  match nth_error cs k0 with
  | None => Crash
  | Some c =>
    rbind (insert f d c kt value) (fun r =>
      if fst r then Ok (true, Full (set_nth k0 (snd r) cs) newflag) else Ok (false, Full cs fl))
  end.
Proof. reflexivity. Qed.

Definition ins_spec (n n' : node) (k : key) (v : bytes) : Prop :=
  forall k' w, has n' k' w <-> (k' = k /\ w = v) \/ (k' <> k /\ has n k' w).

Lemma ins_spec_same n k v : has n k v -> ins_spec n n k v.
Proof.
  intros Hh k' w. split.
  - intros Hw. destruct (list_eq_dec Nat.eq_dec k' k) as [->|Hne]; auto.
    left. split; auto. eapply has_det; eauto.
  - intros [[-> ->]|[_ Hw]]; auto.
Qed.

(** a child slot of a branch *)
Definition child_ok (i : nat) (c : node) : Prop :=
  c <> Empty /\ (i < 16 -> canon c) /\ (i = 16 -> exists v, v <> [] /\ c = Value v).

Lemma child_ok_leaf i rest v : wfk (i :: rest) -> v <> [] -> child_ok i (leafn rest (Value v)).
Proof.
  cbn [wfk]. intros [[-> ->]|[Hi Hw]] Hv; unfold child_ok, leafn.
  - split; [discriminate|]. split; [intros; lia|]. intros _. eauto.
  - destruct (wfk_split _ Hw) as (p & -> & Hp).
    assert (Hne : p ++ [16] <> []) by (destruct p; discriminate).
    destruct (p ++ [16]) as [|a t] eqn:E; [congruence|]. rewrite <- E.
    split; [discriminate|]. split; [|intros; lia]. intros _. constructor; auto.
Qed.

Lemma child_ok_ext i rest cs g : nibs (i :: rest) -> canon (Full cs g) -> child_ok i (leafn rest (Full cs g)).
Proof.
  intros Hn Hc. inversion Hn as [|? ? Hi Hr]; subst. unfold child_ok, leafn.
  destruct rest as [|a t].
  - split; [discriminate|]. split; [auto|intros; lia].
  - split; [discriminate|]. split; [|intros; lia]. intros _. constructor; auto. discriminate.
Qed.

Lemma branch_nth oi ni X Y i :
  oi <> ni -> oi < 17 -> ni < 17 ->
  nth_error (set_nth ni X (set_nth oi Y empty_children)) i =
  if Nat.eqb i ni then Some X else if Nat.eqb i oi then Some Y
  else if Nat.ltb i 17 then Some Empty else None.
Proof.
  intros Hne Ho Hn.
  destruct (Nat.eqb_spec i ni) as [->|H1].
  - apply nth_error_set_nth_eq. rewrite set_nth_length. unfold empty_children. rewrite repeat_length. auto.
  - rewrite nth_error_set_nth_neq by auto.
    destruct (Nat.eqb_spec i oi) as [->|H2].
    + apply nth_error_set_nth_eq. unfold empty_children. rewrite repeat_length. auto.
    + rewrite nth_error_set_nth_neq by auto. unfold empty_children.
      destruct (Nat.ltb_spec i 17) as [H3|H3].
      * apply nth_error_repeat; auto.
      * apply nth_error_None. rewrite repeat_length. auto.
Qed.

Lemma branch_canon oi ni X Y f :
  oi <> ni -> oi <= 16 -> ni <= 16 -> child_ok oi Y -> child_ok ni X ->
  canon (Full (set_nth ni X (set_nth oi Y empty_children)) f).
Proof.
  intros Hne Ho Hn (Y0 & Y1 & Y2) (X0 & X1 & X2).
  constructor.
  - rewrite !set_nth_length. reflexivity.
  - intros i c Hc Hi. rewrite branch_nth in Hc by lia.
    destruct (Nat.eqb_spec i ni) as [->|H1]; [inversion Hc; subst; auto|].
    destruct (Nat.eqb_spec i oi) as [->|H2]; [inversion Hc; subst; auto|].
    destruct (Nat.ltb i 17); inversion Hc. constructor.
  - intros c Hc. rewrite branch_nth in Hc by lia.
    destruct (Nat.eqb_spec 16 ni) as [<-|H1]; [inversion Hc; subst; right; auto|].
    destruct (Nat.eqb_spec 16 oi) as [<-|H2]; [inversion Hc; subst; right; auto|].
    cbn in Hc. inversion Hc. auto.
  - assert (H1 : nth_error empty_children oi = Some Empty) by (apply nth_error_repeat; lia).
    pose proof (count_ne_set_nth _ _ _ Y H1) as C1.
    unfold empty_children in C1 at 2. rewrite count_ne_repeat in C1. cbn [is_empty] in C1.
    assert (H2 : nth_error (set_nth oi Y empty_children) ni = Some Empty).
    { rewrite nth_error_set_nth_neq by auto. apply nth_error_repeat; lia. }
    pose proof (count_ne_set_nth _ _ _ X H2) as C2. cbn [is_empty] in C2.
    apply is_empty_false in Y0, X0. rewrite Y0 in C1. rewrite X0 in C2. lia.
Qed.

Lemma branch_has oi ni X Y f k' w :
  oi <> ni -> oi <= 16 -> ni <= 16 ->
  has (Full (set_nth ni X (set_nth oi Y empty_children)) f) k' w <->
  (exists r, k' = ni :: r /\ has X r w) \/ (exists r, k' = oi :: r /\ has Y r w).
Proof.
  intros Hne Ho Hn. rewrite has_full. split.
  - intros (i & r & c & -> & Hc & Hr). rewrite branch_nth in Hc by lia.
    destruct (Nat.eqb_spec i ni) as [->|H1]; [inversion Hc; subst; eauto|].
    destruct (Nat.eqb_spec i oi) as [->|H2]; [inversion Hc; subst; eauto|].
    destruct (Nat.ltb i 17); inversion Hc; subst. inversion Hr.
  - intros [(r & -> & Hr)|(r & -> & Hr)].
    + exists ni, r, X. repeat split; auto. rewrite branch_nth by lia. rewrite Nat.eqb_refl. auto.
    + exists oi, r, Y. repeat split; auto. rewrite branch_nth by lia.
      destruct (Nat.eqb_spec oi ni); [congruence|]. rewrite Nat.eqb_refl. auto.
Qed.

Lemma prefix_len_diverge pre x y a b :
  x <> y -> prefix_len (pre ++ x :: a) (pre ++ y :: b) = length pre.
Proof.
  intros Hne. induction pre as [|z pre IH]; cbn.
  - destruct (Nat.eqb_spec x y); congruence.
  - rewrite Nat.eqb_refl. auto.
Qed.

(** insert below a short node whose whole key matches *)
Lemma insert_short_match f nk c fl r value :
  nk <> [] ->
  insert (S f) d (Short nk c fl) (nk ++ r) value =
  rbind (insert f d c r value) (fun x =>
    if fst x then Ok (true, Short nk (snd x) newflag) else Ok (false, Short nk c fl)).
Proof.
  intros Hne. destruct (nk ++ r) as [|k0 kt] eqn:E; [destruct nk; [congruence|discriminate]|].
  rewrite insert_short_eq. cbv zeta. rewrite <- E.
  rewrite prefix_len_app, Nat.eqb_refl, skipn_app_len. reflexivity.
Qed.

Definition branch2 (oi ni : nat) (Y X : node) : node :=
  Full (set_nth ni X (set_nth oi Y empty_children)) newflag.

Definition opt_short (pre : key) (B : node) : node :=
  if Nat.eqb (length pre) 0 then B else Short pre B newflag.

(** insert where the key leaves the short node's key after [pre] *)
Lemma insert_short_diverge f pre oi rn' ni rk' c fl value :
  oi <> ni ->
  insert (S f) d (Short (pre ++ oi :: rn') c fl) (pre ++ ni :: rk') value =
  Ok (true, opt_short pre (branch2 oi ni (leafn rn' c) (leafn rk' value))).
Proof.
  intros Hne. destruct (pre ++ ni :: rk') as [|k0 kt] eqn:E; [destruct pre; discriminate|].
  rewrite insert_short_eq. cbv zeta. rewrite <- E.
  rewrite prefix_len_diverge by auto.
  assert (Hl : Nat.eqb (length pre) (length (pre ++ oi :: rn')) = false).
  { apply Nat.eqb_neq. rewrite app_length. cbn. lia. }
  rewrite Hl, !nth_error_app_mid, !skipn_app_mid, firstn_app_len.
  unfold opt_short, branch2. destruct (Nat.eqb (length pre) 0); reflexivity.
Qed.

Lemma has_opt_short (pre : key) B k' w :
  has (opt_short pre B) k' w <-> exists r, k' = pre ++ r /\ has B r w.
Proof.
  unfold opt_short. destruct pre as [|a pre]; cbn [length Nat.eqb].
  - split; [intros Hh; exists k'; auto | intros (r & -> & Hh); auto].
  - apply has_short.
Qed.

Lemma canon_opt_short (pre : key) cs g :
  nibs pre -> canon (Full cs g) -> canon (opt_short pre (Full cs g)).
Proof.
  intros Hp Hc. unfold opt_short. destruct pre as [|a pre]; cbn [length Nat.eqb]; auto.
  constructor; auto. discriminate.
Qed.

Lemma opt_short_ne pre cs g : opt_short pre (Full cs g) <> Empty.
Proof. unfold opt_short. destruct (Nat.eqb (length pre) 0); discriminate. Qed.

Lemma opt_short_not_full_eq pre cs g cs0 g0 :
  Short pre cs0 g0 = opt_short pre (Full cs g) -> False \/ True.
Proof. auto. Qed.

Lemma diverge_has pre oi rn' ni rk' c v k' w :
  oi <> ni -> oi <= 16 -> ni <= 16 ->
  has (opt_short pre (branch2 oi ni (leafn rn' c) (leafn rk' (Value v)))) k' w <->
  (k' = pre ++ ni :: rk' /\ w = v) \/ (exists r3, k' = (pre ++ oi :: rn') ++ r3 /\ has c r3 w).
Proof.
  intros Hne Ho Hn. rewrite has_opt_short. unfold branch2. split.
  - intros (r & -> & Hh). apply branch_has in Hh; auto.
    destruct Hh as [(r2 & -> & Hh)|(r2 & -> & Hh)]; apply has_leafn in Hh as (r3 & -> & Hh).
    + apply has_value in Hh as [-> ->]. left. rewrite app_nil_r. auto.
    + right. exists r3. split; auto. rewrite <- !app_assoc. reflexivity.
  - intros [[-> ->]|(r3 & -> & Hh)].
    + exists (ni :: rk'). split; auto. apply branch_has; auto. left. exists rk'. split; auto.
      apply has_leafn. exists []. rewrite app_nil_r. split; auto. constructor.
    + exists (oi :: rn' ++ r3). split; [rewrite <- !app_assoc; reflexivity|].
      apply branch_has; auto. right. exists (rn' ++ r3). split; auto. apply has_leafn. eauto.
Qed.

Lemma diverge_ins_spec pre oi rn' ni rk' c fl v :
  oi <> ni -> oi <= 16 -> ni <= 16 ->
  ins_spec (Short (pre ++ oi :: rn') c fl)
           (opt_short pre (branch2 oi ni (leafn rn' c) (leafn rk' (Value v)))) (pre ++ ni :: rk') v.
Proof.
  intros Hne Ho Hn k' w. rewrite diverge_has by auto. rewrite has_short. split.
  - intros [[-> ->]|(r3 & -> & Hh)]; auto. right. split; eauto.
    rewrite <- app_assoc. intros Heq. apply app_inv_head in Heq. inversion Heq. congruence.
  - intros [[-> ->]|[_ Hh]]; auto.
Qed.

Lemma insert_spec (v : bytes) : v <> [] ->
  forall fuel n k, canon n -> wfk k -> length k < fuel ->
  exists b n', insert fuel d n k (Value v) = Ok (b, n') /\ canon n' /\ n' <> Empty /\
               (b = false -> n' = n) /\
               (forall cs g, n = Full cs g -> exists cs' g', n' = Full cs' g') /\
               ins_spec n n' k v.
Proof.
  intros Hv. induction fuel as [|f IH]; intros n k Hc Hk Hf; [lia|].
  destruct k as [|k0 kt]; [cbn in Hk; tauto|].
  destruct Hc as [|p v0 fl Hp Hv0|nk cs g fl Hnk Hn Hc|cs fl Hl Hch H16 Hcnt].
  - (* Empty *)
    exists true, (Short (k0 :: kt) (Value v) newflag). split; [reflexivity|].
    destruct (wfk_split _ Hk) as (p & Hp & Hnp). rewrite Hp.
    split; [constructor; auto|]. split; [discriminate|]. split; [discriminate|].
    split; [discriminate|].
    intros k' w. rewrite has_short, has_empty. split.
    + intros (r & -> & Hr). apply has_value in Hr as [-> ->]. rewrite app_nil_r. auto.
    + intros [[-> ->]|[_ []]]. exists []. rewrite app_nil_r. split; auto. constructor.
  - (* Leaf *)
    destruct (prefix_len_split (k0 :: kt) (p ++ [16])) as (pre & rk & rn & Ek & Enk & Hml & Hdiv).
    assert (Hwnk : wfk (p ++ [16])) by (apply wfk_snoc; auto).
    destruct rn as [|oi rn'].
    + (* whole key of the leaf matches: same key *)
      rewrite app_nil_r in Enk. subst pre.
      assert (rk = []) as -> by (apply (wfk_prefix_eq (p ++ [16]) rk); [auto | rewrite <- Ek; auto]).
      rewrite Ek in Hf |- *. rewrite insert_short_match by (destruct p; discriminate).
      rewrite app_nil_r in *.
      destruct f as [|f]; [rewrite app_length in Hf; cbn in Hf; lia|]. rewrite insert_nil_eq.
      cbn [rbind fst snd].
      destruct (beq v0 v) eqn:Eb; cbn [negb].
      * apply beq_eq in Eb. subst v0. exists false, (Short (p ++ [16]) (Value v) fl).
        split; auto. split; [constructor; auto|]. split; [discriminate|]. split; auto.
        split; [discriminate|]. apply ins_spec_same. rewrite <- (app_nil_r (p ++ [16])) at 2.
        constructor. constructor.
      * exists true, (Short (p ++ [16]) (Value v) newflag).
        split; auto. split; [constructor; auto|]. split; [discriminate|]. split; [discriminate|].
        split; [discriminate|].
        intros k' w. rewrite !has_short. split.
        -- intros (r & -> & Hr). apply has_value in Hr as [-> ->]. rewrite app_nil_r. auto.
        -- intros [[-> ->]|[Hne (r & -> & Hr)]].
           ++ exists []. rewrite app_nil_r. split; auto. constructor.
           ++ apply has_value in Hr as [-> ->]. rewrite app_nil_r in Hne. congruence.
    + (* diverge inside the leaf's key *)
      destruct rk as [|ni rk'].
      { exfalso. rewrite app_nil_r in Ek. subst pre.
        assert (oi :: rn' = []) by (apply (wfk_prefix_eq (k0 :: kt) (oi :: rn')); [exact Hk|rewrite <- Enk; auto]).
        discriminate. }
      rewrite Ek in Hk |- *. rewrite Enk in Hwnk |- *.
      assert (Hpre : nibs pre) by (apply (wfk_mid_nibs pre ni rk'); auto).
      assert (Hd : oi <> ni) by (intros ->; apply Hdiv; auto).
      assert (Hwr : wfk (ni :: rk')) by (apply (wfk_app_inv pre); auto).
      assert (Hwo : wfk (oi :: rn')) by (apply (wfk_app_inv pre); auto).
      assert (Hni : ni <= 16) by (cbn in Hwr; lia).
      assert (Hoi : oi <= 16) by (cbn in Hwo; lia).
      rewrite insert_short_diverge by auto.
      assert (HX : child_ok ni (leafn rk' (Value v))) by (apply child_ok_leaf; auto).
      assert (HY : child_ok oi (leafn rn' (Value v0))) by (apply child_ok_leaf; auto).
      eexists true, _. split; [reflexivity|].
      split; [apply canon_opt_short; auto; apply branch_canon; auto|].
      split; [apply opt_short_ne|]. split; [discriminate|]. split; [discriminate|].
      apply diverge_ins_spec; auto.
  - (* Ext *)
    destruct (prefix_len_split (k0 :: kt) nk) as (pre & rk & rn & Ek & Enk & Hml & Hdiv).
    destruct rn as [|oi rn'].
    + rewrite app_nil_r in Enk. subst pre. rewrite Ek in Hk, Hf |- *.
      rewrite insert_short_match by auto.
      assert (Hr : wfk rk) by (apply (wfk_app_inv nk); auto).
      destruct (IH (Full cs g) rk Hc Hr) as (b & nn & Hi & Hcn & Hne & Hb & Hfull & Hs).
      { rewrite app_length in Hf. destruct nk; [congruence|]. cbn in Hf. lia. }
      rewrite Hi. cbn [rbind fst snd].
      destruct (Hfull _ _ eq_refl) as (cs' & g' & ->).
      destruct b.
      * exists true, (Short nk (Full cs' g') newflag). split; auto.
        split; [constructor; auto|]. split; [discriminate|]. split; [discriminate|].
        split; [discriminate|].
        intros k' w. rewrite !has_short. split.
        -- intros (r & -> & Hh). apply Hs in Hh as [[-> ->]|[Hne' Hh]]; auto.
           right. split; eauto. intros Heq. apply app_inv_head in Heq. congruence.
        -- intros [[-> ->]|[Hne' (r & -> & Hh)]].
           ++ exists rk. split; auto. apply Hs. auto.
           ++ exists r. split; auto. apply Hs. right. split; auto. congruence.
      * specialize (Hb eq_refl). inversion Hb; subst cs' g'.
        exists false, (Short nk (Full cs g) fl). split; auto.
        split; [constructor; auto|]. split; [discriminate|]. split; auto.
        split; [discriminate|].
        intros k' w. rewrite !has_short. split.
        -- intros (r & -> & Hh). pose proof Hh as Hh2. apply Hs in Hh as [[-> ->]|[Hne' Hh]]; auto.
           right. split; eauto. intros Heq. apply app_inv_head in Heq. congruence.
        -- intros [[-> ->]|[Hne' (r & -> & Hh)]].
           ++ exists rk. split; auto. apply Hs. auto.
           ++ exists r. split; auto.
    + assert (Hpre : nibs pre) by (rewrite Enk in Hn; apply nibs_app in Hn; tauto).
      assert (Hno : nibs (oi :: rn')) by (rewrite Enk in Hn; apply nibs_app in Hn; tauto).
      destruct rk as [|ni rk'].
      { exfalso. rewrite app_nil_r in Ek. subst pre.
        apply (nibs_not_wfk_prefix (k0 :: kt) (oi :: rn')); [rewrite <- Enk; exact Hn | exact Hk]. }
      rewrite Ek in Hk |- *. rewrite Enk.
      assert (Hwr : wfk (ni :: rk')) by (apply (wfk_app_inv pre); auto).
      assert (Hni : ni <= 16) by (cbn in Hwr; lia).
      assert (Hoi : oi <= 16) by (inversion Hno; subst; lia).
      assert (Hd : oi <> ni) by (intros ->; apply Hdiv; auto).
      rewrite insert_short_diverge by auto.
      assert (HX : child_ok ni (leafn rk' (Value v))) by (apply child_ok_leaf; auto).
      assert (HY : child_ok oi (leafn rn' (Full cs g))) by (apply child_ok_ext; auto).
      eexists true, _. split; [reflexivity|].
      split; [apply canon_opt_short; auto; apply branch_canon; auto|].
      split; [apply opt_short_ne|]. split; [discriminate|]. split; [discriminate|].
      apply diverge_ins_spec; auto.
  - (* Full *)
    rewrite insert_full_eq. cbn in Hk.
    destruct Hk as [[-> ->]|[Hi Hkt]].
    + destruct (nth_error_lt_some cs 16) as (c & Hn); [lia|]. rewrite Hn.
      destruct f as [|f]; [cbn in Hf; lia|]. rewrite insert_nil_eq.
      assert (Hcan : forall fl', canon (Full (set_nth 16 (Value v) cs) fl')).
      { intros fl'. constructor.
        - rewrite set_nth_length; auto.
        - intros i c' Hc' Hi. rewrite nth_error_set_nth_neq in Hc' by lia. eauto.
        - intros c' Hc'. rewrite nth_error_set_nth_eq in Hc' by lia. inversion Hc'; subst. eauto.
        - pose proof (count_ne_set_nth cs 16 c (Value v) Hn) as C. cbn [is_empty] in C.
          destruct (is_empty c); lia. }
      assert (Hspec : ins_spec (Full cs fl) (Full (set_nth 16 (Value v) cs) newflag) [16] v).
      { intros k' w. rewrite !has_full. split.
        - intros (i & r & c' & -> & Hc' & Hr).
          destruct (Nat.eq_dec i 16) as [->|Hne].
          + rewrite nth_error_set_nth_eq in Hc' by lia. inversion Hc'; subst.
            apply has_value in Hr as [-> ->]. auto.
          + rewrite nth_error_set_nth_neq in Hc' by lia. right. split; [congruence|eauto 6].
        - intros [[-> ->]|[Hne (i & r & c' & -> & Hc' & Hr)]].
          + exists 16, [], (Value v). rewrite nth_error_set_nth_eq by lia. repeat split; auto. constructor.
          + destruct (Nat.eq_dec i 16) as [->|Hne'].
            * rewrite Hn in Hc'. inversion Hc'; subst.
              destruct (H16 _ Hn) as [->|(v' & _ & ->)]; [inversion Hr|].
              apply has_value in Hr as [-> ->]. congruence.
            * exists i, r, c'. rewrite nth_error_set_nth_neq by lia. auto. }
      destruct (H16 _ Hn) as [->|(v0 & Hv0 & ->)]; cbn [rbind fst snd].
      * exists true, (Full (set_nth 16 (Value v) cs) newflag). split; auto. split; auto.
        split; [discriminate|]. split; [discriminate|]. split; eauto.
      * destruct (beq v0 v) eqn:Eb; cbn [negb].
        -- apply beq_eq in Eb. subst v0. exists false, (Full cs fl). split; auto.
           split; [constructor; auto|]. split; [discriminate|]. split; auto. split; eauto.
           apply ins_spec_same. econstructor; eauto. constructor.
        -- exists true, (Full (set_nth 16 (Value v) cs) newflag). split; auto. split; auto.
           split; [discriminate|]. split; [discriminate|]. split; eauto.
    + destruct (nth_error_lt_some cs k0) as (c & Hn); [lia|]. rewrite Hn.
      destruct (IH c kt (Hch _ _ Hn Hi) Hkt) as (b & nn & Hins & Hcn & Hne & Hb & _ & Hs);
        [cbn in Hf; lia|].
      rewrite Hins. cbn [rbind fst snd].
      destruct b.
      * exists true, (Full (set_nth k0 nn cs) newflag). split; auto.
        split.
        { constructor.
          - rewrite set_nth_length; auto.
          - intros i c' Hc' Hi'. destruct (Nat.eq_dec i k0) as [->|Hd].
            + rewrite nth_error_set_nth_eq in Hc' by lia. inversion Hc'; subst; auto.
            + rewrite nth_error_set_nth_neq in Hc' by lia. eauto.
          - intros c' Hc'. rewrite nth_error_set_nth_neq in Hc' by lia. eauto.
          - pose proof (count_ne_set_nth cs k0 c nn Hn) as C.
            apply is_empty_false in Hne. rewrite Hne in C. destruct (is_empty c); lia. }
        split; [discriminate|]. split; [discriminate|]. split; eauto.
        intros k' w. rewrite !has_full. split.
        -- intros (i & r & c' & -> & Hc' & Hr).
           destruct (Nat.eq_dec i k0) as [->|Hd].
           ++ rewrite nth_error_set_nth_eq in Hc' by lia. inversion Hc'; subst.
              apply Hs in Hr as [[-> ->]|[Hne' Hr]]; auto.
              right. split; [congruence|eauto 6].
           ++ rewrite nth_error_set_nth_neq in Hc' by lia. right. split; [congruence|eauto 6].
        -- intros [[-> ->]|[Hne' (i & r & c' & -> & Hc' & Hr)]].
           ++ exists k0, kt, nn. rewrite nth_error_set_nth_eq by lia. repeat split; auto. apply Hs; auto.
           ++ destruct (Nat.eq_dec i k0) as [->|Hd].
              ** rewrite Hn in Hc'. inversion Hc'; subst.
                 exists k0, r, nn. rewrite nth_error_set_nth_eq by lia. repeat split; auto.
                 apply Hs. right. split; auto. congruence.
              ** exists i, r, c'. rewrite nth_error_set_nth_neq by lia. auto.
      * specialize (Hb eq_refl). subst nn.
        exists false, (Full cs fl). split; auto. split; [constructor; auto|].
        split; [discriminate|]. split; auto. split; eauto.
        intros k' w. rewrite !has_full. split.
        -- intros (i & r & c' & -> & Hc' & Hr).
           destruct (Nat.eq_dec i k0) as [->|Hd].
           ++ rewrite Hn in Hc'. inversion Hc'; subst.
              pose proof Hr as Hr2. apply Hs in Hr as [[-> ->]|[Hne' Hr]]; auto.
              right. split; [congruence|eauto 6].
           ++ right. split; [congruence|eauto 6].
        -- intros [[-> ->]|[Hne' (i & r & c' & -> & Hc' & Hr)]].
           ++ exists k0, kt, c. repeat split; auto. apply Hs; auto.
           ++ eauto 6.
Qed.


(* ------------------------------------------------------------------ delete *)

Definition collapse (cs' : list node) (nn : node) : res (bool * node) :=
  let n' := Full cs' newflag in
  if negb (is_empty nn) then Ok (true, n')
  else
    match single_child cs' 0 None with
    | Some (inl pos) =>
      let only := nth pos cs' Empty in
      if negb (Nat.eqb pos 16) then
        rbind (match only with Ref h => resolve_hash d h | _ => Ok only end) (fun cnode =>
          match cnode with
          | Short ck cv _ => Ok (true, Short (pos :: ck) cv newflag)
          | _ => Ok (true, Short [pos] only newflag)
          end)
      else Ok (true, Short [pos] only newflag)
    | _ => Ok (true, n')
    end.

Lemma delete_full_eq f cs fl k0 kt :
  delete (S f) d (Full cs fl) (k0 :: kt) =
  match nth_error cs k0 with
  | None => Crash
  | Some c =>
    rbind (delete f d c kt) (fun r =>
      if fst r then collapse (set_nth k0 (snd r) cs) (snd r) else Ok (false, Full cs fl))
  end.
Proof. reflexivity. Qed.

Lemma delete_short_eq f nk c fl k :
  delete (S f) d (Short nk c fl) k =
  let ml := prefix_len k nk in
  if Nat.ltb ml (length nk) then Ok (false, Short nk c fl)
  else if Nat.eqb ml (length k) then Ok (true, Empty)
  else
    rbind (delete f d c (skipn (length nk) k)) (fun r =>
      if fst r then
        match snd r with
        | Short ck cc _ => Ok (true, Short (nk ++ ck) cc newflag)
        | child => Ok (true, Short nk child newflag)
        end
      else Ok (false, Short nk c fl)).
Proof. reflexivity. Qed.

Definition del_spec (n n' : node) (k : key) : Prop :=
  forall k' w, has n' k' w <-> (k' <> k /\ has n k' w).

Lemma del_spec_absent n k : (forall w, ~ has n k w) -> del_spec n n k.
Proof.
  intros Hno k' w. split; [|tauto]. intros Hh. split; auto. intros ->. eapply Hno; eauto.
Qed.

Definition slot_ok (i : nat) (c : node) : Prop :=
  (i < 16 -> canon c) /\ (i = 16 -> c = Empty \/ exists v, v <> [] /\ c = Value v).

Lemma full_del_spec cs fl fl' k0 kt c nn :
  nth_error cs k0 = Some c -> del_spec c nn kt ->
  del_spec (Full cs fl) (Full (set_nth k0 nn cs) fl') (k0 :: kt).
Proof.
  intros Hn Hs k' w. pose proof (nth_error_some_lt _ _ _ Hn) as Hlt. rewrite !has_full. split.
  - intros (i & r & c' & -> & Hc' & Hr). destruct (Nat.eq_dec i k0) as [->|Hd].
    + rewrite nth_error_set_nth_eq in Hc' by auto. inversion Hc'; subst.
      apply Hs in Hr as [Hne Hr]. split; [congruence|eauto 6].
    + rewrite nth_error_set_nth_neq in Hc' by auto. split; [congruence|eauto 6].
  - intros [Hne (i & r & c' & -> & Hc' & Hr)]. destruct (Nat.eq_dec i k0) as [->|Hd].
    + rewrite Hn in Hc'. inversion Hc'; subst. exists k0, r, nn.
      rewrite nth_error_set_nth_eq by auto. repeat split; auto. apply Hs. split; auto. congruence.
    + exists i, r, c'. rewrite nth_error_set_nth_neq by auto. auto.
Qed.

Lemma nth_error_count_pos t : forall p c, nth_error t p = Some c -> c <> Empty -> 0 < count_ne t.
Proof.
  induction t as [|a t IH]; intros [|p] c Hp Hne; cbn in Hp; try discriminate; rewrite count_ne_cons.
  - inversion Hp; subst. apply is_empty_false in Hne. rewrite Hne. lia.
  - specialize (IH _ _ Hp Hne). lia.
Qed.

Lemma count_one_others cs : forall p c,
  count_ne cs = 1 -> nth_error cs p = Some c -> c <> Empty ->
  forall i c', i <> p -> nth_error cs i = Some c' -> c' = Empty.
Proof.
  induction cs as [|h t IH]; intros p c Hc Hp Hne i c' Hi Hn; [destruct p; discriminate|].
  rewrite count_ne_cons in Hc.
  destruct (is_empty c') eqn:E; [apply is_empty_true; auto|]. apply is_empty_false in E. exfalso.
  destruct p as [|p], i as [|i]; cbn in Hp, Hn; try congruence.
  - inversion Hp; subst h. apply is_empty_false in Hne. rewrite Hne in Hc.
    pose proof (nth_error_count_pos _ _ _ Hn E). lia.
  - inversion Hn; subst h. apply is_empty_false in E. rewrite E in Hc.
    pose proof (nth_error_count_pos _ _ _ Hp Hne). lia.
  - destruct (is_empty h) eqn:Eh.
    + apply E. apply (IH p c) with (i := i); auto.
    + pose proof (nth_error_count_pos _ _ _ Hp Hne). lia.
Qed.

Lemma has_single cs fl p only k' w :
  count_ne cs = 1 -> nth_error cs p = Some only -> only <> Empty ->
  (has (Full cs fl) k' w <-> exists r, k' = p :: r /\ has only r w).
Proof.
  intros Hc Hp Hne. rewrite has_full. split.
  - intros (i & r & c & -> & Hn & Hr). destruct (Nat.eq_dec i p) as [->|Hd].
    + rewrite Hp in Hn. inversion Hn; subst. eauto.
    + rewrite (count_one_others cs p only Hc Hp Hne i c Hd Hn) in Hr. inversion Hr.
  - intros (r & -> & Hr). eauto 6.
Qed.

(** a canonical non-empty subtrie is a short or a full node *)
Lemma canon_shape n : canon n -> n <> Empty ->
  (exists p v f, n = Short (p ++ [16]) (Value v) f /\ nibs p /\ v <> []) \/
  (exists k cs g f, n = Short k (Full cs g) f /\ k <> [] /\ nibs k /\ canon (Full cs g)) \/
  (exists cs f, n = Full cs f).
Proof.
  intros Hc Hne. destruct Hc; [congruence| | |]; eauto 12.
Qed.

Lemma has_short_cons pos ck cv f1 f2 k' w :
  (exists r, k' = pos :: r /\ has (Short ck cv f2) r w) <-> has (Short (pos :: ck) cv f1) k' w.
Proof.
  rewrite has_short. split.
  - intros (r & -> & Hr). apply has_short in Hr as (r2 & -> & Hr2). exists r2. cbn. auto.
  - intros (r & -> & Hr). exists (ck ++ r). cbn. split; auto. apply has_short. eauto.
Qed.

Lemma collapse_spec cs fl k0 c nn :
  canon (Full cs fl) -> k0 <= 16 -> nth_error cs k0 = Some c -> slot_ok k0 nn ->
  exists n', collapse (set_nth k0 nn cs) nn = Ok (true, n') /\ canon n' /\ n' <> Empty /\
             (forall k' w, has n' k' w <-> has (Full (set_nth k0 nn cs) newflag) k' w).
Proof.
  intros Hc Hk0 Hn [Hs1 Hs2]. inversion Hc as [| | |cs0 f0 Hl Hch H16 Hcnt]; subst.
  set (cs' := set_nth k0 nn cs).
  assert (Hl' : length cs' = 17) by (unfold cs'; rewrite set_nth_length; auto).
  assert (Hch' : forall i c', nth_error cs' i = Some c' -> i < 16 -> canon c').
  { intros i c' Hc' Hi. unfold cs' in Hc'. destruct (Nat.eq_dec i k0) as [->|Hd].
    - rewrite nth_error_set_nth_eq in Hc' by lia. inversion Hc'; subst; auto.
    - rewrite nth_error_set_nth_neq in Hc' by lia. eauto. }
  assert (H16' : forall c', nth_error cs' 16 = Some c' -> c' = Empty \/ exists v, v <> [] /\ c' = Value v).
  { intros c' Hc'. unfold cs' in Hc'. destruct (Nat.eq_dec 16 k0) as [<-|Hd].
    - rewrite nth_error_set_nth_eq in Hc' by lia. inversion Hc'; subst; auto.
    - rewrite nth_error_set_nth_neq in Hc' by lia. eauto. }
  pose proof (count_ne_set_nth cs k0 c nn Hn) as C. fold cs' in C.
  unfold collapse. fold cs'. destruct (is_empty nn) eqn:En; cbn [negb].
  2:{ exists (Full cs' newflag). split; auto. split; [|split; [discriminate|tauto]].
      constructor; auto. destruct (is_empty c); lia. }
  assert (C1 : 1 <= count_ne cs') by (destruct (is_empty c); lia).
  pose proof (single_child_none cs' 0) as Hsc.
  destruct (single_child cs' 0 None) as [[pos|u]|].
  - destruct Hsc as (Hone & _ & only & Hp & Hne). rewrite Nat.sub_0_r in Hp.
    assert (Hnth : nth pos cs' Empty = only) by (apply nth_error_nth; auto).
    rewrite Hnth. pose proof (nth_error_some_lt _ _ _ Hp) as Hpos. rewrite Hl' in Hpos.
    destruct (Nat.eqb_spec pos 16) as [->|Hp16]; cbn [negb].
    + destruct (H16' _ Hp) as [->|(v & Hv & ->)]; [congruence|].
      exists (Short [16] (Value v) newflag). split; auto.
      split; [apply (CLeaf [] v); auto; constructor|]. split; [discriminate|].
      intros k' w. rewrite (has_single cs' newflag 16 (Value v)) by auto.
      rewrite has_short. cbn [app]. tauto.
    + assert (Hlt : pos < 16) by lia. pose proof (Hch' _ _ Hp Hlt) as Hco.
      destruct (canon_shape _ Hco Hne) as [(p & v & f & -> & Hnp & Hv)|[(k & cs1 & g & f & -> & Hk & Hnk & Hcf)|(cs1 & f & ->)]];
        cbn [rbind].
      * exists (Short (pos :: p ++ [16]) (Value v) newflag). split; auto.
        split; [apply (CLeaf (pos :: p)); auto; constructor; auto|]. split; [discriminate|].
        intros k' w. rewrite (has_single cs' newflag pos _ k' w Hone Hp Hne).
        symmetry. apply has_short_cons.
      * exists (Short (pos :: k) (Full cs1 g) newflag). split; auto.
        split; [constructor; auto; [discriminate|constructor; auto]|]. split; [discriminate|].
        intros k' w. rewrite (has_single cs' newflag pos _ k' w Hone Hp Hne).
        symmetry. apply has_short_cons.
      * exists (Short [pos] (Full cs1 f) newflag). split; auto.
        split; [constructor; auto; [discriminate|constructor; auto; constructor]|]. split; [discriminate|].
        intros k' w. rewrite (has_single cs' newflag pos _ k' w Hone Hp Hne).
        rewrite has_short. cbn [app]. tauto.
  - exists (Full cs' newflag). split; auto. split; [|split; [discriminate|tauto]].
    constructor; auto.
  - lia.
Qed.

Lemma merge_short nk ck cc f1 f2 f3 k' w :
  has (Short (nk ++ ck) cc f1) k' w <-> has (Short nk (Short ck cc f2) f3) k' w.
Proof.
  rewrite !has_short. split.
  - intros (r & -> & Hr). exists (ck ++ r). rewrite app_assoc. split; auto. apply has_short. eauto.
  - intros (r & -> & Hr). apply has_short in Hr as (r2 & -> & Hr2). exists r2. rewrite app_assoc. auto.
Qed.

Lemma delete_spec :
  forall fuel n k, canon n -> wfk k -> length k < fuel ->
  exists b n', delete fuel d n k = Ok (b, n') /\ canon n' /\
               (b = false -> n' = n) /\
               (forall cs g, n = Full cs g -> n' <> Empty) /\
               del_spec n n' k.
Proof.
  induction fuel as [|f IH]; intros n k Hc Hk Hf; [lia|].
  destruct Hc as [|p v0 fl Hp Hv0|nk cs g fl Hnk Hn Hc|cs fl Hl Hch H16 Hcnt].
  - (* Empty *)
    exists false, Empty. split; [reflexivity|]. split; [constructor|]. split; auto.
    split; [discriminate|]. apply del_spec_absent. intros w Hw. inversion Hw.
  - (* Leaf *)
    rewrite delete_short_eq. cbv zeta.
    destruct (prefix_len_split k (p ++ [16])) as (pre & rk & rn & Ek & Enk & Hml & Hdiv).
    rewrite <- Hml.
    assert (Hwnk : wfk (p ++ [16])) by (apply wfk_snoc; auto).
    destruct rn as [|oi rn'].
    + rewrite app_nil_r in Enk. subst pre.
      assert (rk = []) as -> by (apply (wfk_prefix_eq (p ++ [16]) rk); [auto | rewrite <- Ek; auto]).
      rewrite app_nil_r in Ek. subst k. rewrite Nat.ltb_irrefl, Nat.eqb_refl.
      exists true, Empty. split; auto. split; [constructor|]. split; [discriminate|].
      split; [discriminate|].
      intros k' w. rewrite has_empty, has_short. split; [tauto|].
      intros [Hne (r & -> & Hr)]. apply has_value in Hr as [-> ->]. rewrite app_nil_r in Hne. congruence.
    + assert (Hlt : Nat.ltb (length pre) (length (p ++ [16])) = true).
      { apply Nat.ltb_lt. rewrite Enk, app_length. cbn. lia. }
      rewrite Hlt. exists false, (Short (p ++ [16]) (Value v0) fl). split; auto.
      split; [constructor; auto|]. split; auto. split; [discriminate|].
      apply del_spec_absent. intros w Hw. apply has_short in Hw as (r & Hr & _).
      pose proof (prefix_len_app (p ++ [16]) r) as Hpl. rewrite <- Hr, <- Hml in Hpl.
      apply Nat.ltb_lt in Hlt. lia.
  - (* Ext *)
    rewrite delete_short_eq. cbv zeta.
    destruct (prefix_len_split k nk) as (pre & rk & rn & Ek & Enk & Hml & Hdiv).
    rewrite <- Hml.
    destruct rn as [|oi rn'].
    + rewrite app_nil_r in Enk. subst pre. subst k. rewrite Nat.ltb_irrefl.
      assert (Hr : wfk rk) by (apply (wfk_app_inv nk); auto).
      assert (Hlk : Nat.eqb (length nk) (length (nk ++ rk)) = false).
      { apply Nat.eqb_neq. rewrite app_length. destruct rk; [cbn in Hr; tauto|cbn; lia]. }
      rewrite Hlk. rewrite skipn_app_len.
      destruct (IH (Full cs g) rk Hc Hr) as (b & child & Hd & Hcc & Hb & Hne & Hs).
      { rewrite app_length in Hf. destruct nk; [congruence|]. cbn in Hf. lia. }
      rewrite Hd. cbn [rbind fst snd]. specialize (Hne _ _ eq_refl).
      assert (Hlift : forall n2, (forall k' w, has n2 k' w <-> has (Short nk child newflag) k' w) ->
                                 del_spec (Short nk (Full cs g) fl) n2 (nk ++ rk)).
      { intros n2 Hn2 k' w. rewrite Hn2, !has_short. split.
        - intros (r & -> & Hh). apply Hs in Hh as [Hne' Hh]. split; eauto.
          intros Heq. apply app_inv_head in Heq. congruence.
        - intros [Hne' (r & -> & Hh)]. exists r. split; auto. apply Hs. split; auto. congruence. }
      destruct b.
      * destruct (canon_shape _ Hcc Hne) as [(p & v & f0 & -> & Hnp & Hv)|[(k1 & cs1 & g1 & f0 & -> & Hk1 & Hnk1 & Hcf)|(cs1 & f0 & ->)]].
        -- exists true, (Short (nk ++ p ++ [16]) (Value v) newflag). split; auto.
           split; [rewrite app_assoc; constructor; auto; apply nibs_app; auto|].
           split; [discriminate|]. split; [discriminate|]. apply Hlift. intros. apply merge_short.
        -- exists true, (Short (nk ++ k1) (Full cs1 g1) newflag). split; auto.
           split; [constructor; auto; [destruct nk; [congruence|discriminate]|apply nibs_app; auto]|].
           split; [discriminate|]. split; [discriminate|]. apply Hlift. intros. apply merge_short.
        -- exists true, (Short nk (Full cs1 f0) newflag). split; auto.
           split; [constructor; auto|]. split; [discriminate|]. split; [discriminate|].
           apply Hlift. tauto.
      * specialize (Hb eq_refl). subst child.
        exists false, (Short nk (Full cs g) fl). split; auto. split; [constructor; auto|].
        split; auto. split; [discriminate|].
        intros k' w. rewrite !has_short. split.
        -- intros (r & -> & Hh). pose proof Hh as Hh2. apply Hs in Hh as [Hne' Hh]. split; eauto.
           intros Heq. apply app_inv_head in Heq. congruence.
        -- intros [Hne' (r & -> & Hh)]. eauto.
    + assert (Hlt : Nat.ltb (length pre) (length nk) = true).
      { apply Nat.ltb_lt. rewrite Enk, app_length. cbn. lia. }
      rewrite Hlt. exists false, (Short nk (Full cs g) fl). split; auto.
      split; [constructor; auto|]. split; auto. split; [discriminate|].
      apply del_spec_absent. intros w Hw. apply has_short in Hw as (r & Hr & _).
      pose proof (prefix_len_app nk r) as Hpl. rewrite <- Hr, <- Hml in Hpl.
      apply Nat.ltb_lt in Hlt. lia.
  - (* Full *)
    destruct k as [|k0 kt]; [cbn in Hk; tauto|]. rewrite delete_full_eq.
    assert (Hcf : canon (Full cs fl)) by (constructor; auto).
    assert (Hk0 : k0 <= 16) by (cbn in Hk; lia).
    destruct (nth_error_lt_some cs k0) as (c & Hn); [lia|]. rewrite Hn.
    (* the child's answer *)
    assert (Hchild : exists b nn, delete f d c kt = Ok (b, nn) /\ slot_ok k0 nn /\
                                  (b = false -> nn = c) /\ del_spec c nn kt).
    { cbn in Hk. destruct Hk as [[-> ->]|[Hi Hkt]].
      - destruct f as [|f]; [cbn in Hf; lia|].
        destruct (H16 _ Hn) as [->|(v & Hv & ->)].
        + exists false, Empty. split; [reflexivity|]. split; [split; [intros; lia|auto]|].
          split; auto. apply del_spec_absent. intros w Hw. inversion Hw.
        + exists true, Empty. split; [reflexivity|]. split; [split; [intros; lia|auto]|].
          split; [discriminate|]. intros k' w. rewrite has_empty, has_value. split; [tauto|].
          intros [Hne [-> _]]. congruence.
      - destruct (IH c kt (Hch _ _ Hn Hi) Hkt) as (b & nn & Hd & Hcn & Hb & _ & Hs); [cbn in Hf; lia|].
        exists b, nn. split; auto. split; [split; [auto|intros; lia]|]. auto. }
    destruct Hchild as (b & nn & Hd & Hslot & Hb & Hs). rewrite Hd. cbn [rbind fst snd].
    destruct b.
    + destruct (collapse_spec cs fl k0 c nn Hcf Hk0 Hn Hslot) as (n' & Hco & Hcan & Hne & Hh).
      rewrite Hco. exists true, n'. split; auto. split; auto. split; [discriminate|]. split; auto.
      intros k' w. rewrite Hh. apply (full_del_spec cs fl newflag k0 kt c nn Hn Hs).
    + specialize (Hb eq_refl). subst nn. exists false, (Full cs fl). split; auto. split; auto.
      split; auto. split; [discriminate|].
      intros k' w. pose proof (full_del_spec cs fl fl k0 kt c c Hn Hs k' w) as Hx.
      rewrite (set_nth_same _ _ _ Hn) in Hx. exact Hx.
Qed.

End WithDb.
