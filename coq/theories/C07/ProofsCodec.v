(** C07 proofs, part 7: the node codec round trip.  decodeNode applied to the encoding the
    hasher / committer produce for a canonical node returns that node with its children
    collapsed exactly as they were encoded (hash reference, embedded node, value, nil). *)
From Coq Require Import List ZArith NArith Arith Bool Lia.
From Kardia Require Import C07.Model C07.ProofsBase C07.ProofsMap C07.ProofsCanon C07.ProofsEnc
     C07.ProofsCache C07.ProofsRlp.
Import ListNotations.

Definition B32 : N := 4294967296%N.

(** every key fragment and value in the trie is shorter than 2^32 (so that all RLP sizes stay
    far below the 2^64 the length encoding can carry) *)
Inductive sized : node -> Prop :=
| SzE : sized Empty
| SzV v : (nlen v < B32)%N -> sized (Value v)
| SzS k c f : (nlen k < B32)%N -> sized c -> sized (Short k c f)
| SzF cs f : (forall c, In c cs -> sized c) -> sized (Full cs f).

Lemma dn_len : forall n k, length k <= n -> length (decode_nibbles k) <= length k.
Proof.
  induction n as [|n IH]; intros k Hk.
  - destruct k; cbn in *; lia.
  - destruct k as [|a [|b t]]; cbn [decode_nibbles length] in *; try lia.
    assert (length t <= n) by lia. specialize (IH t). lia.
Qed.

Lemma compact_len k : (nlen (hex_to_compact k) <= nlen k + 1)%N.
Proof.
  rewrite !nlen_length. unfold hex_to_compact.
  set (k1 := if has_term k then removelast k else k).
  assert (Hk1 : length k1 <= length k).
  { unfold k1. destruct (has_term k); auto. destruct k as [|x k]; auto.
    rewrite (app_removelast_last (l := x :: k) 0) at 2 by discriminate. rewrite app_length. cbn. lia. }
  destruct (Nat.odd (length k1)); cbn [length].
  - pose proof (dn_len _ (tl k1) (le_n _)). destruct k1; cbn in *; lia.
  - pose proof (dn_len _ k1 (le_n _)). lia.
Qed.

Lemma nlen_concat_bound (l : list bytes) M :
  Forall (fun x => (nlen x <= M)%N) l -> (nlen (concat l) <= N.of_nat (length l) * M)%N.
Proof.
  induction 1 as [|x l Hx Hl IH]; cbn [concat length]; [cbn; lia|]. rewrite nlen_app. lia.
Qed.

Lemma length_concat_ge (l : list bytes) : Forall (fun x => x <> []) l -> length l <= length (concat l).
Proof.
  induction 1 as [|x l Hx Hl IH]; cbn [concat length]; auto. rewrite app_length.
  destruct x; [congruence|]. cbn. lia.
Qed.

Section Codec.
Variable H : bytes -> bytes.
Hypothesis Hlen : forall x, length (H x) = 32.

(** the collapsed encoding of a node, from scratch (what hasher / committer / Prove write) *)
Definition cenc (n : node) : bytes :=
  match n with
  | Short k c _ => short_enc k (hspec H c false)
  | Full cs _ => full_enc (map (fun c => hspec H c false) cs)
  | _ => []
  end.

Lemma hspec_cenc n force : (match n with Short _ _ _ | Full _ _ => True | _ => False end) ->
  hspec H n force = finish H (cenc n) force.
Proof. destruct n; intros Hx; try (destruct Hx; fail); [apply hspec_short | apply hspec_full]. Qed.

(** the node as decodeNode returns it: children replaced by what their parent stores *)
Fixpoint shallow (h : option bytes) (n : node) {struct n} : node :=
  let cref := fun c => match hspec H c false with
                       | HNil => Empty
                       | HVal v => Value v
                       | HHash x => Ref x
                       | HEmb _ => shallow None c
                       end in
  match n with
  | Short k c _ => Short k (cref c) (mkFlag h false)
  | Full cs _ => Full (map cref cs) (mkFlag h false)
  | _ => n
  end.

Definition cref (c : node) : node :=
  match hspec H c false with
  | HNil => Empty
  | HVal v => Value v
  | HHash x => Ref x
  | HEmb _ => shallow None c
  end.

Lemma shallow_short h k c f : shallow h (Short k c f) = Short k (cref c) (mkFlag h false).
Proof. reflexivity. Qed.
Lemma shallow_full h cs f : shallow h (Full cs f) = Full (map cref cs) (mkFlag h false).
Proof. reflexivity. Qed.

Lemma nlen_H x : nlen (H x) = 32%N.
Proof. rewrite nlen_length, Hlen. reflexivity. Qed.

(* ------------------------------------------------------------------ sizes *)

Lemma enc_href_finish_len e : (nlen (enc_href (finish H e false)) <= 41)%N.
Proof.
  unfold finish. destruct (N.ltb_spec (nlen e) 32); cbn [andb negb enc_href].
  - lia.
  - pose proof (rlp_string_len (H e)) as X. rewrite nlen_H in X. unfold two64 in X. lia.
Qed.

Lemma href_len c : sized c -> (nlen (enc_href (hspec H c false)) <= B32 + 9)%N.
Proof.
  intros Hs. destruct Hs as [|v Hv|k c f Hk Hc|cs f Hc].
  - cbn. unfold B32. lia.
  - change (hspec H (Value v) false) with (HVal v). cbn [enc_href].
    pose proof (rlp_string_len v). unfold two64, B32 in *. lia.
  - rewrite hspec_short. pose proof (enc_href_finish_len (short_enc k (hspec H c false))). unfold B32. lia.
  - rewrite hspec_full. pose proof (enc_href_finish_len (full_enc (map (fun c => hspec H c false) cs))). unfold B32. lia.
Qed.

Definition short_payload (k : key) (c : node) : bytes :=
  rlp_string (hex_to_compact k) ++ enc_href (hspec H c false).
Definition full_payload (cs : list node) : bytes :=
  concat (map (fun c => enc_href (hspec H c false)) cs).

Lemma cenc_short k c f : cenc (Short k c f) = rlp_list (short_payload k c).
Proof. reflexivity. Qed.
Lemma cenc_full cs f : cenc (Full cs f) = rlp_list (full_payload cs).
Proof. unfold cenc, full_enc, full_payload. rewrite map_map. reflexivity. Qed.

Lemma short_payload_len k c : (nlen k < B32)%N -> sized c -> (nlen (short_payload k c) < two64)%N.
Proof.
  intros Hk Hc. unfold short_payload. rewrite nlen_app.
  pose proof (compact_len k). pose proof (href_len c Hc).
  pose proof (rlp_string_len (hex_to_compact k)). unfold two64, B32 in *. lia.
Qed.

Lemma full_payload_len cs : length cs = 17 -> (forall c, In c cs -> sized c) ->
  (nlen (full_payload cs) < two64)%N.
Proof.
  intros Hl Hc. unfold full_payload.
  assert (Hb : (nlen (concat (map (fun c => enc_href (hspec H c false)) cs)) <=
                N.of_nat (length (map (fun c => enc_href (hspec H c false)) cs)) * (B32 + 9))%N).
  { apply nlen_concat_bound. apply Forall_forall. intros x Hx. apply in_map_iff in Hx as (c & <- & Hin).
    apply href_len; auto. }
  rewrite map_length, Hl in Hb. unfold two64, B32 in *. lia.
Qed.

(* ------------------------------------------------------------------ children as RLP items *)

(** a child position that decodeRef reads back *)
Definition child_item (c : node) : Prop :=
  exists k x, item k x (enc_href (hspec H c false)).

Lemma item_finish e : (exists P, item KList P e) -> exists k x, item k x (enc_href (finish H e false)).
Proof.
  intros (P & Hi). unfold finish. destruct (N.ltb (nlen e) 32); cbn [andb negb enc_href]; eauto.
  destruct (item_string (H e)) as (k & _ & _ & Hk); [rewrite nlen_H; unfold two64; lia|]. eauto.
Qed.

Lemma cenc_item n : canon n -> sized n -> n <> Empty -> exists P, item KList P (cenc n).
Proof.
  intros Hc Hs Hne. destruct Hc as [|p v f Hp Hv|k cs g f Hk Hn Hc|cs f Hl Hch H16 Hcnt]; [congruence| | |].
  - inversion Hs; subst. rewrite cenc_short. eexists. apply item_list. apply short_payload_len; auto.
  - inversion Hs; subst. rewrite cenc_short. eexists. apply item_list. apply short_payload_len; auto.
  - inversion Hs; subst. rewrite cenc_full. eexists. apply item_list. apply full_payload_len; auto.
Qed.

Lemma hspec_node n : canon n -> n <> Empty -> hspec H n false = finish H (cenc n) false.
Proof. intros Hc Hne. apply hspec_cenc. destruct Hc; auto. Qed.

Lemma child_item_canon c : canon c -> sized c -> child_item c.
Proof.
  intros Hc Hs. destruct (is_empty c) eqn:E.
  - apply is_empty_true in E. subst. exists KString, []. change (enc_href (hspec H Empty false)) with [128%N].
    destruct (item_string []) as (k & _ & Hk & Hi); [cbn; unfold two64; lia|].
    rewrite Hk in Hi by (cbn; lia). exact Hi.
  - apply is_empty_false in E. unfold child_item. rewrite (hspec_node c Hc E).
    apply item_finish. apply cenc_item; auto.
Qed.

Lemma child_item_value v : (nlen v < B32)%N -> child_item (Value v).
Proof.
  intros Hv. unfold child_item. change (hspec H (Value v) false) with (HVal v). cbn [enc_href].
  destruct (item_string v) as (k & _ & _ & Hi); [unfold two64, B32 in *; lia|]. eauto.
Qed.

(* ------------------------------------------------------------------ decodeRef on an encoded child *)

Lemma decode_ref_empty dec rest : decode_ref dec ([128%N] ++ rest) = Some (Empty, rest).
Proof.
  destruct (item_string []) as (k & _ & Hk & Hi); [cbn; unfold two64; lia|].
  rewrite Hk in Hi by (cbn; lia). change (rlp_string []) with [128%N] in Hi.
  unfold decode_ref. rewrite (split_item _ _ _ rest Hi). reflexivity.
Qed.

Lemma decode_ref_hash dec e rest : decode_ref dec (rlp_string (H e) ++ rest) = Some (Ref (H e), rest).
Proof.
  destruct (item_string (H e)) as (k & _ & Hk & Hi); [rewrite nlen_H; unfold two64; lia|].
  rewrite Hk in Hi by (rewrite Hlen; lia).
  unfold decode_ref. rewrite (split_item _ _ _ rest Hi). rewrite nlen_H. reflexivity.
Qed.

Lemma decode_ref_emb dec e P rest n :
  item KList P e -> (nlen e < 32)%N -> dec (e ++ rest) = Some n ->
  decode_ref dec (e ++ rest) = Some (n, rest).
Proof.
  intros Hi Hl Hd. unfold decode_ref. rewrite (split_item _ _ _ rest Hi).
  rewrite nlen_app. replace (nlen e + nlen rest - nlen rest)%N with (nlen e) by lia.
  destruct (N.ltb_spec 32 (nlen e)); [lia|]. rewrite Hd. reflexivity.
Qed.

(** a non-empty canonical child: reference by hash, or embedded (then [dec] must decode it) *)
Lemma decode_ref_child dec c rest :
  canon c -> sized c -> c <> Empty ->
  ((nlen (cenc c) < 32)%N -> dec (cenc c ++ rest) = Some (shallow None c)) ->
  decode_ref dec (enc_href (hspec H c false) ++ rest) = Some (cref c, rest).
Proof.
  intros Hc Hs Hne Hdec. unfold cref. rewrite (hspec_node c Hc Hne). unfold finish.
  destruct (N.ltb_spec (nlen (cenc c)) 32) as [Hlt|Hge]; cbn [andb negb enc_href].
  - destruct (cenc_item c Hc Hs Hne) as (P & Hi). eapply decode_ref_emb; eauto.
  - apply decode_ref_hash.
Qed.

Lemma emb_enc c : canon c -> c <> Empty -> (nlen (cenc c) < 32)%N ->
  enc_href (hspec H c false) = cenc c.
Proof.
  intros Hc Hne Hl. rewrite (hspec_node c Hc Hne). unfold finish.
  destruct (N.ltb_spec (nlen (cenc c)) 32); [reflexivity|lia].
Qed.

Lemma decode_children_spec dec (l : list node) : forall rest,
  (forall c, In c l -> forall rest', decode_ref dec (enc_href (hspec H c false) ++ rest') = Some (cref c, rest')) ->
  decode_children dec (length l) (full_payload l ++ rest) = Some (map cref l, rest).
Proof.
  induction l as [|c l IH]; intros rest Hd; [reflexivity|].
  unfold full_payload. cbn [map concat length decode_children]. rewrite <- app_assoc.
  rewrite (Hd c (or_introl eq_refl)). fold (full_payload l). rewrite IH; auto.
  intros c' Hin. apply Hd. right; auto.
Qed.

(* ------------------------------------------------------------------ decodeNode on an encoded node *)

Lemma decode_node_step f h buf P rest0 :
  buf <> [] -> split_list buf = Some (P, rest0) ->
  decode_node (S f) h buf =
  let dec := decode_node f None in
  match count_values (length P) P with
  | Some 2 =>
    match split_string P with
    | None => None
    | Some (kbuf, rest) =>
      let k := compact_to_hex kbuf in
      if has_term k then
        match split_string rest with
        | None => None
        | Some (val, _) => Some (Short k (Value val) (mkFlag h false))
        end
      else
        match decode_ref dec rest with
        | None => None
        | Some (r, _) => Some (Short k r (mkFlag h false))
        end
    end
  | Some 17 =>
    match decode_children dec 16 P with
    | None => None
    | Some (cs, rest) =>
      match split_string rest with
      | None => None
      | Some (val, _) =>
        let c16 := if N.ltb 0 (nlen val) then Value val else Empty in
        Some (Full (cs ++ [c16]) (mkFlag h false))
      end
    end
  | _ => None
  end.
Proof.
  intros Hne Hs. destruct buf as [|b buf]; [congruence|]. cbn [decode_node]. rewrite Hs. reflexivity.
Qed.

Lemma rlp_list_nonempty p : rlp_list p <> [].
Proof. unfold rlp_list. destruct (N.ltb (nlen p) 56); discriminate. Qed.

Lemma app_rlp_list_nonempty p rest : rlp_list p ++ rest <> [].
Proof. intros X. apply app_eq_nil in X. destruct X as [X _]. eapply rlp_list_nonempty; eauto. Qed.

Lemma count_two a b : (exists k x, item k x a) -> (exists k x, item k x b) ->
  count_values (length (a ++ b)) (a ++ b) = Some 2.
Proof.
  intros Ha Hb. replace (a ++ b) with (concat [a; b]) by (cbn; rewrite app_nil_r; reflexivity).
  apply (count_values_items [a; b]); [repeat constructor; auto|].
  apply (length_concat_ge [a; b]). repeat constructor.
  - destruct Ha as (k & x & hdr & _ & Hne & _); auto.
  - destruct Hb as (k & x & hdr & _ & Hne & _); auto.
Qed.

Theorem decode_cenc n : canon n -> sized n -> n <> Empty ->
  forall fuel h rest, length (cenc n) <= fuel ->
  decode_node fuel h (cenc n ++ rest) = Some (shallow h n).
Proof.
  induction 1 as [|p v f Hp Hv|k cs g f Hk Hn Hc IH|cs f Hl Hch IH H16 Hcnt]; intros Hs Hne fuel h rest Hf.
  - congruence.
  - (* leaf *)
    inversion Hs as [| |? ? ? Hkl Hsc|]; subst. inversion Hsc as [|? Hvl| |]; subst.
    rewrite cenc_short in *.
    destruct fuel as [|fuel]; [pose proof (rlp_list_nonempty (short_payload (p ++ [16]) (Value v))) as X;
                               destruct (rlp_list _); [congruence|cbn in Hf; lia]|].
    pose proof (item_list _ (short_payload_len _ _ Hkl Hsc)) as Hil.
    rewrite (decode_node_step fuel h _ _ rest (app_rlp_list_nonempty _ rest) (split_list_item _ _ rest Hil)).
    cbv zeta. unfold short_payload. change (hspec H (Value v) false) with (HVal v). cbn [enc_href].
    destruct (item_string (hex_to_compact (p ++ [16]))) as (k1 & Hk1 & _ & Hi1).
    { pose proof (compact_len (p ++ [16])). unfold two64, B32 in *. lia. }
    destruct (item_string v) as (k2 & Hk2 & _ & Hi2); [unfold two64, B32 in *; lia|].
    rewrite count_two by eauto.
    rewrite (split_string_item _ _ _ _ Hi1 Hk1).
    rewrite compact_roundtrip by (right; apply wfk_snoc; auto).
    rewrite has_term_snoc.
    rewrite <- (app_nil_r (rlp_string v)). rewrite (split_string_item _ _ _ _ Hi2 Hk2).
    reflexivity.
  - (* extension *)
    inversion Hs as [| |? ? ? Hkl Hsc|]; subst.
    rewrite cenc_short in *.
    pose proof (item_list _ (short_payload_len _ _ Hkl Hsc)) as Hil.
    pose proof (rlp_list_len _ (short_payload_len _ _ Hkl Hsc)) as Hll.
    destruct fuel as [|fuel]; [pose proof (rlp_list_nonempty (short_payload k (Full cs g))) as X;
                               destruct (rlp_list _); [congruence|cbn in Hf; lia]|].
    assert (Hfuel : (nlen (cenc (Full cs g)) < 32)%N -> length (cenc (Full cs g)) <= fuel).
    { intros Hsmall.
      assert (Hle : (nlen (cenc (Full cs g)) <= nlen (short_payload k (Full cs g)))%N).
      { unfold short_payload. rewrite nlen_app, (emb_enc _ Hc) by (auto; discriminate). lia. }
      rewrite !nlen_length in Hle, Hll. lia. }
    rewrite (decode_node_step fuel h _ _ rest (app_rlp_list_nonempty _ rest) (split_list_item _ _ rest Hil)).
    cbv zeta. unfold short_payload in *.
    destruct (item_string (hex_to_compact k)) as (k1 & Hk1 & _ & Hi1).
    { pose proof (compact_len k). unfold two64, B32 in *. lia. }
    assert (Hcne : Full cs g <> Empty) by discriminate.
    rewrite count_two; [|eauto|apply child_item_canon; auto].
    rewrite (split_string_item _ _ _ _ Hi1 Hk1).
    rewrite compact_roundtrip by (left; auto).
    rewrite (has_term_nibs _ Hn).
    rewrite <- (app_nil_r (enc_href _)).
    rewrite (decode_ref_child (decode_node fuel None) (Full cs g) [] Hc Hsc Hcne).
    + reflexivity.
    + intros Hsmall. apply IH; auto.
  - (* branch *)
    inversion Hs as [| | |? ? Hsc]; subst.
    rewrite cenc_full in *.
    pose proof (item_list _ (full_payload_len _ Hl Hsc)) as Hil.
    pose proof (rlp_list_len _ (full_payload_len _ Hl Hsc)) as Hll.
    destruct fuel as [|fuel]; [pose proof (rlp_list_nonempty (full_payload cs)) as X;
                               destruct (rlp_list _); [congruence|cbn in Hf; lia]|].
    rewrite (decode_node_step fuel h _ _ rest (app_rlp_list_nonempty _ rest) (split_list_item _ _ rest Hil)).
    cbv zeta.
    (* seventeen items *)
    assert (Hitems : Forall (fun it => exists k x, item k x it) (map (fun c => enc_href (hspec H c false)) cs)).
    { apply Forall_forall. intros it Hin. apply in_map_iff in Hin as (c & <- & Hin).
      destruct (In_nth_error _ _ Hin) as (i & Hi). pose proof (nth_error_some_lt _ _ _ Hi) as Hlt.
      destruct (Nat.eq_dec i 16) as [->|Hd].
      - destruct (H16 _ Hi) as [->|(v & Hv & ->)].
        + apply child_item_canon; [constructor|constructor].
        + apply child_item_value. specialize (Hsc _ Hin). inversion Hsc; auto.
      - apply child_item_canon; auto. apply (Hch i); auto. lia. }
    assert (Hcount : count_values (length (full_payload cs)) (full_payload cs) = Some 17).
    { unfold full_payload. rewrite count_values_items; auto.
      - rewrite map_length, Hl. reflexivity.
      - apply length_concat_ge. eapply Forall_impl; [|exact Hitems].
        intros it (k & x & hdr & _ & Hne' & _). auto. }
    rewrite Hcount.
    (* split the children into the first sixteen and the value slot *)
    destruct (nth_error_lt_some cs 16) as (c16 & Hn16); [lia|].
    assert (Ecs : cs = firstn 16 cs ++ [c16]).
    { rewrite <- (firstn_skipn 16 cs) at 1. f_equal.
      pose proof (nth_error_split cs 16 Hn16) as (l1 & l2 & E & Hl1). rewrite E.
      rewrite <- Hl1, skipn_app_len. rewrite E, app_length in Hl. cbn in Hl.
      destruct l2; [reflexivity|cbn in Hl; lia]. }
    remember (firstn 16 cs) as l16 eqn:El16.
    assert (Hl16 : length l16 = 16) by (rewrite El16, firstn_length; lia).
    assert (Epay : full_payload cs = full_payload l16 ++ enc_href (hspec H c16 false)).
    { rewrite Ecs at 1. unfold full_payload. rewrite map_app, concat_app. cbn. rewrite app_nil_r. reflexivity. }
    rewrite Epay. rewrite <- Hl16.
    rewrite (decode_children_spec (decode_node fuel None) l16 (enc_href (hspec H c16 false))).
    + (* the value slot *)
      assert (Hval : exists val, split_string (enc_href (hspec H c16 false)) = Some (val, []) /\
                                 (if N.ltb 0 (nlen val) then Value val else Empty) = cref c16).
      { destruct (H16 _ Hn16) as [->|(v & Hv & ->)].
        - exists []. change (enc_href (hspec H Empty false)) with ([128%N] ++ []).
          destruct (item_string []) as (k & Hk & _ & Hi); [cbn; unfold two64; lia|].
          change (rlp_string []) with [128%N] in Hi. rewrite (split_string_item _ _ _ _ Hi Hk). auto.
        - exists v. change (hspec H (Value v) false) with (HVal v). cbn [enc_href].
          assert (Hsv : sized (Value v)) by (apply Hsc; eapply nth_error_In; eauto). inversion Hsv; subst.
          destruct (item_string v) as (k & Hk & _ & Hi); [unfold two64, B32 in *; lia|].
          rewrite <- (app_nil_r (rlp_string v)). rewrite (split_string_item _ _ _ _ Hi Hk). split; auto.
          destruct (N.ltb_spec 0 (nlen v)) as [_|X]; [reflexivity|]. destruct v; [congruence|cbn [nlen] in X; lia]. }
      destruct Hval as (val & Hsv & Hcv). rewrite Hsv, Hcv. rewrite shallow_full.
      replace (map cref cs) with (map cref l16 ++ [cref c16]); [reflexivity|].
      rewrite Ecs at 1. rewrite map_app. reflexivity.
    + (* each of the sixteen children *)
      intros c Hin rest'. assert (Hinc : In c cs) by (rewrite Ecs; apply in_or_app; auto).
      destruct (In_nth_error _ _ Hin) as (i & Hi).
      assert (Hi16 : i < 16) by (rewrite <- Hl16; eapply nth_error_some_lt; eauto).
      assert (Hics : nth_error cs i = Some c).
      { rewrite Ecs. rewrite nth_error_app1 by lia. auto. }
      pose proof (Hch _ _ Hics Hi16) as Hcc.
      destruct (is_empty c) eqn:E.
      * apply is_empty_true in E. subst c. change (enc_href (hspec H Empty false)) with [128%N].
        rewrite decode_ref_empty. reflexivity.
      * apply is_empty_false in E. apply decode_ref_child; auto.
        intros Hsmall. apply (IH i c Hics Hi16); auto.
        assert (Hle : (nlen (cenc c) <= nlen (full_payload cs))%N).
        { unfold full_payload. destruct (in_split _ _ Hinc) as (l1 & l2 & ->).
          rewrite map_app, concat_app. cbn [map concat]. rewrite !nlen_app.
          rewrite (emb_enc _ Hcc E Hsmall). lia. }
        rewrite !nlen_length in Hle, Hll. lia.
Qed.

End Codec.
