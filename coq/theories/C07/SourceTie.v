(** C07 — tie of the model's arithmetic and decisions to the Go SOURCE.
    [Generated/C07Source.v] is produced on every check by /verif/go2coq from /repo's working tree:
    every guard / loop bound / integer expression of trie/encoding.go (hexToCompact, compactToHex,
    keybytesToHex, hexToKeybytes, decodeNibbles, prefixLen, hasTerm), trie/hasher.go
    (shortnodeToHash / fullnodeToHash: the [len(enc) < 32 && !force] embedding rule),
    trie/node.go (decodeRef, decodeNodeUnsafe, decodeFull), trie/proof.go (Prove, VerifyRangeProof,
    unsetInternal, unset, hasRightElement, get, proofToPath), trie/stacktrie.go (Update, insert,
    getDiffIndex, hashRec, Hash), trie/trie.go (get, insert, delete, update, Commit, New),
    trie/committer.go (commit, commitChildren) and types/hashing.go (DeriveSha).
    The lemmas say that the definitions of C07/Model.v and C07/ModelRange.v compute exactly these
    expressions on exactly these operands; where the model embeds a guard in a large recursive
    function the lemma equates the source guard with the expression the model uses at that place. *)
From Coq Require Import List ZArith NArith Arith Bool Lia String.
From Kardia Require Import Base.GoSem.
From Kardia Require Import Generated.C07Source.
From Kardia Require Import C07.Model C07.ModelRange.
Import ListNotations.
Local Open Scope Z_scope.
Notation length := List.length (only parsing).
Ltac Zify.zify_post_hook ::= Z.div_mod_to_equations.

(* ------------------------------------------------------------------ helpers *)

(** bytes.Compare as the Go int it returns *)
Definition cmp_int (c : comparison) : Z := match c with Lt => -1 | Eq => 0 | Gt => 1 end.

Lemma ltb_nat_Z a b : Z.ltb (Z.of_nat a) (Z.of_nat b) = Nat.ltb a b.
Proof. destruct (Z.ltb_spec (Z.of_nat a) (Z.of_nat b)), (Nat.ltb_spec a b); auto; lia. Qed.
Lemma leb_nat_Z a b : Z.leb (Z.of_nat a) (Z.of_nat b) = Nat.leb a b.
Proof. destruct (Z.leb_spec (Z.of_nat a) (Z.of_nat b)), (Nat.leb_spec a b); auto; lia. Qed.
Lemma eqb_nat_Z a b : Z.eqb (Z.of_nat a) (Z.of_nat b) = Nat.eqb a b.
Proof. destruct (Z.eqb_spec (Z.of_nat a) (Z.of_nat b)), (Nat.eqb_spec a b); auto; lia. Qed.
Lemma ltb_N_Z a b : Z.ltb (Z.of_N a) (Z.of_N b) = N.ltb a b.
Proof. destruct (Z.ltb_spec (Z.of_N a) (Z.of_N b)), (N.ltb_spec a b); auto; lia. Qed.
Lemma eqb_N_Z a b : Z.eqb (Z.of_N a) (Z.of_N b) = N.eqb a b.
Proof. destruct (Z.eqb_spec (Z.of_N a) (Z.of_N b)), (N.eqb_spec a b); auto; lia. Qed.

Lemma nlen_length {A} (l : list A) : nlen l = N.of_nat (length l).
Proof. induction l as [|x l IH]; [reflexivity|]. cbn [nlen length]. rewrite IH. lia. Qed.

Lemma odd_mod2 n : Z.of_nat n mod 2 = if Nat.odd n then 1 else 0.
Proof.
  assert (Hn : forall k, (Z.of_nat k mod 2 = if Nat.odd k then 1 else 0) /\
                         (Z.of_nat (S k) mod 2 = if Nat.odd (S k) then 1 else 0)).
  { intros k. induction k as [|m [IH1 IH2]]; [split; reflexivity|]. split; [exact IH2|].
    change (Nat.odd (S (S m))) with (Nat.odd m). rewrite !Nat2Z.inj_succ in *.
    destruct (Nat.odd m); lia. }
  exact (proj1 (Hn n)).
Qed.

Lemma land_1 z : 0 <= z -> Z.land z 1 = z mod 2.
Proof. intros Hz. change 1 with (Z.ones 1). rewrite Z.land_ones by lia. reflexivity. Qed.

(** a nibble (0..15) or the terminator, enumerated *)
Ltac enum16 h H :=
  let E := fresh "E" in
  assert (E : h = 0 \/ h = 1 \/ h = 2 \/ h = 3 \/ h = 4 \/ h = 5 \/ h = 6 \/ h = 7 \/ h = 8 \/
              h = 9 \/ h = 10 \/ h = 11 \/ h = 12 \/ h = 13 \/ h = 14 \/ h = 15) by lia;
  clear H; repeat (destruct E as [E|E]; [subst h|]); try subst h.

(* ------------------------------------------------------------------ encoding.go *)

(** keybytesToHex: the two nibbles of a byte are [b / 16] and [b % 16]; the result has
    [len(str)*2 + 1] elements, the last one the terminator 16 *)
Lemma src_hex_nibbles b t : (b < 256)%N ->
  map Z.of_nat (firstn 2 (keybytes_to_hex (b :: t))) =
  [trie__keybytesToHex__assign (Z.of_N b); trie__keybytesToHex__assign_2 (Z.of_N b)].
Proof.
  intros Hb. cbn [keybytes_to_hex firstn map].
  unfold trie__keybytesToHex__assign, trie__keybytesToHex__assign_2, go_quot, go_rem.
  rewrite !N_nat_Z, N2Z.inj_div, N2Z.inj_mod. change (Z.of_N 16) with 16.
  rewrite Z.quot_div_nonneg, Z.rem_mod_nonneg by lia.
  rewrite !wrap_id by (unfold in_range; lia). reflexivity.
Qed.

Lemma keybytes_to_hex_length bs : length (keybytes_to_hex bs) = (2 * length bs + 1)%nat.
Proof. induction bs as [|b bs IH]; [reflexivity|]. cbn [keybytes_to_hex length]. rewrite IH. lia. Qed.

Lemma src_hex_length bs : Z.of_nat (length bs) < 2 ^ 61 ->
  Z.of_nat (length (keybytes_to_hex bs)) = trie__keybytesToHex__set_l (Z.of_nat (length bs)).
Proof.
  intros Hl. rewrite keybytes_to_hex_length. unfold trie__keybytesToHex__set_l, go_add, go_mul.
  rewrite !wrap_id by (unfold in_range; try rewrite wrap_id by (unfold in_range; lia); lia). lia.
Qed.

Lemma src_hex_terminator bs : Z.of_nat (last (keybytes_to_hex bs) 0%nat) = trie__keybytesToHex__let_assign.
Proof.
  induction bs as [|b bs IH]; [reflexivity|].
  cbn [keybytes_to_hex]. destruct (keybytes_to_hex bs) as [|x l] eqn:E.
  - pose proof (keybytes_to_hex_length bs) as Hl. rewrite E in Hl. cbn in Hl. lia.
  - exact IH.
Qed.

(** hasTerm *)
Lemma src_has_term k :
  has_term k = trie__hasTerm__ret_len_s_gt_0_and_s_at_len_s_minus_1_eq_16 (Z.of_nat (length k)) (Z.of_nat (last k 0%nat)).
Proof.
  unfold has_term, trie__hasTerm__ret_len_s_gt_0_and_s_at_len_s_minus_1_eq_16.
  destruct k as [|x k] using rev_ind; [reflexivity|].
  rewrite rev_unit, last_last, app_length. cbn [length].
  change 16 with (Z.of_nat 16). rewrite eqb_nat_Z.
  replace (Z.of_nat (length k + 1) >? 0) with true by (symmetry; apply Z.gtb_lt; lia). reflexivity.
Qed.

(** hexToCompact: the flag byte is [terminator << 5], or'ed with [1 << 4] and the first nibble
    when the number of nibbles is odd *)
Lemma src_compact_flag tb h : (tb = 0 \/ tb = 1) -> 0 <= h < 16 ->
  trie__hexToCompact__assign tb = 32 * tb /\
  trie__hexToCompact__assign_op_2 (trie__hexToCompact__assign_op (trie__hexToCompact__assign tb)) h = 32 * tb + 16 + h.
Proof.
  intros [->| ->] Hh; (split; [reflexivity|]); enum16 h Hh; reflexivity.
Qed.

Lemma src_compact_odd n : Z.of_nat n < 2 ^ 62 ->
  trie__hexToCompact__if_len_hex_band_1_eq_1 (Z.of_nat n) = Nat.odd n.
Proof.
  intros Hn. unfold trie__hexToCompact__if_len_hex_band_1_eq_1, go_and.
  rewrite land_1 by lia. pose proof (odd_mod2 n) as Ho.
  rewrite wrap_id by (unfold in_range; lia). rewrite Ho. destruct (Nat.odd n); reflexivity.
Qed.

(** the first byte [hex_to_compact] emits is the source expression on the model's operands *)
Lemma src_compact_first_byte hex :
  let term := has_term hex in
  let hex1 := if term then removelast hex else hex in
  let tb := if trie__hexToCompact__if_hasTerm_hex term then trie__hexToCompact__let_terminator_2
            else trie__hexToCompact__let_terminator in
  (hd 0 hex1 < 16)%nat -> Z.of_nat (length hex1) < 2 ^ 62 ->
  Z.of_N (hd 0%N (hex_to_compact hex)) =
  if trie__hexToCompact__if_len_hex_band_1_eq_1 (Z.of_nat (length hex1))
  then trie__hexToCompact__assign_op_2 (trie__hexToCompact__assign_op (trie__hexToCompact__assign tb)) (Z.of_nat (hd 0%nat hex1))
  else trie__hexToCompact__assign tb.
Proof.
  intros term hex1 tb Hh Hl. rewrite src_compact_odd by exact Hl.
  unfold hex_to_compact. fold term. fold hex1.
  assert (Htb : tb = 0 \/ tb = 1) by (unfold tb, trie__hexToCompact__if_hasTerm_hex; destruct term; auto).
  destruct (src_compact_flag tb (Z.of_nat (hd 0%nat hex1)) Htb ltac:(lia)) as [Ha Hb].
  assert (Ht : Z.of_nat (if term then 32 else 0) = 32 * tb)
    by (unfold tb, trie__hexToCompact__if_hasTerm_hex; destruct term; reflexivity).
  destruct (Nat.odd (length hex1)); cbn [hd].
  - rewrite Hb. lia.
  - rewrite Ha. lia.
Qed.

(** decodeNibbles: one output byte is [nibbles[ni]<<4 | nibbles[ni+1]]; the loop advances by two
    input nibbles and one output byte, starting at 0 *)
Lemma src_decode_nibbles_byte a b t : (a < 16)%nat -> (b < 16)%nat ->
  Z.of_N (hd 0%N (decode_nibbles (a :: b :: t))) = trie__decodeNibbles__assign (Z.of_nat a) (Z.of_nat b).
Proof.
  intros Ha Hb. cbn [decode_nibbles hd]. rewrite nat_N_Z.
  assert (Ha' : 0 <= Z.of_nat a < 16) by lia. assert (Hb' : 0 <= Z.of_nat b < 16) by lia.
  replace (Z.of_nat (16 * a + b)) with (16 * Z.of_nat a + Z.of_nat b) by lia.
  generalize dependent (Z.of_nat b). generalize dependent (Z.of_nat a). clear.
  intros x Hx y Hy. enum16 x Hx; enum16 y Hy; reflexivity.
Qed.

Lemma src_decode_nibbles_loop ni bi : 0 <= ni < 2 ^ 62 -> 0 <= bi < 2 ^ 62 ->
  trie__decodeNibbles__forinit_ni = 0 /\ trie__decodeNibbles__forinit_bi = 0 /\
  trie__decodeNibbles__set_ni ni = ni + 2 /\ trie__decodeNibbles__set_bi bi = bi + 1.
Proof.
  intros Hn Hb. repeat split;
    unfold trie__decodeNibbles__set_ni, trie__decodeNibbles__set_bi, go_add; apply wrap_id; unfold in_range; lia.
Qed.

(** compactToHex: the terminator is dropped iff [base[0] < 2], [2 - base[0]&1] nibbles are chopped *)
Lemma src_compact_to_hex_guards b0 : (b0 < 16)%nat ->
  trie__compactToHex__if_base_at_0_lt_2 (Z.of_nat b0) = Nat.ltb b0 2 /\
  Z.to_nat (trie__compactToHex__set_chop (Z.of_nat b0)) = (2 - Nat.modulo b0 2)%nat.
Proof.
  intros Hb. split.
  - unfold trie__compactToHex__if_base_at_0_lt_2. change 2 with (Z.of_nat 2). apply ltb_nat_Z.
  - do 16 (destruct b0 as [|b0]; [reflexivity|]). lia.
Qed.

Lemma src_compact_to_hex c : c <> [] ->
  let base := keybytes_to_hex c in
  (hd 0 base < 16)%nat ->
  compact_to_hex c =
  skipn (Z.to_nat (trie__compactToHex__set_chop (Z.of_nat (hd 0%nat base))))
        (if trie__compactToHex__if_base_at_0_lt_2 (Z.of_nat (hd 0%nat base)) then removelast base else base).
Proof.
  intros Hc base Hb. destruct (src_compact_to_hex_guards _ Hb) as [-> ->].
  unfold compact_to_hex. destruct c; [congruence|]. reflexivity.
Qed.

(** prefixLen: the scan stops at the shorter length and at the first differing element *)
Lemma src_prefix_len_guards la lb i x y :
  trie__prefixLen__if_len_b_lt_length (Z.of_nat lb) (Z.of_nat la) = Nat.ltb lb la /\
  trie__prefixLen__let_length (Z.of_nat lb) = Z.of_nat lb /\
  trie__prefixLen__for_i_lt_length (Z.of_nat i) (Z.of_nat la) = Nat.ltb i la /\
  trie__prefixLen__if_a_at_i_ne_b_at_i (Z.of_nat x) (Z.of_nat y) = negb (Nat.eqb x y).
Proof.
  repeat split; try apply ltb_nat_Z.
  unfold trie__prefixLen__if_a_at_i_ne_b_at_i, go_neqb. rewrite eqb_nat_Z. reflexivity.
Qed.

Lemma src_prefix_len_step x y a b :
  prefix_len (x :: a) (y :: b) =
  if trie__prefixLen__if_a_at_i_ne_b_at_i (Z.of_nat x) (Z.of_nat y) then 0%nat else S (prefix_len a b).
Proof.
  cbn [prefix_len]. unfold trie__prefixLen__if_a_at_i_ne_b_at_i, go_neqb. rewrite eqb_nat_Z.
  destruct (Nat.eqb x y); reflexivity.
Qed.

(* ------------------------------------------------------------------ hasher.go *)

(** the embedding rule: a collapsed node is stored inline iff [len(enc) < 32 && !force] *)
Lemma src_finish (H : bytes -> bytes) enc force :
  finish H enc force =
  (if trie__hasher_shortnodeToHash__if_len_enc_lt_32_and_not_force (Z.of_N (nlen enc)) force
   then HEmb enc else HHash (H enc)) /\
  finish H enc force =
  (if trie__hasher_fullnodeToHash__if_len_enc_lt_32_and_not_force (Z.of_N (nlen enc)) force
   then HEmb enc else HHash (H enc)).
Proof.
  unfold finish, trie__hasher_shortnodeToHash__if_len_enc_lt_32_and_not_force,
    trie__hasher_fullnodeToHash__if_len_enc_lt_32_and_not_force.
  change 32 with (Z.of_N 32). rewrite ltb_N_Z. split; reflexivity.
Qed.

(* ------------------------------------------------------------------ node.go *)

(** rlp.Kind as the Go constant *)
Definition kind_code (k : kind) : Z := match k with KByte => 0 | KString => 1 | KList => 2 end.

(** decodeRef: a list item is an embedded node and refused when its size exceeds hashLen;
    a string item must be empty or 32 bytes long *)
Lemma src_decode_ref_guards k b r v : (r <= b)%N -> Z.of_N b < 2 ^ 62 ->
  trie__decodeRef__case_kind_eq_rlp_List (kind_code k) = match k with KList => true | _ => false end /\
  trie__decodeRef__if_size_gt_hashLen (trie__decodeRef__set_size (Z.of_N b) (Z.of_N r)) = N.ltb 32 (b - r) /\
  trie__decodeRef__case_kind_eq_rlp_String_and_len_val_eq_0 (kind_code k) (Z.of_N v) =
    (match k with KString => true | _ => false end && N.eqb v 0) /\
  trie__decodeRef__case_kind_eq_rlp_String_and_len_val_eq_32 (kind_code k) (Z.of_N v) =
    (match k with KString => true | _ => false end && N.eqb v 32) /\
  trie__hashLen = 32.
Proof.
  intros Hr Hb. repeat split.
  - destruct k; reflexivity.
  - unfold trie__decodeRef__if_size_gt_hashLen, trie__decodeRef__set_size, go_sub.
    rewrite wrap_id by (unfold in_range; lia). rewrite Z.gtb_ltb.
    replace (Z.of_N b - Z.of_N r) with (Z.of_N (b - r)) by lia.
    change 32 with (Z.of_N 32). apply ltb_N_Z.
  - unfold trie__decodeRef__case_kind_eq_rlp_String_and_len_val_eq_0.
    change 0 with (Z.of_N 0). rewrite eqb_N_Z. destruct k; reflexivity.
  - unfold trie__decodeRef__case_kind_eq_rlp_String_and_len_val_eq_32.
    change 32 with (Z.of_N 32). rewrite eqb_N_Z. destruct k; reflexivity.
Qed.

(** the model's decode_ref takes exactly these decisions *)
Lemma src_decode_ref dec buf k c rest : split buf = Some (k, c, rest) ->
  (nlen rest <= nlen buf)%N -> Z.of_N (nlen buf) < 2 ^ 62 ->
  decode_ref dec buf =
  if trie__decodeRef__case_kind_eq_rlp_List (kind_code k) then
    if trie__decodeRef__if_size_gt_hashLen (trie__decodeRef__set_size (Z.of_N (nlen buf)) (Z.of_N (nlen rest)))
    then None else match dec buf with Some n => Some (n, rest) | None => None end
  else if trie__decodeRef__case_kind_eq_rlp_String_and_len_val_eq_0 (kind_code k) (Z.of_N (nlen c))
  then Some (Empty, rest)
  else if trie__decodeRef__case_kind_eq_rlp_String_and_len_val_eq_32 (kind_code k) (Z.of_N (nlen c))
  then Some (Ref c, rest) else None.
Proof.
  intros Hs Hr Hb. destruct (src_decode_ref_guards k _ _ (nlen c) Hr Hb) as (-> & -> & -> & -> & _).
  unfold decode_ref. rewrite Hs. destruct k; cbn [andb]; reflexivity.
Qed.

(** decodeNodeUnsafe / decodeFull: empty input is refused; 16 child references (i = 0; i < 16),
    then a value that is present iff it is non-empty *)
Lemma src_decode_full_guards n i :
  trie__decodeNodeUnsafe__if_len_buf_eq_0 (Z.of_nat n) = Nat.eqb n 0 /\
  trie__decodeFull__if_len_val_gt_0 (Z.of_N (N.of_nat n)) = N.ltb 0 (N.of_nat n) /\
  (In i (seq 0 16) <-> (trie__decodeFull__forinit_i <= Z.of_nat i /\ trie__decodeFull__for_i_lt_16 (Z.of_nat i) = true)).
Proof.
  split; [|split].
  - unfold trie__decodeNodeUnsafe__if_len_buf_eq_0. change 0 with (Z.of_nat 0). apply eqb_nat_Z.
  - unfold trie__decodeFull__if_len_val_gt_0. rewrite Z.gtb_ltb. change 0 with (Z.of_N 0). apply ltb_N_Z.
  - unfold trie__decodeFull__forinit_i, trie__decodeFull__for_i_lt_16. rewrite in_seq, Z.ltb_lt. lia.
Qed.

(* ------------------------------------------------------------------ trie.go, committer.go *)

(** the "key does not run through this short node" test of Trie.get, Trie.Prove, proof.go get,
    unset and hasRightElement is the expression the model uses in get / prove_walk / pget / pget1 /
    unset / has_right ([k] = key[pos:]) *)
Lemma src_short_mismatch total pos lnk e : (pos <= total)%nat -> Z.of_nat total < 2 ^ 62 ->
  let guard := (Nat.ltb (total - pos) lnk || negb e)%bool in
  trie__Trie_get__if_len_key_minus_pos_lt_len_n_Key_or_not_bytes_Equal_n_Key_key__2400f3c9
    (Z.of_nat total) (Z.of_nat pos) (Z.of_nat lnk) e = guard /\
  trie__hasRightElement__if_len_key_minus_pos_lt_len_rn_Key_or_not_bytes_Equal_rn_Key_ke_85d22569
    (Z.of_nat total) (Z.of_nat pos) (Z.of_nat lnk) e = guard /\
  trie__Trie_Prove__if_len_key_lt_len_n_Key_or_not_bytes_Equal_n_Key_key_at_len_n_Key
    (Z.of_nat (total - pos)) (Z.of_nat lnk) e = guard /\
  trie__get__if_len_key_lt_len_n_Key_or_not_bytes_Equal_n_Key_key_at_len_n_Key
    (Z.of_nat (total - pos)) (Z.of_nat lnk) e = guard /\
  trie__unset__if_len_key_at_pos_lt_len_cld_Key_or_not_bytes_Equal_cld_Key_key_2924addb
    (Z.of_nat (total - pos)) (Z.of_nat lnk) e = guard.
Proof.
  intros Hp Ht guard. unfold guard.
  unfold trie__Trie_get__if_len_key_minus_pos_lt_len_n_Key_or_not_bytes_Equal_n_Key_key__2400f3c9,
    trie__hasRightElement__if_len_key_minus_pos_lt_len_rn_Key_or_not_bytes_Equal_rn_Key_ke_85d22569,
    trie__Trie_Prove__if_len_key_lt_len_n_Key_or_not_bytes_Equal_n_Key_key_at_len_n_Key,
    trie__get__if_len_key_lt_len_n_Key_or_not_bytes_Equal_n_Key_key_at_len_n_Key,
    trie__unset__if_len_key_at_pos_lt_len_cld_Key_or_not_bytes_Equal_cld_Key_key_2924addb, go_sub.
  rewrite wrap_id by (unfold in_range; lia).
  replace (Z.of_nat total - Z.of_nat pos) with (Z.of_nat (total - pos)) by lia.
  rewrite !ltb_nat_Z. repeat split; reflexivity.
Qed.

(** Trie.get as the model transcribes it, on its own definitions *)
Lemma src_get_short fuel d nk c fl k : Z.of_nat (length k) < 2 ^ 62 ->
  get (S fuel) d (Short nk c fl) k =
  if trie__Trie_get__if_len_key_minus_pos_lt_len_n_Key_or_not_bytes_Equal_n_Key_key__2400f3c9
       (Z.of_nat (length k)) 0 (Z.of_nat (length nk)) (keq nk (firstn (length nk) k))
  then Ok ([], Short nk c fl)
  else rbind (get fuel d c (skipn (length nk) k)) (fun r => Ok (fst r, Short nk (snd r) fl)).
Proof.
  intros Hk. destruct (src_short_mismatch (length k) 0 (length nk) (keq nk (firstn (length nk) k)) ltac:(lia) Hk) as (Hg & _).
  change (Z.of_nat 0) with 0 in Hg. rewrite Hg, Nat.sub_0_r. reflexivity.
Qed.

(** Trie.insert / Trie.delete / Trie.update decisions *)
Lemma src_insert_delete_guards ml lnk lk (v w : bytes) d :
  trie__Trie_insert__if_len_key_eq_0 (Z.of_nat lk) = Nat.eqb lk 0 /\
  trie__Trie_insert__ret_not_bytes_Equal_v_value__valueNode (beq v w) = negb (beq v w) /\
  trie__Trie_insert__let_matchlen (Z.of_nat ml) = Z.of_nat ml /\
  trie__Trie_insert__if_matchlen_eq_len_n_Key (Z.of_nat ml) (Z.of_nat lnk) = Nat.eqb ml lnk /\
  trie__Trie_insert__if_matchlen_eq_0 (Z.of_nat ml) = Nat.eqb ml 0 /\
  trie__Trie_insert__if_not_dirty_or_err_ne_nil d false = negb d /\
  trie__Trie_insert__if_not_dirty_or_err_ne_nil_2 d false = negb d /\
  trie__Trie_insert__if_not_dirty_or_err_ne_nil_3 d false = negb d /\
  trie__Trie_delete__let_matchlen (Z.of_nat ml) = Z.of_nat ml /\
  trie__Trie_delete__if_matchlen_lt_len_n_Key (Z.of_nat ml) (Z.of_nat lnk) = Nat.ltb ml lnk /\
  trie__Trie_delete__if_matchlen_eq_len_key (Z.of_nat ml) (Z.of_nat lk) = Nat.eqb ml lk /\
  trie__Trie_delete__if_not_dirty_or_err_ne_nil d false = negb d /\
  trie__Trie_delete__if_not_dirty_or_err_ne_nil_2 d false = negb d /\
  trie__Trie_delete__if_not_dirty_or_err_ne_nil_3 d false = negb d /\
  trie__Trie_update__if_len_value_ne_0 (Z.of_nat (length v)) = match v with [] => false | _ => true end.
Proof.
  repeat split; try (destruct d; reflexivity);
    try (unfold trie__Trie_insert__if_len_key_eq_0, trie__Trie_insert__if_matchlen_eq_0;
         change 0 with (Z.of_nat 0); apply eqb_nat_Z);
    try apply eqb_nat_Z; try apply ltb_nat_Z.
  destruct v; reflexivity.
Qed.

(** the insert step on a short node: whole key matches -> descend, else branch out, at the root of
    the short node when the common prefix is empty *)
Lemma src_insert_short fuel d nk c fl k0 kt value :
  let k := k0 :: kt in
  let ml := prefix_len k nk in
  insert (S fuel) d (Short nk c fl) k value =
  if trie__Trie_insert__if_matchlen_eq_len_n_Key (Z.of_nat ml) (Z.of_nat (length nk)) then
    rbind (insert fuel d c (skipn ml k) value) (fun r =>
      if trie__Trie_insert__if_not_dirty_or_err_ne_nil (fst r) false then Ok (false, Short nk c fl)
      else Ok (true, Short nk (snd r) newflag))
  else
    match nth_error nk ml, nth_error k ml with
    | Some oi, Some ni =>
      let leaf rest x := match rest with [] => x | _ => Short rest x newflag end in
      let branch := Full (set_nth ni (leaf (skipn (S ml) k) value)
                            (set_nth oi (leaf (skipn (S ml) nk) c) empty_children)) newflag in
      if trie__Trie_insert__if_matchlen_eq_0 (Z.of_nat ml) then Ok (true, branch)
      else Ok (true, Short (firstn ml k) branch newflag)
    | _, _ => Crash
    end.
Proof.
  intros k ml.
  unfold trie__Trie_insert__if_matchlen_eq_len_n_Key, trie__Trie_insert__if_matchlen_eq_0,
    trie__Trie_insert__if_not_dirty_or_err_ne_nil.
  rewrite eqb_nat_Z. change 0 with (Z.of_nat 0). rewrite eqb_nat_Z.
  cbn [insert]. fold k. fold ml.
  destruct (Nat.eqb ml (length nk)).
  - destruct (insert fuel d c (skipn ml k) value) as [[b n]| | |]; cbn [rbind fst snd]; try reflexivity.
    destruct b; reflexivity.
  - reflexivity.
Qed.

(** the position the reduction loop of delete computes: -1 none, -2 two or more, else the index *)
Definition pos_code (o : option (nat + unit)) : Z :=
  match o with None => -1 | Some (inl p) => Z.of_nat p | Some (inr _) => -2 end.

Lemma src_delete_pos o p :
  trie__Trie_delete__if_pos_eq_minus_1 (pos_code o) = match o with None => true | _ => false end /\
  trie__Trie_delete__if_pos_ge_0 (pos_code o) = match o with Some (inl _) => true | _ => false end /\
  trie__Trie_delete__if_pos_ne_16 (Z.of_nat p) = negb (Nat.eqb p 16).
Proof.
  repeat split.
  - destruct o as [[q|u]|]; cbn [pos_code]; unfold trie__Trie_delete__if_pos_eq_minus_1; try reflexivity.
    apply Z.eqb_neq. lia.
  - destruct o as [[q|u]|]; cbn [pos_code]; unfold trie__Trie_delete__if_pos_ge_0; try reflexivity.
    apply Z.geb_le. lia.
  - unfold trie__Trie_delete__if_pos_ne_16, go_neqb. change 16 with (Z.of_nat 16). rewrite eqb_nat_Z. reflexivity.
Qed.

(** Trie.Commit / trie.New / committer.commit *)
Lemma src_commit_guards (H : bytes -> bytes) fl root :
  trie__Trie_Commit__if_not_dirty (fdirty fl) = negb (fdirty fl) /\
  clean_hash fl =
    (if trie__committer_commit__if_hash_ne_nil_and_not_dirty (match fhash fl with Some _ => true | None => false end) (fdirty fl)
     then fhash fl else None) /\
  trie_open H [] root =
    (if trie__New__if_id_Root_ne_common_Hash_and_id_Root_ne_types_EmptyRootHash
          (negb (beq root (repeat 0%N 32))) (negb (beq root (empty_root H)))
     then resolve_hash [] root else Ok Empty).
Proof.
  repeat split.
  - unfold clean_hash, trie__committer_commit__if_hash_ne_nil_and_not_dirty.
    destruct (fhash fl), (fdirty fl); reflexivity.
  - unfold trie_open, trie__New__if_id_Root_ne_common_Hash_and_id_Root_ne_types_EmptyRootHash.
    destruct (beq root (repeat 0%N 32)), (beq root (empty_root H)); reflexivity.
Qed.

Lemma src_children_loop i :
  In i (seq 0 16) <-> (trie__committer_commitChildren__forinit_i <= Z.of_nat i /\
                        trie__committer_commitChildren__for_i_lt_16 (Z.of_nat i) = true).
Proof.
  unfold trie__committer_commitChildren__forinit_i, trie__committer_commitChildren__for_i_lt_16.
  rewrite in_seq, Z.ltb_lt. lia.
Qed.

(* ------------------------------------------------------------------ proof.go: Prove / VerifyProof *)

(** Prove walks while [len(key) > 0 && tn != nil]; a node becomes a proof element iff it is hashed
    ([ok]: its collapsed encoding is NOT shorter than 32 bytes) or it is the first one *)
Lemma src_prove_guards (k : key) tn (enc : bytes) i :
  trie__Trie_Prove__for_len_key_gt_0_and_tn_ne_nil (Z.of_nat (length k)) (negb (is_empty tn)) =
    match k with [] => false | _ => negb (is_empty tn) end /\
  (Nat.eqb i 0 || negb (N.ltb (nlen enc) 32))%bool =
    trie__Trie_Prove__if_ok_or_i_eq_0
      (negb (trie__hasher_shortnodeToHash__if_len_enc_lt_32_and_not_force (Z.of_N (nlen enc)) false)) (Z.of_nat i).
Proof.
  split.
  - unfold trie__Trie_Prove__for_len_key_gt_0_and_tn_ne_nil. destruct k; [reflexivity|].
    replace (Z.of_nat (length (n :: k)) >? 0) with true; [reflexivity|].
    symmetry. apply Z.gtb_lt. cbn [length]. lia.
  - unfold trie__Trie_Prove__if_ok_or_i_eq_0, trie__hasher_shortnodeToHash__if_len_enc_lt_32_and_not_force.
    change 32 with (Z.of_N 32). rewrite ltb_N_Z. change 0 with (Z.of_nat 0). rewrite eqb_nat_Z.
    cbn [negb andb]. rewrite andb_true_r. apply orb_comm.
Qed.

Lemma src_proof_blobs (H : bytes -> bytes) n t :
  proof_blobs H false (n :: t) =
  if trie__Trie_Prove__if_ok_or_i_eq_0
       (negb (trie__hasher_shortnodeToHash__if_len_enc_lt_32_and_not_force (Z.of_N (nlen (proof_enc H n))) false)) 1
  then proof_enc H n :: proof_blobs H false t else proof_blobs H false t.
Proof.
  destruct (src_prove_guards [] Empty (proof_enc H n) 1) as [_ Hg]. change (Z.of_nat 1) with 1 in Hg.
  rewrite <- Hg. reflexivity.
Qed.

(* ------------------------------------------------------------------ proof.go: range proofs *)

Lemma src_cmp_guards c :
  trie__VerifyRangeProof__if_bytes_Compare_keys_at_i_keys_at_i_plus_1_ge_0 (cmp_int c) = negb (is_lt c) /\
  trie__VerifyRangeProof__if_bytes_Compare_firstKey_lastKey_ge_0 (cmp_int c) = negb (is_lt c) /\
  trie__unset__if_bytes_Compare_cld_Key_key_at_pos_lt_0 (cmp_int c) = is_lt c /\
  trie__unset__if_bytes_Compare_cld_Key_key_at_pos_gt_0 (cmp_int c) = is_gt c /\
  trie__hasRightElement__ret_bytes_Compare_rn_Key_key_at_pos_gt_0 (cmp_int c) = is_gt c /\
  trie__unsetInternal__let_shortForkLeft (cmp_int c) = cmp_int c /\
  trie__unsetInternal__let_shortForkRight (cmp_int c) = cmp_int c.
Proof. destruct c; repeat split; reflexivity. Qed.

(** the monotonicity scan of VerifyRangeProof is [increasing]: every adjacent pair (i from 0 while
    i < len(keys)-1) must not compare >= 0 *)
Lemma src_increasing a b t :
  increasing (a :: b :: t) =
  (negb (trie__VerifyRangeProof__if_bytes_Compare_keys_at_i_keys_at_i_plus_1_ge_0 (cmp_int (bcmp a b))) && increasing (b :: t))%bool.
Proof.
  destruct (src_cmp_guards (bcmp a b)) as (-> & _). rewrite negb_involutive. reflexivity.
Qed.

Lemma src_range_scan n i : (0 < n)%nat -> Z.of_nat n < 2 ^ 62 ->
  trie__VerifyRangeProof__forinit_i = 0 /\
  trie__VerifyRangeProof__for_i_lt_len_keys_minus_1 (Z.of_nat i) (Z.of_nat n) = Nat.ltb i (n - 1).
Proof.
  intros Hn Hl. split; [reflexivity|].
  unfold trie__VerifyRangeProof__for_i_lt_len_keys_minus_1, go_sub. rewrite wrap_id by (unfold in_range; lia).
  replace (Z.of_nat n - 1) with (Z.of_nat (n - 1)) by lia. apply ltb_nat_Z.
Qed.

Lemma src_range_guards (keys vals : list bytes) (v first last : bytes) x y :
  trie__VerifyRangeProof__if_len_keys_ne_len_values (Z.of_nat (length keys)) (Z.of_nat (length vals)) =
    negb (Nat.eqb (length keys) (length vals)) /\
  trie__VerifyRangeProof__if_len_value_eq_0 (Z.of_nat (length v)) = Nat.eqb (length v) 0 /\
  trie__VerifyRangeProof__if_len_keys_eq_0 (Z.of_nat (length keys)) = match keys with [] => true | _ => false end /\
  trie__VerifyRangeProof__if_len_keys_eq_1_and_bytes_Equal_firstKey_lastKey (Z.of_nat (length keys)) (beq first last) =
    match keys with [_] => beq first last | _ => false end /\
  trie__VerifyRangeProof__if_len_firstKey_ne_len_lastKey (Z.of_nat (length first)) (Z.of_nat (length last)) =
    negb (Nat.eqb (length first) (length last)) /\
  trie__VerifyRangeProof__if_val_ne_nil_or_hasRightElement_root_firstKey x y = (x || y)%bool /\
  trie__VerifyRangeProof__if_not_bytes_Equal_firstKey_keys_at_0 x = negb x /\
  trie__VerifyRangeProof__if_not_bytes_Equal_val_values_at_0 x = negb x /\
  trie__proofToPath__if_len_valnode_gt_0 (Z.of_nat (length v)) = match v with [] => false | _ => true end.
Proof.
  repeat split; try reflexivity.
  - unfold trie__VerifyRangeProof__if_len_keys_ne_len_values, go_neqb. rewrite eqb_nat_Z. reflexivity.
  - unfold trie__VerifyRangeProof__if_len_value_eq_0. change 0 with (Z.of_nat 0). apply eqb_nat_Z.
  - destruct keys; reflexivity.
  - destruct keys as [|k1 [|k2 t]]; try reflexivity.
    unfold trie__VerifyRangeProof__if_len_keys_eq_1_and_bytes_Equal_firstKey_lastKey.
    replace (Z.of_nat (length (k1 :: k2 :: t)) =? 1) with false; [reflexivity|].
    symmetry. apply Z.eqb_neq. cbn [length]. lia.
  - unfold trie__VerifyRangeProof__if_len_firstKey_ne_len_lastKey, go_neqb. rewrite eqb_nat_Z. reflexivity.
  - destruct v; reflexivity.
Qed.

(** unsetInternal at a short node: the two fork indicators are bytes.Compare of the (clipped) edge
    keys with the node key; the five scenarios are decided on them exactly as in [unset_internal] *)
Lemma src_fork_guards fl fr :
  trie__unsetInternal__if_shortForkLeft_ne_0_or_shortForkRight_ne_0 (cmp_int fl) (cmp_int fr) = negb (is_eq fl && is_eq fr) /\
  trie__unsetInternal__if_shortForkLeft_eq_minus_1_and_shortForkRight_eq_minus_1 (cmp_int fl) (cmp_int fr) = (is_lt fl && is_lt fr)%bool /\
  trie__unsetInternal__if_shortForkLeft_eq_1_and_shortForkRight_eq_1 (cmp_int fl) (cmp_int fr) = (is_gt fl && is_gt fr)%bool /\
  trie__unsetInternal__if_shortForkLeft_ne_0_and_shortForkRight_ne_0 (cmp_int fl) (cmp_int fr) = (negb (is_eq fl) && negb (is_eq fr))%bool /\
  trie__unsetInternal__if_shortForkRight_ne_0 (cmp_int fr) = negb (is_eq fr) /\
  trie__unsetInternal__if_shortForkLeft_ne_0 (cmp_int fl) = negb (is_eq fl).
Proof. destruct fl, fr; repeat split; reflexivity. Qed.

Lemma src_fork_clip total pos lnk (l : key) : (pos <= total)%nat -> Z.of_nat total < 2 ^ 62 ->
  trie__unsetInternal__if_len_left_minus_pos_lt_len_rn_Key (Z.of_nat total) (Z.of_nat pos) (Z.of_nat lnk) = Nat.ltb (total - pos) lnk /\
  trie__unsetInternal__if_len_right_minus_pos_lt_len_rn_Key (Z.of_nat total) (Z.of_nat pos) (Z.of_nat lnk) = Nat.ltb (total - pos) lnk /\
  (length l = (total - pos)%nat ->
   firstn lnk l = if Nat.ltb (total - pos) lnk then l else firstn lnk l).
Proof.
  intros Hp Ht.
  unfold trie__unsetInternal__if_len_left_minus_pos_lt_len_rn_Key, trie__unsetInternal__if_len_right_minus_pos_lt_len_rn_Key, go_sub.
  rewrite wrap_id by (unfold in_range; lia).
  replace (Z.of_nat total - Z.of_nat pos) with (Z.of_nat (total - pos)) by lia. rewrite ltb_nat_Z.
  repeat split. intros Hl. destruct (Nat.ltb_spec (total - pos) lnk); [|reflexivity].
  apply firstn_all2. lia.
Qed.

(** [clear_range lo hi] is "for i := lo; i < hi; i++ { Children[i] = nil }" *)
Lemma nth_error_combine_seq {A} (cs : list A) : forall s i c,
  nth_error cs i = Some c -> nth_error (combine (seq s (length cs)) cs) i = Some ((s + i)%nat, c).
Proof.
  induction cs as [|x cs IH]; intros s i c Hn; [destruct i; discriminate|].
  destruct i; cbn [length seq combine nth_error] in *.
  - inversion Hn; subst. rewrite Nat.add_0_r. reflexivity.
  - rewrite (IH (S s) i c Hn). f_equal. f_equal. lia.
Qed.

Lemma clear_range_nth lo hi cs i c : nth_error cs i = Some c ->
  nth_error (clear_range lo hi cs) i = Some (if (Nat.leb lo i && Nat.ltb i hi)%bool then Empty else c).
Proof.
  intros Hn. unfold clear_range. rewrite nth_error_map, (nth_error_combine_seq cs 0 i c Hn). reflexivity.
Qed.

(** the loop bounds of unsetInternal (left[pos]+1 .. right[pos]), unset (0 .. key[pos] and
    key[pos]+1 .. 16) and hasRightElement (key[pos]+1 .. 16), as the model's [clear_range] /
    [firstn (16 - S k0) (skipn (S k0) cs)] bounds *)
Lemma src_child_loops k0 r0 i : (k0 <= 16)%nat -> (r0 <= 16)%nat -> (i <= 17)%nat ->
  trie__unsetInternal__set_i (Z.of_nat k0) = Z.of_nat (S k0) /\
  trie__unsetInternal__for_i_lt_right_at_pos (Z.of_nat i) (Z.of_nat r0) = Nat.ltb i r0 /\
  trie__unset__forinit_i = 0 /\
  trie__unset__for_i_lt_int_key_at_pos (Z.of_nat i) (Z.of_nat k0) = Nat.ltb i k0 /\
  trie__unset__set_i (Z.of_nat k0) = Z.of_nat (S k0) /\
  trie__unset__for_i_lt_16 (Z.of_nat i) = Nat.ltb i 16 /\
  trie__hasRightElement__set_i (Z.of_nat k0) = Z.of_nat (S k0) /\
  trie__hasRightElement__for_i_lt_16 (Z.of_nat i) = Nat.ltb i 16 /\
  trie__unsetInternal__set_i_op (Z.of_nat i) = Z.of_nat (S i) /\
  trie__unset__set_i_op (Z.of_nat i) = Z.of_nat (S i) /\
  trie__unset__set_i_op_2 (Z.of_nat i) = Z.of_nat (S i) /\
  trie__hasRightElement__set_i_op (Z.of_nat i) = Z.of_nat (S i).
Proof.
  intros Hk Hr Hi.
  unfold trie__unsetInternal__set_i, trie__unset__set_i, trie__hasRightElement__set_i,
    trie__unsetInternal__set_i_op, trie__unset__set_i_op, trie__unset__set_i_op_2, trie__hasRightElement__set_i_op,
    trie__unset__for_i_lt_int_key_at_pos, trie__unset__for_i_lt_16, trie__hasRightElement__for_i_lt_16,
    trie__unsetInternal__for_i_lt_right_at_pos, go_add, go_conv.
  rewrite !wrap_id by (unfold in_range; lia).
  change 16 with (Z.of_nat 16). rewrite !ltb_nat_Z.
  repeat split; try reflexivity; lia.
Qed.

Lemma nth_error_firstn_lt {A} (l : list A) : forall n i, (i < n)%nat -> nth_error (firstn n l) i = nth_error l i.
Proof.
  induction l as [|x l IH]; intros n i Hi; [destruct n, i; reflexivity|].
  destruct n; [lia|]. destruct i; [reflexivity|]. cbn [firstn nth_error]. apply IH. lia.
Qed.
Lemma nth_error_skipn_add {A} (l : list A) : forall n i, nth_error (skipn n l) i = nth_error l (n + i).
Proof.
  induction l as [|x l IH]; intros n i; [destruct n, i; reflexivity|].
  destruct n; [reflexivity|]. cbn [skipn Nat.add nth_error]. apply IH.
Qed.

(** the children right of index k0 that hasRightElement inspects are exactly those at k0 < i < 16 *)
Lemma src_has_right_window (cs : list node) k0 c :
  In c (firstn (16 - S k0) (skipn (S k0) cs)) <-> exists i, (S k0 <= i < 16)%nat /\ nth_error cs i = Some c.
Proof.
  split.
  - intros Hin. apply In_nth_error in Hin as (j & Hj).
    assert (Hlt : (j < 16 - S k0)%nat).
    { pose proof (nth_error_Some (firstn (16 - S k0) (skipn (S k0) cs)) j) as Hs.
      rewrite Hj in Hs. assert (Hne : Some c <> None) by discriminate. apply Hs in Hne.
      rewrite firstn_length in Hne. lia. }
    rewrite nth_error_firstn_lt in Hj by exact Hlt. rewrite nth_error_skipn_add in Hj.
    exists (S k0 + j)%nat. split; [lia|exact Hj].
  - intros (i & Hi & Hn). apply (nth_error_In _ (i - S k0)).
    rewrite nth_error_firstn_lt by lia. rewrite nth_error_skipn_add.
    replace (S k0 + (i - S k0))%nat with i by lia. exact Hn.
Qed.

(* ------------------------------------------------------------------ stacktrie.go *)

Definition st_code (s : stn) : Z :=
  match s with
  | StNil | StEmpty => trie__emptyNode
  | StBranch _ => trie__branchNode
  | StExt _ _ => trie__extNode
  | StLeaf _ _ => trie__leafNode
  | StHashed _ => trie__hashedNode
  end.

Lemma src_stack_consts :
  trie__emptyNode = 0 /\ trie__branchNode = 1 /\ trie__extNode = 2 /\ trie__leafNode = 3 /\ trie__hashedNode = 4 /\
  trie__StackTrie_insert__put_st_nodeType = trie__branchNode /\
  trie__StackTrie_insert__put_st_children_at_0__nodeType = trie__branchNode /\
  trie__StackTrie_insert__put_st_nodeType_2 = trie__branchNode /\
  trie__StackTrie_insert__put_st_nodeType_3 = trie__extNode /\
  trie__StackTrie_insert__put_st_children_at_0__nodeType_2 = trie__branchNode /\
  trie__StackTrie_insert__put_st_nodeType_4 = trie__leafNode /\
  trie__StackTrie_hashRec__put_st_nodeType = trie__hashedNode /\
  trie__StackTrie_hashRec__put_st_nodeType_2 = trie__hashedNode.
Proof. repeat split; reflexivity. Qed.

(** the embedding rule of the stack trie: children and the node itself are kept inline iff shorter
    than 32 bytes; Hash() returns the value iff it is 32 bytes long *)
Lemma src_stack_lengths (H : bytes -> bytes) v :
  st_ref v = (if trie__StackTrie_hashRec__if_len_child_val_lt_32 (Z.of_N (nlen v)) then v else rlp_string v) /\
  st_ref v = (if trie__StackTrie_hashRec__if_len_st_children_at_0__val_lt_32 (Z.of_N (nlen v)) then v else rlp_string v) /\
  st_finish H v = (if trie__StackTrie_hashRec__if_len_encodedNode_lt_32 (Z.of_N (nlen v)) then v else H v) /\
  (let r := st_hash H (StHashed v) in
   st_root H (StHashed v) = if trie__StackTrie_Hash__if_len_st_val_eq_32 (Z.of_N (nlen r)) then r else H r).
Proof.
  unfold st_ref, st_finish, st_root, trie__StackTrie_hashRec__if_len_child_val_lt_32,
    trie__StackTrie_hashRec__if_len_st_children_at_0__val_lt_32, trie__StackTrie_hashRec__if_len_encodedNode_lt_32,
    trie__StackTrie_Hash__if_len_st_val_eq_32.
  change 32 with (Z.of_N 32). rewrite !ltb_N_Z, eqb_N_Z. repeat split; reflexivity.
Qed.

Lemma src_stack_insert_guards di lsk idx (v : bytes) c :
  trie__StackTrie_Update__if_len_value_eq_0 (Z.of_nat (length v)) = match v with [] => true | _ => false end /\
  ((idx <= 16)%nat -> trie__StackTrie_insert__let_idx (Z.of_nat idx) = Z.of_nat idx) /\
  trie__StackTrie_insert__if_diffidx_eq_len_st_key (Z.of_nat di) (Z.of_nat lsk) = Nat.eqb di lsk /\
  (Z.of_nat lsk < 2 ^ 62 ->
   trie__StackTrie_insert__if_diffidx_lt_len_st_key_minus_1 (Z.of_nat di) (Z.of_nat lsk) = Nat.ltb di (lsk - 1)) /\
  trie__StackTrie_insert__if_diffidx_eq_0 (Z.of_nat di) = Nat.eqb di 0 /\
  trie__StackTrie_insert__if_diffidx_eq_0_2 (Z.of_nat di) = Nat.eqb di 0 /\
  trie__StackTrie_insert__if_diffidx_ge_len_st_key (Z.of_nat di) (Z.of_nat lsk) = Nat.leb lsk di /\
  trie__StackTrie_insert__if_st_children_at_i__nodeType_ne_hashedNode (st_code c) =
    match c with StHashed _ => false | _ => true end /\
  ((0 < idx)%nat -> Z.of_nat idx < 2 ^ 62 -> trie__StackTrie_insert__set_i (Z.of_nat idx) = Z.of_nat (idx - 1)) /\
  trie__StackTrie_insert__for_i_ge_0 (Z.of_nat idx) = true.
Proof.
  repeat apply conj.
  - destruct v; reflexivity.
  - intros Hi. unfold trie__StackTrie_insert__let_idx, go_conv. apply wrap_id. unfold in_range. lia.
  - apply eqb_nat_Z.
  - intros Hl. unfold trie__StackTrie_insert__if_diffidx_lt_len_st_key_minus_1, go_sub.
    rewrite wrap_id by (unfold in_range; lia).
    destruct lsk as [|m].
    + cbn [Nat.sub]. destruct (Z.ltb_spec (Z.of_nat di) (Z.of_nat 0 - 1)), (Nat.ltb_spec di 0); auto; lia.
    + replace (Z.of_nat (S m) - 1) with (Z.of_nat (S m - 1)) by lia. apply ltb_nat_Z.
  - unfold trie__StackTrie_insert__if_diffidx_eq_0. change 0 with (Z.of_nat 0). apply eqb_nat_Z.
  - unfold trie__StackTrie_insert__if_diffidx_eq_0_2. change 0 with (Z.of_nat 0). apply eqb_nat_Z.
  - unfold trie__StackTrie_insert__if_diffidx_ge_len_st_key. rewrite Z.geb_leb. apply leb_nat_Z.
  - destruct c; reflexivity.
  - intros Hi Hl. unfold trie__StackTrie_insert__set_i, go_sub. rewrite wrap_id by (unfold in_range; lia). lia.
  - unfold trie__StackTrie_insert__for_i_ge_0. apply Z.geb_le. lia.
Qed.

(** getDiffIndex: the scan stops at the first differing nibble *)
Lemma src_diff_index x sk y k :
  diff_index (x :: sk) (y :: k) =
  if trie__StackTrie_getDiffIndex__if_nibble_ne_key_at_idx (Z.of_nat x) (Z.of_nat y) then Some 0%nat
  else match diff_index sk k with Some i => Some (S i) | None => None end.
Proof.
  cbn [diff_index]. unfold trie__StackTrie_getDiffIndex__if_nibble_ne_key_at_idx, go_neqb.
  rewrite eqb_nat_Z. destruct (Nat.eqb x y); reflexivity.
Qed.

(* ------------------------------------------------------------------ types/hashing.go *)

(** DeriveSha feeds the indices 1 .. min(n-1, 127), then 0 (if any), then 128 .. n-1 *)
Lemma src_derive_loops n i : Z.of_nat n < 2 ^ 62 ->
  (In i (seq 1 (Nat.min n 128 - 1)) <->
     (types__DeriveSha__forinit_i <= Z.of_nat i /\
      types__DeriveSha__for_i_lt_list_Len_and_i_le_0x7f (Z.of_nat i) (Z.of_nat n) = true)) /\
  Nat.ltb 0 n = types__DeriveSha__if_list_Len_gt_0 (Z.of_nat n) /\
  (In i (seq 128 (n - 128)) <->
     (types__DeriveSha__forinit_i_2 <= Z.of_nat i /\
      types__DeriveSha__for_i_lt_list_Len (Z.of_nat i) (Z.of_nat n) = true)) /\
  ((i <= n)%nat -> types__DeriveSha__set_i_op (Z.of_nat i) = Z.of_nat (S i)) /\
  ((i <= n)%nat -> types__DeriveSha__set_i_op_2 (Z.of_nat i) = Z.of_nat (S i)).
Proof.
  intros Hn.
  unfold types__DeriveSha__forinit_i, types__DeriveSha__forinit_i_2,
    types__DeriveSha__for_i_lt_list_Len_and_i_le_0x7f, types__DeriveSha__for_i_lt_list_Len,
    types__DeriveSha__if_list_Len_gt_0, types__DeriveSha__set_i_op, types__DeriveSha__set_i_op_2.
  split; [|split; [|split; [|split]]].
  - rewrite in_seq, andb_true_iff, Z.ltb_lt, Z.leb_le. lia.
  - rewrite Z.gtb_ltb. change 0 with (Z.of_nat 0). symmetry. apply ltb_nat_Z.
  - rewrite in_seq, Z.ltb_lt. lia.
  - intros Hi. unfold go_add. rewrite wrap_id by (unfold in_range; lia). lia.
  - intros Hi. unfold go_add. rewrite wrap_id by (unfold in_range; lia). lia.
Qed.

(* ------------------------------------------------------------------ iterator.go, Trie.hashRoot *)

(** seek (and the sibling skipping of nextChildAt) stop at the first node whose path compares >= the
    start prefix: the model's [iter_from] keeps exactly the leaves with that property; findChild
    scans all 17 child slots (the walk of the model visits the whole child list of a branch);
    Trie.hashRoot switches to the parallel hasher at 100 unhashed changes (the model has one
    hasher: the same function either way — exercised by the harness's bulk family) *)
Lemma src_iter_guards c i :
  trie__nodeIterator_seek__if_bytes_Compare_path_key_ge_0 (cmp_int c) = negb (is_lt c) /\
  trie__nodeIterator_nextChildAt__if_bytes_Compare_path_key_ge_0 (cmp_int c) = negb (is_lt c) /\
  trie__findChild__for_index_lt_len_n_Children (Z.of_nat i) = Nat.ltb i 17 /\
  (forall x, trie__Trie_hashRoot__arg_t_unhashed_ge_100 x = Z.geb x 100) /\
  trie__nodeIterator_seek__if_bytes_Compare_path_key_ge_0_atoms = ["bytes.Compare(path, key) : int"]%string /\
  trie__Trie_hashRoot__arg_t_unhashed_ge_100_atoms = ["t.unhashed : int"]%string.
Proof.
  split; [destruct c; reflexivity|]. split; [destruct c; reflexivity|]. split.
  - unfold trie__findChild__for_index_lt_len_n_Children. change 17 with (Z.of_nat 17). apply ltb_nat_Z.
  - split; [reflexivity|]. split; reflexivity.
Qed.

Lemma src_iter_from d root start :
  iter_from d root start =
  rbind (walk walk_fuel d root []) (fun l =>
    Ok (map (fun kv => (hex_to_keybytes (fst kv), snd kv))
            (filter (fun kv => trie__nodeIterator_seek__if_bytes_Compare_path_key_ge_0
                                 (cmp_int (kcmp (fst kv) (removelast (keybytes_to_hex start))))) l))).
Proof.
  unfold iter_from. destruct (walk walk_fuel d root []); cbn [rbind]; try reflexivity.
  f_equal. f_equal. apply filter_ext. intros kv.
  destruct (src_iter_guards (kcmp (fst kv) (removelast (keybytes_to_hex start))) 0) as (-> & _). reflexivity.
Qed.

(* ------------------------------------------------------------------ operands (what is compared) *)

Lemma src_atoms :
  trie__keybytesToHex__assign_atoms = ["b : byte"]%string /\
  trie__keybytesToHex__assign_2_atoms = ["b : byte"]%string /\
  trie__keybytesToHex__set_l_atoms = ["len(str) : int"]%string /\
  trie__hexToCompact__assign_atoms = ["terminator : byte"]%string /\
  trie__hexToCompact__if_hasTerm_hex_atoms = ["hasTerm(hex) : bool"]%string /\
  trie__hexToCompact__if_len_hex_band_1_eq_1_atoms = ["len(hex) : int"]%string /\
  trie__hexToCompact__assign_op_2_atoms = ["buf[0] : byte"; "hex[0] : byte"]%string /\
  trie__compactToHex__if_base_at_0_lt_2_atoms = ["base[0] : byte"]%string /\
  trie__compactToHex__set_chop_atoms = ["base[0] : byte"]%string /\
  trie__decodeNibbles__assign_atoms = ["nibbles[ni] : byte"; "nibbles[ni+1] : byte"]%string /\
  trie__hasTerm__ret_len_s_gt_0_and_s_at_len_s_minus_1_eq_16_atoms = ["len(s) : int"; "s[len(s)-1] : byte"]%string /\
  trie__hasher_shortnodeToHash__if_len_enc_lt_32_and_not_force_atoms = ["len(enc) : int"; "force : bool"]%string /\
  trie__hasher_fullnodeToHash__if_len_enc_lt_32_and_not_force_atoms = ["len(enc) : int"; "force : bool"]%string /\
  trie__decodeRef__set_size_atoms = ["len(buf) : int"; "len(rest) : int"]%string /\
  trie__decodeRef__if_size_gt_hashLen_atoms = ["size : int"]%string /\
  trie__decodeRef__case_kind_eq_rlp_String_and_len_val_eq_32_atoms =
    ["kind : github.com/kardiachain/go-kardia/lib/rlp.Kind"; "len(val) : int"]%string /\
  trie__decodeFull__if_len_val_gt_0_atoms = ["len(val) : int"]%string /\
  trie__Trie_Prove__if_ok_or_i_eq_0_atoms = ["ok : bool"; "i : int"]%string /\
  trie__Trie_Prove__for_len_key_gt_0_and_tn_ne_nil_atoms = ["len(key) : int"; "tn != nil : untyped bool"]%string /\
  trie__Trie_get__if_len_key_minus_pos_lt_len_n_Key_or_not_bytes_Equal_n_Key_key__2400f3c9_atoms =
    ["len(key) : int"; "pos : int"; "len(n.Key) : int"; "bytes.Equal(n.Key, key[pos:pos+len(n.Key)]) : bool"]%string /\
  trie__Trie_insert__let_matchlen_atoms = ["prefixLen(key, n.Key) : int"]%string /\
  trie__Trie_insert__if_matchlen_eq_len_n_Key_atoms = ["matchlen : int"; "len(n.Key) : int"]%string /\
  trie__Trie_delete__if_matchlen_eq_len_key_atoms = ["matchlen : int"; "len(key) : int"]%string /\
  trie__Trie_delete__if_pos_ne_16_atoms = ["pos : int"]%string /\
  trie__Trie_update__if_len_value_ne_0_atoms = ["len(value) : int"]%string /\
  trie__committer_commit__if_hash_ne_nil_and_not_dirty_atoms = ["hash != nil : bool"; "dirty : bool"]%string /\
  trie__New__if_id_Root_ne_common_Hash_and_id_Root_ne_types_EmptyRootHash_atoms =
    ["id.Root != (common.Hash{}) : untyped bool"; "id.Root != types.EmptyRootHash : untyped bool"]%string /\
  trie__VerifyRangeProof__if_len_keys_ne_len_values_atoms = ["len(keys) : int"; "len(values) : int"]%string /\
  trie__VerifyRangeProof__if_bytes_Compare_keys_at_i_keys_at_i_plus_1_ge_0_atoms = ["bytes.Compare(keys[i], keys[i+1]) : int"]%string /\
  trie__VerifyRangeProof__if_len_value_eq_0_atoms = ["len(value) : int"]%string /\
  trie__VerifyRangeProof__if_len_keys_eq_1_and_bytes_Equal_firstKey_lastKey_atoms = ["len(keys) : int"; "bytes.Equal(firstKey, lastKey) : bool"]%string /\
  trie__VerifyRangeProof__if_bytes_Compare_firstKey_lastKey_ge_0_atoms = ["bytes.Compare(firstKey, lastKey) : int"]%string /\
  trie__VerifyRangeProof__if_len_firstKey_ne_len_lastKey_atoms = ["len(firstKey) : int"; "len(lastKey) : int"]%string /\
  trie__VerifyRangeProof__if_val_ne_nil_or_hasRightElement_root_firstKey_atoms = ["val != nil : bool"; "hasRightElement(root, firstKey) : bool"]%string /\
  trie__VerifyRangeProof__if_tr_Hash_ne_rootHash_atoms = ["tr.Hash() != rootHash : untyped bool"]%string /\
  trie__unsetInternal__let_shortForkLeft_atoms = ["bytes.Compare(left[pos:], rn.Key) : int"]%string /\
  trie__unsetInternal__let_shortForkRight_atoms = ["bytes.Compare(right[pos:], rn.Key) : int"]%string /\
  trie__unsetInternal__set_i_atoms = ["left[pos] : byte"]%string /\
  trie__unsetInternal__for_i_lt_right_at_pos_atoms = ["i : byte"; "right[pos] : byte"]%string /\
  trie__unset__for_i_lt_int_key_at_pos_atoms = ["i : int"; "key[pos] : byte"]%string /\
  trie__unset__set_i_atoms = ["key[pos] : byte"]%string /\
  trie__unset__if_bytes_Compare_cld_Key_key_at_pos_lt_0_atoms = ["bytes.Compare(cld.Key, key[pos:]) : int"]%string /\
  trie__unset__if_bytes_Compare_cld_Key_key_at_pos_gt_0_atoms = ["bytes.Compare(cld.Key, key[pos:]) : int"]%string /\
  trie__hasRightElement__set_i_atoms = ["key[pos] : byte"]%string /\
  trie__hasRightElement__ret_bytes_Compare_rn_Key_key_at_pos_gt_0_atoms = ["bytes.Compare(rn.Key, key[pos:]) : int"]%string /\
  trie__proofToPath__if_len_valnode_gt_0_atoms = ["len(valnode) : int"]%string /\
  trie__StackTrie_Update__if_len_value_eq_0_atoms = ["len(value) : int"]%string /\
  trie__StackTrie_insert__if_diffidx_eq_len_st_key_atoms = ["diffidx : int"; "len(st.key) : int"]%string /\
  trie__StackTrie_insert__if_diffidx_lt_len_st_key_minus_1_atoms = ["diffidx : int"; "len(st.key) : int"]%string /\
  trie__StackTrie_insert__if_diffidx_ge_len_st_key_atoms = ["diffidx : int"; "len(st.key) : int"]%string /\
  trie__StackTrie_insert__if_st_children_at_i__nodeType_ne_hashedNode_atoms = ["st.children[i].nodeType : uint8"]%string /\
  trie__StackTrie_hashRec__if_len_child_val_lt_32_atoms = ["len(child.val) : int"]%string /\
  trie__StackTrie_hashRec__if_len_st_children_at_0__val_lt_32_atoms = ["len(st.children[0].val) : int"]%string /\
  trie__StackTrie_hashRec__if_len_encodedNode_lt_32_atoms = ["len(encodedNode) : int"]%string /\
  trie__StackTrie_Hash__if_len_st_val_eq_32_atoms = ["len(st.val) : int"]%string /\
  types__DeriveSha__for_i_lt_list_Len_and_i_le_0x7f_atoms = ["i : int"; "list.Len() : int"]%string /\
  types__DeriveSha__if_list_Len_gt_0_atoms = ["list.Len() : int"]%string /\
  types__DeriveSha__for_i_lt_list_Len_atoms = ["i : int"; "list.Len() : int"]%string.
Proof. repeat apply conj; reflexivity. Qed.

(* ------------------------------------------------------------------ the whole tie, as one statement *)

(** the conjunction of the statements above (each is stated next to its proof; [type of] quotes it) *)
Definition C07_source_tie_statement : Prop :=
  ltac:(let t := type of src_hex_nibbles in exact t) /\
  ltac:(let t := type of src_hex_length in exact t) /\
  ltac:(let t := type of src_hex_terminator in exact t) /\
  ltac:(let t := type of src_has_term in exact t) /\
  ltac:(let t := type of src_compact_flag in exact t) /\
  ltac:(let t := type of src_compact_odd in exact t) /\
  ltac:(let t := type of src_compact_first_byte in exact t) /\
  ltac:(let t := type of src_decode_nibbles_byte in exact t) /\
  ltac:(let t := type of src_decode_nibbles_loop in exact t) /\
  ltac:(let t := type of src_compact_to_hex in exact t) /\
  ltac:(let t := type of src_prefix_len_guards in exact t) /\
  ltac:(let t := type of src_prefix_len_step in exact t) /\
  ltac:(let t := type of src_finish in exact t) /\
  ltac:(let t := type of src_decode_ref in exact t) /\
  ltac:(let t := type of src_decode_ref_guards in exact t) /\
  ltac:(let t := type of src_decode_full_guards in exact t) /\
  ltac:(let t := type of src_short_mismatch in exact t) /\
  ltac:(let t := type of src_get_short in exact t) /\
  ltac:(let t := type of src_insert_delete_guards in exact t) /\
  ltac:(let t := type of src_insert_short in exact t) /\
  ltac:(let t := type of src_delete_pos in exact t) /\
  ltac:(let t := type of src_commit_guards in exact t) /\
  ltac:(let t := type of src_children_loop in exact t) /\
  ltac:(let t := type of src_prove_guards in exact t) /\
  ltac:(let t := type of src_proof_blobs in exact t) /\
  ltac:(let t := type of src_cmp_guards in exact t) /\
  ltac:(let t := type of src_increasing in exact t) /\
  ltac:(let t := type of src_range_scan in exact t) /\
  ltac:(let t := type of src_range_guards in exact t) /\
  ltac:(let t := type of src_fork_guards in exact t) /\
  ltac:(let t := type of src_fork_clip in exact t) /\
  ltac:(let t := type of clear_range_nth in exact t) /\
  ltac:(let t := type of src_child_loops in exact t) /\
  ltac:(let t := type of src_has_right_window in exact t) /\
  ltac:(let t := type of src_stack_consts in exact t) /\
  ltac:(let t := type of src_stack_lengths in exact t) /\
  ltac:(let t := type of src_stack_insert_guards in exact t) /\
  ltac:(let t := type of src_diff_index in exact t) /\
  ltac:(let t := type of src_derive_loops in exact t) /\
  ltac:(let t := type of src_iter_guards in exact t) /\
  ltac:(let t := type of src_iter_from in exact t) /\
  ltac:(let t := type of src_atoms in exact t).

Lemma C07_source_tie_proof : C07_source_tie_statement.
Proof.
  unfold C07_source_tie_statement.
  split; [exact src_hex_nibbles|]. split; [exact src_hex_length|]. split; [exact src_hex_terminator|].
  split; [exact src_has_term|]. split; [exact src_compact_flag|]. split; [exact src_compact_odd|].
  split; [exact src_compact_first_byte|]. split; [exact src_decode_nibbles_byte|].
  split; [exact src_decode_nibbles_loop|]. split; [exact src_compact_to_hex|].
  split; [exact src_prefix_len_guards|]. split; [exact src_prefix_len_step|]. split; [exact src_finish|].
  split; [exact src_decode_ref|]. split; [exact src_decode_ref_guards|]. split; [exact src_decode_full_guards|].
  split; [exact src_short_mismatch|]. split; [exact src_get_short|]. split; [exact src_insert_delete_guards|].
  split; [exact src_insert_short|]. split; [exact src_delete_pos|]. split; [exact src_commit_guards|].
  split; [exact src_children_loop|]. split; [exact src_prove_guards|]. split; [exact src_proof_blobs|].
  split; [exact src_cmp_guards|]. split; [exact src_increasing|]. split; [exact src_range_scan|].
  split; [exact src_range_guards|]. split; [exact src_fork_guards|]. split; [exact src_fork_clip|].
  split; [exact (@clear_range_nth)|]. split; [exact src_child_loops|]. split; [exact src_has_right_window|].
  split; [exact src_stack_consts|]. split; [exact src_stack_lengths|]. split; [exact src_stack_insert_guards|].
  split; [exact src_diff_index|]. split; [exact src_derive_loops|]. split; [exact src_iter_guards|].
  split; [exact src_iter_from|]. exact src_atoms.
Qed.
