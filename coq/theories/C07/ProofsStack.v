(** C07 proofs, part 12 (partial): the hashing half of the stack trie.  Whenever the stack trie's
    state is a view of a trie node (finished subtrees replaced by their collapsed value),
    StackTrie.Hash returns that node's root hash.  What is NOT proved here is that
    StackTrie.insert maintains this view for sorted prefix-free input (Open.v). *)
From Coq Require Import List ZArith NArith Arith Bool Lia.
From Kardia Require Import C07.Model C07.ProofsBase C07.ProofsMap C07.ProofsCanon C07.ProofsEnc
     C07.ProofsCache C07.ProofsRlp C07.ProofsCodec.
Import ListNotations.

Section StnInd.
  Variable P : stn -> Prop.
  Hypothesis HN : P StNil.
  Hypothesis HE : P StEmpty.
  Hypothesis HL : forall k v, P (StLeaf k v).
  Hypothesis HX : forall k c, P c -> P (StExt k c).
  Hypothesis HB : forall cs, Forall P cs -> P (StBranch cs).
  Hypothesis HH : forall v, P (StHashed v).
  Fixpoint stn_ind' (s : stn) : P s :=
    match s with
    | StNil => HN
    | StEmpty => HE
    | StLeaf k v => HL k v
    | StExt k c => HX k c (stn_ind' c)
    | StBranch cs =>
      HB cs ((fix go (l : list stn) : Forall P l :=
                match l with
                | [] => Forall_nil P
                | c :: t => Forall_cons c (stn_ind' c) (go t)
                end) cs)
    | StHashed v => HH v
    end.
End StnInd.

Section Stack.
Variable H : bytes -> bytes.
Hypothesis Hlen : forall x, length (H x) = 32.

Definition is_node' (c : node) : Prop := match c with Short _ _ _ | Full _ _ => True | _ => False end.

(** the value a finished stack-trie node is replaced by: its encoding if shorter than 32 bytes,
    else the hash of the encoding *)
Definition sval (n : node) : bytes :=
  let e := cenc H n in if N.ltb (nlen e) 32 then e else H e.

(** [strel s n]: the stack-trie state [s] is a view of the trie node [n] *)
Fixpoint strel (s : stn) (n : node) {struct s} : Prop :=
  match s with
  | StNil => False
  | StEmpty => n = Empty
  | StLeaf k v => exists f, n = Short (k ++ [16]) (Value v) f
  | StExt k c => exists nf f, n = Short k nf f /\ is_node' nf /\ strel c nf
  | StBranch cs =>
    exists ncs f, n = Full (ncs ++ [Empty]) f /\
      (fix all (l : list stn) (nl : list node) {struct l} : Prop :=
         match l, nl with
         | [], [] => True
         | c :: t, x :: nt =>
           (match c with StNil => x = Empty | _ => is_node' x /\ strel c x end) /\ all t nt
         | _, _ => False
         end) cs ncs
  | StHashed val => is_node' n /\ val = sval n
  end.

Fixpoint all_rel (l : list stn) (nl : list node) : Prop :=
  match l, nl with
  | [], [] => True
  | c :: t, x :: nt =>
    (match c with StNil => x = Empty | _ => is_node' x /\ strel c x end) /\ all_rel t nt
  | _, _ => False
  end.

Lemma strel_branch cs n :
  strel (StBranch cs) n <-> exists ncs f, n = Full (ncs ++ [Empty]) f /\ all_rel cs ncs.
Proof.
  cbn [strel]. split; intros (ncs & f & E & Ha); exists ncs, f; split; auto; clear E;
    revert ncs Ha; induction cs as [|c t IH]; intros [|x nt]; cbn; auto; intros [A B]; split; auto.
Qed.

Lemma st_finish_sval n : st_finish H (cenc H n) = sval n.
Proof. reflexivity. Qed.

Lemma st_ref_sval n : is_node' n -> st_ref (sval n) = enc_href (hspec H n false).
Proof.
  intros Hn. assert (Hn2 : match n with Short _ _ _ | Full _ _ => True | _ => False end) by exact Hn.
  rewrite (hspec_cenc H n false Hn2). unfold sval, st_ref, finish.
  destruct (N.ltb (nlen (cenc H n)) 32) eqn:E; cbn [andb negb enc_href].
  - rewrite E. reflexivity.
  - rewrite (nlen_H H Hlen). reflexivity.
Qed.

(** hashRec computes the collapsed value of the node the state is a view of *)
Lemma st_hash_rel s : forall n, strel s n -> is_node' n -> st_hash H s = sval n.
Proof.
  induction s using stn_ind'; intros n Hr Hn.
  - destruct Hr.
  - cbn in Hr. subst n. destruct Hn.
  - destruct Hr as (f & ->). reflexivity.
  - destruct Hr as (nf & f & -> & Hnf & Hc). cbn [st_hash].
    rewrite (IHs nf Hc Hnf), (st_ref_sval nf Hnf). reflexivity.
  - apply strel_branch in Hr as (ncs & f & -> & Ha). cbn [st_hash].
    rewrite <- st_finish_sval. f_equal. rewrite cenc_full. f_equal. unfold full_payload.
    rewrite map_app, concat_app. cbn [map concat]. rewrite app_nil_r.
    change (enc_href (hspec H Empty false)) with [128%N]. f_equal.
    clear Hn. revert ncs Ha. induction cs as [|c t IHt]; intros [|x nt] Ha; cbn in Ha; try tauto; try reflexivity.
    destruct Ha as [Hc Ht]. inversion H0 as [|? ? Hpc Hpt]; subst. cbn [map concat]. f_equal; [|apply IHt; auto].
    destruct c; try (destruct Hc as [Hx Hcx]; rewrite (Hpc x Hcx Hx); apply st_ref_sval; exact Hx).
    subst x. reflexivity.
  - destruct Hr as [_ ->]. reflexivity.
Qed.

(** StackTrie.Hash on a view of [n] is the root hash of [n] *)
Theorem st_root_rel s n : strel s n -> is_node' n -> st_root H s = H (cenc H n).
Proof.
  intros Hr Hn. unfold st_root. rewrite (st_hash_rel s n Hr Hn). unfold sval.
  destruct (N.ltb_spec (nlen (cenc H n)) 32) as [Hl|Hl].
  - destruct (N.eqb_spec (nlen (cenc H n)) 32); [lia|reflexivity].
  - rewrite (nlen_H H Hlen). reflexivity.
Qed.

End Stack.
