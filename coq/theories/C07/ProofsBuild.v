(** C07 proofs, part 11: the canonical constructor [build] yields a canonical trie holding
    exactly the given entries; with the uniqueness of the canonical form every trie reached
    by updates and deletes equals [build] of its content (up to the hash caches). *)
From Coq Require Import List ZArith NArith Arith Bool Lia.
From Kardia Require Import C07.Model C07.ProofsBase C07.ProofsMap C07.ProofsCanon.
Import ListNotations.

Definition kvs := list (key * bytes).

(* ------------------------------------------------------------------ common prefixes *)

Lemma cp_l a : forall b, exists r, a = common_prefix a b ++ r.
Proof.
  induction a as [|x a IH]; intros [|y b]; cbn; eauto.
  destruct (Nat.eqb x y); cbn; eauto. destruct (IH b) as (r & E). exists r. f_equal; auto.
Qed.

Lemma cp_r a : forall b, exists r, b = common_prefix a b ++ r.
Proof.
  induction a as [|x a IH]; intros [|y b]; cbn; eauto.
  destruct (Nat.eqb_spec x y) as [->|]; cbn; eauto. destruct (IH b) as (r & E). exists r. f_equal; auto.
Qed.

Lemma cp_app p a b : common_prefix (p ++ a) (p ++ b) = p ++ common_prefix a b.
Proof. induction p as [|x p IH]; cbn; auto. rewrite Nat.eqb_refl, IH. reflexivity. Qed.

Definition cpf (t : kvs) (p0 : key) : key :=
  fold_left (fun p kv => common_prefix p (fst kv)) t p0.

Lemma cpf_prefix t : forall p0,
  (exists r, p0 = cpf t p0 ++ r) /\ (forall kv, In kv t -> exists r, fst kv = cpf t p0 ++ r).
Proof.
  induction t as [|x t IH]; intros p0; cbn [cpf fold_left].
  - split; [exists []; rewrite app_nil_r; auto|intros kv []].
  - fold (cpf t (common_prefix p0 (fst x))).
    destruct (IH (common_prefix p0 (fst x))) as ((r & E) & Hall).
    destruct (cp_l p0 (fst x)) as (r1 & E1). destruct (cp_r p0 (fst x)) as (r2 & E2).
    split.
    + exists (r ++ r1). rewrite E1 at 1. rewrite E at 1. rewrite app_assoc. reflexivity.
    + intros kv [<-|Hin]; [|auto]. exists (r ++ r2). rewrite E2 at 1. rewrite E at 1. rewrite app_assoc. reflexivity.
Qed.

Lemma cpf_app p t : forall p0,
  cpf (map (fun kv => (p ++ fst kv, snd kv)) t) (p ++ p0) = p ++ cpf t p0.
Proof.
  induction t as [|x t IH]; intros p0; cbn [cpf fold_left map fst]; auto.
  rewrite cp_app. apply IH.
Qed.

Lemma cpf_head x t : forall p0',
  (forall kv, In kv t -> exists k', fst kv = x :: k') -> exists q, cpf t (x :: p0') = x :: q.
Proof.
  induction t as [|y t IH]; intros p0' Hall; cbn [cpf fold_left]; eauto.
  destruct (Hall y (or_introl eq_refl)) as (k' & E). rewrite E. cbn [common_prefix]. rewrite Nat.eqb_refl.
  apply IH. intros kv Hin. apply Hall. right; auto.
Qed.

Lemma cpa_cons k v t : common_prefix_all ((k, v) :: t) = cpf t k.
Proof. reflexivity. Qed.

(* ------------------------------------------------------------------ strip and sub *)

Lemma in_sub i m r w : In (r, w) (sub i m) <-> In (i :: r, w) m.
Proof.
  unfold sub. rewrite in_flat_map. split.
  - intros ([k v] & Hin & Hx). cbn [fst snd] in Hx. destruct k as [|x t]; [destruct Hx|].
    destruct (Nat.eqb_spec x i) as [->|]; [|destruct Hx]. destruct Hx as [E|[]]. inversion E; subst. auto.
  - intros Hin. exists (i :: r, w). split; auto. cbn. rewrite Nat.eqb_refl. left; auto.
Qed.

Lemma nodup_sub i m : NoDup (map fst m) -> NoDup (map fst (sub i m)).
Proof.
  induction m as [|[k v] m IH]; cbn [map fst]; intros Hn; [constructor|].
  inversion Hn as [|? ? Hnot Hn']; subst. specialize (IH Hn').
  unfold sub. cbn [flat_map fst snd]. fold (sub i m).
  destruct k as [|x t]; [exact IH|]. destruct (Nat.eqb_spec x i) as [->|]; [|exact IH].
  cbn [app map fst]. constructor; auto. intros Hin. apply in_map_iff in Hin as ([r w] & E & Hin).
  cbn in E. subst r. apply in_sub in Hin. apply Hnot. apply in_map_iff. exists (i :: t, w). auto.
Qed.

Lemma in_strip n m r w : In (r, w) (strip n m) <-> exists k, In (k, w) m /\ r = skipn n k.
Proof.
  unfold strip. rewrite in_map_iff. split.
  - intros ([k v] & E & Hin). cbn in E. inversion E; subst. eauto.
  - intros (k & Hin & ->). exists (k, w). auto.
Qed.

(* ------------------------------------------------------------------ counting two children *)

Lemma count_ne_ge_two cs i j ci cj :
  i <> j -> nth_error cs i = Some ci -> nth_error cs j = Some cj -> ci <> Empty -> cj <> Empty ->
  2 <= count_ne cs.
Proof.
  revert i j. induction cs as [|h t IH]; intros i j Hij Hi Hj Hci Hcj; [destruct i; discriminate|].
  rewrite count_ne_cons. destruct i as [|i], j as [|j]; cbn in Hi, Hj; try congruence.
  - inversion Hi; subst h. apply is_empty_false in Hci. rewrite Hci.
    pose proof (nth_error_count_pos _ _ _ Hj Hcj). lia.
  - inversion Hj; subst h. apply is_empty_false in Hcj. rewrite Hcj.
    pose proof (nth_error_count_pos _ _ _ Hi Hci). lia.
  - assert (2 <= count_ne t) by (eapply (IH i j); eauto). lia.
Qed.

Lemma nth_error_map_seq {A} (g : nat -> A) n i : i < n -> nth_error (map g (seq 0 n)) i = Some (g i).
Proof.
  intros Hi. rewrite nth_error_map. rewrite nth_error_nth' with (d := 0) by (rewrite seq_length; auto).
  rewrite seq_nth by auto. reflexivity.
Qed.

(* ------------------------------------------------------------------ well-formed keys sharing a prefix *)

Lemma wfk_common p : forall r1 r2, wfk (p ++ r1) -> wfk (p ++ r2) -> r1 <> r2 ->
  nibs p /\ wfk r1 /\ wfk r2.
Proof.
  induction p as [|x p IH]; intros r1 r2 H1 H2 Hne; cbn [app] in *; [repeat split; auto; constructor|].
  cbn [wfk] in H1, H2. destruct H1 as [[-> E1]|[Hx1 W1]], H2 as [[E0 E2]|[Hx2 W2]]; try lia.
  - apply app_eq_nil in E1 as [_ ->]. apply app_eq_nil in E2 as [_ ->]. congruence.
  - destruct (IH r1 r2 W1 W2 Hne) as (A & B & C). repeat split; auto. constructor; auto.
Qed.

Definition keys_wf (m : kvs) : Prop := forall k v, In (k, v) m -> wfk k.
Definition vals_ne (m : kvs) : Prop := forall k v, In (k, v) m -> v <> [].

(** with at least two (distinct, well-formed) keys: the common prefix has no terminator and
    every key continues with a well-formed rest *)
Lemma cpa_shape e1 e2 t :
  let m := e1 :: e2 :: t in
  NoDup (map fst m) -> keys_wf m ->
  let p := common_prefix_all m in
  nibs p /\ forall k v, In (k, v) m -> exists r, k = p ++ r /\ wfk r.
Proof.
  intros m Hn Hw p. destruct e1 as [k1 v1], e2 as [k2 v2].
  assert (Hpre : forall k v, In (k, v) m -> exists r, k = p ++ r).
  { intros k v Hin. unfold p, m. rewrite cpa_cons.
    destruct (cpf_prefix ((k2, v2) :: t) k1) as (H1 & H2).
    destruct Hin as [E|Hin]; [inversion E; subst; exact H1|]. apply (H2 (k, v)); auto. }
  destruct (Hpre k1 v1 (or_introl eq_refl)) as (r1 & E1).
  destruct (Hpre k2 v2 (or_intror (or_introl eq_refl))) as (r2 & E2).
  assert (Hne : r1 <> r2).
  { intros ->. cbn [map fst] in Hn. inversion Hn as [|? ? Hnot _]; subst. apply Hnot. left. congruence. }
  assert (W1 : wfk (p ++ r1)) by (rewrite <- E1; apply (Hw k1 v1); left; auto).
  assert (W2 : wfk (p ++ r2)) by (rewrite <- E2; apply (Hw k2 v2); right; left; auto).
  destruct (wfk_common p r1 r2 W1 W2 Hne) as (Hp & _). split; auto.
  intros k v Hin. destruct (Hpre k v Hin) as (r & E). exists r. split; auto.
  apply (wfk_app_inv p); auto. rewrite <- E. eapply Hw; eauto.
Qed.

(** two keys with different first nibbles when the common prefix is empty *)
Lemma cpa_nil_two e1 t :
  common_prefix_all (e1 :: t) = [] -> (forall kv, In kv (e1 :: t) -> fst kv <> []) ->
  exists x k1 y kv2, fst e1 = x :: k1 /\ In kv2 t /\ (exists k2, fst kv2 = y :: k2) /\ x <> y.
Proof.
  destruct e1 as [k1 v1]. rewrite cpa_cons. intros Hc Hne. cbn [fst].
  destruct k1 as [|x k1]; [exfalso; apply (Hne (@nil nat, v1)); [left; auto|reflexivity]|].
  (* otherwise some key starts differently *)
  assert (Hex : (forall kv, In kv t -> exists k', fst kv = x :: k') \/
                exists kv2 y k2, In kv2 t /\ fst kv2 = y :: k2 /\ x <> y).
  { clear Hc. induction t as [|kv t IH]; [left; intros kv []|].
    destruct IH as [IH|(kv2 & y & k2 & A & B & C)].
    - intros kv' Hin. apply Hne. right. destruct Hin; [left|right; right]; auto.
    - destruct (fst kv) as [|y k2] eqn:E; [exfalso; apply (Hne kv); [right; left; auto|exact E]|].
      destruct (Nat.eq_dec x y) as [->|Hd].
      + left. intros kv' [<-|Hin]; eauto.
      + right. exists kv, y, k2. repeat split; auto. left; auto.
    - right. exists kv2, y, k2. repeat split; auto. right; auto. }
  destruct Hex as [Hall|(kv2 & y & k2 & A & B & C)].
  - destruct (cpf_head x t k1 Hall) as (q & E). congruence.
  - exists x, k1, y, kv2. repeat split; eauto.
Qed.
