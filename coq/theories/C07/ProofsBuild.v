(** C07 proofs, part 11: the canonical constructor [build] yields a canonical trie holding
    exactly the given entries; with the uniqueness of the canonical form every trie reached
    by updates and deletes equals [build] of its content (up to the hash caches). *)
From Coq Require Import List ZArith NArith Arith Bool Lia.
From Kardia Require Import C07.Model C07.ProofsBase C07.ProofsMap C07.ProofsCanon.
Import ListNotations.

Definition kvs := list (key * bytes).

(* ------------------------------------------------------------------ common prefixes *)

Lemma cp_l a : forall b, exists r, a = common_prefix a b ++ r.
Proof.
  induction a as [|x a IH]; intros [|y b]; cbn; eauto.
  destruct (Nat.eqb x y); cbn; eauto. destruct (IH b) as (r & E). exists r. f_equal; auto.
Qed.

Lemma cp_r a : forall b, exists r, b = common_prefix a b ++ r.
Proof.
  induction a as [|x a IH]; intros [|y b]; cbn; eauto.
  destruct (Nat.eqb_spec x y) as [->|]; cbn; eauto. destruct (IH b) as (r & E). exists r. f_equal; auto.
Qed.

Lemma cp_app p a b : common_prefix (p ++ a) (p ++ b) = p ++ common_prefix a b.
Proof. induction p as [|x p IH]; cbn; auto. rewrite Nat.eqb_refl, IH. reflexivity. Qed.

Definition cpf (t : kvs) (p0 : key) : key :=
  fold_left (fun p kv => common_prefix p (fst kv)) t p0.

Lemma cpf_prefix t : forall p0,
  (exists r, p0 = cpf t p0 ++ r) /\ (forall kv, In kv t -> exists r, fst kv = cpf t p0 ++ r).
Proof.
  induction t as [|x t IH]; intros p0; cbn [cpf fold_left].
  - split; [exists []; rewrite app_nil_r; auto|intros kv []].
  - fold (cpf t (common_prefix p0 (fst x))).
    destruct (IH (common_prefix p0 (fst x))) as ((r & E) & Hall).
    destruct (cp_l p0 (fst x)) as (r1 & E1). destruct (cp_r p0 (fst x)) as (r2 & E2).
    split.
    + exists (r ++ r1). rewrite E1 at 1. rewrite E at 1. rewrite app_assoc. reflexivity.
    + intros kv [<-|Hin]; [|auto]. exists (r ++ r2). rewrite E2 at 1. rewrite E at 1. rewrite app_assoc. reflexivity.
Qed.

Lemma cpf_app p t : forall p0,
  cpf (map (fun kv => (p ++ fst kv, snd kv)) t) (p ++ p0) = p ++ cpf t p0.
Proof.
  induction t as [|x t IH]; intros p0; cbn [cpf fold_left map fst]; auto.
  rewrite cp_app. apply IH.
Qed.

Lemma cpf_head x t : forall p0',
  (forall kv, In kv t -> exists k', fst kv = x :: k') -> exists q, cpf t (x :: p0') = x :: q.
Proof.
  induction t as [|[ky vy] t IH]; intros p0' Hall; cbn [cpf fold_left]; eauto.
  destruct (Hall (ky, vy) (or_introl eq_refl)) as (k' & E). cbn [fst] in *. subst ky.
  cbn [common_prefix]. rewrite Nat.eqb_refl.
  apply IH. intros kv Hin. apply Hall. right; auto.
Qed.

Lemma cpa_cons k v t : common_prefix_all ((k, v) :: t) = cpf t k.
Proof. reflexivity. Qed.

(* ------------------------------------------------------------------ strip and sub *)

Lemma in_sub i m r w : In (r, w) (sub i m) <-> In (i :: r, w) m.
Proof.
  unfold sub. rewrite in_flat_map. split.
  - intros ([k v] & Hin & Hx). cbn [fst snd] in Hx. destruct k as [|x t]; [destruct Hx|].
    destruct (Nat.eqb_spec x i) as [->|]; [|destruct Hx]. destruct Hx as [E|[]]. inversion E; subst. auto.
  - intros Hin. exists (i :: r, w). split; auto. cbn. rewrite Nat.eqb_refl. left; auto.
Qed.

Lemma nodup_sub i m : NoDup (map fst m) -> NoDup (map fst (sub i m)).
Proof.
  induction m as [|[k v] m IH]; cbn [map fst]; intros Hn; [constructor|].
  inversion Hn as [|? ? Hnot Hn']; subst. specialize (IH Hn').
  unfold sub. cbn [flat_map fst snd]. fold (sub i m).
  destruct k as [|x t]; [exact IH|]. destruct (Nat.eqb_spec x i) as [->|]; [|exact IH].
  cbn [app map fst]. constructor; auto. intros Hin. apply in_map_iff in Hin as ([r w] & E & Hin).
  cbn in E. subst r. apply in_sub in Hin. apply Hnot. apply in_map_iff. exists (i :: t, w). auto.
Qed.

Lemma in_strip n m r w : In (r, w) (strip n m) <-> exists k, In (k, w) m /\ r = skipn n k.
Proof.
  unfold strip. rewrite in_map_iff. split.
  - intros ([k v] & E & Hin). cbn in E. inversion E; subst. eauto.
  - intros (k & Hin & ->). exists (k, w). auto.
Qed.

(* ------------------------------------------------------------------ counting two children *)

Lemma count_ne_ge_two cs i j ci cj :
  i <> j -> nth_error cs i = Some ci -> nth_error cs j = Some cj -> ci <> Empty -> cj <> Empty ->
  2 <= count_ne cs.
Proof.
  revert i j. induction cs as [|h t IH]; intros i j Hij Hi Hj Hci Hcj; [destruct i; discriminate|].
  rewrite count_ne_cons. destruct i as [|i], j as [|j]; cbn in Hi, Hj; try congruence.
  - inversion Hi; subst h. apply is_empty_false in Hci. rewrite Hci.
    pose proof (nth_error_count_pos _ _ _ Hj Hcj). lia.
  - inversion Hj; subst h. apply is_empty_false in Hcj. rewrite Hcj.
    pose proof (nth_error_count_pos _ _ _ Hi Hci). lia.
  - assert (2 <= count_ne t) by (eapply (IH i j); eauto). lia.
Qed.

Lemma nth_error_map_seq {A} (g : nat -> A) n i : i < n -> nth_error (map g (seq 0 n)) i = Some (g i).
Proof.
  intros Hi. rewrite nth_error_map. rewrite nth_error_nth' with (d := 0) by (rewrite seq_length; auto).
  rewrite seq_nth by auto. reflexivity.
Qed.

(* ------------------------------------------------------------------ well-formed keys sharing a prefix *)

Lemma wfk_common p : forall r1 r2, wfk (p ++ r1) -> wfk (p ++ r2) -> r1 <> r2 ->
  nibs p /\ wfk r1 /\ wfk r2.
Proof.
  induction p as [|x p IH]; intros r1 r2 H1 H2 Hne; cbn [app] in *; [repeat split; auto; constructor|].
  cbn [wfk] in H1, H2. destruct H1 as [[-> E1]|[Hx1 W1]], H2 as [[E0 E2]|[Hx2 W2]]; try lia.
  - apply app_eq_nil in E1 as [Ep1 Er1]. apply app_eq_nil in E2 as [Ep2 Er2]. congruence.
  - destruct (IH r1 r2 W1 W2 Hne) as (A & B & C). repeat split; auto. constructor; auto.
Qed.

Definition keys_wf (m : kvs) : Prop := forall k v, In (k, v) m -> wfk k.
Definition vals_ne (m : kvs) : Prop := forall k v, In (k, v) m -> v <> [].

(** with at least two (distinct, well-formed) keys: the common prefix has no terminator and
    every key continues with a well-formed rest *)
Lemma cpa_shape e1 e2 t :
  let m := e1 :: e2 :: t in
  NoDup (map fst m) -> keys_wf m ->
  let p := common_prefix_all m in
  nibs p /\ forall k v, In (k, v) m -> exists r, k = p ++ r /\ wfk r.
Proof.
  intros m Hn Hw p. destruct e1 as [k1 v1], e2 as [k2 v2].
  assert (Hpre : forall k v, In (k, v) m -> exists r, k = p ++ r).
  { intros k v Hin. unfold p, m. rewrite cpa_cons.
    destruct (cpf_prefix ((k2, v2) :: t) k1) as (H1 & H2).
    destruct Hin as [E|Hin]; [inversion E; subst; exact H1|]. apply (H2 (k, v)); auto. }
  destruct (Hpre k1 v1 (or_introl eq_refl)) as (r1 & E1).
  destruct (Hpre k2 v2 (or_intror (or_introl eq_refl))) as (r2 & E2).
  assert (Hne : r1 <> r2).
  { intros ->. unfold m in Hn. cbn [map fst] in Hn. apply NoDup_cons_iff in Hn as [Hnot _].
    apply Hnot. left. congruence. }
  assert (W1 : wfk (p ++ r1)) by (rewrite <- E1; apply (Hw k1 v1); left; auto).
  assert (W2 : wfk (p ++ r2)) by (rewrite <- E2; apply (Hw k2 v2); right; left; auto).
  destruct (wfk_common p r1 r2 W1 W2 Hne) as (Hp & _). split; auto.
  intros k v Hin. destruct (Hpre k v Hin) as (r & E). exists r. split; auto.
  apply (wfk_app_inv p); auto. rewrite <- E. eapply Hw; eauto.
Qed.

(** two keys with different first nibbles when the common prefix is empty *)
Lemma cpa_nil_two e1 t :
  common_prefix_all (e1 :: t) = [] -> (forall kv, In kv (e1 :: t) -> fst kv <> []) ->
  exists x k1 y kv2, fst e1 = x :: k1 /\ In kv2 t /\ (exists k2, fst kv2 = y :: k2) /\ x <> y.
Proof.
  destruct e1 as [k1 v1]. rewrite cpa_cons. intros Hc Hne. cbn [fst].
  destruct k1 as [|x k1]; [exfalso; apply (Hne ([], v1) (or_introl eq_refl)); reflexivity|].
  (* otherwise some key starts differently *)
  assert (Hex : (forall kv, In kv t -> exists k', fst kv = x :: k') \/
                exists kv2 y k2, In kv2 t /\ fst kv2 = y :: k2 /\ x <> y).
  { clear Hc. induction t as [|kv t IH]; [left; intros kv []|].
    assert (Hne' : forall kv0, In kv0 ((x :: k1, v1) :: t) -> fst kv0 <> []).
    { intros kv' [<-|Hin]; apply Hne; [left; auto|right; right; auto]. }
    destruct (IH Hne') as [IHa|(kv2 & y & k2 & A & B & C)].
    - destruct (fst kv) as [|y k2] eqn:E; [exfalso; apply (Hne kv (or_intror (or_introl eq_refl))); exact E|].
      destruct (Nat.eq_dec x y) as [->|Hd].
      + left. intros kv' [<-|Hin]; eauto.
      + right. exists kv, y, k2. repeat split; auto. left; auto.
    - right. exists kv2, y, k2. repeat split; auto. right; auto. }
  destruct Hex as [Hall|(kv2 & y & k2 & A & B & C)].
  - destruct (cpf_head x t k1 Hall) as (q & E). congruence.
  - exists x, k1, y, kv2. repeat split; eauto.
Qed.

(* ------------------------------------------------------------------ build *)

Lemma build_two f k1 v1 e2 t :
  build (S f) ((k1, v1) :: e2 :: t) =
  let m := (k1, v1) :: e2 :: t in
  match common_prefix_all m with
  | [] => Full (map (fun i => build f (sub i m)) (seq 0 17)) newflag
  | p => Short p (build f (strip (length p) m)) newflag
  end.
Proof. reflexivity. Qed.

Lemma nodup_map_inj {A B} (f : A -> B) l :
  NoDup l -> (forall a b, In a l -> In b l -> f a = f b -> a = b) -> NoDup (map f l).
Proof.
  induction 1 as [|a l Hnot Hn IH]; intros Hinj; cbn; constructor.
  - intros Hin. apply in_map_iff in Hin as (b & E & Hb). apply Hnot.
    rewrite (Hinj a b); auto; [left; auto|right; auto].
  - apply IH. intros x y Hx Hy. apply Hinj; right; auto.
Qed.

Lemma strip_restore p m : (forall kv, In kv m -> exists r, fst kv = p ++ r) ->
  map (fun kv => (p ++ fst kv, snd kv)) (strip (length p) m) = m.
Proof.
  induction m as [|[k v] m IH]; intros Hall; cbn [strip map fst snd]; auto.
  destruct (Hall (k, v) (or_introl eq_refl)) as (r & E). cbn in E. subst k.
  rewrite skipn_app_len. f_equal. apply IH. intros kv Hin. apply Hall. right; auto.
Qed.

Lemma nodup_strip p m : NoDup (map fst m) -> (forall kv, In kv m -> exists r, fst kv = p ++ r) ->
  NoDup (map fst (strip (length p) m)).
Proof.
  induction m as [|[k v] m IH]; intros Hn Hall; cbn [strip map fst]; [constructor|].
  cbn [map fst] in Hn. inversion Hn as [|? ? Hnot Hn']; subst.
  constructor.
  - intros Hin. apply in_map_iff in Hin as ([r w] & E & Hin). cbn [fst] in E.
    apply in_strip in Hin as (k2 & Hin2 & ->).
    destruct (Hall (k, v) (or_introl eq_refl)) as (ra & Ea). cbn in Ea.
    destruct (Hall (k2, w) (or_intror Hin2)) as (rb & Eb). cbn in Eb. subst k k2.
    rewrite !skipn_app_len in E. subst rb. apply Hnot. apply in_map_iff. exists (p ++ ra, w). auto.
  - apply IH; auto. intros kv Hin. apply Hall. right; auto.
Qed.

Lemma sub16_shape m : keys_wf m -> NoDup (map fst m) ->
  sub 16 m = [] \/ exists v, sub 16 m = [([], v)].
Proof.
  intros Hw Hn. pose proof (nodup_sub 16 m Hn) as Hn16.
  assert (Hk : forall r w, In (r, w) (sub 16 m) -> r = []).
  { intros r w Hin. apply in_sub in Hin. specialize (Hw _ _ Hin). cbn in Hw.
    destruct Hw as [[_ E]|[X _]]; [auto|lia]. }
  destruct (sub 16 m) as [|[r1 w1] [|[r2 w2] t]]; auto.
  - right. exists w1. rewrite (Hk r1 w1) by (left; auto). reflexivity.
  - exfalso. rewrite (Hk r1 w1) in Hn16 by (left; auto). rewrite (Hk r2 w2) in Hn16 by (right; left; auto).
    cbn in Hn16. inversion Hn16 as [|? ? Hnot _]; subst. apply Hnot. left; auto.
Qed.

Lemma build_spec : forall fuel (m : kvs),
  NoDup (map fst m) -> vals_ne m -> keys_wf m -> (forall k v, In (k, v) m -> length k < fuel) ->
  canon (build fuel m) /\ (m <> [] -> build fuel m <> Empty) /\
  (2 <= length m -> common_prefix_all m = [] -> exists cs g, build fuel m = Full cs g) /\
  (forall k w, has (build fuel m) k w <-> In (k, w) m).
Proof.
  induction fuel as [|f IH]; intros m Hn Hv Hw Hl.
  - destruct m as [|[k v] m]; [|specialize (Hl k v (or_introl eq_refl)); lia].
    cbn. split; [constructor|]. split; [congruence|]. split; [cbn; lia|].
    intros k w. rewrite has_empty. cbn. tauto.
  - destruct m as [|[k1 v1] [|e2 t]].
    + cbn. split; [constructor|]. split; [congruence|]. split; [cbn; lia|].
      intros k w. rewrite has_empty. cbn. tauto.
    + (* one entry *)
      assert (Hk1 : wfk k1) by (apply (Hw k1 v1); left; auto).
      assert (Hv1 : v1 <> []) by (apply (Hv k1 v1); left; auto).
      destruct (wfk_split _ Hk1) as (p & -> & Hp).
      match goal with |- context [build (S f) ?x] =>
        assert (E : build (S f) x = Short (p ++ [16]) (Value v1) newflag) end.
      { cbn [build]. destruct (p ++ [16]) eqn:X; [destruct p; discriminate|reflexivity]. }
      rewrite E. split; [constructor; auto|]. split; [discriminate|]. split; [cbn; lia|].
      intros k w. rewrite has_short. split.
      * intros (r & -> & Hr). apply has_value in Hr as [-> ->]. rewrite app_nil_r. left; auto.
      * intros [X|[]]. inversion X; subst. exists []. rewrite app_nil_r. split; auto. constructor.
    + (* two or more entries *)
      rewrite build_two. cbv zeta. set (m := (k1, v1) :: e2 :: t) in *.
      destruct (cpa_shape (k1, v1) e2 t Hn Hw) as (Hp & Hpre). fold m in Hp, Hpre.
      destruct (common_prefix_all m) as [|p0 pt] eqn:Ecp.
      * (* branch *)
        set (cs := map (fun i => build f (sub i m)) (seq 0 17)).
        assert (Hnth : forall i, i < 17 -> nth_error cs i = Some (build f (sub i m)))
          by (intros i Hi; apply (nth_error_map_seq (fun i => build f (sub i m))); auto).
        assert (Hkey : forall k v, In (k, v) m -> exists i r, k = i :: r /\ i <= 16 /\
                                                              (i < 16 -> wfk r) /\ (i = 16 -> r = [])).
        { intros k v Hin. specialize (Hw _ _ Hin). destruct k as [|i r]; [cbn in Hw; tauto|].
          exists i, r. cbn in Hw. split; auto. destruct Hw as [[-> ->]|[Hi Hr]]; repeat split; auto; lia. }
        assert (HIH : forall i, i < 16 ->
                  canon (build f (sub i m)) /\ (sub i m <> [] -> build f (sub i m) <> Empty) /\
                  (forall r w, has (build f (sub i m)) r w <-> In (r, w) (sub i m))).
        { intros i Hi. destruct (IH (sub i m)) as (A & B & _ & D); auto.
          - apply nodup_sub; auto.
          - intros r w Hin. apply in_sub in Hin. eapply Hv; eauto.
          - intros r w Hin. apply in_sub in Hin. specialize (Hw _ _ Hin). cbn in Hw.
            destruct Hw as [[X _]|[_ Y]]; [lia|auto].
          - intros r w Hin. apply in_sub in Hin. specialize (Hl _ _ Hin). cbn in Hl. lia. }
        assert (H16s : (sub 16 m = [] /\ build f (sub 16 m) = Empty) \/
                       exists v, sub 16 m = [([], v)] /\ build f (sub 16 m) = Value v /\ v <> []).
        { destruct (sub16_shape m Hw Hn) as [E|(v & E)].
          - left. split; auto. rewrite E. destruct f; reflexivity.
          - right. exists v. split; auto.
            assert (Hin : In ([16], v) m) by (apply in_sub; rewrite E; left; auto).
            specialize (Hl _ _ Hin). cbn in Hl. destruct f as [|f]; [lia|].
            split; [rewrite E; reflexivity|]. eapply Hv; eauto. }
        assert (Hhas : forall i, i <= 16 -> forall r w,
                         has (build f (sub i m)) r w <-> In (r, w) (sub i m)).
        { intros i Hi r w. destruct (Nat.eq_dec i 16) as [->|Hd].
          - destruct H16s as [[E1 E2]|(v & E1 & E2 & _)]; rewrite E2, E1.
            + rewrite has_empty. cbn. tauto.
            + rewrite has_value. cbn. split; [intros [-> ->]; auto|intros [X|[]]; inversion X; auto].
          - apply HIH. lia. }
        assert (Hnonempty : forall i r w, i <= 16 -> In (i :: r, w) m -> build f (sub i m) <> Empty).
        { intros i r w Hi Hin. destruct (Nat.eq_dec i 16) as [->|Hd].
          - destruct H16s as [[E1 _]|(v & _ & E2 & _)]; [|rewrite E2; discriminate].
            apply in_sub in Hin. rewrite E1 in Hin. destruct Hin.
          - apply HIH; [lia|]. apply in_sub in Hin. intros X. rewrite X in Hin. destruct Hin. }
        split; [|split; [discriminate|split; [eauto|]]].
        -- constructor.
           ++ unfold cs. rewrite map_length, seq_length. reflexivity.
           ++ intros i c Hc Hi. rewrite Hnth in Hc by lia.
              assert (c = build f (sub i m)) as -> by congruence. apply HIH; auto.
           ++ intros c Hc. rewrite Hnth in Hc by lia.
              assert (c = build f (sub 16 m)) as -> by congruence.
              destruct H16s as [[_ E]|(v & _ & E & Hne)]; rewrite E; eauto.
           ++ destruct (cpa_nil_two (k1, v1) (e2 :: t) Ecp) as (x & kx & y & kv2 & Ex & Hin2 & (ky & Ey) & Hxy).
              { intros kv Hin. destruct kv as [k v]. specialize (Hw _ _ Hin). destruct k; [cbn in Hw; tauto|discriminate]. }
              cbn [fst] in Ex. subst k1. destruct kv2 as [k2 v2]. cbn [fst] in Ey. subst k2.
              assert (Hinx : In (x :: kx, v1) m) by (left; auto).
              assert (Hiny : In (y :: ky, v2) m) by (right; auto).
              destruct (Hkey _ _ Hinx) as (i1 & r1 & E1 & Hi1 & _). inversion E1; subst i1 r1.
              destruct (Hkey _ _ Hiny) as (i2 & r2 & E2 & Hi2 & _). inversion E2; subst i2 r2.
              apply (count_ne_ge_two cs x y (build f (sub x m)) (build f (sub y m))); auto.
              ** apply Hnth; lia.
              ** apply Hnth; lia.
              ** eapply Hnonempty; eauto.
              ** eapply Hnonempty; eauto.
        -- intros k w. rewrite has_full. split.
           ++ intros (i & r & c & -> & Hc & Hh).
              assert (Hi : i < 17) by (apply nth_error_some_lt in Hc; unfold cs in Hc;
                                        rewrite map_length, seq_length in Hc; auto).
              rewrite Hnth in Hc by auto. assert (c = build f (sub i m)) as -> by congruence.
              apply Hhas in Hh; [|lia]. apply in_sub; auto.
           ++ intros Hin. destruct (Hkey _ _ Hin) as (i & r & -> & Hi & _).
              exists i, r, (build f (sub i m)). split; auto. split; [apply Hnth; lia|].
              apply Hhas; auto. apply in_sub; auto.
      * (* extension *)
        set (p := p0 :: pt) in *. set (m' := strip (length p) m).
        assert (Hin' : forall r w, In (r, w) m' <-> In (p ++ r, w) m).
        { intros r w. unfold m'. rewrite in_strip. split.
          - intros (k & Hin & ->). destruct (Hpre _ _ Hin) as (r' & -> & _). rewrite skipn_app_len. auto.
          - intros Hin. exists (p ++ r). split; auto. rewrite skipn_app_len. reflexivity. }
        assert (Hrest : map (fun kv => (p ++ fst kv, snd kv)) m' = m).
        { apply strip_restore. intros [k v] Hin. destruct (Hpre _ _ Hin) as (r & -> & _). cbn [fst]. eauto. }
        assert (Hn' : NoDup (map fst m')).
        { apply nodup_strip; auto. intros [k v] Hin. destruct (Hpre _ _ Hin) as (r & -> & _). cbn [fst]. eauto. }
        destruct (IH m') as (A & B & C & D); auto.
        { intros r w Hin. apply Hin' in Hin. eapply Hv; eauto. }
        { intros r w Hin. apply Hin' in Hin. destruct (Hpre _ _ Hin) as (r' & E & Hr'). apply app_inv_head in E. subst; auto. }
        { intros r w Hin. apply Hin' in Hin. specialize (Hl _ _ Hin). rewrite app_length in Hl. unfold p in Hl. cbn in Hl. lia. }
        assert (Hlen' : 2 <= length m') by (unfold m', strip; rewrite map_length; cbn; lia).
        assert (Ecp' : common_prefix_all m' = []).
        { destruct m' as [|[r1 w1] t'] eqn:Em'; [cbn in Hlen'; lia|].
          rewrite cpa_cons. pose proof Ecp as Ecp2. rewrite <- Hrest in Ecp2.
          cbn [map fst snd] in Ecp2. rewrite cpa_cons, cpf_app in Ecp2.
          fold p in Ecp2. rewrite <- (app_nil_r p) in Ecp2 at 2. apply app_inv_head in Ecp2. exact Ecp2. }
        destruct (C Hlen' Ecp') as (cs & g & Efull).
        split; [|split; [discriminate|split; [intros _ X; discriminate|]]].
        -- rewrite Efull. constructor; [discriminate|auto|]. rewrite <- Efull. exact A.
        -- intros k w. rewrite has_short. split.
           ++ intros (r & -> & Hh). apply D in Hh. apply Hin'; auto.
           ++ intros Hin. destruct (Hpre _ _ Hin) as (r & -> & _). exists r. split; auto.
              apply D. apply Hin'; auto.
Qed.

Lemma fold_max_ge (m : kvs) : forall a0,
  a0 <= fold_left (fun a kv => Nat.max a (length (fst kv))) m a0 /\
  forall kv, In kv m -> length (fst kv) <= fold_left (fun a kv => Nat.max a (length (fst kv))) m a0.
Proof.
  induction m as [|x m IH]; intros a0; cbn [fold_left]; [split; [lia|intros kv []]|].
  destruct (IH (Nat.max a0 (length (fst x)))) as [A B]. split.
  - eapply Nat.le_trans; [apply Nat.le_max_l | exact A].
  - intros kv [<-|Hin]; [|auto]. eapply Nat.le_trans; [apply Nat.le_max_r | exact A].
Qed.

Lemma build_fuel_ok (m : kvs) k v : In (k, v) m -> length k < build_fuel m.
Proof.
  intros Hin. unfold build_fuel. destruct (fold_max_ge m 0) as [_ B]. specialize (B (k, v) Hin). cbn in B. lia.
Qed.

(** any canonical trie equals [build] of the list of its entries (up to hash caches) *)
Theorem build_canonical n (m : kvs) :
  canon n -> NoDup (map fst m) -> (forall k w, has n k w <-> In (k, w) m) ->
  erase n = erase (build (build_fuel m) m).
Proof.
  intros Hc Hn Hh.
  assert (Hw : keys_wf m) by (intros k v Hin; apply Hh in Hin; eapply canon_has_wfk; eauto).
  assert (Hv : vals_ne m) by (intros k v Hin; apply Hh in Hin; eapply canon_has_wfk; eauto).
  destruct (build_spec (build_fuel m) m Hn Hv Hw) as (A & _ & _ & D).
  { intros k v Hin. eapply build_fuel_ok; eauto. }
  apply canon_unique; auto. intros k w. rewrite Hh, D. tauto.
Qed.
