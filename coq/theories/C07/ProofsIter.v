(** C07 proofs, part 13 (round 3): the leaf iterator.  On a canonical (fully resolved) trie the
    walk of ModelRange.v — the order in which nodeIterator visits the leaves — yields every entry
    of the content exactly once, in strictly increasing path order (nibbles, terminator last), and
    [iter_from] yields exactly the entries whose path is not below the start prefix. *)
From Coq Require Import List NArith Arith Bool Lia.
From Kardia Require Import C07.Model C07.ModelRange C07.ProofsBase C07.ProofsMap C07.ProofsCanon.
Import ListNotations.

(* ------------------------------------------------------------------ the leaves, structurally *)

Definition pf (p : key) (kv : key * bytes) : key * bytes := (p ++ fst kv, snd kv).

Fixpoint tag (i : nat) (ls : list (list (key * bytes))) : list (key * bytes) :=
  match ls with
  | [] => []
  | l :: t => map (pf [i]) l ++ tag (S i) t
  end.

Fixpoint leaves (n : node) : list (key * bytes) :=
  match n with
  | Empty => []
  | Value v => [([], v)]
  | Short k c _ => map (pf k) (leaves c)
  | Full cs _ => tag 0 (map leaves cs)
  | Ref _ => []
  end.

Fixpoint depth (n : node) : nat :=
  match n with
  | Short _ c _ => S (depth c)
  | Full cs _ => S (fold_right (fun c a => Nat.max (depth c) a) 0 cs)
  | _ => 0
  end.

Lemma depth_child cs i c : nth_error cs i = Some c ->
  depth c <= fold_right (fun c a => Nat.max (depth c) a) 0 cs.
Proof.
  revert i; induction cs as [|x cs IH]; intros [|i] Hn; cbn in *; try discriminate.
  - inversion Hn; subst. lia.
  - specialize (IH _ Hn). lia.
Qed.

Lemma pf_pf p q l : map (pf p) (map (pf q) l) = map (pf (p ++ q)) l.
Proof. rewrite map_map. apply map_ext. intros [k v]. unfold pf. cbn. rewrite app_assoc. reflexivity. Qed.

Lemma pf_nil l : map (pf []) l = l.
Proof. rewrite <- (map_id l) at 2. apply map_ext. intros [k v]. reflexivity. Qed.

Lemma In_tag ls : forall i k v,
  In (k, v) (tag i ls) <-> exists j l r, nth_error ls j = Some l /\ k = (i + j) :: r /\ In (r, v) l.
Proof.
  induction ls as [|l ls IH]; intros i k v; cbn [tag].
  - split; [intros []|]. intros (j & l & r & Hn & _). destruct j; discriminate.
  - rewrite in_app_iff, IH, in_map_iff. split.
    + intros [([r w] & E & Hin)|(j & l' & r & Hn & -> & Hin)].
      * unfold pf in E. cbn in E. inversion E; subst. exists 0, l, r. rewrite Nat.add_0_r. auto.
      * exists (S j), l', r. cbn. split; auto. split; auto. f_equal. lia.
    + intros ([|j] & l' & r & Hn & -> & Hin); cbn in Hn.
      * inversion Hn; subst. left. exists (r, v). rewrite Nat.add_0_r. auto.
      * right. exists j, l', r. split; auto. split; auto. f_equal. lia.
Qed.

(* ------------------------------------------------------------------ the walk computes them *)

Lemma walk_leaves d n : canon n -> forall fuel pre, depth n < fuel ->
  walk fuel d n pre = Ok (map (pf pre) (leaves n)).
Proof.
  induction 1 as [|p v f Hp Hv|k cs g f Hk Hn Hc IH|cs f Hl Hch IH H16 Hcnt]; intros fuel pre Hd.
  - destruct fuel; [cbn in Hd; lia|]. reflexivity.
  - destruct fuel as [|[|fuel]]; cbn in Hd; try lia. cbn [walk leaves map]. unfold pf. cbn.
    rewrite app_nil_r. reflexivity.
  - destruct fuel; [lia|]. cbn [walk leaves]. rewrite pf_pf. apply IH. cbn [depth] in Hd. cbn [depth]. lia.
  - destruct fuel; [lia|]. cbn [walk leaves depth] in *.
    assert (Hgo : forall l i,
      (forall j c, nth_error l j = Some c ->
                   walk fuel d c (pre ++ [i + j]) = Ok (map (pf (pre ++ [i + j])) (leaves c))) ->
      (fix go (l : list node) (i : nat) {struct l} : res (list (key * bytes)) :=
         match l with
         | [] => Ok []
         | c :: t => rbind (walk fuel d c (pre ++ [i])) (fun a => rbind (go t (S i)) (fun b => Ok (a ++ b)))
         end) l i = Ok (map (pf pre) (tag i (map leaves l)))).
    { induction l as [|c l IHl]; intros i Hw; [reflexivity|].
      pose proof (Hw 0 c eq_refl) as H0. rewrite Nat.add_0_r in H0. rewrite H0. cbn [rbind].
      rewrite IHl.
      - cbn [rbind map tag]. rewrite map_app, pf_pf. reflexivity.
      - intros j c' Hj. replace (S i + j) with (i + S j) by lia. apply (Hw (S j)). exact Hj. }
    apply Hgo. intros j c Hj. cbn [Nat.add].
    pose proof (nth_error_some_lt _ _ _ Hj) as Hlt. rewrite Hl in Hlt.
    pose proof (depth_child _ _ _ Hj) as Hdc.
    destruct (Nat.eq_dec j 16) as [->|Hne].
    + destruct (H16 _ Hj) as [->|(v & Hv & ->)].
      * destruct fuel; [lia|]. reflexivity.
      * destruct fuel; [lia|]. cbn [walk leaves map]. unfold pf. cbn [fst snd]. rewrite app_nil_r. reflexivity.
    + apply IH with (i := j); auto; lia.
Qed.

(* ------------------------------------------------------------------ they are the content *)

Lemma leaves_has n : canon n -> forall k v, In (k, v) (leaves n) <-> has n k v.
Proof.
  induction 1 as [|p v f Hp Hv|k cs g f Hk Hn Hc IH|cs f Hl Hch IH H16 Hcnt]; intros k' w.
  - cbn. rewrite has_empty. tauto.
  - cbn [leaves map In]. unfold pf. cbn. rewrite app_nil_r, has_short. split.
    + intros [E|[]]. inversion E; subst. exists []. rewrite app_nil_r. split; auto. constructor.
    + intros (r & -> & Hr). apply has_value in Hr as [-> ->]. rewrite app_nil_r. auto.
  - cbn [leaves]. rewrite in_map_iff, has_short. split.
    + intros ([r x] & E & Hin). unfold pf in E. cbn in E. inversion E; subst. exists r. split; auto. apply IH; auto.
    + intros (r & -> & Hr). exists (r, w). split; auto. apply IH; auto.
  - cbn [leaves]. rewrite In_tag, has_full. split.
    + intros (j & l & r & Hj & -> & Hin). rewrite nth_error_map in Hj.
      destruct (nth_error cs j) as [c|] eqn:Ec; [|discriminate]. inversion Hj; subst l.
      exists j, r, c. split; auto. split; auto.
      pose proof (nth_error_some_lt _ _ _ Ec) as Hlt. rewrite Hl in Hlt.
      destruct (Nat.eq_dec j 16) as [->|Hne].
      * destruct (H16 _ Ec) as [->|(v & Hv & ->)]; cbn in Hin; [tauto|].
        destruct Hin as [E|[]]. inversion E; subst. constructor.
      * apply IH with (i := j); auto. lia.
    + intros (j & r & c & -> & Ec & Hr). exists j, (leaves c), r. rewrite nth_error_map, Ec. split; auto. split; auto.
      pose proof (nth_error_some_lt _ _ _ Ec) as Hlt. rewrite Hl in Hlt.
      destruct (Nat.eq_dec j 16) as [->|Hne].
      * destruct (H16 _ Ec) as [->|(v & Hv & ->)]; [apply has_empty in Hr; tauto|].
        apply has_value in Hr as [-> ->]. cbn. auto.
      * apply IH with (i := j); auto. lia.
Qed.

(* ------------------------------------------------------------------ in strictly increasing path order *)

Fixpoint ksorted (l : list key) : Prop :=
  match l with
  | [] => True
  | a :: t => Forall (fun b => kcmp a b = Lt) t /\ ksorted t
  end.

Lemma kcmp_app p a b : kcmp (p ++ a) (p ++ b) = kcmp a b.
Proof. induction p as [|x p IH]; cbn; auto. rewrite Nat.compare_refl. auto. Qed.

Lemma ksorted_app l1 l2 : ksorted l1 -> ksorted l2 ->
  (forall a b, In a l1 -> In b l2 -> kcmp a b = Lt) -> ksorted (l1 ++ l2).
Proof.
  induction l1 as [|x l1 IH]; cbn; auto. intros [Hf Hs] H2 Hlt. split.
  - apply Forall_app. split; auto. apply Forall_forall. intros b Hb. apply Hlt; auto.
  - apply IH; auto.
Qed.

Lemma ksorted_map_pf p l : ksorted (map fst l) -> ksorted (map fst (map (pf p) l)).
Proof.
  induction l as [|[k v] l IH]; cbn; auto. intros [Hf Hs]. split; auto.
  rewrite Forall_forall in *. intros b Hb. rewrite map_map in Hb. apply in_map_iff in Hb as ([k2 v2] & <- & Hin).
  cbn. rewrite kcmp_app. apply Hf. apply in_map_iff. exists (k2, v2). auto.
Qed.

Lemma tag_sorted ls : Forall (fun l => ksorted (map fst l)) ls -> forall i, ksorted (map fst (tag i ls)).
Proof.
  induction 1 as [|l ls Hl Hls IH]; intros i; [cbn; auto|]. cbn [tag].
  rewrite map_app. apply ksorted_app.
  - apply ksorted_map_pf; auto.
  - apply IH.
  - intros a b Ha Hb. apply in_map_iff in Ha as ([ka va] & <- & Ha). apply in_map_iff in Ha as ([r w] & E & _).
    apply in_map_iff in Hb as ([kb vb] & <- & Hb). apply In_tag in Hb as (j & l' & r' & _ & -> & _).
    unfold pf in E. cbn in E. inversion E; subst. cbn.
    match goal with |- context [Nat.compare ?a ?b] =>
      replace (Nat.compare a b) with Lt by (symmetry; apply Nat.compare_lt_iff; lia) end. reflexivity.
Qed.

Lemma leaves_sorted n : canon n -> ksorted (map fst (leaves n)).
Proof.
  induction 1 as [|p v f Hp Hv|k cs g f Hk Hn Hc IH|cs f Hl Hch IH H16 Hcnt].
  - cbn. auto.
  - cbn. split; auto.
  - cbn [leaves]. apply ksorted_map_pf; auto.
  - cbn [leaves]. apply tag_sorted. apply Forall_forall. intros l Hin.
    apply in_map_iff in Hin as (c & <- & Hc). apply In_nth_error in Hc as (j & Hj).
    pose proof (nth_error_some_lt _ _ _ Hj) as Hlt. rewrite Hl in Hlt.
    destruct (Nat.eq_dec j 16) as [->|Hne].
    + destruct (H16 _ Hj) as [->|(v & Hv & ->)]; cbn; auto.
    + apply IH with (i := j); auto. lia.
Qed.

(* ------------------------------------------------------------------ depth *)

Lemma fold_max_witness (cs : list node) :
  fold_right (fun c a => Nat.max (depth c) a) 0 cs = 0 \/
  exists i c, nth_error cs i = Some c /\ depth c = fold_right (fun c a => Nat.max (depth c) a) 0 cs /\ 0 < depth c.
Proof.
  induction cs as [|x cs IH]; cbn [fold_right]; [left; reflexivity|].
  destruct IH as [E|(i & c & Hi & Hd & Hp)].
  - rewrite E, Nat.max_0_r. destruct (depth x) eqn:Ex; [left; reflexivity|].
    right. exists 0, x. cbn. split; auto. split; lia.
  - destruct (Nat.max_spec (depth x) (fold_right (fun c a => Nat.max (depth c) a) 0 cs)) as [[Hlt ->]|[Hle ->]].
    + right. exists (S i), c. cbn. auto.
    + right. exists 0, x. cbn. split; auto. split; lia.
Qed.

(** a canonical trie is no deeper than its longest key *)
Lemma depth_key n : canon n -> n <> Empty -> exists k v, has n k v /\ depth n <= length k.
Proof.
  induction 1 as [|p v f Hp Hv|k cs g f Hk Hn Hc IH|cs f Hl Hch IH H16 Hcnt]; intros Hne.
  - congruence.
  - exists (p ++ [16]), v. split.
    + apply has_short. exists []. split; [rewrite app_nil_r; reflexivity|constructor].
    + cbn [depth]. rewrite app_length. cbn. lia.
  - destruct IH as (k' & v & Hh & Hd); [discriminate|]. exists (k ++ k'), v. split; [constructor; auto|].
    cbn [depth] in *. rewrite app_length. destruct k; [congruence|]. cbn [length]. lia.
  - cbn [depth]. destruct (fold_max_witness cs) as [E|(i & c & Hi & Hd & Hp)].
    + rewrite E. destruct (count_ne_pos cs) as (j & c & Hj & Hcne); [lia|].
      pose proof (nth_error_some_lt _ _ _ Hj) as Hlt. rewrite Hl in Hlt.
      destruct (Nat.eq_dec j 16) as [->|Hne16].
      * destruct (H16 _ Hj) as [->|(v & Hv & ->)]; [congruence|].
        exists [16], v. split; [econstructor; eauto; constructor|cbn; lia].
      * destruct (IH j c Hj ltac:(lia) Hcne) as (k' & v & Hh & _).
        exists (j :: k'), v. split; [econstructor; eauto|cbn; lia].
    + rewrite <- Hd. pose proof (nth_error_some_lt _ _ _ Hi) as Hlt. rewrite Hl in Hlt.
      assert (Hcne : c <> Empty) by (intros ->; cbn in Hp; lia).
      destruct (Nat.eq_dec i 16) as [->|Hne16].
      * destruct (H16 _ Hi) as [->|(v & Hv & ->)]; [congruence|]. cbn in Hp. lia.
      * destruct (IH i c Hi ltac:(lia) Hcne) as (k' & v & Hh & Hdk).
        exists (i :: k'), v. split; [econstructor; eauto|cbn [length]; lia].
Qed.

(** hence the trie of a map whose keys are shorter than 199 bytes is shallower than the walk fuel *)
Lemma represents_depth m n : represents m n ->
  (forall kb, m kb <> [] -> length kb < 199) -> depth n < walk_fuel.
Proof.
  intros [Hc Hr] Hb. destruct (is_empty n) eqn:E.
  - apply is_empty_true in E. subst. cbn. unfold walk_fuel. lia.
  - apply is_empty_false in E. destruct (depth_key n Hc E) as (k & v & Hh & Hd).
    apply Hr in Hh as (kb & Hkb & -> & -> & Hne). specialize (Hb kb Hne).
    assert (Hl : length (keybytes_to_hex kb) = 2 * length kb + 1).
    { clear. induction kb as [|b kb IH]; cbn [keybytes_to_hex length]; lia. }
    unfold walk_fuel. lia.
Qed.

(* ------------------------------------------------------------------ keys back to bytes *)

Lemma has_term_hex kb : has_term (keybytes_to_hex kb) = true.
Proof.
  unfold has_term. induction kb as [|b kb IH]; [reflexivity|].
  cbn [keybytes_to_hex rev]. destruct (rev (keybytes_to_hex kb)) as [|x l] eqn:E; [discriminate|].
  cbn. destruct l; cbn; exact IH.
Qed.

Lemma removelast_hex b kb :
  removelast (keybytes_to_hex (b :: kb)) =
  N.to_nat (b / 16)%N :: N.to_nat (b mod 16)%N :: removelast (keybytes_to_hex kb).
Proof.
  cbn [keybytes_to_hex]. destruct (keybytes_to_hex kb) as [|x l] eqn:E; [destruct kb; discriminate|].
  reflexivity.
Qed.

Lemma hex_to_keybytes_hex kb : is_bytes kb -> hex_to_keybytes (keybytes_to_hex kb) = kb.
Proof.
  intros Hb. unfold hex_to_keybytes. rewrite has_term_hex.
  induction Hb as [|b kb Hlt Hb IH]; [reflexivity|].
  rewrite removelast_hex. cbn [decode_nibbles]. rewrite IH. f_equal.
  rewrite Nat2N.inj_add, Nat2N.inj_mul, !N2Nat.id. change (N.of_nat 16) with 16%N.
  rewrite N.mul_comm. symmetry. rewrite N.mul_comm. apply N.div_mod. lia.
Qed.

(* ------------------------------------------------------------------ iter_from on the trie of a map *)

Section WithDb.
Variable d : db.

(** the iterator, started at [start], yields the content entries whose path is not below the start
    prefix — each once, in strictly increasing path order *)
Lemma iter_from_represents m n start : represents m n -> depth n < walk_fuel ->
  exists l, iter_from d n start = Ok l /\
    ksorted (map (fun kv => keybytes_to_hex (fst kv)) l) /\
    forall kb v, is_bytes kb ->
      (In (kb, v) l <->
       v = m kb /\ v <> [] /\ kcmp (keybytes_to_hex kb) (removelast (keybytes_to_hex start)) <> Lt).
Proof.
  intros [Hc Hr] Hd. unfold iter_from. rewrite (walk_leaves d n Hc walk_fuel [] Hd), pf_nil. cbn [rbind].
  set (sk := removelast (keybytes_to_hex start)).
  set (keep := fun kv : key * bytes => negb (is_lt (kcmp (fst kv) sk))).
  eexists. split; [reflexivity|].
  assert (Hkeys : forall k v, In (k, v) (leaves n) -> exists kb, is_bytes kb /\ k = keybytes_to_hex kb /\ v = m kb /\ v <> []).
  { intros k v Hin. apply (leaves_has n Hc) in Hin. apply Hr in Hin. exact Hin. }
  split.
  - (* order *)
    pose proof (leaves_sorted n Hc) as Hs.
    assert (Hsub : forall l, (forall k v, In (k, v) l -> exists kb, is_bytes kb /\ k = keybytes_to_hex kb /\ v = m kb /\ v <> []) ->
                   ksorted (map fst l) ->
                   ksorted (map (fun kv => keybytes_to_hex (fst kv))
                                (map (fun kv => (hex_to_keybytes (fst kv), snd kv)) (filter keep l)))).
    { induction l as [|[k v] l IHl]; intros Hk Hso; [cbn; auto|].
      cbn [map ksorted] in Hso. destruct Hso as [Hf Hso].
      assert (IH' := IHl (fun k0 v0 Hin => Hk k0 v0 (or_intror Hin)) Hso).
      cbn [filter]. destruct (keep (k, v)); [|exact IH'].
      cbn [map ksorted]. split; [|exact IH'].
      destruct (Hk k v (or_introl eq_refl)) as (kb & Hb & -> & _).
      cbn [fst]. rewrite hex_to_keybytes_hex by auto.
      apply Forall_forall. intros x Hx. rewrite map_map in Hx. apply in_map_iff in Hx as ([k2 v2] & <- & Hin2).
      apply filter_In in Hin2 as [Hin2 _]. cbn [fst].
      destruct (Hk k2 v2 (or_intror Hin2)) as (kb2 & Hb2 & -> & _).
      rewrite hex_to_keybytes_hex by auto.
      rewrite Forall_forall in Hf. apply Hf. apply in_map_iff. exists (keybytes_to_hex kb2, v2). auto. }
    apply Hsub; auto.
  - intros kb v Hb. rewrite in_map_iff. split.
    + intros ([k w] & E & Hin). cbn in E. inversion E; subst. apply filter_In in Hin as [Hin Hkeep].
      destruct (Hkeys _ _ Hin) as (kb' & Hb' & -> & -> & Hne).
      rewrite hex_to_keybytes_hex by auto. split; auto. split; auto.
      unfold keep in Hkeep. cbn [fst] in Hkeep. fold sk.
      destruct (kcmp (keybytes_to_hex kb') sk); cbn in Hkeep; congruence.
    + intros (-> & Hne & Hge). exists (keybytes_to_hex kb, m kb). cbn [fst snd].
      rewrite hex_to_keybytes_hex by auto. split; auto. apply filter_In. split.
      * apply (leaves_has n Hc). apply Hr. exists kb. auto.
      * unfold keep. cbn [fst]. fold sk in Hge. destruct (kcmp (keybytes_to_hex kb) sk); cbn; congruence.
Qed.

End WithDb.
