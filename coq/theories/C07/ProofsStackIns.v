(** C07 proofs, part 13: StackTrie.insert maintains the view relation (work in progress). *)
From Coq Require Import List ZArith NArith Arith Bool Lia.
From Kardia Require Import C07.Model C07.ProofsBase C07.ProofsMap C07.ProofsCanon C07.ProofsEnc
     C07.ProofsCache C07.ProofsRlp C07.ProofsCodec C07.ProofsStack C07.ProofsCommit C07.ProofsReopen
     C07.ProofsProof C07.ProofsBuild.
Import ListNotations.

(* ------------------------------------------------------------------ list surgery *)

Lemma set_nth_repeat {A} (d a : A) n i : i < n ->
  set_nth i a (repeat d n) = repeat d i ++ a :: repeat d (n - i - 1).
Proof.
  revert i. induction n as [|n IH]; intros [|i] Hi; try lia; cbn [repeat set_nth app].
  - replace (S n - 0 - 1) with n by lia. reflexivity.
  - rewrite IH by lia. replace (S n - S i - 1) with (n - i - 1) by lia. reflexivity.
Qed.

Lemma set_nth_app_r {A} (l1 l2 : list A) i a :
  set_nth (length l1 + i) a (l1 ++ l2) = l1 ++ set_nth i a l2.
Proof. induction l1 as [|x l1 IH]; cbn; auto. rewrite IH. reflexivity. Qed.

Lemma set_nth_app_l {A} (l1 l2 : list A) i a : i < length l1 ->
  set_nth i a (l1 ++ l2) = set_nth i a l1 ++ l2.
Proof.
  revert i. induction l1 as [|x l1 IH]; intros [|i] Hi; cbn in *; try lia; auto. rewrite IH by lia. reflexivity.
Qed.

Lemma set_nth_mid {A} (l1 l2 : list A) x a : set_nth (length l1) a (l1 ++ x :: l2) = l1 ++ a :: l2.
Proof. induction l1 as [|y l1 IH]; cbn; auto. rewrite IH. reflexivity. Qed.

Lemma nth_app_mid {A} (l1 l2 : list A) x d : nth (length l1) (l1 ++ x :: l2) d = x.
Proof. induction l1; cbn; auto. Qed.

Lemma nth_repeat_d {A} (d : A) n i : nth i (repeat d n) d = d.
Proof. revert i. induction n; destruct i; cbn; auto. Qed.

(** two children in an otherwise empty row: the lower one first *)
Lemma two_in_row {A} (d a b : A) n x y : x < y -> y < n ->
  set_nth y b (set_nth x a (repeat d n)) =
  (repeat d x ++ a :: repeat d (y - x - 1)) ++ b :: repeat d (n - y - 1).
Proof.
  intros Hxy Hy. rewrite set_nth_repeat by lia.
  replace y with (length (repeat d x) + (y - x)) at 1 by (rewrite repeat_length; lia).
  rewrite set_nth_app_r. replace (y - x) with (S (y - x - 1)) at 1 by lia. cbn [set_nth].
  rewrite set_nth_repeat by lia. rewrite <- app_assoc. cbn [app].
  replace (n - x - 1 - (y - x - 1) - 1) with (n - y - 1) by lia. reflexivity.
Qed.

(* ------------------------------------------------------------------ ordered, prefix-free keys *)

(** [lt_pf a b]: the (terminated) keys diverge at a position where both carry a nibble, and
    a's nibble is the smaller one: a sorts before b and neither is a prefix of the other *)
Definition lt_pf (a b : key) : Prop :=
  exists pre x y ra rb, a = pre ++ x :: ra /\ b = pre ++ y :: rb /\ x < y /\ y < 16.

Lemma lt_pf_cons_inv x a y b : lt_pf (x :: a) (y :: b) -> (x < y /\ y < 16) \/ (x = y /\ lt_pf a b).
Proof.
  intros (pre & x0 & y0 & ra & rb & E1 & E2 & Hlt & Hy). destruct pre as [|p pre]; cbn in E1, E2.
  - inversion E1; inversion E2; subst. auto.
  - inversion E1; inversion E2; subst. right. split; auto. exists pre, x0, y0, ra, rb. auto.
Qed.

Lemma lt_pf_app_inv p a b : lt_pf (p ++ a) (p ++ b) -> lt_pf a b.
Proof.
  induction p as [|x p IH]; cbn; auto. intros Hl. apply lt_pf_cons_inv in Hl as [[X _]|[_ Hl]]; [lia|auto].
Qed.

Lemma lt_pf_nil_l b : ~ lt_pf [] b.
Proof. intros (pre & x & y & ra & rb & E & _). destruct pre; discriminate. Qed.

Lemma lt_pf_nil_r a : ~ lt_pf a [].
Proof. intros (pre & x & y & ra & rb & _ & E & _). destruct pre; discriminate. Qed.

(** diff_index on keys that diverge *)
Lemma diff_index_diverge pre x y a b : x <> y ->
  diff_index (pre ++ x :: a) (pre ++ y :: b) = Some (length pre).
Proof.
  intros Hne. induction pre as [|z pre IH]; cbn [app diff_index length].
  - destruct (Nat.eqb_spec x y); [congruence|reflexivity].
  - rewrite Nat.eqb_refl, IH. reflexivity.
Qed.

Lemma diff_index_prefix sk r : diff_index sk (sk ++ r) = Some (length sk).
Proof. induction sk as [|z sk IH]; cbn [app diff_index length]; auto. rewrite Nat.eqb_refl, IH. reflexivity. Qed.

(** comparing a nibble string [sk] with the new key *)
Lemma lt_pf_compare sk r k :
  nibs sk -> nibs k -> lt_pf (sk ++ r) (k ++ [16]) ->
  (exists k2, k = sk ++ k2 /\ lt_pf r (k2 ++ [16])) \/
  (exists pre x y ra rb, sk = pre ++ x :: ra /\ k = pre ++ y :: rb /\ x < y).
Proof.
  revert k. induction sk as [|z sk IH]; intros k Hs Hk Hl; cbn [app] in *.
  - left. exists k. auto.
  - inversion Hs as [|? ? Hz Hs']; subst. destruct k as [|w k]; cbn [app] in Hl.
    + apply lt_pf_cons_inv in Hl as [[_ X]|[-> _]]; lia.
    + inversion Hk as [|? ? Hw Hk']; subst. apply lt_pf_cons_inv in Hl as [[X _]|[-> Hl]].
      * right. exists [], z, w, sk, k. auto.
      * destruct (IH k Hs' Hk' Hl) as [(k2 & -> & Hl2)|(pre & x & y & ra & rb & -> & -> & Hxy)].
        -- left. exists k2. auto.
        -- right. exists (w :: pre), x, y, ra, rb. auto.
Qed.

Section Ins.
Variable H : bytes -> bytes.
Hypothesis Hlen : forall x, length (H x) = 32.
Variable d : db.

Definition hashed_rel (c : stn) (n : node) : Prop :=
  (c = StNil /\ n = Empty) \/ (is_node' n /\ c = StHashed (sval H n)).

(** the stack trie's state along the rightmost path of the trie *)
Inductive srel : stn -> node -> Prop :=
| SLeaf k v f : srel (StLeaf k v) (Short (k ++ [16]) (Value v) f)
| SExt k c cs g f : srel c (Full cs g) -> srel (StExt k c) (Short k (Full cs g) f)
| SBranch hp live nh nlive f :
    Forall2 hashed_rel hp nh -> srel live nlive -> length hp < 16 ->
    srel (StBranch (hp ++ live :: repeat StNil (15 - length hp)))
         (Full (nh ++ nlive :: repeat Empty (15 - length hp) ++ [Empty]) f).

Lemma srel_node s n : srel s n -> is_node' n.
Proof. destruct 1; exact I. Qed.

Lemma srel_live s n : srel s n ->
  match s with StLeaf _ _ | StExt _ _ | StBranch _ => True | _ => False end.
Proof. destruct 1; exact I. Qed.

Lemma all_rel_nils m : all_rel H (repeat StNil m) (repeat Empty m).
Proof. induction m; cbn; auto. Qed.

Lemma all_rel_app hp nh t1 t2 : Forall2 hashed_rel hp nh -> all_rel H t1 t2 -> all_rel H (hp ++ t1) (nh ++ t2).
Proof.
  induction 1 as [|c x hp nh Hcx Hf IH]; intros Ht; cbn [app all_rel]; auto.
  split; auto. destruct Hcx as [[-> ->]|[Hn ->]]; [reflexivity|]. cbn. auto.
Qed.

Lemma srel_strel s n : srel s n -> strel H s n.
Proof.
  induction 1 as [k v f|k c cs g f Hc IH|hp live nh nlive f Hf Hl IH Hlen'].
  - cbn. eauto.
  - cbn [strel]. exists (Full cs g), f. repeat split; auto.
  - apply strel_branch. exists (nh ++ nlive :: repeat Empty (15 - length hp)), f. split.
    + rewrite <- app_assoc. reflexivity.
    + apply all_rel_app; auto. cbn [all_rel]. split; [|apply all_rel_nils].
      pose proof (srel_live _ _ Hl) as Hlive. pose proof (srel_node _ _ Hl) as Hn.
      destruct live; try tauto; auto.
Qed.

Lemma st_hash_srel s n : srel s n -> st_hash H s = sval H n.
Proof. intros Hs. apply (st_hash_rel H Hlen); [apply srel_strel; auto|eapply srel_node; eauto]. Qed.

Lemma repeat_snoc {A} (x : A) m : repeat x (S m) = repeat x m ++ [x].
Proof. induction m; cbn in *; auto. f_equal. auto. Qed.

(** a freshly split node: the old part (hashed) at [x], the new leaf at [y] *)
Lemma split_srel pre x y old Y liveS X :
  x < y -> y < 16 -> is_node' Y -> old = StHashed (sval H Y) -> srel liveS X ->
  srel (if Nat.eqb (length pre) 0
        then StBranch (set_nth y liveS (set_nth x old st_nil_children))
        else StExt pre (StBranch (set_nth y liveS (set_nth x old st_nil_children))))
       (opt_short pre (branch2 x y Y X)).
Proof.
  intros Hxy Hy HY -> HX.
  assert (Hb : srel (StBranch (set_nth y liveS (set_nth x (StHashed (sval H Y)) st_nil_children)))
                    (branch2 x y Y X)).
  { unfold branch2, st_nil_children, empty_children.
    rewrite (two_in_row StNil (StHashed (sval H Y)) liveS 16 x y) by lia.
    rewrite (two_in_row Empty Y X 17 x y) by lia.
    replace (17 - y - 1) with (S (15 - y)) by lia. rewrite repeat_snoc.
    set (hp := repeat StNil x ++ StHashed (sval H Y) :: repeat StNil (y - x - 1)).
    assert (Ehp : length hp = y) by (unfold hp; rewrite app_length; cbn; rewrite !repeat_length; lia).
    replace (16 - y - 1) with (15 - length hp) by lia. replace (15 - y) with (15 - length hp) by lia.
    apply SBranch; auto; [|lia].
    unfold hp. apply Forall2_app; [|constructor].
    - clear. induction x; cbn; constructor; auto. left; auto.
    - right. auto.
    - clear. induction (y - x - 1); cbn; constructor; auto. left; auto. }
  unfold opt_short, branch2 in *. destruct (Nat.eqb (length pre) 0); auto. constructor. exact Hb.
Qed.

Lemma forall2_length {A B} (R : A -> B -> Prop) l l' : Forall2 R l l' -> length l = length l'.
Proof. induction 1; cbn; auto. Qed.

Definition ord (n : node) (k : key) : Prop := forall k' w, has n k' w -> lt_pf k' (k ++ [16]).

Lemma lt_pf_term_l k2 : nibs k2 -> ~ lt_pf [16] (k2 ++ [16]).
Proof.
  intros Hk Hl. destruct k2 as [|w k2]; cbn [app] in Hl; apply lt_pf_cons_inv in Hl as [[X Y]|[E Hl]]; try lia.
  - eapply lt_pf_nil_l; eauto.
  - inversion Hk; subst. lia.
Qed.

Lemma hash_prev_hp hp rest : Forall (fun c => c = StNil \/ exists v, c = StHashed v) hp ->
  forall i, i <= length hp -> hash_prev H (hp ++ rest) i = hp ++ rest.
Proof.
  intros Hf. induction i as [|i IH]; intros Hi; cbn [hash_prev]; auto.
  assert (Hn : nth i (hp ++ rest) StNil = nth i hp StNil) by (apply app_nth1; lia).
  rewrite Hn. rewrite Forall_forall in Hf.
  destruct (Hf (nth i hp StNil)) as [E|(v & E)]; [apply nth_In; lia| |]; rewrite E; auto. apply IH. lia.
Qed.

Lemma hash_prev_live hp live m :
  match live with StLeaf _ _ | StExt _ _ | StBranch _ => True | _ => False end ->
  forall i, length hp < i -> i <= length hp + m + 1 ->
  hash_prev H (hp ++ live :: repeat StNil m) i = hp ++ StHashed (st_hash H live) :: repeat StNil m.
Proof.
  intros Hlive. induction i as [|i IH]; intros H1 H2; [lia|]. cbn [hash_prev].
  destruct (Nat.eq_dec i (length hp)) as [->|Hne].
  - rewrite nth_app_mid. destruct live; try tauto; apply set_nth_mid.
  - assert (Hn : nth i (hp ++ live :: repeat StNil m) StNil = StNil).
    { rewrite app_nth2 by lia. destruct (i - length hp) as [|q] eqn:E; [lia|]. cbn [nth]. apply nth_repeat_d. }
    rewrite Hn. apply IH; lia.
Qed.

Lemma hashed_forall hp nh : Forall2 hashed_rel hp nh ->
  Forall (fun c => c = StNil \/ exists v, c = StHashed v) hp.
Proof. induction 1 as [|c x hp nh Hcx Hf IH]; constructor; auto. destruct Hcx as [[-> _]|[_ ->]]; eauto. Qed.

Lemma leafn_value rest v : leafn (rest ++ [16]) (Value v) = Short (rest ++ [16]) (Value v) newflag.
Proof. unfold leafn. destruct (rest ++ [16]) eqn:E; [destruct rest; discriminate|reflexivity]. Qed.

Lemma st_insert_srel (v : bytes) : v <> [] ->
  forall fuel s n k, srel s n -> canon n -> nibs k -> ord n k -> length k < fuel ->
  exists s' n', st_insert H fuel s k v = Some s' /\
    (forall fT, length (k ++ [16]) < fT -> insert fT d n (k ++ [16]) (Value v) = Ok (true, n')) /\
    srel s' n'.
Proof.
  intros Hv. induction fuel as [|f IH]; intros s n k Hs Hc Hk Ho Hf; [lia|].
  destruct Hs as [sk sv fl|sk c cs g fl Hsc|hp live nh nlive fl Hhp Hlive Hlen'].
  - (* leaf *)
    assert (Hnsk : nibs sk).
    { inversion Hc as [|p ? ? Hp _ E| |]; subst. apply app_inj_tail in E as [-> _]. auto. }
    assert (Hl : lt_pf (sk ++ [16]) (k ++ [16])).
    { rewrite <- (app_nil_r (sk ++ [16])). apply (Ho ((sk ++ [16]) ++ []) sv). constructor. constructor. }
    destruct (lt_pf_compare sk [16] k Hnsk Hk Hl) as [(k2 & -> & Hl2)|(pre & x & y & ra & rb & -> & -> & Hxy)].
    { exfalso. apply (lt_pf_term_l k2); auto. apply nibs_app in Hk. tauto. }
    assert (Hy : y < 16). { apply nibs_app in Hk as [_ Hk2]. inversion Hk2; auto. }
    cbn [st_insert]. rewrite (diff_index_diverge pre x y ra rb) by lia.
    assert (Hleb : Nat.leb (length (pre ++ x :: ra)) (length pre) = false).
    { apply Nat.leb_gt. rewrite app_length. cbn. lia. }
    rewrite Hleb, !nth_error_app_mid, !skipn_app_mid, firstn_app_len.
    assert (Hold : StHashed (st_hash H (StLeaf ra sv)) =
                   StHashed (sval H (Short (ra ++ [16]) (Value sv) newflag))).
    { rewrite (st_hash_srel (StLeaf ra sv) (Short (ra ++ [16]) (Value sv) newflag) (SLeaf ra sv newflag)). reflexivity. }
    pose proof (split_srel pre x y _ (Short (ra ++ [16]) (Value sv) newflag) (StLeaf rb v)
                  (Short (rb ++ [16]) (Value v) newflag) Hxy Hy I Hold (SLeaf rb v newflag)) as Hsp.
    assert (Hins : forall fT, length ((pre ++ y :: rb) ++ [16]) < fT ->
              insert fT d (Short ((pre ++ x :: ra) ++ [16]) (Value sv) fl) ((pre ++ y :: rb) ++ [16]) (Value v) =
              Ok (true, opt_short pre (branch2 x y (Short (ra ++ [16]) (Value sv) newflag)
                                                   (Short (rb ++ [16]) (Value v) newflag)))).
    { intros fT HfT. destruct fT as [|fT]; [lia|].
      rewrite <- !app_assoc. cbn [app]. rewrite insert_short_diverge by lia. rewrite !leafn_value. reflexivity. }
    destruct (Nat.eqb (length pre) 0); eexists _, _; (split; [reflexivity|]); split; eauto.
  - (* extension *)
    inversion Hc as [| |? ? ? ? Hne Hnsk Hcf|]; subst.
    destruct (canon_has_key _ Hcf) as (r0 & w0 & Hh0); [discriminate|].
    assert (Hl : lt_pf (sk ++ r0) (k ++ [16])) by (apply (Ho _ w0); constructor; auto).
    destruct (lt_pf_compare sk r0 k Hnsk Hk Hl) as [(k2 & -> & Hl2)|(pre & x & y & ra & rb & -> & -> & Hxy)].
    + (* descend *)
      apply nibs_app in Hk as [_ Hk2].
      destruct (IH c (Full cs g) k2 Hsc Hcf Hk2) as (s2 & n2 & E1 & E2 & Hr2).
      { intros r w Hh. apply (lt_pf_app_inv sk). rewrite app_assoc. apply (Ho _ w). constructor; auto. }
      { rewrite app_length in Hf. destruct sk; [congruence|cbn in Hf; lia]. }
      cbn [st_insert]. rewrite diff_index_prefix, Nat.eqb_refl, skipn_app_len, E1.
      (* the child stays a branch *)
      destruct (insert_spec d v Hv (S (length (k2 ++ [16]))) (Full cs g) (k2 ++ [16]) Hcf
                  (wfk_snoc _ Hk2) (Nat.lt_succ_diag_r _)) as (b & n3 & E3 & _ & _ & _ & Hfull & _).
      rewrite (E2 _ (Nat.lt_succ_diag_r _)) in E3. inversion E3; subst b n3.
      destruct (Hfull _ _ eq_refl) as (cs' & g' & ->).
      eexists _, _. split; [reflexivity|]. split; [|constructor; exact Hr2].
      intros fT HfT. destruct fT as [|fT]; [lia|]. rewrite <- app_assoc.
      rewrite insert_short_match by auto. rewrite E2; [reflexivity|].
      rewrite !app_length in HfT. rewrite app_length. destruct sk; [congruence|cbn in *; lia].
    + (* split the extension *)
      assert (Hy : y < 16). { apply nibs_app in Hk as [_ Hk2]. inversion Hk2; auto. }
      cbn [st_insert]. rewrite (diff_index_diverge pre x y ra rb) by lia.
      assert (Hneq : Nat.eqb (length pre) (length (pre ++ x :: ra)) = false).
      { apply Nat.eqb_neq. rewrite app_length. cbn. lia. }
      rewrite Hneq, !nth_error_app_mid, !skipn_app_mid, firstn_app_len.
      assert (HY : is_node' (leafn ra (Full cs g))) by (destruct ra; exact I).
      assert (Hold : (if Nat.ltb (length pre) (length (pre ++ x :: ra) - 1)
                      then StHashed (st_hash H (StExt ra c)) else StHashed (st_hash H c)) =
                     StHashed (sval H (leafn ra (Full cs g)))).
      { assert (Hlt : Nat.ltb (length pre) (length (pre ++ x :: ra) - 1) = negb (Nat.eqb (length ra) 0)).
        { rewrite app_length. cbn [length]. destruct ra; cbn [length Nat.eqb negb].
          - apply Nat.ltb_ge. lia.
          - apply Nat.ltb_lt. lia. }
        rewrite Hlt. destruct ra as [|a ra]; cbn [length Nat.eqb negb leafn]; f_equal.
        - apply st_hash_srel; auto.
        - apply (st_hash_srel (StExt (a :: ra) c) (Short (a :: ra) (Full cs g) newflag)). constructor; auto. }
      pose proof (split_srel pre x y _ (leafn ra (Full cs g)) (StLeaf rb v)
                    (Short (rb ++ [16]) (Value v) newflag) Hxy Hy HY Hold (SLeaf rb v newflag)) as Hsp.
      assert (Hins : forall fT, length ((pre ++ y :: rb) ++ [16]) < fT ->
                insert fT d (Short (pre ++ x :: ra) (Full cs g) fl) ((pre ++ y :: rb) ++ [16]) (Value v) =
                Ok (true, opt_short pre (branch2 x y (leafn ra (Full cs g))
                                                     (Short (rb ++ [16]) (Value v) newflag)))).
      { intros fT HfT. destruct fT as [|fT]; [lia|].
        rewrite <- app_assoc. cbn [app]. rewrite insert_short_diverge by lia. rewrite leafn_value. reflexivity. }
      destruct (Nat.eqb (length pre) 0); eexists _, _; (split; [reflexivity|]); split; eauto.
  - (* branch *)
    set (j := length hp) in *.
    assert (Hnh : length nh = j) by (symmetry; eapply forall2_length; eauto).
    set (ncs := nh ++ nlive :: repeat Empty (15 - j) ++ [Empty]) in *.
    inversion Hc as [| | |? ? Hl17 Hch H16 Hcnt]; subst.
    assert (Hnj : nth_error ncs j = Some nlive) by (unfold ncs; rewrite <- Hnh; apply nth_error_app_mid).
    assert (Hcl : canon nlive) by (apply (Hch j); auto).
    pose proof (srel_node _ _ Hlive) as Hnl.
    destruct (canon_has_key _ Hcl) as (r0 & w0 & Hh0); [destruct nlive; cbn in Hnl; try tauto; discriminate|].
    assert (Hl : lt_pf (j :: r0) (k ++ [16])) by (apply (Ho _ w0); econstructor; eauto).
    destruct k as [|idx kt].
    { exfalso. cbn in Hl. apply lt_pf_cons_inv in Hl as [[_ X]|[X _]]; lia. }
    inversion Hk as [|? ? Hidx Hkt]; subst. cbn [app] in Hl.
    cbn [st_insert]. destruct (Nat.leb_spec 16 idx) as [X|_]; [lia|].
    apply lt_pf_cons_inv in Hl as [[Hji _]|[<- Hl2]].
    + (* a new child to the right: the live child is hashed *)
      rewrite (hash_prev_live hp live (15 - j) (srel_live _ _ Hlive) idx) by (fold j; lia).
      set (q := idx - j - 1).
      set (Hd := StHashed (st_hash H live)).
      assert (Enth : nth idx (hp ++ Hd :: repeat StNil (15 - j)) StNil = StNil).
      { rewrite app_nth2 by (fold j; lia). fold j. replace (idx - j) with (S q) by (unfold q; lia).
        cbn [nth]. apply nth_repeat_d. }
      rewrite Enth.
      assert (Ecs : set_nth idx (StLeaf kt v) (hp ++ Hd :: repeat StNil (15 - j)) =
                    (hp ++ Hd :: repeat StNil q) ++ StLeaf kt v :: repeat StNil (15 - idx)).
      { replace idx with (length hp + S q) at 1 by (fold j; unfold q; lia).
        rewrite set_nth_app_r. cbn [set_nth]. rewrite set_nth_repeat by (unfold q; lia).
        rewrite <- app_assoc. cbn [app]. replace (15 - j - q - 1) with (15 - idx) by (unfold q; lia). reflexivity. }
      set (X := Short (kt ++ [16]) (Value v) newflag).
      assert (Encs : set_nth idx X ncs = (nh ++ nlive :: repeat Empty q) ++ X :: repeat Empty (15 - idx) ++ [Empty]).
      { unfold ncs. replace idx with (length nh + S q) at 1 by (unfold q; lia).
        rewrite set_nth_app_r. cbn [set_nth]. rewrite set_nth_app_l by (rewrite repeat_length; unfold q; lia).
        rewrite set_nth_repeat by (unfold q; lia).
        rewrite <- !app_assoc. cbn [app]. replace (15 - j - q - 1) with (15 - idx) by (unfold q; lia). reflexivity. }
      eexists _, _. split; [reflexivity|]. split.
      * intros fT HfT. destruct fT as [|fT]; [lia|]. cbn [app]. rewrite insert_full_eq.
        assert (Hni : nth_error ncs idx = Some Empty).
        { unfold ncs. replace idx with (length nh + S q) by (unfold q; lia).
          rewrite nth_error_app2 by lia. replace (length nh + S q - length nh) with (S q) by lia. cbn [nth_error].
          rewrite nth_error_app1 by (rewrite repeat_length; unfold q; lia). apply nth_error_repeat. unfold q; lia. }
        rewrite Hni. destruct fT as [|fT]; [cbn in HfT; lia|].
        assert (Ei : insert (S fT) d Empty (kt ++ [16]) (Value v) = Ok (true, X)).
        { unfold X. destruct (kt ++ [16]) eqn:E; [destruct kt; discriminate|reflexivity]. }
        rewrite Ei. cbn [rbind fst snd]. rewrite Encs. reflexivity.
      * rewrite Ecs.
        assert (Ehp' : length (hp ++ Hd :: repeat StNil q) = idx).
        { rewrite app_length. cbn [length]. rewrite repeat_length. fold j. unfold q. lia. }
        replace (15 - idx) with (15 - length (hp ++ Hd :: repeat StNil q)) by (rewrite Ehp'; reflexivity).
        apply SBranch; [|constructor|lia].
        apply Forall2_app; auto. constructor.
        -- right. split; auto. unfold Hd. f_equal. apply st_hash_srel; auto.
        -- clear. induction q; cbn; constructor; auto. left; auto.
    + (* descend into the live child *)
      rewrite (hash_prev_hp hp _ (hashed_forall _ _ Hhp) j (le_n _)).
      unfold j at 1. rewrite nth_app_mid.
      destruct (IH live nlive kt Hlive Hcl Hkt) as (s2 & n2 & E1 & E2 & Hr2).
      { intros r w Hh. assert (Hx : lt_pf (j :: r) (j :: kt ++ [16])) by (apply (Ho _ w); econstructor; eauto).
        apply lt_pf_cons_inv in Hx as [[X _]|[_ Hx]]; [lia|auto]. }
      { cbn in Hf. lia. }
      exists (StBranch (hp ++ s2 :: repeat StNil (15 - j))),
             (Full (nh ++ n2 :: repeat Empty (15 - j) ++ [Empty]) newflag).
      split.
      { pose proof (srel_live _ _ Hlive) as Hlv.
        destruct live; try tauto; rewrite E1; unfold j; rewrite set_nth_mid; reflexivity. }
      split.
      * intros fT HfT. destruct fT as [|fT]; [lia|]. cbn [app]. rewrite insert_full_eq, Hnj.
        rewrite E2 by (cbn in HfT; lia). cbn [rbind fst snd]. unfold ncs. rewrite <- Hnh, set_nth_mid. reflexivity.
      * apply SBranch; auto.
Qed.


(* ------------------------------------------------------------------ a whole sorted run *)

Definition hexkv (kv : bytes * bytes) : key * bytes := (keybytes_to_hex (fst kv), snd kv).

Fixpoint sorted_pf (l : list (bytes * bytes)) : Prop :=
  match l with
  | [] => True
  | a :: t => Forall (fun b => lt_pf (keybytes_to_hex (fst a)) (keybytes_to_hex (fst b))) t /\ sorted_pf t
  end.

Definition state_rel (s : stn) (n : node) : Prop := (s = StEmpty /\ n = Empty) \/ srel s n.

Lemma hex_split kb : is_bytes kb -> exists k, keybytes_to_hex kb = k ++ [16] /\ nibs k.
Proof. intros Hb. apply wfk_split. apply keybytes_to_hex_wfk; auto. Qed.

Lemma lt_pf_irrefl a : ~ lt_pf a a.
Proof.
  intros (pre & x & y & ra & rb & E1 & E2 & Hxy & _). rewrite E1 in E2. apply app_inv_head in E2.
  inversion E2. lia.
Qed.

Lemma st_update_srel s n kb v :
  state_rel s n -> canon n -> is_bytes kb -> v <> [] ->
  (forall k' w, has n k' w -> lt_pf k' (keybytes_to_hex kb)) ->
  exists s' n', st_update H s kb v = Some s' /\ trie_update d n kb v = Ok n' /\
                srel s' n' /\ canon n' /\ ins_spec n n' (keybytes_to_hex kb) v.
Proof.
  intros Hst Hc Hb Hv Hord. destruct (hex_split kb Hb) as (k & Ek & Hk).
  unfold st_update, trie_update. destruct v as [|v0 vt]; [congruence|].
  set (v := v0 :: vt) in *. rewrite Ek, removelast_last.
  destruct (insert_spec d v Hv (fuel_of (k ++ [16])) n (k ++ [16]) Hc (wfk_snoc _ Hk) (fuel_of_gt _))
    as (b & n1 & Ei & Hc1 & _ & _ & _ & Hs1).
  destruct Hst as [[-> ->]|Hs].
  - exists (StLeaf k v), (Short (k ++ [16]) (Value v) newflag).
    assert (Ei2 : insert (fuel_of (k ++ [16])) d Empty (k ++ [16]) (Value v) =
                  Ok (true, Short (k ++ [16]) (Value v) newflag)).
    { unfold fuel_of. destruct (k ++ [16]) eqn:E; [destruct k; discriminate|].
      replace (2 * length (n :: l) + 4) with (S (2 * length (n :: l) + 3)) by lia. reflexivity. }
    rewrite Ei2 in Ei. inversion Ei; subst b n1.
    split; [replace (length k + 2) with (S (length k + 1)) by lia; reflexivity|].
    split; [rewrite Ei2; reflexivity|]. split; [constructor|]. split; auto.
  - destruct (st_insert_srel v Hv (length k + 2) s n k Hs Hc Hk) as (s' & n' & E1 & E2 & Hr).
    { intros k' w Hh. rewrite <- Ek. eapply Hord; eauto. }
    { lia. }
    rewrite (E2 _ (fuel_of_gt _)) in Ei. inversion Ei; subst b n1.
    exists s', n'. split; auto. split; [rewrite (E2 _ (fuel_of_gt _)); reflexivity|]. auto.
Qed.

Lemma in_hexkv k' w l : In (k', w) (map hexkv l) <-> exists kb', In (kb', w) l /\ k' = keybytes_to_hex kb'.
Proof.
  rewrite in_map_iff. split.
  - intros ([kb' v'] & E & Hin). unfold hexkv in E. cbn in E. inversion E; subst. eauto.
  - intros (kb' & Hin & ->). exists (kb', w). auto.
Qed.

Lemma st_updates_srel : forall rest done s n,
  state_rel s n -> canon n ->
  (forall k' w, has n k' w <-> In (k', w) (map hexkv done)) ->
  Forall (fun kv => is_bytes (fst kv) /\ snd kv <> []) rest ->
  (forall a b, In a done -> In b rest -> lt_pf (keybytes_to_hex (fst a)) (keybytes_to_hex (fst b))) ->
  sorted_pf rest ->
  exists s' n', st_updates H s rest = Some s' /\ trie_updates d n rest = Ok n' /\
                state_rel s' n' /\ canon n' /\
                (forall k' w, has n' k' w <-> In (k', w) (map hexkv (done ++ rest))).
Proof.
  induction rest as [|[kb v] rest IH]; intros done s n Hst Hc Hh Hok Hlt Hs.
  - exists s, n. rewrite app_nil_r. cbn. auto.
  - inversion Hok as [|? ? [Hb Hv] Hok']; subst. cbn [fst snd] in *. destruct Hs as [Hs1 Hs2].
    destruct (st_update_srel s n kb v Hst Hc Hb Hv) as (s1 & n1 & E1 & E2 & Hr1 & Hc1 & Hi1).
    { intros k' w Hk'. apply Hh in Hk'. apply in_hexkv in Hk' as (kb' & Hin & ->).
      apply (Hlt (kb', w) (kb, v)); [auto|left; auto]. }
    destruct (IH (done ++ [(kb, v)]) s1 n1 (or_intror Hr1) Hc1) as (s' & n' & F1 & F2 & F3 & F4 & F5); auto.
    + intros k' w. rewrite (Hi1 k' w), map_app, in_app_iff, Hh. cbn [map hexkv fst snd In]. split.
      * intros [[-> ->]|[_ Hin]]; auto.
      * intros [Hin|[E|[]]]; [|inversion E; subst; auto].
        right. split; auto. intros Ek'. apply in_hexkv in Hin as (kb' & Hin & ->).
        apply (lt_pf_irrefl (keybytes_to_hex kb)). rewrite <- Ek' at 1.
        apply (Hlt (kb', w) (kb, v)); [auto|left; auto].
    + intros a b Ha Hb'. apply in_app_iff in Ha as [Ha|[<-|[]]].
      * apply Hlt; [auto|right; auto].
      * rewrite Forall_forall in Hs1. apply Hs1; auto.
    + exists s', n'. cbn [st_updates trie_updates]. rewrite E1, E2. cbn [rbind]. split; auto. split; auto.
      split; auto. split; auto. intros k' w. rewrite F5, <- app_assoc. reflexivity.
Qed.

End Ins.

Section Top.
Variable H : bytes -> bytes.
Hypothesis Hlen : forall x, length (H x) = 32.

Lemma build_caches : forall fuel m root, caches_ok H root (build fuel m).
Proof.
  induction fuel as [|f IH]; intros m root; [exact I|].
  destruct m as [|[k v] [|e2 t]].
  - exact I.
  - cbn [build]. destruct k; [exact I|]. apply caches_ok_fresh_short. exact I.
  - rewrite build_two. cbv zeta. destruct (common_prefix_all _).
    + apply caches_ok_fresh_full. apply all_ok_forall, Forall_forall. intros c Hin.
      apply in_map_iff in Hin as (i & <- & _). apply IH.
    + apply caches_ok_fresh_short. apply IH.
Qed.

Lemma sorted_nodup l : sorted_pf l -> NoDup (map fst (map hexkv l)).
Proof.
  induction l as [|a l IH]; cbn [sorted_pf map fst]; [constructor|]. intros [Hf Hs].
  constructor; auto. intros Hin. apply in_map_iff in Hin as ([k w] & E & Hin). cbn in E. subst k.
  apply in_hexkv in Hin as (kb' & Hin & E). rewrite Forall_forall in Hf.
  specialize (Hf _ Hin). cbn [fst] in Hf. unfold hexkv in E. cbn [fst] in E. rewrite E in Hf.
  eapply lt_pf_irrefl; eauto.
Qed.

(** streaming trie = trie: for keys fed in strictly increasing order, none a prefix of another
    ([sorted_pf]: consecutive and non-consecutive keys diverge at a proper nibble, the earlier
    key carrying the smaller one), and non-empty values, StackTrie does not panic and its
    Hash is the root of the canonical trie of the same content *)
Theorem stack_equals kvs :
  Forall (fun kv => is_bytes (fst kv) /\ snd kv <> []) kvs -> sorted_pf kvs ->
  stack_root H kvs = Some (build_root H kvs).
Proof.
  intros Hok Hs.
  destruct (st_updates_srel H Hlen [] kvs [] StEmpty Empty) as (s' & n' & F1 & F2 & F3 & F4 & F5); auto.
  { left; auto. } { constructor. } { intros k' w. cbn. rewrite has_empty. tauto. } { intros a b []. }
  cbn [app] in F5. unfold stack_root. rewrite F1. f_equal.
  destruct F3 as [[-> ->]|Hr].
  - assert (kvs = []) as ->.
    { destruct kvs as [|[kb v] t]; auto. exfalso.
      assert (Hx : has Empty (keybytes_to_hex kb) v) by (apply F5; left; reflexivity). inversion Hx. }
    unfold st_root. cbn [st_hash]. unfold empty_root. rewrite (nlen_H H Hlen). reflexivity.
  - rewrite (st_root_rel H Hlen s' n' (srel_strel H _ _ Hr) (srel_node H _ _ Hr)).
    unfold build_root. change (map (fun kv => (keybytes_to_hex (fst kv), snd kv)) kvs) with (map hexkv kvs).
    set (m' := map hexkv kvs) in *. set (B := build (build_fuel m') m').
    assert (Ee : erase n' = erase B) by (apply build_canonical; auto; apply sorted_nodup; auto).
    assert (Hcb : canon B) by (apply (canon_same_erase n' B); auto).
    assert (HneB : B <> Empty).
    { intros X. rewrite X in Ee. cbn in Ee. apply erase_empty in Ee. pose proof (srel_node H _ _ Hr) as Hn.
      rewrite Ee in Hn. exact Hn. }
    rewrite (root_hash_eq H B Hcb HneB (build_caches _ _ true)).
    rewrite (cenc_erase H n' B Ee). reflexivity.
Qed.

End Top.

(* ------------------------------------------------------------------ the order on byte keys *)

(** [blt a b]: at the first position where the byte strings differ, both have a byte and a's is
    smaller — a sorts strictly before b (bytes.Compare) and neither is a prefix of the other *)
Definition blt (a b : bytes) : Prop :=
  exists pre x y ra rb, a = pre ++ x :: ra /\ b = pre ++ y :: rb /\ (x < y)%N.

Fixpoint sorted_bytes (l : list (bytes * bytes)) : Prop :=
  match l with
  | [] => True
  | a :: t => Forall (fun b => blt (fst a) (fst b)) t /\ sorted_bytes t
  end.

Lemma hex_nonempty t : keybytes_to_hex t <> [].
Proof. destruct t; discriminate. Qed.

Lemma hex_app pre t :
  keybytes_to_hex (pre ++ t) = removelast (keybytes_to_hex pre) ++ keybytes_to_hex t.
Proof.
  induction pre as [|a pre IH]; [reflexivity|]. cbn [app keybytes_to_hex]. rewrite IH.
  pose proof (hex_nonempty pre) as Hne. destruct (keybytes_to_hex pre) eqn:E; [congruence|]. reflexivity.
Qed.

Lemma blt_lt_pf a b : is_bytes a -> is_bytes b -> blt a b ->
  lt_pf (keybytes_to_hex a) (keybytes_to_hex b).
Proof.
  intros Ha Hb (pre & x & y & ra & rb & -> & -> & Hxy).
  apply Forall_app in Ha as [_ Ha]. apply Forall_app in Hb as [_ Hb].
  inversion Ha as [|? ? Hx _]; inversion Hb as [|? ? Hy _]; subst.
  rewrite !hex_app. cbn [keybytes_to_hex]. set (P := removelast (keybytes_to_hex pre)).
  assert (By : (y / 16 < 16)%N) by (apply N.div_lt_upper_bound; lia).
  assert (Bm : (y mod 16 < 16)%N) by (apply N.mod_lt; lia).
  assert (Hle : (x / 16 <= y / 16)%N) by (apply N.div_le_mono; lia).
  destruct (N.lt_ge_cases (x / 16) (y / 16)) as [Hd|Hd].
  - exists P, (N.to_nat (x / 16)), (N.to_nat (y / 16)), (N.to_nat (x mod 16) :: keybytes_to_hex ra),
           (N.to_nat (y mod 16) :: keybytes_to_hex rb). repeat split; auto; lia.
  - assert (Heq : (x / 16 = y / 16)%N) by lia.
    exists (P ++ [N.to_nat (x / 16)]), (N.to_nat (x mod 16)), (N.to_nat (y mod 16)),
           (keybytes_to_hex ra), (keybytes_to_hex rb).
    assert (Hm : (x mod 16 < y mod 16)%N).
    { pose proof (N.div_mod x 16). pose proof (N.div_mod y 16). lia. }
    rewrite <- !app_assoc. cbn [app]. rewrite Heq. repeat split; auto; lia.
Qed.

Lemma sorted_bytes_pf l : Forall (fun kv => is_bytes (fst kv) /\ snd kv <> []) l ->
  sorted_bytes l -> sorted_pf l.
Proof.
  induction l as [|a l IH]; cbn [sorted_bytes sorted_pf]; auto. intros Hok [Hf Hs].
  inversion Hok as [|? ? [Ha _] Hok']; subst. split; auto.
  rewrite Forall_forall in *. intros b Hin. apply blt_lt_pf; auto. apply (Hok' b Hin).
Qed.
