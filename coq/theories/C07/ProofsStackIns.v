(** C07 proofs, part 13: StackTrie.insert maintains the view relation (work in progress). *)
From Coq Require Import List ZArith NArith Arith Bool Lia.
From Kardia Require Import C07.Model C07.ProofsBase C07.ProofsMap C07.ProofsCanon C07.ProofsEnc
     C07.ProofsCache C07.ProofsRlp C07.ProofsCodec C07.ProofsStack.
Import ListNotations.

(* ------------------------------------------------------------------ list surgery *)

Lemma set_nth_repeat {A} (d a : A) n i : i < n ->
  set_nth i a (repeat d n) = repeat d i ++ a :: repeat d (n - i - 1).
Proof.
  revert i. induction n as [|n IH]; intros [|i] Hi; try lia; cbn [repeat set_nth app].
  - replace (S n - 0 - 1) with n by lia. reflexivity.
  - rewrite IH by lia. replace (S n - S i - 1) with (n - i - 1) by lia. reflexivity.
Qed.

Lemma set_nth_app_r {A} (l1 l2 : list A) i a :
  set_nth (length l1 + i) a (l1 ++ l2) = l1 ++ set_nth i a l2.
Proof. induction l1 as [|x l1 IH]; cbn; auto. rewrite IH. reflexivity. Qed.

Lemma set_nth_app_l {A} (l1 l2 : list A) i a : i < length l1 ->
  set_nth i a (l1 ++ l2) = set_nth i a l1 ++ l2.
Proof.
  revert i. induction l1 as [|x l1 IH]; intros [|i] Hi; cbn in *; try lia; auto. rewrite IH by lia. reflexivity.
Qed.

Lemma nth_app_mid {A} (l1 l2 : list A) x d : nth (length l1) (l1 ++ x :: l2) d = x.
Proof. induction l1; cbn; auto. Qed.

Lemma nth_repeat_d {A} (d : A) n i : nth i (repeat d n) d = d.
Proof. revert i. induction n; destruct i; cbn; auto. Qed.

(** two children in an otherwise empty row: the lower one first *)
Lemma two_in_row {A} (d a b : A) n x y : x < y -> y < n ->
  set_nth y b (set_nth x a (repeat d n)) =
  (repeat d x ++ a :: repeat d (y - x - 1)) ++ b :: repeat d (n - y - 1).
Proof.
  intros Hxy Hy. rewrite set_nth_repeat by lia.
  replace y with (length (repeat d x) + (y - x)) at 1 by (rewrite repeat_length; lia).
  rewrite set_nth_app_r. replace (y - x) with (S (y - x - 1)) at 1 by lia. cbn [set_nth].
  rewrite set_nth_repeat by lia. rewrite <- app_assoc. cbn [app].
  replace (n - x - 1 - (y - x - 1) - 1) with (n - y - 1) by lia. reflexivity.
Qed.

(* ------------------------------------------------------------------ ordered, prefix-free keys *)

(** [lt_pf a b]: the (terminated) keys diverge at a position where both carry a nibble, and
    a's nibble is the smaller one: a sorts before b and neither is a prefix of the other *)
Definition lt_pf (a b : key) : Prop :=
  exists pre x y ra rb, a = pre ++ x :: ra /\ b = pre ++ y :: rb /\ x < y /\ y < 16.

Lemma lt_pf_cons_inv x a y b : lt_pf (x :: a) (y :: b) -> (x < y /\ y < 16) \/ (x = y /\ lt_pf a b).
Proof.
  intros (pre & x0 & y0 & ra & rb & E1 & E2 & Hlt & Hy). destruct pre as [|p pre]; cbn in E1, E2.
  - inversion E1; inversion E2; subst. auto.
  - inversion E1; inversion E2; subst. right. split; auto. exists pre, x0, y0, ra, rb. auto.
Qed.

Lemma lt_pf_app_inv p a b : lt_pf (p ++ a) (p ++ b) -> lt_pf a b.
Proof.
  induction p as [|x p IH]; cbn; auto. intros Hl. apply lt_pf_cons_inv in Hl as [[X _]|[_ Hl]]; [lia|auto].
Qed.

Lemma lt_pf_nil_l b : ~ lt_pf [] b.
Proof. intros (pre & x & y & ra & rb & E & _). destruct pre; discriminate. Qed.

Lemma lt_pf_nil_r a : ~ lt_pf a [].
Proof. intros (pre & x & y & ra & rb & _ & E & _). destruct pre; discriminate. Qed.

(** diff_index on keys that diverge *)
Lemma diff_index_diverge pre x y a b : x <> y ->
  diff_index (pre ++ x :: a) (pre ++ y :: b) = Some (length pre).
Proof.
  intros Hne. induction pre as [|z pre IH]; cbn [app diff_index length].
  - destruct (Nat.eqb_spec x y); [congruence|reflexivity].
  - rewrite Nat.eqb_refl, IH. reflexivity.
Qed.

Lemma diff_index_prefix sk r : diff_index sk (sk ++ r) = Some (length sk).
Proof. induction sk as [|z sk IH]; cbn [app diff_index length]; auto. rewrite Nat.eqb_refl, IH. reflexivity. Qed.

(** comparing a nibble string [sk] with the new key *)
Lemma lt_pf_compare sk r k :
  nibs sk -> nibs k -> lt_pf (sk ++ r) (k ++ [16]) ->
  (exists k2, k = sk ++ k2 /\ lt_pf r (k2 ++ [16])) \/
  (exists pre x y ra rb, sk = pre ++ x :: ra /\ k = pre ++ y :: rb /\ x < y).
Proof.
  revert k. induction sk as [|z sk IH]; intros k Hs Hk Hl; cbn [app] in *.
  - left. exists k. auto.
  - inversion Hs as [|? ? Hz Hs']; subst. destruct k as [|w k]; cbn [app] in Hl.
    + apply lt_pf_cons_inv in Hl as [[_ X]|[-> _]]; lia.
    + inversion Hk as [|? ? Hw Hk']; subst. apply lt_pf_cons_inv in Hl as [[X _]|[-> Hl]].
      * right. exists [], z, w, sk, k. auto.
      * destruct (IH k Hs' Hk' Hl) as [(k2 & -> & Hl2)|(pre & x & y & ra & rb & -> & -> & Hxy)].
        -- left. exists k2. auto.
        -- right. exists (w :: pre), x, y, ra, rb. auto.
Qed.
