(** C07 proofs, part 10: Merkle proofs.  VerifyProof against the root hash of a canonical trie,
    with the proof presented as a list of blobs that the verifier keys by their own hash,
    can only return what the trie holds — or a Keccak collision is exhibited. *)
From Coq Require Import List ZArith NArith Arith Bool Lia.
From Kardia Require Import C07.Model C07.ProofsBase C07.ProofsMap C07.ProofsCanon C07.ProofsEnc
     C07.ProofsCache C07.ProofsRlp C07.ProofsCodec C07.ProofsCommit C07.ProofsReopen.
Import ListNotations.

Lemma pget_short_eq nk c fl k :
  pget (Short nk c fl) k = if short_cond nk k then Ok ([], Empty) else pget c (skipn (length nk) k).
Proof. reflexivity. Qed.

Lemma pget_full_eq cs fl i kt :
  pget (Full cs fl) (i :: kt) = match nth_error cs i with Some c => pget c kt | None => Crash end.
Proof.
  cbn [pget]. revert i. induction cs as [|c cs IH]; intros [|i]; cbn [nth_error]; auto.
Qed.

(** [desc c k c' rest]: following key [k] from node [c] passes through node [c'] with [rest]
    of the key still to go *)
Inductive desc : node -> key -> node -> key -> Prop :=
| DRefl c k : desc c k c k
| DShort nk c f r c' rest : desc c r c' rest -> desc (Short nk c f) (nk ++ r) c' rest
| DFull cs f i kt c c' rest :
    nth_error cs i = Some c -> desc c kt c' rest -> desc (Full cs f) (i :: kt) c' rest.

Lemma desc_trans a ka b kb c kc : desc a ka b kb -> desc b kb c kc -> desc a ka c kc.
Proof. induction 1; intros Hd; auto; econstructor; eauto. Qed.

Section Proofs.
Variable H : bytes -> bytes.
Hypothesis Hlen : forall x, length (H x) = 32.

Lemma db_of_get blobs h b : db_get (db_of H blobs) h = Some b -> H b = h /\ In b blobs.
Proof.
  induction blobs as [|a blobs IH]; cbn [db_of map db_get]; [discriminate|].
  destruct (beq (H a) h) eqn:E.
  - intros X. inversion X; subst. apply beq_eq in E. split; [exact E|left; reflexivity].
  - intros X. destruct (IH X). split; [auto|right; auto].
Qed.

(** what proof.go's get (skipResolved) returns on a decoded node, in terms of the canonical
    node [c] it was decoded from; [lim] bounds the length of the remaining key *)
Definition pget_spec (c : node) (k : key) (lim : nat) (r : res (key * node)) : Prop :=
  match r with
  | Ok (rest, Empty) => forall w, ~ has c k w
  | Ok (rest, Value v) => has c k v
  | Ok (rest, Ref x) =>
    exists c', canon c' /\ is_node c' /\ sized c' /\ x = H (cenc H c') /\ wfk rest /\
               length rest < lim /\ (forall w, has c k w <-> has c' rest w) /\
               desc c k c' rest /\ (32 <= nlen (cenc H c'))%N
  | _ => False
  end.

Lemma pget_spec_transfer c k child r lim lim' res :
  (forall w, has c k w <-> has child r w) -> lim <= lim' ->
  (forall c' rest, desc child r c' rest -> desc c k c' rest) ->
  pget_spec child r lim res -> pget_spec c k lim' res.
Proof.
  intros Hiff Hl Hdesc. unfold pget_spec. destruct res as [[rest [|v|? ? ?|? ?|x]]| | |]; auto.
  - intros Hno w Hw. apply Hiff in Hw. eapply Hno; eauto.
  - intros Hh. apply Hiff; auto.
  - intros (c' & A1 & A2 & A3 & A4 & A5 & A6 & A7 & A8 & A9). exists c'.
    split; auto. split; auto. split; auto. split; auto. split; auto. split; [lia|].
    split; [|split; auto]. intros w. split.
    + intros Hw. apply A7, Hiff; auto.
    + intros Hw. apply Hiff, A7; auto.
Qed.

Lemma finish_hash_big e x : finish H e false = HHash x -> (32 <= nlen e)%N.
Proof.
  unfold finish. destruct (N.ltb_spec (nlen e) 32); cbn [andb negb]; [discriminate|auto].
Qed.

(** a child position: what the parent stores, walked with the remaining key [r] *)
Lemma pget_cref child r :
  wfk r \/ r = [] ->
  (child = Empty \/ (exists v, child = Value v /\ r = []) \/
   (canon child /\ child <> Empty /\ sized child /\ wfk r /\
    pget_spec child r (S (length r)) (pget (shallow H None child) r))) ->
  pget_spec child r (S (length r)) (pget (cref H child) r).
Proof.
  intros Hr [->|[(v & -> & ->)|(Hc & Hne & Hs & Hw & IH)]].
  - cbn. intros w Hw. inversion Hw.
  - cbn. constructor.
  - unfold cref. destruct (hspec_canon_cases H child Hc Hne) as [E|E]; rewrite E; [exact IH|].
    cbn [pget pget_spec]. exists child.
    split; auto. split; [apply canon_is_node; auto|]. split; auto. split; auto. split; auto.
    split; [lia|]. split; [tauto|]. split; [constructor|].
    rewrite (hspec_node H child Hc Hne) in E. eapply finish_hash_big; eauto.
Qed.

Lemma pget_shallow c : canon c -> sized c -> forall h k, wfk k ->
  pget_spec c k (length k) (pget (shallow H h c) k).
Proof.
  induction 1 as [|p v f Hp Hv|k0 cs g f Hk0 Hn Hc IH|cs f Hl Hch IH H16 Hcnt]; intros Hs h k Hk.
  - cbn. intros w Hw. inversion Hw.
  - (* leaf *)
    rewrite shallow_short, pget_short_eq. destruct (short_cond (p ++ [16]) k) eqn:E.
    + cbn. intros w Hw. apply has_short in Hw as (r & -> & _).
      assert (short_cond (p ++ [16]) ((p ++ [16]) ++ r) = false) by (apply short_cond_false; eauto).
      congruence.
    + apply short_cond_false in E as (r & ->).
      assert (r = []) as -> by (apply (wfk_prefix_eq (p ++ [16]) r); [apply wfk_snoc; auto | auto]).
      rewrite skipn_app_len. cbn. constructor. constructor.
  - (* extension *)
    inversion Hs as [| |? ? ? Hkl Hsc|]; subst.
    rewrite shallow_short, pget_short_eq. destruct (short_cond k0 k) eqn:E.
    + cbn. intros w Hw. apply has_short in Hw as (r & -> & _).
      assert (short_cond k0 (k0 ++ r) = false) by (apply short_cond_false; eauto). congruence.
    + apply short_cond_false in E as (r & ->). rewrite skipn_app_len.
      assert (Hwr : wfk r) by (apply (wfk_app_inv k0); auto).
      apply (pget_spec_transfer _ _ (Full cs g) r (S (length r))).
      * intros w. rewrite has_short. split.
        -- intros (r' & E & Hh). apply app_inv_head in E. subst. auto.
        -- intros Hh. eauto.
      * rewrite app_length. destruct k0; [congruence|cbn; lia].
      * intros c' rest Hd. constructor; auto.
      * apply pget_cref; auto. right. right. repeat split; auto; try discriminate.
        eapply (pget_spec_transfer _ _ (Full cs g) r (length r)); [tauto|lia|auto|]. apply IH; auto.
  - (* branch *)
    inversion Hs as [| | |? ? Hsc]; subst.
    destruct k as [|i kt]; [cbn in Hk; tauto|].
    rewrite shallow_full, pget_full_eq.
    assert (Hi17 : i <= 16) by (cbn in Hk; lia).
    destruct (nth_error_lt_some cs i) as (c & Hn); [lia|].
    rewrite (map_nth_error (cref H) _ _ Hn).
    assert (Hiff : forall w, has (Full cs f) (i :: kt) w <-> has c kt w).
    { intros w. rewrite has_full. split.
      - intros (j & r & c2 & E & Hn2 & Hh). inversion E; subst. rewrite Hn in Hn2. inversion Hn2; subst; auto.
      - intros Hh. eauto 6. }
    apply (pget_spec_transfer _ _ c kt (S (length kt)) _ _ Hiff); [cbn; lia|intros c' rest Hd; econstructor; eauto|].
    cbn in Hk. destruct Hk as [[-> ->]|[Hi Hkt]].
    + apply pget_cref; auto. destruct (H16 _ Hn) as [->|(v & _ & ->)]; eauto.
    + apply pget_cref; auto. destruct (is_empty c) eqn:E.
      * apply is_empty_true in E. auto.
      * apply is_empty_false in E. right. right.
        assert (Hcc : canon c) by (eapply Hch; eauto).
        assert (Hsc' : sized c) by (apply Hsc; eapply nth_error_In; eauto).
        repeat split; auto.
        eapply (pget_spec_transfer _ _ c kt (length kt)); [tauto|lia|auto|]. apply (IH i c Hn Hi); auto.
Qed.

(** soundness of VerifyProof, one hashed node at a time *)
Lemma verify_sound blobs : forall fuel c k,
  canon c -> is_node c -> sized c -> wfk k ->
  match verify_loop fuel (db_of H blobs) (H (cenc H c)) k with
  | VValue v => has c k v \/ collision H
  | VAbsent => (forall w, ~ has c k w) \/ collision H
  | _ => True
  end.
Proof.
  induction fuel as [|f IH]; intros c k Hc Hn Hs Hk; [exact I|].
  cbn [verify_loop]. destruct (db_get (db_of H blobs) (H (cenc H c))) as [buf|] eqn:Eg; [|exact I].
  destruct (db_of_get _ _ _ Eg) as [Hh _].
  destruct buf as [|b0 bt] eqn:Eb; [exact I|]. rewrite <- Eb in *. clear Eb.
  destruct (list_eq_dec N.eq_dec buf (cenc H c)) as [->|Hneq].
  - assert (Hne : c <> Empty) by (destruct c; cbn in Hn; try tauto; discriminate).
    pose proof (decode_cenc H Hlen c Hc Hs Hne (length (cenc H c)) (Some (H (cenc H c))) [] (le_n _)) as Hd.
    rewrite app_nil_r in Hd. rewrite Hd.
    pose proof (pget_shallow c Hc Hs (Some (H (cenc H c))) k Hk) as Hp.
    destruct (pget (shallow H (Some (H (cenc H c))) c) k) as [[rest [|v|? ? ?|? ?|x]]| | |]; cbn in Hp; try exact I.
    + left. exact Hp.
    + left. exact Hp.
    + destruct Hp as (c' & A1 & A2 & A3 & -> & A5 & A6 & A7 & _ & _).
      specialize (IH c' rest A1 A2 A3 A5).
      destruct (verify_loop f (db_of H blobs) (H (cenc H c')) rest); auto.
      * destruct IH as [IH|C]; [left; apply A7; exact IH|right; exact C].
      * destruct IH as [IH|C]; [left; intros w Hw; apply A7 in Hw; eapply IH; eauto|right; exact C].
  - assert (Col : collision H) by (exists buf, (cenc H c); auto).
    destruct (match decode_node (length buf) (Some (H (cenc H c))) buf with
              | Some n => _ | None => _ end); auto.
Qed.


(* ------------------------------------------------------------------ completeness *)

Lemma db_of_in blobs e : In e blobs -> exists b, db_get (db_of H blobs) (H e) = Some b /\ H b = H e.
Proof.
  induction blobs as [|a blobs IH]; intros Hin; [destruct Hin|].
  cbn [db_of map db_get]. destruct (beq (H a) (H e)) eqn:E.
  - exists a. split; auto. apply beq_eq; auto.
  - destruct Hin as [->|Hin]; [rewrite beq_refl in E; discriminate|]. apply IH; auto.
Qed.

Lemma cenc_nonempty c : canon c -> sized c -> is_node c -> cenc H c <> [].
Proof.
  intros Hc Hs Hn. assert (Hne : c <> Empty) by (destruct c; cbn in Hn; try tauto; discriminate).
  destruct (cenc_item H Hlen c Hc Hs Hne) as (P & hdr & _ & Hnn & _). exact Hnn.
Qed.

Lemma verify_complete blobs n0 k0 :
  (forall c' rest, desc n0 k0 c' rest -> is_node c' -> wfk rest ->
                   (c' = n0 \/ (32 <= nlen (cenc H c'))%N) -> In (cenc H c') blobs) ->
  forall fuel c k, desc n0 k0 c k -> (c = n0 \/ (32 <= nlen (cenc H c))%N) ->
  canon c -> is_node c -> sized c -> wfk k -> length k < fuel ->
  match verify_loop fuel (db_of H blobs) (H (cenc H c)) k with
  | VValue v => has c k v \/ collision H
  | VAbsent => (forall w, ~ has c k w) \/ collision H
  | _ => collision H
  end.
Proof.
  intros Hcov. induction fuel as [|f IH]; intros c k Hd Hbig Hc Hn Hs Hk Hf; [lia|].
  cbn [verify_loop].
  destruct (db_of_in blobs (cenc H c) (Hcov c k Hd Hn Hk Hbig)) as (buf & Eg & Hh). rewrite Eg.
  pose proof (cenc_nonempty c Hc Hs Hn) as Hnn.
  destruct (list_eq_dec N.eq_dec buf (cenc H c)) as [->|Hneq].
  - destruct (cenc H c) as [|b0 bt] eqn:Eb; [congruence|]. rewrite <- Eb in *. clear Eb.
    assert (Hne : c <> Empty) by (destruct c; cbn in Hn; try tauto; discriminate).
    pose proof (decode_cenc H Hlen c Hc Hs Hne (length (cenc H c)) (Some (H (cenc H c))) [] (le_n _)) as Hdec.
    rewrite app_nil_r in Hdec. rewrite Hdec.
    pose proof (pget_shallow c Hc Hs (Some (H (cenc H c))) k Hk) as Hp.
    destruct (pget (shallow H (Some (H (cenc H c))) c) k) as [[rest [|v|? ? ?|? ?|x]]| | |]; cbn in Hp; try tauto.
    + destruct Hp as (c' & A1 & A2 & A3 & -> & A5 & A6 & A7 & A8 & A9).
      assert (Hd' : desc n0 k0 c' rest) by (eapply desc_trans; eauto).
      specialize (IH c' rest Hd' (or_intror A9) A1 A2 A3 A5 ltac:(lia)).
      destruct (verify_loop f (db_of H blobs) (H (cenc H c')) rest); auto.
      * destruct IH as [IH|C]; [left; apply A7; exact IH|right; exact C].
      * destruct IH as [IH|C]; [left; intros w Hw; apply A7 in Hw; eapply IH; eauto|right; exact C].
  - assert (Col : collision H) by (exists buf, (cenc H c); auto).
    destruct buf as [|b0 bt]; [exact Col|].
    destruct (match decode_node (length (b0 :: bt)) (Some (H (cenc H c))) (b0 :: bt) with
              | Some n => _ | None => _ end); auto.
Qed.

(** the nodes Trie.Prove collects *)
Lemma prove_walk_nil f d c acc : prove_walk (S f) d c [] acc = Ok (rev acc).
Proof. reflexivity. Qed.

Lemma prove_walk_short f d nk c fl k0 kt acc :
  prove_walk (S f) d (Short nk c fl) (k0 :: kt) acc =
  if short_cond nk (k0 :: kt) then Ok (rev (Short nk c fl :: acc))
  else prove_walk f d c (skipn (length nk) (k0 :: kt)) (Short nk c fl :: acc).
Proof. reflexivity. Qed.

Lemma prove_walk_full f d cs fl k0 kt acc :
  prove_walk (S f) d (Full cs fl) (k0 :: kt) acc =
  match nth_error cs k0 with
  | None => Crash
  | Some c => prove_walk f d c kt (Full cs fl :: acc)
  end.
Proof. reflexivity. Qed.

Lemma desc_nil c c' rest : desc c [] c' rest -> rest = [].
Proof.
  intros Hd. remember [] as k eqn:Ek. induction Hd as [| nk c f r c' rest Hd IH | ]; auto.
  - apply app_eq_nil in Ek as [E1 E2]. subst. auto.
  - discriminate.
Qed.

Lemma prove_walk_spec d : forall fuel c k acc,
  (k = [] \/ (canon c /\ wfk k)) -> length k < fuel ->
  exists t, prove_walk fuel d c k acc = Ok (rev acc ++ t) /\
            (forall c' rest, desc c k c' rest -> is_node c' -> rest <> [] -> In c' t) /\
            (is_node c -> k <> [] -> exists t', t = c :: t').
Proof.
  induction fuel as [|f IH]; intros c k acc Hpre Hf; [lia|].
  destruct k as [|k0 kt].
  - exists []. rewrite prove_walk_nil, app_nil_r. split; auto. split; [|congruence].
    intros c' rest Hd _ Hne. apply desc_nil in Hd. congruence.
  - destruct Hpre as [X|[Hc Hk]]; [discriminate|].
    destruct Hc as [|p v fl Hp Hv|nk cs g fl Hnk Hn Hc|cs fl Hl Hch H16 Hcnt].
    + exists []. cbn. rewrite app_nil_r. split; auto. split; [|cbn; tauto].
      intros c' rest Hd Hn _. inversion Hd; subst. destruct Hn.
    + (* leaf *)
      rewrite prove_walk_short. destruct (short_cond (p ++ [16]) (k0 :: kt)) eqn:E.
      * exists [Short (p ++ [16]) (Value v) fl]. split; [reflexivity|]. split; [|eauto].
        intros c' rest Hd Hn _. inversion Hd; subst; [left; auto|].
        assert (short_cond (p ++ [16]) ((p ++ [16]) ++ r) = false) by (apply short_cond_false; eauto).
        match goal with X : _ = k0 :: kt |- _ => rewrite <- X in E end. congruence.
      * apply short_cond_false in E as (r & Er). rewrite Er, skipn_app_len. rewrite Er in Hk.
        assert (r = []) as -> by (apply (wfk_prefix_eq (p ++ [16]) r); [apply wfk_snoc; auto | auto]).
        destruct (IH (Value v) [] (Short (p ++ [16]) (Value v) fl :: acc)) as (t & Ew & Hd & _); [auto|cbn [length] in Hf |- *; lia|].
        rewrite Ew. cbn [rev]. rewrite <- app_assoc. exists (Short (p ++ [16]) (Value v) fl :: t).
        split; [reflexivity|]. split; [|eauto].
        intros c' rest Hdd Hn Hne. inversion Hdd; subst; [left; auto|].
        right. match goal with X : _ ++ _ = _ ++ _ |- _ => apply app_inv_head in X; subst end. eapply Hd; eauto.
    + (* extension *)
      rewrite prove_walk_short. destruct (short_cond nk (k0 :: kt)) eqn:E.
      * exists [Short nk (Full cs g) fl]. split; [reflexivity|]. split; [|eauto].
        intros c' rest Hd Hn' _. inversion Hd; subst; [left; auto|].
        assert (short_cond nk (nk ++ r) = false) by (apply short_cond_false; eauto).
        match goal with X : _ = k0 :: kt |- _ => rewrite <- X in E end. congruence.
      * apply short_cond_false in E as (r & Er). rewrite Er, skipn_app_len. rewrite Er in Hk, Hf.
        assert (Hwr : wfk r) by (apply (wfk_app_inv nk); auto).
        destruct (IH (Full cs g) r (Short nk (Full cs g) fl :: acc)) as (t & Ew & Hd & _); [auto| |].
        { rewrite app_length in Hf. destruct nk; [congruence|cbn in Hf; lia]. }
        rewrite Ew. cbn [rev]. rewrite <- app_assoc. exists (Short nk (Full cs g) fl :: t).
        split; [reflexivity|]. split; [|eauto].
        intros c' rest Hdd Hn' Hne. inversion Hdd; subst; [left; auto|].
        right. match goal with X : _ ++ _ = _ ++ _ |- _ => apply app_inv_head in X; subst end. eapply Hd; eauto.
    + (* branch *)
      rewrite prove_walk_full.
      assert (Hk0 : k0 <= 16) by (cbn in Hk; lia).
      destruct (nth_error_lt_some cs k0) as (c & Hnc); [lia|]. rewrite Hnc.
      destruct (IH c kt (Full cs fl :: acc)) as (t & Ew & Hd & _).
      { cbn in Hk. destruct Hk as [[-> ->]|[Hi Hkt]]; [left; auto|right; split; auto; eapply Hch; eauto]. }
      { cbn in Hf. lia. }
      rewrite Ew. cbn [rev]. rewrite <- app_assoc. exists (Full cs fl :: t).
      split; [reflexivity|]. split; [|eauto].
      intros c' rest Hdd Hn' Hne. inversion Hdd; subst; [left; auto|].
      right. match goal with X : nth_error cs k0 = Some _ |- _ => rewrite Hnc in X; inversion X; subst end.
      eapply Hd; eauto.
Qed.

Lemma proof_blobs_in t : forall first x, In x t -> (32 <= nlen (proof_enc H x))%N ->
  In (proof_enc H x) (proof_blobs H first t).
Proof.
  induction t as [|y t IH]; intros first x Hin Hbig; [destruct Hin|].
  cbn [proof_blobs]. destruct Hin as [->|Hin].
  - destruct (N.ltb_spec (nlen (proof_enc H x)) 32); [lia|]. rewrite orb_true_r. left; reflexivity.
  - destruct (first || negb (N.ltb (nlen (proof_enc H y)) 32)); [right|]; apply IH; auto.
Qed.

Lemma proof_enc_cenc root x : caches_ok H root x -> proof_enc H x = cenc H x.
Proof.
  intros Hok. destruct x as [| |k c f|cs f|]; try reflexivity.
  - apply caches_ok_short in Hok as (_ & _ & Hc). cbn [proof_enc cenc].
    destruct (hash_node_ok H c false Hc) as (E & _). rewrite E. reflexivity.
  - apply caches_ok_full in Hok as (_ & _ & Hc). cbn [proof_enc cenc]. f_equal.
    apply all_ok_forall in Hc. rewrite Forall_forall in Hc. apply map_ext_in. intros c Hin.
    destruct (hash_node_ok H c false (Hc c Hin)) as (E & _). exact E.
Qed.

Lemma desc_caches c k c' rest : desc c k c' rest -> forall root, caches_ok H root c ->
  exists root', caches_ok H root' c'.
Proof.
  induction 1 as [c k|nk c f r c' rest Hd IH|cs f i kt c c' rest Hn Hd IH]; intros root Hok; eauto.
  - apply caches_ok_short in Hok as (_ & _ & Hc). eauto.
  - apply caches_ok_full in Hok as (_ & _ & Hc). eapply IH. eapply all_ok_nth; eauto.
Qed.

End Proofs.

Section ProofTop.
Variable H : bytes -> bytes.
Hypothesis Hlen : forall x, length (H x) = 32.

Lemma root_hash_eq n : canon n -> n <> Empty -> caches_ok H true n ->
  fst (trie_hash H n) = H (cenc H n).
Proof.
  intros Hc Hne Hok. rewrite (trie_hash_eq H n Hne). cbn [fst].
  destruct (hash_node_ok H n true Hok) as (A & _). rewrite A.
  rewrite (hspec_cenc H n true (canon_is_node n Hc Hne)), finish_forced. reflexivity.
Qed.

Lemma has_represents m n kb v : represents m n -> is_bytes kb ->
  has n (keybytes_to_hex kb) v -> v = m kb /\ v <> [].
Proof.
  intros [Hc Hr] Hkb Hh. apply Hr in Hh as (kb' & Hb' & Heq & -> & Hne).
  apply keybytes_to_hex_inj in Heq; auto. subst. auto.
Qed.

Lemma absent_represents m n kb : represents m n -> is_bytes kb ->
  (forall w, ~ has n (keybytes_to_hex kb) w) -> m kb = [].
Proof.
  intros [Hc Hr] Hkb Hno. destruct (m kb) eqn:E; auto. exfalso. apply (Hno (m kb)). apply Hr.
  exists kb. repeat split; auto. rewrite E. discriminate.
Qed.

(** soundness: whatever list of blobs is presented, VerifyProof against the root of the trie
    returns a value only if it is the stored one, and "absent" only if the key is absent —
    or a collision is exhibited *)
Theorem proof_sound m n kb blobs :
  represents m n -> caches_ok H true n -> bounded m -> n <> Empty -> is_bytes kb ->
  match verify_proof H (fst (trie_hash H n)) kb blobs with
  | VValue v => (v = m kb /\ v <> []) \/ collision H
  | VAbsent => m kb = [] \/ collision H
  | _ => True
  end.
Proof.
  intros Hrep Hok Hb Hne Hkb. pose proof Hrep as [Hc _].
  rewrite (root_hash_eq n Hc Hne Hok). unfold verify_proof.
  pose proof (verify_sound H Hlen blobs (length blobs + length (keybytes_to_hex kb) + 2) n
                (keybytes_to_hex kb) Hc (canon_is_node n Hc Hne) (represents_sized H Hlen m n Hrep Hb)
                (keybytes_to_hex_wfk _ Hkb)) as Hv.
  destruct (verify_loop _ _ _ _); auto.
  - destruct Hv as [Hv|C]; [left; eapply has_represents; eauto|right; exact C].
  - destruct Hv as [Hv|C]; [left; eapply absent_represents; eauto|right; exact C].
Qed.

(** completeness: the proof Trie.Prove builds verifies to exactly the stored value / absence *)
Theorem proof_complete d m n kb :
  represents m n -> caches_ok H true n -> bounded m -> n <> Empty -> is_bytes kb ->
  exists blobs, prove H d n kb = Ok blobs /\
    (verify_proof H (fst (trie_hash H n)) kb blobs =
       match m kb with [] => VAbsent | _ => VValue (m kb) end \/ collision H).
Proof.
  intros Hrep Hok Hb Hne Hkb. pose proof Hrep as [Hc _].
  pose proof (keybytes_to_hex_wfk _ Hkb) as Hw.
  pose proof (canon_is_node n Hc Hne) as Hn.
  pose proof (represents_sized H Hlen m n Hrep Hb) as Hs.
  destruct (prove_walk_spec H Hlen d (fuel_of (keybytes_to_hex kb)) n (keybytes_to_hex kb) [])
    as (t & Ew & Hdesc & Hhead); [right; auto|apply fuel_of_gt|].
  destruct Hhead as (t' & ->); [auto|destruct (keybytes_to_hex kb); [cbn in Hw; tauto|discriminate]|].
  exists (proof_blobs H true (n :: t')). split.
  { unfold prove. rewrite Ew. reflexivity. }
  rewrite (root_hash_eq n Hc Hne Hok). unfold verify_proof.
  set (blobs := proof_blobs H true (n :: t')).
  assert (Hcov : forall c' rest, desc n (keybytes_to_hex kb) c' rest -> is_node c' -> wfk rest ->
                   (c' = n \/ (32 <= nlen (cenc H c'))%N) -> In (cenc H c') blobs).
  { intros c' rest Hd Hn' Hwr Hbig.
    destruct (desc_caches H _ _ _ _ Hd true Hok) as (root' & Hok').
    rewrite <- (proof_enc_cenc H root' c' Hok') in *.
    destruct Hbig as [->|Hbig].
    - unfold blobs. cbn [proof_blobs orb]. left; reflexivity.
    - apply proof_blobs_in; auto. apply (Hdesc c' rest); auto. destruct rest; [cbn in Hwr; tauto|discriminate]. }
  pose proof (verify_complete H Hlen blobs n (keybytes_to_hex kb) Hcov
                (length blobs + length (keybytes_to_hex kb) + 2) n (keybytes_to_hex kb)
                (DRefl _ _) (or_introl eq_refl) Hc Hn Hs Hw ltac:(lia)) as Hv.
  destruct (verify_loop _ _ _ _); try (right; exact Hv).
  - destruct Hv as [Hv|C]; [|right; exact C]. left.
    destruct (has_represents m n kb v Hrep Hkb Hv) as [-> Hne']. destruct (m kb); [congruence|reflexivity].
  - destruct Hv as [Hv|C]; [|right; exact C]. left.
    rewrite (absent_represents m n kb Hrep Hkb Hv). reflexivity.
Qed.

End ProofTop.
