(** C07 — Merkle Patricia trie: executable model transcribed from /repo/trie
    (trie.go, node.go, node_enc.go, encoding.go, hasher.go, committer.go, proof.go,
    stacktrie.go, secure_trie.go) and /repo/types/hashing.go (DeriveSha).

    Conventions
    - bytes are [list N] (0..255); nibbles are [nat] (0..15, terminator 16).
    - Keccak-256 is the Section variable [H]; nothing is assumed about it here.
    - pointer mutation becomes value passing; the node cache [nodeFlag] (cached hash, dirty
      bit) IS modelled; the tracer (path bookkeeping for the path-based scheme, never read by
      the hash-based database) is not.
    - Go panics / missing database nodes are explicit results ([Crash] / [Missing]); the three
      fuelled recursions return [OutOfFuel] when the fuel (computed from the key length) is
      exhausted, which Proofs.v shows impossible.
    No proofs in this file. *)
From Coq Require Import List NArith Arith Bool.
Import ListNotations.

Definition bytes := list N.
Definition key := list nat.

Inductive res (A : Type) : Type :=
| Ok (a : A) | Missing | Crash | OutOfFuel.
Arguments Ok {A} a. Arguments Missing {A}. Arguments Crash {A}. Arguments OutOfFuel {A}.

Definition rbind {A B} (r : res A) (f : A -> res B) : res B :=
  match r with Ok a => f a | Missing => Missing | Crash => Crash | OutOfFuel => OutOfFuel end.

(* ------------------------------------------------------------------ small utilities *)

Fixpoint nlen {A} (l : list A) : N :=
  match l with [] => 0%N | _ :: t => N.succ (nlen t) end.

Fixpoint beq (a b : bytes) : bool :=
  match a, b with
  | [], [] => true
  | x :: a', y :: b' => N.eqb x y && beq a' b'
  | _, _ => false
  end.

Fixpoint keq (a b : key) : bool :=
  match a, b with
  | [], [] => true
  | x :: a', y :: b' => Nat.eqb x y && keq a' b'
  | _, _ => false
  end.

Fixpoint set_nth {A} (n : nat) (x : A) (l : list A) : list A :=
  match n, l with
  | O, _ :: t => x :: t
  | S n', h :: t => h :: set_nth n' x t
  | _, [] => []
  end.

(* ------------------------------------------------------------------ encoding.go *)

(** keybytesToHex: two nibbles per byte, then the terminator 16 *)
Fixpoint keybytes_to_hex (bs : bytes) : key :=
  match bs with
  | [] => [16]
  | b :: t => N.to_nat (b / 16)%N :: N.to_nat (b mod 16)%N :: keybytes_to_hex t
  end.

Definition has_term (k : key) : bool :=
  match rev k with x :: _ => Nat.eqb x 16 | [] => false end.

(** decodeNibbles: pairs of nibbles to bytes (callers guarantee an even length) *)
Fixpoint decode_nibbles (k : key) : bytes :=
  match k with
  | a :: b :: t => N.of_nat (16 * a + b) :: decode_nibbles t
  | _ => []
  end.

(** hexToCompact *)
Definition hex_to_compact (hex : key) : bytes :=
  let term := has_term hex in
  let hex1 := if term then removelast hex else hex in
  let t := if term then 32 else 0 in
  if Nat.odd (length hex1)
  then N.of_nat (t + 16 + hd 0 hex1) :: decode_nibbles (tl hex1)
  else N.of_nat t :: decode_nibbles hex1.

(** compactToHex *)
Definition compact_to_hex (c : bytes) : key :=
  match c with
  | [] => []
  | _ =>
    let base := keybytes_to_hex c in
    let b0 := hd 0 base in
    let base1 := if Nat.ltb b0 2 then removelast base else base in
    skipn (2 - Nat.modulo b0 2) base1
  end.

(** prefixLen *)
Fixpoint prefix_len (a b : key) : nat :=
  match a, b with
  | x :: a', y :: b' => if Nat.eqb x y then S (prefix_len a' b') else 0
  | _, _ => 0
  end.

(* ------------------------------------------------------------------ RLP items (lib/rlp) *)

Fixpoint be_bytes_aux (fuel : nat) (n : N) (acc : bytes) : bytes :=
  match fuel with
  | O => acc
  | S f => if N.eqb n 0 then acc else be_bytes_aux f (n / 256)%N ((n mod 256)%N :: acc)
  end.
(** minimal big-endian representation of a length (< 2^64) *)
Definition be_bytes (n : N) : bytes := be_bytes_aux 8 n [].

Definition rlp_string (s : bytes) : bytes :=
  (let long := let n := nlen s in
               if N.ltb n 56 then (128 + n) :: s
               else let l := be_bytes n in (183 + nlen l) :: l ++ s in
   match s with
   | [b] => if N.ltb b 128 then [b] else long
   | _ => long
   end)%N.

Definition rlp_list (p : bytes) : bytes :=
  (let n := nlen p in
   if N.ltb n 56 then (192 + n) :: p
   else let l := be_bytes n in (247 + nlen l) :: l ++ p)%N.

Inductive kind := KByte | KString | KList.

Fixpoint be_to_N (b : bytes) (acc : N) : N :=
  match b with [] => acc | x :: t => be_to_N t (acc * 256 + x)%N end.

(** readSize *)
Definition read_size (b : bytes) (slen : N) : option N :=
  if N.ltb (nlen b) slen then None
  else let s := be_to_N (firstn (N.to_nat slen) b) 0 in
       if N.ltb s 56 || N.eqb (hd 0%N b) 0 then None else Some s.

(** readKind: (kind, tagsize, contentsize) *)
Definition read_kind (buf : bytes) : option (kind * N * N) :=
  (let check k ts cs := if N.ltb (nlen buf - ts) cs then None else Some (k, ts, cs) in
   match buf with
   | [] => None
   | b :: t =>
     if N.ltb b 128 then check KByte 0 1
     else if N.ltb b 184 then
       let cs := b - 128 in
       if N.eqb cs 1 && match t with x :: _ => N.ltb x 128 | [] => false end then None
       else check KString 1 cs
     else if N.ltb b 192 then
       match read_size t (b - 183) with None => None | Some cs => check KString (b - 183 + 1) cs end
     else if N.ltb b 248 then check KList 1 (b - 192)
     else match read_size t (b - 247) with None => None | Some cs => check KList (b - 247 + 1) cs end
   end)%N.

(** rlp.Split: (kind, content, rest) *)
Definition split (b : bytes) : option (kind * bytes * bytes) :=
  match read_kind b with
  | None => None
  | Some (k, ts, cs) =>
    Some (k, firstn (N.to_nat cs) (skipn (N.to_nat ts) b), skipn (N.to_nat (ts + cs)) b)
  end.

Definition split_string (b : bytes) : option (bytes * bytes) :=
  match split b with
  | Some (KList, _, _) => None
  | Some (_, c, r) => Some (c, r)
  | None => None
  end.

Definition split_list (b : bytes) : option (bytes * bytes) :=
  match split b with
  | Some (KList, c, r) => Some (c, r)
  | _ => None
  end.

(** rlp.CountValues (fuel = length of the input; every item is at least one byte) *)
Fixpoint count_values (fuel : nat) (b : bytes) : option nat :=
  match b with
  | [] => Some 0
  | _ => match fuel with
         | O => None
         | S f => match read_kind b with
                  | None => None
                  | Some (_, ts, cs) =>
                    match count_values f (skipn (N.to_nat (ts + cs)) b) with
                    | None => None | Some c => Some (S c) end
                  end
         end
  end.

(* ------------------------------------------------------------------ node.go *)

Record flag := mkFlag { fhash : option bytes; fdirty : bool }.
Definition newflag := mkFlag None true.     (* Trie.newFlag *)

Inductive node :=
| Empty                                   (* nil *)
| Value (v : bytes)                       (* valueNode *)
| Short (k : key) (c : node) (f : flag)   (* shortNode *)
| Full (cs : list node) (f : flag)        (* fullNode, 17 children *)
| Ref (h : bytes).                        (* hashNode *)

Definition is_empty (n : node) : bool := match n with Empty => true | _ => false end.

Definition empty_children : list node := repeat Empty 17.

(** decodeRef, parameterised by the recursive decodeNode(nil, _) *)
Definition decode_ref (dec : bytes -> option node) (buf : bytes) : option (node * bytes) :=
  match split buf with
  | None => None
  | Some (KList, _, rest) =>
    if N.ltb 32 (nlen buf - nlen rest) then None
    else match dec buf with Some n => Some (n, rest) | None => None end
  | Some (KString, val, rest) =>
    if N.eqb (nlen val) 0 then Some (Empty, rest)
    else if N.eqb (nlen val) 32 then Some (Ref val, rest)
    else None
  | Some (KByte, _, _) => None
  end.

Fixpoint decode_children (dec : bytes -> option node) (n : nat) (elems : bytes)
  : option (list node * bytes) :=
  match n with
  | O => Some ([], elems)
  | S n' => match decode_ref dec elems with
            | None => None
            | Some (c, rest) =>
              match decode_children dec n' rest with
              | None => None
              | Some (cs, r) => Some (c :: cs, r)
              end
            end
  end.

(** decodeNode / decodeShort / decodeFull (fuel = length of the blob: embedded nodes are
    strict suffixes of their parent's payload) *)
Fixpoint decode_node (fuel : nat) (hash : option bytes) (buf : bytes) : option node :=
  match fuel with
  | O => None
  | S f =>
    match buf with
    | [] => None
    | _ =>
      match split_list buf with
      | None => None
      | Some (elems, _) =>
        let dec := decode_node f None in
        match count_values (length elems) elems with
        | Some 2 =>
          match split_string elems with
          | None => None
          | Some (kbuf, rest) =>
            let k := compact_to_hex kbuf in
            if has_term k then
              match split_string rest with
              | None => None
              | Some (val, _) => Some (Short k (Value val) (mkFlag hash false))
              end
            else
              match decode_ref dec rest with
              | None => None
              | Some (r, _) => Some (Short k r (mkFlag hash false))
              end
          end
        | Some 17 =>
          match decode_children dec 16 elems with
          | None => None
          | Some (cs, rest) =>
            match split_string rest with
            | None => None
            | Some (val, _) =>
              let c16 := if N.ltb 0 (nlen val) then Value val else Empty in
              Some (Full (cs ++ [c16]) (mkFlag hash false))
            end
          end
        | _ => None
        end
      end
    end
  end.

Section WithHash.
Variable H : bytes -> bytes.

Definition empty_root : bytes := H [128%N].     (* types.EmptyRootHash = keccak(rlp("")) *)

(* ------------------------------------------------------------------ node database *)

Definition db := list (bytes * bytes).

Fixpoint db_get (d : db) (h : bytes) : option bytes :=
  match d with
  | [] => None
  | (k, v) :: t => if beq k h then Some v else db_get t h
  end.

(** resolveAndTrack: reader.node (missing or empty blob => MissingNodeError), mustDecodeNode
    (panics on a blob that does not decode) *)
Definition resolve_hash (d : db) (h : bytes) : res node :=
  match db_get d h with
  | None => Missing
  | Some [] => Missing
  | Some blob => match decode_node (length blob) (Some h) blob with
                 | Some n => Ok n
                 | None => Crash
                 end
  end.

(* ------------------------------------------------------------------ trie.go *)

(** Trie.get: value (empty = nil) and the possibly-resolved replacement node *)
Fixpoint get (fuel : nat) (d : db) (n : node) (k : key) : res (bytes * node) :=
  match fuel with
  | O => OutOfFuel
  | S f =>
    match n with
    | Empty => Ok ([], Empty)
    | Value v => Ok (v, n)
    | Short nk c fl =>
      if Nat.ltb (length k) (length nk) || negb (keq nk (firstn (length nk) k))
      then Ok ([], n)
      else rbind (get f d c (skipn (length nk) k)) (fun r => Ok (fst r, Short nk (snd r) fl))
    | Full cs fl =>
      match k with
      | [] => Crash                                   (* key[pos] out of range *)
      | i :: kt =>
        match nth_error cs i with
        | None => Crash
        | Some c => rbind (get f d c kt) (fun r => Ok (fst r, Full (set_nth i (snd r) cs) fl))
        end
      end
    | Ref h => rbind (resolve_hash d h) (fun child => get f d child k)
    end
  end.

(** Trie.insert: (dirty, new node); [value] is a node as in the Go code *)
Fixpoint insert (fuel : nat) (d : db) (n : node) (k : key) (value : node) : res (bool * node) :=
  match fuel with
  | O => OutOfFuel
  | S f =>
    match k with
    | [] =>
      match n, value with
      | Value v, Value w => Ok (negb (beq v w), value)
      | Value v, _ => Crash                           (* value.(valueNode) assertion *)
      | _, _ => Ok (true, value)
      end
    | k0 :: kt =>
      match n with
      | Short nk c fl =>
        let ml := prefix_len k nk in
        if Nat.eqb ml (length nk) then
          rbind (insert f d c (skipn ml k) value) (fun r =>
            if fst r then Ok (true, Short nk (snd r) newflag) else Ok (false, n))
        else
          match nth_error nk ml, nth_error k ml with
          | Some oi, Some ni =>
            (* insert(nil, rest, x) = x when rest is empty, else a fresh short node *)
            let leaf rest x := match rest with [] => x | _ => Short rest x newflag end in
            let b1 := set_nth oi (leaf (skipn (S ml) nk) c) empty_children in
            let b2 := set_nth ni (leaf (skipn (S ml) k) value) b1 in
            let branch := Full b2 newflag in
            if Nat.eqb ml 0 then Ok (true, branch)
            else Ok (true, Short (firstn ml k) branch newflag)
          | _, _ => Crash                             (* key[matchlen] out of range *)
          end
      | Full cs fl =>
        match nth_error cs k0 with
        | None => Crash
        | Some c =>
          rbind (insert f d c kt value) (fun r =>
            if fst r then Ok (true, Full (set_nth k0 (snd r) cs) newflag) else Ok (false, n))
        end
      | Empty => Ok (true, Short k value newflag)
      | Ref h =>
        rbind (resolve_hash d h) (fun rn =>
          rbind (insert f d rn k value) (fun r =>
            if fst r then Ok (true, snd r) else Ok (false, rn)))
      | Value _ => Crash                              (* "invalid node" *)
      end
    end
  end.

(** index of the single non-nil child, as the loop in delete computes it:
    None = no child, Some (inl i) = exactly one (at i), Some (inr tt) = two or more *)
Fixpoint single_child (cs : list node) (i : nat) (acc : option nat) : option (nat + unit) :=
  match cs with
  | [] => match acc with None => None | Some p => Some (inl p) end
  | c :: t =>
    if is_empty c then single_child t (S i) acc
    else match acc with
         | None => single_child t (S i) (Some i)
         | Some _ => Some (inr tt)
         end
  end.

(** Trie.delete: (dirty, new node) *)
Fixpoint delete (fuel : nat) (d : db) (n : node) (k : key) : res (bool * node) :=
  match fuel with
  | O => OutOfFuel
  | S f =>
    match n with
    | Short nk c fl =>
      let ml := prefix_len k nk in
      if Nat.ltb ml (length nk) then Ok (false, n)
      else if Nat.eqb ml (length k) then Ok (true, Empty)
      else
        rbind (delete f d c (skipn (length nk) k)) (fun r =>
          if fst r then
            match snd r with
            | Short ck cc _ => Ok (true, Short (nk ++ ck) cc newflag)
            | child => Ok (true, Short nk child newflag)
            end
          else Ok (false, n))
    | Full cs fl =>
      match k with
      | [] => Crash
      | k0 :: kt =>
        match nth_error cs k0 with
        | None => Crash
        | Some c =>
          rbind (delete f d c kt) (fun r =>
            if fst r then
              let cs' := set_nth k0 (snd r) cs in
              let n' := Full cs' newflag in
              if negb (is_empty (snd r)) then Ok (true, n')
              else
                match single_child cs' 0 None with
                | Some (inl pos) =>
                  let only := nth pos cs' Empty in
                  if negb (Nat.eqb pos 16) then
                    rbind (match only with Ref h => resolve_hash d h | _ => Ok only end) (fun cnode =>
                      match cnode with
                      | Short ck cv _ => Ok (true, Short (pos :: ck) cv newflag)
                      | _ => Ok (true, Short [pos] only newflag)
                      end)
                  else Ok (true, Short [pos] only newflag)
                | _ => Ok (true, n')
                end
            else Ok (false, n))
        end
      end
    | Value _ => Ok (true, Empty)
    | Empty => Ok (false, Empty)
    | Ref h =>
      rbind (resolve_hash d h) (fun rn =>
        rbind (delete f d rn k) (fun r =>
          if fst r then Ok (true, snd r) else Ok (false, rn)))
    end
  end.

(** fuel for a walk along key [k]: one step per nibble plus one resolution per step *)
Definition fuel_of (k : key) : nat := 2 * length k + 4.

(** Trie.Update / Trie.Delete on the root (an empty value deletes) *)
Definition trie_update (d : db) (root : node) (kb : bytes) (v : bytes) : res node :=
  let k := keybytes_to_hex kb in
  match v with
  | [] => rbind (delete (fuel_of k) d root k) (fun r => Ok (snd r))
  | _ => rbind (insert (fuel_of k) d root k (Value v)) (fun r => Ok (snd r))
  end.

Definition trie_delete (d : db) (root : node) (kb : bytes) : res node :=
  let k := keybytes_to_hex kb in
  rbind (delete (fuel_of k) d root k) (fun r => Ok (snd r)).

(** Trie.Get: (value, new root) *)
Definition trie_get (d : db) (root : node) (kb : bytes) : res (bytes * node) :=
  let k := keybytes_to_hex kb in get (fuel_of k) d root k.

(* ------------------------------------------------------------------ hasher.go *)

(** what a node collapses to inside its parent's encoding *)
Inductive href :=
| HNil                  (* nil / nilValueNode: 0x80 *)
| HVal (v : bytes)      (* valueNode *)
| HHash (h : bytes)     (* hashNode *)
| HEmb (enc : bytes).   (* collapsed node whose RLP is < 32 bytes, stored inline *)

Definition enc_href (r : href) : bytes :=
  match r with
  | HNil => [128%N]
  | HVal v => rlp_string v
  | HHash h => rlp_string h
  | HEmb e => e
  end.

(** shortnodeToHash / fullnodeToHash *)
Definition finish (enc : bytes) (force : bool) : href :=
  if N.ltb (nlen enc) 32 && negb force then HEmb enc else HHash (H enc).

Definition flag_after (r : href) (old : flag) : flag :=
  match r with
  | HHash h => mkFlag (Some h) (fdirty old)
  | _ => mkFlag None (fdirty old)
  end.

Definition short_enc (k : key) (child : href) : bytes :=
  rlp_list (rlp_string (hex_to_compact k) ++ enc_href child).
Definition full_enc (children : list href) : bytes :=
  rlp_list (concat (map enc_href children)).

(** hasher.hash: (hashed, cached) *)
Fixpoint hash_node (n : node) (force : bool) {struct n} : href * node :=
  match n with
  | Empty => (HNil, n)
  | Value v => (HVal v, n)
  | Ref h => (HHash h, n)
  | Short k c fl =>
    match fhash fl with
    | Some h => (HHash h, n)
    | None =>
      let rc := hash_node c false in
      let r := finish (short_enc k (fst rc)) force in
      (r, Short k (snd rc) (flag_after r fl))
    end
  | Full cs fl =>
    match fhash fl with
    | Some h => (HHash h, n)
    | None =>
      let rs := map (fun c => hash_node c false) cs in
      let r := finish (full_enc (map fst rs)) force in
      (r, Full (map snd rs) (flag_after r fl))
    end
  end.

Definition href_hash (r : href) : bytes :=
  match r with HHash h => h | HEmb e => H e | _ => [] end.

(** Trie.Hash: (root hash, root with caches filled) *)
Definition trie_hash (root : node) : bytes * node :=
  match root with
  | Empty => (empty_root, Empty)
  | _ => let rc := hash_node root true in (href_hash (fst rc), snd rc)
  end.

(* ------------------------------------------------------------------ committer.go *)

Definition clean_hash (fl : flag) : option bytes :=
  match fhash fl with Some h => if fdirty fl then None else Some h | None => None end.

(** committer.commit + store: (what the parent keeps, nodes written (hash, blob)) *)
Fixpoint commit_node (n : node) {struct n} : href * list (bytes * bytes) :=
  match n with
  | Empty => (HNil, [])            (* never committed (the Go code panics); not reachable *)
  | Value v => (HVal v, [])
  | Ref h => (HHash h, [])
  | Short k c fl =>
    match clean_hash fl with
    | Some h => (HHash h, [])
    | None =>
      let rc := match c with
                | Full _ _ => commit_node c
                | Value v => (HVal v, [])
                | Ref h => (HHash h, [])
                | Empty => (HNil, [])
                | Short _ _ _ => commit_node c   (* not reachable: short under short *)
                end in
      let enc := short_enc k (fst rc) in
      match fhash fl with
      | None => (HEmb enc, snd rc)
      | Some h => (HHash h, snd rc ++ [(h, enc)])
      end
    end
  | Full cs fl =>
    match clean_hash fl with
    | Some h => (HHash h, [])
    | None =>
      let rs := map commit_node cs in
      let enc := full_enc (map fst rs) in
      match fhash fl with
      | None => (HEmb enc, concat (map snd rs))
      | Some h => (HHash h, concat (map snd rs) ++ [(h, enc)])
      end
    end
  end.

(** Trie.Commit(false): (root hash, new root, node set) *)
Definition trie_commit (root : node) : bytes * node * list (bytes * bytes) :=
  match root with
  | Empty => (empty_root, Empty, [])
  | _ =>
    let hc := trie_hash root in
    let cached := snd hc in
    match cached with
    | Short _ _ fl | Full _ fl =>
      if fdirty fl then
        let rc := commit_node cached in (fst hc, Ref (href_hash (fst rc)), snd rc)
      else (fst hc, Ref (match fhash fl with Some h => h | None => [] end), [])
    | _ => (fst hc, cached, [])
    end
  end.

(** trie.New(TrieID(root), db) *)
Definition trie_open (d : db) (root : bytes) : res node :=
  if beq root (repeat 0%N 32) || beq root empty_root then Ok Empty
  else resolve_hash d root.

(* ------------------------------------------------------------------ proof.go *)

(** collapsed encoding of a node, recomputed at this level (hasher.proofHash) *)
Definition proof_enc (n : node) : bytes :=
  match n with
  | Short k c _ => short_enc k (fst (hash_node c false))
  | Full cs _ => full_enc (map (fun c => fst (hash_node c false)) cs)
  | _ => []
  end.

(** the first loop of Trie.Prove: nodes on the path *)
Fixpoint prove_walk (fuel : nat) (d : db) (tn : node) (k : key) (acc : list node)
  : res (list node) :=
  match fuel with
  | O => OutOfFuel
  | S f =>
    match k with
    | [] => Ok (rev acc)
    | k0 :: kt =>
      match tn with
      | Empty => Ok (rev acc)
      | Short nk c _ =>
        if Nat.ltb (length k) (length nk) || negb (keq nk (firstn (length nk) k))
        then Ok (rev (tn :: acc))
        else prove_walk f d c (skipn (length nk) k) (tn :: acc)
      | Full cs _ =>
        match nth_error cs k0 with
        | None => Crash
        | Some c => prove_walk f d c kt (tn :: acc)
        end
      | Ref h =>
        match db_get d h with
        | None | Some [] => Missing
        | Some blob =>
          match decode_node (length blob) (Some h) blob with
          | None => Crash
          | Some n => prove_walk f d n k acc
          end
        end
      | Value _ => Crash
      end
    end
  end.

Fixpoint proof_blobs (first : bool) (ns : list node) : list bytes :=
  match ns with
  | [] => []
  | n :: t =>
    let enc := proof_enc n in
    if first || negb (N.ltb (nlen enc) 32) then enc :: proof_blobs false t
    else proof_blobs false t
  end.

(** Trie.Prove(key, 0, _): the proof as the list of node blobs in the order they are Put *)
Definition prove (d : db) (root : node) (kb : bytes) : res (list bytes) :=
  let k := keybytes_to_hex kb in
  rbind (prove_walk (fuel_of k) d root k []) (fun ns => Ok (proof_blobs true ns)).

(** proof.go get(tn, key, skipResolved = true): (rest of key, child) *)
Fixpoint pget (tn : node) (k : key) {struct tn} : res (key * node) :=
  match tn with
  | Short nk c _ =>
    if Nat.ltb (length k) (length nk) || negb (keq nk (firstn (length nk) k))
    then Ok ([], Empty)
    else pget c (skipn (length nk) k)
  | Full cs _ =>
    match k with
    | [] => Crash
    | k0 :: kt =>
      (fix pick (l : list node) (i : nat) {struct l} : res (key * node) :=
         match l with
         | [] => Crash
         | c :: t => match i with O => pget c kt | S i' => pick t i' end
         end) cs k0
    end
  | Ref h => Ok (k, tn)
  | Empty => Ok (k, Empty)
  | Value v => Ok ([], tn)
  end.

(** the database a verifier builds from a list of blobs: keys are computed by hashing *)
Definition db_of (blobs : list bytes) : db := map (fun b => (H b, b)) blobs.

Inductive vres := VValue (v : bytes) | VAbsent | VError | VCrash.

(** VerifyProof *)
Fixpoint verify_loop (fuel : nat) (d : db) (want : bytes) (k : key) : vres :=
  match fuel with
  | O => VError
  | S f =>
    match db_get d want with
    | None => VError
    | Some buf =>
      match buf with
      | [] => VError                                   (* buf == nil *)
      | _ =>
        match decode_node (length buf) (Some want) buf with
        | None => VError
        | Some n =>
          match pget n k with
          | Ok (rest, Empty) => VAbsent
          | Ok (rest, Ref h) => verify_loop f d h rest
          | Ok (_, Value v) => VValue v
          | Ok (_, _) => VCrash
          | _ => VCrash
          end
        end
      end
    end
  end.

Definition verify_proof (root : bytes) (kb : bytes) (blobs : list bytes) : vres :=
  let k := keybytes_to_hex kb in
  verify_loop (length blobs + length k + 2) (db_of blobs) root k.

(* ------------------------------------------------------------------ the canonical constructor *)

Fixpoint common_prefix (a b : key) : key :=
  match a, b with
  | x :: a', y :: b' => if Nat.eqb x y then x :: common_prefix a' b' else []
  | _, _ => []
  end.

Definition common_prefix_all (m : list (key * bytes)) : key :=
  match m with
  | [] => []
  | (k, _) :: t => fold_left (fun p kv => common_prefix p (fst kv)) t k
  end.

Definition strip (n : nat) (m : list (key * bytes)) : list (key * bytes) :=
  map (fun kv => (skipn n (fst kv), snd kv)) m.

Definition sub (i : nat) (m : list (key * bytes)) : list (key * bytes) :=
  flat_map (fun kv => match fst kv with
                      | x :: t => if Nat.eqb x i then [(t, snd kv)] else []
                      | [] => []
                      end) m.

(** [build fuel m]: the unique minimal trie for the finite map [m] (distinct wf keys,
    non-empty values); fuel = 2 * (longest key) + 2 *)
Fixpoint build (fuel : nat) (m : list (key * bytes)) : node :=
  match fuel with
  | O => Empty
  | S f =>
    match m with
    | [] => Empty
    | [(k, v)] => match k with [] => Value v | _ => Short k (Value v) newflag end
    | _ =>
      match common_prefix_all m with
      | [] => Full (map (fun i => build f (sub i m)) (seq 0 17)) newflag
      | p => Short p (build f (strip (length p) m)) newflag
      end
    end
  end.

Definition build_fuel (m : list (key * bytes)) : nat :=
  2 * fold_left (fun a kv => Nat.max a (length (fst kv))) m 0 + 2.

Definition build_root (m : list (bytes * bytes)) : bytes :=
  let m' := map (fun kv => (keybytes_to_hex (fst kv), snd kv)) m in
  fst (trie_hash (build (build_fuel m') m')).

(* ------------------------------------------------------------------ stacktrie.go *)

Inductive stn :=
| StNil                              (* nil child pointer *)
| StEmpty                            (* emptyNode *)
| StLeaf (k : key) (v : bytes)
| StExt (k : key) (c : stn)
| StBranch (cs : list stn)           (* 16 children *)
| StHashed (val : bytes).

Definition st_finish (enc : bytes) : bytes := if N.ltb (nlen enc) 32 then enc else H enc.
Definition st_ref (v : bytes) : bytes := if N.ltb (nlen v) 32 then v else rlp_string v.

(** hashRec: the value (embedded encoding or hash) the node is replaced by *)
Fixpoint st_hash (s : stn) {struct s} : bytes :=
  match s with
  | StNil => []
  | StHashed v => v
  | StEmpty => empty_root
  | StBranch cs =>
    st_finish (rlp_list (concat (map (fun c => match c with
                                               | StNil => [128%N]
                                               | _ => st_ref (st_hash c)
                                               end) cs) ++ [128%N]))
  | StExt k c =>
    st_finish (rlp_list (rlp_string (hex_to_compact k) ++ st_ref (st_hash c)))
  | StLeaf k v =>
    st_finish (rlp_list (rlp_string (hex_to_compact (k ++ [16])) ++ rlp_string v))
  end.

(** getDiffIndex (None = index out of range panic) *)
Fixpoint diff_index (sk k : key) : option nat :=
  match sk with
  | [] => Some 0
  | x :: sk' => match k with
                | [] => None
                | y :: k' => if Nat.eqb x y
                             then match diff_index sk' k' with Some i => Some (S i) | None => None end
                             else Some 0
                end
  end.

Definition st_nil_children : list stn := repeat StNil 16.

(** hash the nearest non-nil child strictly below [idx] unless it is already hashed *)
Fixpoint hash_prev (cs : list stn) (idx : nat) : list stn :=
  match idx with
  | O => cs
  | S i =>
    match nth i cs StNil with
    | StNil => hash_prev cs i
    | StHashed _ => cs
    | c => set_nth i (StHashed (st_hash c)) cs
    end
  end.

(** StackTrie.insert (None = panic) *)
Fixpoint st_insert (fuel : nat) (s : stn) (k : key) (v : bytes) : option stn :=
  match fuel with
  | O => None
  | S f =>
    match s with
    | StBranch cs =>
      match k with
      | [] => None
      | idx :: kt =>
        if Nat.leb 16 idx then None else
        let cs1 := hash_prev cs idx in
        match nth idx cs1 StNil with
        | StNil => Some (StBranch (set_nth idx (StLeaf kt v) cs1))
        | c => match st_insert f c kt v with
               | None => None
               | Some c' => Some (StBranch (set_nth idx c' cs1))
               end
        end
      end
    | StExt sk c =>
      match diff_index sk k with
      | None => None
      | Some di =>
        if Nat.eqb di (length sk) then
          match st_insert f c (skipn di k) v with
          | None => None
          | Some c' => Some (StExt sk c')
          end
        else
          let n := if Nat.ltb di (length sk - 1)
                   then StHashed (st_hash (StExt (skipn (S di) sk) c))
                   else StHashed (st_hash c) in
          match nth_error sk di, nth_error k di with
          | Some oi, Some ni =>
            let br := StBranch (set_nth ni (StLeaf (skipn (S di) k) v)
                                  (set_nth oi n st_nil_children)) in
            if Nat.eqb di 0 then Some br else Some (StExt (firstn di sk) br)
          | _, _ => None
          end
      end
    | StLeaf sk sv =>
      match diff_index sk k with
      | None => None
      | Some di =>
        if Nat.leb (length sk) di then None           (* "Trying to insert into existing key" *)
        else
          match nth_error sk di, nth_error k di with
          | Some oi, Some ni =>
            let old := StHashed (st_hash (StLeaf (skipn (S di) sk) sv)) in
            let br := StBranch (set_nth ni (StLeaf (skipn (S di) k) v)
                                  (set_nth oi old st_nil_children)) in
            if Nat.eqb di 0 then Some br else Some (StExt (firstn di sk) br)
          | _, _ => None
          end
      end
    | StEmpty => Some (StLeaf k v)
    | StHashed _ => None                              (* "trying to insert into hash" *)
    | StNil => None
    end
  end.

(** StackTrie.Update: empty value panics; the key loses its terminator *)
Definition st_update (s : stn) (kb : bytes) (v : bytes) : option stn :=
  match v with
  | [] => None
  | _ => let k := removelast (keybytes_to_hex kb) in st_insert (length k + 2) s k v
  end.

(** StackTrie.Hash *)
Definition st_root (s : stn) : bytes :=
  let v := st_hash s in if N.eqb (nlen v) 32 then v else H v.

Fixpoint st_updates (s : stn) (kvs : list (bytes * bytes)) : option stn :=
  match kvs with
  | [] => Some s
  | (k, v) :: t => match st_update s k v with None => None | Some s' => st_updates s' t end
  end.

Definition stack_root (kvs : list (bytes * bytes)) : option bytes :=
  match st_updates StEmpty kvs with None => None | Some s => Some (st_root s) end.

(* ------------------------------------------------------------------ types/hashing.go *)

(** rlp.AppendUint64 *)
Definition rlp_uint (i : N) : bytes :=
  if N.eqb i 0 then [128%N] else if N.ltb i 128 then [i]
  else let l := be_bytes i in (128 + nlen l)%N :: l.

(** the (index, value) pairs in the order DeriveSha feeds them to the hasher *)
Definition derive_order (vals : list bytes) : list (bytes * bytes) :=
  let n := length vals in
  let item i := (rlp_uint (N.of_nat i), nth i vals []) in
  map item (seq 1 (Nat.min n 128 - 1)) ++
  (if Nat.ltb 0 n then [item 0] else []) ++
  map item (seq 128 (n - 128)).

Definition derive_sha_stack (vals : list bytes) : option bytes := stack_root (derive_order vals).

(** DeriveSha with an ordinary Trie as hasher *)
Fixpoint trie_updates (d : db) (root : node) (kvs : list (bytes * bytes)) : res node :=
  match kvs with
  | [] => Ok root
  | (k, v) :: t => rbind (trie_update d root k v) (fun r => trie_updates d r t)
  end.

Definition derive_sha_trie (vals : list bytes) : res bytes :=
  rbind (trie_updates [] Empty (derive_order vals)) (fun r => Ok (fst (trie_hash r))).

(* ------------------------------------------------------------------ secure_trie.go *)

Definition secure_key (kb : bytes) : bytes := H kb.       (* StateTrie.hashKey *)

(* ------------------------------------------------------------------ histories *)

Inductive op :=
| OpUpdate (s : nat) (k v : bytes)
| OpDelete (s : nat) (k : bytes)
| OpGet (s : nat) (k : bytes)
| OpHash (s : nat)
| OpCommit (s : nat)                 (* Trie.Commit(false) + Database.Update(node set) *)
| OpReopen (s dst : nat)             (* commit slot s, then dst := trie.New(root, db) *)
| OpCopy (s dst : nat).

Record state := mkState { slots : list node; nodedb : db }.

Definition init_state (nslots : nat) : state := mkState (repeat Empty nslots) [].

Definition slot (st : state) (s : nat) : node := nth s (slots st) Empty.
Definition set_slot (st : state) (s : nat) (n : node) : state :=
  mkState (set_nth s n (slots st)) (nodedb st).

(** result of an operation: for Get the value, for Hash/Commit/Reopen the root hash *)
Definition step (st : state) (o : op) : state * res bytes :=
  match o with
  | OpUpdate s k v =>
    match trie_update (nodedb st) (slot st s) k v with
    | Ok n => (set_slot st s n, Ok [])
    | Missing => (st, Missing) | Crash => (st, Crash) | OutOfFuel => (st, OutOfFuel)
    end
  | OpDelete s k =>
    match trie_delete (nodedb st) (slot st s) k with
    | Ok n => (set_slot st s n, Ok [])
    | Missing => (st, Missing) | Crash => (st, Crash) | OutOfFuel => (st, OutOfFuel)
    end
  | OpGet s k =>
    match trie_get (nodedb st) (slot st s) k with
    | Ok (v, n) => (set_slot st s n, Ok v)
    | Missing => (st, Missing) | Crash => (st, Crash) | OutOfFuel => (st, OutOfFuel)
    end
  | OpHash s =>
    let hc := trie_hash (slot st s) in (set_slot st s (snd hc), Ok (fst hc))
  | OpCommit s =>
    match trie_commit (slot st s) with
    | (h, n, set) => (mkState (set_nth s n (slots st)) (set ++ nodedb st), Ok h)
    end
  | OpReopen s dst =>
    match trie_commit (slot st s) with
    | (h, n, set) =>
      let st1 := mkState (set_nth s n (slots st)) (set ++ nodedb st) in
      match trie_open (nodedb st1) h with
      | Ok r => (set_slot st1 dst r, Ok h)
      | Missing => (st1, Missing) | Crash => (st1, Crash) | OutOfFuel => (st1, OutOfFuel)
      end
    end
  | OpCopy s dst => (set_slot st dst (slot st s), Ok [])
  end.

(** observation that does not disturb the trie (the harness takes it on a Copy):
    root hash and the values of the probe keys *)
Definition observe (st : state) (s : nat) (probes : list bytes) : bytes * list (res bytes) :=
  let n := slot st s in
  (fst (trie_hash n),
   map (fun k => match trie_get (nodedb st) n k with
                 | Ok (v, _) => Ok v
                 | Missing => Missing | Crash => Crash | OutOfFuel => OutOfFuel
                 end) probes).

End WithHash.
