(** C07 proofs, part 14 (round 3): range proofs (trie/proof.go VerifyRangeProof, transcribed in
    ModelRange.v).
    - the proof-less form (the whole leaf set): acceptance means the given root IS the canonical
      root of exactly the given leaves (through stack trie = trie);
    - the two-edge form is NOT sound for elements outside [firstKey, lastKey]: a computed witness
      (the model transcribes the code as it is: the error of Trie.Update is dropped while the leaf
      stream is re-inserted, and no bound check exists) — known finding range-outside-element. *)
From Coq Require Import List NArith Arith Bool Lia.
From Kardia Require Import C07.Model C07.ModelRange C07.ProofsBase C07.ProofsCanon C07.ProofsStackIns.
Import ListNotations.

(* ------------------------------------------------------------------ whole-trie ranges *)

Section Whole.
Variable H : bytes -> bytes.
Hypothesis Hlen : forall x, length (H x) = 32.

Lemma range_whole_sound root first last (keys vals : list bytes) more :
  let kvs := combine keys vals in
  Forall (fun kv => is_bytes (fst kv) /\ snd kv <> []) kvs -> sorted_bytes kvs ->
  verify_range H root first last keys vals None = RAccept more ->
  more = false /\ length keys = length vals /\ root = build_root H kvs.
Proof.
  intros kvs Hok Hs. unfold verify_range.
  destruct (Nat.eqb (length keys) (length vals)) eqn:El; cbn [negb]; [|intros X; discriminate X].
  destruct (increasing keys); cbn [negb]; [|intros X; discriminate X].
  destruct (existsb (fun v => Nat.eqb (length v) 0) vals); [intros X; discriminate X|].
  fold kvs. rewrite (stack_equals H Hlen kvs Hok (sorted_bytes_pf kvs Hok Hs)).
  destruct (beq (build_root H kvs) root) eqn:Eb; [|intros X; discriminate X].
  intros Hv. inversion Hv; subst. apply beq_eq in Eb. apply Nat.eqb_eq in El. auto.
Qed.

(** completeness of the same form: the sorted leaf set of a trie is accepted against its root *)
Lemma range_whole_complete first last (keys vals : list bytes) :
  let kvs := combine keys vals in
  length keys = length vals ->
  Forall (fun kv => is_bytes (fst kv) /\ snd kv <> []) kvs -> sorted_bytes kvs ->
  increasing keys = true ->
  verify_range H (build_root H kvs) first last keys vals None = RAccept false.
Proof.
  intros kvs El Hok Hs Hinc. unfold verify_range. rewrite El, Nat.eqb_refl, Hinc. cbn [negb].
  assert (Hne : existsb (fun v => Nat.eqb (length v) 0) vals = false).
  { apply not_true_is_false. intros Hex. apply existsb_exists in Hex as (v & Hin & Hz).
    apply Nat.eqb_eq in Hz. destruct v; [|discriminate].
    assert (Hc : exists k, In (k, []) kvs).
    { unfold kvs. clear -El Hin. revert keys El. induction vals as [|w vals IH]; intros keys El; [destruct Hin|].
      destruct keys as [|k keys]; [discriminate|]. cbn in El. destruct Hin as [->|Hin].
      - exists k. left. reflexivity.
      - destruct (IH Hin keys) as (k' & Hk'); [lia|]. exists k'. right. exact Hk'. }
    destruct Hc as (k & Hk). rewrite Forall_forall in Hok. destruct (Hok _ Hk) as [_ Hv]. apply Hv. reflexivity. }
  rewrite Hne. fold kvs. rewrite (stack_equals H Hlen kvs Hok (sorted_bytes_pf kvs Hok Hs)), beq_refl. reflexivity.
Qed.

End Whole.

(* ------------------------------------------------------------------ the witness *)

(** a 32-byte "hash" that computes inside Coq (nothing about it matters except its length) *)
Definition h0 (x : bytes) : bytes :=
  let s := fold_left (fun a b => (a * 257 + b + 1) mod 18446744073709551557)%N x 7%N in
  map (fun i => (s / (N.of_nat i * 251 + 1) + N.of_nat i * 37) mod 256)%N (seq 0 32).

Lemma h0_len x : length (h0 x) = 32.
Proof. unfold h0. rewrite map_length, seq_length. reflexivity. Qed.

Definition w_val (k : N) : bytes := repeat k 33.
Definition w_trie : res node :=
  trie_updates [] Empty [([16], w_val 16); ([32], w_val 32); ([48], w_val 48); ([64], w_val 64)]%N.
Definition w_keys : list bytes := [[16]; [32]; [48]]%N.
Definition w_rest : list bytes := [w_val 32; w_val 48].

(** trie {10, 20, 30, 40 -> 33 x the key byte}; edge proofs for 20 and 30; the leaf stream
    (10 -> v), 20, 30 is accepted for v = ee and for v = dd although the trie holds 10 -> 10..10 *)
Lemma range_outside_witness :
  match w_trie with
  | Ok n =>
    let root := fst (trie_hash h0 n) in
    match prove h0 [] n [32%N], prove h0 [] n [48%N], trie_get [] n [16%N] with
    | Ok p1, Ok p2, Ok (stored, _) =>
      let blobs := p1 ++ p2 in
      let accepts v := match verify_range h0 root [32%N] [48%N] w_keys (v :: w_rest) (Some blobs) with
                       | RAccept _ => true | _ => false end in
      accepts [238%N] && accepts [221%N] && beq stored (w_val 16) &&
      match verify_range h0 root [32%N] [48%N] [[32]; [48]]%N w_rest (Some blobs) with
      | RAccept _ => true | _ => false end
    | _, _, _ => false
    end
  | _ => false
  end = true.
Proof. vm_compute. reflexivity. Qed.
