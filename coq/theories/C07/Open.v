(** C07 — statements that are NOT proved.  After round 2 every statement that used to be here
    (cache correctness, node codec round trip, commit/reopen, proof completeness and soundness,
    build = operational trie, stack trie = trie) is a theorem in Properties.v.

    What remains outside the proofs and is carried by the harness only (differentially,
    implementation vs model byte for byte, plus the direct oracles):
    - a second Commit after nodes were resolved from the database (clean nodes that the
      committer skips): [C07_reopen] is about tries reached from the empty trie by
      Update / Delete / Hash, all of whose nodes are dirty;
    - (insert / delete / Hash THROUGH hash nodes after ONE commit are proved since round 3:
      C07_root_independent_of_commit; what stays open is the SECOND commit below);
    - VerifyRangeProof: modelled since round 3 (ModelRange.v: proofToPath, unsetInternal, unset,
      hasRightElement, the four cases), compared with the implementation on honest, tampered and
      malformed inputs; PROVED only for the proof-less whole-trie form (C07_range_whole_partial /
      _complete) and REFUTED for elements outside the edge keys (C07_range_outside_refuted, known
      finding).  Soundness of the two-edge form for the elements INSIDE [firstKey, lastKey] is
      carried by the direct oracle range-unsound (incl. the exhaustive drop / alter sweeps) only;
    - the iterator: C07_iterator_enumerates is about the SEQUENCE OF LEAVES (the model filters the
      pre-order walk); the seek machinery of nodeIterator (stack, nextChildAt) is compared, not
      transcribed;
    - the reference-counting garbage collection of triedb/hashdb (Reference / Dereference / Cap):
      direct oracle gc-lost-node / gc-content only (the model's database only grows);
    - types.DeriveSha's index order being [sorted_bytes] (the rlp(i) keys are compared by the
      harness; C07_stack_equals takes the order as a hypothesis). *)
From Coq Require Import List NArith Arith Bool.
From Kardia Require Import C07.Model C07.ProofsBase C07.ProofsCanon.
Import ListNotations.

(** second commit: committing a trie whose root is a view (hash nodes resolved from the database,
    clean flags) of a canonical trie writes what is missing and reopening gives the same content *)
Definition C07_recommit_statement (H : bytes -> bytes) : Prop :=
  forall d ops1 ops2 st,
    st = fold_left (fun st o => fst (step H st o)) (ops1 ++ [OpCommit 0] ++ ops2 ++ [OpReopen 0 1]) (mkState [Empty; Empty] d) ->
    (exists x y : bytes, x <> y /\ H x = H y) \/
    forall kb, fst (trie_hash H (slot st 1)) = fst (trie_hash H (slot st 0)) /\
               (forall v n, trie_get (nodedb st) (slot st 0) kb = Ok (v, n) ->
                            exists n', trie_get (nodedb st) (slot st 1) kb = Ok (v, n')).
