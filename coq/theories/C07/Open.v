(** C07 — statements that are NOT proved (after round 2 only the stack-trie equality is left).  They are kept as [Definition]s (no
    axioms) so that the reading of the property is auditable; the harness carries them
    differentially (implementation vs model, byte for byte, and direct oracles). *)
From Coq Require Import List NArith Arith Bool.
From Kardia Require Import C07.Model C07.ProofsBase C07.ProofsCanon.
Import ListNotations.

Section Open.
Variable H : bytes -> bytes.


(** streaming trie: for strictly increasing, prefix-free keys and non-empty values the stack
    trie does not panic and computes the root of the canonical trie [build] *)
Fixpoint klt (a b : key) : Prop :=
  match a, b with
  | _, [] => False
  | [], _ :: _ => True
  | x :: a', y :: b' => x < y \/ (x = y /\ klt a' b')
  end.

Definition sorted_prefix_free (kvs : list (bytes * bytes)) : Prop :=
  forall i j a b, i < j -> nth_error kvs i = Some a -> nth_error kvs j = Some b ->
    klt (keybytes_to_hex (fst a)) (keybytes_to_hex (fst b)) /\
    forall r, fst b <> fst a ++ r.

Definition C07_stack_equals_statement : Prop :=
  forall kvs : list (bytes * bytes),
  Forall (fun kv => is_bytes (fst kv) /\ snd kv <> []) kvs ->
  sorted_prefix_free kvs ->
  stack_root H kvs = Some (build_root H kvs).

End Open.
