(** C07 proofs, part 8: committer.commit on a hashed trie returns the from-scratch reference and
    writes the encoding of every hashed node; looking those hashes up in the database returns
    the encodings again — or exhibits a Keccak collision. *)
From Coq Require Import List ZArith NArith Arith Bool Lia.
From Kardia Require Import C07.Model C07.ProofsBase C07.ProofsMap C07.ProofsCanon C07.ProofsEnc
     C07.ProofsCache C07.ProofsRlp C07.ProofsCodec.
Import ListNotations.

Section Commit.
Variable H : bytes -> bytes.

Definition collision : Prop := exists x y : bytes, x <> y /\ H x = H y.

Definition entries_ok (S : list (bytes * bytes)) : Prop := forall h b, In (h, b) S -> h = H b.

(** every hashed node of the subtree has its (hash, encoding) pair in [S] *)
Inductive covered_in (S : list (bytes * bytes)) : bool -> node -> Prop :=
| CovE root : covered_in S root Empty
| CovV root v : covered_in S root (Value v)
| CovS root k c f :
    (forall h, hspec H (Short k c f) root = HHash h -> In (h, cenc H (Short k c f)) S) ->
    covered_in S false c -> covered_in S root (Short k c f)
| CovF root cs f :
    (forall h, hspec H (Full cs f) root = HHash h -> In (h, cenc H (Full cs f)) S) ->
    (forall c, In c cs -> covered_in S false c) -> covered_in S root (Full cs f).

Lemma covered_in_incl S S' root n : incl S S' -> covered_in S root n -> covered_in S' root n.
Proof.
  intros Hi Hc. induction Hc as [| |root k c f Ho Hc IH|root cs f Ho Hc IH]; constructor; auto.
Qed.

Lemma clean_hash_dirty fl : fdirty fl = true -> clean_hash fl = None.
Proof. unfold clean_hash. intros ->. destruct (fhash fl); reflexivity. Qed.

Lemma hspec_is_finish n root : (match n with Short _ _ _ | Full _ _ => True | _ => False end) ->
  hspec H n root = finish H (cenc H n) root.
Proof. apply hspec_cenc. Qed.

Lemma finish_cases e root :
  (finish H e root = HEmb e) \/ (finish H e root = HHash (H e)).
Proof. unfold finish. destruct (N.ltb (nlen e) 32 && negb root); auto. Qed.

(** own part of the commit of a node whose children have been committed to [st] *)
Lemma commit_own n root enc st (fl : flag) :
  (match n with Short _ _ _ | Full _ _ => True | _ => False end) ->
  enc = cenc H n -> fhash fl = href_opt (hspec H n root) ->
  let r := match fhash fl with None => (HEmb enc, st) | Some h => (HHash h, st ++ [(h, enc)]) end in
  fst r = hspec H n root /\
  (forall h, hspec H n root = HHash h -> In (h, cenc H n) (snd r)) /\
  incl st (snd r) /\
  (entries_ok st -> entries_ok (snd r)).
Proof.
  intros Hn -> Hf. rewrite Hf. rewrite (hspec_is_finish n root Hn).
  destruct (finish_cases (cenc H n) root) as [E|E]; rewrite E; cbn [href_opt fst snd].
  - split; auto. split; [discriminate|]. split; [apply incl_refl|auto].
  - split; auto. split.
    + intros h Eh. inversion Eh; subst. apply in_or_app. right. left. reflexivity.
    + split; [apply incl_appl, incl_refl|].
      intros Hs h b Hin. apply in_app_or in Hin as [Hin|[Hin|[]]]; [auto|]. inversion Hin; subst. reflexivity.
Qed.

Lemma commit_ok n : canon n -> forall root, caches_ok H root n -> exact H root n ->
  fst (commit_node n) = hspec H n root /\
  covered_in (snd (commit_node n)) root n /\
  entries_ok (snd (commit_node n)).
Proof.
  induction 1 as [|p v f Hp Hv|k cs g f Hk Hn Hc IH|cs f Hl Hch IH H16 Hcnt]; intros root Hok Hex.
  - cbn. split; auto. split; [constructor|]. intros h b [].
  - (* leaf *)
    apply caches_ok_short in Hok as (Hd & _ & _). apply exact_short in Hex as (Hf & _).
    cbn [commit_node]. rewrite (clean_hash_dirty _ Hd). cbn [fst snd].
    destruct (commit_own (Short (p ++ [16]) (Value v) f) root
                (short_enc (p ++ [16]) (HVal v)) [] f I eq_refl Hf) as (A & B & _ & D).
    cbv zeta in *. split; [exact A|]. split; [apply CovS; [exact B|constructor]|].
    apply D. intros h b [].
  - (* extension *)
    apply caches_ok_short in Hok as (Hd & _ & Hokc). apply exact_short in Hex as (Hf & Hexc).
    destruct (IH false Hokc Hexc) as (I1 & I2 & I3).
    cbn [commit_node]. rewrite (clean_hash_dirty _ Hd).
    destruct (commit_own (Short k (Full cs g) f) root
                (short_enc k (fst (commit_node (Full cs g)))) (snd (commit_node (Full cs g))) f I
                ltac:(rewrite I1; reflexivity) Hf) as (A & B & C & D).
    cbv zeta in *. split; [exact A|]. split; [|apply D; exact I3].
    apply CovS; [exact B|]. eapply covered_in_incl; [exact C|exact I2].
  - (* branch *)
    apply caches_ok_full in Hok as (Hd & _ & Hokc). apply exact_full in Hex as (Hf & Hexc).
    apply all_ok_forall in Hokc. apply all_exact_forall in Hexc. rewrite Forall_forall in Hokc, Hexc.
    assert (Hchild : forall c, In c cs ->
              fst (commit_node c) = hspec H c false /\ covered_in (snd (commit_node c)) false c /\
              entries_ok (snd (commit_node c))).
    { intros c Hin. destruct (In_nth_error _ _ Hin) as (i & Hi).
      pose proof (nth_error_some_lt _ _ _ Hi) as Hlt. rewrite Hl in Hlt.
      destruct (Nat.eq_dec i 16) as [->|Hne].
      - destruct (H16 _ Hi) as [->|(v & _ & ->)]; cbn; (split; [reflexivity|]; split; [constructor|]; intros h b []).
      - apply (IH i c Hi); auto. lia. }
    cbn [commit_node]. rewrite (clean_hash_dirty _ Hd).
    assert (Eenc : full_enc (map fst (map commit_node cs)) = cenc H (Full cs f)).
    { unfold cenc. f_equal. rewrite map_map. apply map_ext_in. intros c Hin. apply Hchild; auto. }
    destruct (commit_own (Full cs f) root (full_enc (map fst (map commit_node cs)))
                (concat (map snd (map commit_node cs))) f I Eenc Hf) as (A & B & C & D).
    assert (Hsub : forall c, In c cs -> incl (snd (commit_node c)) (concat (map snd (map commit_node cs)))).
    { intros c Hin x Hx. apply in_concat. exists (snd (commit_node c)). split; auto.
      rewrite map_map. apply in_map_iff. eauto. }
    assert (Hent : entries_ok (concat (map snd (map commit_node cs)))).
    { intros h b Hin. apply in_concat in Hin as (l & Hl1 & Hl2). rewrite map_map in Hl1.
      apply in_map_iff in Hl1 as (c & <- & Hin). destruct (Hchild c Hin) as (_ & _ & E). eapply E; eauto. }
    cbv zeta in *. split; [exact A|]. split; [|apply D; exact Hent].
    apply CovF; [exact B|]. intros c Hin. eapply covered_in_incl; [|apply Hchild; exact Hin].
    eapply incl_tran; [apply Hsub; exact Hin|exact C].
Qed.

(* ------------------------------------------------------------------ the database after a commit *)

Lemma db_get_in S d e : entries_ok S -> In (H e, e) S ->
  db_get (S ++ d) (H e) = Some e \/ collision.
Proof.
  induction S as [|[k b] S IH]; intros Hs Hin; [destruct Hin|].
  cbn [app db_get]. destruct (beq k (H e)) eqn:Eb.
  - apply beq_eq in Eb. assert (Hk : k = H b) by (apply Hs; left; reflexivity).
    destruct (list_eq_dec N.eq_dec b e) as [->|Hne]; [left; reflexivity|].
    right. exists b, e. split; auto. congruence.
  - destruct Hin as [Hin|Hin].
    + inversion Hin; subst. rewrite beq_refl in Eb. discriminate.
    + apply IH; auto. intros h b' Hb'. apply Hs. right; auto.
Qed.

(** every hashed node of the subtree can be read back from the database *)
Inductive covered_db (d : db) : bool -> node -> Prop :=
| CdbE root : covered_db d root Empty
| CdbV root v : covered_db d root (Value v)
| CdbS root k c f :
    (forall h, hspec H (Short k c f) root = HHash h -> db_get d h = Some (cenc H (Short k c f))) ->
    covered_db d false c -> covered_db d root (Short k c f)
| CdbF root cs f :
    (forall h, hspec H (Full cs f) root = HHash h -> db_get d h = Some (cenc H (Full cs f))) ->
    (forall c, In c cs -> covered_db d false c) -> covered_db d root (Full cs f).

Lemma forall_or {A} (l : list A) (P : A -> Prop) (Q : Prop) :
  (forall c, In c l -> P c \/ Q) -> (forall c, In c l -> P c) \/ Q.
Proof.
  induction l as [|a l IH]; intros Hh; [left; intros c []|].
  destruct (Hh a (or_introl eq_refl)) as [Ha|HQ]; [|right; exact HQ].
  destruct IH as [Hl|HQ]; [intros c Hc; apply Hh; right; exact Hc| |right; exact HQ].
  left. intros c [<-|Hc]; auto.
Qed.

Lemma own_in_db S d n root :
  (match n with Short _ _ _ | Full _ _ => True | _ => False end) ->
  entries_ok S ->
  (forall h, hspec H n root = HHash h -> In (h, cenc H n) S) ->
  (forall h, hspec H n root = HHash h -> db_get (S ++ d) h = Some (cenc H n)) \/ collision.
Proof.
  intros Hn Hs Hin. destruct (hspec H n root) as [| |h0|] eqn:E;
    try (left; intros h X; discriminate).
  specialize (Hin h0 eq_refl). pose proof (Hs _ _ Hin) as Hh. subst h0.
  destruct (db_get_in S d _ Hs Hin) as [Hg|Hc]; [|right; exact Hc].
  left. intros h X. inversion X; subst. exact Hg.
Qed.

Lemma covered_in_db S d root n : entries_ok S -> covered_in S root n ->
  covered_db (S ++ d) root n \/ collision.
Proof.
  intros Hs Hc. induction Hc as [root|root v|root k c f Ho Hc IH|root cs f Ho Hc IH].
  - left; constructor.
  - left; constructor.
  - destruct IH as [IH|C]; [|right; exact C].
    destruct (own_in_db S d (Short k c f) root I Hs Ho) as [Hg|C]; [|right; exact C].
    left. constructor; auto.
  - destruct (forall_or cs (covered_db (S ++ d) false) collision IH) as [Hall|C]; [|right; exact C].
    destruct (own_in_db S d (Full cs f) root I Hs Ho) as [Hg|C]; [|right; exact C].
    left. constructor; auto.
Qed.

End Commit.
