(** C07 proofs, part 5: the hash caches ([nodeFlag.hash]) written by hasher.hash and kept by
    insert / delete are always the hashes the hasher would compute from scratch; therefore
    intermediate Hash() calls never change a later root. *)
From Coq Require Import List NArith Arith Bool Lia.
From Kardia Require Import C07.Model C07.ProofsBase C07.ProofsMap C07.ProofsCanon.
Import ListNotations.

(** nested induction principle for [node] *)
Section NodeInd.
  Variable P : node -> Prop.
  Hypothesis HE : P Empty.
  Hypothesis HV : forall v, P (Value v).
  Hypothesis HS : forall k c f, P c -> P (Short k c f).
  Hypothesis HF : forall cs f, Forall P cs -> P (Full cs f).
  Hypothesis HR : forall h, P (Ref h).
  Fixpoint node_ind' (n : node) : P n :=
    match n with
    | Empty => HE
    | Value v => HV v
    | Short k c f => HS k c f (node_ind' c)
    | Full cs f =>
      HF cs f ((fix go (l : list node) : Forall P l :=
                  match l with
                  | [] => Forall_nil P
                  | c :: t => Forall_cons c (node_ind' c) (go t)
                  end) cs)
    | Ref h => HR h
    end.
End NodeInd.

Section WithHash.
Variable H : bytes -> bytes.

(** the hash computed from scratch *)
Definition hspec (n : node) (force : bool) : href := fst (hash_node H (erase n) force).

Definition href_opt (r : href) : option bytes := match r with HHash h => Some h | _ => None end.

(** [exact root n]: the whole subtree is flagged exactly as a complete hashing pass leaves it
    (a node carries its hash iff its encoding is hashed, i.e. not embedded) *)
Fixpoint exact (root : bool) (n : node) {struct n} : Prop :=
  match n with
  | Short k c f => fhash f = href_opt (hspec n root) /\ exact false c
  | Full cs f =>
    fhash f = href_opt (hspec n root) /\
    (fix all (l : list node) : Prop :=
       match l with [] => True | c :: t => exact false c /\ all t end) cs
  | _ => True
  end.

Fixpoint all_exact (l : list node) : Prop :=
  match l with [] => True | c :: t => exact false c /\ all_exact t end.

Lemma exact_full root cs f :
  exact root (Full cs f) <-> fhash f = href_opt (hspec (Full cs f) root) /\ all_exact cs.
Proof.
  cbn [exact]. split; intros [H1 H2]; split; auto; clear H1;
    induction cs as [|c t IH]; cbn in *; auto; destruct H2; split; auto.
Qed.

Lemma exact_short root k c f :
  exact root (Short k c f) <-> fhash f = href_opt (hspec (Short k c f) root) /\ exact false c.
Proof. reflexivity. Qed.

(** the cache invariant: every node is dirty (nothing below has been written to the database
    yet); every cached hash below (and at) [n] is the from-scratch hash of its node and the
    subtree under a node that carries a hash is completely flagged; [root] tells whether [n]
    itself sits at the root (hashed with force) or inside a parent *)
Fixpoint caches_ok (root : bool) (n : node) {struct n} : Prop :=
  match n with
  | Short k c f =>
    fdirty f = true /\
    (forall h, fhash f = Some h -> HHash h = hspec n root /\ exact false c) /\ caches_ok false c
  | Full cs f =>
    fdirty f = true /\
    (forall h, fhash f = Some h -> HHash h = hspec n root /\ all_exact cs) /\
    (fix all (l : list node) : Prop :=
       match l with [] => True | c :: t => caches_ok false c /\ all t end) cs
  | _ => True
  end.

Fixpoint all_ok (l : list node) : Prop :=
  match l with [] => True | c :: t => caches_ok false c /\ all_ok t end.

Lemma caches_ok_full root cs f :
  caches_ok root (Full cs f) <->
  fdirty f = true /\
  (forall h, fhash f = Some h -> HHash h = hspec (Full cs f) root /\ all_exact cs) /\ all_ok cs.
Proof.
  cbn [caches_ok]. split; intros (H0 & H1 & H2); (split; [auto|split; [auto|]]); clear H0 H1;
    induction cs as [|c t IH]; cbn in *; auto; destruct H2; split; auto.
Qed.

Lemma caches_ok_short root k c f :
  caches_ok root (Short k c f) <->
  fdirty f = true /\
  (forall h, fhash f = Some h -> HHash h = hspec (Short k c f) root /\ exact false c) /\
  caches_ok false c.
Proof. reflexivity. Qed.

Lemma all_ok_forall l : all_ok l <-> Forall (caches_ok false) l.
Proof.
  induction l as [|c t IH]; cbn; split; auto.
  - intros [H1 H2]. constructor; auto. apply IH; auto.
  - intros Hf. inversion Hf; subst. split; auto. apply IH; auto.
Qed.

Lemma all_exact_forall l : all_exact l <-> Forall (exact false) l.
Proof.
  induction l as [|c t IH]; cbn; split; auto.
  - intros [H1 H2]. constructor; auto. apply IH; auto.
  - intros Hf. inversion Hf; subst. split; auto. apply IH; auto.
Qed.

(** a freshly built node (Trie.newFlag) is fine in any position if its children are *)
Lemma caches_ok_fresh_short root k c : caches_ok false c -> caches_ok root (Short k c newflag).
Proof. intros Hc. apply caches_ok_short. split; [reflexivity|]. split; auto. cbn. discriminate. Qed.

Lemma caches_ok_fresh_full root cs : all_ok cs -> caches_ok root (Full cs newflag).
Proof. intros Hc. apply caches_ok_full. split; [reflexivity|]. split; auto. cbn. discriminate. Qed.

Lemma caches_ok_leaf root n : (match n with Short _ _ _ | Full _ _ => False | _ => True end) -> caches_ok root n.
Proof. destruct n; cbn; tauto. Qed.

(* ------------------------------------------------------------------ hasher.hash *)

Lemma erase_idem n : erase (erase n) = erase n.
Proof.
  induction n using node_ind'; cbn [erase]; auto.
  - rewrite IHn. reflexivity.
  - f_equal. rewrite map_map. apply map_ext_in. intros c Hc.
    rewrite Forall_forall in H0. auto.
Qed.

Lemma hspec_erase n force : hspec (erase n) force = hspec n force.
Proof. unfold hspec. rewrite erase_idem. reflexivity. Qed.

Lemma hspec_short k c f force :
  hspec (Short k c f) force = finish H (short_enc k (hspec c false)) force.
Proof. reflexivity. Qed.

Lemma hspec_full cs f force :
  hspec (Full cs f) force = finish H (full_enc (map (fun c => hspec c false) cs)) force.
Proof.
  unfold hspec. cbn [erase hash_node fhash newflag fst]. rewrite !map_map. reflexivity.
Qed.

Lemma flag_after_none r fl h : fhash (flag_after r fl) = Some h -> r = HHash h.
Proof. destruct r; cbn; intros E; inversion E; auto. Qed.

Lemma flag_after_hash r fl : fhash (flag_after r fl) = href_opt r.
Proof. destruct r; reflexivity. Qed.

Lemma flag_after_dirty r fl : fdirty (flag_after r fl) = fdirty fl.
Proof. destruct r; reflexivity. Qed.

(** hashing computes the from-scratch hash, keeps the content, leaves correct caches, and
    flags the whole subtree *)
Lemma hash_node_ok4 n : forall root, caches_ok root n ->
  fst (hash_node H n root) = hspec n root /\
  erase (snd (hash_node H n root)) = erase n /\
  caches_ok root (snd (hash_node H n root)) /\
  exact root (snd (hash_node H n root)).
Proof.
  induction n using node_ind'; intros root Hok.
  - cbn. auto.
  - cbn. auto.
  - (* Short *)
    apply caches_ok_short in Hok as (Hd & Hown & Hc). cbn [hash_node].
    destruct (fhash f) as [h|] eqn:Ef.
    + cbn [fst snd]. destruct (Hown h eq_refl) as [E1 E2].
      split; [exact E1|]. split; auto.
      split; [apply caches_ok_short; rewrite Ef; auto|].
      apply exact_short. rewrite Ef, <- E1. auto.
    + destruct (IHn false Hc) as (E1 & E2 & E3 & E4). cbn [fst snd].
      rewrite E1.
      assert (Eh : hspec (Short k (snd (hash_node H n false))
                            (flag_after (finish H (short_enc k (hspec n false)) root) f)) root
                   = finish H (short_enc k (hspec n false)) root).
      { rewrite hspec_short.
        replace (hspec (snd (hash_node H n false)) false) with (hspec n false)
          by (unfold hspec; rewrite E2; reflexivity).
        reflexivity. }
      split; [symmetry; apply hspec_short|]. split; [cbn [erase]; rewrite E2; reflexivity|].
      split.
      * apply caches_ok_short. split; [rewrite flag_after_dirty; auto|]. split; auto.
        intros h Hh. apply flag_after_none in Hh. rewrite Eh, Hh. auto.
      * apply exact_short. rewrite Eh, flag_after_hash. auto.
  - (* Full *)
    apply caches_ok_full in Hok as (Hd & Hown & Hc). cbn [hash_node].
    destruct (fhash f) as [h|] eqn:Ef.
    + cbn [fst snd]. destruct (Hown h eq_refl) as [E1 E2].
      split; [exact E1|]. split; auto.
      split; [apply caches_ok_full; rewrite Ef; auto|].
      apply exact_full. rewrite Ef, <- E1. auto.
    + cbn [fst snd]. rewrite !map_map.
      apply all_ok_forall in Hc. rewrite Forall_forall in H0, Hc.
      assert (E1 : map (fun c => fst (hash_node H c false)) cs = map (fun c => hspec c false) cs).
      { apply map_ext_in. intros c Hin. destruct (H0 c Hin false (Hc c Hin)) as (E & _). auto. }
      assert (E2 : map (fun c => hspec (snd (hash_node H c false)) false) cs = map (fun c => hspec c false) cs).
      { apply map_ext_in. intros c Hin. destruct (H0 c Hin false (Hc c Hin)) as (_ & E & _).
        unfold hspec. rewrite E. reflexivity. }
      rewrite E1.
      assert (Eh : hspec (Full (map (fun c => snd (hash_node H c false)) cs)
                            (flag_after (finish H (full_enc (map (fun c => hspec c false) cs)) root) f)) root
                   = finish H (full_enc (map (fun c => hspec c false) cs)) root).
      { rewrite hspec_full, map_map, E2. reflexivity. }
      split; [symmetry; apply hspec_full|].
      split.
      { cbn [erase]. f_equal. rewrite !map_map. apply map_ext_in. intros c Hin.
        destruct (H0 c Hin false (Hc c Hin)) as (_ & E & _). auto. }
      split.
      * apply caches_ok_full. split; [rewrite flag_after_dirty; auto|]. split.
        -- intros h Hh. apply flag_after_none in Hh. rewrite Eh, Hh. split; auto.
           apply all_exact_forall, Forall_forall. intros c' Hin. apply in_map_iff in Hin as (c & <- & Hin).
           destruct (H0 c Hin false (Hc c Hin)) as (_ & _ & _ & E). auto.
        -- apply all_ok_forall, Forall_forall. intros c' Hin. apply in_map_iff in Hin as (c & <- & Hin).
           destruct (H0 c Hin false (Hc c Hin)) as (_ & _ & E & _). auto.
      * apply exact_full. rewrite Eh, flag_after_hash. split; auto.
        apply all_exact_forall, Forall_forall. intros c' Hin. apply in_map_iff in Hin as (c & <- & Hin).
        destruct (H0 c Hin false (Hc c Hin)) as (_ & _ & _ & E). auto.
  - cbn. auto.
Qed.

Lemma hash_node_ok n root : caches_ok root n ->
  fst (hash_node H n root) = hspec n root /\
  erase (snd (hash_node H n root)) = erase n /\
  caches_ok root (snd (hash_node H n root)).
Proof. intros Hok. destruct (hash_node_ok4 n root Hok) as (A & B & C & _). auto. Qed.

(* ------------------------------------------------------------------ set_nth and caches *)

Lemma all_ok_set_nth cs i c : all_ok cs -> caches_ok false c -> all_ok (set_nth i c cs).
Proof.
  revert i; induction cs as [|h t IH]; intros [|i] Ha Hc; cbn in *; auto; destruct Ha; split; auto.
Qed.

Lemma all_ok_nth cs i c : all_ok cs -> nth_error cs i = Some c -> caches_ok false c.
Proof.
  revert i; induction cs as [|h t IH]; intros [|i] Ha Hn; cbn in *; try discriminate; destruct Ha.
  - inversion Hn; subst; auto.
  - eauto.
Qed.

Lemma all_ok_empty : all_ok empty_children.
Proof. cbn. tauto. Qed.

Lemma caches_ok_leafn rest x : caches_ok false x -> caches_ok false (leafn rest x).
Proof. intros Hx. destruct rest; cbn [leafn]; auto. apply (caches_ok_fresh_short false); auto. Qed.

Lemma caches_ok_any_of_fresh n : caches_ok false n ->
  (match n with Short _ _ f | Full _ f => fhash f = None | _ => True end) ->
  forall root, caches_ok root n.
Proof.
  intros Hn Hf root. destruct n; auto.
  - apply caches_ok_short in Hn as (Hd & _ & Hc). apply caches_ok_short. split; auto. split; auto.
    rewrite Hf. discriminate.
  - apply caches_ok_full in Hn as (Hd & _ & Hc). apply caches_ok_full. split; auto. split; auto.
    rewrite Hf. discriminate.
Qed.

(* ------------------------------------------------------------------ insert keeps the caches correct *)

Section WithDb.
Variable d : db.

(** the result of an insert/delete is either the old node or a node with a fresh flag *)
Definition fresh_or_same (b : bool) (n n' : node) : Prop :=
  (b = false /\ n' = n) \/
  (b = true /\ caches_ok false n' /\
   match n' with Short _ _ f | Full _ f => fhash f = None | _ => True end).

Lemma fresh_or_same_ok b n n' root : fresh_or_same b n n' -> caches_ok root n -> caches_ok root n'.
Proof.
  intros [[_ ->]|(_ & Hc & Hf)] Hn; auto. apply caches_ok_any_of_fresh; auto.
Qed.

Lemma insert_caches (v : bytes) : v <> [] ->
  forall fuel n k b n' root, canon n -> wfk k ->
  insert fuel d n k (Value v) = Ok (b, n') -> caches_ok root n -> fresh_or_same b n n'.
Proof.
  intros Hv. induction fuel as [|f IH]; intros n k b n' root Hc Hk Hi Hok; [discriminate|].
  destruct k as [|k0 kt]; [cbn in Hk; tauto|].
  destruct Hc as [|p v0 fl Hp Hv0|nk cs g fl Hnk Hn Hc|cs fl Hl Hch H16 Hcnt].
  - cbn in Hi. inversion Hi; subst. right. split; auto. split; [|reflexivity].
    apply (caches_ok_fresh_short false). cbn. auto.
  - (* Leaf *)
    destruct (prefix_len_split (k0 :: kt) (p ++ [16])) as (pre & rk & rn & Ek & Enk & Hml & Hdiv).
    assert (Hwnk : wfk (p ++ [16])) by (apply wfk_snoc; auto).
    destruct rn as [|oi rn'].
    + rewrite app_nil_r in Enk. subst pre.
      assert (rk = []) as -> by (apply (wfk_prefix_eq (p ++ [16]) rk); [auto | rewrite <- Ek; auto]).
      rewrite Ek in Hi. rewrite insert_short_match in Hi by (destruct p; discriminate).
      destruct f as [|f]; [discriminate|]. rewrite insert_nil_eq in Hi. cbn [rbind fst snd] in Hi.
      destruct (beq v0 v); cbn [negb] in Hi; inversion Hi; subst.
      * left. auto.
      * right. split; auto. split; [|reflexivity]. apply (caches_ok_fresh_short false). cbn. auto.
    + destruct rk as [|ni rk'].
      { exfalso. rewrite app_nil_r in Ek. subst pre.
        assert (oi :: rn' = []) by (apply (wfk_prefix_eq (k0 :: kt) (oi :: rn')); [exact Hk|rewrite <- Enk; auto]).
        discriminate. }
      assert (Hd : oi <> ni) by (intros ->; apply Hdiv; auto).
      rewrite Ek, Enk in Hi. rewrite insert_short_diverge in Hi by auto. inversion Hi; subst.
      right. split; auto.
      assert (Hb : caches_ok false (branch2 oi ni (leafn rn' (Value v0)) (leafn rk' (Value v)))).
      { apply (caches_ok_fresh_full false). apply all_ok_set_nth; [apply all_ok_set_nth|].
        - apply all_ok_empty.
        - apply caches_ok_leafn. cbn. auto.
        - apply caches_ok_leafn. cbn. auto. }
      unfold opt_short. destruct (Nat.eqb (length pre) 0).
      * split; auto. reflexivity.
      * split; [apply (caches_ok_fresh_short false); auto|reflexivity].
  - (* Ext *)
    apply caches_ok_short in Hok as (_ & _ & Hokc).
    destruct (prefix_len_split (k0 :: kt) nk) as (pre & rk & rn & Ek & Enk & Hml & Hdiv).
    destruct rn as [|oi rn'].
    + rewrite app_nil_r in Enk. subst pre. rewrite Ek in Hk, Hi.
      rewrite insert_short_match in Hi by auto.
      assert (Hr : wfk rk) by (apply (wfk_app_inv nk); auto).
      destruct (insert f d (Full cs g) rk (Value v)) as [[b1 n1]| | |] eqn:E1; try discriminate.
      cbn [rbind fst snd] in Hi.
      pose proof (IH _ _ _ _ false Hc Hr E1 Hokc) as Hfs.
      destruct b1; inversion Hi; subst.
      * right. split; auto. split; [|reflexivity]. apply (caches_ok_fresh_short false).
        apply (fresh_or_same_ok _ _ _ false Hfs Hokc).
      * left. auto.
    + destruct rk as [|ni rk'].
      { exfalso. rewrite app_nil_r in Ek. subst pre.
        apply (nibs_not_wfk_prefix (k0 :: kt) (oi :: rn')); [rewrite <- Enk; exact Hn | exact Hk]. }
      assert (Hd : oi <> ni) by (intros ->; apply Hdiv; auto).
      rewrite Ek, Enk in Hi. rewrite insert_short_diverge in Hi by auto. inversion Hi; subst.
      right. split; auto.
      assert (Hb : caches_ok false (branch2 oi ni (leafn rn' (Full cs g)) (leafn rk' (Value v)))).
      { apply (caches_ok_fresh_full false). apply all_ok_set_nth; [apply all_ok_set_nth|].
        - apply all_ok_empty.
        - apply caches_ok_leafn. auto.
        - apply caches_ok_leafn. cbn. auto. }
      unfold opt_short. destruct (Nat.eqb (length pre) 0).
      * split; auto. reflexivity.
      * split; [apply (caches_ok_fresh_short false); auto|reflexivity].
  - (* Full *)
    apply caches_ok_full in Hok as (_ & _ & Hokc).
    rewrite insert_full_eq in Hi. cbn in Hk.
    assert (Hk0 : k0 <= 16) by lia.
    destruct (nth_error_lt_some cs k0) as (c & Hnc); [lia|]. rewrite Hnc in Hi.
    pose proof (all_ok_nth _ _ _ Hokc Hnc) as Hcc.
    destruct (insert f d c kt (Value v)) as [[b1 n1]| | |] eqn:E1; try discriminate.
    cbn [rbind fst snd] in Hi.
    assert (Hn1 : caches_ok false n1).
    { destruct Hk as [[-> ->]|[Hi16 Hkt]].
      - destruct f as [|f]; [discriminate|]. rewrite insert_nil_eq in E1.
        destruct (H16 _ Hnc) as [->|(v1 & _ & ->)]; inversion E1; subst; cbn; auto.
      - apply (fresh_or_same_ok _ _ _ false (IH _ _ _ _ false (Hch _ _ Hnc Hi16) Hkt E1 Hcc) Hcc). }
    destruct b1; inversion Hi; subst.
    + right. split; auto. split; [|reflexivity]. apply (caches_ok_fresh_full false).
      apply all_ok_set_nth; auto.
    + left. auto.
Qed.

(* ------------------------------------------------------------------ delete keeps the caches correct *)

Lemma collapse_caches cs' nn b n' :
  all_ok cs' -> (forall i c h, nth_error cs' i = Some c -> c <> Ref h) ->
  collapse d cs' nn = Ok (b, n') ->
  b = true /\ caches_ok false n' /\ match n' with Short _ _ f | Full _ f => fhash f = None | _ => True end.
Proof.
  intros Ha Hnoref Hco. unfold collapse in Hco.
  destruct (negb (is_empty nn)).
  { inversion Hco; subst. split; auto. split; [apply (caches_ok_fresh_full false); auto|reflexivity]. }
  destruct (single_child cs' 0 None) as [[pos|u]|] eqn:Esc.
  - pose proof (single_child_none cs' 0) as Hsc. rewrite Esc in Hsc.
    destruct Hsc as (_ & _ & only & Hp & Hne). rewrite Nat.sub_0_r in Hp.
    assert (Hnth : nth pos cs' Empty = only) by (apply nth_error_nth; auto).
    rewrite Hnth in Hco. pose proof (all_ok_nth _ _ _ Ha Hp) as Hok.
    destruct (negb (Nat.eqb pos 16)).
    + destruct only as [|v|ck cv fo|cs1 fo|h]; cbn [rbind] in Hco; try (inversion Hco; subst).
      * split; auto. split; [apply (caches_ok_fresh_short false); auto|reflexivity].
      * split; auto. split; [apply (caches_ok_fresh_short false); auto|reflexivity].
      * split; auto. apply caches_ok_short in Hok as (_ & _ & Hcv).
        split; [apply (caches_ok_fresh_short false); auto|reflexivity].
      * split; auto. split; [apply (caches_ok_fresh_short false); auto|reflexivity].
      * exfalso. eapply Hnoref; eauto.
    + inversion Hco; subst. split; auto. split; [apply (caches_ok_fresh_short false); auto|reflexivity].
  - inversion Hco; subst. split; auto. split; [apply (caches_ok_fresh_full false); auto|reflexivity].
  - inversion Hco; subst. split; auto. split; [apply (caches_ok_fresh_full false); auto|reflexivity].
Qed.

Lemma canon_child_noref cs fl : canon (Full cs fl) -> forall i c h, nth_error cs i = Some c -> c <> Ref h.
Proof.
  intros Hc i c h Hn ->. inversion Hc as [| | |cs0 f0 Hl Hch H16 Hcnt]; subst.
  pose proof (nth_error_some_lt _ _ _ Hn) as Hlt. rewrite Hl in Hlt.
  destruct (Nat.eq_dec i 16) as [->|Hd].
  - destruct (H16 _ Hn) as [E|(v & _ & E)]; discriminate.
  - assert (Hx : canon (Ref h)) by (apply (Hch i); auto; lia). inversion Hx.
Qed.

Lemma delete_caches :
  forall fuel n k b n' root, canon n -> wfk k -> length k < fuel ->
  delete fuel d n k = Ok (b, n') -> caches_ok root n -> fresh_or_same b n n'.
Proof.
  induction fuel as [|f IH]; intros n k b n' root Hc Hk Hf Hi Hok; [discriminate|].
  pose proof Hc as Hcanon.
  destruct Hc as [|p v0 fl Hp Hv0|nk cs g fl Hnk Hn Hc|cs fl Hl Hch H16 Hcnt].
  - cbn in Hi. inversion Hi; subst. left; auto.
  - rewrite delete_short_eq in Hi. cbv zeta in Hi.
    destruct (Nat.ltb (prefix_len k (p ++ [16])) (length (p ++ [16]))); [inversion Hi; subst; left; auto|].
    destruct (Nat.eqb (prefix_len k (p ++ [16])) (length k)).
    + inversion Hi; subst. right. split; auto. cbn. auto.
    + destruct f as [|f]; [discriminate|]. cbn [delete rbind fst snd] in Hi.
      inversion Hi; subst. right. split; auto.
      split; [apply (caches_ok_fresh_short false); cbn; auto|reflexivity].
  - apply caches_ok_short in Hok as (_ & _ & Hokc).
    rewrite delete_short_eq in Hi. cbv zeta in Hi.
    destruct (prefix_len_split k nk) as (pre & rk & rn & Ek & Enk & Hml & Hdiv).
    rewrite <- Hml in Hi.
    destruct rn as [|oi rn'].
    + rewrite app_nil_r in Enk. subst pre. subst k. rewrite Nat.ltb_irrefl in Hi.
      assert (Hr : wfk rk) by (apply (wfk_app_inv nk); auto).
      assert (Hlk : Nat.eqb (length nk) (length (nk ++ rk)) = false).
      { apply Nat.eqb_neq. rewrite app_length. destruct rk; [cbn in Hr; tauto|cbn; lia]. }
      rewrite Hlk in Hi. rewrite skipn_app_len in Hi.
      assert (Hlen : length rk < f).
      { rewrite app_length in Hf. destruct nk; [congruence|]. cbn in Hf. lia. }
      destruct (delete f d (Full cs g) rk) as [[b1 n1]| | |] eqn:E1; try discriminate.
      cbn [rbind fst snd] in Hi.
      pose proof (fresh_or_same_ok _ _ _ false (IH _ _ _ _ false Hc Hr Hlen E1 Hokc) Hokc) as Hn1.
      destruct b1; [|inversion Hi; subst; left; auto].
      destruct n1 as [|v1|ck cc fc|cs1 f1|h1]; inversion Hi; subst; right; split; auto;
        (split; [|reflexivity]); apply (caches_ok_fresh_short false); auto.
      apply caches_ok_short in Hn1 as (_ & _ & Hcc). auto.
    + assert (Hlt : Nat.ltb (length pre) (length nk) = true).
      { apply Nat.ltb_lt. rewrite Enk, app_length. cbn. lia. }
      rewrite Hlt in Hi. inversion Hi; subst. left; auto.
  - apply caches_ok_full in Hok as (_ & _ & Hokc).
    destruct k as [|k0 kt]; [cbn in Hk; tauto|]. rewrite delete_full_eq in Hi.
    assert (Hk0 : k0 <= 16) by (cbn in Hk; lia).
    destruct (nth_error_lt_some cs k0) as (c & Hnc); [lia|]. rewrite Hnc in Hi.
    pose proof (all_ok_nth _ _ _ Hokc Hnc) as Hcc.
    destruct (delete f d c kt) as [[b1 n1]| | |] eqn:E1; try discriminate.
    cbn [rbind fst snd] in Hi.
    destruct b1; [|inversion Hi; subst; left; auto].
    assert (Hn1 : caches_ok false n1 /\ forall h, n1 <> Ref h).
    { cbn in Hk. destruct Hk as [[-> ->]|[Hi16 Hkt]].
      - destruct f as [|f]; [discriminate|].
        destruct (H16 _ Hnc) as [->|(v1 & _ & ->)]; cbn in E1; inversion E1; subst; cbn; split; auto; discriminate.
      - pose proof (Hch _ _ Hnc Hi16) as Hcc1.
        assert (Hlen : length kt < f) by (cbn in Hf; lia).
        split; [apply (fresh_or_same_ok _ _ _ false (IH _ _ _ _ false Hcc1 Hkt Hlen E1 Hcc) Hcc)|].
        destruct (delete_spec d f c kt Hcc1 Hkt Hlen) as (b2 & n2 & E2 & Hc2 & _).
        rewrite E1 in E2. inversion E2; subst. intros h ->. inversion Hc2. }
    destruct Hn1 as [Hn1 Hnr].
    destruct (collapse_caches (set_nth k0 n1 cs) n1 b n') as (-> & Hcn & Hfn); auto.
    + apply all_ok_set_nth; auto.
    + intros i c' h Hn'. destruct (Nat.eq_dec i k0) as [->|Hd].
      * rewrite nth_error_set_nth_eq in Hn' by lia. inversion Hn'; subst. apply Hnr.
      * rewrite nth_error_set_nth_neq in Hn' by lia. eapply canon_child_noref; eauto.
    + right. auto.
Qed.

End WithDb.

(* ------------------------------------------------------------------ erase, has and canon *)

Lemma nth_error_map_inv {A B} (f : A -> B) l i y :
  nth_error (map f l) i = Some y -> exists x, nth_error l i = Some x /\ f x = y.
Proof.
  rewrite nth_error_map. destruct (nth_error l i); cbn; intros E; inversion E; eauto.
Qed.

Lemma has_erase n : forall k w, has n k w <-> has (erase n) k w.
Proof.
  induction n using node_ind'; intros k0 w; cbn [erase]; try tauto.
  - rewrite !has_short. split; intros (r & -> & Hr); exists r; split; auto; apply IHn; auto.
  - rewrite !has_full. rewrite Forall_forall in H0. split.
    + intros (i & r & c & -> & Hn & Hr). exists i, r, (erase c). split; auto.
      split; [apply map_nth_error; auto|].
      apply (proj1 (H0 c (nth_error_In _ _ Hn) r w)); auto.
    + intros (i & r & c' & -> & Hn & Hr). apply nth_error_map_inv in Hn as (c & Hn & <-).
      exists i, r, c. split; auto. split; auto.
      apply (proj2 (H0 c (nth_error_In _ _ Hn) r w)); auto.
Qed.

Lemma is_empty_erase c : is_empty (erase c) = is_empty c.
Proof. destruct c; reflexivity. Qed.

Lemma count_ne_erase cs : count_ne (map erase cs) = count_ne cs.
Proof.
  induction cs as [|c t IH]; auto. cbn [map]. rewrite !count_ne_cons, is_empty_erase, IH. reflexivity.
Qed.

Lemma erase_value c v : erase c = Value v -> c = Value v.
Proof. destruct c; cbn; intros E; inversion E; auto. Qed.

Lemma erase_empty c : erase c = Empty -> c = Empty.
Proof. destruct c; cbn; intros E; inversion E; auto. Qed.

Lemma canon_of_erase n : canon (erase n) -> canon n.
Proof.
  induction n using node_ind'; cbn [erase]; intros Hc; auto.
  - remember (Short k (erase n) newflag) as x eqn:Ex.
    destruct Hc as [|p v f0 Hp Hv|k0 cs g f0 Hk Hn Hcf|cs0 f0 Hl Hch H16 Hcnt]; try discriminate.
    + injection Ex as E1 E2 E3. subst k. symmetry in E2. apply erase_value in E2. subst n.
      constructor; auto.
    + injection Ex as E1 E2 E3. subst k0.
      destruct n as [| | |cs1 g1|]; cbn in E2; try discriminate.
      constructor; auto. apply IHn. cbn [erase]. injection E2 as E4 E5. subst. exact Hcf.
  - remember (Full (map erase cs) newflag) as x eqn:Ex.
    destruct Hc as [|p v f0 Hp Hv|k0 cs1 g f0 Hk Hn Hcf|cs0 f0 Hl Hch H16 Hcnt]; try discriminate.
    injection Ex as E1 E2. subst cs0. rewrite Forall_forall in H0.
    rewrite map_length in Hl. constructor; auto.
    + intros i c Hn Hi. apply H0; [eapply nth_error_In; eauto|].
      apply (Hch i); auto. apply map_nth_error; auto.
    + intros c Hn. pose proof (map_nth_error erase _ _ Hn) as Hn'.
      destruct (H16 _ Hn') as [E|(v & Hv & E)].
      * left. apply erase_empty; auto.
      * right. exists v. split; auto. apply erase_value; auto.
    + rewrite count_ne_erase in Hcnt. auto.
Qed.

Lemma canon_erase n : canon n -> canon (erase n).
Proof.
  induction 1 as [|p v f Hp Hv|k cs g f Hk Hn Hc IH|cs f Hl Hch IH H16 Hcnt]; cbn [erase].
  - constructor.
  - constructor; auto.
  - constructor; auto.
  - constructor.
    + rewrite map_length; auto.
    + intros i c' Hn Hi. apply nth_error_map_inv in Hn as (c & Hn & <-). eauto.
    + intros c' Hn. apply nth_error_map_inv in Hn as (c & Hn & <-).
      destruct (H16 _ Hn) as [->|(v & Hv & ->)]; cbn; eauto.
    + rewrite count_ne_erase; auto.
Qed.

Lemma canon_same_erase a b : erase a = erase b -> canon a -> canon b.
Proof. intros E Ha. apply canon_of_erase. rewrite <- E. apply canon_erase; auto. Qed.

Lemma has_same_erase a b : erase a = erase b -> forall k w, has a k w <-> has b k w.
Proof. intros E k w. rewrite (has_erase a), (has_erase b), E. tauto. Qed.

(* ------------------------------------------------------------------ histories with Hash() in between *)

Inductive hop := HUpdate (k v : bytes) | HDelete (k : bytes) | HHashOp.

Definition hop_key (o : hop) : bytes :=
  match o with HUpdate k _ => k | HDelete k => k | HHashOp => [] end.

Definition hop_mop (o : hop) : list mop :=
  match o with HUpdate k v => [MUpdate k v] | HDelete k => [MDelete k] | HHashOp => [] end.

Section WithDb2.
Variable d : db.

Definition apply_hop (n : node) (o : hop) : res node :=
  match o with
  | HUpdate k v => trie_update d n k v
  | HDelete k => trie_delete d n k
  | HHashOp => Ok (snd (trie_hash H n))          (* Trie.Hash(): t.root = cached *)
  end.

Fixpoint hrun (n : node) (ops : list hop) : res node :=
  match ops with [] => Ok n | o :: t => rbind (apply_hop n o) (fun n' => hrun n' t) end.

Lemma trie_hash_eq n : n <> Empty ->
  trie_hash H n = (href_hash H (fst (hash_node H n true)), snd (hash_node H n true)).
Proof. destruct n; [congruence| | | |]; reflexivity. Qed.

Lemma trie_hash_ok n : caches_ok true n ->
  fst (trie_hash H n) = fst (trie_hash H (erase n)) /\
  erase (snd (trie_hash H n)) = erase n /\ caches_ok true (snd (trie_hash H n)).
Proof.
  intros Hok. destruct (is_empty n) eqn:E.
  - apply is_empty_true in E. subst. cbn. auto.
  - apply is_empty_false in E.
    assert (E' : erase n <> Empty) by (intros X; apply erase_empty in X; auto).
    rewrite (trie_hash_eq n E), (trie_hash_eq (erase n) E'). cbn [fst snd].
    destruct (hash_node_ok n true Hok) as (E1 & E2 & E3).
    split; [rewrite E1; reflexivity|]. auto.
Qed.

Lemma trie_update_caches n kb v n' :
  canon n -> is_bytes kb -> trie_update d n kb v = Ok n' -> caches_ok true n -> caches_ok true n'.
Proof.
  intros Hc Hb Hu Hok. unfold trie_update in Hu.
  pose proof (keybytes_to_hex_wfk _ Hb) as Hw.
  destruct v as [|v0 vt].
  - destruct (delete (fuel_of (keybytes_to_hex kb)) d n (keybytes_to_hex kb)) as [[b n1]| | |] eqn:E; try discriminate.
    cbn in Hu. inversion Hu; subst.
    eapply fresh_or_same_ok; [|exact Hok].
    apply (delete_caches d _ n _ b n' true Hc Hw (fuel_of_gt _) E Hok).
  - destruct (insert (fuel_of (keybytes_to_hex kb)) d n (keybytes_to_hex kb) (Value (v0 :: vt))) as [[b n1]| | |] eqn:E; try discriminate.
    cbn in Hu. inversion Hu; subst.
    eapply fresh_or_same_ok; [|exact Hok].
    apply (insert_caches d (v0 :: vt) ltac:(discriminate) _ n _ b n' true Hc Hw E Hok).
Qed.

Lemma trie_delete_caches n kb n' :
  canon n -> is_bytes kb -> trie_delete d n kb = Ok n' -> caches_ok true n -> caches_ok true n'.
Proof.
  intros Hc Hb Hu Hok. apply (trie_update_caches n kb [] n'); auto.
Qed.

(** main invariant: the trie represents the map and all its caches are correct *)
Lemma hrun_represents ops : forall m n,
  represents m n -> caches_ok true n -> Forall (fun o => is_bytes (hop_key o)) ops ->
  exists n', hrun n ops = Ok n' /\
             represents (content m (flat_map hop_mop ops)) n' /\ caches_ok true n'.
Proof.
  induction ops as [|o t IH]; intros m n Hrep Hok Hk; cbn [hrun flat_map]; eauto.
  inversion Hk as [|? ? Ho Ht]; subst.
  destruct o as [k v|k|]; cbn [apply_hop hop_mop app content]; cbn in Ho.
  - destruct (represents_update d m n k v Hrep Ho) as (n1 & Hu & Hr1). rewrite Hu. cbn [rbind].
    apply IH; auto. eapply trie_update_caches; eauto. apply Hrep.
  - destruct (represents_delete d m n k Hrep Ho) as (n1 & Hu & Hr1). rewrite Hu. cbn [rbind].
    apply IH; auto. eapply trie_delete_caches; eauto. apply Hrep.
  - cbn [rbind]. destruct (trie_hash_ok n Hok) as (_ & E2 & E3).
    apply IH; auto. destruct Hrep as [Hc Hr]. split.
    + eapply canon_same_erase; [symmetry; exact E2|auto].
    + intros k w. rewrite <- Hr. apply has_same_erase; auto.
Qed.

End WithDb2.
End WithHash.
