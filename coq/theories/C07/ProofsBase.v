(** C07 proofs, part 1: well-formed keys, the content relation [has], the canonical-form
    predicate [canon], and list helpers. *)
From Coq Require Import List NArith Arith Bool Lia.
From Kardia Require Import C07.Model.
Import ListNotations.

(* ------------------------------------------------------------------ booleans / equality *)

Lemma keq_refl k : keq k k = true.
Proof. induction k as [|x k IH]; cbn; auto. rewrite Nat.eqb_refl; auto. Qed.

Lemma keq_eq a b : keq a b = true <-> a = b.
Proof.
  split; [|intros ->; apply keq_refl].
  revert b; induction a as [|x a IH]; destruct b as [|y b]; cbn; intros Hk; try discriminate; auto.
  apply andb_true_iff in Hk as [Hx Hk]. apply Nat.eqb_eq in Hx. f_equal; auto.
Qed.

Lemma beq_refl k : beq k k = true.
Proof. induction k as [|x k IH]; cbn; auto. rewrite N.eqb_refl; auto. Qed.

Lemma beq_eq a b : beq a b = true <-> a = b.
Proof.
  split; [|intros ->; apply beq_refl].
  revert b; induction a as [|x a IH]; destruct b as [|y b]; cbn; intros Hk; try discriminate; auto.
  apply andb_true_iff in Hk as [Hx Hk]. apply N.eqb_eq in Hx. f_equal; auto.
Qed.

(* ------------------------------------------------------------------ set_nth / nth_error *)

Lemma set_nth_length {A} n (x : A) l : length (set_nth n x l) = length l.
Proof. revert n; induction l as [|h t IH]; destruct n; cbn; auto. Qed.

Lemma nth_error_set_nth_eq {A} n (x : A) l :
  n < length l -> nth_error (set_nth n x l) n = Some x.
Proof. revert n; induction l as [|h t IH]; destruct n; cbn; intros; try lia; auto. apply IH; lia. Qed.

Lemma nth_error_set_nth_neq {A} n m (x : A) l :
  n <> m -> nth_error (set_nth n x l) m = nth_error l m.
Proof. revert n m; induction l as [|h t IH]; destruct n, m; cbn; intros; auto; try congruence. Qed.

Lemma nth_error_repeat {A} (x : A) n i : i < n -> nth_error (repeat x n) i = Some x.
Proof. revert i; induction n; destruct i; cbn; intros; try lia; auto. apply IHn; lia. Qed.

Lemma nth_error_some_lt {A} (l : list A) i c : nth_error l i = Some c -> i < length l.
Proof. intros Hn. apply nth_error_Some. congruence. Qed.

Lemma nth_error_lt_some {A} (l : list A) i : i < length l -> exists c, nth_error l i = Some c.
Proof. intros Hi. destruct (nth_error l i) eqn:E; eauto. apply nth_error_None in E. lia. Qed.

Lemma set_nth_same {A} n (x : A) l : nth_error l n = Some x -> set_nth n x l = l.
Proof.
  revert n; induction l as [|h t IH]; destruct n; cbn; intros Hn; try discriminate; auto.
  - congruence.
  - f_equal; auto.
Qed.

(* ------------------------------------------------------------------ keys *)

Definition nibs (k : key) : Prop := Forall (fun x => x < 16) k.

(** a key as keybytesToHex produces it (or a suffix of one): nibbles below 16, then 16 *)
Fixpoint wfk (k : key) : Prop :=
  match k with
  | [] => False
  | x :: t => (x = 16 /\ t = []) \/ (x < 16 /\ wfk t)
  end.

Lemma wfk_app a b : nibs a -> wfk b -> wfk (a ++ b).
Proof. induction 1 as [|x a Hx Ha IH]; cbn; auto. Qed.

Lemma wfk_app_inv a b : nibs a -> wfk (a ++ b) -> wfk b.
Proof.
  induction 1 as [|x a Hx Ha IH]; cbn; auto.
  intros [[H16 _]|[_ Hw]]; [lia | auto].
Qed.

Lemma wfk_snoc p : nibs p -> wfk (p ++ [16]).
Proof. intros Hp. apply wfk_app; cbn; auto. Qed.

Lemma wfk_split k : wfk k -> exists p, k = p ++ [16] /\ nibs p.
Proof.
  induction k as [|x k IH]; cbn; [tauto|].
  intros [[-> ->]|[Hx Hw]].
  - exists []. split; auto. constructor.
  - destruct (IH Hw) as (p & -> & Hp). exists (x :: p). split; auto. constructor; auto.
Qed.

Lemma nibs_app a b : nibs (a ++ b) <-> nibs a /\ nibs b.
Proof. apply Forall_app. Qed.

Lemma nibs_not_wfk_prefix a r : nibs (a ++ r) -> wfk a -> False.
Proof.
  induction a as [|x a IH]; cbn; [tauto|].
  intros Hn [[-> ->]|[Hx Hw]].
  - inversion Hn; subst. lia.
  - inversion Hn; subst. auto.
Qed.

(** two well-formed keys are never proper prefixes of each other *)
Lemma wfk_prefix_eq a r : wfk a -> wfk (a ++ r) -> r = [].
Proof.
  induction a as [|x a IH]; cbn; [tauto|].
  intros [[-> ->]|[Hx Hw]] [[H1 H2]|[H1 H2]]; auto; try lia.
Qed.

(** bytes are 0..255 *)
Definition is_bytes (bs : bytes) : Prop := Forall (fun b => (b < 256)%N) bs.

Lemma keybytes_to_hex_wfk bs : is_bytes bs -> wfk (keybytes_to_hex bs).
Proof.
  induction 1 as [|b bs Hb Hbs IH]; cbn [keybytes_to_hex wfk]; auto.
  right. split.
  - assert (b / 16 < 16)%N by (apply N.div_lt_upper_bound; lia). lia.
  - right. split; auto.
    assert (b mod 16 < 16)%N by (apply N.mod_lt; lia). lia.
Qed.

(* ------------------------------------------------------------------ prefix_len *)

Lemma prefix_len_split k nk :
  exists pre rk rn, k = pre ++ rk /\ nk = pre ++ rn /\ length pre = prefix_len k nk /\
                    match rk, rn with x :: _, y :: _ => x <> y | _, _ => True end.
Proof.
  revert nk; induction k as [|x k IH]; intros nk.
  - exists [], [], nk. cbn. auto.
  - destruct nk as [|y nk].
    + exists [], (x :: k), []. cbn. auto.
    + cbn [prefix_len]. destruct (Nat.eqb_spec x y) as [->|Hne].
      * destruct (IH nk) as (pre & rk & rn & -> & -> & Hl & Hd).
        exists (y :: pre), rk, rn. cbn. auto.
      * exists [], (x :: k), (y :: nk). cbn. auto.
Qed.

Lemma prefix_len_app nk r : prefix_len (nk ++ r) nk = length nk.
Proof. induction nk as [|x nk IH]; cbn; [destruct r; auto|]. rewrite Nat.eqb_refl. auto. Qed.

Lemma prefix_len_le k nk : prefix_len k nk <= length nk /\ prefix_len k nk <= length k.
Proof.
  revert nk; induction k as [|x k IH]; destruct nk as [|y nk]; cbn; try lia.
  destruct (Nat.eqb x y); cbn; [|lia]. specialize (IH nk). lia.
Qed.

(* ------------------------------------------------------------------ content relation *)

(** [has n k v]: following key [k] from node [n] (no hash nodes) ends in value [v] *)
Inductive has : node -> key -> bytes -> Prop :=
| HasV v : has (Value v) [] v
| HasS nk c f k v : has c k v -> has (Short nk c f) (nk ++ k) v
| HasF cs f i c k v : nth_error cs i = Some c -> has c k v -> has (Full cs f) (i :: k) v.

Lemma has_empty k v : has Empty k v <-> False.
Proof. split; [inversion 1 | tauto]. Qed.

Lemma has_ref h k v : has (Ref h) k v <-> False.
Proof. split; [inversion 1 | tauto]. Qed.

Lemma has_value x k v : has (Value x) k v <-> k = [] /\ v = x.
Proof. split; [inversion 1; auto | intros [-> ->]; constructor]. Qed.

Lemma has_short nk c f k v : has (Short nk c f) k v <-> exists r, k = nk ++ r /\ has c r v.
Proof.
  split.
  - inversion 1; subst. eauto.
  - intros (r & -> & Hr). constructor; auto.
Qed.

Lemma has_full cs f k v :
  has (Full cs f) k v <-> exists i r c, k = i :: r /\ nth_error cs i = Some c /\ has c r v.
Proof.
  split.
  - inversion 1; subst. eauto 6.
  - intros (i & r & c & -> & Hn & Hr). econstructor; eauto.
Qed.

Lemma has_det n : forall k v w, has n k v -> has n k w -> v = w.
Proof.
  intros k v w Hv. revert w. induction Hv as [v|nk c f k v Hc IH|cs f i c k v Hn Hc IH]; intros w Hw.
  - apply has_value in Hw. destruct Hw as [_ ->]; auto.
  - apply has_short in Hw as (r & Heq & Hr). apply app_inv_head in Heq. subst r. auto.
  - apply has_full in Hw as (j & r & c' & Heq & Hn' & Hr). inversion Heq; subst.
    rewrite Hn in Hn'. inversion Hn'; subst. auto.
Qed.

(* ------------------------------------------------------------------ canonical form *)

Definition count_ne (cs : list node) : nat := length (filter (fun c => negb (is_empty c)) cs).

(** [canon n]: [n] is a (possibly empty) subtrie in the unique minimal form: no hash nodes,
    no empty values, no short node under a short node, no branch with fewer than two
    children, value nodes only at the end of a terminated key *)
Inductive canon : node -> Prop :=
| CEmpty : canon Empty
| CLeaf p v f : nibs p -> v <> [] -> canon (Short (p ++ [16]) (Value v) f)
| CExt k cs g f : k <> [] -> nibs k -> canon (Full cs g) -> canon (Short k (Full cs g) f)
| CFull cs f :
    length cs = 17 ->
    (forall i c, nth_error cs i = Some c -> i < 16 -> canon c) ->
    (forall c, nth_error cs 16 = Some c -> c = Empty \/ exists v, v <> [] /\ c = Value v) ->
    2 <= count_ne cs ->
    canon (Full cs f).

Lemma canon_has_wfk n : canon n -> forall k v, has n k v -> wfk k /\ v <> [].
Proof.
  induction 1 as [|p v f Hp Hv|k cs g f Hk Hn Hc IH|cs f Hl Hch IH H16 Hcnt]; intros k' w Hh.
  - apply has_empty in Hh. tauto.
  - apply has_short in Hh as (r & -> & Hr). apply has_value in Hr as [-> ->].
    rewrite app_nil_r. split; auto. apply wfk_snoc; auto.
  - apply has_short in Hh as (r & -> & Hr). destruct (IH _ _ Hr) as [Hw Hne].
    split; auto. apply wfk_app; auto.
  - apply has_full in Hh as (i & r & c & -> & Hn & Hr).
    pose proof (nth_error_some_lt _ _ _ Hn) as Hi. rewrite Hl in Hi.
    destruct (Nat.eq_dec i 16) as [->|Hne].
    + destruct (H16 _ Hn) as [->|(v & Hv & ->)].
      * apply has_empty in Hr. tauto.
      * apply has_value in Hr as [-> ->]. cbn. auto.
    + assert (Hlt : i < 16) by lia. destruct (IH _ _ Hn Hlt _ _ Hr) as [Hw Hv].
      split; auto. cbn. auto.
Qed.

(* ------------------------------------------------------------------ counting children *)

Lemma count_ne_cons c cs : count_ne (c :: cs) = (if is_empty c then 0 else 1) + count_ne cs.
Proof. unfold count_ne. cbn. destruct (is_empty c); cbn; auto. Qed.

Lemma count_ne_set_nth cs i c x :
  nth_error cs i = Some c ->
  count_ne (set_nth i x cs) + (if is_empty c then 0 else 1) = count_ne cs + (if is_empty x then 0 else 1).
Proof.
  revert i; induction cs as [|h t IH]; destruct i; cbn [nth_error set_nth]; intros Hn; try discriminate.
  - inversion Hn; subst. rewrite !count_ne_cons. lia.
  - rewrite !count_ne_cons. specialize (IH _ Hn). lia.
Qed.

Lemma count_ne_repeat n : count_ne (repeat Empty n) = 0.
Proof. induction n; cbn; auto. Qed.

Lemma count_ne_pos cs : 0 < count_ne cs -> exists i c, nth_error cs i = Some c /\ c <> Empty.
Proof.
  induction cs as [|h t IH]; [cbn; lia|]. rewrite count_ne_cons.
  destruct h; cbn [is_empty]; intros Hc.
  - destruct IH as (i & c & Hn & Hne); [lia|]. exists (S i), c. auto.
  - exists 0, (Value v). cbn. split; auto. discriminate.
  - exists 0, (Short k h f). cbn. split; auto. discriminate.
  - exists 0, (Full cs f). cbn. split; auto. discriminate.
  - exists 0, (Ref h). cbn. split; auto. discriminate.
Qed.

Lemma is_empty_true c : is_empty c = true <-> c = Empty.
Proof. destruct c; cbn; split; intros; congruence. Qed.

Lemma is_empty_false c : is_empty c = false <-> c <> Empty.
Proof. destruct c; cbn; split; intros; congruence. Qed.

(** two distinct non-empty children *)
Lemma count_ne_two cs : 2 <= count_ne cs ->
  exists i j ci cj, i <> j /\ nth_error cs i = Some ci /\ nth_error cs j = Some cj /\
                    ci <> Empty /\ cj <> Empty.
Proof.
  induction cs as [|h t IH]; [cbn; lia|]. rewrite count_ne_cons.
  destruct (is_empty h) eqn:E; intros Hc.
  - destruct IH as (i & j & ci & cj & Hij & Hi & Hj & H1 & H2); [lia|].
    exists (S i), (S j), ci, cj. cbn. repeat split; auto.
  - destruct (count_ne_pos t) as (j & cj & Hj & H2); [lia|].
    exists 0, (S j), h, cj. cbn. repeat split; auto. apply is_empty_false; auto.
Qed.

(** what the loop in delete computes *)
Lemma single_child_some cs : forall i a,
  single_child cs i (Some a) = if Nat.eqb (count_ne cs) 0 then Some (inl a) else Some (inr tt).
Proof.
  induction cs as [|h t IH]; intros i a; cbn [single_child]; auto.
  rewrite count_ne_cons. destruct (is_empty h); cbn; auto.
Qed.

Lemma single_child_none cs : forall i,
  match single_child cs i None with
  | None => count_ne cs = 0
  | Some (inl p) => count_ne cs = 1 /\ i <= p /\ exists c, nth_error cs (p - i) = Some c /\ c <> Empty
  | Some (inr _) => 2 <= count_ne cs
  end.
Proof.
  induction cs as [|h t IH]; intros i; cbn [single_child]; auto.
  rewrite count_ne_cons. destruct (is_empty h) eqn:E.
  - specialize (IH (S i)). destruct (single_child t (S i) None) as [[p|u]|]; cbn; auto.
    destruct IH as (Hc & Hp & c & Hn & Hne). repeat split; auto; try lia.
    exists c. split; auto. replace (p - i) with (S (p - S i)) by lia. auto.
  - rewrite single_child_some. destruct (Nat.eqb_spec (count_ne t) 0) as [Hz|Hz].
    + repeat split; try lia. exists h. rewrite Nat.sub_diag. cbn. split; auto.
      apply is_empty_false; auto.
    + lia.
Qed.
