(** C07 proofs, part 4: the compact (hex-prefix) key encoding round-trips, hence is injective. *)
From Coq Require Import List ZArith NArith Arith Bool Lia.
From Kardia Require Import C07.Model C07.ProofsBase.
Import ListNotations.
Ltac Zify.zify_post_hook ::= Z.div_mod_to_equations.

Lemma nib_div a b : a < 16 -> b < 16 -> N.to_nat (N.of_nat (16 * a + b) / 16) = a.
Proof. intros Ha Hb. lia. Qed.

Lemma nib_mod a b : a < 16 -> b < 16 -> N.to_nat (N.of_nat (16 * a + b) mod 16) = b.
Proof.
  intros Ha Hb. replace (N.of_nat (16 * a + b)) with (N.of_nat b + N.of_nat a * 16)%N by lia.
  rewrite N.mod_add by lia. rewrite N.mod_small by lia. apply Nat2N.id.
Qed.

Lemma hex_decode_even : forall n q, length q = 2 * n -> nibs q ->
  keybytes_to_hex (decode_nibbles q) = q ++ [16].
Proof.
  induction n as [|n IH]; intros q Hl Hq.
  - destruct q; [reflexivity|discriminate].
  - destruct q as [|a [|b q]]; try (cbn in Hl; lia).
    inversion Hq as [|? ? Ha Hq1]; subst. inversion Hq1 as [|? ? Hb Hq2]; subst.
    cbn [decode_nibbles keybytes_to_hex]. rewrite nib_div, nib_mod by auto.
    rewrite IH; auto. cbn in Hl. lia.
Qed.

Lemma has_term_nibs k : nibs k -> has_term k = false.
Proof.
  intros Hk. unfold has_term. destruct (rev k) as [|x r] eqn:E; auto.
  assert (In x k) by (apply in_rev; rewrite E; left; auto).
  apply Nat.eqb_neq. unfold nibs in Hk. rewrite Forall_forall in Hk. specialize (Hk _ H). lia.
Qed.

Lemma has_term_snoc p : has_term (p ++ [16]) = true.
Proof. unfold has_term. rewrite rev_app_distr. reflexivity. Qed.

Lemma parity (q : key) : (exists n, length q = 2 * n /\ Nat.odd (length q) = false) \/
                         (exists n, length q = 2 * n + 1 /\ Nat.odd (length q) = true).
Proof.
  destruct (Nat.odd (length q)) eqn:E.
  - right. apply Nat.odd_spec in E. destruct E as (n & Hn). exists n. auto.
  - left. assert (Ev : Nat.even (length q) = true) by (rewrite <- Nat.negb_odd, E; reflexivity).
    apply Nat.even_spec in Ev. destruct Ev as (n & Hn). exists n. auto.
Qed.

(** core: flag [t] (0 = extension, 32 = leaf) and nibble list [p] *)
Definition compact_of (t : nat) (p : key) : bytes :=
  if Nat.odd (length p) then N.of_nat (t + 16 + hd 0 p) :: decode_nibbles (tl p)
  else N.of_nat t :: decode_nibbles p.

Lemma compact_of_nonempty t p : compact_of t p <> [].
Proof. unfold compact_of. destruct (Nat.odd (length p)); discriminate. Qed.

Lemma hex_compact_of t fl p : t = 16 * fl -> fl < 15 -> nibs p ->
  keybytes_to_hex (compact_of t p) =
  if Nat.odd (length p) then (fl + 1) :: p ++ [16] else fl :: 0 :: p ++ [16].
Proof.
  intros Ht Hfl Hp. unfold compact_of.
  destruct (parity p) as [(n & Hl & Ho)|(n & Hl & Ho)]; rewrite Ho.
  - cbn [keybytes_to_hex]. rewrite (hex_decode_even n) by auto.
    replace t with (16 * fl + 0) by lia. rewrite nib_div, nib_mod by lia. reflexivity.
  - destruct p as [|x q]; [cbn in Hl; lia|]. inversion Hp as [|? ? Hx Hq]; subst.
    cbn [hd tl keybytes_to_hex]. rewrite (hex_decode_even n) by (auto; cbn in Hl; lia).
    replace (16 * fl + 16 + x) with (16 * (fl + 1) + x) by lia.
    rewrite nib_div, nib_mod by lia. reflexivity.
Qed.

Lemma removelast_snoc {A} (l : list A) x : removelast (l ++ [x]) = l.
Proof. apply removelast_last. Qed.

Lemma c2h_from_hex c f rest : c <> [] -> keybytes_to_hex c = f :: rest ->
  compact_to_hex c =
  skipn (2 - Nat.modulo f 2) (if Nat.ltb f 2 then removelast (f :: rest) else f :: rest).
Proof.
  intros Hc E. destruct c; [congruence|]. unfold compact_to_hex. rewrite E. reflexivity.
Qed.

Lemma compact_roundtrip k : (nibs k \/ wfk k) -> compact_to_hex (hex_to_compact k) = k.
Proof.
  intros [Hk|Hk].
  - unfold hex_to_compact. rewrite (has_term_nibs _ Hk).
    change (compact_to_hex (compact_of 0 k) = k).
    pose proof (hex_compact_of 0 0 k eq_refl ltac:(lia) Hk) as E.
    destruct (Nat.odd (length k)); cbn [Nat.add] in E.
    + rewrite (c2h_from_hex _ _ _ (compact_of_nonempty 0 k) E).
      replace (removelast (1 :: k ++ [16])) with (1 :: k)
        by (rewrite app_comm_cons, removelast_snoc; reflexivity).
      reflexivity.
    + rewrite (c2h_from_hex _ _ _ (compact_of_nonempty 0 k) E).
      replace (removelast (0 :: 0 :: k ++ [16])) with (0 :: 0 :: k)
        by (rewrite !app_comm_cons, removelast_snoc; reflexivity).
      reflexivity.
  - destruct (wfk_split _ Hk) as (p & -> & Hp).
    unfold hex_to_compact. rewrite has_term_snoc, removelast_snoc.
    change (compact_to_hex (compact_of 32 p) = p ++ [16]).
    pose proof (hex_compact_of 32 2 p eq_refl ltac:(lia) Hp) as E.
    destruct (Nat.odd (length p)); cbn [Nat.add] in E;
      rewrite (c2h_from_hex _ _ _ (compact_of_nonempty 32 p) E); reflexivity.
Qed.

Lemma compact_injective a b :
  (nibs a \/ wfk a) -> (nibs b \/ wfk b) -> hex_to_compact a = hex_to_compact b -> a = b.
Proof.
  intros Ha Hb E. rewrite <- (compact_roundtrip a Ha), <- (compact_roundtrip b Hb), E. reflexivity.
Qed.
