(** C07 proofs, part 6: the RLP item decoder (readKind / Split / CountValues as transcribed in
    Model.v) inverts the item encoder (rlp_string / rlp_list) for sizes below 2^64. *)
From Coq Require Import List ZArith NArith Arith Bool Lia.
From Kardia Require Import C07.Model C07.ProofsBase C07.ProofsMap.
Import ListNotations.

Lemma nlen_length {A} (l : list A) : nlen l = N.of_nat (length l).
Proof. induction l as [|a l IH]; cbn [nlen length]; [reflexivity|]. rewrite IH. lia. Qed.

Lemma nlen_app {A} (a b : list A) : nlen (a ++ b) = (nlen a + nlen b)%N.
Proof. rewrite !nlen_length, app_length. lia. Qed.

Lemma to_nat_nlen {A} (l : list A) : N.to_nat (nlen l) = length l.
Proof. rewrite nlen_length. apply Nat2N.id. Qed.

(* ------------------------------------------------------------------ big-endian lengths *)

Lemma be_to_N_snoc l x acc : be_to_N (l ++ [x]) acc = (be_to_N l acc * 256 + x)%N.
Proof. revert acc; induction l as [|a l IH]; intros acc; cbn; auto. Qed.

Lemma be_aux_spec : forall f n acc, (n < 256 ^ N.of_nat f)%N ->
  exists pre, be_bytes_aux f n acc = pre ++ acc /\ length pre <= f /\
              be_to_N pre 0 = n /\
              ((0 < n)%N -> pre <> [] /\ hd 0%N pre <> 0%N) /\ (n = 0%N -> pre = []).
Proof.
  induction f as [|f IH]; intros n acc Hn.
  - cbn in Hn. assert (n = 0%N) by lia. subst. exists []. cbn. repeat split; auto; lia.
  - cbn [be_bytes_aux]. destruct (N.eqb_spec n 0) as [->|Hnz].
    + exists []. cbn. repeat split; auto; lia.
    + rewrite Nat2N.inj_succ, N.pow_succ_r' in Hn.
      assert (Hd : (n / 256 < 256 ^ N.of_nat f)%N) by (apply N.div_lt_upper_bound; lia).
      destruct (IH (n / 256)%N ((n mod 256)%N :: acc) Hd) as (pre & E & Hl & Hv & Hpos & Hz).
      exists (pre ++ [(n mod 256)%N]). rewrite E, <- app_assoc. split; [reflexivity|].
      split; [rewrite app_length; cbn; lia|].
      split; [rewrite be_to_N_snoc, Hv; pose proof (N.div_mod n 256); lia|].
      split; [|lia]. intros _. split; [destruct pre; discriminate|].
      destruct (N.eqb_spec (n / 256) 0) as [Hq|Hq].
      * rewrite (Hz Hq). cbn. pose proof (N.div_mod n 256). lia.
      * destruct Hpos as [Hne Hh]; [lia|]. destruct pre; [congruence|]. exact Hh.
Qed.

Definition two64 : N := 18446744073709551616%N.

Lemma be_bytes_spec n : (0 < n < two64)%N ->
  let l := be_bytes n in
  l <> [] /\ (1 <= nlen l <= 8)%N /\ hd 0%N l <> 0%N /\ be_to_N l 0 = n.
Proof.
  intros Hn. unfold be_bytes.
  destruct (be_aux_spec 8 n []) as (pre & E & Hl & Hv & Hpos & _).
  { change (256 ^ N.of_nat 8)%N with two64. lia. }
  rewrite E, app_nil_r. destruct Hpos as [Hne Hh]; [lia|].
  cbv zeta. repeat split; auto; rewrite nlen_length; destruct pre; try congruence; cbn in *; lia.
Qed.

(** readSize on what the encoder wrote *)
Lemma read_size_enc n rest : (56 <= n < two64)%N ->
  read_size (be_bytes n ++ rest) (nlen (be_bytes n)) = Some n.
Proof.
  intros Hn. destruct (be_bytes_spec n) as (Hne & Hl & Hh & Hv); [lia|].
  unfold read_size. rewrite nlen_app.
  destruct (N.ltb_spec (nlen (be_bytes n) + nlen rest) (nlen (be_bytes n))); [lia|].
  rewrite to_nat_nlen, firstn_app_len, Hv.
  destruct (N.ltb_spec n 56); [lia|]. cbn [orb].
  destruct (be_bytes n) as [|b t]; [congruence|]. cbn [app hd] in *.
  destruct (N.eqb_spec b 0); [congruence|]. reflexivity.
Qed.

(* ------------------------------------------------------------------ items *)

(** [item k c it]: [it] is header ++ content and readKind sees exactly that, whatever follows *)
Definition item (k : kind) (c it : bytes) : Prop :=
  exists hdr, it = hdr ++ c /\ it <> [] /\
              forall rest, read_kind (hdr ++ c ++ rest) = Some (k, nlen hdr, nlen c).

Lemma item_string s : (nlen s < two64)%N ->
  exists k, k <> KList /\ (length s <> 1 -> k = KString) /\ item k s (rlp_string s).
Proof.
  intros Hs. unfold rlp_string.
  destruct s as [|b [|b2 t]].
  - (* empty *)
    exists KString. split; [discriminate|]. split; auto. exists [128%N]. cbn. repeat split; try discriminate.
    intros rest. destruct (N.ltb_spec (N.succ (nlen rest) - 1) 0); [lia|reflexivity].
  - (* one byte *)
    destruct (N.ltb_spec b 128) as [Hb|Hb].
    + exists KByte. split; [discriminate|]. split; [cbn; congruence|]. exists []. cbn [app].
      split; auto. split; [discriminate|]. intros rest. unfold read_kind.
      destruct (N.ltb_spec b 128); [|lia]. cbn [nlen]. rewrite N.sub_0_r.
      destruct (N.ltb_spec (N.succ (nlen rest)) 1); [lia|]. reflexivity.
    + exists KString. split; [discriminate|]. split; [cbn; congruence|].
      cbn [nlen]. change (N.succ 0) with 1%N. cbn [N.ltb N.compare].
      exists [(128 + 1)%N]. split; auto. split; [discriminate|]. intros rest. unfold read_kind. cbn [app].
      destruct (N.ltb_spec (128 + 1) 128); [lia|]. destruct (N.ltb_spec (128 + 1) 184); [|lia].
      replace (128 + 1 - 128)%N with 1%N by lia. cbn [N.eqb Pos.eqb andb].
      destruct (N.ltb_spec b 128); [lia|]. cbn [nlen].
      destruct (N.ltb_spec (N.succ (N.succ (nlen rest)) - 1) 1); [lia|]. reflexivity.
  - (* two or more bytes *)
    set (s := b :: b2 :: t) in *. set (n := nlen s) in *.
    assert (Hn2 : (2 <= n)%N) by (unfold n, s; cbn [nlen]; lia).
    exists KString. split; [discriminate|]. split; auto.
    destruct (N.ltb_spec n 56) as [Hlt|Hge].
    + exists [(128 + n)%N]. split; auto. split; [discriminate|]. intros rest. unfold read_kind. cbn [app].
      destruct (N.ltb_spec (128 + n) 128); [lia|]. destruct (N.ltb_spec (128 + n) 184); [|lia].
      replace (128 + n - 128)%N with n by lia.
      destruct (N.eqb_spec n 1); [lia|]. cbn [andb].
      change (nlen ((128 + n)%N :: s ++ rest)) with (N.succ (nlen (s ++ rest))). rewrite nlen_app. fold n.
      destruct (N.ltb_spec (N.succ (n + nlen rest) - 1) n); [lia|]. reflexivity.
    + destruct (be_bytes_spec n) as (Hne & Hl & Hh & Hv); [fold two64; lia|].
      exists ((183 + nlen (be_bytes n))%N :: be_bytes n). split; [reflexivity|]. split; [discriminate|].
      intros rest. unfold read_kind. cbn [app].
      set (L := nlen (be_bytes n)) in *.
      destruct (N.ltb_spec (183 + L) 128); [lia|]. destruct (N.ltb_spec (183 + L) 184); [lia|].
      destruct (N.ltb_spec (183 + L) 192); [|lia].
      replace (183 + L - 183)%N with L by lia. unfold L.
      rewrite read_size_enc by (fold two64; lia). fold L.
      change (nlen ((183 + L)%N :: be_bytes n ++ s ++ rest)) with (N.succ (nlen (be_bytes n ++ s ++ rest))).
      rewrite !nlen_app. fold n. fold L.
      destruct (N.ltb_spec (N.succ (L + (n + nlen rest)) - (L + 1)) n); [lia|].
      f_equal. f_equal. f_equal. cbn [nlen]. fold L. lia.
Qed.

Lemma item_list p : (nlen p < two64)%N -> item KList p (rlp_list p).
Proof.
  intros Hp. unfold rlp_list. set (n := nlen p) in *.
  destruct (N.ltb_spec n 56) as [Hlt|Hge].
  - exists [(192 + n)%N]. split; auto. split; [discriminate|]. intros rest. unfold read_kind. cbn [app].
    destruct (N.ltb_spec (192 + n) 128); [lia|]. destruct (N.ltb_spec (192 + n) 184); [lia|].
    destruct (N.ltb_spec (192 + n) 192); [lia|]. destruct (N.ltb_spec (192 + n) 248); [|lia].
    replace (192 + n - 192)%N with n by lia.
    change (nlen ((192 + n)%N :: p ++ rest)) with (N.succ (nlen (p ++ rest))). rewrite nlen_app. fold n.
    destruct (N.ltb_spec (N.succ (n + nlen rest) - 1) n); [lia|]. reflexivity.
  - destruct (be_bytes_spec n) as (Hne & Hl & Hh & Hv); [fold two64; lia|].
    exists ((247 + nlen (be_bytes n))%N :: be_bytes n). split; [reflexivity|]. split; [discriminate|].
    intros rest. unfold read_kind. cbn [app].
    set (L := nlen (be_bytes n)) in *.
    destruct (N.ltb_spec (247 + L) 128); [lia|]. destruct (N.ltb_spec (247 + L) 184); [lia|].
    destruct (N.ltb_spec (247 + L) 192); [lia|]. destruct (N.ltb_spec (247 + L) 248); [lia|].
    replace (247 + L - 247)%N with L by lia. unfold L.
    rewrite read_size_enc by (fold two64; lia). fold L.
    change (nlen ((247 + L)%N :: be_bytes n ++ p ++ rest)) with (N.succ (nlen (be_bytes n ++ p ++ rest))).
    rewrite !nlen_app. fold n. fold L.
    destruct (N.ltb_spec (N.succ (L + (n + nlen rest)) - (L + 1)) n); [lia|].
    f_equal. f_equal. f_equal. cbn [nlen]. fold L. lia.
Qed.

Lemma split_item k c it rest : item k c it -> split (it ++ rest) = Some (k, c, rest).
Proof.
  intros (hdr & -> & _ & Hr). unfold split. rewrite <- app_assoc, Hr.
  rewrite !to_nat_nlen, skipn_app_len, firstn_app_len.
  replace (N.to_nat (nlen hdr + nlen c)) with (length (hdr ++ c))
    by (rewrite app_length, <- !to_nat_nlen; lia).
  rewrite app_assoc, skipn_app_len. reflexivity.
Qed.

Lemma split_string_item k c it rest : item k c it -> k <> KList ->
  split_string (it ++ rest) = Some (c, rest).
Proof. intros Hi Hk. unfold split_string. rewrite (split_item _ _ _ _ Hi). destruct k; try reflexivity. congruence. Qed.

Lemma split_list_item c it rest : item KList c it -> split_list (it ++ rest) = Some (c, rest).
Proof. intros Hi. unfold split_list. rewrite (split_item _ _ _ _ Hi). reflexivity. Qed.

Lemma count_values_items items : forall f,
  Forall (fun it => exists k c, item k c it) items -> length items <= f ->
  count_values f (concat items) = Some (length items).
Proof.
  induction items as [|it t IH]; intros f Hf Hl.
  - destruct f; reflexivity.
  - inversion Hf as [|? ? (k & c & hdr & E & Hne & Hr) Ht]; subst.
    destruct f as [|f]; [cbn in Hl; lia|].
    cbn [concat]. destruct ((hdr ++ c) ++ concat t) as [|x xs] eqn:Eb.
    { apply app_eq_nil in Eb. tauto. }
    rewrite <- Eb. cbn [count_values]. rewrite Eb. rewrite <- Eb.
    rewrite <- app_assoc, Hr.
    replace (N.to_nat (nlen hdr + nlen c)) with (length (hdr ++ c))
      by (rewrite app_length, <- !to_nat_nlen; lia).
    rewrite app_assoc, skipn_app_len. rewrite IH; auto. cbn in Hl. lia.
Qed.

(** encoded items are never longer than content + 9 *)
Lemma rlp_string_len s : (nlen s < two64)%N -> (nlen (rlp_string s) <= nlen s + 9)%N.
Proof.
  intros Hs. unfold rlp_string. destruct s as [|b [|b2 t]].
  - cbn. lia.
  - destruct (N.ltb b 128); cbn; lia.
  - set (s := b :: b2 :: t) in *.
    assert (Hn2 : (2 <= nlen s)%N) by (unfold s; cbn [nlen]; lia).
    destruct (N.ltb_spec (nlen s) 56).
    + cbn [nlen]. lia.
    + destruct (be_bytes_spec (nlen s)) as (_ & Hl & _); [lia|].
      cbn [nlen]. rewrite nlen_app. lia.
Qed.

Lemma rlp_list_len p : (nlen p < two64)%N -> (nlen p < nlen (rlp_list p) <= nlen p + 9)%N.
Proof.
  intros Hp. unfold rlp_list. destruct (N.ltb_spec (nlen p) 56).
  - cbn [nlen]. lia.
  - destruct (be_bytes_spec (nlen p)) as (_ & Hl & _); [lia|].
    cbn [nlen]. rewrite nlen_app. lia.
Qed.
