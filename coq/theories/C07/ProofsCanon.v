(** C07 proofs, part 3: the canonical form is unique (two canonical tries with the same content
    are equal up to their hash caches), and histories of updates/deletes refine a finite map. *)
From Coq Require Import List NArith Arith Bool Lia.
From Kardia Require Import C07.Model C07.ProofsBase C07.ProofsMap.
Import ListNotations.

(** forget the caches *)
Fixpoint erase (n : node) : node :=
  match n with
  | Short k c _ => Short k (erase c) newflag
  | Full cs _ => Full (map erase cs) newflag
  | _ => n
  end.

(* ------------------------------------------------------------------ keys of canonical tries *)

Lemma canon_has_key n : canon n -> n <> Empty -> exists k w, has n k w.
Proof.
  induction 1 as [|p v f Hp Hv|k cs g f Hk Hn Hc IH|cs f Hl Hch IH H16 Hcnt]; intros Hne.
  - congruence.
  - exists ((p ++ [16]) ++ []), v. constructor. constructor.
  - destruct IH as (k' & w & Hh); [discriminate|]. exists (k ++ k'), w. constructor; auto.
  - destruct (count_ne_pos cs) as (i & c & Hi & Hc); [lia|].
    pose proof (nth_error_some_lt _ _ _ Hi) as Hlt. rewrite Hl in Hlt.
    destruct (Nat.eq_dec i 16) as [->|Hd].
    + destruct (H16 _ Hi) as [->|(v & Hv & ->)]; [congruence|].
      exists [16], v. econstructor; eauto. constructor.
    + destruct (IH i c Hi) as (k' & w & Hh); [lia|auto|].
      exists (i :: k'), w. econstructor; eauto.
Qed.

Lemma canon_no_keys n : canon n -> (forall k w, ~ has n k w) -> n = Empty.
Proof.
  intros Hc Hno. destruct n; auto; exfalso;
    (destruct (canon_has_key _ Hc) as (k' & w & Hh); [discriminate|eapply Hno; eauto]).
Qed.

(** a canonical branch has two keys that start with different nibbles *)
Lemma full_two_keys cs f : canon (Full cs f) ->
  exists i j ki kj wi wj, i <> j /\ has (Full cs f) (i :: ki) wi /\ has (Full cs f) (j :: kj) wj.
Proof.
  intros Hc. inversion Hc as [| | |cs0 f0 Hl Hch H16 Hcnt]; subst.
  destruct (count_ne_two cs Hcnt) as (i & j & ci & cj & Hij & Hi & Hj & Hci & Hcj).
  assert (Hkey : forall i c, nth_error cs i = Some c -> c <> Empty -> exists k w, has c k w).
  { intros i0 c Hn Hne. pose proof (nth_error_some_lt _ _ _ Hn) as Hlt. rewrite Hl in Hlt.
    destruct (Nat.eq_dec i0 16) as [->|Hd].
    - destruct (H16 _ Hn) as [->|(v & Hv & ->)]; [congruence|]. exists [], v. constructor.
    - apply canon_has_key; auto. apply (Hch i0); auto. lia. }
  destruct (Hkey _ _ Hi Hci) as (ki & wi & Hhi). destruct (Hkey _ _ Hj Hcj) as (kj & wj & Hhj).
  exists i, j, ki, kj, wi, wj. repeat split; auto; econstructor; eauto.
Qed.

Lemma leaf_keys p v f k w : has (Short (p ++ [16]) (Value v) f) k w -> k = p ++ [16] /\ w = v.
Proof.
  intros Hh. apply has_short in Hh as (r & -> & Hr). apply has_value in Hr as [-> ->].
  rewrite app_nil_r. auto.
Qed.

Lemma common_prefix_split (k' : key) : forall k i ki j kj r1 r2,
  k ++ i :: ki = k' ++ r1 -> k ++ j :: kj = k' ++ r2 -> i <> j -> exists t, k = k' ++ t.
Proof.
  induction k' as [|x k' IH]; intros k i ki j kj r1 r2 H1 H2 Hij; [exists k; auto|].
  destruct k as [|y k]; cbn in H1, H2.
  - inversion H1; inversion H2; congruence.
  - injection H1 as Ex E1. injection H2 as Ey E2. subst.
    destruct (IH _ _ _ _ _ _ _ E1 E2 Hij) as (t & ->). exists t. auto.
Qed.

Lemma map_ext_nth {A B} (f : A -> B) (l l' : list A) :
  length l = length l' ->
  (forall i x y, nth_error l i = Some x -> nth_error l' i = Some y -> f x = f y) ->
  map f l = map f l'.
Proof.
  revert l'; induction l as [|a l IH]; destruct l' as [|a' l']; cbn; intros Hl Hp; try discriminate; auto.
  f_equal.
  - apply (Hp 0); auto.
  - apply IH; [lia|]. intros i x y Hx Hy. apply (Hp (S i)); auto.
Qed.

Definition same_content (a b : node) : Prop := forall k w, has a k w <-> has b k w.

(** the shape of the root is determined by the content *)
Lemma ext_not_full k cs g f cs' f' :
  k <> [] -> canon (Full cs' f') -> same_content (Short k (Full cs g) f) (Full cs' f') -> False.
Proof.
  intros Hk Hc Hs. destruct (full_two_keys _ _ Hc) as (i & j & ki & kj & wi & wj & Hij & Hi & Hj).
  apply Hs in Hi, Hj. apply has_short in Hi as (r1 & E1 & _). apply has_short in Hj as (r2 & E2 & _).
  destruct k as [|x k]; [congruence|]. cbn in E1, E2. inversion E1; inversion E2; congruence.
Qed.

Lemma leaf_not_two p v f b k1 k2 w1 w2 :
  same_content (Short (p ++ [16]) (Value v) f) b -> has b k1 w1 -> has b k2 w2 -> k1 = k2.
Proof.
  intros Hs H1 H2. apply Hs in H1, H2. apply leaf_keys in H1 as [-> _]. apply leaf_keys in H2 as [-> _]. auto.
Qed.

Lemma canon_unique a : canon a -> forall b, canon b -> same_content a b -> erase a = erase b.
Proof.
  induction 1 as [|p v f Hp Hv|k cs g f Hk Hn Hc IH|cs f Hl Hch IH H16 Hcnt]; intros b Hb Hs.
  - (* Empty *)
    assert (b = Empty) as ->; auto. apply canon_no_keys; auto. intros k w Hh. apply Hs in Hh. inversion Hh.
  - (* Leaf *)
    assert (Ha : has (Short (p ++ [16]) (Value v) f) ((p ++ [16]) ++ []) v) by (constructor; constructor).
    apply Hs in Ha. rewrite app_nil_r in Ha.
    destruct Hb as [|p' v' f' Hp' Hv'|k' cs' g' f' Hk' Hn' Hc'|cs' f' Hl' Hch' H16' Hcnt'].
    + inversion Ha.
    + apply leaf_keys in Ha as [E ->]. apply app_inj_tail in E as [-> _]. reflexivity.
    + exfalso. destruct (full_two_keys _ _ Hc') as (i & j & ki & kj & wi & wj & Hij & Hi & Hj).
      assert (k' ++ i :: ki = k' ++ j :: kj).
      { eapply (leaf_not_two p v f); eauto; constructor; eauto. }
      apply app_inv_head in H. inversion H; congruence.
    + exfalso. assert (Hcf : canon (Full cs' f')) by (constructor; auto).
      destruct (full_two_keys _ _ Hcf) as (i & j & ki & kj & wi & wj & Hij & Hi & Hj).
      assert (i :: ki = j :: kj) by (eapply (leaf_not_two p v f); eauto).
      inversion H; congruence.
  - (* Ext *)
    destruct (full_two_keys _ _ Hc) as (i & j & ki & kj & wi & wj & Hij & Hi & Hj).
    assert (Hai : has (Short k (Full cs g) f) (k ++ i :: ki) wi) by (constructor; auto).
    assert (Haj : has (Short k (Full cs g) f) (k ++ j :: kj) wj) by (constructor; auto).
    destruct Hb as [|p' v' f' Hp' Hv'|k' cs' g' f' Hk' Hn' Hc'|cs' f' Hl' Hch' H16' Hcnt'].
    + apply Hs in Hai. inversion Hai.
    + exfalso. assert (Hs' : same_content (Short (p' ++ [16]) (Value v') f') (Short k (Full cs g) f))
        by (intros k0 w0; symmetry; apply Hs).
      assert (k ++ i :: ki = k ++ j :: kj) by (eapply (leaf_not_two p' v' f'); eauto).
      apply app_inv_head in H. inversion H; congruence.
    + (* same extension key *)
      pose proof Hai as Hbi. pose proof Haj as Hbj. apply Hs in Hbi, Hbj.
      apply has_short in Hbi as (r1 & E1 & _). apply has_short in Hbj as (r2 & E2 & _).
      destruct (common_prefix_split k' k i ki j kj r1 r2 E1 E2 Hij) as (t & Et).
      destruct (full_two_keys _ _ Hc') as (i' & j' & ki' & kj' & wi' & wj' & Hij' & Hi' & Hj').
      assert (Hbi' : has (Short k' (Full cs' g') f') (k' ++ i' :: ki') wi') by (constructor; auto).
      assert (Hbj' : has (Short k' (Full cs' g') f') (k' ++ j' :: kj') wj') by (constructor; auto).
      apply Hs in Hbi', Hbj'.
      apply has_short in Hbi' as (r1' & E1' & _). apply has_short in Hbj' as (r2' & E2' & _).
      destruct (common_prefix_split k k' i' ki' j' kj' r1' r2' E1' E2' Hij') as (t' & Et').
      assert (t = []) as ->.
      { rewrite Et' in Et. rewrite <- app_assoc in Et. rewrite <- (app_nil_r k) in Et at 1.
        apply app_inv_head in Et. symmetry in Et. apply app_eq_nil in Et. tauto. }
      rewrite app_nil_r in Et. subst k'.
      assert (Hsub : same_content (Full cs g) (Full cs' g')).
      { intros r w. split; intros Hh.
        - assert (Hx : has (Short k (Full cs g) f) (k ++ r) w) by (constructor; auto).
          apply Hs in Hx. apply has_short in Hx as (r' & E & Hr'). apply app_inv_head in E. subst; auto.
        - assert (Hx : has (Short k (Full cs' g') f') (k ++ r) w) by (constructor; auto).
          apply Hs in Hx. apply has_short in Hx as (r' & E & Hr'). apply app_inv_head in E. subst; auto. }
      cbn [erase]. f_equal. apply (IH _ Hc' Hsub).
    + exfalso. eapply (ext_not_full k cs g f cs' f'); eauto. constructor; auto.
  - (* Full *)
    assert (Hca : canon (Full cs f)) by (constructor; auto).
    destruct (full_two_keys _ _ Hca) as (i & j & ki & kj & wi & wj & Hij & Hi & Hj).
    destruct Hb as [|p' v' f' Hp' Hv'|k' cs' g' f' Hk' Hn' Hc'|cs' f' Hl' Hch' H16' Hcnt'].
    + apply Hs in Hi. inversion Hi.
    + exfalso. assert (Hs' : same_content (Short (p' ++ [16]) (Value v') f') (Full cs f))
        by (intros k0 w0; symmetry; apply Hs).
      assert (i :: ki = j :: kj) by (eapply (leaf_not_two p' v' f'); eauto).
      inversion H; congruence.
    + exfalso. eapply (ext_not_full k' cs' g' f' cs f); eauto. intros k0 w0; symmetry; apply Hs.
    + cbn [erase]. f_equal. apply map_ext_nth; [congruence|].
      intros i0 c c' Hn0 Hn0'. pose proof (nth_error_some_lt _ _ _ Hn0) as Hlt. rewrite Hl in Hlt.
      assert (Hsub : same_content c c').
      { intros r w. split; intros Hh.
        - assert (Hx : has (Full cs f) (i0 :: r) w) by (econstructor; eauto).
          apply Hs in Hx. apply has_full in Hx as (i1 & r1 & c1 & E & Hn1 & Hr1).
          inversion E; subst. rewrite Hn0' in Hn1. inversion Hn1; subst; auto.
        - assert (Hx : has (Full cs' f') (i0 :: r) w) by (econstructor; eauto).
          apply Hs in Hx. apply has_full in Hx as (i1 & r1 & c1 & E & Hn1 & Hr1).
          inversion E; subst. rewrite Hn0 in Hn1. inversion Hn1; subst; auto. }
      destruct (Nat.eq_dec i0 16) as [->|Hd].
      * destruct (H16 _ Hn0) as [->|(v & Hv & ->)], (H16' _ Hn0') as [->|(v' & Hv' & ->)]; auto.
        -- exfalso. assert (Hx : has (Value v') [] v') by constructor. apply Hsub in Hx. inversion Hx.
        -- exfalso. assert (Hx : has (Value v) [] v) by constructor. apply Hsub in Hx. inversion Hx.
        -- assert (Hx : has (Value v) [] v) by constructor. apply Hsub in Hx.
           apply has_value in Hx as [_ ->]. reflexivity.
      * apply (IH i0 c Hn0); [lia| |auto]. apply (Hch' i0); auto. lia.
Qed.

(* ------------------------------------------------------------------ histories *)

Lemma nibble_pair_inj a b :
  (a < 256)%N -> (b < 256)%N -> (a / 16 = b / 16)%N -> (a mod 16 = b mod 16)%N -> a = b.
Proof.
  intros Ha Hb Hd Hm. rewrite (N.div_mod a 16), (N.div_mod b 16) by lia. rewrite Hd, Hm. reflexivity.
Qed.

Lemma keybytes_to_hex_inj a : forall b, is_bytes a -> is_bytes b ->
  keybytes_to_hex a = keybytes_to_hex b -> a = b.
Proof.
  induction a as [|x a IH]; intros [|y b] Ha Hb E; cbn in E; auto.
  - inversion E.
  - inversion E.
  - inversion Ha; inversion Hb; subst. injection E as E1 E2 E3.
    apply N2Nat.inj in E1, E2. f_equal; auto. apply nibble_pair_inj; auto.
Qed.

(** map operations; an update with the empty value is a deletion *)
Inductive mop := MUpdate (k v : bytes) | MDelete (k : bytes).

Definition mop_key (o : mop) : bytes := match o with MUpdate k _ => k | MDelete k => k end.

Definition mupd (m : bytes -> bytes) (o : mop) : bytes -> bytes :=
  match o with
  | MUpdate k v => fun k' => if beq k' k then v else m k'
  | MDelete k => fun k' => if beq k' k then [] else m k'
  end.

Fixpoint content (m : bytes -> bytes) (ops : list mop) : bytes -> bytes :=
  match ops with [] => m | o :: t => content (mupd m o) t end.

Section WithDb.
Variable d : db.

Definition apply_op (n : node) (o : mop) : res node :=
  match o with
  | MUpdate k v => trie_update d n k v
  | MDelete k => trie_delete d n k
  end.

Fixpoint run (n : node) (ops : list mop) : res node :=
  match ops with [] => Ok n | o :: t => rbind (apply_op n o) (fun n' => run n' t) end.

(** the trie holds exactly the non-empty entries of the map [m] *)
Definition represents (m : bytes -> bytes) (n : node) : Prop :=
  canon n /\
  forall k w, has n k w <->
              exists kb, is_bytes kb /\ k = keybytes_to_hex kb /\ w = m kb /\ w <> [].

Lemma fuel_of_gt k : length k < fuel_of k.
Proof. unfold fuel_of. lia. Qed.

Lemma represents_delete m n kb : represents m n -> is_bytes kb ->
  exists n', trie_delete d n kb = Ok n' /\ represents (mupd m (MDelete kb)) n'.
Proof.
  intros [Hc Hr] Hkb. unfold trie_delete.
  destruct (delete_spec d _ n (keybytes_to_hex kb) Hc (keybytes_to_hex_wfk _ Hkb) (fuel_of_gt _))
    as (b & n' & Hd & Hc' & _ & _ & Hs).
  rewrite Hd. cbn. exists n'. split; auto. split; auto.
  intros k w. unfold del_spec in Hs. rewrite Hs, Hr. cbn [mupd]. split.
  - intros [Hne (kb' & Hb' & -> & -> & Hw)]. exists kb'. repeat split; auto.
    destruct (beq kb' kb) eqn:E; auto. apply beq_eq in E. congruence.
  - intros (kb' & Hb' & -> & -> & Hw). destruct (beq kb' kb) eqn:E; [congruence|].
    split; [|eauto]. intros Heq. apply keybytes_to_hex_inj in Heq; auto. subst.
    rewrite beq_refl in E. discriminate.
Qed.

Lemma represents_update m n kb v : represents m n -> is_bytes kb ->
  exists n', trie_update d n kb v = Ok n' /\ represents (mupd m (MUpdate kb v)) n'.
Proof.
  intros Hrep Hkb. destruct v as [|v0 vt].
  - (* empty value deletes *)
    destruct (represents_delete m n kb Hrep Hkb) as (n' & Hd & Hr'). exists n'. split; auto.
  - destruct Hrep as [Hc Hr]. unfold trie_update.
    assert (Hv : v0 :: vt <> []) by discriminate.
    destruct (insert_spec d (v0 :: vt) Hv _ n (keybytes_to_hex kb) Hc (keybytes_to_hex_wfk _ Hkb) (fuel_of_gt _))
      as (b & n' & Hi & Hc' & _ & _ & _ & Hs).
    rewrite Hi. cbn [rbind snd]. exists n'. split; auto. split; auto.
    intros k w. unfold ins_spec in Hs. rewrite Hs, Hr. cbn [mupd]. split.
    + intros [[-> ->]|[Hne (kb' & Hb' & -> & -> & Hw)]].
      * exists kb. rewrite beq_refl. repeat split; auto.
      * exists kb'. repeat split; auto. destruct (beq kb' kb) eqn:E; auto. apply beq_eq in E. congruence.
    + intros (kb' & Hb' & -> & -> & Hw). destruct (beq kb' kb) eqn:E.
      * apply beq_eq in E. subst. auto.
      * right. split; [|eauto]. intros Heq. apply keybytes_to_hex_inj in Heq; auto. subst.
        rewrite beq_refl in E. discriminate.
Qed.

Lemma run_represents ops : forall m n,
  represents m n -> Forall (fun o => is_bytes (mop_key o)) ops ->
  exists n', run n ops = Ok n' /\ represents (content m ops) n'.
Proof.
  induction ops as [|o t IH]; intros m n Hrep Hk; cbn [run content]; eauto.
  inversion Hk as [|? ? Ho Ht]; subst.
  assert (Hstep : exists n1, apply_op n o = Ok n1 /\ represents (mupd m o) n1).
  { destruct o as [k v|k]; cbn [apply_op]; cbn in Ho.
    - apply represents_update; auto.
    - apply represents_delete; auto. }
  destruct Hstep as (n1 & Ha & Hr1). rewrite Ha. cbn [rbind]. apply IH; auto.
Qed.

Lemma represents_empty : represents (fun _ => []) Empty.
Proof.
  split; [constructor|]. intros k w. split; [inversion 1|]. intros (kb & _ & _ & -> & Hw). congruence.
Qed.

Lemma represents_get m n kb : represents m n -> is_bytes kb -> trie_get d n kb = Ok (m kb, n).
Proof.
  intros [Hc Hr] Hkb. unfold trie_get.
  destruct (get_spec d _ n (keybytes_to_hex kb) Hc (keybytes_to_hex_wfk _ Hkb) (fuel_of_gt _))
    as (v & Hg & Hok).
  rewrite Hg. f_equal. f_equal. destruct Hok as [[-> Hno]|[Hv Hh]].
  - destruct (m kb) eqn:E; auto. exfalso. apply (Hno (m kb)). apply Hr. exists kb.
    repeat split; auto. rewrite E. discriminate.
  - apply Hr in Hh as (kb' & Hb' & Heq & -> & _). apply keybytes_to_hex_inj in Heq; auto. congruence.
Qed.

Lemma represents_unique m1 m2 n1 n2 :
  represents m1 n1 -> represents m2 n2 ->
  (forall kb, is_bytes kb -> m1 kb = m2 kb) -> erase n1 = erase n2.
Proof.
  intros [Hc1 Hr1] [Hc2 Hr2] Hm. apply canon_unique; auto.
  intros k w. rewrite Hr1, Hr2. split; intros (kb & Hb & -> & -> & Hw); exists kb;
    (split; [auto|split; [auto|split]]); rewrite ?Hm in *; auto; rewrite <- ?Hm; auto.
Qed.

End WithDb.
