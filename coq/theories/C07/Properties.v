(** C07 — property theorems only. *)
From Coq Require Import List NArith Arith Bool.
From Kardia Require Import C07.Model.
